import TomlVerif.Lemmas.Tiling03NestDefs
/-! C03, nested documents — tree lemmas: key paths with the same spelling print alike, the text
    of a table whose last child changes, and the two `descend` runs of a header (`start_table` /
    `start_array_table`, then `finalize_table`) along the right spine of the root. -/
namespace TomlVerif.Lemmas.Tiling03Nest
open TomlVerif TomlVerif.Spec TomlVerif.Model TomlVerif.Model.Strings TomlVerif.Model.Value
open TomlVerif.Model.Cst TomlVerif.Model.Encode TomlVerif.Lemmas.Cst03 TomlVerif.Lemmas.Tiling03
open TomlVerif.Lemmas.Tiling03Hdr

/-! ### `lastEntry` -/

theorem lastEntry_some (k : Bytes) (items init : Items) (k' : CKey) (it : CItem)
    (h : lastEntry k items = some (init, k', it)) :
    items = init ++ [(k', it)] ∧ (k'.key == k) = true ∧ clookup k init = none ∧ clookup k items = some it := by
  unfold lastEntry at h
  split at h
  · rename_i init0 k0 it0 hsl
    have hi := vsplitLast_some _ _ _ hsl
    split at h
    · rename_i hc
      simp only [Bool.and_eq_true, Option.isNone_iff_eq_none] at hc
      injection h with h
      simp only [Prod.mk.injEq] at h
      obtain ⟨e1, e2, e3⟩ := h
      subst e1; subst e2; subst e3
      refine ⟨hi, hc.1, hc.2, ?_⟩
      rw [hi, clookup_append_none _ _ _ hc.2, clookup_single, hc.1]; rfl
    · cases h
  · cases h

theorem cset_none (k : CKey) (x : CItem) (l : Items) (h : clookup k.key l = none) : cset k x l = l ++ [(k, x)] := by
  unfold cset; rw [h]

theorem cset_last (k k' : CKey) (x y : CItem) (init : Items) (hk : (k'.key == k.key) = true)
    (hn : clookup k.key init = none) : cset k x (init ++ [(k', y)]) = init ++ [(k', x)] := by
  unfold cset
  have : clookup k.key (init ++ [(k', y)]) = some y := by
    rw [clookup_append_none _ _ _ hn, clookup_single, hk]; rfl
  rw [this]
  exact creplace_snoc _ _ _ _ hk init hn

theorem setItems_self (t : CTbl) : t.setItems t.items = t := by
  cases t; rfl

@[simp] theorem setItems_implicit (t : CTbl) (i : Items) : (t.setItems i).implicit = t.implicit := by
  simp [CTbl.setItems, CTbl.implicit]

@[simp] theorem setItems_decor (t : CTbl) (i : Items) : (t.setItems i).decor = t.decor := by
  simp [CTbl.setItems, CTbl.decor]

@[simp] theorem setItems_setItems (t : CTbl) (i j : Items) : (t.setItems i).setItems j = t.setItems j := by
  cases t; rfl

/-! ### key paths with the same spelling -/

def SegEq (f : Bytes → Bytes) (inp : Bytes) (k k' : CKey) : Prop :=
  encodeKey inp k = encodeKey inp k' ∧ prefixEncode f inp k.dotted [] = prefixEncode f inp k'.dotted [] ∧
  suffixEncode f inp k.dotted [] = suffixEncode f inp k'.dotted []

def LeafEq (f : Bytes → Bytes) (inp : Bytes) (k k' : CKey) : Prop :=
  SegEq f inp k k' ∧ (∀ dp, prefixEncode f inp k.leaf dp = prefixEncode f inp k'.leaf dp) ∧
  (∀ ds, suffixEncode f inp k.leaf ds = suffixEncode f inp k'.leaf ds)

theorem SegEq.refl (f : Bytes → Bytes) (inp : Bytes) (k : CKey) : SegEq f inp k k := ⟨rfl, rfl, rfl⟩
theorem LeafEq.refl (f : Bytes → Bytes) (inp : Bytes) (k : CKey) : LeafEq f inp k k :=
  ⟨SegEq.refl f inp k, fun _ => rfl, fun _ => rfl⟩
theorem SegEq.symm {f : Bytes → Bytes} {inp : Bytes} {k k' : CKey} (h : SegEq f inp k k') : SegEq f inp k' k :=
  ⟨h.1.symm, h.2.1.symm, h.2.2.symm⟩
theorem LeafEq.symm {f : Bytes → Bytes} {inp : Bytes} {k k' : CKey} (h : LeafEq f inp k k') : LeafEq f inp k' k :=
  ⟨h.1.symm, fun dp => (h.2.1 dp).symm, fun ds => (h.2.2 ds).symm⟩

theorem decTxt_encode (f : Bytes → Bytes) (inp : Bytes) (d d' : Decor) (h : decTxt inp d = decTxt inp d') :
    (∀ dp, prefixEncode f inp d dp = prefixEncode f inp d' dp) ∧
    (∀ ds, suffixEncode f inp d ds = suffixEncode f inp d' ds) := by
  obtain ⟨p, s⟩ := d
  obtain ⟨p', s'⟩ := d'
  simp only [decTxt, Prod.mk.injEq] at h
  obtain ⟨h1, h2⟩ := h
  constructor
  · intro dp
    cases p <;> cases p' <;> simp [prefixEncode, encRaw] at h1 ⊢
    rw [h1]
  · intro ds
    cases s <;> cases s' <;> simp [suffixEncode, encRaw] at h2 ⊢
    rw [h2]

theorem sameSeg_segEq (f : Bytes → Bytes) (inp : Bytes) (k k' : CKey) (h : sameSeg inp k k' = true) :
    SegEq f inp k k' := by
  simp only [sameSeg, Bool.and_eq_true, beq_iff_eq] at h
  obtain ⟨a, b⟩ := decTxt_encode f inp _ _ h.2
  exact ⟨h.1, a [], b []⟩

theorem sameLeaf_leafEq (f : Bytes → Bytes) (inp : Bytes) (k k' : CKey) (h : sameLeaf inp k k' = true) :
    LeafEq f inp k k' := by
  simp only [sameLeaf, Bool.and_eq_true, beq_iff_eq] at h
  obtain ⟨a, b⟩ := decTxt_encode f inp _ _ h.2
  exact ⟨sameSeg_segEq f inp k k' h.1, a, b⟩

theorem sameLeaf_refl (inp : Bytes) (k : CKey) : sameLeaf inp k k = true := by
  simp [sameLeaf, sameSeg]

theorem sameSeg_refl (inp : Bytes) (k : CKey) : sameSeg inp k k = true := by
  simp [sameSeg]

inductive SegsEq (f : Bytes → Bytes) (inp : Bytes) : List CKey → List CKey → Prop
  | nil : SegsEq f inp [] []
  | cons {k k' : CKey} {r r' : List CKey} : SegEq f inp k k' → SegsEq f inp r r' → SegsEq f inp (k :: r) (k' :: r')

theorem SegsEq.refl (f : Bytes → Bytes) (inp : Bytes) : ∀ l : List CKey, SegsEq f inp l l
  | [] => .nil
  | k :: r => .cons (SegEq.refl f inp k) (SegsEq.refl f inp r)

theorem SegsEq.snoc {f : Bytes → Bytes} {inp : Bytes} {P Q : List CKey} {k k' : CKey}
    (h : SegsEq f inp P Q) (hk : SegEq f inp k k') : SegsEq f inp (P ++ [k]) (Q ++ [k']) := by
  induction h with
  | nil => exact .cons hk .nil
  | cons h1 _ ih => exact .cons h1 ih

theorem SegsEq.isEmpty {f : Bytes → Bytes} {inp : Bytes} {P Q : List CKey} (h : SegsEq f inp P Q) :
    P.isEmpty = Q.isEmpty := by
  cases h <;> rfl

theorem encodeKeyPathAux_congr (f : Bytes → Bytes) (inp : Bytes) (leaf leaf' : Decor) (dp ds : Bytes)
    (hp : prefixEncode f inp leaf dp = prefixEncode f inp leaf' dp)
    (hs : suffixEncode f inp leaf ds = suffixEncode f inp leaf' ds) {X Y : List CKey} (h : SegsEq f inp X Y) :
    ∀ first, encodeKeyPathAux f inp leaf dp ds first X = encodeKeyPathAux f inp leaf' dp ds first Y := by
  induction h with
  | nil => intro first; rfl
  | cons h1 h2 ih =>
    intro first
    simp only [encodeKeyPathAux]
    rw [ih false, h1.1, h1.2.1, h1.2.2, hp, hs, h2.isEmpty]

theorem encodeKeyPath_congr (f : Bytes → Bytes) (inp : Bytes) (P Q : List CKey) (L L' : CKey) (dp ds : Bytes)
    (h : SegsEq f inp P Q) (hl : LeafEq f inp L L') :
    encodeKeyPath f inp (P ++ [L]) dp ds = encodeKeyPath f inp (Q ++ [L']) dp ds := by
  unfold encodeKeyPath
  simp only [List.getLast?_append, List.getLast?_singleton, Option.some_or]
  exact encodeKeyPathAux_congr f inp _ _ dp ds (hl.2.1 dp) (hl.2.2 ds) (h.snoc hl.1) true

/-! ### the text of one table -/

theorem entText_path_congr (f : Bytes → Bytes) (inp : Bytes) (t : CTbl) (X Y : List CKey) (a : Bool)
    (hX : X ≠ []) (hY : Y ≠ []) (h : encodeKeyPath f inp X [] [] = encodeKeyPath f inp Y [] []) :
    entText f inp t X a = entText f inp t Y a := by
  have e1 : X.isEmpty = false := by cases X <;> simp_all
  have e2 : Y.isEmpty = false := by cases Y <;> simp_all
  simp only [entText, visitTable, e1, e2, h]

theorem entText_tbl_congr (f : Bytes → Bytes) (inp : Bytes) (t t' : CTbl) (P : List CKey) (a : Bool)
    (h1 : t'.implicit = t.implicit) (h2 : t'.decor = t.decor)
    (h3 : valuesTbl t'.items [] = valuesTbl t.items []) : entText f inp t' P a = entText f inp t P a := by
  simp only [entText, visitTable, h1, h2, h3]

theorem entText_setItems (f : Bytes → Bytes) (inp : Bytes) (t : CTbl) (I J : Items) (P : List CKey) (a : Bool)
    (h : valuesTbl I [] = valuesTbl J []) : entText f inp (t.setItems I) P a = entText f inp (t.setItems J) P a :=
  entText_tbl_congr f inp _ _ P a (by simp) (by simp) (by simpa using h)

theorem textTbl_eq (f : Bytes → Bytes) (inp : Bytes) (t : CTbl) (P : List CKey) (a : Bool) :
    textTbl f inp t P a = (if t.dotted then [] else entText f inp t P a) ++ textItems f inp t.items P := by
  cases t; rw [textTbl]; rfl

theorem textItems_append (f : Bytes → Bytes) (inp : Bytes) : ∀ (x y : Items) (P : List CKey),
    textItems f inp (x ++ y) P = textItems f inp x P ++ textItems f inp y P
  | [], y, P => by simp [textItems]
  | (k, .table t) :: r, y, P => by
    simp only [List.cons_append, textItems, textItems_append f inp r y P, List.append_assoc]
  | (k, .aot ts sp) :: r, y, P => by
    simp only [List.cons_append, textItems, textItems_append f inp r y P, List.append_assoc]
  | (k, .value v) :: r, y, P => by
    simp only [List.cons_append, textItems, textItems_append f inp r y P]

theorem textAot_append (f : Bytes → Bytes) (inp : Bytes) : ∀ (x y : List CTbl) (P : List CKey),
    textAot f inp (x ++ y) P = textAot f inp x P ++ textAot f inp y P
  | [], y, P => by simp [textAot]
  | t :: r, y, P => by simp only [List.cons_append, textAot, textAot_append f inp r y P, List.append_assoc]

theorem valuesTbl_snoc_table (init : Items) (k : CKey) (c : CTbl) (hc : c.dotted = false) (p : List CKey) :
    valuesTbl (init ++ [(k, .table c)]) p = valuesTbl init p := by
  rw [valuesTbl_append]
  obtain ⟨items, imp, dot, q, dec, sp⟩ := c
  simp only [CTbl.dotted] at hc
  subst hc
  simp [valuesTbl, valuesDotted]

theorem valuesTbl_snoc_aot (init : Items) (k : CKey) (ts : List CTbl) (asp : Option Span) (p : List CKey) :
    valuesTbl (init ++ [(k, .aot ts asp)]) p = valuesTbl init p := by
  rw [valuesTbl_append]
  simp [valuesTbl]

/-- a non-dotted table whose last child is a non-dotted table -/
theorem textTbl_last_table (f : Bytes → Bytes) (inp : Bytes) (t : CTbl) (init : Items) (k' : CKey) (c : CTbl)
    (P : List CKey) (a : Bool) (ht : t.dotted = false) (hc : c.dotted = false) :
    textTbl f inp (t.setItems (init ++ [(k', .table c)])) P a =
      entText f inp (t.setItems init) P a ++ textItems f inp init P ++ textTbl f inp c (P ++ [k']) false := by
  rw [textTbl_eq, setItems_dotted, ht, setItems_items, textItems_append,
    entText_setItems f inp t _ init P a (valuesTbl_snoc_table init k' c hc [])]
  simp [textItems, List.append_assoc]

/-- a non-dotted table whose last child is an array of tables -/
theorem textTbl_last_aot (f : Bytes → Bytes) (inp : Bytes) (t : CTbl) (init : Items) (k' : CKey) (ts : List CTbl)
    (asp : Option Span) (P : List CKey) (a : Bool) (ht : t.dotted = false) :
    textTbl f inp (t.setItems (init ++ [(k', .aot ts asp)])) P a =
      entText f inp (t.setItems init) P a ++ textItems f inp init P ++ textAot f inp ts (P ++ [k']) := by
  rw [textTbl_eq, setItems_dotted, ht, setItems_items, textItems_append,
    entText_setItems f inp t _ init P a (valuesTbl_snoc_aot init k' ts asp [])]
  simp [textItems, List.append_assoc]

theorem textTbl_of_items (f : Bytes → Bytes) (inp : Bytes) (t : CTbl) (I : Items) (hI : t.items = I) (P : List CKey)
    (a : Bool) : textTbl f inp t P a = textTbl f inp (t.setItems I) P a := by
  subst hI; rw [setItems_self]

/-- an empty implicit table writes nothing -/
theorem textTbl_newImplicit (f : Bytes → Bytes) (inp : Bytes) (d : Bool) (P : List CKey) (k : CKey) :
    textTbl f inp (newImplicit d) (P ++ [k]) false = [] := by
  have hp : (P ++ [k]).isEmpty = false := by cases P <;> rfl
  cases d <;>
    simp [newImplicit, textTbl, textItems, entText, visitTable, hp, valuesTbl, encodeBody, CTbl.items, CTbl.implicit]

/-! ### the right spine of the root after `start_table` / `start_array_table` -/

/-- following the last items of `t` along the parent path `pp`, every segment spelled like the
    stored key, reaches the table where `key` is new (`a = false`) or names the last item, an
    array of tables spelled like `key` (`a = true`); every table on the way is undotted -/
def SpineP (inp : Bytes) (a : Bool) (key : CKey) : CTbl → List CKey → Prop
  | t, [] => t.dotted = false ∧
      (if a then ∃ init k' ts asp, t.items = init ++ [(k', .aot ts asp)] ∧ (k'.key == key.key) = true ∧
          clookup key.key init = none ∧ sameLeaf inp key k' = true
       else clookup key.key t.items = none)
  | t, k :: ks => t.dotted = false ∧ ∃ init k', clookup k.key init = none ∧ (k'.key == k.key) = true ∧
      sameSeg inp k k' = true ∧
      ((∃ sub, t.items = init ++ [(k', .table sub)] ∧ SpineP inp a key sub ks) ∨
       (∃ tsI l asp, t.items = init ++ [(k', .aot (tsI ++ [l]) asp)] ∧ SpineP inp a key l ks))

theorem spineP_dotted {inp : Bytes} {a : Bool} {key : CKey} {t : CTbl} {pp : List CKey}
    (h : SpineP inp a key t pp) : t.dotted = false := by
  cases pp with
  | nil => exact h.1
  | cons k ks => exact h.1

theorem pathOk_empty (inp : Bytes) (a : Bool) (key : CKey) (t : CTbl) (hi : t.items = []) (hd : t.dotted = false) :
    ∀ pp, pathOk inp a key t pp = true
  | [] => by simp [pathOk, hi, hd, clookup]
  | k :: ks => by simp [pathOk, hi, hd, clookup]

theorem reverse_cons_split {α} (ts : List α) (l : α) (r : List α) (h : ts.reverse = l :: r) :
    ts = r.reverse ++ [l] := by
  have := congrArg List.reverse h
  simpa using this

/-- `start_table` / `start_array_table` on a root that passes the header check: the new root has
    the spine of the header path and writes the same text -/
theorem start_spine (inp : Bytes) (a : Bool) (key : CKey) :
    ∀ (pp : List CKey) (t t' : CTbl), pathOk inp a key t pp = true →
      descend t pp false (if a then arrFn key else eraseFn key) = some t' →
      SpineP inp a key t' pp ∧ t'.implicit = t.implicit ∧ t'.decor = t.decor ∧
      valuesTbl t'.items [] = valuesTbl t.items [] ∧
      (∀ f P, textItems f inp t'.items P = textItems f inp t.items P) ∧
      (a = false → findTable key.key t pp = none) := by
  intro pp
  induction pp with
  | nil =>
    intro t t' hok hd
    rw [descend_nil] at hd
    simp only [pathOk, Bool.and_eq_true, Bool.not_eq_true'] at hok
    obtain ⟨hdot, hok⟩ := hok
    cases hl : clookup key.key t.items with
    | none =>
      cases a with
      | false =>
        simp only [Bool.false_eq_true, if_false] at hd
        unfold eraseFn at hd
        injection hd with hd
        rw [cerase_of_none _ _ hl, setItems_self] at hd
        subst hd
        refine ⟨⟨hdot, by simpa using hl⟩, rfl, rfl, rfl, fun _ _ => rfl, ?_⟩
        intro _
        simp [findTable, hl]
      | true =>
        simp only [if_true] at hd
        unfold arrFn at hd
        rw [hl] at hd
        simp only [] at hd
        injection hd with hd
        subst hd
        refine ⟨⟨by simpa using hdot, ?_⟩, by simp, by simp, ?_, ?_, ?_⟩
        · simp only [if_true, setItems_items]
          exact ⟨t.items, key, [], none, rfl, by simp, hl, sameLeaf_refl inp key⟩
        · rw [setItems_items]; exact valuesTbl_snoc_aot _ _ _ _ _
        · intro f P
          rw [setItems_items, textItems_append]
          simp [textItems, textAot]
        · intro h; cases h
    | some y =>
      rw [hl] at hok
      simp only [Bool.and_eq_true] at hok
      obtain ⟨ha, hok⟩ := hok
      subst ha
      simp only [if_true] at hd
      split at hok
      · rename_i init k' ts asp hle
        obtain ⟨e1, e2, e3, e4⟩ := lastEntry_some _ _ _ _ _ hle
        unfold arrFn at hd
        rw [e4] at hd
        simp only [] at hd
        injection hd with hd
        subst hd
        refine ⟨⟨hdot, ?_⟩, rfl, rfl, rfl, fun _ _ => rfl, ?_⟩
        · simp only [if_true]
          exact ⟨init, k', ts, asp, e1, e2, e3, hok⟩
        · intro h; cases h
      · cases hok
  | cons k ks ih =>
    intro t t' hok hd
    simp only [pathOk, Bool.and_eq_true, Bool.not_eq_true'] at hok
    obtain ⟨hdot, hok⟩ := hok
    obtain ⟨x, et', hx⟩ := descend_cons_shape _ _ _ _ _ _ hd
    cases hl : clookup k.key t.items with
    | none =>
      rw [hl] at hx
      simp only [Option.getD_none] at hx
      rcases hx with ⟨sub, sub', e1, hd', e2⟩ | ⟨_, _, _, _, e1, _⟩
      · injection e1 with e1
        subst e1; subst e2
        obtain ⟨i1, i2, i3, i4, i5, i6⟩ := ih _ _ (pathOk_empty inp a key _ rfl rfl ks) hd'
        rw [cset_none _ _ _ hl] at et'
        subst et'
        have hsd : sub'.dotted = false := spineP_dotted i1
        refine ⟨⟨by simpa using hdot, t.items, k, hl, by simp, sameSeg_refl inp k, Or.inl ⟨sub', by simp, i1⟩⟩,
          by simp, by simp, ?_, ?_, ?_⟩
        · rw [setItems_items]; exact valuesTbl_snoc_table _ _ _ hsd _
        · intro f P
          rw [setItems_items, textItems_append]
          have h0 : textTbl f inp sub' (P ++ [k]) false = [] := by
            rw [textTbl_eq, hsd, i5 f (P ++ [k])]
            simp only [Bool.false_eq_true, if_false]
            rw [entText_tbl_congr f inp _ _ _ _ i2 i3 i4]
            have := textTbl_newImplicit f inp false P k
            rw [textTbl_eq] at this
            exact this
          simp [textItems, h0]
        · intro _
          simp [findTable, hl]
      · cases e1
    | some y =>
      rw [hl] at hok hx
      simp only [Option.getD_some] at hx hok
      split at hok
      · rename_i init k' sub hle
        obtain ⟨e1, e2, e3, e4⟩ := lastEntry_some _ _ _ _ _ hle
        simp only [Bool.and_eq_true] at hok
        rw [hl] at e4
        injection e4 with e4
        subst e4
        rcases hx with ⟨sub0, sub', e5, hd', e6⟩ | ⟨_, _, _, _, e5, _⟩
        · injection e5 with e5
          subst e5; subst e6
          obtain ⟨i1, i2, i3, i4, i5, i6⟩ := ih _ _ hok.2 hd'
          have hsd : sub'.dotted = false := spineP_dotted i1
          have hsd0 : sub.dotted = false := by
            have := hok.2
            cases ks <;> simp only [pathOk, Bool.and_eq_true, Bool.not_eq_true'] at this <;> exact this.1
          have hcs : cset k (.table sub') t.items = init ++ [(k', .table sub')] := by
            rw [e1]; exact cset_last _ _ _ _ _ e2 e3
          rw [hcs] at et'
          subst et'
          refine ⟨⟨by simpa using hdot, init, k', e3, e2, hok.1, Or.inl ⟨sub', by simp, i1⟩⟩, by simp, by simp, ?_, ?_, ?_⟩
          · rw [setItems_items, e1, valuesTbl_snoc_table _ _ _ hsd, valuesTbl_snoc_table _ _ _ hsd0]
          · intro f P
            rw [setItems_items, e1, textItems_append, textItems_append]
            simp only [textItems, List.append_nil]
            rw [textTbl_eq, textTbl_eq f inp sub, hsd, hsd0, i5 f, entText_tbl_congr f inp _ _ _ _ i2 i3 i4]
          · intro ha
            simp only [findTable, hl]
            exact i6 ha
        · cases e5
      · rename_i init k' ts asp hle
        obtain ⟨e1, e2, e3, e4⟩ := lastEntry_some _ _ _ _ _ hle
        simp only [Bool.and_eq_true] at hok
        rw [hl] at e4
        injection e4 with e4
        subst e4
        rcases hx with ⟨_, _, e5, _, _⟩ | ⟨tsI, l, l', asp', e5, hd', e6⟩
        · cases e5
        · injection e5 with e5 e5'
          subst e5; subst e5'; subst e6
          have hrev : (tsI ++ [l]).reverse = l :: tsI.reverse := by simp
          obtain ⟨hseg, hok2⟩ := hok
          rw [hrev] at hok2
          simp only [] at hok2
          obtain ⟨i1, i2, i3, i4, i5, i6⟩ := ih _ _ hok2 hd'
          have hsd : l'.dotted = false := spineP_dotted i1
          have hsd0 : l.dotted = false := by
            have := hok2
            cases ks <;> simp only [pathOk, Bool.and_eq_true, Bool.not_eq_true'] at this <;> exact this.1
          have hcs : cset k (.aot (tsI ++ [l']) asp) t.items = init ++ [(k', .aot (tsI ++ [l']) asp)] := by
            rw [e1]; exact cset_last _ _ _ _ _ e2 e3
          rw [hcs] at et'
          subst et'
          refine ⟨⟨by simpa using hdot, init, k', e3, e2, hseg, Or.inr ⟨tsI, l', asp, by simp, i1⟩⟩, by simp, by simp, ?_, ?_, ?_⟩
          · rw [setItems_items, e1, valuesTbl_snoc_aot, valuesTbl_snoc_aot]
          · intro f P
            rw [setItems_items, e1, textItems_append, textItems_append]
            simp only [textItems, List.append_nil]
            rw [textAot_append, textAot_append]
            simp only [textAot, List.append_nil]
            rw [textTbl_eq, textTbl_eq f inp l, hsd, hsd0, i5 f, entText_tbl_congr f inp _ _ _ _ i2 i3 i4]
          · intro ha
            simp only [findTable, hl, hrev]
            exact i6 ha
      · cases hok

end TomlVerif.Lemmas.Tiling03Nest
