import TomlVerif.Lemmas.TypedGapsParsedA
import TomlVerif.Lemmas.TypedGapsParsedB
import TomlVerif.Lemmas.TypedGapsParsedC
/-! Lemmas for Props/C13TypedParsed (umbrella): part A — the two halves of `WfTV` (`WfTV'`, `NoPrivTV`), association
    lists by membership; part B — values (`value_one_good`, `inlInsert_good`, `tableFromPairs_good`, `semQ_good`);
    part C — the definition state machine (`descend_good`, the handlers, `run_good`) and `parseDocument_good`. -/
