import TomlVerif.Lemmas.Tiling03HdrRel
/-! Item-list facts for the header case of C03: key uniqueness of an item list, the "witness"
    items that keep a document outside the flat class, and how `cset` / `creplace` / `cerase` /
    `descend` act on them. -/
namespace TomlVerif.Lemmas.Tiling03Hdr
open TomlVerif TomlVerif.Spec TomlVerif.Model TomlVerif.Model.Strings TomlVerif.Model.Value
open TomlVerif.Model.Cst TomlVerif.Model.Encode TomlVerif.Lemmas.Cst03 TomlVerif.Lemmas.Tiling03

abbrev Items := List (CKey × CItem)

/-! ### lookups -/

theorem clookup_append_none (k : Bytes) : ∀ (a b : Items), clookup k a = none → clookup k (a ++ b) = clookup k b
  | [], b, _ => rfl
  | (k', v) :: r, b, h => by
    unfold clookup at h
    split at h
    · cases h
    · rename_i hk
      simp only [List.cons_append, clookup, hk]
      exact clookup_append_none k r b h

theorem clookup_append_some (k : Bytes) (x : CItem) : ∀ (a b : Items), clookup k a = some x → clookup k (a ++ b) = some x
  | [], b, h => by simp [clookup] at h
  | (k', v) :: r, b, h => by
    unfold clookup at h
    split at h
    · rename_i hk; simp only [List.cons_append, clookup, hk, if_true]; exact h
    · rename_i hk
      simp only [List.cons_append, clookup, hk]
      exact clookup_append_some k x r b h

theorem clookup_single (k : Bytes) (k' : CKey) (x : CItem) :
    clookup k [(k', x)] = if k'.key == k then some x else none := by
  simp [clookup]

theorem clookup_creplace_isNone (k k2 : Bytes) (x : CItem) : ∀ l : Items,
    (clookup k2 (creplace k x l)).isNone = (clookup k2 l).isNone
  | [] => rfl
  | (k', v) :: r => by
    unfold creplace
    split
    · simp only [clookup]; split <;> rfl
    · simp only [clookup]; split
      · rfl
      · exact clookup_creplace_isNone k k2 x r

theorem cerase_of_none (k : Bytes) : ∀ l : Items, clookup k l = none → cerase k l = l
  | [], _ => rfl
  | (k', v) :: r, h => by
    unfold clookup at h
    split at h
    · cases h
    · rename_i hk
      simp only [cerase, hk]
      rw [cerase_of_none k r h]; rfl

theorem clookup_cerase_isNone (k k2 : Bytes) : ∀ l : Items, clookup k2 l = none → clookup k2 (cerase k l) = none
  | [], _ => rfl
  | (k', v) :: r, h => by
    unfold clookup at h
    split at h
    · cases h
    · rename_i hk
      unfold cerase
      split
      · exact h
      · simp only [clookup, hk]
        exact clookup_cerase_isNone k k2 r h

theorem creplace_snoc (k : Bytes) (x y : CItem) (k' : CKey) (hk : (k'.key == k) = true) :
    ∀ r0 : Items, clookup k r0 = none → creplace k x (r0 ++ [(k', y)]) = r0 ++ [(k', x)]
  | [], _ => by simp [creplace, hk]
  | (k2, v) :: r, h => by
    unfold clookup at h
    split at h
    · cases h
    · rename_i hk2
      simp only [List.cons_append, creplace, hk2]
      rw [creplace_snoc k x y k' hk r h]; rfl

/-! ### key uniqueness -/

def nodupK : Items → Bool
  | [] => true
  | (k, _) :: r => (clookup k.key r).isNone && nodupK r

theorem nodupK_creplace (k : Bytes) (x : CItem) : ∀ l : Items, nodupK l = true → nodupK (creplace k x l) = true
  | [], _ => rfl
  | (k', v) :: r, h => by
    simp only [nodupK, Bool.and_eq_true] at h
    unfold creplace
    split
    · simp only [nodupK, Bool.and_eq_true]; exact h
    · simp only [nodupK, Bool.and_eq_true]
      exact ⟨by rw [clookup_creplace_isNone]; exact h.1, nodupK_creplace k x r h.2⟩

theorem beq_comm_false {a b : Bytes} (h : (a == b) = false) : (b == a) = false := by
  cases hb : b == a with
  | false => rfl
  | true =>
    have : b = a := by simpa using hb
    subst this; simp at h

theorem nodupK_snoc (k : CKey) (x : CItem) : ∀ l : Items, nodupK l = true → clookup k.key l = none →
    nodupK (l ++ [(k, x)]) = true
  | [], _, _ => by simp [nodupK, clookup]
  | (k', v) :: r, h, hl => by
    simp only [nodupK, Bool.and_eq_true] at h
    unfold clookup at hl
    split at hl
    · cases hl
    · rename_i hk
      have hk' : (k'.key == k.key) = false := by simpa using hk
      simp only [List.cons_append, nodupK, Bool.and_eq_true]
      refine ⟨?_, nodupK_snoc k x r h.2 hl⟩
      have hn : clookup k'.key r = none := by simpa using h.1
      rw [clookup_append_none _ r _ hn, clookup_single, beq_comm_false hk']
      rfl

theorem nodupK_cset (k : CKey) (x : CItem) (l : Items) (h : nodupK l = true) : nodupK (cset k x l) = true := by
  unfold cset
  split
  · exact nodupK_creplace _ _ _ h
  · rename_i hn; exact nodupK_snoc k x l h hn

theorem nodupK_cerase (k : Bytes) : ∀ l : Items, nodupK l = true → nodupK (cerase k l) = true
  | [], _ => rfl
  | (k', v) :: r, h => by
    simp only [nodupK, Bool.and_eq_true] at h
    unfold cerase
    split
    · exact h.2
    · simp only [nodupK, Bool.and_eq_true]
      refine ⟨?_, nodupK_cerase k r h.2⟩
      have hn : clookup k'.key r = none := by simpa using h.1
      rw [clookup_cerase_isNone k k'.key r hn]; rfl

theorem clookup_congr_key {a b : Bytes} (h : (a == b) = true) (l : Items) : clookup a l = clookup b l := by
  have : a = b := by simpa using h
  rw [this]

theorem clookup_cerase_self (k : Bytes) : ∀ l : Items, nodupK l = true → clookup k (cerase k l) = none
  | [], _ => rfl
  | (k', v) :: r, h => by
    simp only [nodupK, Bool.and_eq_true] at h
    unfold cerase
    split
    · rename_i hk
      have hn : clookup k'.key r = none := by simpa using h.1
      rw [← clookup_congr_key hk r]; exact hn
    · rename_i hk
      simp only [clookup, hk]
      exact clookup_cerase_self k r h.2

/-! ### witnesses: items that cannot occur in a flat document -/

def wItem : CItem → Bool
  | .value v => !simpleVal v
  | .table t => t.dotted || !simpleBody t.items
  | .aot ts _ => decide (2 ≤ ts.length) || ts.any (fun t => !simpleBody t.items)

def anyW (l : Items) : Bool := l.any (fun kv => wItem kv.2)

theorem anyW_append (a b : Items) : anyW (a ++ b) = (anyW a || anyW b) := by
  simp [anyW]

theorem anyW_cons (kv : CKey × CItem) (r : Items) : anyW (kv :: r) = (wItem kv.2 || anyW r) := by
  simp [anyW]

theorem anyW_notSimple : ∀ l : Items, anyW l = true → simpleBody l = false
  | [], h => by simp [anyW] at h
  | (k, .value v) :: r, h => by
    rw [anyW_cons] at h
    simp only [Bool.or_eq_true] at h
    rcases h with h | h
    · simp [wItem] at h; simp [simpleBody, h]
    · simp [simpleBody, anyW_notSimple r h]
  | (k, .table _) :: r, _ => by simp [simpleBody]
  | (k, .aot _ _) :: r, _ => by simp [simpleBody]

theorem leafTbl_not_w (t : CTbl) (h : leafTbl t = true) : t.dotted = false ∧ simpleBody t.items = true := by
  obtain ⟨items, imp, dot, p, dec, sp⟩ := t
  simp only [leafTbl, Bool.and_eq_true, Bool.not_eq_true'] at h
  exact ⟨h.1.1.1.1.2, h.2⟩

theorem anyW_notFlat : ∀ l : Items, anyW l = true → flatItems l = false
  | [], h => by simp [anyW] at h
  | (k, .value v) :: r, h => by
    rw [anyW_cons] at h
    simp only [Bool.or_eq_true] at h
    rcases h with h | h
    · simp [wItem] at h; simp [flatItems, h]
    · simp [flatItems, anyW_notFlat r h]
  | (k, .table t) :: r, h => by
    rw [anyW_cons] at h
    simp only [Bool.or_eq_true] at h
    rcases h with h | h
    · cases hl : leafTbl t with
      | false => simp [flatItems, hl]
      | true =>
        obtain ⟨h1, h2⟩ := leafTbl_not_w t hl
        simp [wItem, h1, h2] at h
    · simp [flatItems, anyW_notFlat r h]
  | (k, .aot [] _) :: r, _ => by simp [flatItems]
  | (k, .aot [t] _) :: r, h => by
    rw [anyW_cons] at h
    simp only [Bool.or_eq_true] at h
    rcases h with h | h
    · cases hl : leafTbl t with
      | false => simp [flatItems, hl]
      | true =>
        obtain ⟨h1, h2⟩ := leafTbl_not_w t hl
        simp [wItem, h2] at h
    · simp [flatItems, anyW_notFlat r h]
  | (k, .aot (_ :: _ :: _) _) :: r, _ => by simp [flatItems]

theorem anyW_creplace (k : Bytes) (x : CItem) : ∀ l : Items, anyW l = true →
    (∀ y, clookup k l = some y → wItem y = true → wItem x = true) → anyW (creplace k x l) = true
  | [], h, _ => by simp [anyW] at h
  | (k', v) :: r, h, hx => by
    rw [anyW_cons] at h
    simp only [Bool.or_eq_true] at h
    unfold creplace
    split
    · rename_i hk
      rw [anyW_cons]
      simp only [Bool.or_eq_true]
      rcases h with h | h
      · exact Or.inl (hx v (by simp [clookup, hk]) h)
      · exact Or.inr h
    · rename_i hk
      rw [anyW_cons]
      simp only [Bool.or_eq_true]
      rcases h with h | h
      · exact Or.inl h
      · exact Or.inr (anyW_creplace k x r h (fun y hy => hx y (by simp only [clookup, hk]; exact hy)))

theorem anyW_creplace_new (k : Bytes) (x : CItem) (hx : wItem x = true) : ∀ (l : Items) (y : CItem),
    clookup k l = some y → anyW (creplace k x l) = true
  | [], _, h => by simp [clookup] at h
  | (k', v) :: r, y, h => by
    unfold clookup at h
    unfold creplace
    split at h
    · rename_i hk; simp only [hk, if_true]; rw [anyW_cons]; simp [hx]
    · rename_i hk
      simp only [hk, Bool.false_eq_true, if_false]
      rw [anyW_cons, anyW_creplace_new k x hx r y h]; simp

theorem anyW_cset_new (k : CKey) (x : CItem) (hx : wItem x = true) (l : Items) : anyW (cset k x l) = true := by
  unfold cset
  split
  · rename_i y hy; exact anyW_creplace_new _ _ hx l y hy
  · rw [anyW_append]; simp [anyW, hx]

theorem anyW_cset (k : CKey) (x : CItem) (l : Items) (h : anyW l = true)
    (hx : ∀ y, clookup k.key l = some y → wItem y = true → wItem x = true) : anyW (cset k x l) = true := by
  unfold cset
  split
  · exact anyW_creplace _ _ l h hx
  · rw [anyW_append, h]; rfl

theorem anyW_cerase (k : Bytes) : ∀ l : Items, anyW l = true →
    (∀ y, clookup k l = some y → wItem y = false) → anyW (cerase k l) = true
  | [], h, _ => by simp [anyW] at h
  | (k', v) :: r, h, hx => by
    rw [anyW_cons] at h
    simp only [Bool.or_eq_true] at h
    unfold cerase
    split
    · rename_i hk
      rcases h with h | h
      · have := hx v (by simp [clookup, hk])
        rw [this] at h; cases h
      · exact h
    · rename_i hk
      rw [anyW_cons]
      simp only [Bool.or_eq_true]
      rcases h with h | h
      · exact Or.inl h
      · exact Or.inr (anyW_cerase k r h (fun y hy => hx y (by simp only [clookup, hk]; exact hy)))

/-! ### `descend` -/

theorem modifyLast_some (ts ts' : List CTbl) (g : CTbl → Option CTbl) (h : modifyLast ts g = some ts') :
    ∃ init l l', ts = init ++ [l] ∧ g l = some l' ∧ ts' = init ++ [l'] := by
  unfold modifyLast at h
  split at h
  · cases h
  · rename_i l initRev hrev
    split at h
    · rename_i l' hg
      injection h with h
      refine ⟨initRev.reverse, l, l', ?_, hg, h.symm⟩
      have := congrArg List.reverse hrev
      simpa using this
    · cases h

/-- the shape of a successful `descend` along a non-empty path -/
theorem descend_cons_shape (t t' : CTbl) (k : CKey) (ks : List CKey) (d : Bool) (f : CTbl → Option CTbl)
    (h : descend t (k :: ks) d f = some t') :
    ∃ x, t' = t.setItems (cset k x t.items) ∧
      ((∃ sub sub', (clookup k.key t.items).getD (.table (newImplicit d)) = .table sub ∧
          descend sub ks d f = some sub' ∧ x = .table sub') ∨
       (∃ init l l' sp, (clookup k.key t.items).getD (.table (newImplicit d)) = .aot (init ++ [l]) sp ∧
          descend l ks d f = some l' ∧ x = .aot (init ++ [l']) sp)) := by
  unfold descend at h
  simp only [] at h
  split at h
  · cases h
  · rename_i ts sp hent
    split at h
    · cases h
    · split at h
      · rename_i ts' hm
        injection h with h
        obtain ⟨init, l, l', e1, e2, e3⟩ := modifyLast_some _ _ _ hm
        subst e1; subst e3
        exact ⟨_, h.symm, Or.inr ⟨init, l, l', sp, hent, e2, rfl⟩⟩
      · cases h
  · rename_i sub hent
    split at h
    · cases h
    · split at h
      · rename_i sub' hd
        injection h with h
        exact ⟨_, h.symm, Or.inl ⟨sub, sub', hent, hd, rfl⟩⟩
      · cases h

theorem descend_nil (t : CTbl) (d : Bool) (f : CTbl → Option CTbl) : descend t [] d f = f t := by
  unfold descend; rfl

theorem descend_nodup (t t' : CTbl) (path : List CKey) (d : Bool) (f : CTbl → Option CTbl)
    (hf : ∀ p p', f p = some p' → nodupK p.items = true → nodupK p'.items = true)
    (hn : nodupK t.items = true) (h : descend t path d f = some t') : nodupK t'.items = true := by
  cases path with
  | nil => rw [descend_nil] at h; exact hf _ _ h hn
  | cons k ks =>
    obtain ⟨x, e, _⟩ := descend_cons_shape _ _ _ _ _ _ h
    subst e
    rw [setItems_items]; exact nodupK_cset _ _ _ hn

theorem descend_notSimple (t t' : CTbl) (path : List CKey) (d : Bool) (f : CTbl → Option CTbl)
    (hf : ∀ p p', f p = some p' → simpleBody p.items = false → simpleBody p'.items = false)
    (hn : simpleBody t.items = false) (h : descend t path d f = some t') : simpleBody t'.items = false := by
  cases path with
  | nil => rw [descend_nil] at h; exact hf _ _ h hn
  | cons k ks => exact descend_cons_notSimple _ _ _ _ _ _ h

@[simp] theorem setItems_dotted (t : CTbl) (i : Items) : (t.setItems i).dotted = t.dotted := by
  simp [CTbl.setItems, CTbl.dotted]

theorem descend_dotted (t t' : CTbl) (path : List CKey) (d : Bool) (f : CTbl → Option CTbl)
    (hf : ∀ p p', f p = some p' → p'.dotted = p.dotted)
    (h : descend t path d f = some t') : t'.dotted = t.dotted := by
  cases path with
  | nil => rw [descend_nil] at h; exact hf _ _ h
  | cons k ks =>
    obtain ⟨x, e, _⟩ := descend_cons_shape _ _ _ _ _ _ h
    subst e; simp

/-- the item written at the head key by a `descend` whose callback always leaves a table or
    array behind (the callbacks of `finalize_table`): a witness -/
theorem descend_cons_insert_w (t t' : CTbl) (k : CKey) (ks : List CKey) (d : Bool) (f : CTbl → Option CTbl)
    (hf : ∀ p p', f p = some p' → simpleBody p'.items = false)
    (h : descend t (k :: ks) d f = some t') : anyW t'.items = true := by
  obtain ⟨x, e, hx⟩ := descend_cons_shape _ _ _ _ _ _ h
  subst e
  rw [setItems_items]
  apply anyW_cset_new
  rcases hx with ⟨sub, sub', _, hd, e⟩ | ⟨init, l, l', sp, _, hd, e⟩
  · subst e
    have := descend_insert_notSimple _ _ _ _ _ hf hd
    simp [wItem, this]
  · subst e
    have := descend_insert_notSimple _ _ _ _ _ hf hd
    simp [wItem, this]

/-- witnesses survive a `descend` along a non-empty path -/
theorem descend_cons_w (t t' : CTbl) (k : CKey) (ks : List CKey) (d : Bool) (f : CTbl → Option CTbl)
    (hf1 : ∀ p p', f p = some p' → simpleBody p.items = false → simpleBody p'.items = false)
    (hf2 : ∀ p p', f p = some p' → p'.dotted = p.dotted)
    (hw : anyW t.items = true) (h : descend t (k :: ks) d f = some t') : anyW t'.items = true := by
  obtain ⟨x, e, hx⟩ := descend_cons_shape _ _ _ _ _ _ h
  subst e
  rw [setItems_items]
  apply anyW_cset _ _ _ hw
  intro y hy hwy
  rw [hy] at hx
  simp only [Option.getD_some] at hx
  rcases hx with ⟨sub, sub', e1, hd, e⟩ | ⟨init, l, l', sp, e1, hd, e⟩
  · subst e; subst e1
    simp only [wItem, Bool.or_eq_true, Bool.not_eq_true'] at hwy ⊢
    rcases hwy with hwy | hwy
    · left; rw [descend_dotted _ _ _ _ _ hf2 hd]; exact hwy
    · right; exact descend_notSimple _ _ _ _ _ hf1 hwy hd
  · subst e; subst e1
    simp only [wItem, Bool.or_eq_true, decide_eq_true_eq, List.any_append, List.length_append] at hwy ⊢
    rcases hwy with hwy | hwy | hwy
    · exact Or.inl hwy
    · exact Or.inr (Or.inl hwy)
    · right; right
      simp only [List.any_cons, List.any_nil, Bool.or_false, Bool.not_eq_true'] at hwy ⊢
      exact descend_notSimple _ _ _ _ _ hf1 hwy hd

end TomlVerif.Lemmas.Tiling03Hdr
