import TomlVerif.Lemmas.Cst03
/-! Tiling helpers for C03 (inline tables and documents): decor transformations that fix the
    input, single-segment key paths, `table_from_pairs` on single-segment keys, the inline-table
    printer on undotted entries. -/
namespace TomlVerif.Lemmas.Tiling03
open TomlVerif TomlVerif.Spec TomlVerif.Model TomlVerif.Model.Strings TomlVerif.Model.Value
open TomlVerif.Model.Cst TomlVerif.Model.Encode TomlVerif.Lemmas.Suffix03 TomlVerif.Lemmas.Cst03

/-! ### decor transformations that act as the identity on the pieces of `inp` -/

/-- `f` fixes the empty text and every infix of `inp` (`f = id` always; `f = stripCr` when `inp`
    has no CR) -/
structure FixOn (f : Bytes → Bytes) (inp : Bytes) : Prop where
  nil : f [] = []
  sub : ∀ t, t <:+: inp → f t = t

theorem FixOn.id (inp : Bytes) : FixOn id inp := ⟨rfl, fun _ _ => rfl⟩

theorem FixOn.stripCr (inp : Bytes) (h : ∀ b ∈ inp, b ≠ 0x0D) : FixOn stripCr inp := by
  refine ⟨rfl, ?_⟩
  intro t ht
  apply stripCr_of_noCr
  intro b hb
  exact h b (ht.subset hb)

theorem slice_infix (inp : Bytes) (a b : Nat) : slice inp a b <:+: inp := by
  unfold slice
  exact (List.take_prefix _ _).isInfix.trans (List.drop_suffix _ _).isInfix

theorem encRaw_fix {f : Bytes → Bytes} {inp : Bytes} (hf : FixOn f inp) (r : Raw) :
    encRaw f inp r = rawText inp r := by
  unfold encRaw
  cases r with
  | empty => exact hf.nil
  | spanned a b => exact hf.sub _ (slice_infix inp a b)

/-! ### `dropWs` -/

theorem dropWs_idem : ∀ s : Bytes, dropWs (dropWs s) = dropWs s
  | [] => by simp [dropWs]
  | b :: r => by
    by_cases h : isWschar b = true
    · have : dropWs (b :: r) = dropWs r := by rw [dropWs]; simp [h]
      rw [this]; exact dropWs_idem r
    · have : dropWs (b :: r) = b :: r := by rw [dropWs]; simp [h]
      rw [this, this]

theorem rawBetween_self (n : Nat) (s : Bytes) : rawBetween n s s = .empty := by
  simp [rawBetween, Raw.withSpan]

/-! ### single-segment key paths -/

theorem ckeyPathAux_grow (n : Nat) : ∀ (fuel : Nat) (s : Bytes) (acc ks : List CKey) (r : Bytes),
    ckeyPathAux n fuel s acc = .ok ks r → acc.length < ks.length := by
  intro fuel
  induction fuel with
  | zero => intro s acc ks r h; unfold ckeyPathAux at h; cases h
  | succ fuel ih =>
    intro s acc ks r h
    unfold ckeyPathAux at h
    simp only [] at h
    split at h
    · split at h
      · split at h
        · injection h with h1 h2; subst h1; simp
        · rename_i other hne
          cases hres : ckeyPathAux n fuel _ _ with
          | bt => exact absurd hres (by simpa using hne)
          | cut => rw [hres] at h; cases h
          | ok ks' r' =>
            rw [hres] at h
            injection h with h1 h2; subst h1
            have := ih _ _ _ _ hres
            simp at this; omega
      · injection h with h1 h2; subst h1; simp
    · cases h
    · cases h

/-- a key path of one segment: the shape of the recorded key -/
theorem ckeyPathAux_single (n : Nat) (fuel : Nat) (s : Bytes) (ks : List CKey) (r : Bytes)
    (h : ckeyPathAux n fuel s [] = .ok ks r) (hl : ks.length = 1) :
    ∃ k r0, Key.simpleKey (dropWs s) = .ok k r0 ∧ r = dropWs r0 ∧
      ks = [{ key := k, repr := rawBetween n (dropWs s) r0,
              dotted := Decor.new (rawBetween n s (dropWs s)) (rawBetween n r0 (dropWs r0)) }] := by
  cases fuel with
  | zero => unfold ckeyPathAux at h; cases h
  | succ fuel =>
    unfold ckeyPathAux at h
    simp only [List.nil_append] at h
    split at h
    · rename_i k r0 hk
      split at h
      · split at h
        · injection h with h1 h2; subst h1; subst h2
          exact ⟨k, r0, hk, rfl, by simp⟩
        · rename_i other hne
          cases hres : ckeyPathAux n fuel _ _ with
          | bt => exact absurd hres (by simpa using hne)
          | cut => rw [hres] at h; cases h
          | ok ks' r' =>
            rw [hres] at h
            injection h with h1 h2; subst h1
            have := ckeyPathAux_grow n _ _ _ _ _ hres
            simp at this; omega
      · injection h with h1 h2; subst h1; subst h2
        exact ⟨k, r0, hk, rfl, by simp⟩
    · cases h
    · cases h

theorem vsplitLast_some {α} (l i : List α) (x : α) (h : splitLast l = some (i, x)) : l = i ++ [x] := by
  induction l generalizing i with
  | nil => simp [splitLast] at h
  | cons a r ih =>
    cases r with
    | nil => simp [splitLast] at h; obtain ⟨h1, h2⟩ := h; subst h1; subst h2; rfl
    | cons b r' =>
      rw [splitLast] at h
      · cases hs : splitLast (b :: r') with
        | none => simp [hs] at h
        | some pr =>
          obtain ⟨i', l'⟩ := pr
          simp [hs] at h
          obtain ⟨h1, h2⟩ := h; subst h1; subst h2
          rw [ih i' hs]; rfl
      · intro hx; cases hx

theorem splitLast_nil_path {α} (ks : List α) (key : α) (h : splitLast ks = some ([], key)) : ks = [key] := by
  simpa using vsplitLast_some ks [] key h

theorem fixLeaf_length (ks : List CKey) : (fixLeaf ks).length = ks.length := by
  cases ks with
  | nil => rfl
  | cons first rest =>
    unfold fixLeaf
    simp only []
    split
    · rfl
    · rename_i init last hsl
      have := congrArg List.length (vsplitLast_some _ _ _ hsl)
      simp at this ⊢
      omega

/-- a one-segment key path `ws key ws`: what is recorded and what it covers -/
theorem ckeyPath_single (inp s r : Bytes) (ks : List CKey) (key : CKey) (hs : s <:+ inp)
    (h : ckeyPath inp.length s = .ok ks r) (hl : splitLast ks = some ([], key)) :
    ∃ kt w2, ks = [key] ∧ dropWs s = kt ++ w2 ++ r ∧ kt ≠ [] ∧ dropWs r = r ∧
      rawText inp key.repr = kt ∧
      key.leaf = Decor.new (rawBetween inp.length s (dropWs s)) (rawBetween inp.length (w2 ++ r) r) ∧
      rawText inp (rawBetween inp.length (w2 ++ r) r) = w2 := by
  have hks := splitLast_nil_path ks key hl
  subst hks
  unfold ckeyPath at h
  cases hk : ckeyPathAux inp.length (s.length + 1) s [] with
  | bt => rw [hk] at h; cases h
  | cut => rw [hk] at h; cases h
  | ok ks0 r0 =>
    rw [hk] at h
    simp only [] at h
    split at h
    · cases h
    · injection h with h1 h2; subst h2
      have hlen : ks0.length = 1 := by
        rw [← fixLeaf_length, h1]; rfl
      obtain ⟨k, rk, hsk, hr, hks0⟩ := ckeyPathAux_single _ _ _ _ _ hk hlen
      subst hks0
      simp [fixLeaf, splitLast, Decor.new] at h1
      subst h1
      have hws : dropWs s <:+ s := Cst03.dropWs_suffix s
      obtain ⟨hsuf, hlt⟩ := simpleKey_suffix _ _ _ hsk
      obtain ⟨kt, hkt⟩ := hsuf
      obtain ⟨w2, hw2⟩ := Cst03.dropWs_suffix rk
      have hrk : rk <:+ inp := (hkt ▸ suffix_of_append kt rk).trans (hws.trans hs)
      refine ⟨kt, w2, rfl, ?_, ?_, ?_, ?_, ?_, ?_⟩
      · rw [hr, List.append_assoc, hw2, hkt]
      · rw [← hkt] at hlt; exact length_pos_append kt rk hlt
      · rw [hr]; exact dropWs_idem rk
      · exact rawText_between inp (dropWs s) kt rk (hws.trans hs) hkt.symm
      · simp only [Decor.new]; rw [hr, hw2]
      · rw [hr, hw2]
        exact rawText_between inp rk w2 (dropWs rk) hrk hw2.symm

/-- the printed form of a one-segment key path with decor `Decor.new a b` -/
theorem encodeKeyPath_single (f : Bytes → Bytes) (inp : Bytes) (key : CKey) (a b : Raw)
    (h : key.leaf = Decor.new a b) (dp ds : Bytes) :
    encodeKeyPath f inp [key] dp ds = encRaw f inp a ++ rawText inp key.repr ++ encRaw f inp b := by
  simp [encodeKeyPath, encodeKeyPathAux, prefixEncode, suffixEncode, h, Decor.new, encodeKey]

/-! ### the class of values: no dotted keys inside inline tables -/

mutual
/-- scalars, arrays of such values, and inline tables all of whose entries were written with a
    one-segment key (no entry is an implicit/dotted inline table) -/
def simpleVal : CVal → Bool
  | .scalar _ _ _ => true
  | .arr items _ _ _ _ => simpleVals items
  | .inl items _ imp dot _ _ => !imp && !dot && simpleKvs items
def simpleVals : List CVal → Bool
  | [] => true
  | v :: r => simpleVal v && simpleVals r
def simpleKvs : List (CKey × CVal) → Bool
  | [] => true
  | (_, v) :: r => simpleVal v && simpleKvs r
end

theorem simpleVal_setDecor (v : CVal) (d : Decor) : simpleVal (v.setDecor d) = simpleVal v := by
  cases v <;> simp [CVal.setDecor, simpleVal]

theorem simpleKvs_mem : ∀ (l : List (CKey × CVal)), simpleKvs l = true → ∀ kv ∈ l, simpleVal kv.2 = true
  | [], _, kv, hm => by cases hm
  | (k, v) :: r, h, kv, hm => by
    simp only [simpleKvs, Bool.and_eq_true] at h
    rcases List.mem_cons.1 hm with e | hm
    · subst e; exact h.1
    · exact simpleKvs_mem r h.2 kv hm

theorem simpleKvs_of_mem : ∀ (l : List (CKey × CVal)), (∀ kv ∈ l, simpleVal kv.2 = true) → simpleKvs l = true
  | [], _ => rfl
  | (k, v) :: r, h => by
    simp only [simpleKvs, Bool.and_eq_true]
    exact ⟨h (k, v) (by simp), simpleKvs_of_mem r (fun kv hm => h kv (List.mem_cons_of_mem _ hm))⟩

theorem simpleVals_append : ∀ (a b : List CVal), simpleVals (a ++ b) = (simpleVals a && simpleVals b)
  | [], b => by simp [simpleVals]
  | v :: r, b => by simp [simpleVals, simpleVals_append r b, Bool.and_assoc]

/-- an inline table entry created by a dotted key -/
def impInl : CVal → Bool
  | .inl _ _ imp _ _ _ => imp
  | _ => false

def anyImp (items : List (CKey × CVal)) : Bool := items.any (fun kv => impInl kv.2)

/-- not a dotted inline table (printed as one `key = value` entry) -/
def undotted : CVal → Bool
  | .inl _ _ _ dot _ _ => !dot
  | _ => true

theorem simpleVal_undotted (v : CVal) (h : simpleVal v = true) : undotted v = true := by
  cases v <;> simp [simpleVal, undotted] at h ⊢
  exact h.1.2

theorem simpleVal_impInl (v : CVal) (h : simpleVal v = true) : impInl v = false := by
  cases v <;> simp [simpleVal, impInl] at h ⊢
  exact h.1.1

theorem simpleKvs_anyImp (l : List (CKey × CVal)) (h : simpleKvs l = true) : anyImp l = false := by
  unfold anyImp
  rw [List.any_eq_false]
  intro kv hm
  simp [simpleVal_impInl kv.2 (simpleKvs_mem l h kv hm)]

theorem anyImp_creplace (k : Bytes) (y : CVal) (hy : impInl y = true) :
    ∀ (items : List (CKey × CVal)) (x : CVal), clookup k items = some x → anyImp (creplace k y items) = true
  | [], _, h => by simp [clookup] at h
  | (k', v') :: r, x, h => by
    unfold clookup at h
    unfold creplace
    split at h
    · rename_i hk; simp [hk, anyImp, hy]
    · rename_i hk
      simp only [hk]
      have := anyImp_creplace k y hy r x h
      simp only [anyImp, List.any_cons, Bool.false_eq_true, ↓reduceIte] at this ⊢
      simp [this]

theorem cinlInsert_anyImp (ks : List CKey) (items : List (CKey × CVal)) (td pe : Bool) (key : CKey) (v : CVal)
    (items' : List (CKey × CVal)) (h : cinlInsert items td ks pe key v = some items') :
    (anyImp items = true → anyImp items' = true) ∧ (ks ≠ [] → anyImp items' = true) := by
  cases ks with
  | nil =>
    unfold cinlInsert at h
    split at h
    · cases h
    · split at h
      · cases h
      · injection h with h; subst h
        exact ⟨fun h => by simp [anyImp] at h ⊢; exact Or.inl h, fun h => absurd rfl h⟩
  | cons k ks =>
    unfold cinlInsert at h
    split at h
    · split at h
      · injection h with h; subst h
        have : anyImp (items ++ [(k, newDottedInl ‹_›)]) = true := by simp [anyImp, newDottedInl, impInl]
        exact ⟨fun _ => this, fun _ => this⟩
      · cases h
    · rename_i sub pre imp dot dec sp hlook
      split at h
      · cases h
      · rename_i himp
        split at h
        · injection h with h; subst h
          have himp' : imp = true := by simpa using himp
          have := anyImp_creplace k.key (.inl ‹_› pre imp dot dec sp) (by simp [impInl, himp']) items _ hlook
          exact ⟨fun _ => this, fun _ => this⟩
        · cases h
    · cases h

theorem ctableFromPairs_anyImp : ∀ (kvs : List (List CKey × CKey × CVal)) (acc items : List (CKey × CVal)),
    ctableFromPairs kvs acc = some items → anyImp acc = true → anyImp items = true
  | [], acc, items, h, ha => by
    unfold ctableFromPairs at h; injection h with h; subst h; exact ha
  | (path, key, v) :: rest, acc, items, h, ha => by
    unfold ctableFromPairs at h
    split at h
    · rename_i acc' hins
      exact ctableFromPairs_anyImp rest acc' items h ((cinlInsert_anyImp _ _ _ _ _ _ _ hins).1 ha)
    · cases h

/-- `table_from_pairs` when no entry of the result is an implicit inline table: every key path
    had one segment and the pairs were appended in order -/
theorem ctableFromPairs_simple : ∀ (kvs : List (List CKey × CKey × CVal)) (acc items : List (CKey × CVal)),
    ctableFromPairs kvs acc = some items → anyImp items = false →
    (∀ p ∈ kvs, p.1 = []) ∧ items = acc ++ kvs.map (fun p => (p.2.1, p.2.2))
  | [], acc, items, h, _ => by
    unfold ctableFromPairs at h; injection h with h; subst h; simp
  | (path, key, v) :: rest, acc, items, h, hno => by
    unfold ctableFromPairs at h
    split at h
    · rename_i acc' hins
      have hacc' : anyImp acc' = false := by
        cases hc : anyImp acc' with
        | false => rfl
        | true => rw [ctableFromPairs_anyImp rest acc' items h hc] at hno; cases hno
      have hpath : path = [] := by
        cases path with
        | nil => rfl
        | cons k ks =>
          have := (cinlInsert_anyImp _ _ _ _ _ _ _ hins).2 (by simp)
          rw [this] at hacc'; cases hacc'
      subst hpath
      obtain ⟨ih1, ih2⟩ := ctableFromPairs_simple rest acc' items h hno
      unfold cinlInsert at hins
      split at hins
      · cases hins
      · split at hins
        · cases hins
        · injection hins with hins; subst hins
          refine ⟨?_, by rw [ih2]; simp⟩
          intro p hp
          rcases List.mem_cons.1 hp with e | hp
          · subst e; rfl
          · exact ih1 p hp
    · cases h

/-! ### the inline-table printer on undotted entries -/

/-- the entries of an inline table printed in order, separated by commas -/
def encPairs (f : Bytes → Bytes) (inp : Bytes) : List (CKey × CVal) → Bool → Bytes
  | [], _ => []
  | (k, v) :: r, first =>
    (if first then [] else [0x2C]) ++ encodeKeyPath f inp [k] [0x20] [0x20] ++ [0x3D]
      ++ encodeValue f inp v [] [] ++ encPairs f inp r false

theorem encPairs_false (f : Bytes → Bytes) (inp : Bytes) (l : List (CKey × CVal)) (hne : l ≠ []) :
    encPairs f inp l false = [0x2C] ++ encPairs f inp l true := by
  cases l with
  | nil => exact absurd rfl hne
  | cons kv r => obtain ⟨k, v⟩ := kv; simp [encPairs]

theorem encodeInl_simple (f : Bytes → Bytes) (inp : Bytes) : ∀ (items : List (CKey × CVal)) (i len : Nat),
    (∀ kv ∈ items, undotted kv.2 = true ∧ ∃ a b, kv.2.decor = Decor.new a b) →
    encodeInl f inp items [] i len = (encPairs f inp items (i == 0), i + items.length)
  | [], i, len, _ => by simp [encodeInl, encPairs]
  | (k, v) :: r, i, len, h => by
    obtain ⟨hu, a, b, hd⟩ := h (k, v) (by simp)
    have ih := encodeInl_simple f inp r (i + 1) len (fun kv hm => h kv (List.mem_cons_of_mem _ hm))
    have hi : ((i + 1 == 0) = false) := by simp
    cases v with
    | scalar x y z =>
      unfold encodeInl
      simp only [ih, encPairs, hi]
      rw [encodeValue_default_irrel f inp _ a b hd [0x20] _ [] []]
      by_cases h0 : i = 0 <;> simp [h0] <;> omega
    | arr x y z w u =>
      unfold encodeInl
      simp only [ih, encPairs, hi]
      rw [encodeValue_default_irrel f inp _ a b hd [0x20] _ [] []]
      by_cases h0 : i = 0 <;> simp [h0] <;> omega
    | inl sub pre imp dot dec sp =>
      have hdot : dot = false := by simpa [undotted] using hu
      subst hdot
      unfold encodeInl
      simp only [ih, encPairs, hi]
      rw [encodeValue_default_irrel f inp _ a b hd [0x20] _ [] []]
      by_cases h0 : i = 0 <;> simp [h0] <;> omega

theorem countInl_simple : ∀ (items : List (CKey × CVal)), (∀ kv ∈ items, undotted kv.2 = true) →
    countInl items = items.length
  | [], _ => by simp [countInl]
  | (k, v) :: r, h => by
    have hu := h (k, v) (by simp)
    have ih := countInl_simple r (fun kv hm => h kv (List.mem_cons_of_mem _ hm))
    cases v <;> simp [countInl, countVal, ih] <;> try omega
    simp [undotted] at hu
    simp [hu]; omega

end TomlVerif.Lemmas.Tiling03
