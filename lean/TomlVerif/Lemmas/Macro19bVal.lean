import TomlVerif.Lemmas.Macro19bKey
/-! C19 (full): values with inline tables. `MTree` is the value grammar as rustc tokenises it: a scalar / date-time /
    array of those (`MacroVal` of Lemmas/Macro19.lean), an array of trees, an inline table `{ key = tree, … }`
    with dotted and dashed keys, both with an optional trailing comma, nested to any depth.
    `MTree.toks` is the spelling, `MTree.sem` the meaning: literal evaluation (rustc), the date-time text parser
    (`toml_datetime`) and the run-time helper `insert_toml` are shared with the model; everything the muncher
    does (arm order, `@trailingcomma`, key matching, sign rewriting, date-time arm selection, recursion, fuel)
    is what the theorems are about. -/
namespace TomlVerif.Lemmas.Macro19b
open TomlVerif TomlVerif.Model TomlVerif.Model.Macro TomlVerif.Lemmas.Macro19

/-! ## comma-separated chunks -/

/-- chunks separated by commas, with an optional trailing comma -/
def joinC : List (List TT) → Bool → List TT
  | [], _ => []
  | [c], trailing => c ++ (if trailing then [commaT] else [])
  | c :: d :: r, trailing => c ++ commaT :: joinC (d :: r) trailing

/-- every chunk followed by a comma: what `@trailingcomma` hands on -/
def termC : List (List TT) → List TT
  | [] => []
  | c :: r => c ++ commaT :: termC r

/-- the chunk is not empty and does not end in a comma -/
def ChunkOk (c : List TT) : Prop := ∃ t, c.getLast? = some t ∧ isP 0x2C t = false

theorem joinC_items (l : List (List TT)) (hne : l ≠ []) (hc : ∀ c ∈ l, ChunkOk c) :
    joinC l true = termC l ∧ joinC l false ++ [commaT] = termC l ∧
    ∃ t, (joinC l false).getLast? = some t ∧ isP 0x2C t = false := by
  induction l with
  | nil => exact absurd rfl hne
  | cons a r ih =>
    cases r with
    | nil =>
      obtain ⟨t, ht, hc⟩ := hc a (by simp)
      refine ⟨by simp [joinC, termC], by simp [joinC, termC], t, ?_, hc⟩
      simpa [joinC] using ht
    | cons b r =>
      obtain ⟨h1, h2, t, ht, hc⟩ := ih (by simp) (fun c hm => hc c (by simp [hm]))
      refine ⟨?_, ?_, t, ?_, hc⟩
      · rw [joinC, h1]; simp [termC]
      · rw [joinC]; simp only [List.append_assoc, List.cons_append]; rw [h2]; simp [termC]
      · rw [joinC]
        have hne2 : joinC (b :: r) false ≠ [] := by intro h; rw [h] at ht; simp at ht
        obtain ⟨x, xs, hx⟩ := List.exists_cons_of_ne_nil hne2
        rw [hx] at ht ⊢
        simp [List.getLast?_append, List.getLast?_cons_cons, ht]

theorem withComma_joinC (l : List (List TT)) (tr : Bool) (hc : ∀ c ∈ l, ChunkOk c) :
    withComma (joinC l tr) = termC l := by
  cases l with
  | nil => simp [joinC, termC, withComma]
  | cons a r =>
    obtain ⟨h1, h2, t, ht, hc⟩ := joinC_items (a :: r) (by simp) hc
    cases tr with
    | true =>
      rw [h1]
      have : (termC (a :: r)).getLast? = some commaT := by rw [← h2]; simp
      simp [withComma, this, commaT, pc]
    | false =>
      simp only [withComma, ht, hc]
      simpa [commaT, pc] using h2

/-! ## the tree -/

inductive MTree where
  | leaf (a : MacroVal)
  | arr (items : List MTree) (trailing : Bool)
  | tbl (entries : List (MKey × MTree)) (trailing : Bool)

mutual
/-- the token trees rustc hands to the macro for a value -/
def MTree.toks : MTree → List TT
  | .leaf a => a.toks
  | .arr items trailing => [.group .bracket (joinC (chunksT items) trailing)]
  | .tbl entries trailing => [.group .brace (joinC (chunksE entries) trailing)]
/-- the spellings of the items of an array -/
def chunksT : List MTree → List (List TT)
  | [] => []
  | a :: r => a.toks :: chunksT r
/-- the spellings `key = value` of the entries of an inline table -/
def chunksE : List (MKey × MTree) → List (List TT)
  | [] => []
  | (k, a) :: r => (k.toks ++ eqT :: a.toks) :: chunksE r
end

mutual
/-- the value the macro is to build. An inline table is built entry by entry with `insert_toml` (no check for
    duplicate keys: a later entry overwrites, a dotted key through a non-table replaces it by a table, through
    an empty array panics). -/
def MTree.sem : MTree → R MVal
  | .leaf a => a.sem
  | .arr items _ => R.bind (semT items []) fun vs => .ok (.arr vs)
  | .tbl entries _ => semE entries emptyTbl
def semT : List MTree → List MVal → R (List MVal)
  | [], acc => .ok acc
  | a :: r, acc => R.bind a.sem fun v => semT r (acc ++ [v])
def semE : List (MKey × MTree) → MVal → R MVal
  | [], root => .ok root
  | (k, a) :: r, root =>
    match k.path with
    | none => .unsupported
    | some p => R.bind a.sem fun v =>
      match insertToml root p v with
      | some root' => semE r root'
      | none => .panic
end

mutual
/-- fuel the muncher needs -/
def MTree.cost : MTree → Nat
  | .leaf a => a.cost
  | .arr items _ => costsT items + 1
  | .tbl entries _ => costsE entries + 1
def costsT : List MTree → Nat
  | [] => 1
  | a :: r => a.cost + 2 + costsT r
def costsE : List (MKey × MTree) → Nat
  | [] => 1
  | (_, a) :: r => a.cost + 2 + costsE r
end

/-! ## one value followed by a comma (`@array` and `@table` read it the same way) -/

/-- the arms shared by `@array` and `@table`: sign rewriting, the eleven date-time arms, `$v:tt ,` -/
def readVal (fuel : Nat) (ts0 : List TT) : R (MVal × List TT) :=
  let ts := rewriteSignComma ts0
  match firstDt comma ts dtArms with
  | some (dts, rest) => R.bind (dtValue dts) fun v => .ok (v, rest)
  | none =>
    match ts with
    | v :: c :: rest => if isP 0x2C c then R.bind (value fuel v) fun x => .ok (x, rest) else .unsupported
    | _ => .unsupported

theorem array_eq (fuel : Nat) (acc : List MVal) (ts : List TT) (hne : ts ≠ []) :
    array (fuel + 1) acc ts = R.bind (readVal fuel ts) fun p => array fuel (acc ++ [p.1]) p.2 := by
  rw [array]
  · unfold readVal
    simp only []
    cases hfd : firstDt comma (rewriteSignComma ts) dtArms with
    | some p =>
      obtain ⟨dts, rest⟩ := p
      simp only []
      cases dtValue dts <;> simp [R.bind]
    | none =>
      simp only []
      cases rewriteSignComma ts with
      | nil => rfl
      | cons v r =>
        cases r with
        | nil => rfl
        | cons c rest =>
          simp only []
          by_cases hc : isP 0x2C c = true
          · simp only [hc, if_true]
            cases value fuel v <;> simp [R.bind]
          · simp only [hc]; rfl
  · exact hne

theorem table_eq (fuel : Nat) (root : MVal) (ts : List TT) (hne : ts ≠ []) :
    table (fuel + 1) root ts =
      match keyPath ts [] [] with
      | none => .unsupported
      | some (segs, after0) =>
        match segsStr segs with
        | none => .unsupported
        | some path => R.bind (readVal fuel after0) fun p =>
          match insertToml root path p.1 with
          | some root' => table fuel root' p.2
          | none => .panic := by
  rw [table]
  · cases hk : keyPath ts [] [] with
    | none => rfl
    | some sa =>
      obtain ⟨segs, after0⟩ := sa
      simp only []
      unfold readVal
      simp only []
      cases hfd : firstDt comma (rewriteSignComma after0) dtArms with
      | some p =>
        obtain ⟨dts, rest⟩ := p
        simp only []
        cases segsStr segs with
        | none => rfl
        | some path =>
          simp only []
          cases dtValue dts with
          | ok v => simp only [R.bind]; cases insertToml root path v <;> rfl
          | unsupported => rfl
          | panic => rfl
      | none =>
        simp only []
        cases rewriteSignComma after0 with
        | nil => cases segsStr segs <;> rfl
        | cons v r =>
          cases r with
          | nil => cases segsStr segs <;> rfl
          | cons c rest =>
            simp only []
            by_cases hc : isP 0x2C c = true
            · simp only [hc, if_true]
              cases segsStr segs with
              | none => rfl
              | some path =>
                simp only []
                cases value fuel v with
                | ok x => simp only [R.bind]; cases insertToml root path x <;> rfl
                | unsupported => rfl
                | panic => rfl
            · simp only [hc]
              cases segsStr segs <;> rfl
  · exact hne

theorem readVal_tt (fuel : Nat) (m : TT) (rest : List TT) (h1 : isP 0x2D m = false) (h2 : isP 0x2B m = false) :
    readVal fuel (m :: commaT :: rest) = R.bind (value fuel m) fun v => .ok (v, rest) := by
  unfold readVal
  simp only [rewriteSignComma_nonsign m _ h1 h2, firstDt_none_comma2]
  simp [commaT, pc]

theorem readVal_neg (fuel : Nat) (v : TT) (rest : List TT) :
    readVal fuel (dash :: v :: commaT :: rest) = R.bind (value fuel (negGroup v)) fun x => .ok (x, rest) := by
  have hr : rewriteSignComma (dash :: v :: commaT :: rest) = negGroup v :: commaT :: rest := by
    simp [rewriteSignComma, dash, commaT, pc]
  unfold readVal
  simp only [hr, firstDt_none_comma2]
  simp [commaT, pc]

theorem readVal_pos (fuel : Nat) (v : TT) (rest : List TT) :
    readVal fuel (pc 0x2B :: v :: commaT :: rest) = R.bind (value fuel (posGroup v)) fun x => .ok (x, rest) := by
  have hr : rewriteSignComma (pc 0x2B :: v :: commaT :: rest) = posGroup v :: commaT :: rest := by
    simp [rewriteSignComma, commaT, pc]
  unfold readVal
  simp only [hr, firstDt_none_comma2]
  simp [commaT, pc]

theorem readVal_dt (fuel : Nat) (f : DtForm) (rest : List TT) (h : RestOk rest) :
    readVal fuel (f.toks ++ commaT :: rest) = R.bind (dtValue f.text) fun x => .ok (x, rest) := by
  obtain ⟨n, r, hn⟩ := dt_toks_head f
  have hr : rewriteSignComma (f.toks ++ commaT :: rest) = f.toks ++ commaT :: rest := by
    rw [hn]; exact rewriteSignComma_nonsign _ _ (by simp [Num.tt]) (by simp [Num.tt])
  unfold readVal
  simp only [hr, firstDt_form f rest h]

/-- a value of the array fragment (`MacroVal`) in a comma position -/
theorem readVal_leaf (a : MacroVal) (f : Nat) (rest : List TT) (hf : a.cost ≤ f) (hr : RestOk rest) :
    readVal (f + 1) (a.toks ++ commaT :: rest) = R.bind a.sem fun v => .ok (v, rest) := by
  match a with
  | .int s b =>
    cases s
    · simpa [MacroVal.toks, Sign.toks, MacroVal.sem, Sign.neg, value_num] using
        readVal_tt (f + 1) (.tok (.num b [] false)) rest (by simp) (by simp)
    · simpa [MacroVal.toks, Sign.toks, MacroVal.sem, Sign.neg, value_pos_num] using
        readVal_pos (f + 1) (.tok (.num b [] false)) rest
    · simpa [MacroVal.toks, Sign.toks, MacroVal.sem, Sign.neg, value_neg_num] using
        readVal_neg (f + 1) (.tok (.num b [] false)) rest
  | .float s b =>
    cases s
    · simpa [MacroVal.toks, Sign.toks, MacroVal.sem, Sign.neg, value_num] using
        readVal_tt (f + 1) (.tok (.num b [] true)) rest (by simp) (by simp)
    · simpa [MacroVal.toks, Sign.toks, MacroVal.sem, Sign.neg, value_pos_num] using
        readVal_pos (f + 1) (.tok (.num b [] true)) rest
    · simpa [MacroVal.toks, Sign.toks, MacroVal.sem, Sign.neg, value_neg_num] using
        readVal_neg (f + 1) (.tok (.num b [] true)) rest
  | .special s n =>
    cases s
    · simpa [MacroVal.toks, Sign.toks, MacroVal.sem, Sign.neg, value_special] using
        readVal_tt (f + 1) (.tok (.ident (if n then bNan else bInf))) rest (by simp) (by simp)
    · simpa [MacroVal.toks, Sign.toks, MacroVal.sem, Sign.neg, value_pos_special] using
        readVal_pos (f + 1) (.tok (.ident (if n then bNan else bInf))) rest
    · simpa [MacroVal.toks, Sign.toks, MacroVal.sem, Sign.neg, value_neg_special] using
        readVal_neg (f + 1) (.tok (.ident (if n then bNan else bInf))) rest
  | .bool b =>
    simpa [MacroVal.toks, MacroVal.sem, value_bool] using
      readVal_tt (f + 1) (.tok (.ident (if b then bTrue else bFalse))) rest (by simp) (by simp)
  | .str raw v =>
    simpa [MacroVal.toks, MacroVal.sem, value_str] using readVal_tt (f + 1) (.tok (.str raw v)) rest (by simp) (by simp)
  | .chr raw v =>
    simpa [MacroVal.toks, MacroVal.sem, value_chr] using readVal_tt (f + 1) (.tok (.chr raw v)) rest (by simp) (by simp)
  | .dt d =>
    simpa [MacroVal.toks, MacroVal.sem] using readVal_dt (f + 1) d rest hr
  | .arr items tr =>
    have hc : costs items ≤ f := by simp [MacroVal.cost] at hf; omega
    have hv := value_arr items tr f hc
    have := readVal_tt (f + 1) (.group .bracket (joinToks items tr)) rest (by simp) (by simp)
    rw [hv] at this
    simpa [MacroVal.toks] using this

/-! ## chunks are well-behaved -/

theorem getLast?_append_cons {α} (x : List α) (a : α) (y : List α) :
    (x ++ a :: y).getLast? = (a :: y).getLast? := by
  rw [List.getLast?_append]
  cases h : (a :: y).getLast? with
  | none => simp at h
  | some t => simp

theorem tree_toks_getLast (a : MTree) : ∃ t, a.toks.getLast? = some t ∧ isP 0x2C t = false := by
  cases a with
  | leaf a => simpa [MTree.toks] using toks_getLast a
  | arr l t => exact ⟨_, rfl, rfl⟩
  | tbl l t => exact ⟨_, rfl, rfl⟩

theorem tree_toks_ne (a : MTree) : ∃ t r, a.toks = t :: r := by
  obtain ⟨t, h, _⟩ := tree_toks_getLast a
  cases ha : a.toks with
  | nil => rw [ha] at h; simp at h
  | cons x r => exact ⟨x, r, rfl⟩

theorem chunksT_ok (l : List MTree) : ∀ c ∈ chunksT l, ChunkOk c := by
  induction l with
  | nil => intro c h; simp [chunksT] at h
  | cons a r ih =>
    intro c h
    simp only [chunksT, List.mem_cons] at h
    rcases h with h | h
    · subst h; exact tree_toks_getLast a
    · exact ih c h

theorem chunksE_ok (l : List (MKey × MTree)) : ∀ c ∈ chunksE l, ChunkOk c := by
  induction l with
  | nil => intro c h; simp [chunksE] at h
  | cons e r ih =>
    obtain ⟨k, a⟩ := e
    intro c h
    simp only [chunksE, List.mem_cons] at h
    rcases h with h | h
    · subst h
      obtain ⟨t, ht, hc⟩ := tree_toks_getLast a
      obtain ⟨x, y, hxy⟩ := tree_toks_ne a
      refine ⟨t, ?_, hc⟩
      rw [hxy] at ht ⊢
      rw [getLast?_append_cons, List.getLast?_cons_cons]
      exact ht
    · exact ih c h

theorem tree_toks_head_ok (a : MTree) (x : List TT) : RestOk (a.toks ++ x) := by
  cases a with
  | leaf a => simpa [MTree.toks] using toks_head_ok a x
  | arr l t => intro t r h; simp [MTree.toks] at h; rw [← h.1]; simp
  | tbl l t => intro t r h; simp [MTree.toks] at h; rw [← h.1]; simp

theorem termC_chunksT_restOk (l : List MTree) : RestOk (termC (chunksT l)) := by
  cases l with
  | nil => intro t r h; simp [chunksT, termC] at h
  | cons a r => simpa [chunksT, termC] using tree_toks_head_ok a _

theorem termC_chunksE_restOk (l : List (MKey × MTree)) : RestOk (termC (chunksE l)) := by
  cases l with
  | nil => intro t r h; simp [chunksE, termC] at h
  | cons e r =>
    obtain ⟨k, a⟩ := e
    intro t r' h
    simp [chunksE, termC, MKey.toks, Seg.toks] at h
    rw [← h.1]; simp

theorem termC_chunksE_ne (e : MKey × MTree) (r : List (MKey × MTree)) : termC (chunksE (e :: r)) ≠ [] := by
  obtain ⟨k, a⟩ := e
  simp [chunksE, termC, MKey.toks, Seg.toks]

/-! ## the main induction -/

mutual
/-- a value in a comma position (array element, inline-table entry): the muncher yields its meaning and
    continues behind the comma -/
theorem readVal_step (a : MTree) : ∀ (f : Nat) (rest : List TT), a.cost ≤ f → RestOk rest →
    readVal (f + 1) (a.toks ++ commaT :: rest) = R.bind a.sem fun v => .ok (v, rest) := by
  intro f rest hf hr
  match a with
  | .leaf a => simpa [MTree.toks, MTree.sem] using readVal_leaf a f rest (by simpa [MTree.cost] using hf) hr
  | .arr items tr =>
    have hc : costsT items ≤ f := by simp [MTree.cost] at hf; omega
    have hv : value (f + 1) (.group .bracket (joinC (chunksT items) tr)) = (MTree.arr items tr).sem := by
      rw [value, withComma_joinC _ _ (chunksT_ok items), array_items items f [] hc]
      cases h : semT items [] <;> simp [R.bind, MTree.sem, h]
    have := readVal_tt (f + 1) (.group .bracket (joinC (chunksT items) tr)) rest (by simp) (by simp)
    rw [hv] at this
    simpa [MTree.toks] using this
  | .tbl es tr =>
    have hc : costsE es ≤ f := by simp [MTree.cost] at hf; omega
    have hv : value (f + 1) (.group .brace (joinC (chunksE es) tr)) = (MTree.tbl es tr).sem := by
      rw [value, withComma_joinC _ _ (chunksE_ok es), table_items es f emptyTbl hc]
      simp [MTree.sem]
    have := readVal_tt (f + 1) (.group .brace (joinC (chunksE es) tr)) rest (by simp) (by simp)
    rw [hv] at this
    simpa [MTree.toks] using this

/-- `@array` on a comma-terminated item list yields the meanings in order -/
theorem array_items (l : List MTree) : ∀ (fuel : Nat) (acc : List MVal), costsT l ≤ fuel →
    array fuel acc (termC (chunksT l)) = semT l acc := by
  intro fuel acc hf
  match l with
  | [] =>
    obtain ⟨f, rfl⟩ : ∃ f, fuel = f + 1 := ⟨fuel - 1, by simp [costsT] at hf; omega⟩
    simp [chunksT, termC, semT, array]
  | a :: r =>
    have hf' : a.cost + 2 + costsT r ≤ fuel := by simpa [costsT] using hf
    obtain ⟨f, rfl⟩ : ∃ f, fuel = f + 2 := ⟨fuel - 2, by omega⟩
    obtain ⟨t, r', ht⟩ := tree_toks_ne a
    have hne : termC (chunksT (a :: r)) ≠ [] := by simp [chunksT, termC, ht]
    rw [array_eq _ _ _ hne]
    simp only [chunksT, termC]
    rw [readVal_step a f (termC (chunksT r)) (by omega) (termC_chunksT_restOk r), semT]
    cases a.sem with
    | ok v => simp only [R.bind]; exact array_items r (f + 1) (acc ++ [v]) (by omega)
    | unsupported => rfl
    | panic => rfl

/-- `@table` on a comma-terminated entry list inserts the meanings in order -/
theorem table_items (l : List (MKey × MTree)) : ∀ (fuel : Nat) (root : MVal), costsE l ≤ fuel →
    table fuel root (termC (chunksE l)) = semE l root := by
  intro fuel root hf
  match l with
  | [] =>
    obtain ⟨f, rfl⟩ : ∃ f, fuel = f + 1 := ⟨fuel - 1, by simp [costsE] at hf; omega⟩
    simp [chunksE, termC, semE, table]
  | (k, a) :: r =>
    have hf' : a.cost + 2 + costsE r ≤ fuel := by simpa [costsE] using hf
    obtain ⟨f, rfl⟩ : ∃ f, fuel = f + 2 := ⟨fuel - 2, by omega⟩
    rw [table_eq _ _ _ (termC_chunksE_ne (k, a) r)]
    simp only [chunksE, termC, List.append_assoc, List.cons_append]
    rw [keyPath_key]
    simp only []
    rw [semE]
    change (match k.path with | none => _ | some path => _) = _
    cases k.path with
    | none => rfl
    | some path =>
      simp only []
      rw [readVal_step a f (termC (chunksE r)) (by omega) (termC_chunksE_restOk r)]
      cases a.sem with
      | ok v =>
        simp only [R.bind]
        cases insertToml root path v with
        | none => rfl
        | some root' => simp only []; exact table_items r (f + 1) root' (by omega)
      | unsupported => rfl
      | panic => rfl
end

/-- an array or inline table through `@value`, any sufficient fuel -/
theorem value_tree_arr (items : List MTree) (tr : Bool) (f : Nat) (hc : costsT items ≤ f) :
    value (f + 1) (.group .bracket (joinC (chunksT items) tr)) = (MTree.arr items tr).sem := by
  rw [value, withComma_joinC _ _ (chunksT_ok items), array_items items f [] hc]
  cases h : semT items [] <;> simp [R.bind, MTree.sem, h]

theorem value_tree_tbl (es : List (MKey × MTree)) (tr : Bool) (f : Nat) (hc : costsE es ≤ f) :
    value (f + 1) (.group .brace (joinC (chunksE es) tr)) = (MTree.tbl es tr).sem := by
  rw [value, withComma_joinC _ _ (chunksE_ok es), table_items es f emptyTbl hc]
  simp [MTree.sem]

/-! ## the fuel `macroValue` supplies is enough -/

def sumC : List (List TT) → Nat
  | [] => 0
  | c :: r => sizeTTs c + sumC r

theorem sumC_le_joinC (l : List (List TT)) (tr : Bool) : sumC l ≤ sizeTTs (joinC l tr) := by
  induction l with
  | nil => simp [sumC]
  | cons a r ih =>
    cases r with
    | nil => simp [sumC, joinC, sizeTTs_append]
    | cons b r => rw [joinC, sizeTTs_append, sumC, sizeTTs]; omega

mutual
theorem tree_cost_le (a : MTree) : a.cost + 2 ≤ 2 * sizeTTs a.toks := by
  match a with
  | .leaf a => simpa [MTree.cost, MTree.toks] using cost_le a
  | .arr items tr =>
    have h1 := costsT_le items
    have h2 := sumC_le_joinC (chunksT items) tr
    simp [MTree.cost, MTree.toks, sizeTTs, sizeTT]; omega
  | .tbl es tr =>
    have h1 := costsE_le es
    have h2 := sumC_le_joinC (chunksE es) tr
    simp [MTree.cost, MTree.toks, sizeTTs, sizeTT]; omega
theorem costsT_le (l : List MTree) : costsT l ≤ 1 + 2 * sumC (chunksT l) := by
  match l with
  | [] => simp [costsT, chunksT, sumC]
  | a :: r =>
    have h1 := tree_cost_le a
    have h2 := costsT_le r
    simp [costsT, chunksT, sumC]; omega
theorem costsE_le (l : List (MKey × MTree)) : costsE l ≤ 1 + 2 * sumC (chunksE l) := by
  match l with
  | [] => simp [costsE, chunksE, sumC]
  | (k, a) :: r =>
    have h1 := tree_cost_le a
    have h2 := costsE_le r
    simp [costsE, chunksE, sumC, sizeTTs_append, sizeTTs]; omega
end

end TomlVerif.Lemmas.Macro19b
