import TomlVerif.Lemmas.Tiling03MoreInline
/-! C03, stage C inside inline tables — the source-side class `dottedInlRun`: a checker that
    follows the run of the value parser (`cvalue` / `carrayValues` / `carrayElems` /
    `cinlineKeyvals`, same fuel, same control flow) and, for every inline table met, runs
    `table_from_pairs` on its pairs with the adjacency/spelling check `pairsOk`. -/
namespace TomlVerif.Lemmas.Tiling03More
open TomlVerif TomlVerif.Spec TomlVerif.Model TomlVerif.Model.Strings TomlVerif.Model.Value
open TomlVerif.Model.Cst TomlVerif.Model.Encode TomlVerif.Lemmas.Suffix03 TomlVerif.Lemmas.Cst03
open TomlVerif.Lemmas.Tiling03 TomlVerif.Lemmas.Tiling03Hdr TomlVerif.Lemmas.Tiling03Nest

mutual
/-- the check of a value read by `cvalue inp.length fuel d s` -/
def okValue (inp : Bytes) : Nat → Nat → Bytes → Bool
  | 0, _, _ => true
  | fuel + 1, d, s =>
    match s with
    | [] => true
    | b :: r =>
      if b == 0x5B then okArrayValues inp fuel (d + 1) r
      else if b == 0x7B then
        okInlineKeyvals inp fuel (d + 1) r &&
        (match cinlineKeyvals inp.length fuel (d + 1) r [] with
         | .ok kvs _ => pairsOk inp kvs []
         | _ => true)
      else true
/-- the check of the elements read by `carrayValues inp.length fuel d s` -/
def okArrayValues (inp : Bytes) : Nat → Nat → Bytes → Bool
  | 0, _, _ => true
  | fuel + 1, d, s =>
    match s with
    | 0x5D :: _ => true
    | _ => okArrayElems inp fuel d s
/-- the check of the elements read by `carrayElems inp.length fuel d s acc` (an element that
    `carrayElems` reads and then gives back — no trivia after it — is not checked) -/
def okArrayElems (inp : Bytes) : Nat → Nat → Bytes → Bool
  | 0, _, _ => true
  | fuel + 1, d, s =>
    match wsCommentNewline (s.length + 1) s with
    | none => true
    | some s1 =>
      match cvalue inp.length fuel d s1 with
      | .ok _ s2 =>
        (match wsCommentNewline (s2.length + 1) s2 with
         | none => true
         | some s3 =>
           okValue inp fuel d s1 &&
           (match s3 with
            | 0x2C :: s4 => okArrayElems inp fuel d s4
            | _ => true))
      | _ => true
/-- the check of the pairs read by `cinlineKeyvals inp.length fuel d s acc`: their values -/
def okInlineKeyvals (inp : Bytes) : Nat → Nat → Bytes → Bool
  | 0, _, _ => true
  | fuel + 1, d, s =>
    match ckeyPath inp.length s with
    | .ok ks (0x3D :: r1) =>
      okValue inp fuel (d + (ks.length - 1)) (dropWs r1) &&
      (match cvalue inp.length fuel (d + (ks.length - 1)) (dropWs r1) with
       | .ok _ r2 =>
         (match dropWs r2 with
          | 0x2C :: r4 => okInlineKeyvals inp fuel d r4
          | _ => true)
       | _ => true)
    | _ => true
end

/-- the source-side class: the checked run of `parse_value`.  `dottedInlRun s = true` says: in
    every inline table of `s`, at every pair `k1 . … . kn . key = value`, each `ki` that names an
    entry that already exists names the LAST entry of its table so far (the dotted keys with a
    common prefix are adjacent), that entry is a dotted inline table (made by an earlier dotted
    key), and `ki` is spelled — key text and white space around it — like the key stored for that
    entry (the spelling of its first occurrence). -/
def dottedInlRun (s : Bytes) : Bool := okValue s (3 * s.length + 4) 0 s

/-! ### the value-level induction over the checked run -/

theorem undotted_setDecor (v : CVal) (d : Decor) : undotted (v.setDecor d) = undotted v := by
  cases v <;> simp [CVal.setDecor, undotted]

def R1 (f : Bytes → Bytes) (inp : Bytes) (fuel : Nat) : Prop :=
  ∀ d s v r, s <:+ inp → cvalue inp.length fuel d s = .ok v r →
    ∃ t, s = t ++ r ∧ t ≠ [] ∧ v.decor = emptyDecor ∧ undotted v = true ∧
      (okValue inp fuel d s = true → ∀ dp ds, encodeValue f inp v dp ds = t) ∧
      (simpleVal v = true → okValue inp fuel d s = true)

def R2 (f : Bytes → Bytes) (inp : Bytes) (fuel : Nat) : Prop :=
  ∀ d s vs comma tr r, s <:+ inp → carrayValues inp.length fuel d s = .ok (vs, comma, tr) r →
    ∃ t, s = t ++ r ∧
      (okArrayValues inp fuel d s = true →
        encodeElems f inp vs true ++ (if comma && !vs.isEmpty then [0x2C] else []) ++ encRaw f inp tr = t) ∧
      (simpleVals vs = true → okArrayValues inp fuel d s = true)

def R3 (f : Bytes → Bytes) (inp : Bytes) (fuel : Nat) : Prop :=
  ∀ d s acc vs r, s <:+ inp → carrayElems inp.length fuel d s acc = .ok vs r →
    ∃ new t, vs = acc ++ new ∧ s = t ++ r ∧ (∀ v ∈ new, ∃ a b, v.decor = Decor.new a b) ∧
      (okArrayElems inp fuel d s = true → encodeElems f inp new true = t) ∧
      (simpleVals new = true → okArrayElems inp fuel d s = true)

def R4 (f : Bytes → Bytes) (inp : Bytes) (fuel : Nat) : Prop :=
  ∀ d s acc kvs r, s <:+ inp → cinlineKeyvals inp.length fuel d s acc = .ok kvs r →
    ∃ new t, kvs = acc ++ new ∧ s = t ++ r ∧ (new = [] → r = s) ∧ (new ≠ [] → dropWs r = r) ∧
      (∀ p ∈ new, (∃ a b, p.2.2.decor = Decor.new a b) ∧ undotted p.2.2 = true) ∧
      (okInlineKeyvals inp fuel d s = true → encTriples f inp new true = t) ∧
      ((∀ p ∈ new, simpleVal p.2.2 = true) → okInlineKeyvals inp fuel d s = true)

/-- pairs with one-segment keys pass the check -/
theorem pairsOk_simple (inp : Bytes) : ∀ (kvs : List Triple) (acc : VItems), (∀ p ∈ kvs, p.1 = []) →
    pairsOk inp kvs acc = true
  | [], _, _ => rfl
  | (path, key, v) :: rest, acc, h => by
    have hp : path = [] := h (path, key, v) (by simp)
    subst hp
    unfold pairsOk
    simp only [insOk, Bool.true_and]
    split
    · exact pairsOk_simple inp rest _ (fun p hm => h p (List.mem_cons_of_mem _ hm))
    · rfl

theorem rstep4 (f : Bytes → Bytes) (inp : Bytes) (hf : FixOn f inp) (fuel : Nat)
    (ih1 : R1 f inp fuel) (ih4 : R4 f inp fuel) : R4 f inp (fuel + 1) := by
  intro d s acc kvs r hinp h
  unfold cinlineKeyvals at h
  split at h
  · cases h
  · rename_i hk
    injection h with h1 h2; subst h1; subst h2
    refine ⟨[], [], by simp, by simp, fun _ => rfl, fun h => absurd rfl h, (by intro p hp; cases hp), fun _ => by simp [encTriples], ?_⟩
    intro hh
    unfold okInlineKeyvals
    simp only [hk]
  · rename_i ks r0 hk
    split at h
    · cases h
    · split at h
      · rename_i r1
        simp only [] at h
        have hkp := ckeyPath_tiling f inp hf s _ ks hinp hk [0x20] [0x20]
        generalize htk : encodeKeyPath f inp ks [0x20] [0x20] = tk at hkp
        have hr1 : r1 <:+ s := (List.suffix_cons _ _).trans ⟨tk, hkp.symm⟩
        obtain ⟨w1, hw1⟩ := Cst03.dropWs_suffix r1
        have hr1' : dropWs r1 <:+ inp := ((Cst03.dropWs_suffix r1).trans hr1).trans hinp
        split at h
        · rename_i v r2 hv
          obtain ⟨tv, htv, _, hdec, hund, hvt, hvs⟩ := ih1 _ _ _ _ hr1' hv
          have hr2 : r2 <:+ inp := (htv ▸ suffix_of_append tv r2).trans hr1'
          obtain ⟨w2, hw2⟩ := Cst03.dropWs_suffix r2
          -- the checker on this pair
          have hokE : okInlineKeyvals inp (fuel + 1) d s =
              (okValue inp fuel (d + (ks.length - 1)) (dropWs r1) &&
                (match dropWs r2 with
                 | 0x2C :: r4 => okInlineKeyvals inp fuel d r4
                 | _ => true)) := by
            conv => lhs; unfold okInlineKeyvals
            simp only [hk, hv]
          split at h
          · cases h
          · rename_i path key hsl
            have hks := vsplitLast_some _ _ _ hsl
            generalize hv' : v.setDecor (Decor.new (rawBetween inp.length r1 (dropWs r1)) (rawBetween inp.length r2 (dropWs r2))) = v' at h
            have hd' : (∃ a b, v'.decor = Decor.new a b) ∧ undotted v' = true :=
              ⟨⟨_, _, by rw [← hv', setDecor_decor]⟩, by rw [← hv', undotted_setDecor]; exact hund⟩
            -- the text of this entry
            have htext : s = (tk ++ [0x3D] ++ w1 ++ tv ++ w2) ++ dropWs r2 := by
              rw [hkp]
              simp only [List.append_assoc, List.cons_append, List.nil_append]
              rw [hw2, ← htv, hw1]
            have hentry : okValue inp fuel (d + (ks.length - 1)) (dropWs r1) = true →
                encodeKeyPath f inp (path ++ [key]) [0x20] [0x20] ++ [0x3D] ++ encodeValue f inp v' [] []
                  = tk ++ [0x3D] ++ w1 ++ tv ++ w2 := by
              intro hokv
              rw [← hks, htk, ← hv', encodeValue_setDecor f hf.nil inp v _ _ hdec [] [] [] [], hvt hokv [] [],
                encRaw_fix hf, encRaw_fix hf,
                rawText_between inp r1 w1 (dropWs r1) (hr1.trans hinp) hw1.symm,
                rawText_between inp r2 w2 (dropWs r2) hr2 hw2.symm]
              simp [List.append_assoc]
            have single : ∃ new t, acc ++ [(path, key, v')] = acc ++ new ∧ s = t ++ dropWs r2 ∧
                (new = [] → dropWs r2 = s) ∧ (new ≠ [] → dropWs (dropWs r2) = dropWs r2) ∧
                (∀ p ∈ new, (∃ a b, p.2.2.decor = Decor.new a b) ∧ undotted p.2.2 = true) ∧
                (okInlineKeyvals inp (fuel + 1) d s = true → encTriples f inp new true = t) ∧
                (new = [(path, key, v')]) := by
              refine ⟨[(path, key, v')], _, rfl, htext, by simp, fun _ => dropWs_idem r2, ?_, ?_, rfl⟩
              · intro p hp; simp at hp; subst hp; exact hd'
              · intro hok
                rw [hokE, Bool.and_eq_true] at hok
                simp only [encTriples, if_true, List.nil_append, List.append_nil]
                exact hentry hok.1
            have hsv' : simpleVal v' = simpleVal v := by rw [← hv', simpleVal_setDecor]
            split at h
            · rename_i r4 heq
              have hr4 : r4 <:+ inp := (List.suffix_cons _ r4).trans (heq ▸ ((Cst03.dropWs_suffix r2).trans hr2))
              split at h
              · rename_i kvs' r5 hrec
                obtain ⟨new', t', hkvs, ht', hnil, hcons, hdecs, htile, hsimp⟩ := ih4 _ _ _ _ _ hr4 hrec
                split at h
                · rename_i hlen
                  injection h with h1 h2; subst h1; subst h2
                  have : new' = [] := by
                    have hl := congrArg List.length hkvs
                    have : kvs'.length = (acc ++ [(path, key, v')]).length := by simpa using hlen
                    simp at hl this
                    exact List.length_eq_zero_iff.1 (by omega)
                  subst this
                  rw [hkvs, List.append_nil]
                  obtain ⟨new, t, e1, e2, e3, e4, e5, e6, e7⟩ := single
                  refine ⟨new, t, e1, e2, e3, e4, e5, e6, ?_⟩
                  intro hall
                  subst e7
                  rw [hokE, heq, Bool.and_eq_true]
                  exact ⟨hvs (hsv' ▸ hall (path, key, v') (by simp)), hsimp (by intro p hp; cases hp)⟩
                · rename_i hlen
                  injection h with h1 h2; subst h1; subst h2
                  have hne : new' ≠ [] := by
                    intro e; subst e
                    simp at hkvs; subst hkvs; simp at hlen
                  refine ⟨(path, key, v') :: new', (tk ++ [0x3D] ++ w1 ++ tv ++ w2) ++ [0x2C] ++ t', by rw [hkvs]; simp, ?_, by simp, fun _ => hcons hne, ?_, ?_, ?_⟩
                  · rw [htext, heq, ht']; simp
                  · intro p hp
                    rcases List.mem_cons.1 hp with e | hp
                    · subst e; exact hd'
                    · exact hdecs p hp
                  · intro hok
                    rw [hokE, heq, Bool.and_eq_true] at hok
                    simp only [] at hok
                    have hrest := htile hok.2
                    simp only [encTriples, if_true, List.nil_append]
                    rw [encTriples_false f inp _ hne]
                    rw [hrest]
                    have e := congrArg (fun x => x ++ ([0x2C] ++ t')) (hentry hok.1)
                    simpa [List.append_assoc] using e
                  · intro hall
                    rw [hokE, heq, Bool.and_eq_true]
                    exact ⟨hvs (hsv' ▸ hall (path, key, v') (by simp)),
                      hsimp (fun p hp => hall p (List.mem_cons_of_mem _ hp))⟩
              · rename_i hne
                exact absurd h (hne _ _)
            · rename_i hnc
              injection h with h1 h2; subst h1; subst h2
              obtain ⟨new, t, e1, e2, e3, e4, e5, e6, e7⟩ := single
              refine ⟨new, t, e1, e2, e3, e4, e5, e6, ?_⟩
              intro hall
              subst e7
              rw [hokE, Bool.and_eq_true]
              refine ⟨hvs (hsv' ▸ hall (path, key, v') (by simp)), ?_⟩
              split
              · rename_i r4 heq; exact absurd heq (hnc r4)
              · rfl
        · cases h
      · cases h

theorem rstep1 (f : Bytes → Bytes) (inp : Bytes) (hf : FixOn f inp) (fuel : Nat)
    (ih2 : R2 f inp fuel) (ih4 : R4 f inp fuel) : R1 f inp (fuel + 1) := by
  intro d s v r hinp h
  unfold cvalue at h
  split at h
  · cases h
  · rename_i b r0
    have hr0 : r0 <:+ inp := (List.suffix_cons b r0).trans hinp
    split at h
    · -- array
      rename_i hb
      split at h
      · cases h
      · split at h
        · rename_i vs comma tr r1 hav
          obtain ⟨t, ht, htile, htileS⟩ := ih2 _ _ _ _ _ _ hr0 hav
          split at h
          · rename_i r2
            injection h with h1 h2; subst h2; subst h1
            refine ⟨[b] ++ t ++ [0x5D], by simp [ht], by simp, rfl, rfl, ?_, ?_⟩
            · intro hok
              unfold okValue at hok
              simp only [hb, if_true] at hok
              have hb2 := htile hok
              have hb' : b = 0x5B := by simpa using hb
              subst hb'
              intro dp ds
              simp only [encodeValue, prefixEncode, suffixEncode, emptyDecor, Decor.new, encRaw, rawText_empty, hf.nil]
              simp only [encRaw] at hb2
              rw [← hb2]; simp
            · intro hsv
              simp only [simpleVal] at hsv
              unfold okValue
              simp only [hb, if_true]
              exact htileS hsv
          · cases h
        · cases h
    · rename_i hb1
      split at h
      · -- inline table
        rename_i hb
        split at h
        · cases h
        · split at h
          · rename_i kvs r1 hkv
            obtain ⟨new, t, hkvs, ht, hnil, hcons, hdecs, htile, htileS⟩ := ih4 _ _ _ _ _ hr0 hkv
            simp only [List.nil_append] at hkvs
            subst hkvs
            simp only [] at h
            split at h
            · cases h
            · rename_i items htp
              split at h
              · rename_i r2 heq
                injection h with h1' h2; subst h2; subst h1'
                obtain ⟨wp, hwp⟩ := Cst03.dropWs_suffix r1
                have hr1 : r1 <:+ inp := (ht ▸ suffix_of_append t r1).trans hr0
                refine ⟨[b] ++ t ++ wp ++ [0x7D], by rw [ht, ← hwp, heq]; simp, by simp, rfl, rfl, ?_, ?_⟩
                · intro hok
                  unfold okValue at hok
                  simp only [hb1, hb, if_true, Bool.false_eq_true, if_false, hkv, Bool.and_eq_true] at hok
                  have hb' : b = 0x7B := by simpa using hb
                  subst hb'
                  have htext := htile hok.1
                  have hbody := inl_body_text f inp kvs items hok.2 (fun p hp => (hdecs p hp).2)
                    (fun p hp => (hdecs p hp).1) htp
                  intro dp ds
                  simp only [encodeValue, prefixEncode, suffixEncode, emptyDecor, Decor.new, rawText_empty, encRaw_fix hf]
                  rw [hbody, htext, rawText_between inp r1 wp (dropWs r1) hr1 hwp.symm]
                  by_cases hne : kvs = []
                  · subst hne
                    simp [encTriples] at htext
                    subst htext
                    simp
                  · have := hcons hne
                    rw [this] at hwp
                    have : wp = [] := by
                      have := congrArg List.length hwp
                      simpa using this
                    subst this
                    simp
                · intro hsv
                  simp only [simpleVal, Bool.and_eq_true] at hsv
                  obtain ⟨hpaths, hitems⟩ := ctableFromPairs_simple _ _ _ htp (simpleKvs_anyImp _ hsv.2)
                  simp only [List.nil_append] at hitems
                  have hmem : ∀ p ∈ kvs, simpleVal p.2.2 = true := by
                    intro p hp
                    have : (p.2.1, p.2.2) ∈ items := by
                      rw [hitems]; exact List.mem_map_of_mem (f := fun p => (p.2.1, p.2.2)) hp
                    exact simpleKvs_mem items hsv.2 _ this
                  unfold okValue
                  simp only [hb1, hb, if_true, Bool.false_eq_true, if_false, hkv, Bool.and_eq_true]
                  exact ⟨htileS hmem, pairsOk_simple inp kvs [] hpaths⟩
              · cases h
          · cases h
      · -- scalar
        rename_i hb2
        split at h
        · rename_i v0 r1 hv
          injection h with h1 h2; subst h2; subst h1
          obtain ⟨hsuf, hlen⟩ := scalar_suffix _ _ _ _ hv
          obtain ⟨t, ht⟩ := hsuf
          refine ⟨t, ht.symm, ?_, rfl, rfl, ?_, ?_⟩
          · rw [← ht] at hlen; exact length_pos_append t r1 hlen
          · intro _ dp ds
            simp only [encodeValue, prefixEncode, suffixEncode, emptyDecor, Decor.new, encRaw, rawText_empty, hf.nil]
            rw [rawText_between inp (b :: r0) t r1 hinp ht.symm]
            simp
          · intro _
            unfold okValue
            simp only [hb1, hb2, Bool.false_eq_true, if_false]
        · cases h
        · cases h

theorem rstep2 (f : Bytes → Bytes) (inp : Bytes) (hf : FixOn f inp) (fuel : Nat) (ih3 : R3 f inp fuel) : R2 f inp (fuel + 1) := by
  intro d s vs comma tr r hinp h
  unfold carrayValues at h
  split at h
  · injection h with h1 h2; subst h2
    injection h1 with h1 h3; injection h3 with h3 h4; subst h1; subst h3; subst h4
    refine ⟨[], by simp, ?_, ?_⟩
    · intro _
      simp [encodeElems, encRaw, rawText_empty, hf.nil]
    · intro _
      unfold okArrayValues
      rfl
  · rename_i hnot
    have hokE : okArrayValues inp (fuel + 1) d s = okArrayElems inp fuel d s := by
      conv => lhs; unfold okArrayValues
      split
      · rename_i x; exact absurd rfl (hnot x)
      · rfl
    split at h
    · rename_i vs0 r0 hel
      obtain ⟨new, t, hvs, ht, hdec, htile0, htileS⟩ := ih3 _ _ _ _ _ hinp hel
      have htile : okArrayValues inp (fuel + 1) d s = true → encodeElems f inp new true = t := by
        intro hok; rw [hokE] at hok; exact htile0 hok
      simp only [List.nil_append] at hvs
      subst hvs
      have key : ∀ (comma0 : Bool) (r1 : Bytes),
          (comma0 = true → vs0.isEmpty = false ∧ r0 = 0x2C :: r1) → (comma0 = false → r1 = r0) →
          (match wsCommentNewline (List.length r1 + 1) r1 with
            | some r2 => Res.ok (vs0, comma0, rawBetween (List.length inp) r1 r2) r2
            | none => Res.bt) = Res.ok (vs, comma, tr) r →
          ∃ t, s = t ++ r ∧ (okArrayValues inp (fuel + 1) d s = true →
            (encodeElems f inp vs true ++ if (comma && !vs.isEmpty) = true then [44] else []) ++ encRaw f inp tr = t) ∧
            (simpleVals vs = true → okArrayValues inp (fuel + 1) d s = true) := by
        intro comma0 r1 hc1 hc2 h
        split at h
        · rename_i r2 hw
          injection h with h1 h2; subst h2
          injection h1 with h1 h3; injection h3 with h3 h4; subst h1; subst h3; subst h4
          obtain ⟨w, hw2⟩ := wsCommentNewline_suffix _ _ _ hw
          cases comma0 with
          | false =>
            have e := hc2 rfl
            subst e
            refine ⟨t ++ w, by rw [ht, ← hw2]; simp, ?_, fun hsv => hokE ▸ htileS hsv⟩
            intro hfl
            have hb2 := htile hfl
            have hr1 : r1 <:+ inp := (ht ▸ suffix_of_append t r1).trans hinp
            rw [encRaw_fix hf, rawText_between inp r1 w r2 hr1 hw2.symm, hb2]
            simp
          | true =>
            obtain ⟨hne, e⟩ := hc1 rfl
            refine ⟨t ++ [0x2C] ++ w, by rw [ht, e, ← hw2]; simp, ?_, fun hsv => hokE ▸ htileS hsv⟩
            intro hfl
            have hb2 := htile hfl
            have hr1 : r1 <:+ inp := ((List.suffix_cons _ r1).trans (e ▸ (ht ▸ suffix_of_append t r0))).trans hinp
            rw [encRaw_fix hf, rawText_between inp r1 w r2 hr1 hw2.symm, hb2]
            simp [hne]
        · cases h
      split at h
      rename_i comma0 r1 heq
      split at heq
      · injection heq with e1 e2; subst e1; subst e2
        exact key false r0 (by intro c; cases c) (fun _ => rfl) h
      · rename_i hvs
        have hvs' : vs0.isEmpty = false := by simpa using hvs
        split at heq
        · rename_i t0
          injection heq with e1 e2; subst e1; subst e2
          exact key true _ (fun _ => ⟨hvs', rfl⟩) (by intro c; cases c) h
        · injection heq with e1 e2; subst e1; subst e2
          exact key false r0 (by intro c; cases c) (fun _ => rfl) h
    · cases h
    · cases h

theorem rstep3 (f : Bytes → Bytes) (inp : Bytes) (hf : FixOn f inp) (fuel : Nat)
    (ih1 : R1 f inp fuel) (ih3 : R3 f inp fuel) : R3 f inp (fuel + 1) := by
  intro d s acc vs r hinp h
  have reset : ∀ {vs r}, (Res.ok acc s : Res (List CVal)) = Res.ok vs r →
      ∃ new t, vs = acc ++ new ∧ s = t ++ r ∧ (∀ v ∈ new, ∃ a b, v.decor = Decor.new a b) ∧
      (okArrayElems inp (fuel + 1) d s = true → encodeElems f inp new true = t) ∧ new = [] := by
    intro vs r h
    injection h with h1 h2; subst h1; subst h2
    exact ⟨[], [], by simp, by simp, (by intro v hv; cases hv), fun _ => by simp [encodeElems], rfl⟩
  have reset' : ∀ {vs r}, (Res.ok acc s : Res (List CVal)) = Res.ok vs r → okArrayElems inp (fuel + 1) d s = true →
      ∃ new t, vs = acc ++ new ∧ s = t ++ r ∧ (∀ v ∈ new, ∃ a b, v.decor = Decor.new a b) ∧
      (okArrayElems inp (fuel + 1) d s = true → encodeElems f inp new true = t) ∧
      (simpleVals new = true → okArrayElems inp (fuel + 1) d s = true) := by
    intro vs r h hok
    obtain ⟨new, t, e1, e2, e3, e4, _⟩ := reset h
    exact ⟨new, t, e1, e2, e3, e4, fun _ => hok⟩
  unfold carrayElems at h
  split at h
  · rename_i hw0
    refine reset' h ?_
    unfold okArrayElems
    simp only [hw0]
  · rename_i s1 hw1
    obtain ⟨w1, hs1⟩ := wsCommentNewline_suffix _ _ _ hw1
    have hs1inp : s1 <:+ inp := (hs1 ▸ suffix_of_append w1 s1).trans hinp
    split at h
    · cases h
    · rename_i hbt
      refine reset' h ?_
      unfold okArrayElems
      simp only [hw1, hbt]
    · rename_i v s2 hv
      obtain ⟨tok, htok, _, hdec, _, hvt, hvs1⟩ := ih1 _ _ _ _ hs1inp hv
      split at h
      · rename_i hw2n
        refine reset' h ?_
        unfold okArrayElems
        simp only [hw1, hv, hw2n]
      · rename_i s3 hw2
        obtain ⟨w2, hs3⟩ := wsCommentNewline_suffix _ _ _ hw2
        simp only [] at h
        have hokE : okArrayElems inp (fuel + 1) d s =
            (okValue inp fuel d s1 &&
              (match (generalizing := false) s3 with
               | 0x2C :: s4 => okArrayElems inp fuel d s4
               | _ => true)) := by
          conv => lhs; unfold okArrayElems
          simp only [hw1, hv, hw2]
        have hs2inp : s2 <:+ inp := (htok ▸ suffix_of_append tok s2).trans hs1inp
        generalize hv' : v.setDecor (Decor.new (rawBetween inp.length s s1) (rawBetween inp.length s2 s3)) = v' at h
        have hd' : ∃ a b, v'.decor = Decor.new a b := ⟨_, _, by rw [← hv', setDecor_decor]⟩
        have hsv' : simpleVal v' = simpleVal v := by rw [← hv', simpleVal_setDecor]
        have hel : okValue inp fuel d s1 = true → ∀ dp ds, encodeValue f inp v' dp ds = w1 ++ tok ++ w2 := by
          intro hfl dp ds
          rw [← hv', encodeValue_setDecor f hf.nil inp v _ _ hdec dp ds [] [], hvt hfl [] [],
            encRaw_fix hf, encRaw_fix hf,
            rawText_between inp s w1 s1 hinp hs1.symm, rawText_between inp s2 w2 s3 hs2inp hs3.symm]
        have single : ∃ new t, acc ++ [v'] = acc ++ new ∧ s = t ++ s3 ∧ (∀ v ∈ new, ∃ a b, v.decor = Decor.new a b) ∧
            (okArrayElems inp (fuel + 1) d s = true → encodeElems f inp new true = t) ∧ new = [v'] := by
          refine ⟨[v'], w1 ++ tok ++ w2, rfl, by rw [← hs1, htok, ← hs3]; simp, ?_, ?_, rfl⟩
          · intro x hx; simp at hx; subst hx; exact hd'
          · intro hok
            rw [hokE, Bool.and_eq_true] at hok
            simp [encodeElems, hel hok.1]
        split at h
        · rename_i s4
          have hs4inp : s4 <:+ inp := (List.suffix_cons _ s4).trans ((hs3 ▸ suffix_of_append w2 _).trans hs2inp)
          split at h
          · rename_i vs' r' hrec
            obtain ⟨new', t', hvs, ht', hdecs, htile, hsimp⟩ := ih3 _ _ _ _ _ hs4inp hrec
            split at h
            · rename_i hlen
              injection h with h1 h2; subst h1; subst h2
              have : new' = [] := by
                have hl := congrArg List.length hvs
                have : vs'.length = (acc ++ [v']).length := by simpa using hlen
                simp at hl this
                exact List.length_eq_zero_iff.1 (by omega)
              subst this
              rw [hvs, List.append_nil]
              obtain ⟨new, t, e1, e2, e3, e4, e5⟩ := single
              refine ⟨new, t, e1, e2, e3, e4, ?_⟩
              intro hall
              subst e5
              simp only [simpleVals, Bool.and_true] at hall
              rw [hokE, Bool.and_eq_true]
              exact ⟨hvs1 (hsv' ▸ hall), hsimp rfl⟩
            · rename_i hlen
              injection h with h1 h2; subst h1; subst h2
              have hne : new' ≠ [] := by
                intro e; subst e
                simp at hvs; subst hvs; simp at hlen
              refine ⟨v' :: new', w1 ++ tok ++ w2 ++ [0x2C] ++ t', by rw [hvs]; simp, ?_, ?_, ?_, ?_⟩
              · rw [← hs1, htok, ← hs3, ht']; simp
              · intro x hx
                rcases List.mem_cons.1 hx with hx | hx
                · subst hx; exact hd'
                · exact hdecs x hx
              · intro hok
                rw [hokE, Bool.and_eq_true] at hok
                simp only [] at hok
                have hb2 := hel hok.1
                have hc2 := htile hok.2
                simp only [encodeElems, if_true]
                rw [hb2, encodeElems_false f inp new' hdecs hne, hc2]
                simp
              · intro hall
                simp only [simpleVals, Bool.and_eq_true] at hall
                rw [hokE, Bool.and_eq_true]
                exact ⟨hvs1 (hsv' ▸ hall.1), hsimp hall.2⟩
          · rename_i hne
            exact absurd h (hne _ _)
        · rename_i hnc
          injection h with h1 h2; subst h1; subst h2
          obtain ⟨new, t, e1, e2, e3, e4, e5⟩ := single
          refine ⟨new, t, e1, e2, e3, e4, ?_⟩
          intro hall
          subst e5
          simp only [simpleVals, Bool.and_true] at hall
          rw [hokE, Bool.and_eq_true]
          refine ⟨hvs1 (hsv' ▸ hall), ?_⟩
          split
          · rename_i s4; exact absurd rfl (hnc s4)
          · rfl

theorem rvalue_main (f : Bytes → Bytes) (inp : Bytes) (hf : FixOn f inp) :
    ∀ fuel : Nat, R1 f inp fuel ∧ R2 f inp fuel ∧ R3 f inp fuel ∧ R4 f inp fuel := by
  intro fuel
  induction fuel with
  | zero =>
    refine ⟨?_, ?_, ?_, ?_⟩
    · intro d s v r _ h; unfold cvalue at h; cases h
    · intro d s vs comma tr r _ h; unfold carrayValues at h; cases h
    · intro d s acc vs r _ h; unfold carrayElems at h; cases h
    · intro d s acc kvs r _ h; unfold cinlineKeyvals at h; cases h
  | succ fuel ih =>
    obtain ⟨ih1, ih2, ih3, ih4⟩ := ih
    exact ⟨rstep1 f inp hf fuel ih2 ih4, rstep2 f inp hf fuel ih3, rstep3 f inp hf fuel ih1 ih3, rstep4 f inp hf fuel ih1 ih4⟩

/-- the value-level result for the checked run: what `cvalue` consumed is what the printer
    writes, for any decor transformation fixing the input -/
theorem cvalue_tiling_dotted (f : Bytes → Bytes) (inp : Bytes) (hf : FixOn f inp) (fuel d : Nat) (s r : Bytes)
    (v : CVal) (hs : s <:+ inp) (h : cvalue inp.length fuel d s = .ok v r) :
    ∃ t, s = t ++ r ∧ t ≠ [] ∧ v.decor = emptyDecor ∧ undotted v = true ∧
      (okValue inp fuel d s = true → ∀ dp ds, encodeValue f inp v dp ds = t) ∧
      (simpleVal v = true → okValue inp fuel d s = true) :=
  (rvalue_main f inp hf fuel).1 d s v r hs h

/-! ### the hypotheses on concrete inputs -/

/-- `{a = 1, "b c" = [2]}` -/
def exSimpleSrc : Bytes := strBytes "{a = 1, \"b c\" = [2]}"

/-- `pairsOk_simple`: the pairs of `exSimpleSrc` have one-segment keys -/
example : (match cinlineKeyvals exSimpleSrc.length 100 1 (exSimpleSrc.drop 1) [] with
    | .ok kvs _ => kvs.length == 2 && kvs.all (fun p => p.1.isEmpty)
    | _ => false) = true := by decide +kernel

/-- `cvalue_tiling_dotted` (and the four statements `R1`–`R4` behind it) on `exSrc`: the value
    parser accepts the text and the checked run passes -/
example : (match cvalue exSrc.length (3 * exSrc.length + 4) 0 exSrc with
    | .ok _ r => r.isEmpty
    | _ => false) = true ∧ okValue exSrc (3 * exSrc.length + 4) 0 exSrc = true := by decide +kernel

end TomlVerif.Lemmas.Tiling03More
