import TomlVerif.Lemmas.Tiling03MoreVSRebuild
import TomlVerif.Lemmas.Tiling03MoreInline
import TomlVerif.Lemmas.Tiling03MoreEraseValue
import TomlVerif.Props.C01Sound
/-! Value-level "same data" (C03): the tree invariant of `table_from_pairs` outputs on the
    format-preserving side, and what it says about the flattened entry list the printer writes. -/
namespace TomlVerif.Lemmas.Tiling03More.VS
open TomlVerif TomlVerif.Spec TomlVerif.Model TomlVerif.Model.Strings TomlVerif.Model.Value
open TomlVerif.Model.Cst TomlVerif.Model.Encode TomlVerif.Lemmas.Suffix03 TomlVerif.Lemmas.Cst03
open TomlVerif.Lemmas.Tiling03 TomlVerif.Spec.AstValue TomlVerif.Spec.AstValueQ

/-! ### a predicate over the tree of dotted sub-tables -/

section Iok
variable (GK : CKey → Prop) (G : Nat → CVal → Prop)

mutual
/-- every stored key is `GK`; every leaf below `n + m` dotted levels is `G (n + m)` -/
def IokL : Nat → VItems → Prop
  | _, [] => True
  | n, (k, v) :: r => GK k ∧ IokV n v ∧ IokL n r
def IokV : Nat → CVal → Prop
  | n, .inl sub pre imp dot dec sp =>
    (dot = true → IokL (n + 1) sub) ∧ (dot = false → G n (.inl sub pre imp dot dec sp))
  | n, .scalar a b c => G n (.scalar a b c)
  | n, .arr a b c d e => G n (.arr a b c d e)
end

theorem IokL_append (n : Nat) : ∀ (a b : VItems), IokL GK G n (a ++ b) ↔ IokL GK G n a ∧ IokL GK G n b
  | [], b => by simp [IokL]
  | (k, v) :: r, b => by simp only [List.cons_append, IokL, IokL_append n r b, and_assoc]

theorem IokV_leaf (n : Nat) (v : CVal) (hu : undotted v = true) (hg : G n v) : IokV GK G n v := by
  cases v with
  | scalar a b c => rw [IokV]; exact hg
  | arr a b c d e => rw [IokV]; exact hg
  | inl sub pre imp dot dec sp =>
    have : dot = false := by simpa [undotted] using hu
    subst this
    rw [IokV]
    exact ⟨(fun h => by cases h), fun _ => hg⟩

theorem vlookup_split (k : Bytes) (v0 : CVal) : ∀ items : VItems, clookup k items = some v0 →
    ∃ before k0 after, items = before ++ (k0, v0) :: after ∧
      ∀ v', creplace k v' items = before ++ (k0, v') :: after := by
  intro items
  induction items with
  | nil => intro h; simp [clookup] at h
  | cons x items ih =>
    obtain ⟨k', v⟩ := x
    intro h
    unfold clookup at h
    by_cases hk : (k'.key == k) = true
    · simp only [hk, if_true] at h
      injection h with h
      subst h
      exact ⟨[], k', items, rfl, fun v' => by simp [creplace, hk]⟩
    · simp only [hk] at h
      obtain ⟨before, k0, after, e, hr⟩ := ih h
      refine ⟨(k', v) :: before, k0, after, by simp [e], fun v' => ?_⟩
      simp only [creplace, hk]
      simp [hr v']

/-- a successful insertion of a leaf keeps the tree predicate -/
theorem cinlInsert_Iok (hGimp : ∀ n v, G n v → impInl v = false) :
    ∀ (path : List CKey) (items items' : VItems) (td pe : Bool) (key : CKey) (v : CVal) (n : Nat),
    cinlInsert items td path pe key v = some items' → IokL GK G n items → (∀ k ∈ path, GK k) → GK key →
    G (n + path.length) v → undotted v = true → IokL GK G n items' := by
  intro path
  induction path with
  | nil =>
    intro items items' td pe key v n h hit _ hkey hg hu
    unfold cinlInsert at h
    split at h
    · cases h
    · split at h
      · cases h
      · injection h with h; subst h
        rw [IokL_append]
        exact ⟨hit, by rw [IokL]; exact ⟨hkey, IokV_leaf GK G n v hu hg, by rw [IokL]; trivial⟩⟩
  | cons k ks ih =>
    intro items items' td pe key v n h hit hpath hkey hg hu
    have hg' : G (n + 1 + ks.length) v := by
      have e : n + (k :: ks).length = n + 1 + ks.length := by simp; omega
      rw [← e]; exact hg
    have hks : ∀ k' ∈ ks, GK k' := fun k' hk' => hpath k' (List.mem_cons_of_mem _ hk')
    unfold cinlInsert at h
    split at h
    · split at h
      · rename_i sub hs
        injection h with h; subst h
        have hsub := ih [] sub true pe key v (n + 1) hs (by rw [IokL]; trivial) hks hkey hg' hu
        rw [IokL_append]
        refine ⟨hit, ?_⟩
        rw [IokL]
        refine ⟨hpath k (by simp), ?_, by rw [IokL]; trivial⟩
        rw [newDottedInl, IokV]
        exact ⟨fun _ => hsub, fun h => by cases h⟩
      · cases h
    · rename_i sub pre imp dot dec sp hl
      split at h
      · cases h
      · rename_i himp
        have himp' : imp = true := by simpa using himp
        subst himp'
        split at h
        · rename_i sub' hs
          injection h with h; subst h
          obtain ⟨before, k0, after, e, hrep⟩ := vlookup_split k.key _ items hl
          rw [e, IokL_append, IokL] at hit
          obtain ⟨hb, hk0, hv0, ha⟩ := hit
          rw [IokV] at hv0
          cases dot with
          | false =>
            have := hGimp _ _ (hv0.2 rfl)
            simp [impInl] at this
          | true =>
            have hsub' := ih sub sub' true pe key v (n + 1) hs (hv0.1 rfl) hks hkey hg' hu
            rw [hrep, IokL_append, IokL]
            refine ⟨hb, hk0, ?_, ha⟩
            rw [IokV]
            exact ⟨fun _ => hsub', fun h => by cases h⟩
        · cases h
    · cases h

theorem ctableFromPairs_Iok (hGimp : ∀ n v, G n v → impInl v = false) :
    ∀ (kvs : List Triple) (acc items : VItems), ctableFromPairs kvs acc = some items → IokL GK G 0 acc →
    (∀ t ∈ kvs, (∀ k ∈ t.1, GK k) ∧ GK t.2.1 ∧ G t.1.length t.2.2 ∧ undotted t.2.2 = true) →
    IokL GK G 0 items
  | [], acc, items, h, ha, _ => by
    simp only [ctableFromPairs] at h; injection h with h; subst h; exact ha
  | (path, key, v) :: rest, acc, items, h, ha, hl => by
    unfold ctableFromPairs at h
    split at h
    · rename_i acc' hi
      obtain ⟨h1, h2, h3, h4⟩ := hl (path, key, v) (List.mem_cons_self ..)
      refine ctableFromPairs_Iok hGimp rest acc' items h ?_ (fun e he => hl e (List.mem_cons_of_mem _ he))
      exact cinlInsert_Iok GK G hGimp path acc acc' false _ key v 0 hi ha h1 h2 (by simpa using h3) h4
    · cases h

mutual
/-- the entries of the flattened list: a path of `GK` keys below the parent and a `G` leaf -/
theorem IokL_entries : ∀ (items : VItems) (n : Nat) (P : List CKey), IokL GK G n items →
    ∀ e ∈ valuesInl items P, ∃ rel m, e.1 = P ++ rel ∧ m + 1 = n + rel.length ∧ (∀ k ∈ rel, GK k) ∧ G m e.2
  | [], n, P, _, e, he => by rw [valuesInl_nil] at he; cases he
  | (k, v) :: r, n, P, h, e, he => by
    rw [IokL] at h
    rw [valuesInl_cons] at he
    rcases List.mem_append.1 he with he | he
    · exact IokV_entries v n P k h.1 h.2.1 e he
    · exact IokL_entries r n P h.2.2 e he
theorem IokV_entries : ∀ (v : CVal) (n : Nat) (P : List CKey) (k : CKey), GK k → IokV GK G n v →
    ∀ e ∈ valuesVal v (P ++ [k]), ∃ rel m, e.1 = P ++ rel ∧ m + 1 = n + rel.length ∧ (∀ k ∈ rel, GK k) ∧ G m e.2
  | .scalar a b c, n, P, k, hk, h, e, he => by
    rw [IokV] at h
    simp only [valuesVal, List.mem_singleton] at he
    subst he
    exact ⟨[k], n, rfl, by simp, by simpa using hk, h⟩
  | .arr a b c d e', n, P, k, hk, h, e, he => by
    rw [IokV] at h
    simp only [valuesVal, List.mem_singleton] at he
    subst he
    exact ⟨[k], n, rfl, by simp, by simpa using hk, h⟩
  | .inl sub pre imp false dec sp, n, P, k, hk, h, e, he => by
    rw [IokV] at h
    simp only [valuesVal, Bool.false_eq_true, if_false, List.mem_singleton] at he
    subst he
    exact ⟨[k], n, rfl, by simp, by simpa using hk, h.2 rfl⟩
  | .inl sub pre imp true dec sp, n, P, k, hk, h, e, he => by
    rw [IokV] at h
    simp only [valuesVal, if_true] at he
    obtain ⟨rel, m, e1, e2, e3, e4⟩ := IokL_entries sub (n + 1) (P ++ [k]) (h.1 rfl) e he
    refine ⟨k :: rel, m, by rw [e1]; simp, by simp; omega, ?_, e4⟩
    intro k' hk'
    rcases List.mem_cons.1 hk' with rfl | hk'
    · exact hk
    · exact e3 k' hk'
end

end Iok

/-! ### the flattened entries, erased, are the flattening of the erased tree -/

/-- the `(path, key, value)` entry of a printed pair -/
def eTriple (e : List CKey × CVal) : STriple :=
  ((keysOf e.1).dropLast, (keysOf e.1).getLast?.getD [], eraseVal e.2)

def preP (p : List Bytes) (e : STriple) : STriple := (p ++ e.1, e.2.1, e.2.2)

theorem eTriple_snoc (P : List CKey) (k : CKey) (v : CVal) : eTriple (P ++ [k], v) = (keysOf P, k.key, eraseVal v) := by
  simp [eTriple, keysOf]

/-- leaves as the parser builds them -/
def LeafG (v : CVal) : Prop := undotted v = true ∧ impInl v = false ∧ SLeaf (eraseVal v)

mutual
theorem valuesInl_sflat (G : Nat → CVal → Prop) (hG : ∀ n v, G n v → LeafG v) :
    ∀ (items : VItems) (n : Nat) (P : List CKey), IokL (fun _ => True) G n items →
    (valuesInl items P).map eTriple = (sflat (eraseKvs items)).map (preP (keysOf P))
  | [], n, P, _ => by simp [valuesInl_nil, eraseKvs, sflat]
  | (k, v) :: r, n, P, h => by
    rw [IokL] at h
    rw [valuesInl_cons, eraseKvs, sflat, List.map_append, List.map_append,
      valuesVal_sflat G hG v n P k h.2.1, valuesInl_sflat G hG r n P h.2.2]
theorem valuesVal_sflat (G : Nat → CVal → Prop) (hG : ∀ n v, G n v → LeafG v) :
    ∀ (v : CVal) (n : Nat) (P : List CKey) (k : CKey), IokV (fun _ => True) G n v →
    (valuesVal v (P ++ [k])).map eTriple = (sflatV k.key (eraseVal v)).map (preP (keysOf P))
  | .scalar a b c, n, P, k, h => by
    rw [IokV] at h
    rw [sflatV_leaf _ _ (hG _ _ h).2.2]
    simp [valuesVal, eTriple_snoc, preP]
  | .arr a b c d e', n, P, k, h => by
    rw [IokV] at h
    rw [sflatV_leaf _ _ (hG _ _ h).2.2]
    simp [valuesVal, eTriple_snoc, preP]
  | .inl sub pre imp false dec sp, n, P, k, h => by
    rw [IokV] at h
    rw [sflatV_leaf _ _ (hG _ _ (h.2 rfl)).2.2]
    simp [valuesVal, eTriple_snoc, preP]
  | .inl sub pre imp true dec sp, n, P, k, h => by
    rw [IokV] at h
    simp only [valuesVal, if_true, eraseVal, sflatV]
    rw [valuesInl_sflat G hG sub (n + 1) (P ++ [k]) (h.1 rfl), List.map_map]
    apply List.map_congr_left
    intro e _
    simp [preP, consK, keysOf]
end

theorem IokL_weaken (GK GK' : CKey → Prop) (G : Nat → CVal → Prop) (hk : ∀ k, GK k → GK' k) :
    ∀ (n : Nat) (items : VItems), IokL GK G n items → IokL GK' G n items := by
  intro n items
  -- by the size of the tree
  suffices hs : ∀ (sz : Nat), (∀ (items : VItems) (n : Nat), sizeOf items < sz → IokL GK G n items → IokL GK' G n items) ∧
      (∀ (v : CVal) (n : Nat), sizeOf v < sz → IokV GK G n v → IokV GK' G n v) from
    (hs (sizeOf items + 1)).1 items n (by omega)
  intro sz
  induction sz with
  | zero => exact ⟨fun _ _ h => by omega, fun _ _ h => by omega⟩
  | succ sz ih =>
    constructor
    · intro items n hsz h
      cases items with
      | nil => rw [IokL]; trivial
      | cons x r =>
        obtain ⟨k, v⟩ := x
        rw [IokL] at h ⊢
        simp at hsz
        exact ⟨hk k h.1, ih.2 v n (by omega) h.2.1, ih.1 r n (by omega) h.2.2⟩
    · intro v n hsz h
      cases v with
      | scalar a b c => rw [IokV] at h ⊢; exact h
      | arr a b c d e => rw [IokV] at h ⊢; exact h
      | inl sub pre imp dot dec sp =>
        rw [IokV] at h ⊢
        simp at hsz
        exact ⟨fun hd => ih.1 sub (n + 1) (by omega) (h.1 hd), h.2⟩

end TomlVerif.Lemmas.Tiling03More.VS
