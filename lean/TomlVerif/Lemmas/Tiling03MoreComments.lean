import TomlVerif.Model.Encode
/-! Comments as the parser records them: every comment of a source lies in a decor piece
    (`Decor` of a table header, of a value, leaf decor of the key that starts a key/value line,
    `trailing` of an array, of the document).  `decorTexts` lists the texts of these pieces,
    `commentsIn` the comments inside one piece (from `#` to the end of the line). -/
namespace TomlVerif.Lemmas.Tiling03More
open TomlVerif TomlVerif.Model TomlVerif.Model.Cst TomlVerif.Model.Encode

/-- scanner state: the comment being read, if any -/
def commentsAux : Bytes → Option Bytes → List Bytes
  | [], none => []
  | [], some c => [c]
  | b :: r, none => if b == 0x23 then commentsAux r (some [0x23]) else commentsAux r none
  | b :: r, some c => if b == 0x0A || b == 0x0D then c :: commentsAux r none else commentsAux r (some (c ++ [b]))

/-- the comments of a piece of trivia (white space, comments, line ends) -/
def commentsIn (t : Bytes) : List Bytes := commentsAux t none

def decorPieces (inp : Bytes) (d : Decor) : List Bytes :=
  (match d.pre with | some r => [rawText inp r] | none => []) ++
  (match d.suf with | some r => [rawText inp r] | none => [])

mutual
def valPieces (inp : Bytes) : CVal → List Bytes
  | .scalar _ _ dec => decorPieces inp dec
  | .arr items tr _ dec _ => decorPieces inp dec ++ elemsPieces inp items ++ [rawText inp tr]
  | .inl items pre _ _ dec _ => decorPieces inp dec ++ [rawText inp pre] ++ kvsPieces inp items
def elemsPieces (inp : Bytes) : List CVal → List Bytes
  | [] => []
  | v :: r => valPieces inp v ++ elemsPieces inp r
def kvsPieces (inp : Bytes) : List (CKey × CVal) → List Bytes
  | [] => []
  | (k, v) :: r => decorPieces inp k.leaf ++ valPieces inp v ++ kvsPieces inp r
end

mutual
def tblPieces (inp : Bytes) : CTbl → List Bytes
  | .mk items _ _ _ dec _ => decorPieces inp dec ++ itemsPieces inp items
def itemsPieces (inp : Bytes) : List (CKey × CItem) → List Bytes
  | [] => []
  | (k, it) :: r =>
    (match it with
     | .value v => decorPieces inp k.leaf ++ valPieces inp v
     | .table t => tblPieces inp t
     | .aot ts _ => tblsPieces inp ts) ++ itemsPieces inp r
def tblsPieces (inp : Bytes) : List CTbl → List Bytes
  | [] => []
  | t :: r => tblPieces inp t ++ tblsPieces inp r
end

/-- the texts of all decor pieces of a document that can hold a comment -/
def decorTexts (inp : Bytes) (d : CDoc) : List Bytes := tblPieces inp d.root ++ [rawText inp d.trailing]

/-- all recorded comments of a document -/
def recordedComments (inp : Bytes) (d : CDoc) : List Bytes := (decorTexts inp d).flatMap commentsIn

/-- `c` is a contiguous piece of `t` (decidable version of `c <:+: t`) -/
def isInfix (c : Bytes) : Bytes → Bool
  | [] => c.isEmpty
  | b :: r => c.isPrefixOf (b :: r) || isInfix c r

end TomlVerif.Lemmas.Tiling03More
