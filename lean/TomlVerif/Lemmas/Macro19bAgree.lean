import TomlVerif.Lemmas.Macro19bDoc
import TomlVerif.Lemmas.Macro19bRef
import TomlVerif.Model.Value
/-! C19 (full): the macro's meaning against the parser's.

    * `refV` — what the PARSER builds for a value tree: scalars as evaluated, arrays element by element, an inline
      table through `table_from_pairs` of the value parser (Model/Value.lean: `tableFromPairs` / `inlInsert`,
      which rejects duplicate keys, a dotted key through a value, a dotted key into a table that was written
      out). `none` = the parser rejects the value.
    * `value_agree` — whenever the parser accepts, the macro builds the same value (`valM` of it), exactly,
      in the same key order.
    * `stmtsOf` / `docSem_ref` — a document as the statement list the parser's state machine consumes. -/
namespace TomlVerif.Lemmas.Macro19b
open TomlVerif TomlVerif.Model TomlVerif.Model.Macro TomlVerif.Lemmas.Macro19 TomlVerif.Model.Value
open TomlVerif.Lemmas.State09

/-! ## `toml::Value` → parser tree and back -/

mutual
def mvalV : MVal → Val
  | .str s => .str s
  | .int n => .int n
  | .float b => .float b
  | .bool b => .bool b
  | .dt d => .dt d
  | .arr items => .arr (mvalsV items)
  | .tbl items => .inl (mkvsV items) false false
def mvalsV : List MVal → List Val
  | [] => []
  | v :: r => mvalV v :: mvalsV r
def mkvsV : List (Bytes × MVal) → List (Bytes × Val)
  | [] => []
  | (k, v) :: r => (k, mvalV v) :: mkvsV r
end

mutual
theorem valM_mvalV : ∀ m : MVal, valM (mvalV m) = m
  | .str _ => rfl
  | .int _ => rfl
  | .float _ => rfl
  | .bool _ => rfl
  | .dt _ => rfl
  | .arr items => by simp [mvalV, valM, valsM_mvalsV items]
  | .tbl items => by simp [mvalV, valM, kvsM_mkvsV items]
theorem valsM_mvalsV : ∀ l : List MVal, valsM (mvalsV l) = l
  | [] => rfl
  | v :: r => by simp [mvalsV, valsM, valM_mvalV v, valsM_mvalsV r]
theorem kvsM_mkvsV : ∀ l : List (Bytes × MVal), kvsM (mkvsV l) = l
  | [] => rfl
  | (k, v) :: r => by simp [mkvsV, kvsM, valM_mvalV v, kvsM_mkvsV r]
end

/-! ## association lists under `kvsM` -/

theorem alookup_kvsM (k : Bytes) (l : List (Bytes × Val)) : alookup k (kvsM l) = (alookup k l).map valM := by
  induction l with
  | nil => rfl
  | cons e r ih =>
    obtain ⟨k', v⟩ := e
    simp only [kvsM, alookup]
    split <;> simp [ih]

theorem kvsM_append (a b : List (Bytes × Val)) : kvsM (a ++ b) = kvsM a ++ kvsM b := by
  induction a with
  | nil => rfl
  | cons e r ih => obtain ⟨k', v⟩ := e; simp [kvsM, ih]

theorem kvsM_areplace (k : Bytes) (v : Val) (l : List (Bytes × Val)) :
    kvsM (areplace k v l) = areplace k (valM v) (kvsM l) := by
  induction l with
  | nil => rfl
  | cons e r ih =>
    obtain ⟨k', v'⟩ := e
    simp only [kvsM, areplace]
    split <;> simp [kvsM, ih]

/-! ## `table_from_pairs` is a fold of `insert_toml` -/

/-- one entry: where the parser's `descend_path` + insertion succeeds, `insert_toml` of the macro does the same -/
theorem inlInsert_modifyAt : ∀ (path : List Bytes) (items : List (Bytes × Val)) (td pe : Bool) (key : Bytes) (v : Val)
    (items' : List (Bytes × Val)), inlInsert items td path pe key v = some items' →
    insertToml (.tbl (kvsM items)) (path ++ [key]) (valM v) = some (.tbl (kvsM items')) := by
  intro path
  induction path with
  | nil =>
    intro items td pe key v items' h
    unfold inlInsert at h
    split at h
    · simp at h
    · cases hl : alookup key items with
      | some x => simp [hl] at h
      | none =>
        simp [hl] at h; subst h
        simp [insertToml, modifyAt, aset, alookup_kvsM, hl, kvsM_append, kvsM]
  | cons k ks ih =>
    intro items td pe key v items' h
    unfold inlInsert at h
    cases hl : alookup k items with
    | none =>
      simp only [hl] at h
      cases hs : inlInsert [] true ks pe key v with
      | none => simp [hs] at h
      | some sub =>
        simp [hs] at h; subst h
        have := ih [] true pe key v sub hs
        simp only [insertToml, kvsM] at this
        simp only [insertToml, List.cons_append, modifyAt, alookup_kvsM, hl, Option.map_none, Option.getD_none,
          emptyTbl, this]
        simp [aset, alookup_kvsM, hl, kvsM_append, kvsM, valM]
    | some x =>
      simp only [hl] at h
      cases x with
      | inl sub imp dot =>
        simp only [] at h
        split at h
        · simp at h
        · cases hs : inlInsert sub dot ks pe key v with
          | none => simp [hs] at h
          | some sub' =>
            simp [hs] at h; subst h
            have := ih sub dot pe key v sub' hs
            simp only [insertToml] at this
            simp only [insertToml, List.cons_append, modifyAt, alookup_kvsM, hl, Option.map_some, Option.getD_some,
              valM, this]
            simp [aset, alookup_kvsM, hl, kvsM_areplace, valM]
      | _ => simp at h

/-- the entries of an inline table, folded with `insert_toml` -/
def foldPairs : List (List Bytes × Bytes × Val) → MVal → Option MVal
  | [], root => some root
  | (p, key, v) :: r, root =>
    match insertToml root (p ++ [key]) (valM v) with
    | some root' => foldPairs r root'
    | none => none

theorem tableFromPairs_fold : ∀ (l : List (List Bytes × Bytes × Val)) (acc items : List (Bytes × Val)),
    tableFromPairs l acc = some items → foldPairs l (.tbl (kvsM acc)) = some (.tbl (kvsM items)) := by
  intro l
  induction l with
  | nil => intro acc items h; simp [tableFromPairs] at h; subst h; rfl
  | cons e r ih =>
    obtain ⟨p, key, v⟩ := e
    intro acc items h
    unfold tableFromPairs at h
    cases hi : inlInsert acc false p p.isEmpty key v with
    | none => simp [hi] at h
    | some acc' =>
      simp only [hi] at h
      simp only [foldPairs, inlInsert_modifyAt p acc false p.isEmpty key v acc' hi]
      exact ih acc' items h

/-! ## what the parser builds for a value tree -/

mutual
/-- the parser's value for the tree; `none` = rejected (by the macro's literal evaluation or by `table_from_pairs`) -/
def refV : MTree → Option Val
  | .leaf a =>
    match a.sem with
    | .ok m => some (mvalV m)
    | _ => none
  | .arr items _ => (refVs items).map Val.arr
  | .tbl es _ =>
    match refEs es with
    | some pairs => (tableFromPairs pairs []).map fun items => Val.inl items false false
    | none => none
def refVs : List MTree → Option (List Val)
  | [] => some []
  | a :: r =>
    match refV a, refVs r with
    | some v, some vs => some (v :: vs)
    | _, _ => none
/-- the entries as `(path, key, value)`, the input of `table_from_pairs` -/
def refEs : List (MKey × MTree) → Option (List (List Bytes × Bytes × Val))
  | [] => some []
  | (k, a) :: r =>
    match k.path.bind State.splitLast, refV a, refEs r with
    | some (p, key), some v, some ps => some ((p, key, v) :: ps)
    | _, _, _ => none
end

/-- the value is one the parser accepts -/
def MTree.WF (a : MTree) : Prop := (refV a).isSome = true

theorem valsM_append (a b : List Val) : valsM (a ++ b) = valsM a ++ valsM b := by
  induction a with
  | nil => rfl
  | cons e r ih => simp [valsM, ih]

mutual
/-- whatever value the parser accepts, the macro builds the same one -/
theorem value_agree (a : MTree) : ∀ v, refV a = some v → a.sem = .ok (valM v) := by
  intro v h
  match a with
  | .leaf a =>
    simp only [refV] at h
    cases hs : a.sem with
    | ok m => simp [hs] at h; subst h; simp [MTree.sem, hs, valM_mvalV]
    | unsupported => simp [hs] at h
    | panic => simp [hs] at h
  | .arr items tr =>
    simp only [refV] at h
    cases hv : refVs items with
    | none => simp [hv] at h
    | some vs =>
      simp [hv] at h; subst h
      have := values_agree items vs hv []
      simp [MTree.sem, this, R.bind, valM]
  | .tbl es tr =>
    simp only [refV] at h
    cases he : refEs es with
    | none => simp [he] at h
    | some pairs =>
      simp only [he] at h
      cases ht : tableFromPairs pairs [] with
      | none => simp [ht] at h
      | some items =>
        simp [ht] at h; subst h
        have h1 := entries_agree es pairs he emptyTbl
        have h2 := tableFromPairs_fold pairs [] items ht
        simp only [kvsM] at h2
        simp only [emptyTbl] at h1
        simp only [MTree.sem, emptyTbl, valM]
        rw [h1, h2]
        rfl
theorem values_agree (l : List MTree) : ∀ vs, refVs l = some vs → ∀ acc, semT l acc = .ok (acc ++ valsM vs) := by
  intro vs h acc
  match l with
  | [] => simp [refVs] at h; subst h; simp [semT, valsM]
  | a :: r =>
    simp only [refVs] at h
    cases ha : refV a with
    | none => simp [ha] at h
    | some v =>
      cases hr : refVs r with
      | none => simp [ha, hr] at h
      | some vs' =>
        simp [ha, hr] at h; subst h
        rw [semT, value_agree a v ha]
        simp only [R.bind]
        rw [values_agree r vs' hr]
        simp [valsM]
theorem entries_agree (l : List (MKey × MTree)) : ∀ pairs, refEs l = some pairs → ∀ root,
    semE l root = liftO (foldPairs pairs root) := by
  intro pairs h root
  match l with
  | [] => simp [refEs] at h; subst h; rfl
  | (k, a) :: r =>
    simp only [refEs] at h
    cases hk : k.path.bind State.splitLast with
    | none => simp [hk] at h
    | some pk =>
      obtain ⟨p, key⟩ := pk
      cases ha : refV a with
      | none => simp [hk, ha] at h
      | some v =>
        cases hr : refEs r with
        | none => simp [hk, ha, hr] at h
        | some ps =>
          simp [hk, ha, hr] at h; subst h
          cases hp : k.path with
          | none => simp [hp] at hk
          | some ks =>
            simp [hp] at hk
            have hks := splitLast_some ks p key hk
            rw [semE]
            simp only [hp, value_agree a v ha, R.bind, foldPairs, hks]
            cases insertToml root (p ++ [key]) (valM v) with
            | none => rfl
            | some root' => exact entries_agree r ps hr root'
end

/-! ## documents as statement lists -/

def stmtOf : DStmt → Option Stmt
  | .kv k a =>
    match k.path.bind State.splitLast, refV a with
    | some (p, key), some v => some (.kv p key v)
    | _, _ => none
  | .std k => k.path.map Stmt.std
  | .arr k => k.path.map Stmt.arr

/-- the statements the parser's state machine consumes for the document; `none`: a value is rejected by the
    value parser, or `concat!` rejects a key token -/
def stmtsOf : List DStmt → Option (List Stmt)
  | [] => some []
  | s :: r =>
    match stmtOf s, stmtsOf r with
    | some x, some xs => some (x :: xs)
    | _, _ => none

theorem docSem_ref (keep : Bool) (l : List DStmt) : ∀ ss, stmtsOf l = some ss → ∀ root path,
    docSem keep l root path = liftO ((refRunFrom keep (root, path) ss).map (·.1)) := by
  induction l with
  | nil => intro ss h root path; simp [stmtsOf] at h; subst h; rfl
  | cons s r ih =>
    intro ss h root path
    simp only [stmtsOf] at h
    cases hs : stmtOf s with
    | none => simp [hs] at h
    | some x =>
      cases hr : stmtsOf r with
      | none => simp [hs, hr] at h
      | some xs =>
        simp [hs, hr] at h; subst h
        cases s with
        | kv k a =>
          simp only [stmtOf] at hs
          cases hk : k.path.bind State.splitLast with
          | none => simp [hk] at hs
          | some pk =>
            obtain ⟨p, key⟩ := pk
            cases ha : refV a with
            | none => simp [hk, ha] at hs
            | some v =>
              simp [hk, ha] at hs; subst hs
              cases hp : k.path with
              | none => simp [hp] at hk
              | some ks =>
                simp [hp] at hk
                have hks := splitLast_some ks p key hk
                simp only [docSem, hp, value_agree a v ha, R.bind, refRunFrom, refStep, hks]
                cases insertToml root (path ++ (p ++ [key])) (valM v) with
                | none => rfl
                | some root' => simpa using ih xs hr root' path
        | std k =>
          simp only [stmtOf] at hs
          cases hp : k.path with
          | none => simp [hp] at hs
          | some p =>
            simp [hp] at hs; subst hs
            simp only [docSem, hp, refRunFrom, refStep]
            cases headerTable keep root p with
            | none => rfl
            | some root' => simpa using ih xs hr root' p
        | arr k =>
          simp only [stmtOf] at hs
          cases hp : k.path with
          | none => simp [hp] at hs
          | some p =>
            simp [hp] at hs; subst hs
            simp only [docSem, hp, refRunFrom, refStep]
            cases pushToml root p with
            | none => rfl
            | some root' => simpa using ih xs hr root' p

end TomlVerif.Lemmas.Macro19b
