import TomlVerif.Lemmas.Tiling03MoreCmtScan
import TomlVerif.Lemmas.Tiling03MoreInline
/-! C03, "every comment is kept" — the printer side for values: every decor piece of a value
    (`valPieces`) is written by `encode_value`, provided the inline tables created for dotted
    keys inside `{…}` are bare (`VD`: no decor, no preamble, no leaf decor on their key — the
    printer flattens them and writes none of these). -/
namespace TomlVerif.Lemmas.Tiling03More
open TomlVerif TomlVerif.Spec TomlVerif.Model TomlVerif.Model.Strings TomlVerif.Model.Value
open TomlVerif.Model.Cst TomlVerif.Model.Encode TomlVerif.Lemmas.Cst03
open TomlVerif.Lemmas.Tiling03 TomlVerif.Lemmas.Tiling03Hdr TomlVerif.Lemmas.Tiling03Nest

/-- an inline table created for a dotted key (`dotted`) is bare: no decor, no preamble, and the key
    it is stored under has no leaf decor -/
def DotBare (k : CKey) : CVal → Prop
  | .inl _ pre _ dot dec _ => dot = true → k.leaf = {} ∧ dec = {} ∧ pre = .empty
  | _ => True

mutual
/-- every dotted inline table below the value is bare -/
def VD : CVal → Prop
  | .scalar _ _ _ => True
  | .arr items _ _ _ _ => VsD items
  | .inl items _ _ _ _ _ => KvsD items
def VsD : List CVal → Prop
  | [] => True
  | v :: r => VD v ∧ VsD r
def KvsD : List (CKey × CVal) → Prop
  | [] => True
  | (k, v) :: r => (DotBare k v ∧ VD v) ∧ KvsD r
end

/-! ### decor and key paths -/

theorem decorPieces_cases (f : Bytes → Bytes) (inp : Bytes) (d : Decor) (p : Bytes) (h : p ∈ decorPieces inp d) :
    (∀ dp, prefixEncode f inp d dp = f p) ∨ (∀ ds, suffixEncode f inp d ds = f p) := by
  unfold decorPieces at h
  rcases List.mem_append.1 h with h | h
  · left
    intro dp
    cases hp : d.pre with
    | none => rw [hp] at h; cases h
    | some r =>
      rw [hp] at h
      simp only [List.mem_singleton] at h
      subst h
      simp [prefixEncode, hp, encRaw]
  · right
    intro ds
    cases hp : d.suf with
    | none => rw [hp] at h; cases h
    | some r =>
      rw [hp] at h
      simp only [List.mem_singleton] at h
      subst h
      simp [suffixEncode, hp, encRaw]

theorem decorPieces_default (inp : Bytes) : decorPieces inp {} = [] := rfl

theorem keyPath_leaf_pre (f : Bytes → Bytes) (inp : Bytes) (path : List CKey) (L : CKey) (dp ds : Bytes) :
    prefixEncode f inp L.leaf dp <:+: encodeKeyPath f inp (path ++ [L]) dp ds := by
  rw [encodeKeyPath_split]
  exact infix_appL _ (infix_rfl' _)

theorem keyPath_leaf_suf (f : Bytes → Bytes) (inp : Bytes) (path : List CKey) (L : CKey) (dp ds : Bytes) :
    suffixEncode f inp L.leaf ds <:+: encodeKeyPath f inp (path ++ [L]) dp ds := by
  rw [encodeKeyPath_split]
  refine infix_appR _ ?_
  cases path with
  | nil => exact infix_appR _ (infix_rfl' _)
  | cons k r =>
    simp only [kpTail]
    exact infix_appR _ (infix_appR _ (infix_rfl' _))

/-- a leaf decor piece of the last key of a key path is written by `encode_key_path` -/
theorem keyPath_leaf (f : Bytes → Bytes) (inp : Bytes) (path : List CKey) (L : CKey) (dp ds p : Bytes)
    (h : p ∈ decorPieces inp L.leaf) : f p <:+: encodeKeyPath f inp (path ++ [L]) dp ds := by
  rcases decorPieces_cases f inp L.leaf p h with h | h
  · rw [← h dp]; exact keyPath_leaf_pre f inp path L dp ds
  · rw [← h ds]; exact keyPath_leaf_suf f inp path L dp ds

/-- one `key = value` entry: the key's leaf decor and the pieces of the value -/
theorem entry_printed (f : Bytes → Bytes) (inp : Bytes) (k : CKey) (v : CVal) (parent : List CKey)
    (a kdp kds vdp vds : Bytes)
    (hv : ∀ p, p ∈ valPieces inp v → f p <:+: encodeValue f inp v vdp vds) :
    ∀ p, p ∈ decorPieces inp k.leaf ++ valPieces inp v →
      f p <:+: a ++ encodeKeyPath f inp (parent ++ [k]) kdp kds ++ [0x3D] ++ encodeValue f inp v vdp vds := by
  intro p hp
  rcases List.mem_append.1 hp with hp | hp
  · exact infix_appL _ (infix_appL _ (infix_appR _ (keyPath_leaf f inp parent k kdp kds p hp)))
  · exact infix_appR _ (hv p hp)

/-! ### values -/

mutual
/-- **every decor piece of a value is written by `encode_value`** -/
theorem valPieces_printed (f : Bytes → Bytes) (hf0 : f [] = []) (inp : Bytes) : ∀ (v : CVal), VD v →
    ∀ (dp ds p : Bytes), p ∈ valPieces inp v → f p <:+: encodeValue f inp v dp ds
  | .scalar a repr dec, _, dp, ds, p, hp => by
    rw [valPieces] at hp
    rw [encodeValue]
    rcases decorPieces_cases f inp dec p hp with h | h
    · rw [← h dp]; exact infix_appL _ (infix_appL _ (infix_rfl' _))
    · rw [← h ds]; exact infix_appR _ (infix_rfl' _)
  | .arr items tr comma dec sp, hv, dp, ds, p, hp => by
    rw [valPieces] at hp
    rw [encodeValue]
    rw [VD] at hv
    rcases List.mem_append.1 hp with hp | hp
    · rcases List.mem_append.1 hp with hp | hp
      · rcases decorPieces_cases f inp dec p hp with h | h
        · rw [← h dp]
          exact infix_appL _ (infix_appL _ (infix_appL _ (infix_appL _ (infix_appL _ (infix_appL _ (infix_rfl' _))))))
        · rw [← h ds]; exact infix_appR _ (infix_rfl' _)
      · have := elemsPieces_printed f hf0 inp items hv true p hp
        exact infix_appL _ (infix_appL _ (infix_appL _ (infix_appL _ (infix_appR _ this))))
    · simp only [List.mem_singleton] at hp
      subst hp
      exact infix_appL _ (infix_appL _ (infix_appR _ (infix_rfl' _)))
  | .inl items pre imp dot dec sp, hv, dp, ds, p, hp => by
    rw [valPieces] at hp
    rw [encodeValue]
    rw [VD] at hv
    rcases List.mem_append.1 hp with hp | hp
    · rcases List.mem_append.1 hp with hp | hp
      · rcases decorPieces_cases f inp dec p hp with h | h
        · rw [← h dp]
          exact infix_appL _ (infix_appL _ (infix_appL _ (infix_appL _ (infix_appL _ (infix_rfl' _)))))
        · rw [← h ds]; exact infix_appR _ (infix_rfl' _)
      · simp only [List.mem_singleton] at hp
        subst hp
        exact infix_appL _ (infix_appL _ (infix_appL _ (infix_appR _ (infix_rfl' _))))
    · have := kvsPieces_printed f hf0 inp items hv [] 0 (countInl items) p hp
      exact infix_appL _ (infix_appL _ (infix_appR _ this))
theorem elemsPieces_printed (f : Bytes → Bytes) (hf0 : f [] = []) (inp : Bytes) : ∀ (items : List CVal), VsD items →
    ∀ (first : Bool) (p : Bytes), p ∈ elemsPieces inp items → f p <:+: encodeElems f inp items first
  | [], _, _, p, hp => by rw [elemsPieces] at hp; cases hp
  | v :: r, hv, first, p, hp => by
    rw [elemsPieces] at hp
    rw [encodeElems]
    rw [VsD] at hv
    rcases List.mem_append.1 hp with hp | hp
    · refine infix_appL _ ?_
      cases first with
      | true => simp only [if_true]; exact valPieces_printed f hf0 inp v hv.1 [] [] p hp
      | false =>
        simp only [Bool.false_eq_true, if_false]
        exact infix_appR _ (valPieces_printed f hf0 inp v hv.1 [0x20] [] p hp)
    · exact infix_appR _ (elemsPieces_printed f hf0 inp r hv.2 false p hp)
theorem kvsPieces_printed (f : Bytes → Bytes) (hf0 : f [] = []) (inp : Bytes) : ∀ (items : List (CKey × CVal)), KvsD items →
    ∀ (parent : List CKey) (i len : Nat) (p : Bytes), p ∈ kvsPieces inp items →
      f p <:+: (encodeInl f inp items parent i len).1
  | [], _, _, _, _, p, hp => by rw [kvsPieces] at hp; cases hp
  | (k, .scalar a b c) :: r, hv, parent, i, len, p, hp => by
    rw [kvsPieces] at hp
    rw [encodeInl]
    rw [KvsD] at hv
    rcases List.mem_append.1 hp with hp | hp
    · exact infix_appL _ (entry_printed f inp k _ parent _ _ _ _ _
        (valPieces_printed f hf0 inp _ hv.1.2 _ _) p hp)
    · exact infix_appR _ (kvsPieces_printed f hf0 inp r hv.2 parent (i + 1) len p hp)
  | (k, .arr a b c d e) :: r, hv, parent, i, len, p, hp => by
    rw [kvsPieces] at hp
    rw [encodeInl]
    rw [KvsD] at hv
    rcases List.mem_append.1 hp with hp | hp
    · exact infix_appL _ (entry_printed f inp k _ parent _ _ _ _ _
        (valPieces_printed f hf0 inp _ hv.1.2 _ _) p hp)
    · exact infix_appR _ (kvsPieces_printed f hf0 inp r hv.2 parent (i + 1) len p hp)
  | (k, .inl sub pre imp false dec sp) :: r, hv, parent, i, len, p, hp => by
    rw [kvsPieces] at hp
    rw [encodeInl]
    rw [KvsD] at hv
    simp only [Bool.false_eq_true, if_false]
    rcases List.mem_append.1 hp with hp | hp
    · exact infix_appL _ (entry_printed f inp k _ parent _ _ _ _ _
        (valPieces_printed f hf0 inp _ hv.1.2 _ _) p hp)
    · exact infix_appR _ (kvsPieces_printed f hf0 inp r hv.2 parent (i + 1) len p hp)
  | (k, .inl sub pre imp true dec sp) :: r, hv, parent, i, len, p, hp => by
    rw [kvsPieces, valPieces] at hp
    rw [encodeInl]
    rw [KvsD] at hv
    simp only [if_true]
    obtain ⟨⟨hb, hsub⟩, hr⟩ := hv
    rw [VD] at hsub
    obtain ⟨e1, e2, e3⟩ := hb rfl
    rw [e1, e2, e3] at hp
    simp only [decorPieces_default, List.nil_append, rawText, List.cons_append, List.mem_cons] at hp
    rcases hp with hp | hp
    · subst hp; rw [hf0]; exact nil_infix' _
    · rcases List.mem_append.1 hp with hp | hp
      · exact infix_appL _ (kvsPieces_printed f hf0 inp sub hsub (parent ++ [k]) i len p hp)
      · exact infix_appR _ (kvsPieces_printed f hf0 inp r hr parent _ len p hp)
end

end TomlVerif.Lemmas.Tiling03More
