import TomlVerif.Lemmas.Refine08bSpans
import TomlVerif.Lemmas.Refine08bSem
import TomlVerif.Lemmas.Spans14Value
/-! A tree-wide invariant over a family of local predicates (`Pr`): every `RawString`, every
    `span` and every scalar payload recorded in a decorated tree satisfies its predicate.
    Two instances are used: `spanPr n` (every span ends at or before `n`: `DocSpansIn`) and
    `cleanPr` (no `CVal.scalar` holds an inline-table payload: `NodeInlOK`). Path updates and
    lookups keep the invariant. -/
namespace TomlVerif.Lemmas.Refine08c
open TomlVerif TomlVerif.Model TomlVerif.Model.Cst TomlVerif.Model.Edit TomlVerif.Model.Encode
open TomlVerif.Lemmas.Edit08 TomlVerif.Lemmas.Cst03 TomlVerif.Lemmas.Refine08bPrint
open TomlVerif.Lemmas.Refine08bSem TomlVerif.Lemmas.Spans14

/-- the local predicates: on a `RawString`, on an optional `span`, on a scalar payload -/
structure Pr where
  raw : Raw → Prop
  sp : Option Span → Prop
  val : Val → Prop

/-- what the ops create is fine: the empty `RawString`, no span, the three scalar types -/
structure Pr.Adm (P : Pr) : Prop where
  raw : P.raw .empty
  sp : P.sp none
  val : ∀ v : Sc, P.val v.val

variable {P : Pr}

def DecOK (P : Pr) (d : Decor) : Prop := (∀ r, d.pre = some r → P.raw r) ∧ (∀ r, d.suf = some r → P.raw r)

def KeyOK (P : Pr) (k : CKey) : Prop := P.raw k.repr ∧ DecOK P k.leaf ∧ DecOK P k.dotted

theorem DecOK_default : DecOK P {} := ⟨fun _ h => (by cases h), fun _ h => (by cases h)⟩

theorem DecOK_new {a b : Raw} (ha : P.raw a) (hb : P.raw b) : DecOK P (Decor.new a b) :=
  ⟨fun r h => by simp only [Decor.new, Option.some.injEq] at h; exact h ▸ ha,
   fun r h => by simp only [Decor.new, Option.some.injEq] at h; exact h ▸ hb⟩

theorem KeyOK_newKey {k : Bytes} {kr : Raw} (h : P.raw kr) : KeyOK P (newKey k kr) :=
  ⟨h, DecOK_default, DecOK_default⟩

theorem KeyOK_clearKey {k : CKey} (h : KeyOK P k) : KeyOK P (clearKey k) :=
  ⟨h.1, DecOK_default, DecOK_default⟩

mutual
def VOK (P : Pr) : CVal → Prop
  | .scalar v r d => P.val v ∧ P.raw r ∧ DecOK P d
  | .arr items t _ d sp => VsOK P items ∧ P.raw t ∧ DecOK P d ∧ P.sp sp
  | .inl items p _ _ d sp => KvsOK P items ∧ P.raw p ∧ DecOK P d ∧ P.sp sp
def VsOK (P : Pr) : List CVal → Prop
  | [] => True
  | v :: r => VOK P v ∧ VsOK P r
def KvsOK (P : Pr) : List (CKey × CVal) → Prop
  | [] => True
  | (k, v) :: r => (KeyOK P k ∧ VOK P v) ∧ KvsOK P r
end

theorem VsOK_iff (l : List CVal) : VsOK P l ↔ ∀ v ∈ l, VOK P v := by
  induction l with
  | nil => simp [VsOK]
  | cons v r ih => simp [VsOK, ih]

theorem KvsOK_iff (l : List (CKey × CVal)) : KvsOK P l ↔ AllKV (KeyOK P) (VOK P) l := by
  induction l with
  | nil => simp [KvsOK, AllKV]
  | cons kv r ih => obtain ⟨k, v⟩ := kv; rw [AllKV.cons, ← ih]; simp [KvsOK]

theorem VOK_decor {v : CVal} (h : VOK P v) : DecOK P v.decor := by
  cases v <;> simp only [VOK] at h <;> simp only [CVal.decor]
  · exact h.2.2
  · exact h.2.2.1
  · exact h.2.2.1

theorem VOK_setDecor {v : CVal} {d : Decor} (h : VOK P v) (hd : DecOK P d) : VOK P (v.setDecor d) := by
  cases v <;> simp only [VOK] at h <;> simp only [CVal.setDecor, VOK]
  · exact ⟨h.1, h.2.1, hd⟩
  · exact ⟨h.1, h.2.1, hd, h.2.2.2⟩
  · exact ⟨h.1, h.2.1, hd, h.2.2.2⟩

theorem VOK_newScalar (hP : P.Adm) {v : Sc} {vr : Raw} (h : P.raw vr) : VOK P (newScalar v vr) := by
  simp only [newScalar, VOK]
  exact ⟨hP.val v, h, DecOK_default⟩

theorem VOK_freshInl (hP : P.Adm) {items : List (CKey × CVal)} (h : KvsOK P items) : VOK P (freshInl items) := by
  simp only [freshInl, VOK]
  exact ⟨h, hP.raw, DecOK_default, hP.sp⟩

mutual
def TOK (P : Pr) : CTbl → Prop
  | .mk items _ _ _ d sp => IsOK P items ∧ DecOK P d ∧ P.sp sp
def IsOK (P : Pr) : List (CKey × CItem) → Prop
  | [] => True
  | (k, it) :: r => (KeyOK P k ∧ (match it with
      | .value v => VOK P v
      | .table t => TOK P t
      | .aot ts sp => TsOK P ts ∧ P.sp sp)) ∧ IsOK P r
def TsOK (P : Pr) : List CTbl → Prop
  | [] => True
  | t :: r => TOK P t ∧ TsOK P r
end

def ItemOK (P : Pr) : CItem → Prop
  | .value v => VOK P v
  | .table t => TOK P t
  | .aot ts sp => TsOK P ts ∧ P.sp sp

theorem IsOK_iff (l : List (CKey × CItem)) : IsOK P l ↔ AllKV (KeyOK P) (ItemOK P) l := by
  induction l with
  | nil => simp [IsOK, AllKV]
  | cons kv r ih =>
    obtain ⟨k, it⟩ := kv
    rw [AllKV.cons, ← ih]
    cases it <;> simp [IsOK, ItemOK]

theorem IsOK_cons (k : CKey) (it : CItem) (r : List (CKey × CItem)) :
    IsOK P ((k, it) :: r) ↔ (KeyOK P k ∧ ItemOK P it) ∧ IsOK P r := by
  cases it <;> simp [IsOK, ItemOK]

theorem TsOK_iff (l : List CTbl) : TsOK P l ↔ ∀ t ∈ l, TOK P t := by
  induction l with
  | nil => simp [TsOK]
  | cons t r ih => simp [TsOK, ih]

theorem TOK_iff (t : CTbl) : TOK P t ↔ AllKV (KeyOK P) (ItemOK P) t.items ∧ DecOK P t.decor ∧ P.sp t.span := by
  cases t
  simp only [TOK, IsOK_iff, CTbl.items, CTbl.decor, CTbl.span]

theorem TOK_setItems (t : CTbl) (items : List (CKey × CItem)) :
    TOK P (t.setItems items) ↔ AllKV (KeyOK P) (ItemOK P) items ∧ DecOK P t.decor ∧ P.sp t.span := by
  cases t
  simp only [CTbl.setItems, TOK, IsOK_iff, CTbl.decor, CTbl.span]

theorem TOK_setItems' {t : CTbl} {items : List (CKey × CItem)} (ht : TOK P t)
    (h : AllKV (KeyOK P) (ItemOK P) items) : TOK P (t.setItems items) :=
  (TOK_setItems t items).2 ⟨h, ((TOK_iff t).1 ht).2⟩

theorem TOK_empty (hP : P.Adm) : TOK P CTbl.empty := by
  simp only [CTbl.empty, TOK, IsOK]
  exact ⟨trivial, DecOK_default, hP.sp⟩

/-! ### monotonicity -/

structure Pr.Le (P Q : Pr) : Prop where
  raw : ∀ r, P.raw r → Q.raw r
  sp : ∀ s, P.sp s → Q.sp s
  val : ∀ v, P.val v → Q.val v

variable {Q : Pr}

theorem DecOK.le (hl : P.Le Q) {d : Decor} (h : DecOK P d) : DecOK Q d :=
  ⟨fun r hr => hl.raw r (h.1 r hr), fun r hr => hl.raw r (h.2 r hr)⟩

theorem KeyOK.le (hl : P.Le Q) {k : CKey} (h : KeyOK P k) : KeyOK Q k :=
  ⟨hl.raw _ h.1, h.2.1.le hl, h.2.2.le hl⟩

mutual
theorem VOK.le (hl : P.Le Q) : ∀ v : CVal, VOK P v → VOK Q v
  | .scalar v r d, h => by
    simp only [VOK] at h ⊢
    exact ⟨hl.val _ h.1, hl.raw _ h.2.1, h.2.2.le hl⟩
  | .arr items t _ d sp, h => by
    simp only [VOK] at h ⊢
    exact ⟨VsOK.le hl items h.1, hl.raw _ h.2.1, h.2.2.1.le hl, hl.sp _ h.2.2.2⟩
  | .inl items p _ _ d sp, h => by
    simp only [VOK] at h ⊢
    exact ⟨KvsOK.le hl items h.1, hl.raw _ h.2.1, h.2.2.1.le hl, hl.sp _ h.2.2.2⟩
theorem VsOK.le (hl : P.Le Q) : ∀ l : List CVal, VsOK P l → VsOK Q l
  | [], _ => trivial
  | v :: r, h => by
    simp only [VsOK] at h ⊢
    exact ⟨VOK.le hl v h.1, VsOK.le hl r h.2⟩
theorem KvsOK.le (hl : P.Le Q) : ∀ l : List (CKey × CVal), KvsOK P l → KvsOK Q l
  | [], _ => trivial
  | (k, v) :: r, h => by
    simp only [KvsOK] at h ⊢
    exact ⟨⟨h.1.1.le hl, VOK.le hl v h.1.2⟩, KvsOK.le hl r h.2⟩
end

mutual
theorem TOK.le (hl : P.Le Q) : ∀ t : CTbl, TOK P t → TOK Q t
  | .mk items _ _ _ d sp, h => by
    simp only [TOK] at h ⊢
    exact ⟨IsOK.le hl items h.1, h.2.1.le hl, hl.sp _ h.2.2⟩
theorem IsOK.le (hl : P.Le Q) : ∀ l : List (CKey × CItem), IsOK P l → IsOK Q l
  | [], _ => trivial
  | (k, .value v) :: r, h => by
    simp only [IsOK] at h ⊢
    exact ⟨⟨h.1.1.le hl, VOK.le hl v h.1.2⟩, IsOK.le hl r h.2⟩
  | (k, .table t) :: r, h => by
    simp only [IsOK] at h ⊢
    exact ⟨⟨h.1.1.le hl, TOK.le hl t h.1.2⟩, IsOK.le hl r h.2⟩
  | (k, .aot ts sp) :: r, h => by
    simp only [IsOK] at h ⊢
    exact ⟨⟨h.1.1.le hl, TsOK.le hl ts h.1.2.1, hl.sp _ h.1.2.2⟩, IsOK.le hl r h.2⟩
theorem TsOK.le (hl : P.Le Q) : ∀ l : List CTbl, TsOK P l → TsOK Q l
  | [], _ => trivial
  | t :: r, h => by
    simp only [TsOK] at h ⊢
    exact ⟨TOK.le hl t h.1, TsOK.le hl r h.2⟩
end

/-! ### nodes, lookups -/

def NodeOK (P : Pr) : Node → Prop
  | .tbl t => TOK P t
  | .val v => VOK P v
  | .aot ts sp => TsOK P ts ∧ P.sp sp

theorem ItemOK_nodeItem {n : Node} (h : NodeOK P n) : ItemOK P (nodeItem n) := by
  cases n <;> exact h

mutual
theorem look_ok_val : ∀ (p : List Seg) (v : CVal) (n : Node), lookupVal p v = some n → VOK P v → NodeOK P n
  | [], v, n, h, hv => by
    simp only [lookupVal, Option.some.injEq] at h; subst h; exact hv
  | _ :: _, .scalar _ _ _, _, h, _ => by simp [lookupVal] at h
  | s :: q, .arr items _ _ _ _, n, h, hv => by
    simp only [lookupVal] at h
    simp only [VOK] at hv
    cases hi : s.idx with
    | none => simp [hi] at h
    | some i =>
      simp only [hi] at h
      exact look_ok_elems i q items n h hv.1
  | s :: q, .inl items _ _ _ _ _, n, h, hv => by
    simp only [lookupVal] at h
    simp only [VOK] at hv
    cases hi : s.key with
    | none => simp [hi] at h
    | some k =>
      simp only [hi] at h
      exact look_ok_kvs k q items n h hv.1
theorem look_ok_elems : ∀ (i : Nat) (q : List Seg) (items : List CVal) (n : Node),
    lookupElems i q items = some n → VsOK P items → NodeOK P n
  | _, _, [], _, h, _ => by simp [lookupElems] at h
  | 0, q, v :: _, n, h, hv => by
    simp only [lookupElems] at h
    simp only [VsOK] at hv
    exact look_ok_val q v n h hv.1
  | i + 1, q, _ :: rest, n, h, hv => by
    simp only [lookupElems] at h
    simp only [VsOK] at hv
    exact look_ok_elems i q rest n h hv.2
theorem look_ok_kvs (k : Bytes) : ∀ (q : List Seg) (items : List (CKey × CVal)) (n : Node),
    lookupKvs k q items = some n → KvsOK P items → NodeOK P n
  | _, [], _, h, _ => by simp [lookupKvs] at h
  | q, (k', v) :: rest, n, h, hv => by
    simp only [lookupKvs] at h
    simp only [KvsOK] at hv
    split at h
    · exact look_ok_val q v n h hv.1.2
    · exact look_ok_kvs k q rest n h hv.2
end

mutual
theorem look_ok_tbl : ∀ (p : List Seg) (t : CTbl) (n : Node), lookupTbl p t = some n → TOK P t → NodeOK P n
  | [], t, n, h, hv => by
    simp only [lookupTbl, Option.some.injEq] at h; subst h; exact hv
  | s :: q, .mk items _ _ _ _ _, n, h, hv => by
    simp only [lookupTbl] at h
    simp only [TOK] at hv
    cases hi : s.key with
    | none => simp [hi] at h
    | some k =>
      simp only [hi] at h
      exact look_ok_items k q items n h hv.1
theorem look_ok_items (k : Bytes) : ∀ (q : List Seg) (items : List (CKey × CItem)) (n : Node),
    lookupItems k q items = some n → IsOK P items → NodeOK P n
  | _, [], _, h, _ => by simp [lookupItems] at h
  | q, (k', it) :: rest, n, h, hv => by
    simp only [lookupItems] at h
    rw [IsOK_cons] at hv
    split at h
    · exact look_ok_item q it n h hv.1.2
    · exact look_ok_items k q rest n h hv.2
theorem look_ok_item : ∀ (q : List Seg) (it : CItem) (n : Node), lookupItem q it = some n → ItemOK P it → NodeOK P n
  | q, .value v, n, h, hv => by
    simp only [lookupItem] at h
    exact look_ok_val q v n h hv
  | q, .table t, n, h, hv => by
    simp only [lookupItem] at h
    exact look_ok_tbl q t n h hv
  | [], .aot ts sp, n, h, hv => by
    simp only [lookupItem, Option.some.injEq] at h; subst h; exact hv
  | s :: q, .aot ts _, n, h, hv => by
    simp only [lookupItem] at h
    cases hi : s.idx with
    | none => simp [hi] at h
    | some i =>
      simp only [hi] at h
      exact look_ok_nth i q ts n h hv.1
theorem look_ok_nth : ∀ (i : Nat) (q : List Seg) (ts : List CTbl) (n : Node),
    lookupNth i q ts = some n → TsOK P ts → NodeOK P n
  | _, _, [], _, h, _ => by simp [lookupNth] at h
  | 0, q, t :: _, n, h, hv => by
    simp only [lookupNth] at h
    simp only [TsOK] at hv
    exact look_ok_tbl q t n h hv.1
  | i + 1, q, _ :: rest, n, h, hv => by
    simp only [lookupNth] at h
    simp only [TsOK] at hv
    exact look_ok_nth i q rest n h hv.2
end

/-! ### path updates -/

/-- the node updates keep the invariant -/
structure UpdOK (P : Pr) (u : Upd) : Prop where
  tbl : ∀ t t', TOK P t → u.tbl t = some t' → TOK P t'
  val : ∀ v v', VOK P v → u.val v = some v' → VOK P v'
  aot : ∀ ts ts', TsOK P ts → u.aot ts = some ts' → TsOK P ts'

variable {u : Upd}

mutual
theorem upd_ok_val (hu : UpdOK P u) : ∀ (p : List Seg) (v v' : CVal), updVal u p v = some v' → VOK P v → VOK P v'
  | [], v, v', h, hv => by simp only [updVal] at h; exact hu.val v v' hv h
  | _ :: _, .scalar _ _ _, _, h, _ => by simp [updVal] at h
  | s :: r, .arr items tr c d sp, v', h, hv => by
    simp only [updVal] at h
    simp only [VOK] at hv
    cases hi : s.idx with
    | none => simp [hi] at h
    | some i =>
      simp only [hi] at h
      obtain ⟨items', hu', rfl⟩ := Option.map_eq_some_iff.mp h
      simp only [VOK]
      exact ⟨upd_ok_elems hu i r items items' hu' hv.1, hv.2⟩
  | s :: r, .inl items pre imp dot d sp, v', h, hv => by
    simp only [updVal] at h
    simp only [VOK] at hv
    cases hi : s.key with
    | none => simp [hi] at h
    | some k =>
      simp only [hi] at h
      obtain ⟨items', hu', rfl⟩ := Option.map_eq_some_iff.mp h
      simp only [VOK]
      exact ⟨upd_ok_kvs hu k r items items' hu' hv.1, hv.2⟩
theorem upd_ok_elems (hu : UpdOK P u) : ∀ (i : Nat) (r : List Seg) (items items' : List CVal),
    updElems u i r items = some items' → VsOK P items → VsOK P items'
  | _, _, [], _, h, _ => by simp [updElems] at h
  | 0, r, v :: rest, items', h, hv => by
    simp only [updElems] at h
    simp only [VsOK] at hv
    obtain ⟨v', hu', rfl⟩ := Option.map_eq_some_iff.mp h
    simp only [VsOK]
    exact ⟨upd_ok_val hu r v v' hu' hv.1, hv.2⟩
  | i + 1, r, v :: rest, items', h, hv => by
    simp only [updElems] at h
    simp only [VsOK] at hv
    obtain ⟨rest', hu', rfl⟩ := Option.map_eq_some_iff.mp h
    simp only [VsOK]
    exact ⟨hv.1, upd_ok_elems hu i r rest rest' hu' hv.2⟩
theorem upd_ok_kvs (hu : UpdOK P u) (k : Bytes) : ∀ (r : List Seg) (items items' : List (CKey × CVal)),
    updKvs u k r items = some items' → KvsOK P items → KvsOK P items'
  | _, [], _, h, _ => by simp [updKvs] at h
  | r, (k', v) :: rest, items', h, hv => by
    simp only [updKvs] at h
    simp only [KvsOK] at hv
    split at h
    · obtain ⟨v', hu', rfl⟩ := Option.map_eq_some_iff.mp h
      simp only [KvsOK]
      exact ⟨⟨hv.1.1, upd_ok_val hu r v v' hu' hv.1.2⟩, hv.2⟩
    · obtain ⟨rest', hu', rfl⟩ := Option.map_eq_some_iff.mp h
      simp only [KvsOK]
      exact ⟨hv.1, upd_ok_kvs hu k r rest rest' hu' hv.2⟩
end

mutual
theorem upd_ok_tbl (hu : UpdOK P u) : ∀ (p : List Seg) (t t' : CTbl), updTbl u p t = some t' → TOK P t → TOK P t'
  | [], t, t', h, hv => by simp only [updTbl] at h; exact hu.tbl t t' hv h
  | s :: r, .mk items imp dot ps dec sp, t', h, hv => by
    simp only [updTbl] at h
    simp only [TOK] at hv
    cases hi : s.key with
    | none => simp [hi] at h
    | some k =>
      simp only [hi] at h
      obtain ⟨items', hu', rfl⟩ := Option.map_eq_some_iff.mp h
      simp only [TOK]
      exact ⟨upd_ok_items hu k r items items' hu' hv.1, hv.2⟩
theorem upd_ok_items (hu : UpdOK P u) (k : Bytes) : ∀ (r : List Seg) (items items' : List (CKey × CItem)),
    updItems u k r items = some items' → IsOK P items → IsOK P items'
  | _, [], _, h, _ => by simp [updItems] at h
  | r, (k', it) :: rest, items', h, hv => by
    simp only [updItems] at h
    rw [IsOK_cons] at hv
    split at h
    · obtain ⟨it', hu', rfl⟩ := Option.map_eq_some_iff.mp h
      rw [IsOK_cons]
      exact ⟨⟨hv.1.1, upd_ok_item hu r it it' hu' hv.1.2⟩, hv.2⟩
    · obtain ⟨rest', hu', rfl⟩ := Option.map_eq_some_iff.mp h
      rw [IsOK_cons]
      exact ⟨hv.1, upd_ok_items hu k r rest rest' hu' hv.2⟩
theorem upd_ok_item (hu : UpdOK P u) : ∀ (r : List Seg) (it it' : CItem), updItem u r it = some it' →
    ItemOK P it → ItemOK P it'
  | r, .value v, it', h, hv => by
    simp only [updItem] at h
    obtain ⟨v', hu', rfl⟩ := Option.map_eq_some_iff.mp h
    exact upd_ok_val hu r v v' hu' hv
  | r, .table t, it', h, hv => by
    simp only [updItem] at h
    obtain ⟨t', hu', rfl⟩ := Option.map_eq_some_iff.mp h
    exact upd_ok_tbl hu r t t' hu' hv
  | [], .aot ts sp, it', h, hv => by
    simp only [updItem] at h
    obtain ⟨ts', hu', rfl⟩ := Option.map_eq_some_iff.mp h
    exact ⟨hu.aot ts ts' hv.1 hu', hv.2⟩
  | s :: r, .aot ts sp, it', h, hv => by
    simp only [updItem] at h
    cases hi : s.idx with
    | none => simp [hi] at h
    | some i =>
      simp only [hi] at h
      obtain ⟨ts', hu', rfl⟩ := Option.map_eq_some_iff.mp h
      exact ⟨upd_ok_nth hu i r ts ts' hu' hv.1, hv.2⟩
theorem upd_ok_nth (hu : UpdOK P u) : ∀ (i : Nat) (r : List Seg) (ts ts' : List CTbl),
    updNth u i r ts = some ts' → TsOK P ts → TsOK P ts'
  | _, _, [], _, h, _ => by simp [updNth] at h
  | 0, r, t :: rest, ts', h, hv => by
    simp only [updNth] at h
    simp only [TsOK] at hv
    obtain ⟨t', hu', rfl⟩ := Option.map_eq_some_iff.mp h
    simp only [TsOK]
    exact ⟨upd_ok_tbl hu r t t' hu' hv.1, hv.2⟩
  | i + 1, r, t :: rest, ts', h, hv => by
    simp only [updNth] at h
    simp only [TsOK] at hv
    obtain ⟨rest', hu', rfl⟩ := Option.map_eq_some_iff.mp h
    simp only [TsOK]
    exact ⟨hv.1, upd_ok_nth hu i r rest rest' hu' hv.2⟩
end

end TomlVerif.Lemmas.Refine08c
