import TomlVerif.Lemmas.Tiling03NestFin
/-! C03, nested documents — the parse-state invariant and the header line. -/
namespace TomlVerif.Lemmas.Tiling03Nest
open TomlVerif TomlVerif.Spec TomlVerif.Model TomlVerif.Model.Strings TomlVerif.Model.Value
open TomlVerif.Model.Cst TomlVerif.Model.Encode TomlVerif.Lemmas.Suffix03 TomlVerif.Lemmas.Cst03
open TomlVerif.Lemmas.LastByte03 TomlVerif.Lemmas.Tiling03 TomlVerif.Lemmas.Tiling03Hdr

/-! ### bodies -/

mutual
theorem bodyOk_text (f : Bytes → Bytes) (inp : Bytes) : ∀ (items : Items), bodyOk items = true →
    ∀ X, textItems f inp items X = []
  | [], _, _ => rfl
  | (k, .value v) :: r, h, X => by
    simp only [bodyOk, Bool.and_eq_true] at h
    rw [textItems]; exact bodyOk_text f inp r h.2 X
  | (k, .table t) :: r, h, X => by
    simp only [bodyOk, Bool.and_eq_true] at h
    rw [textItems]
    rw [bodyTbl_text f inp t h.1, bodyOk_text f inp r h.2 X]; rfl
  | (k, .aot _ _) :: r, h, _ => by simp [bodyOk] at h
theorem bodyTbl_text (f : Bytes → Bytes) (inp : Bytes) : ∀ (t : CTbl), bodyTbl t = true →
    ∀ X a, textTbl f inp t X a = []
  | .mk items imp dot p dec sp, h, X, a => by
    simp only [bodyTbl, Bool.and_eq_true] at h
    rw [textTbl, h.1, bodyOk_text f inp items h.2 X]; rfl
end

theorem bodyOk_append : ∀ (x y : Items), bodyOk (x ++ y) = (bodyOk x && bodyOk y)
  | [], y => by simp [bodyOk]
  | (k, .value v) :: r, y => by simp [bodyOk, bodyOk_append r y, Bool.and_assoc]
  | (k, .table t) :: r, y => by simp [bodyOk, bodyOk_append r y, Bool.and_assoc]
  | (k, .aot _ _) :: r, y => by simp [bodyOk]

/-! ### the header text of a table -/

/-- header line of a section (nothing for the root) -/
def hdrText (f : Bytes → Bytes) (inp : Bytes) (dec : Decor) (path : List CKey) (a : Bool) : Bytes :=
  if path.isEmpty then []
  else prefixEncode f inp dec [0x0A] ++ (if a then [0x5B, 0x5B] else [0x5B]) ++ encodeKeyPath f inp path [] []
    ++ (if a then [0x5D, 0x5D] else [0x5D]) ++ suffixEncode f inp dec [] ++ [0x0A]

/-- an explicit table: header line, then the body -/
theorem entText_explicit (f : Bytes → Bytes) (inp : Bytes) (items : Items) (dot : Bool) (p : Option Nat)
    (dec : Decor) (sp : Option Span) (path : List CKey) (a : Bool) :
    entText f inp (.mk items false dot p dec sp) path a =
      hdrText f inp dec path a ++ encodeBody f inp (valuesTbl items []) := by
  simp only [entText, visitTable, hdrText, CTbl.implicit, CTbl.items, CTbl.decor]
  cases path.isEmpty <;> cases a <;> simp

theorem entText_root (f : Bytes → Bytes) (inp : Bytes) (t : CTbl) (a : Bool) :
    entText f inp t [] a = encodeBody f inp (valuesTbl t.items []) := by
  simp [entText, visitTable]

/-! ### the invariant -/

/-- what the printer will write for the tables of the state -/
def stTextN (f : Bytes → Bytes) (inp : Bytes) (st : CState) : Bytes :=
  if st.currentPath.isEmpty then encodeBody f inp (valuesTbl st.current.items [])
  else textTbl f inp st.root [] false ++ entText f inp st.current st.currentPath st.currentIsArray

/-- before the first header -/
def RootPh (st : CState) : Prop :=
  st.root = CTbl.empty ∧ st.currentPath = [] ∧
  ∃ items imp sp, st.current = .mk items imp false none {} sp ∧ bodyOk items = true

/-- after a header: the root has the spine of the header path, the current table is the
    section being read -/
def HdrPh (inp : Bytes) (st : CState) : Prop :=
  ∃ pp key items q lead trail sp, st.currentPath = pp ++ [key] ∧
    st.current = .mk items false false (some q) (Decor.new lead trail) sp ∧ bodyOk items = true ∧
    SpineP inp st.currentIsArray key st.root pp

def NInv (f : Bytes → Bytes) (inp base : Bytes) (st : CState) (s : Bytes) : Prop :=
  (RootPh st ∨ HdrPh inp st) ∧ TxtOf inp base st.trailing (stTextN f inp st) s

theorem stTextN_congr (f : Bytes → Bytes) (inp : Bytes) (st st' : CState) (h1 : st'.root = st.root)
    (h2 : st'.current = st.current) (h3 : st'.currentPath = st.currentPath)
    (h4 : st'.currentIsArray = st.currentIsArray) : stTextN f inp st' = stTextN f inp st := by
  unfold stTextN
  rw [h1, h2, h3, h4]

theorem ninv_onWs (f : Bytes → Bytes) (inp base : Bytes) (st : CState) (w s' : Bytes)
    (h : NInv f inp base st (w ++ s')) :
    NInv f inp base (onWs st (pos inp.length (w ++ s')) (pos inp.length s')) s' := by
  obtain ⟨e1, e2, e3, e4, e5⟩ := onWs_fields st (pos inp.length (w ++ s')) (pos inp.length s')
  obtain ⟨hsh, htx⟩ := h
  refine ⟨?_, ?_⟩
  · unfold RootPh HdrPh; rw [e1, e2, e3, e4]; exact hsh
  · rw [stTextN_congr f inp st _ e1 e2 e3 e4]
    exact txtOf_onWs inp base st _ w s' htx

theorem ninv_consume (f : Bytes → Bytes) (inp base : Bytes) (st : CState) (s s' : Bytes) (hs : s' <:+ s)
    (h : NInv f inp base st s) : NInv f inp base (onWs st (pos inp.length s) (pos inp.length s')) s' := by
  obtain ⟨w, hw⟩ := hs
  subst hw
  exact ninv_onWs f inp base st w s' h

theorem ninv_parseWs (f : Bytes → Bytes) (inp base : Bytes) (st : CState) (s : Bytes)
    (h : NInv f inp base st s) :
    NInv f inp base (parseWs inp.length st s).1 (parseWs inp.length st s).2 :=
  ninv_consume f inp base st s (dropWs s) (Cst03.dropWs_suffix s) h

/-! ### `finalize_table` -/

theorem finalize_nest (f : Bytes → Bytes) (inp : Bytes) (st st1 : CState) (hfin : finalizeTable st = some st1)
    (hsh : RootPh st ∨ HdrPh inp st) :
    textTbl f inp st1.root [] false = stTextN f inp st ∧ st1.root.dotted = false ∧
    st1.trailing = st.trailing ∧ st1.position = st.position ∧ st1.current = CTbl.empty := by
  rcases finalize_cases st st1 hfin with ⟨hp, _, e⟩ | ⟨pp', key', root', hp, hd, e⟩
  · subst e
    rcases hsh with ⟨_, _, items, imp, sp, a3, a4⟩ | ⟨pp, key, _, _, _, _, _, b1, _⟩
    · refine ⟨?_, by rw [a3]; rfl, rfl, rfl, rfl⟩
      simp only [stTextN, hp, List.isEmpty_nil, if_true]
      rw [a3, textTbl_eq]
      simp only [CTbl.dotted, Bool.false_eq_true, if_false, CTbl.items]
      rw [bodyOk_text f inp items a4, entText_root]; simp [CTbl.items]
    · rw [hp] at b1; exact absurd b1.symm (by simp)
  · subst e
    rcases hsh with ⟨_, a2, _⟩ | ⟨pp, key, items, q, lead, trail, sp, b1, b2, b3, b4⟩
    · rw [a2] at hp; exact absurd hp.symm (by simp)
    · rw [b1] at hp
      obtain ⟨e1, e2⟩ := snoc_inj hp
      subst e1; subst e2
      have hcd : st.current.dotted = false := by rw [b2]; rfl
      have hbody : ∀ X, textItems f inp st.current.items X = [] := by
        intro X; rw [b2]; exact bodyOk_text f inp items b3 X
      obtain ⟨i1, i2⟩ := fin_spine f inp st.currentIsArray key st.current hcd hbody pp st.root root' [] [] false b4
        .nil hd
      refine ⟨?_, i2, rfl, rfl, rfl⟩
      have hne : st.currentPath.isEmpty = false := by rw [b1]; cases pp <;> rfl
      simp only [stTextN, hne, Bool.false_eq_true, if_false]
      rw [i1, b1]; simp

/-! ### the header line -/

/-- text of a header line with any number of segments -/
theorem header_text_n (f : Bytes → Bytes) (inp : Bytes) (hf : FixOn f inp) (isArr : Bool) (s r r2 r3 tr : Bytes)
    (ks : List CKey) (lead : Raw)
    (hsr : s = (if isArr then [0x5B, 0x5B] else [0x5B]) ++ r)
    (hk : ckeyPath inp.length r = .ok ks ((if isArr then [0x5D, 0x5D] else [0x5D]) ++ r2))
    (hlt : lineTrailing r2 = .ok () r3) (hne : ks ≠ [])
    (hlead : rawText inp lead = tr) (hs : s <:+ inp) :
    ∃ line e, s = line ++ e ++ r3 ∧ LineEnd (trailEnd r2) e r3 ∧ (∃ t b, line = t ++ [b] ∧ b ≠ 0x0A) ∧
      hdrText f inp (Decor.new lead (rawBetween inp.length r2 (trailEnd r2))) ks isArr = tr ++ line ++ [0x0A] := by
  have hr : r <:+ inp := (hsr ▸ suffix_of_append _ r).trans hs
  have hkp := ckeyPath_tiling f inp hf r _ ks hr hk [] []
  generalize hkpdef : encodeKeyPath f inp ks [] [] = kp at hkp
  have hr2 : r2 <:+ inp := ((suffix_of_append _ r2).trans (ckeyPath_suffix _ _ _ _ hk).1).trans hr
  obtain ⟨te, hte⟩ := trailEnd_suffix r2
  obtain ⟨e, he⟩ := lineTrailing_lineEnd r2 r3 hlt
  have hrtext : r = kp ++ (if isArr then [0x5D, 0x5D] else [0x5D]) ++ te ++ trailEnd r2 := by
    rw [hkp]
    simp only [List.append_assoc]
    rw [hte]
  refine ⟨(if isArr then [0x5B, 0x5B] else [0x5B]) ++ kp ++ (if isArr then [0x5D, 0x5D] else [0x5D]) ++ te, e, ?_, he, ?_, ?_⟩
  · rw [List.append_assoc _ e, ← lineEnd_split he, hsr]
    conv => lhs; rw [hrtext]
    simp only [List.append_assoc]
  · have l1 : LastNe r2 (0x5D :: r2) := lastNe_tail r2 (by decide)
    have l2 : LastNe (trailEnd r2) (0x5D :: r2) := (trailEnd_orEq r2).trans_lastNe l1
    obtain ⟨t, b, ht, hb⟩ := l2
    have e1 : [0x5D] ++ te ++ trailEnd r2 = t ++ [b] ++ trailEnd r2 := by
      rw [List.append_assoc, hte]
      simpa using ht
    have e2 := List.append_cancel_right e1
    cases isArr with
    | false =>
      refine ⟨[0x5B] ++ kp ++ t, b, ?_, hb⟩
      simp only [Bool.false_eq_true, if_false, List.append_assoc] at e2 ⊢
      rw [e2]
    | true =>
      refine ⟨[0x5B, 0x5B] ++ kp ++ [0x5D] ++ t, b, ?_, hb⟩
      simp only [if_true, List.append_assoc] at e2 ⊢
      have : [0x5D, 0x5D] ++ te = [0x5D] ++ ([0x5D] ++ te) := rfl
      rw [this, e2]
  · have hpe : ks.isEmpty = false := by cases ks <;> simp_all
    simp only [hdrText, hpe, Bool.false_eq_true, if_false, prefixEncode, suffixEncode, Decor.new]
    rw [hkpdef, encRaw_fix hf, encRaw_fix hf, hlead, rawText_between inp r2 te (trailEnd r2) hr2 hte.symm]
    cases isArr <;> simp [List.append_assoc]

theorem header_txt_n (f : Bytes → Bytes) (inp base : Bytes) (hf : FixOn f inp) (trailing : Option Span)
    (isArr : Bool) (s r r2 r3 : Bytes) (ks : List CKey)
    (hsr : s = (if isArr then [0x5B, 0x5B] else [0x5B]) ++ r)
    (hk : ckeyPath inp.length r = .ok ks ((if isArr then [0x5D, 0x5D] else [0x5D]) ++ r2))
    (hlt : lineTrailing r2 = .ok () r3) (hne : ks ≠ [])
    (T : Bytes) (htx : TxtOf inp base trailing T s) :
    TxtOf inp base none (T ++ hdrText f inp
      (Decor.new (takeTrailing trailing) (rawBetween inp.length r2 (trailEnd r2))) ks isArr) r3 := by
  obtain ⟨src, out, tr, eol, h1, h2, h3, h4, h5⟩ := htx
  have hs : s <:+ inp := ⟨base ++ src ++ tr, h2.symm⟩
  have htrs : tr ++ s <:+ inp := ⟨base ++ src, by rw [h2]; simp [List.append_assoc]⟩
  have hlead := trailIs_text inp trailing tr s h1 htrs
  obtain ⟨line, e, hs', hle, hl, hsec⟩ := header_text_n f inp hf isArr s r r2 r3 tr ks (takeTrailing trailing) hsr hk hlt hne hlead hs
  rw [hsec]
  have := txtOf_line inp base T s src out tr eol line e r3 _ h2 h3 h4 h5 hs' hle hl
  simpa [List.append_assoc] using this

theorem hdrLineOk_use (inp : Bytes) (st st1 : CState) (a : Bool) (r rest : Bytes) (ks pp : List CKey) (key : CKey)
    (hok : hdrLineOk inp st ((if a then [0x5B, 0x5B] else [0x5B]) ++ r) = true)
    (hfin : finalizeTable st = some st1) (hk : ckeyPath inp.length r = .ok ks rest)
    (hsl : splitLast ks = some (pp, key)) : pathOk inp a key st1.root pp = true := by
  unfold hdrLineOk at hok
  rw [hfin] at hok
  simp only [Bool.and_eq_true] at hok
  cases a with
  | true =>
    have h1 := hok.1
    simp only [if_true, List.cons_append, List.nil_append, hdrChk, hk, hsl] at h1
    exact h1
  | false =>
    have h2 := hok.2
    simp only [Bool.false_eq_true, if_false, List.cons_append, List.nil_append, hdrChk, hk, hsl] at h2
    exact h2

theorem header_step_nest (f : Bytes → Bytes) (inp base : Bytes) (hf : FixOn f inp)
    (st st' : CState) (s r3 : Bytes)
    (h : ctableLine inp.length st s = some (st', r3)) (hok : hdrLineOk inp st s = true)
    (hI : NInv f inp base st s) : NInv f inp base st' r3 := by
  obtain ⟨isArr, r, ks, r2, hsr, hk, hlt, ho⟩ := table_frame _ _ _ _ _ h
  clear h
  obtain ⟨hsh, htx⟩ := hI
  subst hsr
  cases isArr with
  | false =>
    simp only [Bool.false_eq_true, if_false] at ho hk
    unfold onStdHeader at ho
    split at ho
    · rename_i st1 hfin
      obtain ⟨f1, f2, f3, f4, f5⟩ := finalize_nest f inp st st1 hfin hsh
      obtain ⟨pp, key, root', hks, _, hroot, hst'⟩ := startTable_cases _ _ _ _ _ ho
      clear ho
      simp only [] at hroot
      have hsl : splitLast ks = some (pp, key) := by rw [hks]; exact vsplitLast_snoc pp key
      have hpo := hdrLineOk_use inp st st1 false r _ ks pp key hok hfin hk hsl
      obtain ⟨i1, i2, i3, i4, i5, i6⟩ := start_spine inp false key pp st1.root root' hpo hroot
      have hft := i6 rfl
      have hroottext : textTbl f inp root' [] false = textTbl f inp st1.root [] false := by
        rw [textTbl_eq, textTbl_eq f inp st1.root, spineP_dotted i1, f2, i5 f, entText_tbl_congr f inp _ _ _ _ i2 i3 i4]
      have hne : ks ≠ [] := by rw [hks]; simp
      have hpe : ks.isEmpty = false := by rw [hks]; cases pp <;> rfl
      subst hst'
      refine ⟨Or.inr ⟨pp, key, [], st1.position + 1, takeTrailing st1.trailing, rawBetween inp.length r2 (trailEnd r2),
        some (pos inp.length ([0x5B] ++ r), pos inp.length r2), hks, ?_, rfl, i1⟩, ?_⟩
      · show CTbl.mk ((findTable key.key st1.root pp).getD st1.current).items false false _ _ _ = _
        rw [hft, f5]; rfl
      · have hT : stTextN f inp
            { root := root', trailing := none, position := st1.position + 1,
              current := .mk ((findTable key.key st1.root pp).getD st1.current).items false false
                (some (st1.position + 1)) (Decor.new (takeTrailing st1.trailing) (rawBetween inp.length r2 (trailEnd r2)))
                (some (pos inp.length ([0x5B] ++ r), pos inp.length r2)),
              currentIsArray := false, currentPath := ks }
            = stTextN f inp st ++ hdrText f inp
                (Decor.new (takeTrailing st.trailing) (rawBetween inp.length r2 (trailEnd r2))) ks false := by
          have hit : (CTbl.empty).items = [] := rfl
          rw [stTextN]
          simp only [hpe, Bool.false_eq_true, if_false, hft, Option.getD_none, f5, hit]
          rw [hroottext, f1, entText_explicit, f3]
          simp [valuesTbl, encodeBody]
        simp only [] at hT ⊢
        rw [hT]
        exact header_txt_n f inp base hf st.trailing false _ r r2 r3 ks rfl hk hlt hne _ htx
    · cases ho
  | true =>
    simp only [if_true] at ho hk
    unfold onArrayHeader at ho
    split at ho
    · rename_i st1 hfin
      obtain ⟨f1, f2, f3, f4, f5⟩ := finalize_nest f inp st st1 hfin hsh
      obtain ⟨pp, key, root', hks, hroot, hst'⟩ := startArrayTable_cases _ _ _ _ _ ho
      clear ho
      simp only [] at hroot
      have hsl : splitLast ks = some (pp, key) := by rw [hks]; exact vsplitLast_snoc pp key
      have hpo := hdrLineOk_use inp st st1 true r _ ks pp key hok hfin hk hsl
      obtain ⟨i1, i2, i3, i4, i5, _⟩ := start_spine inp true key pp st1.root root' hpo hroot
      have hroottext : textTbl f inp root' [] false = textTbl f inp st1.root [] false := by
        rw [textTbl_eq, textTbl_eq f inp st1.root, spineP_dotted i1, f2, i5 f, entText_tbl_congr f inp _ _ _ _ i2 i3 i4]
      have hne : ks ≠ [] := by rw [hks]; simp
      have hpe : ks.isEmpty = false := by rw [hks]; cases pp <;> rfl
      subst hst'
      refine ⟨Or.inr ⟨pp, key, [], st1.position + 1, takeTrailing st1.trailing, rawBetween inp.length r2 (trailEnd r2),
        some (pos inp.length ([0x5B, 0x5B] ++ r), pos inp.length r2), hks, ?_, rfl, i1⟩, ?_⟩
      · show CTbl.mk st1.current.items false false _ _ _ = _
        rw [f5]; rfl
      · have hT : stTextN f inp
            { root := root', trailing := none, position := st1.position + 1,
              current := .mk st1.current.items false false
                (some (st1.position + 1)) (Decor.new (takeTrailing st1.trailing) (rawBetween inp.length r2 (trailEnd r2)))
                (some (pos inp.length ([0x5B, 0x5B] ++ r), pos inp.length r2)),
              currentIsArray := true, currentPath := ks }
            = stTextN f inp st ++ hdrText f inp
                (Decor.new (takeTrailing st.trailing) (rawBetween inp.length r2 (trailEnd r2))) ks true := by
          have hit : (CTbl.empty).items = [] := rfl
          rw [stTextN]
          simp only [hpe, Bool.false_eq_true, if_false, f5, hit]
          rw [hroottext, f1, entText_explicit, f3]
          simp [valuesTbl, encodeBody]
        simp only [] at hT ⊢
        rw [hT]
        exact header_txt_n f inp base hf st.trailing true _ r r2 r3 ks rfl hk hlt hne _ htx
    · cases ho

end TomlVerif.Lemmas.Tiling03Nest
