import TomlVerif.Lemmas.Edit08
/-! Navigation on the decorated tree commutes with erasure to the plain ordered tree
    (`Spec/OrderedPlain.lean`: `toPlain ∘ eraseTbl`). -/
namespace TomlVerif.Lemmas.Refine08
open TomlVerif TomlVerif.Model TomlVerif.Model.Cst TomlVerif.Model.Edit TomlVerif.Lemmas.Edit08
open TomlVerif.Spec.OrderedPlain

/-- the plain ordered tree of a decorated table -/
def plainT (t : CTbl) : Plain := toPlain (eraseTbl t)
def plainV (v : CVal) : Plain := valToPlain (eraseVal v)
def plainA (ts : List CTbl) : Plain := .arr (tblsToPlain (eraseTbls ts))
def plainI (it : CItem) : Plain := itemToPlain (eraseItem it)

mutual
/-- apply `f` to the node a path leads to in a plain tree: tables select by key, arrays by index -/
def pupd (f : Plain → Option Plain) : List Seg → Plain → Option Plain
  | [], x => f x
  | _ :: _, .scalar _ => none
  | s :: r, .arr xs =>
    match s.idx with
    | some i => (pupdNth f i r xs).map .arr
    | none => none
  | s :: r, .tbl es =>
    match s.key with
    | some k => (pupdKey f k r es).map .tbl
    | none => none
def pupdNth (f : Plain → Option Plain) : Nat → List Seg → List Plain → Option (List Plain)
  | _, _, [] => none
  | 0, r, x :: rest => (pupd f r x).map fun x' => x' :: rest
  | i + 1, r, x :: rest => (pupdNth f i r rest).map fun rest' => x :: rest'
def pupdKey (f : Plain → Option Plain) (k : Bytes) : List Seg → List (Bytes × Plain) → Option (List (Bytes × Plain))
  | _, [] => none
  | r, (k', x) :: rest =>
    if k' == k then (pupd f r x).map fun x' => (k', x') :: rest
    else (pupdKey f k r rest).map fun rest' => (k', x) :: rest'
end

/-- the node updates of an op act on the plain tree as `f` whenever they apply -/
structure Refines (u : Upd) (f : Plain → Option Plain) : Prop where
  tbl : ∀ t t', u.tbl t = some t' → f (plainT t) = some (plainT t')
  val : ∀ v v', u.val v = some v' → f (plainV v) = some (plainV v')
  aot : ∀ ts ts', u.aot ts = some ts' → f (plainA ts) = some (plainA ts')

variable {u : Upd} {f : Plain → Option Plain}

mutual
theorem refine_val (hr : Refines u f) : ∀ (p : List Seg) (v v' : CVal), updVal u p v = some v' →
    pupd f p (plainV v) = some (plainV v')
  | [], v, v', h => by simp only [updVal] at h; simpa [pupd] using hr.val v v' h
  | _ :: _, .scalar _ _ _, _, h => by simp [updVal] at h
  | s :: r, .arr items tr c d sp, v', h => by
    simp only [updVal] at h
    cases hi : s.idx with
    | none => simp [hi] at h
    | some i =>
      simp only [hi] at h
      obtain ⟨items', hu, rfl⟩ := Option.map_eq_some_iff.mp h
      have ih := refine_elems hr i r items items' hu
      simp [plainV, eraseVal, valToPlain, pupd, hi, ih]
  | s :: r, .inl items pre imp dot d sp, v', h => by
    simp only [updVal] at h
    cases hi : s.key with
    | none => simp [hi] at h
    | some k =>
      simp only [hi] at h
      obtain ⟨items', hu, rfl⟩ := Option.map_eq_some_iff.mp h
      have ih := refine_kvs hr k r items items' hu
      simp [plainV, eraseVal, valToPlain, pupd, hi, ih]
theorem refine_elems (hr : Refines u f) : ∀ (i : Nat) (r : List Seg) (items items' : List CVal),
    updElems u i r items = some items' →
    pupdNth f i r (valsToPlain (eraseVals items)) = some (valsToPlain (eraseVals items'))
  | _, _, [], _, h => by simp [updElems] at h
  | 0, r, v :: rest, items', h => by
    simp only [updElems] at h
    obtain ⟨v', hu, rfl⟩ := Option.map_eq_some_iff.mp h
    have ih := refine_val hr r v v' hu
    simp only [plainV] at ih
    simp [eraseVals, valsToPlain, pupdNth, ih]
  | i + 1, r, v :: rest, items', h => by
    simp only [updElems] at h
    obtain ⟨rest', hu, rfl⟩ := Option.map_eq_some_iff.mp h
    have ih := refine_elems hr i r rest rest' hu
    simp [eraseVals, valsToPlain, pupdNth, ih]
theorem refine_kvs (hr : Refines u f) (k : Bytes) : ∀ (r : List Seg) (items items' : List (CKey × CVal)),
    updKvs u k r items = some items' →
    pupdKey f k r (valEntriesToPlain (eraseKvs items)) = some (valEntriesToPlain (eraseKvs items'))
  | _, [], _, h => by simp [updKvs] at h
  | r, (k', v) :: rest, items', h => by
    simp only [updKvs] at h
    by_cases hk : (k'.key == k) = true
    · simp only [hk, if_true] at h
      obtain ⟨v', hu, rfl⟩ := Option.map_eq_some_iff.mp h
      have ih := refine_val hr r v v' hu
      simp only [plainV] at ih
      simp [eraseKvs, valEntriesToPlain, pupdKey, hk, ih]
    · have hk' : (k'.key == k) = false := by simpa using hk
      simp only [hk', Bool.false_eq_true, if_false] at h
      obtain ⟨rest', hu, rfl⟩ := Option.map_eq_some_iff.mp h
      have ih := refine_kvs hr k r rest rest' hu
      simp [eraseKvs, valEntriesToPlain, pupdKey, hk', ih]
end

mutual
theorem refine_tbl (hr : Refines u f) : ∀ (p : List Seg) (t t' : CTbl), updTbl u p t = some t' →
    pupd f p (plainT t) = some (plainT t')
  | [], t, t', h => by simp only [updTbl] at h; simpa [pupd] using hr.tbl t t' h
  | s :: r, .mk items imp dot ps dec sp, t', h => by
    simp only [updTbl] at h
    cases hi : s.key with
    | none => simp [hi] at h
    | some k =>
      simp only [hi] at h
      obtain ⟨items', hu, rfl⟩ := Option.map_eq_some_iff.mp h
      have ih := refine_items hr k r items items' hu
      simp [plainT, eraseTbl, toPlain, pupd, hi, ih]
theorem refine_items (hr : Refines u f) (k : Bytes) : ∀ (r : List Seg) (items items' : List (CKey × CItem)),
    updItems u k r items = some items' →
    pupdKey f k r (itemEntriesToPlain (eraseItems items)) = some (itemEntriesToPlain (eraseItems items'))
  | _, [], _, h => by simp [updItems] at h
  | r, (k', it) :: rest, items', h => by
    simp only [updItems] at h
    by_cases hk : (k'.key == k) = true
    · simp only [hk, if_true] at h
      obtain ⟨it', hu, rfl⟩ := Option.map_eq_some_iff.mp h
      have ih := refine_item hr r it it' hu
      simp only [plainI] at ih
      simp [eraseItems, itemEntriesToPlain, pupdKey, hk, ih]
    · have hk' : (k'.key == k) = false := by simpa using hk
      simp only [hk', Bool.false_eq_true, if_false] at h
      obtain ⟨rest', hu, rfl⟩ := Option.map_eq_some_iff.mp h
      have ih := refine_items hr k r rest rest' hu
      simp [eraseItems, itemEntriesToPlain, pupdKey, hk', ih]
theorem refine_item (hr : Refines u f) : ∀ (r : List Seg) (it it' : CItem), updItem u r it = some it' →
    pupd f r (plainI it) = some (plainI it')
  | r, .value v, it', h => by
    simp only [updItem] at h
    obtain ⟨v', hu, rfl⟩ := Option.map_eq_some_iff.mp h
    have ih := refine_val hr r v v' hu
    simpa [plainI, plainV, eraseItem, itemToPlain] using ih
  | r, .table t, it', h => by
    simp only [updItem] at h
    obtain ⟨t', hu, rfl⟩ := Option.map_eq_some_iff.mp h
    have ih := refine_tbl hr r t t' hu
    simpa [plainI, plainT, eraseItem, itemToPlain] using ih
  | [], .aot ts sp, it', h => by
    simp only [updItem] at h
    obtain ⟨ts', hu, rfl⟩ := Option.map_eq_some_iff.mp h
    have := hr.aot ts ts' hu
    simpa [plainI, plainA, eraseItem, itemToPlain, pupd] using this
  | s :: r, .aot ts sp, it', h => by
    simp only [updItem] at h
    cases hi : s.idx with
    | none => simp [hi] at h
    | some i =>
      simp only [hi] at h
      obtain ⟨ts', hu, rfl⟩ := Option.map_eq_some_iff.mp h
      have ih := refine_nth hr i r ts ts' hu
      simp [plainI, eraseItem, itemToPlain, pupd, hi, ih]
theorem refine_nth (hr : Refines u f) : ∀ (i : Nat) (r : List Seg) (ts ts' : List CTbl),
    updNth u i r ts = some ts' →
    pupdNth f i r (tblsToPlain (eraseTbls ts)) = some (tblsToPlain (eraseTbls ts'))
  | _, _, [], _, h => by simp [updNth] at h
  | 0, r, t :: rest, ts', h => by
    simp only [updNth] at h
    obtain ⟨t', hu, rfl⟩ := Option.map_eq_some_iff.mp h
    have ih := refine_tbl hr r t t' hu
    simp only [plainT] at ih
    simp [eraseTbls, tblsToPlain, pupdNth, ih]
  | i + 1, r, t :: rest, ts', h => by
    simp only [updNth] at h
    obtain ⟨rest', hu, rfl⟩ := Option.map_eq_some_iff.mp h
    have ih := refine_nth hr i r rest rest' hu
    simp [eraseTbls, tblsToPlain, pupdNth, ih]
end

end TomlVerif.Lemmas.Refine08
