import TomlVerif.Model.Ser
/-! Lemmas for C07: the `toml_edit` value serializer computes the documented mapping
    (`Except.toOption ∘ serValue = expected`), `expected` is undefined exactly on the documented
    unsupported shapes, and the guarded formatting visitor / no visitor leave the printed data
    unchanged. All by structural recursion over the nested inductives `SVal` and `V`. -/
namespace TomlVerif.Lemmas.Ser07
open TomlVerif TomlVerif.Model TomlVerif.Model.Ser TomlVerif.Spec TomlVerif.Spec.Serde

theorem serKey_opt : ∀ k : SVal, (serKey k).toOption = expectedKey k
  | .str _ => rfl
  | .unitVariant _ _ => rfl
  | .newtype _ v => by simp only [serKey, expectedKey]; exact serKey_opt v
  | .bool _ => rfl | .int w _ => by cases w <;> rfl | .f32 _ => rfl | .f64 _ => rfl | .char _ => rfl
  | .bytes _ => rfl | .none => rfl | .some _ => rfl | .unit => rfl | .unitStruct _ => rfl
  | .seq _ => rfl | .tuple _ => rfl | .tupleStruct _ _ => rfl | .map _ => rfl | .struct _ _ => rfl
  | .newtypeVariant _ _ _ => rfl | .tupleVariant _ _ _ => rfl | .structVariant _ _ _ => rfl

theorem serDatetime_opt : ∀ (fs : List (Bytes × SVal)) (acc : Option Datetime.Datetime),
    (serDatetime fs acc).toOption = expectedDatetime fs acc
  | [], acc => by cases acc <;> rfl
  | (k, v) :: r, acc => by
    unfold serDatetime expectedDatetime
    by_cases hk : (k == dtField) = true
    · simp only [hk, if_true]
      cases v <;> try rfl
      case int w n => cases w <;> rfl
      case str s =>
        simp only []
        cases h : Datetime.Std.fromStr s
        · rfl
        · exact serDatetime_opt r _
    · simp only [hk]
      exact serDatetime_opt r acc

mutual
theorem serValue_opt : ∀ v : SVal, (serValue v).toOption = expected v
  | .bool _ => rfl
  | .int w n => by
    simp only [serValue, expected, intOk]
    by_cases h1 : is128 w = true
    · simp [h1, Except.toOption]
    · by_cases h2 : (w == IntW.u64 && decide (n > i64Max)) = true
      · simp [h1, h2, Except.toOption]
      · simp [h1, h2, Except.toOption]
  | .f32 _ => rfl
  | .f64 _ => rfl
  | .char _ => rfl
  | .str _ => rfl
  | .bytes _ => rfl
  | .none => rfl
  | .some v => by simp only [serValue, expected]; exact serValue_opt v
  | .unit => rfl
  | .unitStruct _ => rfl
  | .newtype _ v => by simp only [serValue, expected]; exact serValue_opt v
  | .seq xs => by
    simp only [serValue, expected]; rw [← serSeq_opt xs]; cases serSeq xs <;> rfl
  | .tuple xs => by
    simp only [serValue, expected]; rw [← serSeq_opt xs]; cases serSeq xs <;> rfl
  | .tupleStruct _ xs => by
    simp only [serValue, expected]; rw [← serSeq_opt xs]; cases serSeq xs <;> rfl
  | .map kvs => by
    simp only [serValue, expected]; rw [← serMap_opt kvs []]; cases serMap kvs [] <;> rfl
  | .struct name fs => by
    simp only [serValue, expected]
    split
    · rw [← serDatetime_opt fs none]; cases serDatetime fs none <;> rfl
    · rw [← serFields_opt fs []]; cases serFields fs [] <;> rfl
  | .unitVariant _ _ => rfl
  | .newtypeVariant _ _ v => by
    simp only [serValue, expected]; rw [← serValue_opt v]; cases serValue v <;> rfl
  | .tupleVariant _ _ xs => by
    simp only [serValue, expected]; rw [← serSeq_opt xs]; cases serSeq xs <;> rfl
  | .structVariant _ _ fs => by
    simp only [serValue, expected]; rw [← serFields_opt fs []]; cases serFields fs [] <;> rfl
theorem serSeq_opt : ∀ xs : List SVal, (serSeq xs).toOption = expectedList xs
  | [] => rfl
  | x :: r => by
    simp only [serSeq, expectedList]
    rw [← serValue_opt x, ← serSeq_opt r]
    cases serValue x with
    | error e => rfl
    | ok v => cases serSeq r <;> rfl
theorem serFields_opt : ∀ (fs : List (Bytes × SVal)) (acc : List (Bytes × V)),
    (serFields fs acc).toOption = expectedFields fs acc
  | [], _ => rfl
  | (k, v) :: r, acc => by
    by_cases hn : v = .none
    · subst hn; simp only [serFields, expectedFields]; exact serFields_opt r acc
    · have e1 : serFields ((k, v) :: r) acc =
          (match serValue v with | .error e => .error e | .ok x => serFields r (aset k x acc)) := by
        cases v <;> first | exact absurd rfl hn | rfl
      have e2 : expectedFields ((k, v) :: r) acc =
          (match expected v with | none => none | some x => expectedFields r (aset k x acc)) := by
        cases v <;> first | exact absurd rfl hn | rfl
      rw [e1, e2, ← serValue_opt v]
      cases serValue v
      · rfl
      · exact serFields_opt r _
theorem serMap_opt : ∀ (kvs : List (SVal × SVal)) (acc : List (Bytes × V)),
    (serMap kvs acc).toOption = expectedMap kvs acc
  | [], _ => rfl
  | (k, v) :: r, acc => by
    by_cases hn : v = .none
    · subst hn; simp only [serMap, expectedMap]; rw [← serKey_opt k]
      cases serKey k
      · rfl
      · exact serMap_opt r acc
    · have e1 : serMap ((k, v) :: r) acc =
          (match serKey k with
           | .error e => .error e
           | .ok key => match serValue v with | .error e => .error e | .ok x => serMap r (aset key x acc)) := by
        cases v <;> first | exact absurd rfl hn | rfl
      have e2 : expectedMap ((k, v) :: r) acc =
          (match expectedKey k with
           | none => none
           | some key => match expected v with | none => none | some x => expectedMap r (aset key x acc)) := by
        cases v <;> first | exact absurd rfl hn | rfl
      rw [e1, e2, ← serKey_opt k, ← serValue_opt v]
      cases serKey k
      · rfl
      · cases serValue v
        · rfl
        · exact serMap_opt r _
end

theorem expectedDatetime_none : ∀ (fs : List (Bytes × SVal)) (acc : Option Datetime.Datetime),
    (expectedDatetime fs acc).isNone = (badDatetimeFields fs || (!hasDtField fs && acc.isNone))
  | [], acc => by cases acc <;> rfl
  | (k, v) :: r, acc => by
    unfold expectedDatetime badDatetimeFields hasDtField
    by_cases hk : (k == dtField) = true
    · simp only [hk, if_true]
      cases v <;> try rfl
      case str s =>
        simp only []
        cases h : Datetime.Std.fromStr s
        · rfl
        · rw [expectedDatetime_none r _]; simp
    · have hk' : (k == dtField) = false := by simpa using hk
      simp only [hk', Bool.false_eq_true, if_false, Bool.false_or]
      exact expectedDatetime_none r acc

mutual
theorem expected_none : ∀ v : SVal, (expected v).isNone = unsupported v
  | .bool _ => rfl
  | .int w n => by
    simp only [expected, unsupported]
    cases intOk w n <;> rfl
  | .f32 _ => rfl
  | .f64 _ => rfl
  | .char _ => rfl
  | .str _ => rfl
  | .bytes _ => rfl
  | .none => rfl
  | .some v => by simp only [expected, unsupported]; exact expected_none v
  | .unit => rfl
  | .unitStruct _ => rfl
  | .newtype _ v => by simp only [expected, unsupported]; exact expected_none v
  | .seq xs => by
    simp only [expected, unsupported]; rw [← expectedList_none xs]; cases expectedList xs <;> rfl
  | .tuple xs => by
    simp only [expected, unsupported]; rw [← expectedList_none xs]; cases expectedList xs <;> rfl
  | .tupleStruct _ xs => by
    simp only [expected, unsupported]; rw [← expectedList_none xs]; cases expectedList xs <;> rfl
  | .map kvs => by
    simp only [expected, unsupported]; rw [← expectedMap_none kvs []]; cases expectedMap kvs [] <;> rfl
  | .struct name fs => by
    simp only [expected, unsupported]
    split
    · have := expectedDatetime_none fs none
      simp only [Option.isNone_none, Bool.and_true] at this
      rw [← this]; cases expectedDatetime fs none <;> rfl
    · rw [← expectedFields_none fs []]; cases expectedFields fs [] <;> rfl
  | .unitVariant _ _ => rfl
  | .newtypeVariant _ _ v => by
    simp only [expected, unsupported]; rw [← expected_none v]; cases expected v <;> rfl
  | .tupleVariant _ _ xs => by
    simp only [expected, unsupported]; rw [← expectedList_none xs]; cases expectedList xs <;> rfl
  | .structVariant _ _ fs => by
    simp only [expected, unsupported]; rw [← expectedFields_none fs []]; cases expectedFields fs [] <;> rfl
theorem expectedList_none : ∀ xs : List SVal, (expectedList xs).isNone = unsupportedList xs
  | [] => rfl
  | x :: r => by
    simp only [expectedList, unsupportedList]
    rw [← expected_none x, ← expectedList_none r]
    cases expected x with
    | none => rfl
    | some v => cases expectedList r <;> rfl
theorem expectedFields_none : ∀ (fs : List (Bytes × SVal)) (acc : List (Bytes × V)),
    (expectedFields fs acc).isNone = unsupportedFields fs
  | [], _ => rfl
  | (k, v) :: r, acc => by
    by_cases hn : v = .none
    · subst hn; simp only [expectedFields, unsupportedFields]; exact expectedFields_none r acc
    · have e1 : unsupportedFields ((k, v) :: r) = (unsupported v || unsupportedFields r) := by
        cases v <;> first | exact absurd rfl hn | rfl
      have e2 : expectedFields ((k, v) :: r) acc =
          (match expected v with | none => none | some x => expectedFields r (aset k x acc)) := by
        cases v <;> first | exact absurd rfl hn | rfl
      rw [e1, e2, ← expected_none v]
      cases expected v with
      | none => rfl
      | some x => simp only [Option.isNone_some, Bool.false_or]; exact expectedFields_none r _
theorem expectedMap_none : ∀ (kvs : List (SVal × SVal)) (acc : List (Bytes × V)),
    (expectedMap kvs acc).isNone = unsupportedMap kvs
  | [], _ => rfl
  | (k, v) :: r, acc => by
    by_cases hn : v = .none
    · subst hn; simp only [expectedMap, unsupportedMap]
      cases expectedKey k with
      | none => rfl
      | some key => simp only [Option.isNone_some, Bool.false_or]; exact expectedMap_none r acc
    · have e1 : unsupportedMap ((k, v) :: r) =
          ((expectedKey k).isNone || (unsupported v || unsupportedMap r)) := by
        cases v <;> first | exact absurd rfl hn | rfl
      have e2 : expectedMap ((k, v) :: r) acc =
          (match expectedKey k with
           | none => none
           | some key => match expected v with | none => none | some x => expectedMap r (aset key x acc)) := by
        cases v <;> first | exact absurd rfl hn | rfl
      rw [e1, e2, ← expected_none v]
      cases expectedKey k with
      | none => rfl
      | some key =>
        cases expected v with
        | none => rfl
        | some x => simp only [Option.isNone_some, Bool.false_or]; exact expectedMap_none r _
end

/-! ### visitors -/

theorem visitAot_ne (g : Bool) : ∀ xs : List V, xs ≠ [] → visitAot g xs ≠ []
  | [], h => absurd rfl h
  | x :: r, _ => by cases x <;> simp [visitAot]

mutual
theorem present_visitItem (g : Bool) : ∀ v : V, present (visitItem g false v) = true
  | .sc _ => by simp [visitItem, present]
  | .arr xs => by
    simp only [visitItem]
    split
    · rename_i h
      simp only [present]
      have : xs ≠ [] := by
        intro e; subst e; simp at h
      have := visitAot_ne g xs this
      cases hh : visitAot g xs with
      | nil => exact absurd hh this
      | cons a b => rfl
    · rfl
  | .inl kvs => by
    simp only [visitItem, Bool.and_false, Bool.false_eq_true, if_false]
    simp only [present]
    cases kvs with
    | nil => rfl
    | cons kv r =>
      obtain ⟨k, v⟩ := kv
      simp only [visitKVs, presentAny, present_visitItem g v, Bool.true_or, Bool.or_true]
end

mutual
theorem shownArr_visit : ∀ xs : List V, shownArr (visitArr true xs) = xs
  | [] => by simp only [visitArr, shownArr]
  | .sc s :: r => by simp only [visitArr, visitValue, shownArr, shownArr_visit r]
  | .arr ys :: r => by simp only [visitArr, visitValue, shownArr, shownArr_visit r, shownArr_visit ys]
  | .inl kvs :: r => by simp only [visitArr, visitValue, shownArr, shownArr_visit r, shownInl_visit kvs]
theorem shownInl_visit : ∀ kvs : List (Bytes × V), shownInl (visitKVs true true kvs) = kvs
  | [] => by simp only [visitKVs, shownInl]
  | (k, .sc s) :: r => by simp only [visitKVs, visitItem, shownInl, shownInl_visit r]
  | (k, .arr ys) :: r => by
    simp [visitKVs, visitItem, shownInl, shownInl_visit r, shownArr_visit ys]
  | (k, .inl kvs) :: r => by
    simp [visitKVs, visitItem, shownInl, shownInl_visit r, shownInl_visit kvs]
theorem shownTbl_visit : ∀ kvs : List (Bytes × V), shownTbl (visitKVs true false kvs) = kvs
  | [] => by simp only [visitKVs, shownTbl]
  | (k, .sc s) :: r => by simp only [visitKVs, visitItem, shownTbl, shownTbl_visit r]
  | (k, .arr ys) :: r => by
    simp only [visitKVs, visitItem]
    split
    · rename_i h
      have hne : ys ≠ [] := by intro e; subst e; simp at h
      have hall : allInl ys = true := by simp at h; exact h.2
      have h2 := visitAot_ne true ys hne
      simp only [shownTbl]
      cases hh : visitAot true ys with
      | nil => exact absurd hh h2
      | cons a b =>
        simp only [List.isEmpty_cons, Bool.false_eq_true, if_false]
        rw [← hh, shownAot_visit ys hall, shownTbl_visit r]
    · simp only [shownTbl, shownTbl_visit r, shownArr_visit ys]
  | (k, .inl kvs) :: r => by
    have hp := present_visitItem true (.inl kvs)
    simp only [visitItem, Bool.and_false, Bool.false_eq_true, if_false] at hp
    simp only [visitKVs, visitItem, Bool.and_false, Bool.false_eq_true, if_false, shownTbl, hp, if_true,
      shownTbl_visit r, shownTbl_visit kvs]
theorem shownAot_visit : ∀ xs : List V, allInl xs = true → shownAot (visitAot true xs) = xs
  | [], _ => by simp only [visitAot, shownAot]
  | .sc s :: r, h => by simp [allInl, isInl] at h
  | .arr ys :: r, h => by simp [allInl, isInl] at h
  | .inl kvs :: r, h => by
    have hr : allInl r = true := by simpa [allInl, isInl] using h
    simp only [visitAot, shownAot, shownTbl_visit kvs, shownAot_visit r hr]
end

mutual
theorem shownArr_embed : ∀ xs : List V, shownArr (embedList xs) = xs
  | [] => by simp only [embedList, shownArr]
  | .sc s :: r => by simp only [embedList, embed, shownArr, shownArr_embed r]
  | .arr ys :: r => by simp only [embedList, embed, shownArr, shownArr_embed r, shownArr_embed ys]
  | .inl kvs :: r => by simp only [embedList, embed, shownArr, shownArr_embed r, shownInl_embed kvs]
theorem shownInl_embed : ∀ kvs : List (Bytes × V), shownInl (embedKVs kvs) = kvs
  | [] => by simp only [embedKVs, shownInl]
  | (k, .sc s) :: r => by simp only [embedKVs, embed, shownInl, shownInl_embed r]
  | (k, .arr ys) :: r => by simp only [embedKVs, embed, shownInl, shownInl_embed r, shownArr_embed ys]
  | (k, .inl kvs) :: r => by simp only [embedKVs, embed, shownInl, shownInl_embed r, shownInl_embed kvs]
end

theorem shownTbl_embed : ∀ kvs : List (Bytes × V), shownTbl (embedKVs kvs) = kvs
  | [] => by simp only [embedKVs, shownTbl]
  | (k, .sc s) :: r => by simp only [embedKVs, embed, shownTbl, shownTbl_embed r]
  | (k, .arr ys) :: r => by simp only [embedKVs, embed, shownTbl, shownTbl_embed r, shownArr_embed ys]
  | (k, .inl kvs) :: r => by simp only [embedKVs, embed, shownTbl, shownTbl_embed r, shownInl_embed kvs]

/-! ### the root dispatch of `toml::ser::Serializer` -/

/-- the shapes `toml::ser::Serializer` refuses at the root although they have a table image:
    struct and tuple variants -/
def variantRoot : SVal → Bool
  | .structVariant _ _ _ => true
  | .tupleVariant _ _ _ => true
  | _ => false

/-- the date-time struct at the root -/
def datetimeRoot : SVal → Bool
  | .struct name _ => name == dtName
  | _ => false

theorem tomlDocument_eq (b : Bool) (v : SVal) (h1 : variantRoot v = false)
    (h2 : b = true ∨ ∀ n fs, v ≠ .struct n fs) : tomlDocument b v = serDocument v := by
  cases v <;> first
    | rfl
    | (simp [variantRoot] at h1; done)
    | (cases h2 with
       | inl hb => subst hb; rfl
       | inr hn => exact absurd rfl (hn _ _))

/-- a successful `tomlDocument` away from the date-time root is a successful `serDocument` -/
theorem tomlDocument_ok (b : Bool) (v : SVal) (l : List (Bytes × V))
    (hd : b = true ∨ datetimeRoot v = false) (hs : tomlDocument b v = .ok l) : serDocument v = .ok l := by
  cases v with
  | structVariant n vr fs => simp [tomlDocument] at hs
  | tupleVariant n vr xs =>
    simp only [tomlDocument] at hs
    cases hq : serSeq xs <;> rw [hq] at hs <;> cases hs
  | struct name fs =>
    cases b with
    | true => exact hs
    | false =>
      have hn : (name == dtName) = false := by
        cases hd with
        | inl h => cases h
        | inr h => exact h
      simp only [tomlDocument, Bool.false_eq_true, if_false] at hs
      simp only [serDocument, serValue, hn, Bool.false_eq_true, if_false, hs]
  | _ => exact hs

/-! ### `toml::Value::try_from`: on values that have an image -/

theorem valSer_key (fx : ValFix) : ∀ (k : SVal) (key : Bytes), expectedKey k = some key →
    valSer fx k = .ok (.sc (.str key))
  | .str s, key, h => by simp only [expectedKey, Option.some.injEq] at h; subst h; simp only [valSer]
  | .unitVariant _ v, key, h => by simp only [expectedKey, Option.some.injEq] at h; subst h; simp only [valSer]
  | .newtype _ v, key, h => by
    simp only [expectedKey] at h; simp only [valSer]; exact valSer_key fx v key h
  | .bool _, _, h => by simp [expectedKey] at h
  | .int _ _, _, h => by simp [expectedKey] at h
  | .f32 _, _, h => by simp [expectedKey] at h
  | .f64 _, _, h => by simp [expectedKey] at h
  | .char _, _, h => by simp [expectedKey] at h
  | .bytes _, _, h => by simp [expectedKey] at h
  | .none, _, h => by simp [expectedKey] at h
  | .some _, _, h => by simp [expectedKey] at h
  | .unit, _, h => by simp [expectedKey] at h
  | .unitStruct _, _, h => by simp [expectedKey] at h
  | .seq _, _, h => by simp [expectedKey] at h
  | .tuple _, _, h => by simp [expectedKey] at h
  | .tupleStruct _ _, _, h => by simp [expectedKey] at h
  | .map _, _, h => by simp [expectedKey] at h
  | .struct _ _, _, h => by simp [expectedKey] at h
  | .newtypeVariant _ _ _, _, h => by simp [expectedKey] at h
  | .tupleVariant _ _ _, _, h => by simp [expectedKey] at h
  | .structVariant _ _ _, _, h => by simp [expectedKey] at h

mutual
theorem valSer_image (fx : ValFix) : ∀ (v : SVal) (t : V), expected v = some t →
    dtShape fx.dtAware v = true → valSer fx v = .ok t
  | .bool _, t, h, _ => by simp only [expected, Option.some.injEq] at h; subst h; simp only [valSer]
  | .int w n, t, h, _ => by
    simp only [expected, intOk] at h
    by_cases h1 : is128 w = true
    · simp [h1] at h
    · by_cases h2 : (w == IntW.u64 && decide (n > i64Max)) = true
      · simp [h1, h2] at h
      · simp [h1, h2] at h; subst h; simp [valSer, h1, h2]
  | .f32 _, t, h, _ => by simp only [expected, Option.some.injEq] at h; subst h; simp only [valSer]
  | .f64 _, t, h, _ => by simp only [expected, Option.some.injEq] at h; subst h; simp only [valSer]
  | .char _, t, h, _ => by simp only [expected, Option.some.injEq] at h; subst h; simp only [valSer]
  | .str _, t, h, _ => by simp only [expected, Option.some.injEq] at h; subst h; simp only [valSer]
  | .bytes _, t, h, _ => by simp only [expected, Option.some.injEq] at h; subst h; simp only [valSer]
  | .none, t, h, _ => by simp [expected] at h
  | .some v, t, h, hd => by
    simp only [expected] at h; simp only [valSer]
    exact valSer_image fx v t h (by simpa only [dtShape] using hd)
  | .unit, t, h, _ => by simp [expected] at h
  | .unitStruct _, t, h, _ => by simp [expected] at h
  | .newtype _ v, t, h, hd => by
    simp only [expected] at h; simp only [valSer]
    exact valSer_image fx v t h (by simpa only [dtShape] using hd)
  | .seq xs, t, h, hd => by
    simp only [expected] at h
    cases hl : expectedList xs with
    | none => rw [hl] at h; cases h
    | some l =>
      rw [hl] at h; simp only [Option.some.injEq] at h; subst h
      simp only [valSer, valSeq_image fx xs l hl (by simpa only [dtShape] using hd)]
  | .tuple xs, t, h, hd => by
    simp only [expected] at h
    cases hl : expectedList xs with
    | none => rw [hl] at h; cases h
    | some l =>
      rw [hl] at h; simp only [Option.some.injEq] at h; subst h
      simp only [valSer, valSeq_image fx xs l hl (by simpa only [dtShape] using hd)]
  | .tupleStruct _ xs, t, h, hd => by
    simp only [expected] at h
    cases hl : expectedList xs with
    | none => rw [hl] at h; cases h
    | some l =>
      rw [hl] at h; simp only [Option.some.injEq] at h; subst h
      simp only [valSer, valSeq_image fx xs l hl (by simpa only [dtShape] using hd)]
  | .map kvs, t, h, hd => by
    simp only [expected] at h
    cases hl : expectedMap kvs [] with
    | none => rw [hl] at h; cases h
    | some l =>
      rw [hl] at h; simp only [Option.some.injEq] at h; subst h
      simp only [valSer, valMap_image fx kvs [] l hl (by simpa only [dtShape] using hd)]
  | .struct name fs, t, h, hd => by
    simp only [expected] at h
    by_cases hn : (name == dtName) = true
    · -- a date-time struct as `toml_datetime::Datetime` produces it, and an aware serializer
      simp only [dtShape, hn, if_true, Bool.and_eq_true] at hd
      obtain ⟨haw, hfs⟩ := hd
      simp only [hn, if_true] at h
      match fs, hfs with
      | [(k, .str s)], hfs =>
        have hk : (k == dtField) = true := by simpa [isDtFields] using hfs
        simp only [expectedDatetime, hk, if_true] at h
        cases hp : Datetime.Std.fromStr s with
        | none => rw [hp] at h; cases h
        | some d =>
          rw [hp] at h; simp only [Option.some.injEq] at h; subst h
          have hk' : k = dtField := by simpa using hk
          subst hk'
          have e : valFields fx [(dtField, SVal.str s)] [] = .ok [(dtField, .sc (.str s))] := rfl
          have e2 : alookup dtField [(dtField, V.sc (Scalar.str s))] = some (.sc (.str s)) := by
            simp [alookup]
          simp only [valSer, e, haw, hn, Bool.and_self, if_true, valDatetime, e2, hp]
    · have hn' : (name == dtName) = false := by simpa using hn
      simp only [hn', Bool.false_eq_true, if_false] at h
      cases hl : expectedFields fs [] with
      | none => rw [hl] at h; cases h
      | some l =>
        rw [hl] at h; simp only [Option.some.injEq] at h; subst h
        have hd' : dtShapeFields fx.dtAware fs = true := by
          simpa only [dtShape, hn', Bool.false_eq_true, if_false] using hd
        simp only [valSer, hn', Bool.and_false, Bool.false_eq_true, if_false,
          valFields_image fx fs [] l hl hd']
  | .unitVariant _ _, t, h, _ => by simp only [expected, Option.some.injEq] at h; subst h; simp only [valSer]
  | .newtypeVariant _ vr v, t, h, hd => by
    simp only [expected] at h
    cases hx : expected v with
    | none => rw [hx] at h; cases h
    | some x =>
      rw [hx] at h; simp only [Option.some.injEq] at h; subst h
      simp only [valSer, valSer_image fx v x hx (by simpa only [dtShape] using hd)]
  | .tupleVariant _ vr xs, t, h, hd => by
    simp only [expected] at h
    cases hl : expectedList xs with
    | none => rw [hl] at h; cases h
    | some l =>
      rw [hl] at h; simp only [Option.some.injEq] at h; subst h
      simp only [valSer, valSeq_image fx xs l hl (by simpa only [dtShape] using hd)]
  | .structVariant _ vr fs, t, h, hd => by
    simp only [expected] at h
    cases hl : expectedFields fs [] with
    | none => rw [hl] at h; cases h
    | some l =>
      rw [hl] at h; simp only [Option.some.injEq] at h; subst h
      simp only [valSer, valFields_image fx fs [] l hl (by simpa only [dtShape] using hd)]
theorem valSeq_image (fx : ValFix) : ∀ (xs : List SVal) (l : List V), expectedList xs = some l →
    dtShapeList fx.dtAware xs = true → valSeq fx xs = .ok l
  | [], l, h, _ => by simp only [expectedList, Option.some.injEq] at h; subst h; simp only [valSeq]
  | x :: r, l, h, hd => by
    simp only [expectedList] at h
    have hd1 : dtShape fx.dtAware x = true ∧ dtShapeList fx.dtAware r = true := by
      simpa [dtShapeList] using hd
    cases hx : expected x with
    | none => rw [hx] at h; cases h
    | some v =>
      rw [hx] at h
      cases hr : expectedList r with
      | none => rw [hr] at h; cases h
      | some l' =>
        rw [hr] at h; simp only [Option.some.injEq] at h; subst h
        simp only [valSeq, valSer_image fx x v hx hd1.1, valSeq_image fx r l' hr hd1.2]
theorem valFields_image (fx : ValFix) : ∀ (fs : List (Bytes × SVal)) (acc l : List (Bytes × V)),
    expectedFields fs acc = some l → dtShapeFields fx.dtAware fs = true → valFields fx fs acc = .ok l
  | [], acc, l, h, _ => by simp only [expectedFields, Option.some.injEq] at h; subst h; simp only [valFields]
  | (k, v) :: r, acc, l, h, hd => by
    have hd1 : dtShape fx.dtAware v = true ∧ dtShapeFields fx.dtAware r = true := by
      simpa [dtShapeFields] using hd
    by_cases hn : v = .none
    · subst hn
      simp only [expectedFields] at h
      simp only [valFields]
      exact valFields_image fx r acc l h hd1.2
    · have e1 : valFields fx ((k, v) :: r) acc =
          (match valSer fx v with
           | .error .unsupportedNone => if fx.strictNone then .error .unsupportedNone else valFields fx r acc
           | .error e => .error e
           | .ok x => valFields fx r (aset k x acc)) := by
        cases v <;> first | exact absurd rfl hn | rfl
      have e2 : expectedFields ((k, v) :: r) acc =
          (match expected v with | none => none | some x => expectedFields r (aset k x acc)) := by
        cases v <;> first | exact absurd rfl hn | rfl
      rw [e2] at h
      cases hx : expected v with
      | none => rw [hx] at h; cases h
      | some x =>
        rw [hx] at h
        rw [e1, valSer_image fx v x hx hd1.1]
        exact valFields_image fx r _ l h hd1.2
theorem valMap_image (fx : ValFix) : ∀ (kvs : List (SVal × SVal)) (acc l : List (Bytes × V)),
    expectedMap kvs acc = some l → dtShapeMap fx.dtAware kvs = true → valMap fx kvs acc = .ok l
  | [], acc, l, h, _ => by simp only [expectedMap, Option.some.injEq] at h; subst h; rfl
  | (k, v) :: r, acc, l, h, hd => by
    have hd1 : dtShape fx.dtAware v = true ∧ dtShapeMap fx.dtAware r = true := by
      simpa [dtShapeMap] using hd
    by_cases hn : v = .none
    · subst hn
      simp only [expectedMap] at h
      cases hk : expectedKey k with
      | none => rw [hk] at h; cases h
      | some key =>
        rw [hk] at h
        have e0 : valMap fx ((k, SVal.none) :: r) acc =
            (match valSer fx k with
             | .error e => .error e
             | .ok kv =>
               match strOfV kv with
               | none => .error .keyNotString
               | some _ => valMap fx r acc) := rfl
        rw [e0, valSer_key fx k key hk]
        simp only [strOfV]
        exact valMap_image fx r acc l h hd1.2
    · have e1 : valMap fx ((k, v) :: r) acc =
          (match valSer fx k with
           | .error e => .error e
           | .ok kv =>
             match strOfV kv with
             | none => .error .keyNotString
             | some key =>
               match valSer fx v with
               | .error .unsupportedNone => if fx.strictNone then .error .unsupportedNone else valMap fx r acc
               | .error e => .error e
               | .ok x => valMap fx r (aset key x acc)) := by
        cases v <;> first | exact absurd rfl hn | rfl
      have e2 : expectedMap ((k, v) :: r) acc =
          (match expectedKey k with
           | none => none
           | some key => match expected v with | none => none | some x => expectedMap r (aset key x acc)) := by
        cases v <;> first | exact absurd rfl hn | rfl
      rw [e2] at h
      cases hk : expectedKey k with
      | none => rw [hk] at h; cases h
      | some key =>
        rw [hk] at h
        cases hx : expected v with
        | none => rw [hx] at h; cases h
        | some x =>
          rw [hx] at h
          rw [e1, valSer_key fx k key hk, valSer_image fx v x hx hd1.1]
          simp only [strOfV]
          exact valMap_image fx r _ l h hd1.2
end

end TomlVerif.Lemmas.Ser07
