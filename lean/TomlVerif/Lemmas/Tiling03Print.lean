import TomlVerif.Lemmas.Tiling03Root
/-! The printer on "flat" documents (C03, header case, printer half): root values followed by
    top-level `[t]` / `[[t]]` sections whose recorded positions increase print as the
    concatenation of the sections in order. -/
namespace TomlVerif.Lemmas.Tiling03
open TomlVerif TomlVerif.Spec TomlVerif.Model TomlVerif.Model.Strings TomlVerif.Model.Value
open TomlVerif.Model.Cst TomlVerif.Model.Encode TomlVerif.Lemmas.Cst03

/-- a table written by one header line: explicit, not dotted, with a position and full decor,
    holding only simple values -/
def leafTbl : CTbl → Bool
  | .mk items imp dot p dec _ => !imp && !dot && p.isSome && dec.pre.isSome && dec.suf.isSome && simpleBody items

/-- root items: simple values, `[t]` tables, `[[t]]` arrays with one element -/
def flatItems : List (CKey × CItem) → Bool
  | [] => true
  | (_, .value v) :: r => simpleVal v && flatItems r
  | (_, .table t) :: r => leafTbl t && flatItems r
  | (_, .aot [t] _) :: r => leafTbl t && flatItems r
  | (_, .aot _ _) :: _ => false

/-- the entries `visit_nested_tables` collects below the root of a flat document -/
def entriesOf : List (CKey × CItem) → List Entry
  | [] => []
  | (_, .value _) :: r => entriesOf r
  | (k, .table t) :: r => ⟨t.pos.getD 0, t, [k], false⟩ :: entriesOf r
  | (k, .aot [t] _) :: r => ⟨t.pos.getD 0, t, [k], true⟩ :: entriesOf r
  | (_, .aot _ _) :: r => entriesOf r

/-- positions are non-decreasing along the list, starting from `lo` -/
def sortedFrom : Nat → List Entry → Bool
  | _, [] => true
  | lo, e :: r => decide (lo ≤ e.pos) && sortedFrom e.pos r

theorem insertEntry_sorted (e : Entry) (l : List Entry) (h : sortedFrom e.pos l = true) :
    insertEntry e l = e :: l := by
  cases l with
  | nil => rfl
  | cons x r =>
    simp only [sortedFrom, Bool.and_eq_true, decide_eq_true_eq] at h
    simp [insertEntry, h.1]

theorem sortEntries_sorted : ∀ (lo : Nat) (l : List Entry), sortedFrom lo l = true → sortEntries l = l
  | _, [], _ => rfl
  | lo, e :: r, h => by
    simp only [sortedFrom, Bool.and_eq_true] at h
    have ih := sortEntries_sorted e.pos r h.2
    unfold sortEntries at ih ⊢
    rw [List.foldr_cons, ih]
    exact insertEntry_sorted e r h.2

theorem visitTbl_leaf (t : CTbl) (path : List CKey) (isArr : Bool) (st : Nat × List Entry)
    (h : leafTbl t = true) : (visitTbl t path isArr st).2 = st.2 ++ [⟨t.pos.getD 0, t, path, isArr⟩] := by
  obtain ⟨items, imp, dot, p, dec, sp⟩ := t
  simp only [leafTbl, Bool.and_eq_true, Bool.not_eq_true'] at h
  obtain ⟨⟨⟨⟨⟨_, hdot⟩, hp⟩, _⟩, _⟩, hb⟩ := h
  subst hdot
  cases p with
  | none => simp at hp
  | some q =>
    simp only [visitTbl, visitItems_simple items path _ hb]
    simp [CTbl.pos]

theorem visitItems_flat : ∀ (items : List (CKey × CItem)) (st : Nat × List Entry), flatItems items = true →
    (visitItems items [] st).2 = st.2 ++ entriesOf items
  | [], st, _ => by simp [visitItems, entriesOf]
  | (k, .value v) :: r, st, h => by
    simp only [flatItems, Bool.and_eq_true] at h
    rw [visitItems, visitItems_flat r st h.2]; simp [entriesOf]
  | (k, .table t) :: r, st, h => by
    simp only [flatItems, Bool.and_eq_true] at h
    rw [visitItems, visitItems_flat r _ h.2, List.nil_append, visitTbl_leaf t [k] false st h.1]
    simp [entriesOf]
  | (k, .aot [] _) :: r, st, h => by simp [flatItems] at h
  | (k, .aot [t] _) :: r, st, h => by
    simp only [flatItems, Bool.and_eq_true] at h
    rw [visitItems, visitItems_flat r _ h.2, List.nil_append]
    simp only [visitAot]
    rw [visitTbl_leaf t [k] true st h.1]
    simp [entriesOf]
  | (k, .aot (_ :: _ :: _) _) :: r, st, h => by simp [flatItems] at h

theorem valuesTbl_flat_append_table (k : CKey) (t : CTbl) (h : leafTbl t = true) (r : List (CKey × CItem)) (p : List CKey) :
    valuesTbl ((k, .table t) :: r) p = valuesTbl r p := by
  obtain ⟨items, imp, dot, q, dec, sp⟩ := t
  simp only [leafTbl, Bool.and_eq_true, Bool.not_eq_true'] at h
  obtain ⟨⟨⟨⟨⟨_, hdot⟩, _⟩, _⟩, _⟩, _⟩ := h
  subst hdot
  simp [valuesTbl, valuesDotted]

/-- one section: header line and body -/
def sectionText (f : Bytes → Bytes) (inp : Bytes) (e : Entry) : Bytes :=
  prefixEncode f inp e.tbl.decor [] ++ (if e.isArr then [0x5B, 0x5B] else [0x5B])
    ++ encodeKeyPath f inp e.path [] [] ++ (if e.isArr then [0x5D, 0x5D] else [0x5D])
    ++ suffixEncode f inp e.tbl.decor [] ++ [0x0A] ++ encodeBody f inp (valuesTbl e.tbl.items [])

def sectionsText (f : Bytes → Bytes) (inp : Bytes) : List Entry → Bytes
  | [] => []
  | e :: r => sectionText f inp e ++ sectionsText f inp r

theorem visitTable_leaf (f : Bytes → Bytes) (inp : Bytes) (e : Entry) (ft : Bool)
    (hl : leafTbl e.tbl = true) (hp : e.path ≠ []) :
    visitTable f inp e ft = (sectionText f inp e, false) := by
  obtain ⟨pos, t, path, isArr⟩ := e
  obtain ⟨items, imp, dot, q, dec, sp⟩ := t
  simp only [leafTbl, Bool.and_eq_true, Bool.not_eq_true'] at hl
  obtain ⟨⟨⟨⟨⟨himp, _⟩, _⟩, hpre⟩, hsuf⟩, _⟩ := hl
  subst himp
  have hpe : path.isEmpty = false := by
    cases path with
    | nil => exact absurd rfl hp
    | cons a b => rfl
  obtain ⟨pre, suf⟩ := dec
  cases pre with
  | none => simp at hpre
  | some pre =>
    cases suf with
    | none => simp at hsuf
    | some suf =>
      cases isArr <;>
        simp [visitTable, sectionText, hpe, CTbl.implicit, CTbl.decor, CTbl.items, prefixEncode, suffixEncode]

theorem visitTables_leaves (f : Bytes → Bytes) (inp : Bytes) : ∀ (l : List Entry) (ft : Bool),
    (∀ e ∈ l, leafTbl e.tbl = true ∧ e.path ≠ []) → visitTables f inp l ft = sectionsText f inp l
  | [], _, _ => rfl
  | e :: r, ft, h => by
    obtain ⟨h1, h2⟩ := h e (by simp)
    simp only [visitTables, visitTable_leaf f inp e ft h1 h2, sectionsText]
    rw [visitTables_leaves f inp r false (fun x hx => h x (List.mem_cons_of_mem _ hx))]

theorem entriesOf_leaves : ∀ (items : List (CKey × CItem)), flatItems items = true →
    ∀ e ∈ entriesOf items, leafTbl e.tbl = true ∧ e.path ≠ []
  | [], _, e, he => by simp [entriesOf] at he
  | (k, .value v) :: r, h, e, he => by
    simp only [flatItems, Bool.and_eq_true] at h
    exact entriesOf_leaves r h.2 e (by simpa [entriesOf] using he)
  | (k, .table t) :: r, h, e, he => by
    simp only [flatItems, Bool.and_eq_true] at h
    simp only [entriesOf, List.mem_cons] at he
    rcases he with he | he
    · subst he; exact ⟨h.1, by simp⟩
    · exact entriesOf_leaves r h.2 e he
  | (k, .aot [] _) :: r, h, _, _ => by simp [flatItems] at h
  | (k, .aot [t] _) :: r, h, e, he => by
    simp only [flatItems, Bool.and_eq_true] at h
    simp only [entriesOf, List.mem_cons] at he
    rcases he with he | he
    · subst he; exact ⟨h.1, by simp⟩
    · exact entriesOf_leaves r h.2 e he
  | (k, .aot (_ :: _ :: _) _) :: r, h, _, _ => by simp [flatItems] at h

/-- the values of the root of a flat document -/
def rootValues : List (CKey × CItem) → List (CKey × CItem)
  | [] => []
  | (k, .value v) :: r => (k, .value v) :: rootValues r
  | (_, .table _) :: r => rootValues r
  | (_, .aot _ _) :: r => rootValues r

theorem valuesTbl_flat : ∀ (items : List (CKey × CItem)), flatItems items = true →
    valuesTbl items [] = valuesTbl (rootValues items) []
  | [], _ => rfl
  | (k, .value v) :: r, h => by
    simp only [flatItems, Bool.and_eq_true] at h
    have ih := valuesTbl_flat r h.2
    have e1 := valuesTbl_append [(k, CItem.value v)] r []
    have e2 := valuesTbl_append [(k, CItem.value v)] (rootValues r) []
    simp only [List.cons_append, List.nil_append] at e1 e2
    rw [rootValues, e1, e2, ih]
  | (k, .table t) :: r, h => by
    simp only [flatItems, Bool.and_eq_true] at h
    rw [valuesTbl_flat_append_table k t h.1, rootValues, valuesTbl_flat r h.2]
  | (k, .aot [] _) :: r, h => by simp [flatItems] at h
  | (k, .aot [t] _) :: r, h => by
    simp only [flatItems, Bool.and_eq_true] at h
    have : valuesTbl ((k, CItem.aot [t] ‹_›) :: r) [] = valuesTbl r [] := by simp [valuesTbl]
    rw [this, rootValues, valuesTbl_flat r h.2]
  | (k, .aot (_ :: _ :: _) _) :: r, h => by simp [flatItems] at h

/-- the printer on a flat document whose sections are in position order: root values, then the
    sections in the order of the item list, then the trailing text -/
theorem printDocG_flat (f : Bytes → Bytes) (inp : Bytes) (items : List (CKey × CItem)) (imp : Bool)
    (sp : Option Span) (tr : Raw) (h : flatItems items = true) (hs : sortedFrom 0 (entriesOf items) = true) :
    printDocG f inp ⟨.mk items imp false none {} sp, tr⟩ =
      encodeBody f inp (valuesTbl (rootValues items) []) ++ sectionsText f inp (entriesOf items) ++ encRaw f inp tr := by
  unfold printDocG
  simp only [visitTbl]
  rw [visitItems_flat items _ h]
  have hsorted : sortedFrom 0 ([(⟨0, .mk items imp false none {} sp, [], false⟩ : Entry)] ++ entriesOf items) = true := by
    simp [sortedFrom, hs]
  simp only [Option.getD_none, List.nil_append, Bool.false_eq_true, ↓reduceIte]
  rw [sortEntries_sorted 0 _ hsorted]
  simp only [List.cons_append, List.nil_append, visitTables]
  rw [visitTables_leaves f inp _ _ (entriesOf_leaves items h)]
  simp [visitTable, CTbl.items, CTbl.decor, prefixEncode, suffixEncode, valuesTbl_flat items h]

end TomlVerif.Lemmas.Tiling03
