import TomlVerif.Lemmas.DeTyped13b
/-! Lemmas for Props/C13Typed, part 3: each of the three switches only removes successes — a decoder that succeeds as the
    code stands succeeds with the same value when the switches are off (`edit_mono`, `value_mono`). -/
namespace TomlVerif.Lemmas.DeTyped13
open TomlVerif TomlVerif.Model TomlVerif.Model.TomlValue TomlVerif.Model.DeRoutes
open TomlVerif.Model.DeText (presOfItem presOfVal presOfTbl presOfVals presOfValPairs presOfTbls presOfItems)
open TomlVerif.Model.DeTyped TomlVerif.Lemmas.DeRoutes13

theorem fail_ne_ok {α} {d : α} : (fail : R α) = .ok d → False := by
  intro h; cases h

/-- `Le x y`: whenever `x` succeeds, `y` succeeds with the same value -/
def Le {α} (x y : R α) : Prop := ∀ d, x = .ok d → y = .ok d

theorem le_refl {α} (x : R α) : Le x x := fun _ h => h

theorem le_fail {α} (y : R α) : Le fail y := fun _ h => (fail_ne_ok h).elim

theorem le_of_eq {α} {x y : R α} (h : x = y) : Le x y := fun _ hd => h ▸ hd

theorem le_rmap {α β} (f : α → β) {x y : R α} (h : Le x y) : Le (rmap f x) (rmap f y) := by
  intro d hd
  cases hx : x with
  | error e => rw [hx] at hd; cases hd
  | ok a => rw [hx] at hd; rw [h a hx]; exact hd

theorem le_rcons {α} {x y : R α} {l m : R (List α)} (h : Le x y) (hl : Le l m) : Le (rcons x l) (rcons y m) := by
  intro d hd
  cases hx : x with
  | error e => rw [hx] at hd; cases hd
  | ok a =>
    cases hl' : l with
    | error e => rw [hx, hl'] at hd; cases hd
    | ok as => rw [hx, hl'] at hd; rw [h a hx, hl as hl']; exact hd

theorem le_mapE {α β} (f g : α → R β) (l : List α) (h : ∀ a ∈ l, Le (f a) (g a)) : Le (mapE f l) (mapE g l) := by
  induction l with
  | nil => exact le_refl _
  | cons a r ih =>
    simp only [mapE]
    exact le_rcons (h a (by simp)) (ih fun x hx => h x (by simp [hx]))

theorem le_ite_fail {α} {b b' : Bool} {x y : R α} (hb : b' = true → b = true) (h : Le x y) :
    Le (if b then fail else x) (if b' then fail else y) := by
  cases b <;> cases b' <;> simp at hb ⊢
  · exact h
  · exact le_fail _
  · exact le_fail _

theorem le_ofOpt {α} {x y : Option α} (h : ∀ a, x = some a → y = some a) : Le (ofOpt x) (ofOpt y) := by
  intro d hd
  cases hx : x with
  | none => rw [hx] at hd; cases hd
  | some a => rw [hx] at hd; rw [h a hx]; exact hd

/-! the non-strict visitor accepts whatever the strict one accepts, with the same value -/
mutual
theorem visitValue_mono (fl : Flavour) : ∀ (p : Pres) (w : TV),
    visitValue fl true p = some w → visitValue fl false p = some w
  | .bool _, w, h => by simpa [visitValue] using h
  | .i64 _, w, h => by simpa [visitValue] using h
  | .f64 _, w, h => by simpa [visitValue] using h
  | .string _, w, h => by simpa [visitValue] using h
  | .seq l, w, h => by
    simp only [visitValue] at h ⊢
    cases hl : visitList fl true l with
    | none => rw [hl] at h; cases h
    | some x => rw [hl] at h; rw [visitList_mono fl l x hl]; exact h
  | .map [], w, h => by simpa [visitValue] using h
  | .map ((k, p) :: r), w, h => by
    unfold visitValue at h ⊢
    by_cases hk : (k == FIELD) = true
    · simp only [hk, if_true] at h ⊢
      cases p with
      | string s =>
        simp only [Bool.true_and, Bool.false_and, Bool.false_eq_true, if_false] at h ⊢
        split at h
        · cases h
        · exact h
      | bool _ => cases h
      | i64 _ => cases h
      | f64 _ => cases h
      | seq _ => cases h
      | map _ => cases h
    · simp only [hk, Bool.false_eq_true, if_false] at h ⊢
      cases hv : visitValue fl true p with
      | none => rw [hv] at h; cases h
      | some v =>
        cases hr : visitPairs fl true r with
        | none => rw [hv, hr] at h; cases h
        | some rest =>
          rw [hv, hr] at h
          rw [visitValue_mono fl p v hv, visitPairs_mono fl r rest hr]
          exact h
theorem visitList_mono (fl : Flavour) : ∀ (l : List Pres) (w : List TV),
    visitList fl true l = some w → visitList fl false l = some w
  | [], w, h => by simpa [visitList] using h
  | p :: r, w, h => by
    simp only [visitList] at h ⊢
    cases hv : visitValue fl true p with
    | none => rw [hv] at h; cases h
    | some v =>
      cases hr : visitList fl true r with
      | none => rw [hv, hr] at h; cases h
      | some rest =>
        rw [hv, hr] at h
        rw [visitValue_mono fl p v hv, visitList_mono fl r rest hr]
        exact h
theorem visitPairs_mono (fl : Flavour) : ∀ (l : List (Bytes × Pres)) (w : List (Bytes × TV)),
    visitPairs fl true l = some w → visitPairs fl false l = some w
  | [], w, h => by simpa [visitPairs] using h
  | (k, p) :: r, w, h => by
    simp only [visitPairs] at h ⊢
    cases hv : visitValue fl true p with
    | none => rw [hv] at h; cases h
    | some v =>
      cases hr : visitPairs fl true r with
      | none => rw [hv, hr] at h; cases h
      | some rest =>
        rw [hv, hr] at h
        rw [visitValue_mono fl p v hv, visitPairs_mono fl r rest hr]
        exact h
end


theorem le_ite {α} {b : Bool} {x y x' y' : R α} (h1 : Le x y) (h2 : Le x' y') :
    Le (if b then x else x') (if b then y else y') := by
  cases b <;> simp
  · exact h2
  · exact h1

theorem lenient_check : valueLenient.trailingCheck = false := rfl
theorem lenient_validate : editLenient.validateVariantKeys = false := rfl
theorem lenient_strde : editLenient.dtValueViaSerdeString = false := rfl

/-! ### `impl Deserializer for toml::Value` -/

mutual
theorem value_mono (c : ValueCfg) (fl : Flavour) : ∀ (ty : Ty) (v : TV),
    Le (decodeValue c fl ty v) (decodeValue valueLenient fl ty v)
  | .bool, v => by unfold decodeValue; exact le_refl _
  | .int _ _, v => by unfold decodeValue; exact le_refl _
  | .f64, v => by unfold decodeValue; exact le_refl _
  | .f32, v => by unfold decodeValue; exact le_refl _
  | .string, v => by unfold decodeValue; exact le_refl _
  | .char, v => by unfold decodeValue; exact le_refl _
  | .unit, v => by unfold decodeValue; exact le_refl _
  | .datetime, v => by
    unfold decodeValue
    cases v <;> first | exact le_refl _ | exact le_ite_fail (by simp [lenient_check]) (le_refl _)
  | .date, v => by
    unfold decodeValue
    cases v <;> first | exact le_refl _ | exact le_ite_fail (by simp [lenient_check]) (le_refl _)
  | .time, v => by
    unfold decodeValue
    cases v <;> first | exact le_refl _ | exact le_ite_fail (by simp [lenient_check]) (le_refl _)
  | .value, v => by
    unfold decodeValue
    apply le_rmap; apply le_ofOpt
    intro a h
    rw [lenient_check]
    cases hc : c.trailingCheck with
    | false => rw [hc] at h; exact h
    | true => rw [hc] at h; exact visitValue_mono fl _ a h
  | .ignored, v => by unfold decodeValue; exact le_refl _
  | .option t, v => by unfold decodeValue; exact le_rmap _ (value_mono c fl t v)
  | .newtype t, v => by unfold decodeValue; exact le_rmap _ (value_mono c fl t v)
  | .seq t, v => by
    unfold decodeValue
    cases v <;> first | exact le_fail _ | exact le_rmap _ (le_mapE _ _ _ fun a _ => value_mono c fl t a)
  | .tuple ts, v => by
    unfold decodeValue
    cases v <;> first
      | exact le_fail _
      | exact le_ite_fail (by simp [lenient_check]) (le_rmap _ (value_mono_tys c fl ts _))
  | .map t, v => by
    unfold decodeValue
    cases valueMapEntries v with
    | none => exact le_fail _
    | some es => exact le_rmap _ (le_mapE _ _ _ fun kv _ => le_rmap _ (value_mono c fl t kv.2))
  | .struct fs, v => by
    unfold decodeValue
    cases valueMapEntries v with
    | some es => exact le_ite (le_fail _) (le_rmap _ (value_mono_fields c fl fs es))
    | none =>
      cases v <;> first
        | exact le_fail _
        | exact le_ite_fail (by simp [lenient_check]) (le_rmap _ (value_mono_fields_seq c fl fs _))
  | .enum vs, v => by
    unfold decodeValue
    cases v with
    | tbl es =>
      match es with
      | [] => exact le_refl _
      | [(k, p)] => exact value_mono_variants c fl vs k p
      | _ :: _ :: _ => exact le_refl _
    | _ => exact le_refl _
theorem value_mono_tys (c : ValueCfg) (fl : Flavour) : ∀ (ts : Tys) (l : List TV),
    Le (decodeValueTys c fl ts l) (decodeValueTys valueLenient fl ts l)
  | .nil, l => by unfold decodeValueTys; exact le_refl _
  | .cons t r, [] => by unfold decodeValueTys; exact le_refl _
  | .cons t r, i :: l => by
    unfold decodeValueTys
    exact le_rcons (value_mono c fl t i) (value_mono_tys c fl r l)
theorem value_mono_fields (c : ValueCfg) (fl : Flavour) : ∀ (fs : Fields) (es : List (Bytes × TV)),
    Le (decodeValueFields c fl fs es) (decodeValueFields valueLenient fl fs es)
  | .nil, es => by unfold decodeValueFields; exact le_refl _
  | .cons name t dflt r, es => by
    unfold decodeValueFields
    refine le_rcons (le_rmap _ ?_) (value_mono_fields c fl r es)
    cases alookup name es with
    | none => exact le_refl _
    | some i => exact value_mono c fl t i
theorem value_mono_fields_seq (c : ValueCfg) (fl : Flavour) : ∀ (fs : Fields) (l : List TV),
    Le (decodeValueFieldsSeq c fl fs l) (decodeValueFieldsSeq valueLenient fl fs l)
  | .nil, l => by unfold decodeValueFieldsSeq; exact le_refl _
  | .cons name t dflt r, [] => by
    unfold decodeValueFieldsSeq
    exact le_ite (le_rmap _ (value_mono_fields_seq c fl r [])) (le_refl _)
  | .cons name t dflt r, i :: l => by
    unfold decodeValueFieldsSeq
    exact le_rcons (le_rmap _ (value_mono c fl t i)) (value_mono_fields_seq c fl r l)
theorem value_mono_variants (c : ValueCfg) (fl : Flavour) : ∀ (vs : Variants) (k : Bytes) (p : TV),
    Le (decodeValueVariants c fl vs k p) (decodeValueVariants valueLenient fl vs k p)
  | .nil, k, p => by unfold decodeValueVariants; exact le_refl _
  | .cons name s r, k, p => by
    unfold decodeValueVariants
    exact le_ite (value_mono_shape c fl s name p) (value_mono_variants c fl r k p)
theorem value_mono_shape (c : ValueCfg) (fl : Flavour) : ∀ (s : Shape) (n : Bytes) (p : TV),
    Le (decodeValueShape c fl s n p) (decodeValueShape valueLenient fl s n p)
  | .unit, n, p => by unfold decodeValueShape; exact le_refl _
  | .newtype t, n, p => by unfold decodeValueShape; exact le_rmap _ (value_mono c fl t p)
  | .tuple ts, n, p => by
    unfold decodeValueShape
    cases p <;> first
      | exact le_fail _
      | exact le_ite (le_rmap _ (value_mono_tys c fl ts _)) (le_refl _)
  | .struct fs, n, p => by
    unfold decodeValueShape
    cases valueMapEntries p with
    | some es => exact le_ite (le_fail _) (le_rmap _ (value_mono_fields c fl fs es))
    | none =>
      cases p <;> first
        | exact le_fail _
        | exact le_ite_fail (by simp [lenient_check]) (le_rmap _ (value_mono_fields_seq c fl fs _))
end


/-! ### `toml_edit::de::ValueDeserializer` -/

/-- whatever serde's `StringDeserializer` lets a type read, `ValueDeserializer` on a string item lets it read too -/
theorem strde_le (c : EditCfg) (fl : Flavour) (t : Ty) (s : Bytes) :
    Le (decodeStrDe t s) (decodeEdit c fl t (strItem s)) := by
  cases t <;> unfold decodeStrDe decodeEdit <;>
    first
      | exact le_fail _
      | exact le_refl _
      | (simp [strItem, presOfItem, presOfVal, visitValue, rmap, ofOpt]; exact le_refl _)

mutual
theorem edit_mono (c : EditCfg) (fl : Flavour) : ∀ (ty : Ty) (it : Item),
    Le (decodeEdit c fl ty it) (decodeEdit editLenient fl ty it)
  | .bool, it => by unfold decodeEdit; exact le_refl _
  | .int _ _, it => by unfold decodeEdit; exact le_refl _
  | .f64, it => by unfold decodeEdit; exact le_refl _
  | .f32, it => by unfold decodeEdit; exact le_refl _
  | .string, it => by unfold decodeEdit; exact le_refl _
  | .char, it => by unfold decodeEdit; exact le_refl _
  | .unit, it => by unfold decodeEdit; exact le_refl _
  | .datetime, it => by unfold decodeEdit; exact le_refl _
  | .date, it => by unfold decodeEdit; exact le_refl _
  | .time, it => by unfold decodeEdit; exact le_refl _
  | .value, it => by unfold decodeEdit; exact le_refl _
  | .ignored, it => by unfold decodeEdit; exact le_refl _
  | .option t, it => by unfold decodeEdit; exact le_rmap _ (edit_mono c fl t it)
  | .newtype t, it => by unfold decodeEdit; exact le_rmap _ (edit_mono c fl t it)
  | .seq t, it => by
    unfold decodeEdit
    cases itemElems it with
    | none => exact le_fail _
    | some l => exact le_rmap _ (le_mapE _ _ _ fun a _ => edit_mono c fl t a)
  | .tuple ts, it => by
    unfold decodeEdit
    cases itemElems it with
    | none => exact le_fail _
    | some l => exact le_rmap _ (edit_mono_tys c fl ts l)
  | .map t, it => by
    unfold decodeEdit
    cases editMapEntries it with
    | none => exact le_fail _
    | some es =>
      refine le_rmap _ (le_mapE _ _ _ fun kv _ => le_rmap _ ?_)
      obtain ⟨k, src⟩ := kv
      cases src with
      | item i => exact edit_mono c fl t i
      | str s =>
        simp only [lenient_strde, Bool.false_eq_true, if_false]
        cases c.dtValueViaSerdeString with
        | false => exact edit_mono c fl t (strItem s)
        | true => exact strde_le editLenient fl t s
  | .struct fs, it => by
    unfold decodeEdit
    cases editMapEntries it with
    | some es => exact le_ite (le_fail _) (le_rmap _ (edit_mono_fields c fl fs es))
    | none =>
      cases itemElems it with
      | none => exact le_fail _
      | some l => exact le_rmap _ (edit_mono_fields_seq c fl fs l)
  | .enum vs, it => by
    unfold decodeEdit
    split
    · exact le_refl _
    · cases itemEntries it with
      | none => exact le_refl _
      | some es =>
        match es with
        | [] => exact le_refl _
        | [(k, p)] => exact edit_mono_variants c fl vs k p
        | _ :: _ :: _ => exact le_refl _
theorem edit_mono_tys (c : EditCfg) (fl : Flavour) : ∀ (ts : Tys) (l : List Item),
    Le (decodeEditTys c fl ts l) (decodeEditTys editLenient fl ts l)
  | .nil, l => by unfold decodeEditTys; exact le_refl _
  | .cons t r, [] => by unfold decodeEditTys; exact le_refl _
  | .cons t r, i :: l => by
    unfold decodeEditTys
    exact le_rcons (edit_mono c fl t i) (edit_mono_tys c fl r l)
theorem edit_mono_fields (c : EditCfg) (fl : Flavour) : ∀ (fs : Fields) (es : List (Bytes × ESrc)),
    Le (decodeEditFields c fl fs es) (decodeEditFields editLenient fl fs es)
  | .nil, es => by unfold decodeEditFields; exact le_refl _
  | .cons name t dflt r, es => by
    unfold decodeEditFields
    refine le_rcons (le_rmap _ ?_) (edit_mono_fields c fl r es)
    cases alookup name es with
    | none => exact le_refl _
    | some src =>
      cases src with
      | item i => exact edit_mono c fl t i
      | str s =>
        simp only [lenient_strde, Bool.false_eq_true, if_false]
        cases c.dtValueViaSerdeString with
        | false => exact edit_mono c fl t (strItem s)
        | true => exact strde_le editLenient fl t s
theorem edit_mono_fields_seq (c : EditCfg) (fl : Flavour) : ∀ (fs : Fields) (l : List Item),
    Le (decodeEditFieldsSeq c fl fs l) (decodeEditFieldsSeq editLenient fl fs l)
  | .nil, l => by unfold decodeEditFieldsSeq; exact le_refl _
  | .cons name t dflt r, [] => by
    unfold decodeEditFieldsSeq
    exact le_ite (le_rmap _ (edit_mono_fields_seq c fl r [])) (le_refl _)
  | .cons name t dflt r, i :: l => by
    unfold decodeEditFieldsSeq
    exact le_rcons (le_rmap _ (edit_mono c fl t i)) (edit_mono_fields_seq c fl r l)
theorem edit_mono_variants (c : EditCfg) (fl : Flavour) : ∀ (vs : Variants) (k : Bytes) (p : Item),
    Le (decodeEditVariants c fl vs k p) (decodeEditVariants editLenient fl vs k p)
  | .nil, k, p => by unfold decodeEditVariants; exact le_refl _
  | .cons name s r, k, p => by
    unfold decodeEditVariants
    exact le_ite (edit_mono_shape c fl s name p) (edit_mono_variants c fl r k p)
theorem edit_mono_shape (c : EditCfg) (fl : Flavour) : ∀ (s : Shape) (n : Bytes) (p : Item),
    Le (decodeEditShape c fl s n p) (decodeEditShape editLenient fl s n p)
  | .unit, n, p => by unfold decodeEditShape; exact le_refl _
  | .newtype t, n, p => by unfold decodeEditShape; exact le_rmap _ (edit_mono c fl t p)
  | .tuple ts, n, p => by
    unfold decodeEditShape
    cases itemElems p with
    | some l => exact le_ite (le_rmap _ (edit_mono_tys c fl ts l)) (le_refl _)
    | none =>
      cases itemEntries p with
      | none => exact le_refl _
      | some es => exact le_ite (le_rmap _ (edit_mono_tys c fl ts _)) (le_refl _)
  | .struct fs, n, p => by
    unfold decodeEditShape
    refine le_ite_fail (by simp [lenient_validate]) ?_
    cases editMapEntries p with
    | some es => exact le_ite (le_fail _) (le_rmap _ (edit_mono_fields c fl fs es))
    | none =>
      cases itemElems p with
      | none => exact le_fail _
      | some l => exact le_rmap _ (edit_mono_fields_seq c fl fs l)
end

end TomlVerif.Lemmas.DeTyped13
