import TomlVerif.Lemmas.Edit08
import TomlVerif.Lemmas.Cst03
/-! Printing is stable under growth of the arena: the text `encodeValue` / `encodeKeyPath` produce
    for a subtree whose spans all end inside `inp` is the same over `inp ++ x`. -/
namespace TomlVerif.Lemmas.Refine08bPrint
open TomlVerif TomlVerif.Model TomlVerif.Model.Cst TomlVerif.Model.Edit TomlVerif.Model.Encode
open TomlVerif.Lemmas.Edit08 TomlVerif.Lemmas.Cst03

/-- every span of the list ends at or before offset `n` -/
def EndsIn (n : Nat) (l : List Span) : Prop := ∀ sp ∈ l, sp.2 ≤ n

@[simp] theorem endsIn_nil (n : Nat) : EndsIn n [] := by simp [EndsIn]

@[simp] theorem endsIn_append (n : Nat) (a b : List Span) : EndsIn n (a ++ b) ↔ EndsIn n a ∧ EndsIn n b := by
  simp [EndsIn, List.mem_append, or_imp, forall_and]

theorem endsIn_mono {n m : Nat} {l : List Span} (h : EndsIn n l) (hm : n ≤ m) : EndsIn m l :=
  fun sp hs => Nat.le_trans (h sp hs) hm

/-- `AllW 0 n` (Lemmas/Cst03.lean, the bound of `T14_bounds_statement`) implies `EndsIn n` -/
theorem endsIn_of_allW {n : Nat} {l : List Span} (h : AllW 0 n l) : EndsIn n l :=
  fun sp hs => (h sp hs).2.2

variable (f : Bytes → Bytes) (inp x : Bytes)

theorem rawText_app (r : Raw) (h : EndsIn inp.length (rawSp r)) : rawText (inp ++ x) r = rawText inp r := by
  cases r with
  | empty => rfl
  | spanned a b =>
    simp only [rawText]
    exact slice_append inp x a b (h (a, b) (by simp [rawSp]))

theorem encRaw_app (r : Raw) (h : EndsIn inp.length (rawSp r)) : encRaw f (inp ++ x) r = encRaw f inp r := by
  simp only [encRaw, rawText_app inp x r h]

theorem prefixEncode_app (d : Decor) (dflt : Bytes) (h : EndsIn inp.length (decorSp d)) :
    prefixEncode f (inp ++ x) d dflt = prefixEncode f inp d dflt := by
  simp only [decorSp, endsIn_append] at h
  unfold prefixEncode
  cases hp : d.pre with
  | none => rfl
  | some r =>
    simp only [hp, optRawSp] at h
    simp only [encRaw_app f inp x r h.1]

theorem suffixEncode_app (d : Decor) (dflt : Bytes) (h : EndsIn inp.length (decorSp d)) :
    suffixEncode f (inp ++ x) d dflt = suffixEncode f inp d dflt := by
  simp only [decorSp, endsIn_append] at h
  unfold suffixEncode
  cases hp : d.suf with
  | none => rfl
  | some r =>
    simp only [hp, optRawSp] at h
    simp only [encRaw_app f inp x r h.2]

theorem encodeKey_app (k : CKey) (h : EndsIn inp.length (keySpans k)) :
    encodeKey (inp ++ x) k = encodeKey inp k := by
  simp only [keySpans, endsIn_append] at h
  simp only [encodeKey, rawText_app inp x k.repr h.1.1]

theorem keysSpans_append : ∀ a b : List CKey, keysSpans (a ++ b) = keysSpans a ++ keysSpans b
  | [], b => rfl
  | k :: r, b => by simp [keysSpans, keysSpans_append r b]

theorem endsIn_keys_mem {n : Nat} : ∀ {ks : List CKey}, EndsIn n (keysSpans ks) → ∀ k ∈ ks, EndsIn n (keySpans k)
  | [], _, k, hk => by cases hk
  | k0 :: r, h, k, hk => by
    simp only [keysSpans, endsIn_append] at h
    rcases List.mem_cons.mp hk with rfl | hk
    · exact h.1
    · exact endsIn_keys_mem h.2 k hk

theorem encodeKeyPathAux_app (leaf : Decor) (dp ds : Bytes) (hl : EndsIn inp.length (decorSp leaf)) :
    ∀ (first : Bool) (ks : List CKey), EndsIn inp.length (keysSpans ks) →
    encodeKeyPathAux f (inp ++ x) leaf dp ds first ks = encodeKeyPathAux f inp leaf dp ds first ks
  | _, [], _ => rfl
  | first, k :: rest, h => by
    simp only [keysSpans, endsIn_append] at h
    have hk := h.1
    simp only [keySpans, endsIn_append] at hk
    simp only [encodeKeyPathAux, prefixEncode_app f inp x leaf dp hl, suffixEncode_app f inp x leaf ds hl,
      prefixEncode_app f inp x k.dotted [] hk.2, suffixEncode_app f inp x k.dotted [] hk.2,
      encodeKey_app inp x k h.1, encodeKeyPathAux_app leaf dp ds hl false rest h.2]

theorem encodeKeyPath_app (ks : List CKey) (dp ds : Bytes) (h : EndsIn inp.length (keysSpans ks)) :
    encodeKeyPath f (inp ++ x) ks dp ds = encodeKeyPath f inp ks dp ds := by
  unfold encodeKeyPath
  cases hl : ks.getLast? with
  | none => rfl
  | some l =>
    have hm : l ∈ ks := List.mem_of_getLast? hl
    have hk := endsIn_keys_mem h l hm
    simp only [keySpans, endsIn_append] at hk
    exact encodeKeyPathAux_app f inp x l.leaf dp ds hk.1.2 true ks h

mutual
theorem encodeValue_app : ∀ (v : CVal) (dp ds : Bytes), EndsIn inp.length (valSpans v) →
    encodeValue f (inp ++ x) v dp ds = encodeValue f inp v dp ds
  | .scalar _ repr decor, dp, ds, h => by
    simp only [valSpans, endsIn_append] at h
    simp only [encodeValue, prefixEncode_app f inp x decor dp h.2, suffixEncode_app f inp x decor ds h.2,
      rawText_app inp x repr h.1]
  | .arr items trailing comma decor sp, dp, ds, h => by
    simp only [valSpans, endsIn_append] at h
    simp only [encodeValue, prefixEncode_app f inp x decor dp h.1.2, suffixEncode_app f inp x decor ds h.1.2,
      encRaw_app f inp x trailing h.1.1.2, encodeElems_app items true h.1.1.1]
  | .inl items pre imp dot decor sp, dp, ds, h => by
    simp only [valSpans, endsIn_append] at h
    simp only [encodeValue, prefixEncode_app f inp x decor dp h.1.2, suffixEncode_app f inp x decor ds h.1.2,
      encRaw_app f inp x pre h.1.1.2, encodeInl_app items [] 0 (countInl items) h.1.1.1 (by simp [keysSpans])]
theorem encodeElems_app : ∀ (l : List CVal) (first : Bool), EndsIn inp.length (elemsSpans l) →
    encodeElems f (inp ++ x) l first = encodeElems f inp l first
  | [], _, _ => rfl
  | v :: r, first, h => by
    simp only [elemsSpans, endsIn_append] at h
    simp only [encodeElems, encodeValue_app v _ _ h.1, encodeElems_app r false h.2]
theorem encodeInl_app : ∀ (l : List (CKey × CVal)) (parent : List CKey) (i len : Nat),
    EndsIn inp.length (kvsSpans l) → EndsIn inp.length (keysSpans parent) →
    encodeInl f (inp ++ x) l parent i len = encodeInl f inp l parent i len
  | [], _, _, _, _, _ => rfl
  | (k, .inl sub pre imp dot dec sp) :: r, parent, i, len, h, hp => by
    simp only [kvsSpans, endsIn_append] at h
    have hpk : EndsIn inp.length (keysSpans (parent ++ [k])) := by
      simp [keysSpans_append, keysSpans, hp, h.1.1]
    have hv := h.1.2
    have hsub : EndsIn inp.length (kvsSpans sub) := by
      simp only [valSpans, endsIn_append] at hv
      exact hv.1.1.1
    simp only [encodeInl, encodeKeyPath_app f inp x (parent ++ [k]) _ _ hpk,
      encodeValue_app (.inl sub pre imp dot dec sp) _ _ hv,
      encodeInl_app sub (parent ++ [k]) i len hsub hpk]
    split
    · simp only [encodeInl_app r parent _ len h.2 hp]
    · simp only [encodeInl_app r parent _ len h.2 hp]
  | (k, .scalar a b c) :: r, parent, i, len, h, hp => by
    simp only [kvsSpans, endsIn_append] at h
    have hpk : EndsIn inp.length (keysSpans (parent ++ [k])) := by
      simp [keysSpans_append, keysSpans, hp, h.1.1]
    simp only [encodeInl, encodeKeyPath_app f inp x (parent ++ [k]) _ _ hpk,
      encodeValue_app (.scalar a b c) _ _ h.1.2, encodeInl_app r parent _ len h.2 hp]
  | (k, .arr a b c d e) :: r, parent, i, len, h, hp => by
    simp only [kvsSpans, endsIn_append] at h
    have hpk : EndsIn inp.length (keysSpans (parent ++ [k])) := by
      simp [keysSpans_append, keysSpans, hp, h.1.1]
    simp only [encodeInl, encodeKeyPath_app f inp x (parent ++ [k]) _ _ hpk,
      encodeValue_app (.arr a b c d e) _ _ h.1.2, encodeInl_app r parent _ len h.2 hp]
end

end TomlVerif.Lemmas.Refine08bPrint
