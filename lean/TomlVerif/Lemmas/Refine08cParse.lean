import TomlVerif.Lemmas.Refine08cOK
import TomlVerif.Lemmas.Suffix03
import TomlVerif.Lemmas.Spans14Doc
/-! No `CVal.scalar` of a parsed document holds an inline-table payload: the invariant of
    `Refine08cOK.lean` for the predicate family `cleanPr`, through the value parser, the parse state
    and the line driver of `Model/Cst.lean`. -/
namespace TomlVerif.Lemmas.Refine08c
open TomlVerif TomlVerif.Spec TomlVerif.Model TomlVerif.Model.Strings TomlVerif.Model.Value
open TomlVerif.Model.Cst TomlVerif.Lemmas.Cst03 TomlVerif.Lemmas.Refine08bSem TomlVerif.Lemmas.Spans14

/-- scalars do not hold inline tables (spans and `RawString`s unconstrained) -/
def cleanPr : Pr := ⟨fun _ => True, fun _ => True, fun v => notInlVal v = true⟩

theorem DecOK_clean (d : Decor) : DecOK cleanPr d := ⟨fun _ _ => trivial, fun _ _ => trivial⟩

theorem KeyOK_clean (k : CKey) : KeyOK cleanPr k := ⟨trivial, DecOK_clean _, DecOK_clean _⟩

theorem TOK_clean_iff (t : CTbl) : TOK cleanPr t ↔ AllKV (KeyOK cleanPr) (ItemOK cleanPr) t.items := by
  rw [TOK_iff]
  exact ⟨fun h => h.1, fun h => ⟨h, DecOK_clean _, trivial⟩⟩

theorem TOK_clean_mk (items : List (CKey × CItem)) (i d : Bool) (p : Option Nat) (dec : Decor) (sp : Option Span) :
    TOK cleanPr (.mk items i d p dec sp) ↔ AllKV (KeyOK cleanPr) (ItemOK cleanPr) items := TOK_clean_iff _

theorem TOK_clean_setItems (t : CTbl) (items : List (CKey × CItem)) :
    TOK cleanPr (t.setItems items) ↔ AllKV (KeyOK cleanPr) (ItemOK cleanPr) items := by
  cases t; exact TOK_clean_mk _ _ _ _ _ _

theorem TOK_clean_setSpan (t : CTbl) (sp : Option Span) : TOK cleanPr (t.setSpan sp) ↔ TOK cleanPr t := by
  cases t
  simp only [CTbl.setSpan, CTbl.items, CTbl.implicit, CTbl.dotted, CTbl.pos, CTbl.decor, TOK_clean_mk]

theorem VOK_clean_setDecor (v : CVal) (d : Decor) : VOK cleanPr (v.setDecor d) ↔ VOK cleanPr v := by
  cases v <;> simp only [CVal.setDecor, VOK] <;> simp [DecOK_clean]

/-! ### scalars -/

theorem map_ok' {α β} (f : α → β) (x : Res α) (v : β) (r : Bytes) (h : x.map f = .ok v r) :
    ∃ w, v = f w := by
  cases x with
  | ok w r' => unfold Res.map at h; injection h with h1 h2; exact ⟨w, h1.symm⟩
  | bt => cases h
  | cut => cases h

/-- the token parsers (`value` with one unit of fuel) return strings, numbers, booleans, date-times -/
theorem scalar_notInl (d : Nat) (s r : Bytes) (v : Val) (h : Value.value 1 d s = .ok v r) : notInlVal v = true := by
  unfold Value.value at h
  split at h
  · cases h
  · rename_i b t
    split at h
    · obtain ⟨w, rfl⟩ := map_ok' _ _ _ _ h; rfl
    · split at h
      · split at h
        · cases h
        · rw [Suffix03.arrayValues_zero] at h
          cases h
      · split at h
        · split at h
          · cases h
          · rw [Suffix03.inlineKeyvals_zero] at h
            cases h
        · split at h
          · split at h
            · injection h with h1 h2; subst h1; rfl
            · cases h
            · split at h
              · injection h with h1 h2; subst h1; rfl
              · cases h
              · obtain ⟨w, rfl⟩ := map_ok' _ _ _ _ h; rfl
          · split at h
            · obtain ⟨w, rfl⟩ := map_ok' _ _ _ _ h; rfl
            · split at h
              · obtain ⟨w, rfl⟩ := map_ok' _ _ _ _ h; rfl
              · split at h
                · obtain ⟨w, rfl⟩ := map_ok' _ _ _ _ h; rfl
                · split at h
                  · obtain ⟨w, rfl⟩ := map_ok' _ _ _ _ h; rfl
                  · split at h
                    · split at h
                      · injection h with h1 h2; subst h1; rfl
                      · cases h
                    · split at h
                      · split at h
                        · injection h with h1 h2; subst h1; rfl
                        · cases h
                      · cases h

/-! ### `table_from_pairs` -/

theorem newDottedInl_clean {sub : List (CKey × CVal)} (h : KvsOK cleanPr sub) : VOK cleanPr (newDottedInl sub) := by
  simp only [newDottedInl, VOK]
  exact ⟨h, trivial, DecOK_clean _, trivial⟩

theorem cinlInsert_clean : ∀ (path : List CKey) (items : List (CKey × CVal)) (tblDotted pathEmpty : Bool)
    (key : CKey) (v : CVal) (items' : List (CKey × CVal)),
    cinlInsert items tblDotted path pathEmpty key v = some items' →
    AllKV (KeyOK cleanPr) (VOK cleanPr) items → VOK cleanPr v → AllKV (KeyOK cleanPr) (VOK cleanPr) items' := by
  intro path
  induction path with
  | nil =>
    intro items tblDotted pathEmpty key v items' h hit hv
    unfold cinlInsert at h
    split at h
    · cases h
    · split at h
      · cases h
      · injection h with h; subst h
        exact hit.append (AllKV.single (KeyOK_clean _) hv)
  | cons k ks ih =>
    intro items tblDotted pathEmpty key v items' h hit hv
    unfold cinlInsert at h
    split at h
    · split at h
      · rename_i sub hsub
        injection h with h; subst h
        have := ih _ _ _ _ _ _ hsub AllKV.nil hv
        exact hit.append (AllKV.single (KeyOK_clean _) (newDottedInl_clean ((KvsOK_iff _).2 this)))
      · cases h
    · rename_i sub pre imp dot dec sp hl
      split at h
      · cases h
      · split at h
        · rename_i sub' hsub
          injection h with h; subst h
          have hx : VOK cleanPr (.inl sub pre imp dot dec sp) := hit.lookup hl
          simp only [VOK] at hx
          have hsub' := ih _ _ _ _ _ _ hsub ((KvsOK_iff _).1 hx.1) hv
          refine hit.creplace ?_
          simp only [VOK]
          exact ⟨(KvsOK_iff _).2 hsub', hx.2⟩
        · cases h
    · cases h

def PairsOK (l : List (List CKey × CKey × CVal)) : Prop := ∀ x ∈ l, VOK cleanPr x.2.2

theorem ctableFromPairs_clean : ∀ (kvs : List (List CKey × CKey × CVal)) (acc items : List (CKey × CVal)),
    ctableFromPairs kvs acc = some items → PairsOK kvs →
    AllKV (KeyOK cleanPr) (VOK cleanPr) acc → AllKV (KeyOK cleanPr) (VOK cleanPr) items := by
  intro kvs
  induction kvs with
  | nil =>
    intro acc items h _ hacc
    simp [ctableFromPairs] at h
    subst h
    exact hacc
  | cons x rest ih =>
    intro acc items h hn hacc
    obtain ⟨path, key, v⟩ := x
    unfold ctableFromPairs at h
    split at h
    · rename_i acc' hins
      exact ih _ _ h (fun y hy => hn y (List.mem_cons_of_mem _ hy))
        (cinlInsert_clean _ _ _ _ _ _ _ hins hacc (hn (path, key, v) (by simp)))
    · cases h

/-! ### the value-level induction -/

def C1 (n fuel : Nat) : Prop := ∀ d s v r, cvalue n fuel d s = .ok v r → VOK cleanPr v

def C2 (n fuel : Nat) : Prop :=
  ∀ d s vs comma tr r, carrayValues n fuel d s = .ok (vs, comma, tr) r → VsOK cleanPr vs

def C3 (n fuel : Nat) : Prop :=
  ∀ d s acc vs r, carrayElems n fuel d s acc = .ok vs r → VsOK cleanPr acc → VsOK cleanPr vs

def C4 (n fuel : Nat) : Prop :=
  ∀ d s acc kvs r, cinlineKeyvals n fuel d s acc = .ok kvs r → PairsOK acc → PairsOK kvs

theorem VsOK_snoc {l : List CVal} {v : CVal} (hl : VsOK cleanPr l) (hv : VOK cleanPr v) : VsOK cleanPr (l ++ [v]) := by
  rw [VsOK_iff] at hl ⊢
  intro y hy
  rcases List.mem_append.1 hy with hy | hy
  · exact hl y hy
  · simp only [List.mem_singleton] at hy; subst hy; exact hv

theorem cstep1 (n fuel : Nat) (ih2 : C2 n fuel) (ih4 : C4 n fuel) : C1 n (fuel + 1) := by
  intro d s v r h
  unfold cvalue at h
  split at h
  · cases h
  · rename_i b r0
    split at h
    · split at h
      · cases h
      · split at h
        · rename_i vs comma tr r1 hav
          have hvs := ih2 _ _ _ _ _ _ hav
          split at h
          · injection h with h1 h2; subst h1
            simp only [VOK]
            exact ⟨hvs, trivial, DecOK_clean _, trivial⟩
          · cases h
        · cases h
    · split at h
      · split at h
        · cases h
        · split at h
          · rename_i kvs r1 hkv
            have hk := ih4 _ _ _ _ _ hkv (by intro x hx; cases hx)
            simp only [] at h
            split at h
            · cases h
            · rename_i items hitems
              split at h
              · injection h with h1 h2; subst h1
                simp only [VOK]
                exact ⟨(KvsOK_iff _).2 (ctableFromPairs_clean _ _ _ hitems hk AllKV.nil), trivial, DecOK_clean _, trivial⟩
              · cases h
          · cases h
      · split at h
        · rename_i v0 r1 hv
          injection h with h1 h2; subst h1
          simp only [VOK]
          exact ⟨scalar_notInl _ _ _ _ hv, trivial, DecOK_clean _⟩
        · cases h
        · cases h

theorem cstep2 (n fuel : Nat) (ih3 : C3 n fuel) : C2 n (fuel + 1) := by
  intro d s vs comma tr r h
  unfold carrayValues at h
  split at h
  · injection h with h1 h2
    injection h1 with h1 h3; subst h1
    trivial
  · split at h
    · rename_i vs0 r0 hel
      have hvs := ih3 _ _ _ _ _ hel trivial
      split at h
      rename_i comma0 r1 heq
      split at h
      · injection h with h1 h2
        injection h1 with h1 h3; subst h1
        exact hvs
      · cases h
    · cases h
    · cases h

theorem cstep3 (n fuel : Nat) (ih1 : C1 n fuel) (ih3 : C3 n fuel) : C3 n (fuel + 1) := by
  intro d s acc vs r h hacc
  have reset : ∀ {vs r}, (Res.ok acc s : Res (List CVal)) = Res.ok vs r → VsOK cleanPr vs := by
    intro vs r h
    injection h with h1 h2; subst h1; exact hacc
  unfold carrayElems at h
  split at h
  · exact reset h
  · rename_i s1 hw1
    split at h
    · cases h
    · exact reset h
    · rename_i v s2 hv
      have hvv := ih1 _ _ _ _ hv
      split at h
      · exact reset h
      · rename_i s3 hw2
        simp only [] at h
        generalize hv' : v.setDecor (Decor.new (rawBetween n s s1) (rawBetween n s2 s3)) = v' at h
        have hn' : VOK cleanPr v' := by rw [← hv', VOK_clean_setDecor]; exact hvv
        have hacc' := VsOK_snoc hacc hn'
        split at h
        · split at h
          · rename_i vs' r' hrec
            have hrec' := ih3 _ _ _ _ _ hrec hacc'
            split at h
            · injection h with h1 h2; subst h1; exact hrec'
            · injection h with h1 h2; subst h1; exact hrec'
          · rename_i hne
            exact absurd h (hne _ _)
        · injection h with h1 h2; subst h1
          exact hacc'

theorem cstep4 (n fuel : Nat) (ih1 : C1 n fuel) (ih4 : C4 n fuel) : C4 n (fuel + 1) := by
  intro d s acc kvs r h hacc
  unfold cinlineKeyvals at h
  split at h
  · cases h
  · injection h with h1 h2; subst h1; exact hacc
  · rename_i ks r0 hk
    split at h
    · cases h
    · split at h
      · rename_i r1
        simp only [] at h
        split at h
        · rename_i v r2 hv
          have hvv := ih1 _ _ _ _ hv
          generalize hv' : v.setDecor (Decor.new (rawBetween n r1 (dropWs r1)) (rawBetween n r2 (dropWs r2))) = v' at h
          have hn' : VOK cleanPr v' := by rw [← hv', VOK_clean_setDecor]; exact hvv
          split at h
          · cases h
          · rename_i path key hsl
            have hacc' : PairsOK (acc ++ [(path, key, v')]) := by
              intro x hx
              rcases List.mem_append.1 hx with hx | hx
              · exact hacc x hx
              · simp only [List.mem_singleton] at hx; subst hx; exact hn'
            split at h
            · split at h
              · rename_i kvs' r5 hrec
                have hrec' := ih4 _ _ _ _ _ hrec hacc'
                split at h
                · injection h with h1 h2; subst h1; exact hrec'
                · injection h with h1 h2; subst h1; exact hrec'
              · rename_i hne
                exact absurd h (hne _ _)
            · injection h with h1 h2; subst h1
              exact hacc'
        · cases h
      · cases h

theorem cmain (n : Nat) : ∀ fuel : Nat, C1 n fuel ∧ C2 n fuel ∧ C3 n fuel ∧ C4 n fuel := by
  intro fuel
  induction fuel with
  | zero =>
    refine ⟨?_, ?_, ?_, ?_⟩
    · intro d s v r h; unfold cvalue at h; cases h
    · intro d s vs comma tr r h; unfold carrayValues at h; cases h
    · intro d s acc vs r h; unfold carrayElems at h; cases h
    · intro d s acc kvs r h; unfold cinlineKeyvals at h; cases h
  | succ fuel ih =>
    obtain ⟨ih1, ih2, ih3, ih4⟩ := ih
    exact ⟨cstep1 n fuel ih2 ih4, cstep2 n fuel ih3, cstep3 n fuel ih1 ih3, cstep4 n fuel ih1 ih4⟩

/-- every value the parser builds: no scalar below it holds an inline table -/
theorem cvalue_clean (n fuel d : Nat) (s r : Bytes) (v : CVal) (h : cvalue n fuel d s = .ok v r) : VOK cleanPr v :=
  (cmain n fuel).1 d s v r h

/-! ### the parse state -/

theorem TOK_clean_newImplicit (d : Bool) : TOK cleanPr (newImplicit d) := by
  simp only [newImplicit, TOK_clean_mk]; exact AllKV.nil

theorem TOK_clean_empty : TOK cleanPr CTbl.empty := by
  simp only [CTbl.empty, TOK_clean_mk]; exact AllKV.nil

theorem entry_clean {t : CTbl} (ht : TOK cleanPr t) (k : Bytes) (dotted : Bool) :
    ItemOK cleanPr ((clookup k t.items).getD (.table (newImplicit dotted))) := by
  cases hl : clookup k t.items with
  | none => exact TOK_clean_newImplicit dotted
  | some e => exact AllKV.lookup ((TOK_clean_iff _).1 ht) hl

theorem descend_clean (f : CTbl → Option CTbl) (hf : ∀ u u', TOK cleanPr u → f u = some u' → TOK cleanPr u') :
    ∀ (path : List CKey) (t : CTbl) (dotted : Bool) (t' : CTbl),
      TOK cleanPr t → descend t path dotted f = some t' → TOK cleanPr t' := by
  intro path
  induction path with
  | nil =>
    intro t dotted t' ht h
    unfold descend at h
    exact hf _ _ ht h
  | cons k ks ih =>
    intro t dotted t' ht h
    have hent := entry_clean ht k.key dotted
    have ht2 := (TOK_clean_iff _).1 ht
    unfold descend at h
    simp only [] at h
    generalize (clookup k.key t.items).getD (.table (newImplicit dotted)) = entry at h hent
    cases entry with
    | value v => cases h
    | aot ts sp =>
      simp only [] at h
      split at h
      · cases h
      · split at h
        · rename_i ts' hml
          injection h with h; subst h
          obtain ⟨init, l, l', e1, hfl, e2⟩ := modifyLast_some hml
          subst e1; subst e2
          have hts := (TsOK_iff _).1 hent.1
          have hl' := ih _ _ _ (hts l (by simp)) hfl
          rw [TOK_clean_setItems]
          refine AllKV.cset ht2 (KeyOK_clean _) ⟨?_, trivial⟩
          rw [TsOK_iff]
          intro x hx
          rcases List.mem_append.1 hx with hx | hx
          · exact hts x (List.mem_append_left _ hx)
          · simp at hx; subst hx; exact hl'
        · cases h
    | table sub =>
      simp only [] at h
      split at h
      · cases h
      · split at h
        · rename_i sub' hsub
          injection h with h; subst h
          have hs' : ItemOK cleanPr (.table sub') := ih _ _ _ hent hsub
          rw [TOK_clean_setItems]
          exact AllKV.cset ht2 (KeyOK_clean _) hs'
        · cases h

theorem findTable_clean (key : Bytes) : ∀ (path : List CKey) (t x : CTbl), TOK cleanPr t →
    findTable key t path = some x → TOK cleanPr x := by
  intro path
  induction path with
  | nil =>
    intro t x ht h
    unfold findTable at h
    split at h
    · rename_i y hl
      injection h with h; subst h
      have hent : ItemOK cleanPr (.table y) := AllKV.lookup ((TOK_clean_iff _).1 ht) hl
      exact hent
    · cases h
  | cons k ks ih =>
    intro t x ht h
    unfold findTable at h
    split at h
    · rename_i sub hl
      have hent : ItemOK cleanPr (.table sub) := AllKV.lookup ((TOK_clean_iff _).1 ht) hl
      exact ih _ _ hent h
    · rename_i ts sp hl
      have hent : ItemOK cleanPr (.aot ts sp) := AllKV.lookup ((TOK_clean_iff _).1 ht) hl
      split at h
      · rename_i l rest hrev
        have hmem : l ∈ ts := by
          have : l ∈ ts.reverse := by rw [hrev]; simp
          simpa using this
        exact ih _ _ ((TsOK_iff _).1 hent.1 l hmem) h
      · cases h
    · cases h

/-- the invariant of the parse state -/
structure CInv (st : CState) : Prop where
  root : TOK cleanPr st.root
  cur : TOK cleanPr st.current

theorem CInv.init : CInv {} := ⟨TOK_clean_empty, by rw [TOK_clean_mk]; exact AllKV.nil⟩

theorem onWs_cinv {st : CState} {a b : Nat} (h : CInv st) : CInv (onWs st a b) := by
  unfold onWs
  split <;> exact ⟨h.root, h.cur⟩

theorem onKeyval_cinv {st st' : CState} {path : List CKey} {key : CKey} {v : CVal}
    (hinv : CInv st) (hv : VOK cleanPr v) (h : onKeyval st path key v = some st') : CInv st' := by
  rw [onKeyval_eq] at h
  obtain ⟨c, hc, rfl⟩ := map_some h
  have hcur : TOK cleanPr (kvCur st v) := by
    unfold kvCur
    split
    · rw [TOK_clean_setSpan]; exact hinv.cur
    · exact hinv.cur
  have hf : ∀ u u', TOK cleanPr u → kvF (kvKey st key) v path u = some u' → TOK cleanPr u' := by
    intro u u' hu hfu
    unfold kvF at hfu
    split at hfu
    · cases hfu
    · split at hfu
      · cases hfu
      · injection hfu with hfu; subst hfu
        rw [TOK_clean_setItems]
        exact ((TOK_clean_iff _).1 hu).append (AllKV.single (KeyOK_clean _) hv)
  exact ⟨hinv.root, descend_clean _ hf path _ true c hcur hc⟩

theorem finalizeTable_clean {st st' : CState} (hinv : CInv st) (h : finalizeTable st = some st') :
    TOK cleanPr st'.root ∧ st'.current = CTbl.empty := by
  unfold finalizeTable at h
  simp only [] at h
  split at h
  · split at h
    · injection h with h; subst h
      exact ⟨hinv.cur, rfl⟩
    · cases h
  · rename_i parentPath key hsl
    split at h
    · obtain ⟨root', hd, rfl⟩ := map_some h
      refine ⟨?_, rfl⟩
      refine descend_clean _ ?_ parentPath _ false root' hinv.root hd
      intro u u' hu hfu
      have hu1 := (TOK_clean_iff _).1 hu
      have hent : ItemOK cleanPr ((clookup key.key u.items).getD (.aot [] none)) := by
        cases hl : clookup key.key u.items with
        | none => exact ⟨trivial, trivial⟩
        | some e => exact AllKV.lookup hu1 hl
      generalize (clookup key.key u.items).getD (.aot [] none) = entry at hfu hent
      cases entry with
      | value v => cases hfu
      | table t => cases hfu
      | aot ts sp =>
        simp only [] at hfu
        injection hfu with hfu; subst hfu
        have hts := (TsOK_iff _).1 hent.1
        rw [TOK_clean_setItems]
        refine AllKV.cset hu1 (KeyOK_clean _) ⟨?_, trivial⟩
        rw [TsOK_iff]
        intro x hx
        rcases List.mem_append.1 hx with hx | hx
        · exact hts x hx
        · simp at hx; subst hx; exact hinv.cur
    · obtain ⟨root', hd, rfl⟩ := map_some h
      refine ⟨?_, rfl⟩
      refine descend_clean _ ?_ parentPath _ false root' hinv.root hd
      intro u u' hu hfu
      have hu1 := (TOK_clean_iff _).1 hu
      have hcur : ItemOK cleanPr (.table st.current) := hinv.cur
      split at hfu
      · split at hfu
        · injection hfu with hfu; subst hfu
          rw [TOK_clean_setItems]
          exact AllKV.creplace hu1 hcur
        · cases hfu
      · cases hfu
      · injection hfu with hfu; subst hfu
        rw [TOK_clean_setItems]
        exact hu1.append (AllKV.single (KeyOK_clean _) hcur)

theorem startTable_clean {st st' : CState} {path : List CKey} {decor : Decor} {span : Span}
    (hroot : TOK cleanPr st.root) (hcur : TOK cleanPr st.current)
    (h : startTable st path decor span = some st') : CInv st' := by
  unfold startTable at h
  split at h
  · cases h
  · rename_i parentPath key hsl
    simp only [] at h
    split at h
    · cases h
    · split at h
      · cases h
      · rename_i root' hd
        injection h with h; subst h
        have hroot' : TOK cleanPr root' := by
          refine descend_clean _ ?_ parentPath _ false root' hroot hd
          intro u u' hu hfu
          injection hfu with hfu; subst hfu
          rw [TOK_clean_setItems]
          exact AllKV.cerase ((TOK_clean_iff _).1 hu)
        have hbase : TOK cleanPr ((findTable key.key st.root parentPath).getD st.current) := by
          cases hf : findTable key.key st.root parentPath with
          | none => exact hcur
          | some x => exact findTable_clean _ _ _ _ hroot hf
        refine ⟨hroot', ?_⟩
        show TOK cleanPr (.mk _ _ _ _ _ _)
        rw [TOK_clean_mk]
        exact (TOK_clean_iff _).1 hbase

theorem startArrayTable_clean {st st' : CState} {path : List CKey} {decor : Decor} {span : Span}
    (hroot : TOK cleanPr st.root) (hcur : TOK cleanPr st.current)
    (h : startArrayTable st path decor span = some st') : CInv st' := by
  unfold startArrayTable at h
  split at h
  · cases h
  · rename_i parentPath key hsl
    simp only [] at h
    split at h
    · cases h
    · rename_i root' hd
      injection h with h; subst h
      have hroot' : TOK cleanPr root' := by
        refine descend_clean _ ?_ parentPath _ false root' hroot hd
        intro u u' hu hfu
        split at hfu
        · injection hfu with hfu; subst hfu
          exact hu
        · cases hfu
        · injection hfu with hfu; subst hfu
          rw [TOK_clean_setItems]
          exact ((TOK_clean_iff _).1 hu).append (AllKV.single (KeyOK_clean _) ⟨trivial, trivial⟩)
      refine ⟨hroot', ?_⟩
      show TOK cleanPr (.mk _ _ _ _ _ _)
      rw [TOK_clean_mk]
      exact (TOK_clean_iff _).1 hcur

theorem onStdHeader_cinv {st st' : CState} {path : List CKey} {trailing : Raw} {span : Span}
    (hinv : CInv st) (h : onStdHeader st path trailing span = some st') : CInv st' := by
  unfold onStdHeader at h
  split at h
  · rename_i st1 hfin
    obtain ⟨hroot, hcur⟩ := finalizeTable_clean hinv hfin
    simp only [] at h
    refine startTable_clean (st := { st1 with trailing := none }) hroot ?_ h
    show TOK cleanPr st1.current
    rw [hcur]; exact TOK_clean_empty
  · cases h

theorem onArrayHeader_cinv {st st' : CState} {path : List CKey} {trailing : Raw} {span : Span}
    (hinv : CInv st) (h : onArrayHeader st path trailing span = some st') : CInv st' := by
  unfold onArrayHeader at h
  split at h
  · rename_i st1 hfin
    obtain ⟨hroot, hcur⟩ := finalizeTable_clean hinv hfin
    simp only [] at h
    refine startArrayTable_clean (st := { st1 with trailing := none }) hroot ?_ h
    show TOK cleanPr st1.current
    rw [hcur]; exact TOK_clean_empty
  · cases h

/-! ### the line driver -/

theorem ctableLine_cinv {n : Nat} {st st' : CState} {s r : Bytes} (hinv : CInv st)
    (h : ctableLine n st s = some (st', r)) : CInv st' := by
  unfold ctableLine at h
  split at h
  · split at h
    · split at h
      · split at h
        · obtain ⟨st1, hst1, heq⟩ := map_some h
          injection heq with e1 e2; subst e1
          exact onArrayHeader_cinv hinv hst1
        · cases h
      · cases h
    · cases h
  · split at h
    · cases h
    · split at h
      · split at h
        · split at h
          · obtain ⟨st1, hst1, heq⟩ := map_some h
            injection heq with e1 e2; subst e1
            exact onStdHeader_cinv hinv hst1
          · cases h
        · cases h
      · cases h
  · cases h

theorem ckeyvalLine_cinv {n : Nat} {st st' : CState} {s r : Bytes} (hinv : CInv st)
    (h : ckeyvalLine n st s = some (st', r)) : CInv st' := by
  unfold ckeyvalLine at h
  split at h
  · split at h
    · cases h
    · split at h
      · simp only [] at h
        split at h
        · rename_i v r2 hv
          have hvv := cvalue_clean _ _ _ _ _ _ hv
          split at h
          · split at h
            · obtain ⟨st1, hst1, heq⟩ := map_some h
              injection heq with e1 e2; subst e1
              refine onKeyval_cinv hinv ?_ hst1
              rw [VOK_clean_setDecor]; exact hvv
            · cases h
          · cases h
        · cases h
      · cases h
  · cases h

theorem parseWs_cinv {n : Nat} {st : CState} {s : Bytes} (hinv : CInv st) : CInv (parseWs n st s).1 :=
  onWs_cinv hinv

theorem clines_cinv (n : Nat) : ∀ (fuel : Nat) (st : CState) (s : Bytes) (st' : CState),
    CInv st → clines n fuel st s = some st' → CInv st' := by
  intro fuel
  induction fuel with
  | zero => intro st s st' _ h; unfold clines at h; cases h
  | succ fuel ih =>
    intro st s st' hinv h
    unfold clines at h
    split at h
    · injection h with h; subst h; exact hinv
    · rename_i b r
      split at h
      · simp only [] at h
        split at h
        · injection h with h; subst h
          exact parseWs_cinv (onWs_cinv hinv)
        · split at h
          · exact ih _ _ _ (parseWs_cinv (onWs_cinv hinv)) h
          · cases h
      · split at h
        · split at h
          · rename_i st1 r1 hline
            exact ih _ _ _ (parseWs_cinv (ctableLine_cinv hinv hline)) h
          · cases h
        · split at h
          · split at h
            · exact ih _ _ _ (parseWs_cinv (onWs_cinv hinv)) h
            · cases h
          · split at h
            · rename_i st1 r1 hline
              exact ih _ _ _ (parseWs_cinv (ckeyvalLine_cinv hinv hline)) h
            · cases h

/-- **parsed documents are clean**: no `CVal.scalar` anywhere in the tree holds an inline table -/
theorem parseCst_clean (s : Bytes) (d : CDoc) (h : parseCst s = some d) : TOK cleanPr d.root := by
  unfold parseCst at h
  simp only [] at h
  split at h
  · rename_i st hcl
    have h1 : CInv (parseWs s.length {} (Doc.stripBom s)).1 := parseWs_cinv CInv.init
    have h2 := clines_cinv _ _ _ _ _ h1 hcl
    unfold intoDocument at h
    split at h
    · rename_i st1 hfin
      injection h with h; subst h
      exact (finalizeTable_clean h2 hfin).1
    · cases h
  · cases h

end TomlVerif.Lemmas.Refine08c
