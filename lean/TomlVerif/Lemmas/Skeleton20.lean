import TomlVerif.Spec.Preorder
/-! A tree is determined by its skeleton and its integers (so "the integers are mapped and the
    skeleton is kept" pins the rewritten document down completely). -/
namespace TomlVerif.Lemmas.Skeleton20
open TomlVerif TomlVerif.Model TomlVerif.Spec.Preorder

/-! the number of integers is a function of the skeleton -/
mutual
theorem lenVal : ∀ a : Val, (intsVal a).length = (intsVal (skelVal a)).length
  | .str s => by simp [skelVal, intsVal]
  | .int n => by simp [skelVal, intsVal]
  | .float b => by simp [skelVal, intsVal]
  | .bool b => by simp [skelVal, intsVal]
  | .dt d => by simp [skelVal, intsVal]
  | .arr vs => by simp only [skelVal, intsVal]; exact lenVals vs
  | .inl kvs _ _ => by simp only [skelVal, intsVal]; exact lenKVs kvs
theorem lenVals : ∀ vs : List Val, (vs.flatMap intsVal).length = ((vs.map skelVal).flatMap intsVal).length
  | [] => by simp
  | v :: r => by
    simp only [List.flatMap_cons, List.map_cons, List.length_append]
    rw [lenVal v, lenVals r]
theorem lenKVs : ∀ kvs : List (Bytes × Val),
    (kvs.flatMap fun kv => intsVal kv.2).length =
      ((kvs.map fun kv => (kv.1, skelVal kv.2)).flatMap fun kv => intsVal kv.2).length
  | [] => by simp
  | (k, v) :: r => by
    simp only [List.flatMap_cons, List.map_cons, List.length_append]
    rw [lenVal v, lenKVs r]
end

theorem lenVal_of_skel {a b : Val} (h : skelVal a = skelVal b) : (intsVal a).length = (intsVal b).length := by
  rw [lenVal a, lenVal b, h]

mutual
theorem injVal : ∀ (a b : Val), skelVal a = skelVal b → intsVal a = intsVal b → a = b
  | .str s, b, hs, _ => by cases b <;> simp [skelVal] at hs; simp [hs]
  | .int n, b, hs, hi => by cases b <;> simp [skelVal] at hs; simpa [intsVal] using hi
  | .float x, b, hs, _ => by cases b <;> simp [skelVal] at hs; simp [hs]
  | .bool x, b, hs, _ => by cases b <;> simp [skelVal] at hs; simp [hs]
  | .dt d, b, hs, _ => by cases b <;> simp [skelVal] at hs; simp [hs]
  | .arr vs, b, hs, hi => by
    cases b <;> simp [skelVal] at hs
    rename_i ws
    simp only [intsVal] at hi
    rw [injVals vs ws hs hi]
  | .inl kvs i d, b, hs, hi => by
    cases b <;> simp [skelVal] at hs
    rename_i kws i' d'
    obtain ⟨h1, h2, h3⟩ := hs
    simp only [intsVal] at hi
    rw [injKVs kvs kws h1 hi, h2, h3]
theorem injVals : ∀ (vs ws : List Val), vs.map skelVal = ws.map skelVal →
    vs.flatMap intsVal = ws.flatMap intsVal → vs = ws
  | [], ws, hs, _ => by cases ws <;> simp at hs; rfl
  | v :: r, ws, hs, hi => by
    cases ws with
    | nil => simp at hs
    | cons w s =>
      simp only [List.map_cons, List.cons.injEq] at hs
      simp only [List.flatMap_cons] at hi
      have hl := lenVal_of_skel hs.1
      have := List.append_inj hi hl
      rw [injVal v w hs.1 this.1, injVals r s hs.2 this.2]
theorem injKVs : ∀ (kvs kws : List (Bytes × Val)),
    (kvs.map fun kv => (kv.1, skelVal kv.2)) = (kws.map fun kv => (kv.1, skelVal kv.2)) →
    (kvs.flatMap fun kv => intsVal kv.2) = (kws.flatMap fun kv => intsVal kv.2) → kvs = kws
  | [], kws, hs, _ => by cases kws <;> simp at hs; rfl
  | (k, v) :: r, kws, hs, hi => by
    cases kws with
    | nil => simp at hs
    | cons kw s =>
      obtain ⟨k', w⟩ := kw
      simp only [List.map_cons, List.cons.injEq, Prod.mk.injEq] at hs
      simp only [List.flatMap_cons] at hi
      have hl := lenVal_of_skel hs.1.2
      have := List.append_inj hi hl
      rw [injVal v w hs.1.2 this.1, injKVs r s hs.2 this.2, hs.1.1]
end

mutual
theorem lenItem : ∀ a : Item, (intsItem a).length = (intsItem (skelItem a)).length
  | .value v => by simp only [skelItem, intsItem]; exact lenVal v
  | .table t => by simp only [skelItem, intsItem]; exact lenTbl t
  | .aot ts => by simp only [skelItem, intsItem]; exact lenTbls ts
theorem lenTbl : ∀ t : Tbl, (intsTbl t).length = (intsTbl (skelTbl t)).length
  | .mk items _ _ _ => by simp only [skelTbl, intsTbl]; exact lenItems items
theorem lenItems : ∀ items : List (Bytes × Item),
    (items.flatMap fun kv => intsItem kv.2).length =
      ((items.map fun kv => (kv.1, skelItem kv.2)).flatMap fun kv => intsItem kv.2).length
  | [] => by simp
  | (k, i) :: r => by
    simp only [List.flatMap_cons, List.map_cons, List.length_append]
    rw [lenItem i, lenItems r]
theorem lenTbls : ∀ ts : List Tbl, (ts.flatMap intsTbl).length = ((ts.map skelTbl).flatMap intsTbl).length
  | [] => by simp
  | t :: r => by
    simp only [List.flatMap_cons, List.map_cons, List.length_append]
    rw [lenTbl t, lenTbls r]
end

theorem lenItem_of_skel {a b : Item} (h : skelItem a = skelItem b) : (intsItem a).length = (intsItem b).length := by
  rw [lenItem a, lenItem b, h]
theorem lenTbl_of_skel {a b : Tbl} (h : skelTbl a = skelTbl b) : (intsTbl a).length = (intsTbl b).length := by
  rw [lenTbl a, lenTbl b, h]

mutual
theorem injItem : ∀ (a b : Item), skelItem a = skelItem b → intsItem a = intsItem b → a = b
  | .value v, b, hs, hi => by
    cases b <;> simp [skelItem] at hs
    simp only [intsItem] at hi
    rw [injVal v _ hs hi]
  | .table t, b, hs, hi => by
    cases b <;> simp [skelItem] at hs
    simp only [intsItem] at hi
    rw [injTbl t _ hs hi]
  | .aot ts, b, hs, hi => by
    cases b <;> simp [skelItem] at hs
    simp only [intsItem] at hi
    rw [injTbls ts _ hs hi]
theorem injTbl : ∀ (a b : Tbl), skelTbl a = skelTbl b → intsTbl a = intsTbl b → a = b
  | .mk items i d p, b, hs, hi => by
    obtain ⟨items', i', d', p'⟩ := b
    simp [skelTbl] at hs
    obtain ⟨h1, h2, h3, h4⟩ := hs
    simp only [intsTbl] at hi
    rw [injItems items items' h1 hi, h2, h3, h4]
theorem injItems : ∀ (kvs kws : List (Bytes × Item)),
    (kvs.map fun kv => (kv.1, skelItem kv.2)) = (kws.map fun kv => (kv.1, skelItem kv.2)) →
    (kvs.flatMap fun kv => intsItem kv.2) = (kws.flatMap fun kv => intsItem kv.2) → kvs = kws
  | [], kws, hs, _ => by cases kws <;> simp at hs; rfl
  | (k, v) :: r, kws, hs, hi => by
    cases kws with
    | nil => simp at hs
    | cons kw s =>
      obtain ⟨k', w⟩ := kw
      simp only [List.map_cons, List.cons.injEq, Prod.mk.injEq] at hs
      simp only [List.flatMap_cons] at hi
      have hl := lenItem_of_skel hs.1.2
      have := List.append_inj hi hl
      rw [injItem v w hs.1.2 this.1, injItems r s hs.2 this.2, hs.1.1]
theorem injTbls : ∀ (ts ws : List Tbl), ts.map skelTbl = ws.map skelTbl →
    ts.flatMap intsTbl = ws.flatMap intsTbl → ts = ws
  | [], ws, hs, _ => by cases ws <;> simp at hs; rfl
  | t :: r, ws, hs, hi => by
    cases ws with
    | nil => simp at hs
    | cons w s =>
      simp only [List.map_cons, List.cons.injEq] at hs
      simp only [List.flatMap_cons] at hi
      have hl := lenTbl_of_skel hs.1
      have := List.append_inj hi hl
      rw [injTbl t w hs.1 this.1, injTbls r s hs.2 this.2]
end

end TomlVerif.Lemmas.Skeleton20
