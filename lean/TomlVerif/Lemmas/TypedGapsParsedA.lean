import TomlVerif.Lemmas.DeTyped13d
import TomlVerif.Lemmas.State09
import TomlVerif.Lemmas.SoundDoc01Ast
import TomlVerif.Lemmas.InlineKeys01
import TomlVerif.Props.C12
/-! Lemmas for Props/C13TypedParsed, part A: the part of `WfTV` the document parser guarantees (`WfTV'`: distinct keys
    in every table at every depth, date-times that print and re-read), the part it does not (`NoPrivTV`: no table has
    the private date-time key, known finding F24), association lists by membership, and the value level: what `value`
    returns for a scalar token, `inlInsert`, `tableFromPairs`, and `semQ` of a well-formed value of the grammar. -/
namespace TomlVerif.Lemmas.TypedGapsParsed
open TomlVerif TomlVerif.Model TomlVerif.Model.TomlValue TomlVerif.Model.DeRoutes
open TomlVerif.Lemmas.DeTyped13 TomlVerif.Lemmas.State09

/-! ## the two halves of `WfTV` -/

mutual
/-- `WfTV` without the clause about the private date-time key -/
def WfTV' : TV → Prop
  | .dt d => Datetime.Std.fromStr (Datetime.Std.display d) = some d
  | .arr l => WfVs' l
  | .tbl items => WfPs' items ∧ (items.map Prod.fst).Nodup
  | _ => True
def WfVs' : List TV → Prop
  | [] => True
  | v :: r => WfTV' v ∧ WfVs' r
def WfPs' : List (Bytes × TV) → Prop
  | [] => True
  | (_, v) :: r => WfTV' v ∧ WfPs' r
end

mutual
/-- no table at any depth has the private date-time key -/
def NoPrivTV : TV → Prop
  | .arr l => NoPrivVs l
  | .tbl items => NoPrivPs items ∧ FIELD ∉ items.map Prod.fst
  | _ => True
def NoPrivVs : List TV → Prop
  | [] => True
  | v :: r => NoPrivTV v ∧ NoPrivVs r
def NoPrivPs : List (Bytes × TV) → Prop
  | [] => True
  | (_, v) :: r => NoPrivTV v ∧ NoPrivPs r
end

mutual
theorem wfTV_iff : ∀ v : TV, WfTV v ↔ WfTV' v ∧ NoPrivTV v
  | .str _ => by simp [WfTV, WfTV', NoPrivTV]
  | .int _ => by simp [WfTV, WfTV', NoPrivTV]
  | .float _ => by simp [WfTV, WfTV', NoPrivTV]
  | .bool _ => by simp [WfTV, WfTV', NoPrivTV]
  | .dt _ => by simp [WfTV, WfTV', NoPrivTV]
  | .arr l => by rw [WfTV, WfTV', NoPrivTV]; exact wfVs_iff l
  | .tbl items => by
    rw [WfTV, WfTV', NoPrivTV, wfPs_iff items]
    constructor
    · rintro ⟨⟨a, b⟩, c, d⟩; exact ⟨⟨a, c⟩, b, d⟩
    · rintro ⟨⟨a, c⟩, b, d⟩; exact ⟨⟨a, b⟩, c, d⟩
theorem wfVs_iff : ∀ l : List TV, WfVs l ↔ WfVs' l ∧ NoPrivVs l
  | [] => by simp [WfVs, WfVs', NoPrivVs]
  | v :: r => by
    rw [WfVs, WfVs', NoPrivVs, wfTV_iff v, wfVs_iff r]
    constructor
    · rintro ⟨⟨a, b⟩, c, d⟩; exact ⟨⟨a, c⟩, b, d⟩
    · rintro ⟨⟨a, c⟩, b, d⟩; exact ⟨⟨a, b⟩, c, d⟩
theorem wfPs_iff : ∀ l : List (Bytes × TV), WfPs l ↔ WfPs' l ∧ NoPrivPs l
  | [] => by simp [WfPs, WfPs', NoPrivPs]
  | (_, v) :: r => by
    rw [WfPs, WfPs', NoPrivPs, wfTV_iff v, wfPs_iff r]
    constructor
    · rintro ⟨⟨a, b⟩, c, d⟩; exact ⟨⟨a, c⟩, b, d⟩
    · rintro ⟨⟨a, c⟩, b, d⟩; exact ⟨⟨a, b⟩, c, d⟩
end

theorem wfVs'_iff (l : List TV) : WfVs' l ↔ ∀ v ∈ l, WfTV' v := by
  induction l with
  | nil => simp [WfVs']
  | cons v r ih => simp [WfVs', ih]

theorem wfPs'_iff (l : List (Bytes × TV)) : WfPs' l ↔ ∀ p ∈ l, WfTV' p.2 := by
  induction l with
  | nil => simp [WfPs']
  | cons x r ih => obtain ⟨k, v⟩ := x; simp [WfPs', ih]

/-! ## a decidable version of `NoPrivTV` -/

mutual
def noPrivB : TV → Bool
  | .arr l => noPrivVsB l
  | .tbl items => noPrivPsB items && !(items.map Prod.fst).contains FIELD
  | _ => true
def noPrivVsB : List TV → Bool
  | [] => true
  | v :: r => noPrivB v && noPrivVsB r
def noPrivPsB : List (Bytes × TV) → Bool
  | [] => true
  | (_, v) :: r => noPrivB v && noPrivPsB r
end

mutual
theorem noPrivB_iff : ∀ v : TV, noPrivB v = true ↔ NoPrivTV v
  | .str _ => by simp [noPrivB, NoPrivTV]
  | .int _ => by simp [noPrivB, NoPrivTV]
  | .float _ => by simp [noPrivB, NoPrivTV]
  | .bool _ => by simp [noPrivB, NoPrivTV]
  | .dt _ => by simp [noPrivB, NoPrivTV]
  | .arr l => by rw [noPrivB, NoPrivTV]; exact noPrivVsB_iff l
  | .tbl items => by
    rw [noPrivB, NoPrivTV, Bool.and_eq_true, noPrivPsB_iff items]
    simp
theorem noPrivVsB_iff : ∀ l : List TV, noPrivVsB l = true ↔ NoPrivVs l
  | [] => by simp [noPrivVsB, NoPrivVs]
  | v :: r => by rw [noPrivVsB, NoPrivVs, Bool.and_eq_true, noPrivB_iff v, noPrivVsB_iff r]
theorem noPrivPsB_iff : ∀ l : List (Bytes × TV), noPrivPsB l = true ↔ NoPrivPs l
  | [] => by simp [noPrivPsB, NoPrivPs]
  | (_, v) :: r => by rw [noPrivPsB, NoPrivPs, Bool.and_eq_true, noPrivB_iff v, noPrivPsB_iff r]
end

/-! ## the predicate on the parsed tree, by membership -/

/-- `WfTV'` of the data of a value / an item / a table -/
def GV (v : Val) : Prop := WfTV' (plainVal v)
def GI (it : Item) : Prop := WfTV' (plainItem it)
def GT (t : Tbl) : Prop := WfTV' (plainTbl t)

theorem plainVals_map (l : List Val) : plainVals l = l.map plainVal := by
  induction l with
  | nil => rfl
  | cons v r ih => simp [plainVals, ih]

theorem plainValPairs_map (l : List (Bytes × Val)) : plainValPairs l = l.map fun kv => (kv.1, plainVal kv.2) := by
  induction l with
  | nil => rfl
  | cons x r ih => obtain ⟨k, v⟩ := x; simp [plainValPairs, ih]

theorem plainTbls_map (l : List Tbl) : plainTbls l = l.map plainTbl := by
  induction l with
  | nil => rfl
  | cons v r ih => simp [plainTbls, ih]

theorem gv_arr (l : List Val) : GV (.arr l) ↔ ∀ v ∈ l, GV v := by
  unfold GV
  rw [plainVal, WfTV', wfVs'_iff, plainVals_map]
  simp

theorem gv_inl (items : List (Bytes × Val)) (a b : Bool) :
    GV (.inl items a b) ↔ (items.map Prod.fst).Nodup ∧ ∀ p ∈ items, GV p.2 := by
  unfold GV
  rw [plainVal, WfTV', wfPs'_iff, plainValPairs_map]
  simp only [List.map_map, List.mem_map]
  constructor
  · rintro ⟨h1, h2⟩
    refine ⟨by simpa [Function.comp_def] using h2, ?_⟩
    intro p hp
    exact h1 _ ⟨p, hp, rfl⟩
  · rintro ⟨h1, h2⟩
    refine ⟨?_, by simpa [Function.comp_def] using h1⟩
    rintro _ ⟨p, hp, rfl⟩
    exact h2 p hp

theorem gi_value (v : Val) : GI (.value v) ↔ GV v := by unfold GI GV; rw [plainItem]
theorem gi_table (t : Tbl) : GI (.table t) ↔ GT t := by unfold GI GT; rw [plainItem]

theorem gi_aot (ts : List Tbl) : GI (.aot ts) ↔ ∀ t ∈ ts, GT t := by
  unfold GI GT
  rw [plainItem, WfTV', wfVs'_iff, plainTbls_map]
  simp

theorem gt_iff (t : Tbl) : GT t ↔ (t.items.map Prod.fst).Nodup ∧ ∀ p ∈ t.items, GI p.2 := by
  obtain ⟨items, a, b, c⟩ := t
  unfold GT GI
  rw [plainTbl, WfTV', wfPs'_iff, plainItems_eq]
  simp only [List.map_map, List.mem_map, Tbl.items]
  constructor
  · rintro ⟨h1, h2⟩
    refine ⟨by simpa [Function.comp_def] using h2, ?_⟩
    intro p hp
    exact h1 _ ⟨p, hp, rfl⟩
  · rintro ⟨h1, h2⟩
    refine ⟨?_, by simpa [Function.comp_def] using h1⟩
    rintro _ ⟨p, hp, rfl⟩
    exact h2 p hp

theorem gt_mk (items : List (Bytes × Item)) (a b : Bool) (c : Option Nat) :
    GT (.mk items a b c) ↔ (items.map Prod.fst).Nodup ∧ ∀ p ∈ items, GI p.2 := gt_iff _

theorem gt_setItems (t : Tbl) (l : List (Bytes × Item)) :
    GT (t.setItems l) ↔ (l.map Prod.fst).Nodup ∧ ∀ p ∈ l, GI p.2 := gt_iff _

theorem gt_of_nil (t : Tbl) (h : t.items = []) : GT t := by
  rw [gt_iff, h]; simp

/-! ## association lists, by membership -/
section AList
variable {α : Type}

theorem mem_of_alookup (k : Bytes) (v : α) (l : List (Bytes × α)) (h : alookup k l = some v) : (k, v) ∈ l := by
  induction l with
  | nil => simp [alookup] at h
  | cons p r ih =>
    obtain ⟨k', v'⟩ := p
    by_cases hk : k' = k
    · subst hk; simp [alookup] at h; subst h; simp
    · simp [alookup, hk] at h
      exact List.mem_cons_of_mem _ (ih h)

theorem mem_areplace (k : Bytes) (x : α) (l : List (Bytes × α)) (p : Bytes × α) (h : p ∈ areplace k x l) :
    p ∈ l ∨ p.2 = x := by
  induction l with
  | nil => simp [areplace] at h
  | cons q r ih =>
    obtain ⟨k', v'⟩ := q
    by_cases hk : k' = k
    · simp [areplace, hk] at h
      rcases h with h | h
      · right; rw [h]
      · left; exact List.mem_cons_of_mem _ h
    · simp [areplace, hk] at h
      rcases h with h | h
      · left; rw [h]; simp
      · rcases ih h with h' | h'
        · left; exact List.mem_cons_of_mem _ h'
        · right; exact h'

theorem mem_aset (k : Bytes) (x : α) (l : List (Bytes × α)) (p : Bytes × α) (h : p ∈ aset k x l) :
    p ∈ l ∨ p.2 = x := by
  unfold aset at h
  split at h
  · exact mem_areplace k x l p h
  · simp at h
    rcases h with h | h
    · exact Or.inl h
    · right; rw [h]

theorem mem_aerase (k : Bytes) (l : List (Bytes × α)) (p : Bytes × α) (h : p ∈ aerase k l) : p ∈ l := by
  induction l with
  | nil => simp [aerase] at h
  | cons q r ih =>
    obtain ⟨k', v'⟩ := q
    by_cases hk : k' = k
    · simp [aerase, hk] at h; exact List.mem_cons_of_mem _ h
    · simp [aerase, hk] at h
      rcases h with h | h
      · rw [h]; simp
      · exact List.mem_cons_of_mem _ (ih h)

theorem areplace_nodup (k : Bytes) (x : α) (l : List (Bytes × α)) (h : (l.map Prod.fst).Nodup) :
    ((areplace k x l).map Prod.fst).Nodup := by rw [areplace_keys]; exact h

theorem append_nodup (k : Bytes) (x : α) (l : List (Bytes × α)) (h : (l.map Prod.fst).Nodup) (hn : alookup k l = none) :
    ((l ++ [(k, x)]).map Prod.fst).Nodup := by
  rw [← aset_of_none k x l hn]; exact aset_nodup k x l h

theorem aerase_nodup (k : Bytes) (l : List (Bytes × α)) (h : (l.map Prod.fst).Nodup) :
    ((aerase k l).map Prod.fst).Nodup := by rw [aerase_keys]; exact h.erase k

end AList

end TomlVerif.Lemmas.TypedGapsParsed
