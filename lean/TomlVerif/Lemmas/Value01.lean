import TomlVerif.Spec.AstValue
import TomlVerif.Lemmas.ByteDecide
/-! Completeness of the container parsers (`array`, `inline_table`, trivia) over the abstract syntax
    of `Spec/AstValue.lean`. -/
namespace TomlVerif.Lemmas.Value01
open TomlVerif TomlVerif.Spec TomlVerif.Model TomlVerif.Model.Strings TomlVerif.Model.Value
open TomlVerif.Spec.AstValue

/-! ## trivia -/

theorem dropWs_allws (bs X : Bytes) (h : AllWs bs) : dropWs (bs ++ X) = dropWs X := by
  induction bs with
  | nil => rfl
  | cons b bs ih =>
    have hb : isWschar b = true := h b (by simp)
    simp only [List.cons_append, dropWs, hb, if_true]
    exact ih (fun c hc => h c (by simp [hc]))

theorem trivia_of_ws : ∀ b : UInt8, isWschar b = true → isTrivia b = true := forall_byte (by decide +kernel)
theorem not_ws_of_not_trivia (b : UInt8) (h : isTrivia b = false) : isWschar b = false := by
  cases hw : isWschar b with
  | false => rfl
  | true => rw [trivia_of_ws b hw] at h; cases h

theorem dropWs_stop (X : Bytes) (h : NoTriviaHead X) : dropWs X = X := by
  cases X with
  | nil => rfl
  | cons b r => simp [dropWs, not_ws_of_not_trivia b h]

theorem dropWs_head (b : UInt8) (r : Bytes) (h : isWschar b = false) : dropWs (b :: r) = b :: r := by
  simp [dropWs, h]

theorem wcn_congr (f : Nat) (s s' : Bytes) (h : dropWs s = dropWs s') :
    wsCommentNewline (f + 1) s = wsCommentNewline (f + 1) s' := by
  unfold wsCommentNewline
  simp only [h]

theorem wcn_ws (f : Nat) (bs X : Bytes) (h : AllWs bs) :
    wsCommentNewline (f + 1) (bs ++ X) = wsCommentNewline (f + 1) X :=
  wcn_congr f _ _ (dropWs_allws bs X h)

theorem wcn_nl (f : Nat) (c : Bool) (X : Bytes) :
    wsCommentNewline (f + 1) (nlBytes c ++ X) = wsCommentNewline f X := by
  cases c <;> simp [nlBytes, wsCommentNewline, dropWs, isWschar, newline?]

theorem nonEol_not_nl : ∀ b : UInt8, isNonEol b = true → b ≠ 0x0A ∧ b ≠ 0x0D := forall_byte (by decide +kernel)

theorem dropComment_body (body : Bytes) (c : Bool) (X : Bytes) (h : ∀ b ∈ body, isNonEol b = true) :
    dropComment (body ++ (nlBytes c ++ X)) = nlBytes c ++ X := by
  induction body with
  | nil => cases c <;> simp [nlBytes, dropComment, isNonEol, inR, isNonAscii]
  | cons b body ih =>
    have hb : isNonEol b = true := h b (by simp)
    simp only [List.cons_append, dropComment, hb, if_true]
    exact ih (fun c hc => h c (by simp [hc]))

theorem newline_nl (c : Bool) (X : Bytes) : newline? (nlBytes c ++ X) = some X := by
  cases c <;> simp [nlBytes, newline?]

theorem wcn_comment (f : Nat) (body : Bytes) (c : Bool) (X : Bytes) (h : ∀ b ∈ body, isNonEol b = true) :
    wsCommentNewline (f + 1) (0x23 :: (body ++ nlBytes c) ++ X) = wsCommentNewline f X := by
  conv => lhs; unfold wsCommentNewline
  simp only [List.cons_append, List.append_assoc]
  rw [dropWs_head _ _ (by decide)]
  simp only [dropComment_body body c X h, newline_nl]
  simp

theorem not_trivia_bytes : ∀ b : UInt8, isTrivia b = false →
    (b == 0x23) = false ∧ (b == 0x0A || b == 0x0D) = false := forall_byte (by decide +kernel)

theorem wcn_stop (f : Nat) (X : Bytes) (h : NoTriviaHead X) : wsCommentNewline (f + 1) X = some X := by
  unfold wsCommentNewline
  rw [dropWs_stop X h]
  cases X with
  | nil => rfl
  | cons b r =>
    have hb : isTrivia b = false := h
    have := not_trivia_bytes b hb
    simp [this.1, this.2]

/-- trivia is consumed exactly -/
theorem wcn_exact : ∀ (w : Wcn) (fuel : Nat) (rest : Bytes), WcnWF w → NoTriviaHead rest →
    (renderWcn w).length < fuel → wsCommentNewline fuel (renderWcn w ++ rest) = some rest := by
  intro w
  induction w with
  | nil =>
    intro fuel rest _ hr hf
    cases fuel with
    | zero => simp at hf
    | succ f => exact wcn_stop f rest hr
  | cons p w ih =>
    intro fuel rest hw hr hf
    have hw' : WcnWF w := fun q hq => hw q (by simp [hq])
    have hp : p.WF := hw p (by simp)
    cases fuel with
    | zero => simp at hf
    | succ f =>
      simp only [renderWcn, List.length_append] at hf
      cases p with
      | ws bs =>
        simp only [renderWcn, Piece.render, List.append_assoc]
        rw [wcn_ws f bs _ hp]
        exact ih (f + 1) rest hw' hr (by omega)
      | nl c =>
        simp only [renderWcn, Piece.render, List.append_assoc]
        rw [wcn_nl]
        have : 0 < (nlBytes c).length := by cases c <;> simp [nlBytes]
        simp only [Piece.render] at hf
        exact ih f rest hw' hr (by omega)
      | comment body c =>
        simp only [renderWcn, Piece.render]
        rw [List.append_assoc, wcn_comment f body c _ hp]
        simp only [Piece.render, List.length_cons] at hf
        exact ih f rest hw' hr (by omega)

/-! ## first bytes -/

theorem follow_of_trivia : ∀ b : UInt8, isTrivia b = true → isFollowByte b = true := forall_byte (by decide +kernel)
theorem not_trivia_of_not_follow (b : UInt8) (h : isFollowByte b = false) : isTrivia b = false := by
  cases ht : isTrivia b with
  | false => rfl
  | true => rw [follow_of_trivia b ht] at h; cases h
theorem follow_not_digit : ∀ b : UInt8, isFollowByte b = true → isDigit b = false := forall_byte (by decide +kernel)
theorem ws_not_digit : ∀ b : UInt8, isWschar b = true → isDigit b = false := forall_byte (by decide +kernel)

theorem piece_head (p : Piece) (hp : p.WF) : p.render = [] ∨ ∃ b r, p.render = b :: r ∧ isTrivia b = true := by
  cases p with
  | ws bs =>
    cases bs with
    | nil => left; rfl
    | cons b r => right; exact ⟨b, r, rfl, trivia_of_ws b (hp b (by simp))⟩
  | nl c => right; cases c <;> simp [Piece.render, nlBytes, isTrivia, isWschar]
  | comment body c => right; exact ⟨0x23, _, rfl, by decide⟩

theorem wcn_head : ∀ w : Wcn, WcnWF w → renderWcn w = [] ∨ ∃ b r, renderWcn w = b :: r ∧ isTrivia b = true := by
  intro w
  induction w with
  | nil => intro _; left; rfl
  | cons p w ih =>
    intro hw
    have hw' : WcnWF w := fun q hq => hw q (by simp [hq])
    rcases piece_head p (hw p (by simp)) with h | ⟨b, r, h, hb⟩
    · simp only [renderWcn, h, List.nil_append]; exact ih hw'
    · right; exact ⟨b, r ++ renderWcn w, by simp [renderWcn, h], hb⟩

theorem follow_wcn_append (w : Wcn) (X : Bytes) (hw : WcnWF w) (hX : ValFollow X) : ValFollow (renderWcn w ++ X) := by
  rcases wcn_head w hw with h | ⟨b, r, h, hb⟩
  · rw [h]; exact hX
  · rw [h]; exact follow_of_trivia b hb

theorem followS_wcn_append : ∀ (w : Wcn) (X : Bytes), WcnWF w → ValFollowS X → ValFollowS (renderWcn w ++ X) := by
  intro w
  induction w with
  | nil => intro X _ hX; exact hX
  | cons p w ih =>
    intro X hw hX
    have hw' : WcnWF w := fun q hq => hw q (by simp [hq])
    have hp : p.WF := hw p (by simp)
    refine ⟨follow_wcn_append _ X hw hX.1, ?_⟩
    intro b r he
    cases p with
    | ws bs =>
      cases bs with
      | nil => exact (ih X hw' hX).2 b r he
      | cons b0 bs =>
        cases bs with
        | nil =>
          simp only [renderWcn, Piece.render, List.cons_append, List.nil_append] at he
          have hf := follow_wcn_append w X hw' hX.1
          injection he with _ he
          rw [he] at hf
          exact follow_not_digit b hf
        | cons b1 bs =>
          simp only [renderWcn, Piece.render, List.cons_append] at he
          injection he with _ he
          injection he with he _
          subst he
          exact ws_not_digit _ (hp _ (by simp))
    | nl c => cases c <;> simp [renderWcn, Piece.render, nlBytes] at he
    | comment body c => simp [renderWcn, Piece.render] at he

theorem followS_of_head (b : UInt8) (r : Bytes) (h : isFollowByte b = true) (hb : b ≠ 0x20) : ValFollowS (b :: r) := by
  refine ⟨h, ?_⟩
  intro c t he
  injection he with he _
  exact absurd he hb

theorem render_head : ∀ a : AVal, WF a → ∃ b r, render a = b :: r ∧ isFollowByte b = false
  | .scalar t, h => by
    unfold WF at h
    obtain ⟨⟨b, r, h1, h2, _⟩, _⟩ := h
    exact ⟨b, r, by simp [render, h1], h2⟩
  | .arr items tc tail, _ => ⟨0x5B, _, by rw [render], by decide⟩
  | .inl items tail, _ => ⟨0x7B, _, by rw [render], by decide⟩

theorem noTrivia_render (a : AVal) (h : WF a) (X : Bytes) : NoTriviaHead (render a ++ X) := by
  obtain ⟨b, r, e, hb⟩ := render_head a h
  rw [e]; exact not_trivia_of_not_follow b hb

/-! ## unfolding steps -/

theorem value_close (f d : Nat) (r : Bytes) : value (f + 1) d (0x5D :: r) = .bt := by
  simp [value, isDigit, inR]

theorem arrayElems_stop (g d : Nat) (s s1 : Bytes) (acc : List Val)
    (h1 : wsCommentNewline (s.length + 1) s = some s1) (h2 : value g d s1 = .bt) :
    arrayElems (g + 1) d s acc = .ok acc s := by
  conv => lhs; unfold arrayElems
  simp only [h1, h2]

theorem arrayElems_last (g d : Nat) (s s1 s2 s3 : Bytes) (v : Val) (acc : List Val)
    (h1 : wsCommentNewline (s.length + 1) s = some s1) (h2 : value g d s1 = .ok v s2)
    (h3 : wsCommentNewline (s2.length + 1) s2 = some s3) (h4 : ∀ t, s3 ≠ 0x2C :: t) :
    arrayElems (g + 1) d s acc = .ok (acc ++ [v]) s3 := by
  conv => lhs; unfold arrayElems
  simp only [h1, h2, h3]
  try (split; all_goals first | rfl | (rename_i t; exact absurd rfl (h4 t)))

theorem arrayElems_more (g d : Nat) (s s1 s2 s4 r : Bytes) (v : Val) (acc vs : List Val)
    (h1 : wsCommentNewline (s.length + 1) s = some s1) (h2 : value g d s1 = .ok v s2)
    (h3 : wsCommentNewline (s2.length + 1) s2 = some (0x2C :: s4))
    (h4 : arrayElems g d s4 (acc ++ [v]) = .ok vs r) :
    arrayElems (g + 1) d s acc =
      if vs.length == (acc ++ [v]).length then .ok vs (0x2C :: s4) else .ok vs r := by
  conv => lhs; unfold arrayElems
  simp only [h1, h2, h3, h4]

theorem renderWcn_append (a b : Wcn) : renderWcn (a ++ b) = renderWcn a ++ renderWcn b := by
  induction a with
  | nil => rfl
  | cons p a ih => simp [renderWcn, ih]

theorem wcnWF_append (a b : Wcn) (ha : WcnWF a) (hb : WcnWF b) : WcnWF (a ++ b) := by
  intro p hp
  rcases List.mem_append.mp hp with h | h
  · exact ha p h
  · exact hb p h

theorem value_arr_ok (f d : Nat) (r r2 : Bytes) (vs : List Val) (hd : d + 1 < LIMIT)
    (h : arrayValues f (d + 1) r = .ok vs (0x5D :: r2)) : value (f + 1) d (0x5B :: r) = .ok (.arr vs) r2 := by
  have : ¬ LIMIT ≤ d + 1 := by omega
  conv => lhs; unfold value
  simp [this, h]

theorem arrayValues_close (f d : Nat) (r : Bytes) : arrayValues (f + 1) d (0x5D :: r) = .ok [] (0x5D :: r) := by
  conv => lhs; unfold arrayValues
  simp

theorem noTrivia_cons (b : UInt8) (r : Bytes) (h : isTrivia b = false) : NoTriviaHead (b :: r) := h

theorem arrayValues_none (f d : Nat) (s r2 : Bytes) (hs : ∀ t, s ≠ 0x5D :: t)
    (h : arrayElems f d s [] = .ok [] s) (h2 : wsCommentNewline (s.length + 1) s = some r2) :
    arrayValues (f + 1) d s = .ok [] r2 := by
  conv => lhs; unfold arrayValues
  split
  · rename_i t; exact absurd rfl (hs t)
  · simp [h, h2]

theorem arrayValues_comma (f d : Nat) (s t r2 : Bytes) (vs : List Val) (hs : ∀ t, s ≠ 0x5D :: t) (hv : vs ≠ [])
    (h : arrayElems f d s [] = .ok vs (0x2C :: t)) (h2 : wsCommentNewline (t.length + 1) t = some r2) :
    arrayValues (f + 1) d s = .ok vs r2 := by
  conv => lhs; unfold arrayValues
  split
  · rename_i t; exact absurd rfl (hs t)
  · cases vs with
    | nil => exact absurd rfl hv
    | cons v vs => simp [h, h2]

theorem arrayValues_nocomma (f d : Nat) (s r r2 : Bytes) (vs : List Val) (hs : ∀ t, s ≠ 0x5D :: t) (hv : vs ≠ [])
    (h : arrayElems f d s [] = .ok vs r) (hr : ∀ t, r ≠ 0x2C :: t) (h2 : wsCommentNewline (r.length + 1) r = some r2) :
    arrayValues (f + 1) d s = .ok vs r2 := by
  conv => lhs; unfold arrayValues
  split
  · rename_i t; exact absurd rfl (hs t)
  · cases vs with
    | nil => exact absurd rfl hv
    | cons v vs =>
      cases r with
      | nil => simp at h2; simp [h, h2]
      | cons b t =>
        by_cases hb : b = 0x2C
        · subst hb; exact absurd rfl (hr t)
        · simp only [List.length_cons] at h2; simp [h, h2]

/-- `[ tail ]` -/
theorem arrayValues_empty (f d : Nat) (tail : Wcn) (rest : Bytes) (hw : WcnWF tail) (hf : 2 ≤ f) :
    arrayValues (f + 1) d (renderWcn tail ++ 0x5D :: rest) = .ok [] (0x5D :: rest) := by
  have hnt : NoTriviaHead (0x5D :: rest) := noTrivia_cons _ _ (by decide)
  rcases wcn_head tail hw with h | ⟨b, r, h, hb⟩
  · rw [h]; exact arrayValues_close f d rest
  · have hw2 := wcn_exact tail ((renderWcn tail ++ 0x5D :: rest).length + 1) (0x5D :: rest) hw hnt (by simp; omega)
    obtain ⟨f1, rfl⟩ : ∃ f1, f = f1 + 1 := ⟨f - 1, by omega⟩
    obtain ⟨f2, rfl⟩ : ∃ f2, f1 = f2 + 1 := ⟨f1 - 1, by omega⟩
    apply arrayValues_none _ _ _ _ _ _ hw2
    · intro t ht
      rw [h] at ht
      simp at ht
      rw [ht.1] at hb
      revert hb; decide
    · exact arrayElems_stop _ _ _ _ _ hw2 (value_close _ _ _)

/-! ## inline tables: keys -/

theorem takeUnquoted_key (key Z : Bytes) (hk : ∀ b ∈ key, isUnquotedChar b = true)
    (hZ : ∀ b r, Z = b :: r → isUnquotedChar b = false) : Key.takeUnquoted (key ++ Z) = (key, Z) := by
  induction key with
  | nil =>
    cases Z with
    | nil => rfl
    | cons b r => simp [Key.takeUnquoted, hZ b r rfl]
  | cons b key ih =>
    have hb : isUnquotedChar b = true := hk b (by simp)
    simp [Key.takeUnquoted, hb, ih (fun c hc => hk c (by simp [hc]))]

theorem unquoted_not_quote : ∀ b : UInt8, isUnquotedChar b = true → (b == 0x22) = false ∧ (b == 0x27) = false :=
  forall_byte (by decide +kernel)
theorem ws_not_unquoted : ∀ b : UInt8, isWschar b = true → isUnquotedChar b = false := forall_byte (by decide +kernel)

theorem simpleKey_bare (key Z : Bytes) (hne : key ≠ []) (hk : ∀ b ∈ key, isUnquotedChar b = true)
    (hZ : ∀ b r, Z = b :: r → isUnquotedChar b = false) : Key.simpleKey (key ++ Z) = .ok key Z := by
  cases key with
  | nil => exact absurd rfl hne
  | cons b key =>
    have hb := unquoted_not_quote b (hk b (by simp))
    have ht := takeUnquoted_key (b :: key) Z hk hZ
    simp only [List.cons_append] at ht
    simp [Key.simpleKey, hb.1, hb.2, Key.unquotedKey, ht]

theorem dot_eq_facts : ∀ b : UInt8, b = 0x2E ∨ b = 0x3D → isUnquotedChar b = false ∧ isWschar b = false :=
  forall_byte (by decide +kernel)

/-- one component of a dotted key, followed by `.` or `=` -/
theorem key_component (k : KeyTok) (c : UInt8) (Y : Bytes) (hk : k.WF) (hc : c = 0x2E ∨ c = 0x3D) :
    Key.simpleKey (dropWs (k.render ++ c :: Y)) = .ok k.key (k.post ++ c :: Y) ∧ dropWs (k.post ++ c :: Y) = c :: Y := by
  obtain ⟨h1, h2, h3, h4⟩ := hk
  have hcf := dot_eq_facts c hc
  have hZ : ∀ b r, k.post ++ c :: Y = b :: r → isUnquotedChar b = false := by
    intro b r he
    cases hp : k.post with
    | nil => rw [hp] at he; simp at he; rw [← he.1]; exact hcf.1
    | cons x t => rw [hp] at he; simp at he; rw [← he.1]; exact ws_not_unquoted x (h2 x (by simp [hp]))
  have e1 : dropWs (k.render ++ c :: Y) = k.key ++ (k.post ++ c :: Y) := by
    simp only [KeyTok.render, List.append_assoc]
    rw [dropWs_allws _ _ h1]
    cases hkk : k.key with
    | nil => exact absurd hkk h3
    | cons b t =>
      have : isWschar b = false := by
        cases hw : isWschar b with
        | false => rfl
        | true => have := ws_not_unquoted b hw; rw [h4 b (by simp [hkk])] at this; cases this
      simp [dropWs, this]
  have e2 : dropWs (k.post ++ c :: Y) = c :: Y := by
    rw [dropWs_allws _ _ h2]; exact dropWs_head _ _ hcf.2
  exact ⟨by rw [e1]; exact simpleKey_bare k.key _ h3 h4 hZ, e2⟩

/-- `key`: the components of a dotted key are collected in order -/
theorem keyPathAux_dotted : ∀ (more : List KeyTok) (k : KeyTok) (acc : List Bytes) (fuel : Nat) (Y : Bytes),
    k.WF → (∀ x ∈ more, x.WF) → more.length < fuel →
    keyPathAux fuel (k.render ++ (renderKeySep more ++ 0x3D :: Y)) acc =
      .ok (acc ++ k.key :: more.map KeyTok.key) (0x3D :: Y) := by
  intro more
  induction more with
  | nil =>
    intro k acc fuel Y hk _ hf
    obtain ⟨f, rfl⟩ : ∃ f, fuel = f + 1 := ⟨fuel - 1, by omega⟩
    obtain ⟨e1, e2⟩ := key_component k 0x3D Y hk (Or.inr rfl)
    conv => lhs; unfold keyPathAux
    simp only [renderKeySep, List.nil_append, e1, e2]
    simp
  | cons k' ms ih =>
    intro k acc fuel Y hk hm hf
    obtain ⟨f, rfl⟩ : ∃ f, fuel = f + 1 := ⟨fuel - 1, by omega⟩
    simp only [List.length_cons] at hf
    obtain ⟨e1, e2⟩ := key_component k 0x2E (k'.render ++ (renderKeySep ms ++ 0x3D :: Y)) hk (Or.inl rfl)
    have h := ih k' (acc ++ [k.key]) f Y (hm k' (by simp)) (fun x hx => hm x (by simp [hx])) (by omega)
    conv => lhs; unfold keyPathAux
    simp only [renderKeySep, List.cons_append, List.append_assoc, e1, e2, h]
    simp

theorem renderKeySep_length (more : List KeyTok) : more.length ≤ (renderKeySep more).length := by
  induction more with
  | nil => simp [renderKeySep]
  | cons k ms ih => simp [renderKeySep]; omega

/-- a dotted key followed by `=` -/
theorem keyPath_dotted (k : DKey) (Y : Bytes) (hk : k.WF) :
    keyPath (k.render ++ 0x3D :: Y) = .ok k.keys (0x3D :: Y) := by
  obtain ⟨h1, h2, h3⟩ := hk
  have hl := renderKeySep_length k.more
  have h := keyPathAux_dotted k.more k.first [] ((k.render ++ 0x3D :: Y).length + 1) Y h1 h2
    (by simp [DKey.render]; omega)
  unfold keyPath
  simp only [DKey.render, List.append_assoc] at h ⊢
  rw [h]
  have : ¬ LIMIT ≤ (k.first.key :: k.more.map KeyTok.key).length := by simp; omega
  simp only [List.nil_append, this, if_false, DKey.keys]

theorem splitLast_splitKeys : ∀ (ks : List Bytes) (k : Bytes), splitLast (k :: ks) = some (splitKeys k ks) := by
  intro ks
  induction ks with
  | nil => intro k; rfl
  | cons k' ks ih =>
    intro k
    have := ih k'
    simp only [splitLast, this, splitKeys]

theorem splitLast_keys (k : DKey) : splitLast k.keys = some (k.path, k.last) :=
  splitLast_splitKeys _ _

theorem splitKeys_length : ∀ (ks : List Bytes) (k : Bytes), (splitKeys k ks).1.length = ks.length := by
  intro ks
  induction ks with
  | nil => intro k; rfl
  | cons k' ks ih => intro k; simp [splitKeys, ih k']

theorem keyPath_close (s rest : Bytes) (hs : dropWs s = 0x7D :: rest) : keyPath s = .bt := by
  unfold keyPath
  conv => lhs; unfold keyPathAux
  simp [hs, Key.simpleKey, Key.unquotedKey, Key.takeUnquoted, isUnquotedChar, inR]

/-! ## inline tables: steps -/

theorem inl_stop (g d : Nat) (s : Bytes) (acc : List (List Bytes × Bytes × Val)) (h : keyPath s = .bt) :
    inlineKeyvals (g + 1) d s acc = .ok acc s := by
  conv => lhs; unfold inlineKeyvals
  simp only [h]

theorem inl_last (g d : Nat) (s r1 r2 key : Bytes) (ks path : List Bytes) (v : Val) (acc : List (List Bytes × Bytes × Val))
    (hk : keyPath s = .ok ks (0x3D :: r1)) (hsl : splitLast ks = some (path, key)) (hd : d + (ks.length - 1) < LIMIT)
    (hv : value g (d + (ks.length - 1)) (dropWs r1) = .ok v r2) (h3 : ∀ t, dropWs r2 ≠ 0x2C :: t) :
    inlineKeyvals (g + 1) d s acc = .ok (acc ++ [(path, key, v)]) (dropWs r2) := by
  have : ¬ LIMIT ≤ d + (ks.length - 1) := by omega
  conv => lhs; unfold inlineKeyvals
  simp only [hk, this, if_false, hv, hsl]
  try (cases hr : dropWs r2 with
  | nil => rfl
  | cons b t =>
    by_cases hb : b = 0x2C
    · subst hb; exact absurd hr (h3 t)
    · simp [hb])

theorem inl_more (g d : Nat) (s r1 r2 r4 r5 key : Bytes) (ks path : List Bytes) (v : Val)
    (acc kvs : List (List Bytes × Bytes × Val))
    (hk : keyPath s = .ok ks (0x3D :: r1)) (hsl : splitLast ks = some (path, key)) (hd : d + (ks.length - 1) < LIMIT)
    (hv : value g (d + (ks.length - 1)) (dropWs r1) = .ok v r2)
    (h3 : dropWs r2 = 0x2C :: r4) (h4 : inlineKeyvals g d r4 (acc ++ [(path, key, v)]) = .ok kvs r5) :
    inlineKeyvals (g + 1) d s acc =
      if kvs.length == (acc ++ [(path, key, v)]).length then .ok kvs (0x2C :: r4) else .ok kvs r5 := by
  have : ¬ LIMIT ≤ d + (ks.length - 1) := by omega
  conv => lhs; unfold inlineKeyvals
  simp only [hk, this, if_false, hv, hsl, h3, h4]

theorem value_inl_ok (f d : Nat) (r r1 r2 : Bytes) (kvs : List (List Bytes × Bytes × Val)) (items : List (Bytes × Val))
    (hd : d + 1 < LIMIT) (h : inlineKeyvals f (d + 1) r [] = .ok kvs r1) (ht : tableFromPairs kvs [] = some items)
    (hc : dropWs r1 = 0x7D :: r2) : value (f + 1) d (0x7B :: r) = .ok (.inl items false false) r2 := by
  have : ¬ LIMIT ≤ d + 1 := by omega
  conv => lhs; unfold value
  simp [this, h, ht, hc]

/-! ## inline tables: assembling distinct bare keys -/

theorem alookup_none {α} (k : Bytes) : ∀ l : List (Bytes × α), k ∉ l.map Prod.fst → alookup k l = none := by
  intro l
  induction l with
  | nil => intro _; rfl
  | cons x l ih =>
    obtain ⟨k', v⟩ := x
    intro h
    simp at h
    have hne : (k' == k) = false := by
      simp; intro e; exact h.1 e.symm
    simp only [alookup, hne]
    exact ih (by simpa using h.2)

/-- plain (non-dotted) distinct keys: the table is the list of entries in order -/
theorem tableFromPairs_plain : ∀ (l : List (DKey × Bytes × AVal × Bytes)) (acc : List (Bytes × Val)),
    (∀ i ∈ l, i.1.more = []) → (l.map fun i => i.1.first.key).Nodup →
    (∀ k ∈ l.map (fun i => i.1.first.key), k ∉ acc.map Prod.fst) →
    tableFromPairs (flatPairs l) acc = some (acc ++ l.map fun i => (i.1.first.key, sem i.2.2.1)) := by
  intro l
  induction l with
  | nil => intro acc _ _ _; simp [flatPairs, tableFromPairs]
  | cons x l ih =>
    obtain ⟨k, w1, v, w2⟩ := x
    intro acc hm hn ha
    have hk0 : k.more = [] := hm (k, w1, v, w2) (by simp)
    simp only [List.map_cons, List.nodup_cons] at hn
    have hk : k.first.key ∉ acc.map Prod.fst := ha k.first.key (by simp)
    have e : flatPairs ((k, w1, v, w2) :: l) = ([], k.first.key, sem v) :: flatPairs l := by
      simp [flatPairs, DKey.path, DKey.last, hk0, splitKeys]
    rw [e]
    simp only [tableFromPairs, List.isEmpty_nil, inlInsert, alookup_none _ _ hk]
    simp only [Bool.false_eq_true, if_false, beq_iff_eq]
    rw [ih (acc ++ [(k.first.key, sem v)]) (fun i hi => hm i (by simp [hi])) hn.2]
    · simp
    · intro k' hk' hmem
      simp at hmem
      rcases hmem with hmem | hmem
      · exact ha k' (by simp at hk' ⊢; exact Or.inr hk') (by simpa using hmem)
      · rw [hmem] at hk'; exact hn.1 hk'

/-! ## the induction -/

def ValGoal (a : AVal) : Prop :=
  ∀ d fuel rest, d + depth a < LIMIT → ValFollowS rest → 2 * (render a).length ≤ fuel →
    value fuel d (render a ++ rest) = .ok (sem a) rest

/-- the same without a condition on what follows (arrays and inline tables) -/
def ContGoal (a : AVal) : Prop :=
  ∀ d fuel rest, d + depth a < LIMIT → 2 * (render a).length ≤ fuel →
    value fuel d (render a ++ rest) = .ok (sem a) rest

def closeTail (tc : Bool) (tail : Wcn) (rest : Bytes) : Bytes :=
  (if tc then [0x2C] else []) ++ (renderWcn tail ++ 0x5D :: rest)

def ItemsGoal (l : List (Wcn × AVal × Wcn)) : Prop :=
  l ≠ [] → ∀ d g tc tail rest acc, WcnWF tail → d + depthItems l < LIMIT → 2 * (renderItems l).length + 2 ≤ g →
    arrayElems g d (renderItems l ++ closeTail tc tail rest) acc =
      .ok (acc ++ semItems l) (if tc then 0x2C :: (renderWcn tail ++ 0x5D :: rest) else 0x5D :: rest)

def PairsGoal (l : List (DKey × Bytes × AVal × Bytes)) : Prop :=
  l ≠ [] → ∀ d g tail rest acc, AllWs tail → d + depthPairs l < LIMIT → 2 * (renderPairs l).length + 2 ≤ g →
    inlineKeyvals g d (renderPairs l ++ (tail ++ 0x7D :: rest)) acc = .ok (acc ++ flatPairs l) (0x7D :: rest)

theorem render_pos (a : AVal) (h : WF a) : 0 < (render a).length := by
  obtain ⟨b, r, e, _⟩ := render_head a h
  rw [e]; simp

theorem renderItemsSep_cons (p : Wcn × AVal × Wcn) (l : List (Wcn × AVal × Wcn)) :
    renderItemsSep (p :: l) = 0x2C :: renderItems (p :: l) := by
  obtain ⟨a, v, b⟩ := p; simp [renderItemsSep, renderItems]

theorem items_step (pre : Wcn) (v : AVal) (post : Wcn) (l' : List (Wcn × AVal × Wcn))
    (hpre : WcnWF pre) (hv : WF v) (hpost : WcnWF post) (ihv : ValGoal v) (ihl : ItemsGoal l') :
    ItemsGoal ((pre, v, post) :: l') := by
  intro _ d g tc tail rest acc htail hdep hg
  have hvpos := render_pos v hv
  simp only [depthItems] at hdep
  simp only [renderItems, List.length_append] at hg
  obtain ⟨g0, rfl⟩ : ∃ g0, g = g0 + 1 := ⟨g - 1, by omega⟩
  simp only [renderItems, semItems, List.append_assoc]
  have h1 : ∀ Y : Bytes, wsCommentNewline ((renderWcn pre ++ (render v ++ Y)).length + 1) (renderWcn pre ++ (render v ++ Y))
      = some (render v ++ Y) := fun Y =>
    wcn_exact pre _ _ hpre (noTrivia_render v hv _) (by simp; omega)
  cases l' with
  | nil =>
    simp only [renderItemsSep, List.nil_append, List.length_nil] at hg ⊢
    cases tc with
    | true =>
      simp only [closeTail, if_true, List.cons_append, List.nil_append]
      have hfol : ValFollowS (renderWcn post ++ 0x2C :: (renderWcn tail ++ 0x5D :: rest)) :=
        followS_wcn_append post _ hpost (followS_of_head 0x2C _ (by decide) (by decide))
      have h2 := ihv d g0 _ (by omega) hfol (by omega)
      have h3 : wsCommentNewline ((renderWcn post ++ 0x2C :: (renderWcn tail ++ 0x5D :: rest)).length + 1)
          (renderWcn post ++ 0x2C :: (renderWcn tail ++ 0x5D :: rest)) = some (0x2C :: (renderWcn tail ++ 0x5D :: rest)) :=
        wcn_exact post _ _ hpost (noTrivia_cons _ _ (by decide)) (by simp; omega)
      obtain ⟨g1, rfl⟩ : ∃ g1, g0 = g1 + 1 := ⟨g0 - 1, by omega⟩
      obtain ⟨g2, rfl⟩ : ∃ g2, g1 = g2 + 1 := ⟨g1 - 1, by omega⟩
      have hw : wsCommentNewline ((renderWcn tail ++ 0x5D :: rest).length + 1) (renderWcn tail ++ 0x5D :: rest)
          = some (0x5D :: rest) := wcn_exact tail _ _ htail (noTrivia_cons _ _ (by decide)) (by simp; omega)
      have h4 := arrayElems_stop (g2 + 1) d _ _ (acc ++ [sem v]) hw (value_close _ _ _)
      rw [arrayElems_more _ _ _ _ _ _ _ _ _ _ (h1 _) h2 h3 h4]
      simp [semItems]
    | false =>
      simp only [closeTail, List.nil_append, Bool.false_eq_true, if_false]
      have hfol : ValFollowS (renderWcn post ++ (renderWcn tail ++ 0x5D :: rest)) :=
        followS_wcn_append post _ hpost (followS_wcn_append tail _ htail (followS_of_head 0x5D _ (by decide) (by decide)))
      have h2 := ihv d g0 _ (by omega) hfol (by omega)
      have h3 : wsCommentNewline ((renderWcn post ++ (renderWcn tail ++ 0x5D :: rest)).length + 1)
          (renderWcn post ++ (renderWcn tail ++ 0x5D :: rest)) = some (0x5D :: rest) := by
        have := wcn_exact (post ++ tail) ((renderWcn post ++ (renderWcn tail ++ 0x5D :: rest)).length + 1) (0x5D :: rest)
          (wcnWF_append _ _ hpost htail) (noTrivia_cons _ _ (by decide)) (by simp [renderWcn_append]; omega)
        simpa [renderWcn_append] using this
      rw [arrayElems_last _ _ _ _ _ _ _ _ (h1 _) h2 h3 (by intro t ht; simp at ht)]
      simp [semItems]
  | cons p' l'' =>
    rw [renderItemsSep_cons] at hg ⊢
    simp only [List.cons_append, List.length_cons] at hg ⊢
    have hfol : ValFollowS (renderWcn post ++ 0x2C :: (renderItems (p' :: l'') ++ closeTail tc tail rest)) :=
      followS_wcn_append post _ hpost (followS_of_head 0x2C _ (by decide) (by decide))
    have h2 := ihv d g0 _ (by omega) hfol (by omega)
    have h3 : wsCommentNewline ((renderWcn post ++ 0x2C :: (renderItems (p' :: l'') ++ closeTail tc tail rest)).length + 1)
        (renderWcn post ++ 0x2C :: (renderItems (p' :: l'') ++ closeTail tc tail rest))
        = some (0x2C :: (renderItems (p' :: l'') ++ closeTail tc tail rest)) :=
      wcn_exact post _ _ hpost (noTrivia_cons _ _ (by decide)) (by simp; omega)
    have h4 := ihl (by simp) d g0 tc tail rest (acc ++ [sem v]) htail (by omega) (by omega)
    rw [arrayElems_more _ _ _ _ _ _ _ _ _ _ (h1 _) h2 h3 h4]
    obtain ⟨a', v', b'⟩ := p'
    simp [semItems]

theorem followS_ws_append (w X : Bytes) (hw : AllWs w) (hX : ValFollowS X) : ValFollowS (w ++ X) := by
  have := followS_wcn_append [.ws w] X (by intro p hp; simp at hp; subst hp; exact hw) hX
  simpa [renderWcn, Piece.render] using this

theorem renderPairsSep_cons (p : DKey × Bytes × AVal × Bytes) (l : List (DKey × Bytes × AVal × Bytes)) :
    renderPairsSep (p :: l) = 0x2C :: renderPairs (p :: l) := by
  obtain ⟨k, a, v, b⟩ := p; simp [renderPairsSep, renderPairs]

theorem pairs_step (k : DKey) (w1 : Bytes) (v : AVal) (w2 : Bytes) (l' : List (DKey × Bytes × AVal × Bytes))
    (hk : k.WF) (hw1 : AllWs w1) (hv : WF v) (hw2 : AllWs w2) (ihv : ValGoal v) (ihl : PairsGoal l') :
    PairsGoal ((k, w1, v, w2) :: l') := by
  intro _ d g tail rest acc htail hdep hg
  have hvpos := render_pos v hv
  simp only [depthPairs] at hdep
  simp only [renderPairs, List.length_append, List.length_cons] at hg
  obtain ⟨g0, rfl⟩ : ∃ g0, g = g0 + 1 := ⟨g - 1, by omega⟩
  simp only [renderPairs, List.append_assoc, List.cons_append]
  have hkp := fun Y => keyPath_dotted k Y hk
  have hsl := splitLast_keys k
  have hlen : k.keys.length - 1 = k.more.length := by simp [DKey.keys]
  have hdw : ∀ R2 : Bytes, dropWs (w1 ++ (render v ++ R2)) = render v ++ R2 := fun R2 => by
    rw [dropWs_allws _ _ hw1]; exact dropWs_stop _ (noTrivia_render v hv _)
  have e : flatPairs ((k, w1, v, w2) :: l') = (k.path, k.last, sem v) :: flatPairs l' := by simp [flatPairs]
  cases l' with
  | nil =>
    simp only [renderPairsSep, List.nil_append, List.length_nil] at hg ⊢
    have hfol : ValFollowS (w2 ++ (tail ++ 0x7D :: rest)) :=
      followS_ws_append _ _ hw2 (followS_ws_append _ _ htail (followS_of_head 0x7D _ (by decide) (by decide)))
    have h2 := ihv (d + (k.keys.length - 1)) g0 _ (by omega) hfol (by omega)
    rw [← hdw] at h2
    have hd2 : dropWs (w2 ++ (tail ++ 0x7D :: rest)) = 0x7D :: rest := by
      rw [dropWs_allws _ _ hw2, dropWs_allws _ _ htail]; exact dropWs_head _ _ (by decide)
    rw [inl_last _ _ _ _ _ _ _ _ _ _ (hkp _) hsl (by omega) h2 (by rw [hd2]; intro t ht; simp at ht), hd2, e]
    simp [flatPairs]
  | cons p' l'' =>
    rw [renderPairsSep_cons] at hg ⊢
    simp only [List.cons_append, List.length_cons] at hg ⊢
    have hfol : ValFollowS (w2 ++ 0x2C :: (renderPairs (p' :: l'') ++ (tail ++ 0x7D :: rest))) :=
      followS_ws_append _ _ hw2 (followS_of_head 0x2C _ (by decide) (by decide))
    have h2 := ihv (d + (k.keys.length - 1)) g0 _ (by omega) hfol (by omega)
    rw [← hdw] at h2
    have hd2 : dropWs (w2 ++ 0x2C :: (renderPairs (p' :: l'') ++ (tail ++ 0x7D :: rest)))
        = 0x2C :: (renderPairs (p' :: l'') ++ (tail ++ 0x7D :: rest)) := by
      rw [dropWs_allws _ _ hw2]; exact dropWs_head _ _ (by decide)
    have h4 := ihl (by simp) d g0 tail rest (acc ++ [(k.path, k.last, sem v)]) htail (by omega) (by omega)
    rw [inl_more _ _ _ _ _ _ _ _ _ _ _ _ _ (hkp _) hsl (by omega) h2 hd2 h4, e]
    obtain ⟨k', a', v', b'⟩ := p'
    simp [flatPairs]

theorem item_head_ne (pre : Wcn) (v : AVal) (Z : Bytes) (hpre : WcnWF pre) (hv : WF v) :
    ∀ t, renderWcn pre ++ (render v ++ Z) ≠ 0x5D :: t := by
  intro t he
  rcases wcn_head pre hpre with h | ⟨b, r, h, hb⟩
  · obtain ⟨b, r, e, hb⟩ := render_head v hv
    rw [h, e] at he
    simp at he
    rw [he.1] at hb
    revert hb; decide
  · rw [h] at he
    simp at he
    rw [he.1] at hb
    revert hb; decide

theorem scalar_case (t : ScalarTok) (h : ScalarOK t) : ValGoal (.scalar t) := by
  intro d fuel rest _ hfol hfuel
  obtain ⟨⟨b, r, e, _⟩, h2⟩ := h
  simp only [render, sem] at hfuel ⊢
  exact h2 fuel d rest (by rw [e] at hfuel; simp at hfuel; omega) hfol

theorem arr_case (items : List (Wcn × AVal × Wcn)) (tc : Bool) (tail : Wcn) (hwf : WFItems items)
    (hit : ItemsGoal items) (htail : WcnWF tail) (htc : items = [] → tc = false) : ContGoal (.arr items tc tail) := by
  intro d fuel rest hdep hfuel
  simp only [render, depth, sem, List.length_cons, List.length_append, List.length_nil] at hdep hfuel ⊢
  obtain ⟨f, rfl⟩ : ∃ f, fuel = f + 1 := ⟨fuel - 1, by omega⟩
  simp only [List.cons_append]
  apply value_arr_ok f d _ rest _ (by omega)
  have e : renderItems items ++ ((if tc = true then [0x2C] else []) ++ (renderWcn tail ++ [0x5D])) ++ rest
      = renderItems items ++ closeTail tc tail rest := by simp [closeTail]
  rw [e]
  obtain ⟨f0, rfl⟩ : ∃ f0, f = f0 + 1 := ⟨f - 1, by omega⟩
  cases items with
  | nil =>
    rw [htc rfl]
    simp only [renderItems, List.nil_append, closeTail, semItems, Bool.false_eq_true, if_false]
    exact arrayValues_empty f0 (d + 1) tail rest htail (by omega)
  | cons p l =>
    obtain ⟨pre, v, post⟩ := p
    rw [WFItems] at hwf
    have hs : ∀ t, renderItems ((pre, v, post) :: l) ++ closeTail tc tail rest ≠ 0x5D :: t := by
      simp only [renderItems, List.append_assoc]
      exact item_head_ne pre v _ hwf.1 hwf.2.1
    have hne : semItems ((pre, v, post) :: l) ≠ [] := by simp [semItems]
    have h := hit (by simp) (d + 1) f0 tc tail rest [] htail (by omega) (by omega)
    simp only [List.nil_append] at h
    cases tc with
    | true =>
      simp only [if_true] at h
      exact arrayValues_comma f0 (d + 1) _ _ _ _ hs hne h
        (wcn_exact tail _ _ htail (noTrivia_cons _ _ (by decide)) (by simp; omega))
    | false =>
      simp only [Bool.false_eq_true, if_false] at h
      exact arrayValues_nocomma f0 (d + 1) _ _ _ _ hs hne h (by intro t ht; simp at ht)
        (wcn_stop _ _ (noTrivia_cons _ _ (by decide)))

theorem inl_case (items : List (DKey × Bytes × AVal × Bytes)) (tail : Bytes)
    (hp : PairsGoal items) (htail : AllWs tail) (hnd : (tableFromPairs (flatPairs items) []).isSome = true) :
    ContGoal (.inl items tail) := by
  intro d fuel rest hdep hfuel
  simp only [render, depth, sem, List.length_cons, List.length_append, List.length_nil] at hdep hfuel ⊢
  obtain ⟨f, rfl⟩ : ∃ f, fuel = f + 1 := ⟨fuel - 1, by omega⟩
  simp only [List.cons_append, List.append_assoc, List.nil_append]
  have hc : dropWs (0x7D :: rest) = 0x7D :: rest := dropWs_head _ _ (by decide)
  obtain ⟨tbl, ht⟩ := Option.isSome_iff_exists.1 hnd
  rw [ht, Option.getD_some]
  cases items with
  | nil =>
    obtain ⟨f0, rfl⟩ : ∃ f0, f = f0 + 1 := ⟨f - 1, by omega⟩
    have hd : dropWs (tail ++ 0x7D :: rest) = 0x7D :: rest := by rw [dropWs_allws _ _ htail]; exact hc
    simp only [renderPairs, List.nil_append]
    exact value_inl_ok _ d _ _ rest [] tbl (by omega) (inl_stop f0 (d + 1) _ [] (keyPath_close _ rest hd)) ht hd
  | cons p l =>
    have h := hp (by simp) (d + 1) f tail rest [] htail (by omega) (by omega)
    simp only [List.nil_append] at h
    exact value_inl_ok _ d _ _ rest _ _ (by omega) h ht hc

mutual
theorem val_ok : ∀ a : AVal, WF a → ValGoal a
  | .scalar t, h => scalar_case t (by rw [WF] at h; exact h)
  | .arr items tc tail, h => by
    rw [WF] at h
    exact fun d fuel rest hd _ hf => arr_case items tc tail h.1 (items_ok items h.1) h.2.1 h.2.2 d fuel rest hd hf
  | .inl items tail, h => by
    rw [WF] at h
    exact fun d fuel rest hd _ hf => inl_case items tail (pairs_ok items h.1) h.2.1 h.2.2 d fuel rest hd hf
theorem items_ok : ∀ l : List (Wcn × AVal × Wcn), WFItems l → ItemsGoal l
  | [], _ => fun h => absurd rfl h
  | (pre, v, post) :: l, h => by
    rw [WFItems] at h
    exact items_step pre v post l h.1 h.2.1 h.2.2.1 (val_ok v h.2.1) (items_ok l h.2.2.2)
theorem pairs_ok : ∀ l : List (DKey × Bytes × AVal × Bytes), WFPairs l → PairsGoal l
  | [], _ => fun h => absurd rfl h
  | (k, w1, v, w2) :: l, h => by
    rw [WFPairs] at h
    exact pairs_step k w1 v w2 l h.1 h.2.1 h.2.2.1 h.2.2.2.1 (val_ok v h.2.2.1) (pairs_ok l h.2.2.2.2)
end

/-! ## scalar instances -/

def trueTok : ScalarTok := ⟨[0x74, 0x72, 0x75, 0x65], .bool true⟩
def falseTok : ScalarTok := ⟨[0x66, 0x61, 0x6C, 0x73, 0x65], .bool false⟩

theorem scalarOK_true : ScalarOK trueTok := by
  refine ⟨⟨0x74, _, rfl, by decide, by decide, by decide⟩, ?_⟩
  intro fuel d rest hf _
  obtain ⟨f, rfl⟩ : ∃ f, fuel = f + 1 := ⟨fuel - 1, by omega⟩
  simp [trueTok, value, Numbers.keyword, Numbers.startsWith, isDigit, inR, Res.map]

theorem scalarOK_false : ScalarOK falseTok := by
  refine ⟨⟨0x66, _, rfl, by decide, by decide, by decide⟩, ?_⟩
  intro fuel d rest hf _
  obtain ⟨f, rfl⟩ : ∃ f, fuel = f + 1 := ⟨fuel - 1, by omega⟩
  simp [falseTok, value, Numbers.keyword, Numbers.startsWith, isDigit, inR, Res.map]

/-! ## `line_trailing` -/

def commentBytes : Option Bytes → Bytes
  | some body => 0x23 :: body
  | none => []

theorem dropComment_all (body : Bytes) (h : ∀ b ∈ body, isNonEol b = true) : dropComment body = [] := by
  induction body with
  | nil => rfl
  | cons b body ih =>
    simp only [dropComment, h b (by simp), if_true]
    exact ih (fun c hc => h c (by simp [hc]))

/-- `ws [comment] newline` is consumed exactly -/
theorem lineTrailing_nl (bs : Bytes) (cm : Option Bytes) (c : Bool) (rest : Bytes) (hbs : AllWs bs)
    (hcm : ∀ body, cm = some body → ∀ b ∈ body, isNonEol b = true) :
    lineTrailing (bs ++ (commentBytes cm ++ (nlBytes c ++ rest))) = .ok () rest := by
  unfold lineTrailing
  rw [dropWs_allws _ _ hbs]
  cases cm with
  | none =>
    cases c <;> simp [commentBytes, nlBytes, dropWs, isWschar, newline?]
  | some body =>
    simp only [commentBytes, List.cons_append]
    rw [dropWs_head _ _ (by decide)]
    simp only [dropComment_body body c rest (hcm body rfl)]
    cases c <;> simp [nlBytes, newline?]

/-- `ws [comment]` at the end of the input -/
theorem lineTrailing_eof (bs : Bytes) (cm : Option Bytes) (hbs : AllWs bs)
    (hcm : ∀ body, cm = some body → ∀ b ∈ body, isNonEol b = true) :
    lineTrailing (bs ++ commentBytes cm) = .ok () [] := by
  unfold lineTrailing
  rw [dropWs_allws _ _ hbs]
  cases cm with
  | none => simp [commentBytes, dropWs]
  | some body =>
    simp only [commentBytes]
    rw [dropWs_head _ _ (by decide)]
    simp only [dropComment_all body (hcm body rfl)]

end TomlVerif.Lemmas.Value01
