import TomlVerif.Lemmas.Tiling03MoreGen2Tree
/-! C03, same data, headers THROUGH dotted-key tables — the parse-state invariants: `AInvT22`
    (`AInvT2` with `SpineA22` and `gk2Items`), `finalize_table`, the header line with `hdrLineOkT22`;
    `GInvG22` (`GInvG2` on top of `AInvT22`), the key/value line. -/
namespace TomlVerif.Lemmas.Tiling03More.Gen
open TomlVerif TomlVerif.Spec TomlVerif.Model TomlVerif.Model.Strings TomlVerif.Model.Value
open TomlVerif.Model.Cst TomlVerif.Model.Encode TomlVerif.Lemmas.Suffix03 TomlVerif.Lemmas.Cst03
open TomlVerif.Lemmas.LastByte03 TomlVerif.Lemmas.Tiling03 TomlVerif.Lemmas.Tiling03Hdr
open TomlVerif.Lemmas.Tiling03Nest TomlVerif.Lemmas.Tiling03More TomlVerif.Lemmas.Tiling03More.VS
open TomlVerif.Lemmas.Tiling03More.Tko TomlVerif.Lemmas.Tiling03More.Nad
open TomlVerif.Spec.AstValue TomlVerif.Spec.AstValueQ TomlVerif.Spec.AstDoc TomlVerif.Spec.AstDocQ
open TomlVerif.Lemmas.Value01 (commentBytes)
open TomlVerif.Lemmas.State09 (Stmt run step run_append)

def PhaseT2 (inp : Bytes) (st : CState) (T : Bytes) : Prop :=
  (st.root = CTbl.empty ∧ st.currentPath = [] ∧
    ∃ items imp sp, st.current = .mk items imp false none {} sp ∧ MixOk inp items ∧
      (∀ X, nsItems stripCr inp items X = []) ∧ gk2Items inp items ∧
      T = encodeBody stripCr inp (valuesTbl items [])) ∨
  (∃ pp key items q lead trail sp SP, st.currentPath = pp ++ [key] ∧
    st.current = .mk items false false (some q) (Decor.new lead trail) sp ∧ MixOk inp items ∧
    gk2Items inp items ∧ SpineA2 inp st.currentIsArray key st.root pp SP ∧ st.root.dotted = false ∧
    (∀ x ∈ Nof inp st.root items SP, x.2.1 = true ∧ x.1 < st.position) ∧ PosInj (Nof inp st.root items SP) ∧
    T = entText stripCr inp st.root [] false ++ flatP (sortP (pairsN (Nof inp st.root items SP)))
          ++ entText stripCr inp st.current SP st.currentIsArray)

def AInvT2 (Tv : Bytes → Prop) (inp : Bytes) (st : CState) (s : Bytes) : Prop :=
  ∃ ls T tr, (∀ p ∈ ls, QLine.WF p.1) ∧ T = renderLinesQ ls ∧
    run {} (stmtsLinesQ ls) = some (eraseState st) ∧
    PhaseT2 inp st T ∧ PInvT st ∧ gk2Items inp st.root.items ∧
    TrailIs inp.length st.trailing tr s ∧ tr ++ s <:+ inp ∧ Tv tr

theorem ainv2_onWs (Tv Tv' : Bytes → Prop) (inp : Bytes) (st : CState) (w s' : Bytes)
    (h : AInvT2 Tv inp st (w ++ s')) (hext : ∀ tr, Tv tr → Tv' (tr ++ w)) :
    AInvT2 Tv' inp (onWs st (pos inp.length (w ++ s')) (pos inp.length s')) s' := by
  obtain ⟨e1, e2, e3, e4, e5⟩ := onWs_fields st (pos inp.length (w ++ s')) (pos inp.length s')
  obtain ⟨ls, T, tr, a1, a2, a3, a4, a5, a6, a7, a8, a9⟩ := h
  refine ⟨ls, T, tr ++ w, a1, a2, by rw [onWs_erase]; exact a3, ?_, ?_, by rw [e1]; exact a6,
    trailIs_onWs _ st tr w s' a7, by simpa [List.append_assoc] using a8, hext tr a9⟩
  · unfold PhaseT2; rw [e1, e2, e3, e4, e5]; exact a4
  · unfold PInvT; rw [e1, e2, e3, e5]; exact a5

theorem ainv2_consume (Tv Tv' : Bytes → Prop) (inp : Bytes) (st : CState) (s s' : Bytes)
    (h : AInvT2 Tv inp st s) (hext : ∃ w, s = w ++ s' ∧ ∀ tr, Tv tr → Tv' (tr ++ w)) :
    AInvT2 Tv' inp (onWs st (pos inp.length s) (pos inp.length s')) s' := by
  obtain ⟨w, hw, he⟩ := hext
  subst hw
  exact ainv2_onWs Tv Tv' inp st w s' h he

theorem ainv2_parseWs (inp : Bytes) (st : CState) (s : Bytes) (h : AInvT2 TrivOK inp st s) :
    AInvT2 TrivOK inp (parseWs inp.length st s).1 (parseWs inp.length st s).2 := by
  obtain ⟨w, hw, e, _⟩ := Sound01.dropWs_split s
  exact ainv2_consume TrivOK TrivOK inp st s (dropWs s) h ⟨w, e, fun tr ht => triv_ws tr w ht hw⟩

theorem ainv2_parseWs_end (inp : Bytes) (st : CState) (h : AInvT2 TrivEnd inp st []) :
    AInvT2 TrivEnd inp (parseWs inp.length st []).1 (parseWs inp.length st []).2 :=
  ainv2_consume TrivEnd TrivEnd inp st [] [] h ⟨[], rfl, fun tr ht => by simpa using ht⟩

theorem ainv2_end (inp : Bytes) (st : CState) (s : Bytes) (h : AInvT2 TrivOK inp st s) : AInvT2 TrivEnd inp st s := by
  obtain ⟨ls, T, tr, a1, a2, a3, a4, a5, a6, a7, a8, a9⟩ := h
  exact ⟨ls, T, tr, a1, a2, a3, a4, a5, a6, a7, a8, triv_end tr a9⟩

/-! ### `finalize_table` -/

theorem finalize_T2 (inp : Bytes) (st st1 : CState) (T : Bytes) (hfin : finalizeTable st = some st1)
    (hsh : PhaseT2 inp st T) (hP : PInvT st) (hg : gk2Items inp st.root.items) :
    rootTextO stripCr inp st1.root = T ∧ st1.root.dotted = false ∧
    st1.trailing = st.trailing ∧ st1.position = st.position ∧ st1.current = CTbl.empty ∧
    st1.root.pos = none ∧ st1.root.decor.pre = none ∧ st1.root.decor.suf = none ∧
    (∀ x ∈ nsItems stripCr inp st1.root.items [], x.2.1 = true ∧ x.1 ≤ st.position) ∧
    PosInj (nsItems stripCr inp st1.root.items []) ∧
    gk2Items inp st1.root.items ∧ tiTbl st1.root = true := by
  obtain ⟨p1, p2, p3, p4, p5, p6⟩ := hP
  rcases finalize_cases st st1 hfin with ⟨hp, _, e⟩ | ⟨pp', key', root', hp, hd, e⟩
  · subst e
    rcases hsh with ⟨_, _, items, imp, sp, a3, a4, a4n, a4g, aT⟩ | ⟨pp, key, _, _, _, _, _, _, b1, _⟩
    · simp only []
      have hti : tiTbl st.current = true := p5
      rw [a3] at hti ⊢
      refine ⟨?_, (by first | rfl | trivial), (by first | rfl | trivial), (by first | rfl | trivial),
        (by first | rfl | trivial), (by first | rfl | trivial), (by first | rfl | trivial),
        (by first | rfl | trivial), ?_, ?_, a4g, hti⟩
      · simp only [rootTextO, CTbl.items]
        rw [a4n [], entText_root, aT]
        simp [pairsN, sortP, sortG, flatP, CTbl.items]
      · simp only [CTbl.items]
        rw [a4n []]
        intro x hx; cases hx
      · simp only [CTbl.items]
        rw [a4n []]
        intro a ha; cases ha
    · rw [hp] at b1; exact absurd b1.symm (by simp)
  · subst e
    rcases hsh with ⟨_, a2, _⟩ | ⟨pp, key, items, q, lead, trail, sp, SP, b1, b2, b3, b3g, b4, b4d, c6, c7, bT⟩
    · rw [a2] at hp; exact absurd hp.symm (by simp)
    · rw [b1] at hp
      obtain ⟨e1, e2⟩ := snoc_inj hp
      subst e1; subst e2
      have hne : st.currentPath ≠ [] := by rw [b1]; simp
      have hq : q = st.position := by
        have := p6 hne
        rw [b2] at this
        simpa [CTbl.pos] using this
      subst hq
      have hcd : st.current.dotted = false := by rw [b2]; rfl
      have hcq : st.current.pos = some st.position := p6 hne
      have hgc : gk2Items inp st.current.items := by rw [b2]; exact b3g
      obtain ⟨⟨l1, l2, i1, i2⟩, i3, i4⟩ := fin_spineT2 stripCr inp st.currentIsArray key st.current hcd hgc
        pp st.root root' [] SP b4 hg hd
      have hs := descend_setItems _ (finFn_setItems st.currentIsArray key st.current) pp _ _ _ hd
      have hti' : tiTbl root' = true :=
        descend_ti _ (fun p p' h ht => finFn_ti st.currentIsArray key st.current p p' p5 h ht) pp _ _ _ p4 hd
      generalize he : ((st.position, true, entText stripCr inp st.current SP st.currentIsArray) : Nat × Bool × Bytes) = e at *
      have hcurN : nsTbl stripCr inp st.current ([] ++ SP) st.currentIsArray = e :: nsItems stripCr inp items SP := by
        rw [nsTbl_eq, hdN_some stripCr inp st.current _ _ st.position hcd hcq, ← he, b2]
        simp [CTbl.items, CTbl.decor, Decor.new]
      rw [hcurN] at i2
      unfold Nof at c6 c7 bT
      rw [i1] at c6 c7 bT
      generalize hD : nsItems stripCr inp items SP = D at *
      have hperm : (l1 ++ e :: (D ++ l2)).Perm (e :: (l1 ++ l2 ++ D)) :=
        List.perm_middle.trans (List.Perm.cons e (by rw [List.append_assoc]; exact List.Perm.append_left l1 List.perm_append_comm))
      have hi2 : nsItems stripCr inp root'.items [] = l1 ++ e :: (D ++ l2) := by
        rw [i2]; simp [List.append_assoc]
      have hlt : ∀ x ∈ l1 ++ l2 ++ D, x.1 < e.1 := by
        intro x hx; rw [← he]; exact (c6 x hx).2
      have hinj : PosInj (e :: (l1 ++ l2 ++ D)) := posInj_cons e _ c7 hlt
      simp only []
      refine ⟨?_, by rw [hs]; simpa using b4d, (by first | rfl | trivial), (by first | rfl | trivial),
        (by first | rfl | trivial), by rw [hs]; exact p1, by rw [hs]; exact p2, by rw [hs]; exact p3, ?_, ?_, i4, hti'⟩
      · rw [bT]
        simp only [rootTextO]
        rw [entText_tbl_congr stripCr inp st.root root' [] false (by rw [hs]; simp) (by rw [hs]; simp) (i3 []), hi2,
          ← sortP_pairs_perm _ _ hperm.symm hinj]
        have hmax : ∀ y ∈ ([] : PT) ++ pairsN (l1 ++ l2 ++ D), y.1 < e.1 := by
          intro y hy
          obtain ⟨x, hx, ex⟩ := mem_pairsN (by simpa using hy)
          rw [ex]; exact hlt x (by simpa [List.append_assoc] using hx)
        have hsort := sortP_new_max (e.1, e.2.2) [] (pairsN (l1 ++ l2 ++ D)) hmax
        have hone : pairsN (e :: (l1 ++ l2 ++ D)) = [] ++ [(e.1, e.2.2)] ++ pairsN (l1 ++ l2 ++ D) := rfl
        rw [hone, hsort, flatP_append, ← he]
        simp [flatP, List.append_assoc]
      · intro x hx
        rw [hi2] at hx
        have hx' := hperm.mem_iff.1 hx
        rcases List.mem_cons.1 hx' with hx' | hx'
        · rw [hx', ← he]; exact ⟨rfl, Nat.le_refl _⟩
        · have := c6 x hx'
          exact ⟨this.1, Nat.le_of_lt this.2⟩
      · rw [hi2]; exact posInj_perm hperm.symm hinj

/-! ### the header line -/

theorem hdrLineOkT2_use (inp : Bytes) (st st1 : CState) (a : Bool) (r rest : Bytes) (ks pp : List CKey) (key : CKey)
    (hok : hdrLineOkT2 inp st ((if a then [0x5B, 0x5B] else [0x5B]) ++ r) = true)
    (hfin : finalizeTable st = some st1) (hk : ckeyPath inp.length r = .ok ks rest)
    (hsl : splitLast ks = some (pp, key)) : pathOkT2 inp a key st1.root pp = true := by
  unfold hdrLineOkT2 at hok
  rw [hfin] at hok
  simp only [Bool.and_eq_true] at hok
  cases a with
  | true =>
    have h1 := hok.1
    simp only [if_true, List.cons_append, List.nil_append, hdrChkT2, hk, hsl] at h1
    exact h1
  | false =>
    have h2 := hok.2
    simp only [Bool.false_eq_true, if_false, List.cons_append, List.nil_append, hdrChkT2, hk, hsl] at h2
    exact h2

theorem header_step_T2 (inp : Bytes) (st st' : CState) (s r3 : Bytes)
    (h : ctableLine inp.length st s = some (st', r3)) (hok : hdrLineOkT2 inp st s = true)
    (hI : AInvT2 TrivOK inp st s) : AInvT2 TrivOK inp st' r3 := by
  have hrest := ctableLine_rest _ _ _ _ _ h
  obtain ⟨isArr, r, ks, r2, hsr, hk, hlt, ho⟩ := table_frame _ _ _ _ _ h
  clear h
  obtain ⟨ls, T, tr, a1, a2, a3, hsh, hP, hg, a7, a8, a9⟩ := hI
  have hs : s <:+ inp := (List.suffix_append tr s).trans a8
  have hr : r <:+ inp := (hsr ▸ suffix_of_append _ r).trans hs
  have hksG := ckeyPath_GK inp r _ ks hr hk
  have hstep : step (eraseState st) (if isArr then .arr (keysOf ks) else .std (keysOf ks)) = some (eraseState st') := by
    cases isArr with
    | false =>
      simp only [Bool.false_eq_true, if_false] at ho ⊢
      show State.onStdHeader (eraseState st) (keysOf ks) = _
      rw [← onStdHeader_erase st ks _ _, ho]; rfl
    | true =>
      simp only [if_true] at ho ⊢
      show State.onArrayHeader (eraseState st) (keysOf ks) = _
      rw [← onArrayHeader_erase st ks _ _, ho]; rfl
  have key_fact : ∃ st1 pp key root' ci, finalizeTable st = some st1 ∧ ks = pp ++ [key] ∧
      descend st1.root pp false (if isArr then arrFn key else eraseFn key) = some root' ∧
      st' = { st1 with root := root', trailing := none, position := st1.position + 1, current := .mk ci false false (some (st1.position + 1)) (Decor.new (takeTrailing st1.trailing) (rawBetween inp.length r2 (trailEnd r2))) (some (pos inp.length s, pos inp.length r2)), currentIsArray := isArr, currentPath := ks } ∧
      pathOkT2 inp isArr key st1.root pp = true ∧
      (∀ tk, findTable key.key st1.root pp = some tk → isArr = false → ci = tk.items) ∧
      (findTable key.key st1.root pp = none → ci = []) ∧ (isArr = true → ci = []) := by
    cases isArr with
    | false =>
      simp only [Bool.false_eq_true, if_false] at ho hk hsr ⊢
      unfold onStdHeader at ho
      split at ho
      · rename_i st1 hfin
        obtain ⟨_, _, _, _, f5, _⟩ := finalize_T2 inp st st1 T hfin hsh hP hg
        obtain ⟨pp, key, root', hks, _, hroot, hst'⟩ := startTable_cases _ _ _ _ _ ho
        simp only [] at hroot
        have hsl : splitLast ks = some (pp, key) := by rw [hks]; exact vsplitLast_snoc pp key
        have hpo := hdrLineOkT2_use inp st st1 false r _ ks pp key (by simpa [hsr] using hok) hfin hk hsl
        refine ⟨st1, pp, key, root', ((findTable key.key st1.root pp).getD st1.current).items, hfin, hks, hroot, hst', hpo,
          ?_, ?_, fun h => by cases h⟩
        · intro tk htk _; rw [htk]; rfl
        · intro hn; rw [hn, f5]; rfl
      · cases ho
    | true =>
      simp only [if_true] at ho hk hsr ⊢
      unfold onArrayHeader at ho
      split at ho
      · rename_i st1 hfin
        obtain ⟨_, _, _, _, f5, _⟩ := finalize_T2 inp st st1 T hfin hsh hP hg
        obtain ⟨pp, key, root', hks, hroot, hst'⟩ := startArrayTable_cases _ _ _ _ _ ho
        simp only [] at hroot
        have hsl : splitLast ks = some (pp, key) := by rw [hks]; exact vsplitLast_snoc pp key
        have hpo := hdrLineOkT2_use inp st st1 true r _ ks pp key (by simpa [hsr] using hok) hfin hk hsl
        have hci : st1.current.items = [] := by rw [f5]; rfl
        refine ⟨st1, pp, key, root', st1.current.items, hfin, hks, hroot, hst', hpo, ?_, fun _ => hci, fun _ => hci⟩
        intro tk _ h; cases h
      · cases ho
  obtain ⟨st1, pp, key, root', ci, hfin, hks, hroot, hst', hpo, hc1, hc2, hc3⟩ := key_fact
  obtain ⟨f1, f2, f3, f4, f5, f6, f7, f8, f9, f9i, f10, f11⟩ := finalize_T2 inp st st1 T hfin hsh hP hg
  obtain ⟨⟨SP, Hd, K, l1, l2, i1, jh, j1, j2, j3, j4⟩, i2, i4⟩ := start_spineT2 stripCr inp isArr key
    (hksG key (by rw [hks]; simp)) pp st1.root root' []
    (fun k hk' => hksG k (by rw [hks]; exact List.mem_append_left _ hk')) hpo f10 f11 hroot
  have hs' := descend_setItems _ (startFn_setItems isArr key) pp _ _ _ hroot
  have hti' : tiTbl root' = true := descend_ti _ (startFn_ti isArr key) pp _ _ _ f11 hroot
  have hHd : Hd = [] := by
    cases Hd with
    | nil => rfl
    | cons x rest =>
      have h1 := jh x (by simp)
      have h2 := (f9 x (by rw [j1]; simp)).1
      rw [h1] at h2; cases h2
  subst hHd
  simp only [List.nil_append] at j1
  -- the new current table
  have hcur : K = nsItems stripCr inp ci ([] ++ SP) ∧ MixOk inp ci ∧ gk2Items inp ci ∧ nodupK ci = true ∧
      tiItems ci = true ∧ valuesTbl ci [] = [] := by
    cases hft : findTable key.key st1.root pp with
    | none =>
      obtain ⟨k1, _⟩ := j3 hft
      rw [hc2 hft, k1]
      exact ⟨rfl, mixOk_nil inp, gk2_nil inp, rfl, rfl, rfl⟩
    | some tk =>
      obtain ⟨ka, k1, k2, k3, k4, k5⟩ := j4 tk hft
      obtain ⟨n1, n2, _⟩ := tiTbl_parts tk k5
      rw [hc1 tk hft ka, k1]
      exact ⟨rfl, mixOk_onlySubs inp _ k3, k4, n1, n2, valuesTbl_onlySubs _ _ k3⟩
  obtain ⟨hK, hmix, hgci, hndci, htici, hvci⟩ := hcur
  simp only [List.nil_append] at hK
  obtain ⟨s1, s2, s3⟩ := spineA2_facts inp isArr key pp root' SP i1
  have hSPk : keysOf SP = keysOf ks := by rw [s1, hks]
  obtain ⟨tl, line, l1', l2', l3', l4'⟩ := hdr_line_q inp isArr s r r2 tr ks SP st.trailing hsr hk a7 a8 a9 hSPk s2 s3
  have hperm : (nsItems stripCr inp st1.root.items []).Perm (Nof inp root' ci SP) := by
    unfold Nof
    rw [j1, j2, ← hK, List.append_assoc, List.append_assoc]
    exact List.Perm.append_left l1 List.perm_append_comm
  subst hst'
  refine ⟨ls ++ (tl ++ [(line, false)]), T ++ renderLinesQ (tl ++ [(line, false)]), [],
    lines_wf ls tl line a1 l1' l2', by rw [renderLinesQ_append ls, a2], run_line ls tl line _ _ _ a3 l1' l3' hstep,
    ?_, ?_, i4, Or.inl ⟨rfl, rfl⟩, by simpa using hrest.trans hs, triv_nil⟩
  · right
    refine ⟨pp, key, ci, st1.position + 1, takeTrailing st1.trailing, rawBetween inp.length r2 (trailEnd r2),
      some (pos inp.length s, pos inp.length r2), SP, hks, rfl, hmix, hgci, i1, (by simp only []; rw [hs']; simpa using f2), ?_, posInj_perm hperm f9i, ?_⟩
    · intro x hx
      have := f9 x (hperm.mem_iff.2 hx)
      exact ⟨this.1, by simp only []; omega⟩
    · simp only []
      rw [← sortP_pairs_perm _ _ hperm f9i,
        entText_tbl_congr stripCr inp st1.root root' [] false (by rw [hs']; simp) (by rw [hs']; simp) (i2 [])]
      have hroot1 : entText stripCr inp st1.root [] false ++ flatP (sortP (pairsN (nsItems stripCr inp st1.root.items []))) = T := f1
      rw [hroot1, entText_explicit, f3, ← l4', hvci]
      simp [encodeBody]
  · refine ⟨by simp only []; rw [hs']; exact f6, by simp only []; rw [hs']; exact f7,
      by simp only []; rw [hs']; exact f8, hti', ?_, fun _ => rfl⟩
    show tiTbl (CTbl.mk ci false false _ _ _) = true
    simp [tiTbl, hndci, htici]

/-! ### the invariant with a body of non-adjacent dotted keys -/

/-- the invariant -/
def GInvG2 (Tv : Bytes → Prop) (inp : Bytes) (st : CState) (s : Bytes) : Prop :=
  ∃ lsPre groups T tr base body, (∀ p ∈ lsPre, QLine.WF p.1) ∧ st.current.items = base ++ body ∧
    onlySubs base = true ∧ bodyOkN body = true ∧ bodyG inp body ∧
    Aligned inp groups (valuesTbl body []) ∧ T = renderLinesQ (lsPre ++ groups.flatten) ∧
    run {} (stmtsLinesQ lsPre) = some (hdrStateG st base) ∧
    PhaseT2 inp st T ∧ PInvT st ∧ gk2Items inp st.root.items ∧
    TrailIs inp.length st.trailing tr s ∧ tr ++ s <:+ inp ∧ Tv tr

theorem phaseT2_dotted {inp : Bytes} {st : CState} {T : Bytes} (h : PhaseT2 inp st T) : st.current.dotted = false := by
  rcases h with ⟨_, _, items, imp, sp, h1, _⟩ | ⟨_, _, items, q, lead, trail, sp, SP, _, h1, _⟩ <;> rw [h1] <;> rfl

theorem ginv2_ainvT2 (Tv : Bytes → Prop) (inp : Bytes) (st : CState) (s : Bytes) (h : GInvG2 Tv inp st s) :
    AInvT2 Tv inp st s := by
  obtain ⟨lsPre, groups, T, tr, base, body, n1, hi, hbase, hbn, hbg, n2, n3, n4, hsh, hP, hg, a7, a8, a9⟩ := h
  refine ⟨lsPre ++ groups.flatten, T, tr, ?_, n3, ?_, hsh, hP, hg, a7, a8, a9⟩
  · intro p hp
    rcases List.mem_append.1 hp with hp | hp
    · exact n1 p hp
    · exact aligned_wf inp _ _ n2 p hp
  · rw [stmtsLinesQ_append, run_append, n4, aligned_stmts inp _ _ n2]
    exact run_bodyG st base body hi (phaseT2_dotted hsh) hbn (tiTbl_parts _ hP.2.2.2.2.1).1

theorem ainvT2_ginv2_subs (Tv : Bytes → Prop) (inp : Bytes) (st : CState) (s : Bytes) (h : AInvT2 Tv inp st s)
    (hsub : onlySubs st.current.items = true) : GInvG2 Tv inp st s := by
  obtain ⟨ls, T, tr, a1, a2, a3, hsh, hP, hg, a7, a8, a9⟩ := h
  refine ⟨ls, [], T, tr, st.current.items, [], a1, by simp, hsub, rfl, bodyG_nil inp, by simp [valuesTbl, Aligned],
    by simpa using a2, ?_, hsh, hP, hg, a7, a8, a9⟩
  rw [a3]
  unfold hdrStateG
  rw [← eraseTbl_items, Nad.setItems_self]; rfl

/-! ### trivia -/

theorem ginv2_onWs (Tv Tv' : Bytes → Prop) (inp : Bytes) (st : CState) (w s' : Bytes)
    (h : GInvG2 Tv inp st (w ++ s')) (hext : ∀ tr, Tv tr → Tv' (tr ++ w)) :
    GInvG2 Tv' inp (onWs st (pos inp.length (w ++ s')) (pos inp.length s')) s' := by
  obtain ⟨e1, e2, e3, e4, e5⟩ := onWs_fields st (pos inp.length (w ++ s')) (pos inp.length s')
  obtain ⟨lsPre, groups, T, tr, base, body, n1, hi, hbase, hbn, hbg, n2, n3, n4, a4, a5, a6, a7, a8, a9⟩ := h
  refine ⟨lsPre, groups, T, tr ++ w, base, body, n1, by rw [e2]; exact hi, hbase, hbn, hbg, n2, n3, ?_, ?_, ?_,
    by rw [e1]; exact a6, trailIs_onWs _ st tr w s' a7, by simpa [List.append_assoc] using a8, hext tr a9⟩
  · unfold hdrStateG; rw [onWs_erase, e2]; exact n4
  · unfold PhaseT2; rw [e1, e2, e3, e4, e5]; exact a4
  · unfold PInvT; rw [e1, e2, e3, e5]; exact a5

theorem ginv2_consume (Tv Tv' : Bytes → Prop) (inp : Bytes) (st : CState) (s s' : Bytes)
    (h : GInvG2 Tv inp st s) (hext : ∃ w, s = w ++ s' ∧ ∀ tr, Tv tr → Tv' (tr ++ w)) :
    GInvG2 Tv' inp (onWs st (pos inp.length s) (pos inp.length s')) s' := by
  obtain ⟨w, hw, he⟩ := hext
  subst hw
  exact ginv2_onWs Tv Tv' inp st w s' h he

theorem ginv2_parseWs (inp : Bytes) (st : CState) (s : Bytes) (h : GInvG2 TrivOK inp st s) :
    GInvG2 TrivOK inp (parseWs inp.length st s).1 (parseWs inp.length st s).2 := by
  obtain ⟨w, hw, e, _⟩ := Sound01.dropWs_split s
  exact ginv2_consume TrivOK TrivOK inp st s (dropWs s) h ⟨w, e, fun tr ht => triv_ws tr w ht hw⟩

theorem ginv2_parseWs_end (inp : Bytes) (st : CState) (h : GInvG2 TrivEnd inp st []) :
    GInvG2 TrivEnd inp (parseWs inp.length st []).1 (parseWs inp.length st []).2 :=
  ginv2_consume TrivEnd TrivEnd inp st [] [] h ⟨[], rfl, fun tr ht => by simpa using ht⟩

theorem ginv2_end (inp : Bytes) (st : CState) (s : Bytes) (h : GInvG2 TrivOK inp st s) : GInvG2 TrivEnd inp st s := by
  obtain ⟨lsPre, groups, T, tr, base, body, n1, hi, hbase, hbn, hbg, n2, n3, n4, a4, a5, a6, a7, a8, a9⟩ := h
  exact ⟨lsPre, groups, T, tr, base, body, n1, hi, hbase, hbn, hbg, n2, n3, n4, a4, a5, a6, a7, a8, triv_end tr a9⟩

/-! ### the header line -/

/-- after an accepted header line of the class the current table holds sub-tables only -/
theorem ctableLine_cur_subs2 (inp : Bytes) (st st' : CState) (s r3 : Bytes)
    (h : ctableLine inp.length st s = some (st', r3)) (hok : hdrLineOkT2 inp st s = true)
    (hI : AInvT2 TrivOK inp st s) : onlySubs st'.current.items = true := by
  have hrest := ctableLine_rest _ _ _ _ _ h
  obtain ⟨isArr, r, ks, r2, hsr, hk, hlt, ho⟩ := table_frame _ _ _ _ _ h
  clear h
  obtain ⟨ls, T, tr, a1, a2, a3, hsh, hP, hg, a7, a8, a9⟩ := hI
  have hs : s <:+ inp := (List.suffix_append tr s).trans a8
  have hr : r <:+ inp := (hsr ▸ suffix_of_append _ r).trans hs
  have hksG := ckeyPath_GK inp r _ ks hr hk
  have key_fact : ∃ st1 pp key root' ci, finalizeTable st = some st1 ∧ ks = pp ++ [key] ∧
      descend st1.root pp false (if isArr then arrFn key else eraseFn key) = some root' ∧
      st' = { st1 with root := root', trailing := none, position := st1.position + 1, current := .mk ci false false (some (st1.position + 1)) (Decor.new (takeTrailing st1.trailing) (rawBetween inp.length r2 (trailEnd r2))) (some (pos inp.length s, pos inp.length r2)), currentIsArray := isArr, currentPath := ks } ∧
      pathOkT2 inp isArr key st1.root pp = true ∧
      (∀ tk, findTable key.key st1.root pp = some tk → isArr = false → ci = tk.items) ∧
      (findTable key.key st1.root pp = none → ci = []) ∧ (isArr = true → ci = []) := by
    cases isArr with
    | false =>
      simp only [Bool.false_eq_true, if_false] at ho hk hsr ⊢
      unfold onStdHeader at ho
      split at ho
      · rename_i st1 hfin
        obtain ⟨_, _, _, _, f5, _⟩ := finalize_T2 inp st st1 T hfin hsh hP hg
        obtain ⟨pp, key, root', hks, _, hroot, hst'⟩ := startTable_cases _ _ _ _ _ ho
        simp only [] at hroot
        have hsl : splitLast ks = some (pp, key) := by rw [hks]; exact vsplitLast_snoc pp key
        have hpo := hdrLineOkT2_use inp st st1 false r _ ks pp key (by simpa [hsr] using hok) hfin hk hsl
        refine ⟨st1, pp, key, root', ((findTable key.key st1.root pp).getD st1.current).items, hfin, hks, hroot, hst', hpo,
          ?_, ?_, fun h => by cases h⟩
        · intro tk htk _; rw [htk]; rfl
        · intro hn; rw [hn, f5]; rfl
      · cases ho
    | true =>
      simp only [if_true] at ho hk hsr ⊢
      unfold onArrayHeader at ho
      split at ho
      · rename_i st1 hfin
        obtain ⟨_, _, _, _, f5, _⟩ := finalize_T2 inp st st1 T hfin hsh hP hg
        obtain ⟨pp, key, root', hks, hroot, hst'⟩ := startArrayTable_cases _ _ _ _ _ ho
        simp only [] at hroot
        have hsl : splitLast ks = some (pp, key) := by rw [hks]; exact vsplitLast_snoc pp key
        have hpo := hdrLineOkT2_use inp st st1 true r _ ks pp key (by simpa [hsr] using hok) hfin hk hsl
        have hci : st1.current.items = [] := by rw [f5]; rfl
        refine ⟨st1, pp, key, root', st1.current.items, hfin, hks, hroot, hst', hpo, ?_, fun _ => hci, fun _ => hci⟩
        intro tk _ h; cases h
      · cases ho
  obtain ⟨st1, pp, key, root', ci, hfin, hks, hroot, hst', hpo, hc1, hc2, hc3⟩ := key_fact
  obtain ⟨f1, f2, f3, f4, f5, f6, f7, f8, f9, f9i, f10, f11⟩ := finalize_T2 inp st st1 T hfin hsh hP hg
  obtain ⟨⟨SP, Hd, K, l1, l2, i1, jh, j1, j2, j3, j4⟩, i2, i4⟩ := start_spineT2 stripCr inp isArr key
    (hksG key (by rw [hks]; simp)) pp st1.root root' []
    (fun k hk' => hksG k (by rw [hks]; exact List.mem_append_left _ hk')) hpo f10 f11 hroot
  have hs' := descend_setItems _ (startFn_setItems isArr key) pp _ _ _ hroot
  have hti' : tiTbl root' = true := descend_ti _ (startFn_ti isArr key) pp _ _ _ f11 hroot
  have hHd : Hd = [] := by
    cases Hd with
    | nil => rfl
    | cons x rest =>
      have h1 := jh x (by simp)
      have h2 := (f9 x (by rw [j1]; simp)).1
      rw [h1] at h2; cases h2
  subst hHd
  simp only [List.nil_append] at j1
  -- the new current table
  have hcur : K = nsItems stripCr inp ci ([] ++ SP) ∧ MixOk inp ci ∧ gk2Items inp ci ∧ nodupK ci = true ∧
      tiItems ci = true ∧ valuesTbl ci [] = [] ∧ onlySubs ci = true := by
    cases hft : findTable key.key st1.root pp with
    | none =>
      obtain ⟨k1, _⟩ := j3 hft
      rw [hc2 hft, k1]
      exact ⟨rfl, mixOk_nil inp, gk2_nil inp, rfl, rfl, rfl, rfl⟩
    | some tk =>
      obtain ⟨ka, k1, k2, k3, k4, k5⟩ := j4 tk hft
      obtain ⟨n1, n2, _⟩ := tiTbl_parts tk k5
      rw [hc1 tk hft ka, k1]
      exact ⟨rfl, mixOk_onlySubs inp _ k3, k4, n1, n2, valuesTbl_onlySubs _ _ k3, k3⟩
  rw [hst']
  exact hcur.2.2.2.2.2.2

theorem header_step_G2 (inp : Bytes) (st st' : CState) (s r3 : Bytes)
    (h : ctableLine inp.length st s = some (st', r3)) (hok : hdrLineOkT2 inp st s = true)
    (hI : GInvG2 TrivOK inp st s) : GInvG2 TrivOK inp st' r3 :=
  ainvT2_ginv2_subs TrivOK inp st' r3 (header_step_T2 inp st st' s r3 h hok (ginv2_ainvT2 TrivOK inp st s hI))
    (ctableLine_cur_subs2 inp st st' s r3 h hok (ginv2_ainvT2 TrivOK inp st s hI))

/-! ### the key/value line -/

theorem phaseT2_body (inp : Bytes) (st : CState) (T : Bytes) (items : Items) (imp : Bool) (p : Option Nat)
    (dec : Decor) (sp : Option Span) (hsh : PhaseT2 inp st T) (hcur : st.current = .mk items imp false p dec sp) :
    ∃ H, T = H ++ encodeBody stripCr inp (valuesTbl items []) ∧
      ∀ ci sp', MixOk inp ci → (∀ f X, nsItems f inp ci X = nsItems f inp items X) →
        (gk2Items inp items → gk2Items inp ci) →
        PhaseT2 inp { st with current := .mk ci imp false p dec sp', trailing := none }
          (H ++ encodeBody stripCr inp (valuesTbl ci [])) := by
  rcases hsh with ⟨b1, b2, items0, imp0, sp0, b3, b4, b4n, b5, bT⟩ | ⟨pp, key', items0, q, lead, trail, sp0, SP, b1, b2, b3, b3g, b4, b4d, c6, c7, bT⟩
  · rw [hcur] at b3
    injection b3 with e1 e2 e3 e4 e5 e6
    subst e1; subst e2; subst e4; subst e5
    refine ⟨[], by simpa using bT, ?_⟩
    intro ci sp' k2 kns kgk
    left
    exact ⟨b1, b2, ci, imp, _, rfl, k2, fun Y => by rw [kns stripCr Y]; exact b4n Y, kgk b5, by simp⟩
  · rw [hcur] at b2
    injection b2 with e1 e2 e3 e4 e5 e6
    subst e1; subst e2; subst e4; subst e5
    refine ⟨entText stripCr inp st.root [] false ++ flatP (sortP (pairsN (Nof inp st.root items SP)))
      ++ hdrText stripCr inp (Decor.new lead trail) SP st.currentIsArray, ?_, ?_⟩
    · rw [bT, hcur, entText_explicit]; simp only [List.append_assoc]
    · intro ci sp' k2 kns kgk
      right
      have hN : Nof inp st.root ci SP = Nof inp st.root items SP := by unfold Nof; rw [kns stripCr SP]
      refine ⟨pp, key', ci, q, lead, trail, _, SP, b1, rfl, k2, kgk b3g, b4, b4d, ?_, ?_, ?_⟩
      · simp only []; rw [hN]; exact c6
      · simp only []; rw [hN]; exact c7
      · simp only []
        rw [hN, entText_explicit]
        simp only [List.append_assoc]

theorem keyval_step_G2 (inp : Bytes) (st st' : CState) (s r3 : Bytes)
    (h : ckeyvalLine inp.length st s = some (st', r3)) (hok : kvLineOkN inp st s = true)
    (hI : GInvG2 TrivOK inp st s) : GInvG2 TrivOK inp st' r3 := by
  obtain ⟨lsPre, groups, T, tr, base, body, n1, hi, hbase, hbn, hbg, n2, n3, n4, hsh, hP, hg, a7, a8, a9⟩ := hI
  have hs : s <:+ inp := (List.suffix_append tr s).trans a8
  have hrest := ckeyvalLine_rest inp _ _ _ _ hs h
  obtain ⟨ks, r1, v, r2, path, key, c, hk, hv, hlt, hsl, hd, he⟩ := keyval_frame _ _ _ _ _ h
  have hlim := ckeyvalLine_limit _ _ _ _ _ _ h hk
  clear h
  subst he
  have hdo := kvLineOkN_use inp st s r1 r2 ks path key v hok hk hv hsl
  have hks := vsplitLast_some _ _ _ hsl
  have hksG := ckeyPath_GK inp s _ ks hs hk
  have hpathG : ∀ k ∈ path, GKey inp k := fun k hk' => hksG k (by rw [hks]; exact List.mem_append_left _ hk')
  have hr1' : dropWs r1 <:+ inp :=
    ((Cst03.dropWs_suffix r1).trans ((List.suffix_cons _ r1).trans (ckeyPath_suffix _ _ _ _ hk).1)).trans hs
  obtain ⟨_, _, _, _, hund0, _, _⟩ := cvalue_tiling_dotted id inp (FixOn.id inp) _ _ _ _ _ hr1' hv
  have hund : undotted (kvVal inp.length v r1 r2) = true := by
    unfold kvVal; rw [undotted_setDecor]; exact hund0
  have hcurshape : ∃ items imp p dec sp, st.current = .mk items imp false p dec sp ∧ MixOk inp items := by
    rcases hsh with ⟨_, _, items, imp, sp, h1, h2, _⟩ | ⟨pp, key', items, q, lead, trail, sp, SP, _, h1, h2, _⟩
    · exact ⟨items, imp, none, {}, sp, h1, h2⟩
    · exact ⟨items, false, some q, _, sp, h1, h2⟩
  obtain ⟨items, imp, p, dec, sp, hcur, hmix⟩ := hcurshape
  have hitems : items = base ++ body := by rw [← hi, hcur]; rfl
  subst hitems
  have hcm := kvCur_mk st (kvVal inp.length v r1 r2) (base ++ body) imp false p dec sp hcur
  have hci : (kvCur st (kvVal inp.length v r1 r2)).items = base ++ body := by
    rw [(kvCur_fields st (kvVal inp.length v r1 r2)).1, hcur]; rfl
  have hdo' : dottedOkN (kvCur st (kvVal inp.length v r1 r2)) path = true := by
    rw [dottedOkN_items st.current _ (by rw [hci, hcur]; rfl)]; exact hdo
  obtain ⟨body', k1, k2n, k2g, X, L1, L2, k3a, k3, k4, k5⟩ := kv_descendG inp (kvFn path (kvKey st key) (kvVal inp.length v r1 r2)) (kvKey st key)
    (kvVal inp.length v r1 r2) hund (fun p p' hp => kvFn_facts _ _ _ _ _ hp) path _ c base body hci hbase hdo' hbn hbg hpathG hd
  have htic : tiTbl c = true := by
    refine descend_ti _ (kvFn_ti path (kvKey st key) (kvVal inp.length v r1 r2)) path _ _ _ ?_ hd
    rw [hcm]
    have := hP.2.2.2.2.1
    rw [hcur] at this
    exact this
  have hc' : c = .mk (base ++ body') imp false p dec (kvCur st (kvVal inp.length v r1 r2)).span := by
    rw [k1]
    conv => lhs; rw [hcm]
    simp [CTbl.setItems, CTbl.dotted, CTbl.implicit, CTbl.pos, CTbl.decor, CTbl.span]
  clear k1
  have hvb : ∀ b : Items, valuesTbl (base ++ b) [] = valuesTbl b [] := by
    intro b; rw [valuesTbl_append, valuesTbl_onlySubs _ _ hbase]; rfl
  have hmb := (mixOk_append inp _ _).1 hmix
  have hU := bodyOkN_U _ hbn
  have hU' := bodyOkN_U _ k2n
  -- the line
  obtain ⟨tl, line, l1, l2, l3, l4⟩ := kv_line_q inp st s r1 r2 tr ks path X key v hk hv hsl hlim a7 a8 a9 k4 k5
  have hgrp : Grp inp (tl ++ [(line, false)]) (X ++ [kvKey st key], kvVal inp.length v r1 r2) := by
    refine ⟨?_, ?_, ?_⟩
    · intro q hq
      rcases List.mem_append.1 hq with hq | hq
      · exact (l1 q hq).1
      · simp only [List.mem_singleton] at hq; subst hq; exact l2
    · rw [← l4]
      simp only [encodeBody, List.append_assoc, List.append_nil]
    · rw [stmtsLinesQ_append, trivLines_stmts tl l1, stmtOf_snoc]
      simp only [stmtsLinesQ, l3, List.nil_append, k4]
      unfold kvVal
      rw [eraseVal_setDecor]
      rfl
  rw [k3a] at n2
  obtain ⟨G1, G2, eG, g1, g2⟩ := aligned_split inp L1 L2 groups n2
  have hal : Aligned inp (G1 ++ ([tl ++ [(line, false)]] ++ G2))
      (L1 ++ ([(X ++ [kvKey st key], kvVal inp.length v r1 r2)] ++ L2)) :=
    aligned_append inp _ _ _ _ g1 (aligned_append inp [_] _ [_] _ ⟨hgrp, trivial⟩ g2)
  -- the text
  obtain ⟨H, hT, hph⟩ := phaseT2_body inp st T (base ++ body) imp p dec sp hsh hcur
  have hH : renderLinesQ lsPre = H := by
    rw [n3, renderLinesQ_append, aligned_render inp _ _ n2, hvb, k3a] at hT
    exact List.append_cancel_right hT
  subst hc'
  refine ⟨lsPre, G1 ++ ([tl ++ [(line, false)]] ++ G2), H ++ encodeBody stripCr inp (valuesTbl (base ++ body') []), [],
    base, body', n1, rfl, hbase, k2n, k2g, ?_, ?_, ?_, hph (base ++ body') _ ?_ ?_ ?_, ?_, hg, Or.inl ⟨rfl, rfl⟩,
    by simpa using hrest.trans hs, triv_nil⟩
  · rw [k3]; simpa [List.append_assoc] using hal
  · rw [renderLinesQ_append, aligned_render inp _ _ hal, hH, hvb, k3]; simp [List.append_assoc]
  · rw [n4]; unfold hdrStateG eraseState
    simp only [hcur, eraseTbl_mk]
    rfl
  · exact (mixOk_append inp _ _).2 ⟨hmb.1, mixOk_body inp _ hU' k2g⟩
  · intro f Y
    rw [nsItems_append, nsItems_append, bodyOkU_ns f inp _ hU' Y, bodyOkU_ns f inp _ hU Y]
  · intro hgk
    exact (gk2Items_append inp _ _).2 ⟨((gk2Items_append inp _ _).1 hgk).1, bodyG_gk2 inp _ hU' k2g⟩
  · obtain ⟨p1, p2, p3, p4, p5, p6⟩ := hP
    refine ⟨p1, p2, p3, p4, htic, ?_⟩
    intro hne
    have := p6 hne
    rw [hcur] at this
    exact this

end TomlVerif.Lemmas.Tiling03More.Gen
