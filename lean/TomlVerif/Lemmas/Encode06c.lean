import TomlVerif.Lemmas.Encode06b
import TomlVerif.Lemmas.FuelValue04
/-! Helper lemmas for C06, documents, syntactic side: the statement loop of the parser model on the text
    `visitTables` prints performs exactly the statements of the visited tables (`stmtsVs`):
    one header per table with a non-empty path, one key/value statement per value. -/
namespace TomlVerif.Lemmas.Encode06c
open TomlVerif TomlVerif.Spec TomlVerif.Model TomlVerif.Model.Encode06 TomlVerif.Model.Value
open TomlVerif.Model.Strings TomlVerif.Model.State TomlVerif.Model.Doc
open TomlVerif.Lemmas.Encode06 TomlVerif.Lemmas.Encode06b TomlVerif.Props.C06 TomlVerif.Spec.Encode06
open TomlVerif.Spec.AstValue TomlVerif.Spec.AstDoc TomlVerif.Lemmas.Value01 TomlVerif.Lemmas.Doc01
open TomlVerif.Lemmas.State09 TomlVerif.Lemmas.FuelValue04
open TomlVerif.Lemmas.Fuel04 (dropWs_len)

/-! ## key/value lines -/

/-- `key ` as written in a table body -/
def bodyKey (k : Bytes) : KeyPath := ⟨⟨[], reprKey k, k, [0x20]⟩, []⟩

theorem bodyKey_ok (k : Bytes) : (bodyKey k).OK :=
  ⟨keyseg_repr _ _ _ allWs_nil allWs_sp, (by intro x hx; cases hx), (by simp [bodyKey, LIMIT])⟩

theorem bodyKey_render (k : Bytes) : encodeKeyPath [k] DEFAULT_KEY_DECOR = (bodyKey k).render := by
  simp [encodeKeyPath, encodeKeyPathAux, DEFAULT_KEY_DECOR, bodyKey, KeyPath.render, KeySeg.render, renderSep]

/-- what a value in a table body must satisfy (all of it holds for built values) -/
def BodyValOk (v : DVal) : Prop := GoodV v ∧ decorOf v = {} ∧ LeavesOkV v ∧ depthV v < LIMIT

/-- one `key = value` line of a table body, as `visit_table` prints it -/
def bodyLine (k : Bytes) (v : DVal) : Bytes :=
  encodeKeyPath [k] DEFAULT_KEY_DECOR ++ [0x3D] ++ encodeValue v DEFAULT_VALUE_DECOR ++ [0x0A]

theorem bodyLine_eq (k : Bytes) (v : DVal) (hdec : decorOf v = {}) (more : Bytes) :
    bodyLine k v ++ more = (bodyKey k).render ++ 0x3D :: ([0x20] ++ (core v ++ 0x0A :: more)) := by
  simp [bodyLine, bodyKey_render, encodeValue_eq, hdec, DEFAULT_VALUE_DECOR]

theorem keyvalLine_body (st : ParseState) (k : Bytes) (v : DVal) (more : Bytes) (hv : BodyValOk v) :
    keyvalLine st (bodyLine k v ++ more) = (onKeyval st [] k (canonValD v)).map fun st' => (st', more) := by
  obtain ⟨hg, hdec, hl, hd⟩ := hv
  rw [bodyLine_eq k v hdec]
  have e1 := keyPath_path (bodyKey k) (0x3D :: ([0x20] ++ (core v ++ 0x0A :: more))) (bodyKey_ok k) (pathFollow_eq _)
  have e2 : dropWs ([0x20] ++ (core v ++ 0x0A :: more)) = core v ++ 0x0A :: more := by
    rw [dropWs_allws _ _ allWs_sp]; exact dropWs_stop _ (noTrivia_core v hl _)
  obtain ⟨F, hF⟩ := val_ok v hg hl 0 (0x0A :: more) (by omega) (leafFollow_lf more)
  have e3 : value (3 * ([0x20] ++ (core v ++ 0x0A :: more)).length + 4) ((bodyKey k).names.length - 1)
      (dropWs ([0x20] ++ (core v ++ 0x0A :: more))) = .ok (canonValD v) (0x0A :: more) := by
    rw [Props.C04Fuel.T04_keyvalLine_value_fuel _ _ (F + (3 * ([0x20] ++ (core v ++ 0x0A :: more)).length + 4)) (by omega), e2]
    exact hF _ (by omega)
  have e4 : lineTrailing (0x0A :: more) = .ok () more := by
    have := lineTrailing_nl [] none false more allWs_nil (by intro body h; cases h)
    simpa [commentBytes, nlBytes] using this
  have e5 : ¬ LIMIT ≤ (bodyKey k).names.length - 1 := by simp [bodyKey, KeyPath.names, LIMIT]
  have e6 : Value.splitLast (bodyKey k).names = some ([], k) := rfl
  unfold keyvalLine
  simp only [e1, e5, if_false, e3, e4, e6]

theorem reprKey_head (k : Bytes) : ∃ b t, reprKey k = b :: t ∧ (b = 0x22 ∨ b = 0x27 ∨ isUnquotedChar b = true) :=
  seg_tok_head ⟨[], reprKey k, k, []⟩ (keyseg_repr _ _ _ allWs_nil allWs_nil)

theorem bodyLine_head (k : Bytes) (v : DVal) (more : Bytes) :
    ∃ b t, bodyLine k v ++ more = b :: t ∧ (b = 0x22 ∨ b = 0x27 ∨ isUnquotedChar b = true) := by
  obtain ⟨b, t, e, hb⟩ := reprKey_head k
  refine ⟨b, t ++ ([0x20] ++ ([0x3D] ++ (encodeValue v DEFAULT_VALUE_DECOR ++ ([0x0A] ++ more)))), ?_, hb⟩
  simp [bodyLine, bodyKey_render, bodyKey, KeyPath.render, KeySeg.render, e, renderSep]

theorem lines_body_line (f : Nat) (st : ParseState) (k : Bytes) (v : DVal) (more : Bytes) (hv : BodyValOk v) :
    lines (f + 1) st (bodyLine k v ++ more) = (onKeyval st [] k (canonValD v)).bind fun st' => lines f st' (dropWs more) := by
  obtain ⟨b, t, e, hb⟩ := bodyLine_head k v more
  have hf := keyhead_facts b hb
  have e1 := keyvalLine_body st k v more hv
  rw [e] at e1 ⊢
  rw [lines_keyval f st b t hf.2.1 hf.2.2.1 hf.2.2.2.1 hf.2.2.2.2.1, e1]
  cases onKeyval st [] k (canonValD v) <;> rfl

theorem dropWs_bodyLine (k : Bytes) (v : DVal) (more : Bytes) : dropWs (bodyLine k v ++ more) = bodyLine k v ++ more := by
  obtain ⟨b, t, e, hb⟩ := bodyLine_head k v more
  rw [e]; exact dropWs_head _ _ (keyhead_facts b hb).1

/-- the statements of a table body -/
def kvStmts : List (Bytes × DVal) → List Stmt
  | [] => []
  | (k, v) :: r => .kv [] k (canonValD v) :: kvStmts r

def BodyOk : List (Bytes × DVal) → Prop
  | [] => True
  | (_, v) :: r => BodyValOk v ∧ BodyOk r

theorem encodeBody_cons (k : Bytes) (v : DVal) (r : List (Bytes × DVal)) :
    encodeBody ((k, v) :: r) = bodyLine k v ++ encodeBody r := by
  simp [encodeBody, bodyLine]

theorem bodyLine_pos (k : Bytes) (v : DVal) : 0 < (bodyLine k v).length := by
  simp only [bodyLine, List.length_append, List.length_cons, List.length_nil]; omega

/-- the loop over a printed table body performs its key/value statements -/
theorem lines_body : ∀ (kvs : List (Bytes × DVal)) (st : ParseState) (f : Nat) (more : Bytes), BodyOk kvs →
    (dropWs (encodeBody kvs ++ more)).length < f →
    lines f st (dropWs (encodeBody kvs ++ more)) = (run st (kvStmts kvs)).bind fun st' => lines f st' (dropWs more) := by
  intro kvs
  induction kvs with
  | nil => intro st f more _ _; simp [encodeBody, kvStmts, run]
  | cons x r ih =>
    obtain ⟨k, v⟩ := x
    intro st f more hok hf
    rw [BodyOk] at hok
    rw [encodeBody_cons, List.append_assoc, dropWs_bodyLine] at hf ⊢
    obtain ⟨g, rfl⟩ : ∃ g, f = g + 1 := ⟨f - 1, by omega⟩
    have hp := bodyLine_pos k v
    have hl := dropWs_len (encodeBody r ++ more)
    simp only [List.length_append] at hf hl
    have hl2 := dropWs_len (encodeBody r ++ more)
    simp only [List.length_append] at hl2
    rw [lines_body_line g st k v _ hok.1]
    simp only [kvStmts, run, step]
    cases onKeyval st [] k (canonValD v) with
    | none => rfl
    | some st1 =>
      simp only [Option.bind]
      rw [lines_fuel g (g + 1) st1 _ (by omega) (by omega)]
      exact ih st1 (g + 1) more hok.2 (by omega)


/-! ## headers -/

def seg (k : Bytes) : KeySeg := ⟨[], reprKey k, k, []⟩

/-- a header path `k0.k1.….kn` as `encode_key_path` writes it -/
def hdrPath (k0 : Bytes) (ks : List Bytes) : KeyPath := ⟨seg k0, ks.map seg⟩

theorem aux_false (ks : List Bytes) : encodeKeyPathAux DEFAULT_KEY_PATH_DECOR false ks = renderSep (ks.map seg) := by
  induction ks with
  | nil => rfl
  | cons k r ih =>
    rw [encodeKeyPathAux, ih]
    cases r <;> simp [DEFAULT_KEY_PATH_DECOR, renderSep, seg, KeySeg.render]

theorem hdr_render (k0 : Bytes) (ks : List Bytes) :
    encodeKeyPath (k0 :: ks) DEFAULT_KEY_PATH_DECOR = (hdrPath k0 ks).render := by
  rw [encodeKeyPath, encodeKeyPathAux, aux_false]
  cases ks <;> simp [hdrPath, KeyPath.render, seg, KeySeg.render, DEFAULT_KEY_PATH_DECOR]

theorem hdr_names (k0 : Bytes) (ks : List Bytes) : (hdrPath k0 ks).names = k0 :: ks := by
  simp only [hdrPath, KeyPath.names, List.map_map]
  congr 1
  induction ks with
  | nil => rfl
  | cons k r ih => simp only [List.map, ih, Function.comp, seg]

theorem hdr_ok (k0 : Bytes) (ks : List Bytes) (h : (k0 :: ks).length < LIMIT) : (hdrPath k0 ks).OK := by
  refine ⟨keyseg_repr _ _ _ allWs_nil allWs_nil, ?_, by simpa [hdrPath] using h⟩
  intro x hx
  simp only [hdrPath, List.mem_map] at hx
  obtain ⟨k, _, rfl⟩ := hx
  exact keyseg_repr _ _ _ allWs_nil allWs_nil

/-- `[path]` + newline / `[[path]]` + newline -/
def hdrLine (isArray : Bool) (path : List Bytes) : Bytes :=
  if isArray then [0x5B, 0x5B] ++ encodeKeyPath path DEFAULT_KEY_PATH_DECOR ++ [0x5D, 0x5D] ++ [0x0A]
  else [0x5B] ++ encodeKeyPath path DEFAULT_KEY_PATH_DECOR ++ [0x5D] ++ [0x0A]

def hdrStmt (isArray : Bool) (path : List Bytes) : Stmt := if isArray then .arr path else .std path

theorem lines_hdr_line (f : Nat) (st : ParseState) (isArray : Bool) (path : List Bytes) (more : Bytes)
    (hne : path ≠ []) (hlen : path.length < LIMIT) :
    lines (f + 1) st (dropWs (hdrLine isArray path ++ more)) =
      (step st (hdrStmt isArray path)).bind fun st' => lines f st' (dropWs more) := by
  obtain ⟨k0, ks, rfl⟩ : ∃ k0 ks, path = k0 :: ks := by
    cases path with
    | nil => exact absurd rfl hne
    | cons k0 ks => exact ⟨k0, ks, rfl⟩
  have hok := hdr_ok k0 ks hlen
  have hn : CommentOK none := by intro body h; cases h
  cases isArray with
  | false =>
    have := lines_std_line f st [] (hdrPath k0 ks) [] none _ more ⟨allWs_nil, hok, allWs_nil, hn⟩ (.nl false more)
    simp only [Line.render, commentBytes, nlBytes, List.nil_append, Bool.false_eq_true, if_false, hdr_names,
      List.cons_append, List.append_assoc] at this
    simp only [hdrLine, hdrStmt, step, Bool.false_eq_true, if_false, hdr_render, List.cons_append, List.nil_append,
      List.append_assoc]
    exact this
  | true =>
    have := lines_aot_line f st [] (hdrPath k0 ks) [] none _ more ⟨allWs_nil, hok, allWs_nil, hn⟩ (.nl false more)
    simp only [Line.render, commentBytes, nlBytes, List.nil_append, Bool.false_eq_true, if_false, hdr_names,
      List.cons_append, List.append_assoc] at this
    simp only [hdrLine, hdrStmt, step, if_true, hdr_render, List.cons_append, List.nil_append, List.append_assoc]
    exact this

theorem hdrLine_pos (isArray : Bool) (path : List Bytes) : 0 < (hdrLine isArray path).length := by
  cases isArray <;> simp [hdrLine]

theorem dropWs_hdrLine (isArray : Bool) (path : List Bytes) (more : Bytes) :
    dropWs (hdrLine isArray path ++ more) = hdrLine isArray path ++ more := by
  cases isArray <;> simp only [hdrLine, Bool.false_eq_true, if_false, if_true, List.cons_append, List.nil_append] <;>
    exact dropWs_head _ _ (by decide)

/-! ## one visited table -/

/-- the statements of a visited table: its header, unless it is the root, and its values -/
def stmtsV (v : Visit) : List Stmt :=
  (if v.path.isEmpty then [] else [hdrStmt v.isArray v.path]) ++ kvStmts (getValues v.tbl.items)

def stmtsVs : List Visit → List Stmt
  | [] => []
  | v :: r => stmtsV v ++ stmtsVs r

def VisitOk (v : Visit) : Prop :=
  v.path.length < LIMIT ∧ v.tbl.implicit = false ∧ BodyOk (getValues v.tbl.items)

/-- the text of `visit_table`: blank line unless first, header unless root, body -/
theorem visitTable_text (v : Visit) (first : Bool) (h : VisitOk v) :
    (visitTable v first).1 =
      (if v.path.isEmpty then [] else (if first then [] else [0x0A]) ++ hdrLine v.isArray v.path) ++
        encodeBody (getValues v.tbl.items) := by
  obtain ⟨_, himp, _⟩ := h
  unfold visitTable
  simp only [himp, Bool.false_and, Bool.not_false, if_true]
  cases hp : v.path.isEmpty with
  | true => simp
  | false =>
    cases v.isArray <;> cases first <;>
      simp [hdrLine, DEFAULT_TABLE_DECOR]

theorem lines_visit (v : Visit) (first : Bool) (st : ParseState) (f : Nat) (more : Bytes) (h : VisitOk v)
    (hf : (dropWs ((visitTable v first).1 ++ more)).length < f) :
    lines f st (dropWs ((visitTable v first).1 ++ more)) =
      (run st (stmtsV v)).bind fun st' => lines f st' (dropWs more) := by
  rw [visitTable_text v first h] at hf ⊢
  unfold stmtsV
  cases hp : v.path.isEmpty with
  | true =>
    simp only [hp, if_true, List.nil_append] at hf ⊢
    exact lines_body _ st f more h.2.2 hf
  | false =>
    have hne : v.path ≠ [] := by intro e; rw [e] at hp; cases hp
    simp only [hp, Bool.false_eq_true, if_false, List.append_assoc, List.cons_append, List.nil_append, run] at hf ⊢
    -- the blank line
    have key : ∀ g, (dropWs (hdrLine v.isArray v.path ++ (encodeBody (getValues v.tbl.items) ++ more))).length < g →
        lines g st (dropWs (hdrLine v.isArray v.path ++ (encodeBody (getValues v.tbl.items) ++ more))) =
          match step st (hdrStmt v.isArray v.path) with
          | some st' => (run st' (kvStmts (getValues v.tbl.items))).bind fun st' => lines g st' (dropWs more)
          | none => none := by
      intro g hg
      obtain ⟨g0, rfl⟩ : ∃ g0, g = g0 + 1 := ⟨g - 1, by omega⟩
      rw [lines_hdr_line g0 st v.isArray v.path _ hne h.1]
      rw [dropWs_hdrLine] at hg
      have hpos := hdrLine_pos v.isArray v.path
      have hl := dropWs_len (encodeBody (getValues v.tbl.items) ++ more)
      rw [List.length_append] at hg
      cases step st (hdrStmt v.isArray v.path) with
      | none => rfl
      | some st1 =>
        simp only [Option.bind]
        rw [lines_fuel g0 (g0 + 1) st1 _ (by omega) (by omega)]
        exact lines_body _ st1 (g0 + 1) more h.2.2 (by omega)
    cases first with
    | true =>
      simp only [if_true, List.nil_append] at hf ⊢
      rw [key f hf]
      cases step st (hdrStmt v.isArray v.path) <;> rfl
    | false =>
      simp only [Bool.false_eq_true, if_false, List.cons_append, List.nil_append] at hf ⊢
      rw [dropWs_head _ _ (by decide)] at hf ⊢
      obtain ⟨g, rfl⟩ : ∃ g, f = g + 1 := ⟨f - 1, by omega⟩
      have hb := lines_blank_nl g st [] false (hdrLine v.isArray v.path ++ (encodeBody (getValues v.tbl.items) ++ more)) allWs_nil
      simp only [List.nil_append, nlBytes, Bool.false_eq_true, if_false, List.cons_append] at hb
      rw [dropWs_head _ _ (by decide)] at hb
      rw [hb]
      have hl := dropWs_len (hdrLine v.isArray v.path ++ (encodeBody (getValues v.tbl.items) ++ more))
      simp only [List.length_cons] at hf
      rw [lines_fuel g (g + 1) st _ (by omega) (by omega), key (g + 1) (by omega)]
      cases step st (hdrStmt v.isArray v.path) <;> rfl

/-! ## the visited tables in order -/

theorem visitTables_cons (v : Visit) (r : List Visit) (first : Bool) :
    visitTables (v :: r) first = (visitTable v first).1 ++ visitTables r (visitTable v first).2 := rfl

theorem dropWs_dropWs_append_len (A B : Bytes) : (dropWs B).length ≤ (dropWs (A ++ B)).length := by
  induction A with
  | nil => exact Nat.le_refl _
  | cons a A ih =>
    simp only [List.cons_append, dropWs]
    split
    · exact ih
    · have := dropWs_len B
      simp only [List.length_cons, List.length_append]; omega

theorem lines_visits : ∀ (vs : List Visit) (first : Bool) (st : ParseState) (f : Nat), (∀ v ∈ vs, VisitOk v) →
    (dropWs (visitTables vs first)).length < f →
    lines f st (dropWs (visitTables vs first)) = run st (stmtsVs vs) := by
  intro vs
  induction vs with
  | nil =>
    intro first st f _ hf
    obtain ⟨g, rfl⟩ : ∃ g, f = g + 1 := ⟨f - 1, by omega⟩
    simp [visitTables, stmtsVs, run, dropWs, lines]
  | cons v r ih =>
    intro first st f hok hf
    rw [visitTables_cons] at hf ⊢
    rw [lines_visit v first st f _ (hok v (by simp)) hf]
    simp only [stmtsVs, run_append]
    cases run st (stmtsV v) with
    | none => rfl
    | some st1 =>
      simp only [Option.bind]
      refine ih _ st1 f (fun w hw => hok w (by simp [hw])) ?_
      have h1 := dropWs_dropWs_append_len (visitTable v first).1 (visitTables r (visitTable v first).2)
      omega


/-! ## no byte-order mark -/

theorem hdrLine_head (isArray : Bool) (path : List Bytes) (Z : Bytes) : ∃ t, hdrLine isArray path ++ Z = 0x5B :: t := by
  cases isArray <;> simp [hdrLine]

theorem visitTables_head : ∀ (vs : List Visit) (first : Bool), (∀ v ∈ vs, VisitOk v) →
    ∀ b t, visitTables vs first = b :: t → b ≠ 0xEF := by
  intro vs
  induction vs with
  | nil => intro first _ b t h; simp [visitTables] at h
  | cons v r ih =>
    intro first hok b t h
    rw [visitTables_cons, visitTable_text v first (hok v (by simp))] at h
    have ih' := ih (visitTable v first).2 (fun w hw => hok w (by simp [hw])) b t
    cases hp : v.path.isEmpty with
    | true =>
      simp only [hp, if_true, List.nil_append] at h
      cases hb : getValues v.tbl.items with
      | nil => rw [hb] at h; simp only [encodeBody, List.nil_append] at h; exact ih' h
      | cons x kvs =>
        obtain ⟨k, x⟩ := x
        rw [hb, encodeBody_cons, List.append_assoc] at h
        obtain ⟨b', t', e, hb'⟩ := bodyLine_head k x (encodeBody kvs ++ visitTables r (visitTable v first).2)
        rw [e] at h
        injection h with h _
        rw [← h]
        exact (keyhead_facts b' hb').2.2.2.2.2
    | false =>
      simp only [hp, Bool.false_eq_true, if_false, List.append_assoc] at h
      cases first with
      | true =>
        simp only [if_true, List.nil_append] at h
        obtain ⟨t', e⟩ := hdrLine_head v.isArray v.path (encodeBody (getValues v.tbl.items) ++ visitTables r (visitTable v true).2)
        rw [e] at h
        injection h with h _
        rw [← h]; decide
      | false =>
        simp only [Bool.false_eq_true, if_false, List.cons_append] at h
        injection h with h _
        rw [← h]; decide

/-- the parser on the text of the visited tables: the run of their statements, then `into_document` -/
theorem parseDocument_visits (vs : List Visit) (h : ∀ v ∈ vs, VisitOk v) :
    parseDocument (visitTables vs true) = (run {} (stmtsVs vs)).bind intoDocument := by
  unfold parseDocument
  simp only [stripBom_noop _ (visitTables_head vs true h)]
  rw [lines_visits vs true {} _ h (by omega)]
  cases run {} (stmtsVs vs) <;> rfl

end TomlVerif.Lemmas.Encode06c
