import TomlVerif.Lemmas.Edit08
/-! The frame property for entries *with their keys*: `lookupTbl` (Model/Edit.lean) returns the node
    a path leads to; `lookupKTbl` returns in addition the stored `Key` of the entry the last segment
    selected (its repr and decor are part of the printed line). Same recursion, same frame proof. -/
namespace TomlVerif.Lemmas.Refine08bFrame
open TomlVerif TomlVerif.Model TomlVerif.Model.Cst TomlVerif.Model.Edit TomlVerif.Lemmas.Edit08

abbrev KNode := Option CKey × Node

mutual
def lookupKVal : Option CKey → List Seg → CVal → Option KNode
  | ck, [], v => some (ck, .val v)
  | _, _ :: _, .scalar _ _ _ => none
  | _, s :: r, .arr items _ _ _ _ =>
    match s.idx with
    | some i => lookupKElems i r items
    | none => none
  | _, s :: r, .inl items _ _ _ _ _ =>
    match s.key with
    | some k => lookupKKvs k r items
    | none => none
def lookupKElems : Nat → List Seg → List CVal → Option KNode
  | _, _, [] => none
  | 0, r, v :: _ => lookupKVal none r v
  | i + 1, r, _ :: rest => lookupKElems i r rest
def lookupKKvs (k : Bytes) : List Seg → List (CKey × CVal) → Option KNode
  | _, [] => none
  | r, (k', v) :: rest => if k'.key == k then lookupKVal (some k') r v else lookupKKvs k r rest
end

mutual
def lookupKTbl : Option CKey → List Seg → CTbl → Option KNode
  | ck, [], t => some (ck, .tbl t)
  | _, s :: r, .mk items _ _ _ _ _ =>
    match s.key with
    | some k => lookupKItems k r items
    | none => none
def lookupKItems (k : Bytes) : List Seg → List (CKey × CItem) → Option KNode
  | _, [] => none
  | r, (k', it) :: rest => if k'.key == k then lookupKItem (some k') r it else lookupKItems k r rest
def lookupKItem : Option CKey → List Seg → CItem → Option KNode
  | ck, r, .value v => lookupKVal ck r v
  | ck, r, .table t => lookupKTbl ck r t
  | ck, [], .aot ts sp => some (ck, .aot ts sp)
  | _, s :: r, .aot ts _ =>
    match s.idx with
    | some i => lookupKNth i r ts
    | none => none
def lookupKNth : Nat → List Seg → List CTbl → Option KNode
  | _, _, [] => none
  | 0, r, t :: _ => lookupKTbl none r t
  | i + 1, r, _ :: rest => lookupKNth i r rest
end

mutual
theorem kframe_val (u : Upd) : ∀ (p : List Seg) (v v' : CVal), updVal u p v = some v' →
    ∀ q, Diverge p q → ∀ ck, lookupKVal ck q v' = lookupKVal ck q v
  | [], _, _, _, _, hd => by cases hd
  | _ :: _, .scalar _ _ _, _, h, _, _ => by simp [updVal] at h
  | s :: r, .arr items tr c d sp, v', h, q, hd => by
    cases q with
    | nil => cases hd
    | cons b q =>
      simp only [updVal] at h
      cases hi : s.idx with
      | none => simp [hi] at h
      | some i =>
        simp only [hi] at h
        cases hu : updElems u i r items with
        | none => simp [hu] at h
        | some items' =>
          simp only [hu, Option.map_some, Option.some.injEq] at h
          subst h
          have ih := kframe_elems u i r items items' hu
          intro ck
          simp only [lookupKVal]
          cases hb : b.idx with
          | none => rfl
          | some j =>
            simp only []
            rcases diverge_cons hd with hdif | ⟨hab, hd'⟩
            · have : j ≠ i := by
                rcases hdif.2 with h0 | h0
                · simp [hi] at h0
                · intro e; apply h0; rw [hi, hb, e]
              exact ih.1 j q this
            · subst hab
              have : j = i := by rw [hi] at hb; exact (Option.some.inj hb).symm
              subst this
              exact ih.2 q hd'
  | s :: r, .inl items pre imp dot d sp, v', h, q, hd => by
    cases q with
    | nil => cases hd
    | cons b q =>
      simp only [updVal] at h
      cases hi : s.key with
      | none => simp [hi] at h
      | some k =>
        simp only [hi] at h
        cases hu : updKvs u k r items with
        | none => simp [hu] at h
        | some items' =>
          simp only [hu, Option.map_some, Option.some.injEq] at h
          subst h
          have ih := kframe_kvs u k r items items' hu
          intro ck
          simp only [lookupKVal]
          cases hb : b.key with
          | none => rfl
          | some j =>
            simp only []
            rcases diverge_cons hd with hdif | ⟨hab, hd'⟩
            · have : j ≠ k := by
                rcases hdif.1 with h0 | h0
                · simp [hi] at h0
                · intro e; apply h0; rw [hi, hb, e]
              exact ih.1 j q this
            · subst hab
              have : j = k := by rw [hi] at hb; exact (Option.some.inj hb).symm
              subst this
              exact ih.2 q hd'
theorem kframe_elems (u : Upd) : ∀ (i : Nat) (r : List Seg) (items items' : List CVal),
    updElems u i r items = some items' →
    (∀ j q, j ≠ i → lookupKElems j q items' = lookupKElems j q items) ∧
    (∀ q, Diverge r q → lookupKElems i q items' = lookupKElems i q items)
  | _, _, [], _, h => by simp [updElems] at h
  | 0, r, v :: rest, items', h => by
    simp only [updElems] at h
    cases hu : updVal u r v with
    | none => simp [hu] at h
    | some v' =>
      simp only [hu, Option.map_some, Option.some.injEq] at h
      subst h
      refine ⟨?_, ?_⟩
      · intro j q hj
        cases j with
        | zero => exact absurd rfl hj
        | succ j => simp [lookupKElems]
      · intro q hd
        simp only [lookupKElems]
        exact kframe_val u r v v' hu q hd none
  | i + 1, r, v :: rest, items', h => by
    simp only [updElems] at h
    cases hu : updElems u i r rest with
    | none => simp [hu] at h
    | some rest' =>
      simp only [hu, Option.map_some, Option.some.injEq] at h
      subst h
      have ih := kframe_elems u i r rest rest' hu
      refine ⟨?_, ?_⟩
      · intro j q hj
        cases j with
        | zero => simp [lookupKElems]
        | succ j =>
          simp only [lookupKElems]
          exact ih.1 j q (by omega)
      · intro q hd
        simp only [lookupKElems]
        exact ih.2 q hd
theorem kframe_kvs (u : Upd) (k : Bytes) : ∀ (r : List Seg) (items items' : List (CKey × CVal)),
    updKvs u k r items = some items' →
    (∀ j q, j ≠ k → lookupKKvs j q items' = lookupKKvs j q items) ∧
    (∀ q, Diverge r q → lookupKKvs k q items' = lookupKKvs k q items)
  | _, [], _, h => by simp [updKvs] at h
  | r, (k', v) :: rest, items', h => by
    simp only [updKvs] at h
    by_cases hk : (k'.key == k) = true
    · simp only [hk, if_true] at h
      cases hu : updVal u r v with
      | none => simp [hu] at h
      | some v' =>
        simp only [hu, Option.map_some, Option.some.injEq] at h
        subst h
        have hkk : k'.key = k := by simpa using hk
        refine ⟨?_, ?_⟩
        · intro j q hj
          have : (k'.key == j) = false := by
            simp only [beq_eq_false_iff_ne, ne_eq]; intro e; exact hj (e ▸ hkk.symm ▸ rfl)
          simp [lookupKKvs, this]
        · intro q hd
          simp only [lookupKKvs, hk, if_true]
          exact kframe_val u r v v' hu q hd (some k')
    · have hk' : (k'.key == k) = false := by simpa using hk
      simp only [hk', Bool.false_eq_true, if_false] at h
      cases hu : updKvs u k r rest with
      | none => simp [hu] at h
      | some rest' =>
        simp only [hu, Option.map_some, Option.some.injEq] at h
        subst h
        have ih := kframe_kvs u k r rest rest' hu
        refine ⟨?_, ?_⟩
        · intro j q hj
          simp only [lookupKKvs]
          split
          · rfl
          · exact ih.1 j q hj
        · intro q hd
          simp only [lookupKKvs, hk', Bool.false_eq_true, if_false]
          exact ih.2 q hd
end

mutual
theorem kframe_tbl (u : Upd) : ∀ (p : List Seg) (t t' : CTbl), updTbl u p t = some t' →
    ∀ q, Diverge p q → ∀ ck, lookupKTbl ck q t' = lookupKTbl ck q t
  | [], _, _, _, _, hd => by cases hd
  | s :: r, .mk items imp dot ps dec sp, t', h, q, hd => by
    cases q with
    | nil => cases hd
    | cons b q =>
      simp only [updTbl] at h
      cases hi : s.key with
      | none => simp [hi] at h
      | some k =>
        simp only [hi] at h
        cases hu : updItems u k r items with
        | none => simp [hu] at h
        | some items' =>
          simp only [hu, Option.map_some, Option.some.injEq] at h
          subst h
          have ih := kframe_items u k r items items' hu
          intro ck
          simp only [lookupKTbl]
          cases hb : b.key with
          | none => rfl
          | some j =>
            simp only []
            rcases diverge_cons hd with hdif | ⟨hab, hd'⟩
            · have : j ≠ k := by
                rcases hdif.1 with h0 | h0
                · simp [hi] at h0
                · intro e; apply h0; rw [hi, hb, e]
              exact ih.1 j q this
            · subst hab
              have : j = k := by rw [hi] at hb; exact (Option.some.inj hb).symm
              subst this
              exact ih.2 q hd'
theorem kframe_items (u : Upd) (k : Bytes) : ∀ (r : List Seg) (items items' : List (CKey × CItem)),
    updItems u k r items = some items' →
    (∀ j q, j ≠ k → lookupKItems j q items' = lookupKItems j q items) ∧
    (∀ q, Diverge r q → lookupKItems k q items' = lookupKItems k q items)
  | _, [], _, h => by simp [updItems] at h
  | r, (k', it) :: rest, items', h => by
    simp only [updItems] at h
    by_cases hk : (k'.key == k) = true
    · simp only [hk, if_true] at h
      cases hu : updItem u r it with
      | none => simp [hu] at h
      | some it' =>
        simp only [hu, Option.map_some, Option.some.injEq] at h
        subst h
        have hkk : k'.key = k := by simpa using hk
        refine ⟨?_, ?_⟩
        · intro j q hj
          have : (k'.key == j) = false := by
            simp only [beq_eq_false_iff_ne, ne_eq]; intro e; exact hj (e ▸ hkk.symm ▸ rfl)
          simp [lookupKItems, this]
        · intro q hd
          simp only [lookupKItems, hk, if_true]
          exact kframe_item u r it it' hu q hd (some k')
    · have hk' : (k'.key == k) = false := by simpa using hk
      simp only [hk', Bool.false_eq_true, if_false] at h
      cases hu : updItems u k r rest with
      | none => simp [hu] at h
      | some rest' =>
        simp only [hu, Option.map_some, Option.some.injEq] at h
        subst h
        have ih := kframe_items u k r rest rest' hu
        refine ⟨?_, ?_⟩
        · intro j q hj
          simp only [lookupKItems]
          split
          · rfl
          · exact ih.1 j q hj
        · intro q hd
          simp only [lookupKItems, hk', Bool.false_eq_true, if_false]
          exact ih.2 q hd
theorem kframe_item (u : Upd) : ∀ (r : List Seg) (it it' : CItem), updItem u r it = some it' →
    ∀ q, Diverge r q → ∀ ck, lookupKItem ck q it' = lookupKItem ck q it
  | r, .value v, it', h, q, hd => by
    simp only [updItem] at h
    cases hu : updVal u r v with
    | none => simp [hu] at h
    | some v' =>
      simp only [hu, Option.map_some, Option.some.injEq] at h
      subst h
      intro ck
      simp only [lookupKItem]
      exact kframe_val u r v v' hu q hd ck
  | r, .table t, it', h, q, hd => by
    simp only [updItem] at h
    cases hu : updTbl u r t with
    | none => simp [hu] at h
    | some t' =>
      simp only [hu, Option.map_some, Option.some.injEq] at h
      subst h
      intro ck
      simp only [lookupKItem]
      exact kframe_tbl u r t t' hu q hd ck
  | [], .aot _ _, _, _, _, hd => by cases hd
  | s :: r, .aot ts sp, it', h, q, hd => by
    cases q with
    | nil => cases hd
    | cons b q =>
      simp only [updItem] at h
      cases hi : s.idx with
      | none => simp [hi] at h
      | some i =>
        simp only [hi] at h
        cases hu : updNth u i r ts with
        | none => simp [hu] at h
        | some ts' =>
          simp only [hu, Option.map_some, Option.some.injEq] at h
          subst h
          have ih := kframe_nth u i r ts ts' hu
          intro ck
          simp only [lookupKItem]
          cases hb : b.idx with
          | none => rfl
          | some j =>
            simp only []
            rcases diverge_cons hd with hdif | ⟨hab, hd'⟩
            · have : j ≠ i := by
                rcases hdif.2 with h0 | h0
                · simp [hi] at h0
                · intro e; apply h0; rw [hi, hb, e]
              exact ih.1 j q this
            · subst hab
              have : j = i := by rw [hi] at hb; exact (Option.some.inj hb).symm
              subst this
              exact ih.2 q hd'
theorem kframe_nth (u : Upd) : ∀ (i : Nat) (r : List Seg) (ts ts' : List CTbl),
    updNth u i r ts = some ts' →
    (∀ j q, j ≠ i → lookupKNth j q ts' = lookupKNth j q ts) ∧
    (∀ q, Diverge r q → lookupKNth i q ts' = lookupKNth i q ts)
  | _, _, [], _, h => by simp [updNth] at h
  | 0, r, t :: rest, ts', h => by
    simp only [updNth] at h
    cases hu : updTbl u r t with
    | none => simp [hu] at h
    | some t' =>
      simp only [hu, Option.map_some, Option.some.injEq] at h
      subst h
      refine ⟨?_, ?_⟩
      · intro j q hj
        cases j with
        | zero => exact absurd rfl hj
        | succ j => simp [lookupKNth]
      · intro q hd
        simp only [lookupKNth]
        exact kframe_tbl u r t t' hu q hd none
  | i + 1, r, t :: rest, ts', h => by
    simp only [updNth] at h
    cases hu : updNth u i r rest with
    | none => simp [hu] at h
    | some rest' =>
      simp only [hu, Option.map_some, Option.some.injEq] at h
      subst h
      have ih := kframe_nth u i r rest rest' hu
      refine ⟨?_, ?_⟩
      · intro j q hj
        cases j with
        | zero => simp [lookupKNth]
        | succ j =>
          simp only [lookupKNth]
          exact ih.1 j q (by omega)
      · intro q hd
        simp only [lookupKNth]
        exact ih.2 q hd
end

/-! ### the node component is the lookup of `Model/Edit.lean` -/

mutual
theorem lookupKVal_snd : ∀ (ck : Option CKey) (p : List Seg) (v : CVal),
    (lookupKVal ck p v).map Prod.snd = lookupVal p v
  | _, [], _ => by simp [lookupKVal, lookupVal]
  | _, _ :: _, .scalar _ _ _ => by simp [lookupKVal, lookupVal]
  | _, s :: r, .arr items _ _ _ _ => by
    simp only [lookupKVal, lookupVal]
    cases s.idx with
    | none => rfl
    | some i => exact lookupKElems_snd i r items
  | _, s :: r, .inl items _ _ _ _ _ => by
    simp only [lookupKVal, lookupVal]
    cases s.key with
    | none => rfl
    | some k => exact lookupKKvs_snd k r items
theorem lookupKElems_snd : ∀ (i : Nat) (r : List Seg) (items : List CVal),
    (lookupKElems i r items).map Prod.snd = lookupElems i r items
  | _, _, [] => by simp [lookupKElems, lookupElems]
  | 0, r, v :: _ => by simp only [lookupKElems, lookupElems]; exact lookupKVal_snd none r v
  | i + 1, r, _ :: rest => by simp only [lookupKElems, lookupElems]; exact lookupKElems_snd i r rest
theorem lookupKKvs_snd (k : Bytes) : ∀ (r : List Seg) (items : List (CKey × CVal)),
    (lookupKKvs k r items).map Prod.snd = lookupKvs k r items
  | _, [] => by simp [lookupKKvs, lookupKvs]
  | r, (k', v) :: rest => by
    simp only [lookupKKvs, lookupKvs]
    split
    · exact lookupKVal_snd (some k') r v
    · exact lookupKKvs_snd k r rest
end

mutual
theorem lookupKTbl_snd : ∀ (ck : Option CKey) (p : List Seg) (t : CTbl),
    (lookupKTbl ck p t).map Prod.snd = lookupTbl p t
  | _, [], _ => by simp [lookupKTbl, lookupTbl]
  | _, s :: r, .mk items _ _ _ _ _ => by
    simp only [lookupKTbl, lookupTbl]
    cases s.key with
    | none => rfl
    | some k => exact lookupKItems_snd k r items
theorem lookupKItems_snd (k : Bytes) : ∀ (r : List Seg) (items : List (CKey × CItem)),
    (lookupKItems k r items).map Prod.snd = lookupItems k r items
  | _, [] => by simp [lookupKItems, lookupItems]
  | r, (k', it) :: rest => by
    simp only [lookupKItems, lookupItems]
    split
    · exact lookupKItem_snd (some k') r it
    · exact lookupKItems_snd k r rest
theorem lookupKItem_snd : ∀ (ck : Option CKey) (r : List Seg) (it : CItem),
    (lookupKItem ck r it).map Prod.snd = lookupItem r it
  | ck, r, .value v => by simp only [lookupKItem, lookupItem]; exact lookupKVal_snd ck r v
  | ck, r, .table t => by simp only [lookupKItem, lookupItem]; exact lookupKTbl_snd ck r t
  | _, [], .aot _ _ => by simp [lookupKItem, lookupItem]
  | _, s :: r, .aot ts _ => by
    simp only [lookupKItem, lookupItem]
    cases s.idx with
    | none => rfl
    | some i => exact lookupKNth_snd i r ts
theorem lookupKNth_snd : ∀ (i : Nat) (r : List Seg) (ts : List CTbl),
    (lookupKNth i r ts).map Prod.snd = lookupNth i r ts
  | _, _, [] => by simp [lookupKNth, lookupNth]
  | 0, r, t :: _ => by simp only [lookupKNth, lookupNth]; exact lookupKTbl_snd none r t
  | i + 1, r, _ :: rest => by simp only [lookupKNth, lookupNth]; exact lookupKNth_snd i r rest
end

end TomlVerif.Lemmas.Refine08bFrame
