import TomlVerif.Lemmas.Tiling03HdrRel
/-! `DropCr` and pieces without CR: a CR-free piece of the source survives the deletion of CRs. -/
namespace TomlVerif.Lemmas.Tiling03More
open TomlVerif TomlVerif.Model TomlVerif.Model.Cst TomlVerif.Model.Encode TomlVerif.Lemmas.Cst03
open TomlVerif.Lemmas.Tiling03Hdr

theorem DropCr.split : ∀ (p r o : Bytes), DropCr o (p ++ r) → ∃ o1 o2, o = o1 ++ o2 ∧ DropCr o1 p ∧ DropCr o2 r
  | [], r, o, h => ⟨[], o, rfl, .nil, h⟩
  | b :: p, r, o, h => by
    cases h with
    | keep _ h' =>
      obtain ⟨o1, o2, e, h1, h2⟩ := DropCr.split p r _ h'
      exact ⟨b :: o1, o2, by rw [e]; rfl, .keep b h1, h2⟩
    | drop h' =>
      obtain ⟨o1, o2, e, h1, h2⟩ := DropCr.split p r _ h'
      exact ⟨o1, o2, e, .drop h1, h2⟩

/-- a CR-free piece of `s` is a piece of every text obtained from `s` by deleting CRs -/
theorem DropCr.infix_noCr {o s c : Bytes} (h : DropCr o s) (hc : c <:+: s) (hcr : ∀ b ∈ c, b ≠ 0x0D) : c <:+: o := by
  obtain ⟨p, q, e⟩ := hc
  subst e
  rw [List.append_assoc] at h
  obtain ⟨o1, o2, e1, _, h2⟩ := DropCr.split p (c ++ q) o h
  obtain ⟨o3, o4, e2, h3, _⟩ := DropCr.split c q o2 h2
  have : o3 = c := h3.eq_of_noCr hcr
  subst this
  exact ⟨o1, o4, by rw [e1, e2, List.append_assoc]⟩

end TomlVerif.Lemmas.Tiling03More
