import TomlVerif.Lemmas.DeTyped13d
import TomlVerif.Lemmas.Order18
/-! Lemmas for Props/C13Typed, part 5: the default build. A `toml::Value` holds every table in key order (`BTreeMap`), so the
    `toml::Value` routes decode `placeTV .sorted` of the data while the text routes decode the data in document order.
    `sorted_agree`: whenever `decodeValue` succeeds on both, the values are equal. -/
namespace TomlVerif.Lemmas.DeTyped13
open TomlVerif TomlVerif.Model TomlVerif.Model.TomlValue TomlVerif.Model.DeRoutes
open TomlVerif.Model.DeTyped TomlVerif.Lemmas.DeRoutes13 TomlVerif.Lemmas.RoundTrip17

/-- `Agree x y`: if both succeed, they return the same value -/
def Agree {α} (x y : R α) : Prop := ∀ d d', x = .ok d → y = .ok d' → d = d'

theorem agree_refl {α} (x : R α) : Agree x x := fun _ _ h1 h2 => by rw [h1] at h2; cases h2; rfl
theorem agree_of_eq {α} {x y : R α} (h : x = y) : Agree x y := h ▸ agree_refl x
theorem agree_fail_left {α} (y : R α) : Agree fail y := fun _ _ h _ => (fail_ne_ok h).elim
theorem agree_fail_right {α} (x : R α) : Agree x fail := fun _ _ _ h => (fail_ne_ok h).elim

theorem agree_rmap {α β} (f : α → β) {x y : R α} (h : Agree x y) : Agree (rmap f x) (rmap f y) := by
  intro d d' h1 h2
  cases hx : x with
  | error e => rw [hx] at h1; cases h1
  | ok a =>
    cases hy : y with
    | error e => rw [hy] at h2; cases h2
    | ok b =>
      rw [hx] at h1; rw [hy] at h2
      cases h1; cases h2
      rw [h a b hx hy]

theorem agree_rcons {α} {x y : R α} {l m : R (List α)} (h : Agree x y) (hl : Agree l m) :
    Agree (rcons x l) (rcons y m) := by
  intro d d' h1 h2
  cases hx : x with
  | error e => rw [hx] at h1; cases h1
  | ok a =>
    cases hl' : l with
    | error e => rw [hx, hl'] at h1; cases h1
    | ok as =>
      cases hy : y with
      | error e => rw [hy] at h2; cases h2
      | ok b =>
        cases hm : m with
        | error e => rw [hy, hm] at h2; cases h2
        | ok bs =>
          rw [hx, hl'] at h1; rw [hy, hm] at h2
          cases h1; cases h2
          rw [h a b hx hy, hl as bs hl' hm]

theorem agree_mapE_map {α β} (f : α → R β) (g : α → α) (l : List α) (h : ∀ a ∈ l, Agree (f a) (f (g a))) :
    Agree (mapE f l) (mapE f (l.map g)) := by
  induction l with
  | nil => exact agree_refl _
  | cons a r ih =>
    simp only [mapE, List.map_cons]
    exact agree_rcons (h a (by simp)) (ih fun x hx => h x (by simp [hx]))

theorem agree_ite_fail {α} {b b' : Bool} {x y : R α} (h : Agree x y) :
    Agree (if b then fail else x) (if b' then fail else y) := by
  cases b <;> cases b' <;> simp
  · exact h
  · exact agree_fail_right _
  · exact agree_fail_left _
  · exact agree_fail_left _

theorem agree_ite_else_fail {α} {b b' : Bool} {x y : R α} (h : Agree x y) :
    Agree (if b then x else fail) (if b' then y else fail) := by
  cases b <;> cases b' <;> simp
  · exact agree_fail_left _
  · exact agree_fail_left _
  · exact agree_fail_right _
  · exact h

theorem agree_ite {α} {b : Bool} {x y x' y' : R α} (h1 : Agree x y) (h2 : Agree x' y') :
    Agree (if b then x else x') (if b then y else y') := by
  cases b <;> simp
  · exact h2
  · exact h1

/-- both sides can only ever return the one value `c` -/
theorem agree_const {α} {x y : R α} (c : α) (hx : ∀ d, x = .ok d → d = c) (hy : ∀ d, y = .ok d → d = c) : Agree x y :=
  fun d d' h1 h2 => (hx d h1).trans (hy d' h2).symm

/-! ### collecting into a `BTreeMap` -/

abbrev P : TV → TV := placeTV .sorted
/-- the entries of `placeTV .sorted (.tbl es)` -/
def S (es : List (Bytes × TV)) : List (Bytes × TV) := insertAllReplace .sorted [] (placeTVPs .sorted es)

theorem place_tbl (es : List (Bytes × TV)) : P (.tbl es) = .tbl (S es) := by simp [P, placeTV, S]
theorem place_arr (l : List TV) : P (.arr l) = .arr (l.map P) := by
  simp only [P, placeTV]
  congr 1
  induction l with
  | nil => rfl
  | cons v r ih => simp [placeTVs, ih]

theorem placePs_eq (es : List (Bytes × TV)) : placeTVPs .sorted es = es.map fun e => (e.1, P e.2) :=
  placeTVPs_eq_map .sorted es

theorem S_spec (es : List (Bytes × TV)) (hn : (es.map Prod.fst).Nodup) :
    KSorted (S es) ∧ (S es).Perm (es.map fun e => (e.1, P e.2)) := by
  have := insertAll_sorted_nil (placeTVPs .sorted es) (by rw [placeTVPs_keys]; exact hn)
  unfold S
  rw [placePs_eq] at this ⊢
  exact this

theorem nodup_keysDistinct {α} (l : List (Bytes × α)) (h : (l.map Prod.fst).Nodup) : Spec.OrderedPlain.KeysDistinct l := by
  unfold Spec.OrderedPlain.KeysDistinct
  exact List.pairwise_map.1 h

theorem alookup_S (name : Bytes) (es : List (Bytes × TV)) (hn : (es.map Prod.fst).Nodup) :
    alookup name (S es) = (alookup name es).map P := by
  obtain ⟨_, hp⟩ := S_spec es hn
  rw [← Order18.alookup_perm name hp.symm (nodup_keysDistinct _ (by
    have : (es.map fun e => (e.1, P e.2)).map Prod.fst = es.map Prod.fst := by simp
    rw [this]; exact hn))]
  exact alookup_map P name es

theorem S_length (es : List (Bytes × TV)) (hn : (es.map Prod.fst).Nodup) : (S es).length = es.length := by
  have := (S_spec es hn).2.length_eq
  simpa using this

theorem S_single (k : Bytes) (v : TV) : S [(k, v)] = [(k, P v)] := by
  simp [S, placeTVPs, insertAllReplace, mapInsert, sortedInsert]

theorem S_nil : S [] = [] := by simp [S, placeTVPs, insertAllReplace]


/-! ### well-formedness, by membership, and under `placeTV` -/

theorem wfVs_iff (l : List TV) : WfVs l ↔ ∀ v ∈ l, WfTV v := by
  induction l with
  | nil => simp [WfVs]
  | cons x r ih => simp [WfVs, ih]

theorem wfPs_iff (l : List (Bytes × TV)) : WfPs l ↔ ∀ e ∈ l, WfTV e.2 := by
  induction l with
  | nil => simp [WfPs]
  | cons x r ih => obtain ⟨k, v⟩ := x; simp [WfPs, ih]

theorem alookup_mem {α} (k : Bytes) (l : List (Bytes × α)) (v : α) (h : alookup k l = some v) : ∃ k', (k', v) ∈ l := by
  induction l with
  | nil => cases h
  | cons x r ih =>
    obtain ⟨k', v'⟩ := x
    unfold alookup at h
    split at h
    · cases h; exact ⟨k', by simp⟩
    · obtain ⟨k'', hm⟩ := ih h
      exact ⟨k'', by simp [hm]⟩

mutual
theorem wf_place : ∀ v : TV, WfTV v → WfTV (P v)
  | .str _, _ => by simp [P, placeTV, WfTV]
  | .int _, _ => by simp [P, placeTV, WfTV]
  | .float _, _ => by simp [P, placeTV, WfTV]
  | .bool _, _ => by simp [P, placeTV, WfTV]
  | .dt _, h => by simpa [P, placeTV] using h
  | .arr l, h => by
    rw [WfTV] at h
    rw [place_arr, WfTV, wfVs_iff]
    intro v hv
    obtain ⟨a, ha, rfl⟩ := List.mem_map.1 hv
    exact wfVs_place l h a ha
  | .tbl es, h => by
    rw [WfTV] at h
    obtain ⟨hp, hn, hf⟩ := h
    obtain ⟨hs, hperm⟩ := S_spec es hn
    rw [place_tbl, WfTV]
    refine ⟨?_, ksorted_nodup _ hs, ?_⟩
    · rw [wfPs_iff]
      intro e he
      obtain ⟨a, ha, rfl⟩ := List.mem_map.1 (hperm.subset he)
      exact wfPs_place es hp a ha
    · intro hm
      have : FIELD ∈ (es.map fun e => (e.1, P e.2)).map Prod.fst := (hperm.map Prod.fst).subset hm
      exact hf (by simpa using this)
theorem wfVs_place : ∀ l : List TV, WfVs l → ∀ a ∈ l, WfTV (P a)
  | [], _, _, ha => by cases ha
  | v :: r, h, a, ha => by
    rw [WfVs] at h
    rcases List.mem_cons.1 ha with e | e
    · rw [e]; exact wf_place v h.1
    · exact wfVs_place r h.2 a e
theorem wfPs_place : ∀ l : List (Bytes × TV), WfPs l → ∀ a ∈ l, WfTV (P a.2)
  | [], _, _, ha => by cases ha
  | (k, v) :: r, h, a, ha => by
    rw [WfPs] at h
    rcases List.mem_cons.1 ha with e | e
    · rw [e]; exact wf_place v h.1
    · exact wfPs_place r h.2 a e
end

/-- `Value`'s visitor into a `BTreeMap` gives the same tree for the data and for the collected data -/
theorem visit_place (strict : Bool) (v : TV) (h : WfTV v) :
    visitValue .sorted strict (presValue currentDtAsMap (P v)) = visitValue .sorted strict (presValue currentDtAsMap v) := by
  rw [show currentDtAsMap = true from rfl, presValue_true_eq, presValue_true_eq,
    visit_presEdit_wf .sorted strict v h, visit_presEdit_wf .sorted strict (P v) (wf_place v h),
    place_sorted_id _ (place_is_sorted v (wf_nodup v h))]

/-! ### maps: the order the entries come in does not show in a `BTreeMap` -/

theorem collect_sorted {α : Type} : ∀ (l acc : List (Bytes × α)), (l.map Prod.fst).Nodup →
    (∀ k ∈ l.map Prod.fst, k ∉ acc.map Prod.fst) → KSorted acc →
    KSorted (collectSorted acc l) ∧ (collectSorted acc l).Perm (acc ++ l)
  | [], acc, _, _, hs => by simp [collectSorted, hs]
  | (k, v) :: r, acc, hn, ha, hs => by
    simp only [List.map_cons, List.nodup_cons] at hn
    obtain ⟨h1, h2⟩ := sortedInsert_new k v acc hs (ha k (by simp))
    rw [collectSorted]
    have := collect_sorted r (sortedInsert k v acc) hn.2
      (by intro k' hk' hm
          rw [sortedInsert_keys] at hm
          rcases hm with hm | hm
          · subst hm; exact hn.1 hk'
          · exact ha k' (by simp [hk']) hm) h1
    refine ⟨this.1, this.2.trans ?_⟩
    refine (List.Perm.append_right r h2).trans ?_
    simp only [List.cons_append]
    exact List.perm_middle.symm

theorem collect_perm {α : Type} (l l' : List (Bytes × α)) (hn : (l.map Prod.fst).Nodup) (hp : l'.Perm l) :
    collectSorted [] l' = collectSorted [] l := by
  have hn' : (l'.map Prod.fst).Nodup := ((hp.map Prod.fst).nodup_iff).2 hn
  obtain ⟨a1, a2⟩ := collect_sorted l [] hn (by simp) (by simp [KSorted])
  obtain ⟨b1, b2⟩ := collect_sorted l' [] hn' (by simp) (by simp [KSorted])
  simp only [List.nil_append] at a2 b2
  exact ksorted_perm_eq _ _ b1 a1 (b2.trans (hp.trans a2.symm))

theorem rcons_ok {α} {x : R α} {l : R (List α)} {y : List α} (h : rcons x l = .ok y) :
    ∃ a as, x = .ok a ∧ l = .ok as ∧ y = a :: as := by
  cases hx : x with
  | error e => rw [hx] at h; cases h
  | ok a =>
    cases hl : l with
    | error e => rw [hx, hl] at h; cases h
    | ok as => rw [hx, hl] at h; cases h; exact ⟨a, as, rfl, rfl, rfl⟩

theorem rmap_ok {α β} {f : α → β} {x : R α} {y : β} (h : rmap f x = .ok y) : ∃ a, x = .ok a ∧ y = f a := by
  cases hx : x with
  | error e => rw [hx] at h; cases h
  | ok a => rw [hx] at h; cases h; exact ⟨a, rfl, rfl⟩

/-- a successful `mapE` along a permutation of the list -/
theorem mapE_perm {α β} (f : α → R β) {l l' : List α} (hp : l.Perm l') :
    ∀ ds, mapE f l = .ok ds → ∃ ds', mapE f l' = .ok ds' ∧ ds.Perm ds' := by
  induction hp with
  | nil => intro ds h; exact ⟨ds, h, List.Perm.refl _⟩
  | cons x _ ih =>
    intro ds h
    simp only [mapE] at h ⊢
    obtain ⟨a, as, h1, h2, rfl⟩ := rcons_ok h
    obtain ⟨ds', h3, h4⟩ := ih as h2
    exact ⟨a :: ds', by rw [h1, h3]; rfl, h4.cons a⟩
  | swap x y l =>
    intro ds h
    simp only [mapE] at h ⊢
    obtain ⟨a, as, h1, h2, rfl⟩ := rcons_ok h
    obtain ⟨b, bs, h3, h4, rfl⟩ := rcons_ok h2
    exact ⟨b :: a :: bs, by rw [h1, h3, h4]; rfl, List.Perm.swap _ _ _⟩
  | trans _ _ ih1 ih2 =>
    intro ds h
    obtain ⟨ds1, h1, p1⟩ := ih1 ds h
    obtain ⟨ds2, h2, p2⟩ := ih2 ds1 h1
    exact ⟨ds2, h2, p1.trans p2⟩

theorem mapE_tag_keys {α} (G : α → R Dec) : ∀ (es : List (Bytes × α)) (ds : List (Bytes × Dec)),
    mapE (fun kv : Bytes × α => rmap (fun d => (kv.1, d)) (G kv.2)) es = .ok ds → ds.map Prod.fst = es.map Prod.fst
  | [], ds, h => by simp only [mapE] at h; cases h; rfl
  | (k, v) :: r, ds, h => by
    simp only [mapE] at h
    obtain ⟨a, as, h1, h2, rfl⟩ := rcons_ok h
    obtain ⟨d, _, rfl⟩ := rmap_ok h1
    simp [mapE_tag_keys G r as h2]

theorem agree_mapE2 {α β γ} (f : α → R γ) (g : β → R γ) (h : α → β) (l : List α)
    (hfg : ∀ a ∈ l, Agree (f a) (g (h a))) : Agree (mapE f l) (mapE g (l.map h)) := by
  induction l with
  | nil => exact agree_refl _
  | cons a r ih =>
    simp only [mapE, List.map_cons]
    exact agree_rcons (hfg a (by simp)) (ih fun x hx => hfg x (by simp [hx]))

/-- the `map` target on a table and on the collected table -/
theorem agree_map_target (G : TV → R Dec) (es : List (Bytes × TV)) (hn : (es.map Prod.fst).Nodup)
    (hG : ∀ e ∈ es, Agree (G e.2) (G (P e.2))) :
    Agree (rmap (fun ds => Dec.map (collectSorted [] ds)) (mapE (fun kv : Bytes × TV => rmap (fun d => (kv.1, d)) (G kv.2)) es))
      (rmap (fun ds => Dec.map (collectSorted [] ds)) (mapE (fun kv : Bytes × TV => rmap (fun d => (kv.1, d)) (G kv.2)) (S es))) := by
  intro d d' g1 g2
  obtain ⟨ds, h1, e1⟩ := rmap_ok g1
  obtain ⟨ds', h2, e2⟩ := rmap_ok g2
  subst e1 e2
  obtain ⟨_, hperm⟩ := S_spec es hn
  obtain ⟨ds2, h3, hp2⟩ := mapE_perm _ hperm ds' h2
  have hag := agree_mapE2 (fun kv : Bytes × TV => rmap (fun d => (kv.1, d)) (G kv.2))
    (fun kv : Bytes × TV => rmap (fun d => (kv.1, d)) (G kv.2)) (fun e : Bytes × TV => (e.1, P e.2)) es
    (fun a ha => agree_rmap _ (hG a ha))
  have hds : ds = ds2 := hag ds ds2 h1 h3
  subst hds
  have hk := mapE_tag_keys G es ds h1
  rw [collect_perm ds ds' (by rw [hk]; exact hn) hp2]


/-! ### tuple variants read from a table: the keys "0", "1", … fix the order -/

def IdxLt {α} (a b : Bytes × α) : Prop := ∃ n m, parseUsize a.1 = some n ∧ parseUsize b.1 = some m ∧ n < m

theorem indexKeys_pairwise {α} : ∀ (i : Nat) (l : List (Bytes × α)), indexKeys i l = true →
    l.Pairwise IdxLt ∧ ∀ e ∈ l, ∃ n, parseUsize e.1 = some n ∧ i ≤ n
  | _, [], _ => ⟨.nil, by simp⟩
  | i, (k, v) :: r, h => by
    simp only [indexKeys, Bool.and_eq_true, beq_iff_eq] at h
    obtain ⟨h1, h2⟩ := h
    obtain ⟨p, q⟩ := indexKeys_pairwise (i + 1) r h2
    refine ⟨List.pairwise_cons.2 ⟨fun e he => ?_, p⟩, ?_⟩
    · obtain ⟨n, hn, hle⟩ := q e he
      exact ⟨i, n, h1, hn, by omega⟩
    · intro e he
      rcases List.mem_cons.1 he with rfl | he
      · exact ⟨i, h1, Nat.le_refl _⟩
      · obtain ⟨n, hn, hle⟩ := q e he
        exact ⟨n, hn, by omega⟩

/-- if the keys are "0", "1", … in document order and again in key order, the two orders are the same -/
theorem index_same_order (es : List (Bytes × TV)) (hn : (es.map Prod.fst).Nodup)
    (h1 : indexKeys 0 es = true) (h2 : indexKeys 0 (S es) = true) : S es = es.map fun e => (e.1, P e.2) := by
  have hp := (S_spec es hn).2
  have h1' : indexKeys 0 (es.map fun e => (e.1, P e.2)) = true := by rw [indexKeys_map]; exact h1
  refine List.Perm.eq_of_pairwise (le := IdxLt) (fun a b _ _ hab hba => ?_) (indexKeys_pairwise 0 _ h2).1
    (indexKeys_pairwise 0 _ h1').1 hp
  obtain ⟨n, m, x1, x2, x3⟩ := hab
  obtain ⟨n', m', y1, y2, y3⟩ := hba
  rw [x1] at y2; rw [x2] at y1
  cases y1; cases y2
  omega

/-! ### leaves -/

theorem visitScalar_seq (ty : Ty) (l : List Pres) : visitScalar ty (.seq l) = fail := by cases ty <;> rfl
theorem visitScalar_map (ty : Ty) (l : List (Bytes × Pres)) : visitScalar ty (.map l) = fail := by cases ty <;> rfl

theorem scalar_place (ty : Ty) (v : TV) :
    Agree (visitScalar ty (presValue currentDtAsMap v)) (visitScalar ty (presValue currentDtAsMap (P v))) := by
  cases v with
  | arr l => rw [presValue, visitScalar_seq]; exact agree_fail_left _
  | tbl es => rw [presValue, visitScalar_map]; exact agree_fail_left _
  | _ => exact agree_refl _

/-- a table without the private key is not a date-time -/
theorem decodeDatetime_noField (es : List (Bytes × TV)) (hf : FIELD ∉ es.map Prod.fst) :
    decodeDatetime (presValue currentDtAsMap (.tbl es)) = none := by
  cases es with
  | nil => rfl
  | cons x r =>
    obtain ⟨k, v⟩ := x
    simp only [List.map_cons, List.mem_cons, not_or] at hf
    have hk : (k == FIELD) = false := by simp only [beq_eq_false_iff_ne, ne_eq]; exact fun e => hf.1 e.symm
    rw [presValue, presValuePairs]
    cases hp : presValue currentDtAsMap v <;> simp [decodeDatetime, hk]

theorem dt_place (ty : Ty) (v : TV) (h : WfTV v) :
    Agree (datetimeTarget ty (presValue currentDtAsMap v)) (datetimeTarget ty (presValue currentDtAsMap (P v))) := by
  cases v with
  | arr l =>
    have : datetimeTarget ty (presValue currentDtAsMap (.arr l)) = fail := by
      simp [presValue, datetimeTarget, decodeDatetime]
    rw [this]; exact agree_fail_left _
  | tbl es =>
    rw [WfTV] at h
    have : datetimeTarget ty (presValue currentDtAsMap (.tbl es)) = fail := by
      simp [datetimeTarget, decodeDatetime_noField es h.2.2]
    rw [this]; exact agree_fail_left _
  | _ => exact agree_refl _

end TomlVerif.Lemmas.DeTyped13
