import TomlVerif.Lemmas.Tiling03Value
import TomlVerif.Lemmas.Tiling03NestKeyval
/-! C03, stage C inside inline tables — the tree side: dotted keys inside `{…}`.

    `table_from_pairs` keeps ONE stored `Key` per entry of an inline table, so the key path of a
    pair `a.c = 2` that extends an existing implicit dotted table `a` is printed with the spelling
    of the FIRST `a`.  The class is therefore defined on the source side (`insOk` / `pairsOk`,
    the analogue of `dottedOk` of `Tiling03NestDefs.lean`): at each `cinlInsert` step every path
    segment that names an EXISTING entry must name the LAST entry of its list (adjacent dotted
    keys), that entry must be a dotted inline table, and the segment must be spelled like the
    stored key (`sameSeg`).

    Main results of this file:
    * `encodeInl_values`  : the inline-table printer is the entry printer `encEntries` on the
                            flattened entry list `valuesInl`;
    * `inl_insert`        : the analogue of `kv_descend` for `cinlInsert`;
    * `pairs_text`        : `table_from_pairs` under `pairsOk` — the printed body of the table is
                            the printed list of the pairs, each under the key path as the source
                            spelled it. -/
namespace TomlVerif.Lemmas.Tiling03More
open TomlVerif TomlVerif.Spec TomlVerif.Model TomlVerif.Model.Strings TomlVerif.Model.Value
open TomlVerif.Model.Cst TomlVerif.Model.Encode TomlVerif.Lemmas.Suffix03 TomlVerif.Lemmas.Cst03
open TomlVerif.Lemmas.Tiling03 TomlVerif.Lemmas.Tiling03Hdr TomlVerif.Lemmas.Tiling03Nest

abbrev VItems := List (CKey × CVal)
abbrev Triple := List CKey × CKey × CVal

/-! ### lookups in lists of values (the `Items` versions of `Tiling03HdrBase.lean`) -/

theorem vlookup_append_none (k : Bytes) : ∀ (a b : VItems), clookup k a = none → clookup k (a ++ b) = clookup k b
  | [], b, _ => rfl
  | (k', v) :: r, b, h => by
    unfold clookup at h
    split at h
    · cases h
    · rename_i hk
      simp only [List.cons_append, clookup, hk]
      exact vlookup_append_none k r b h

theorem vlookup_single (k : Bytes) (k' : CKey) (x : CVal) :
    clookup k [(k', x)] = if k'.key == k then some x else none := by
  simp [clookup]

theorem vreplace_snoc (k : Bytes) (x y : CVal) (k' : CKey) (hk : (k'.key == k) = true) :
    ∀ r0 : VItems, clookup k r0 = none → creplace k x (r0 ++ [(k', y)]) = r0 ++ [(k', x)]
  | [], _ => by simp [creplace, hk]
  | (k2, v) :: r, h => by
    unfold clookup at h
    split at h
    · cases h
    · rename_i hk2
      simp only [List.cons_append, creplace, hk2]
      rw [vreplace_snoc k x y k' hk r h]; rfl

/-! ### the class, tree-building side -/

/-- the entry for `k` when it is the last item of the list (and the only one for `k`) -/
def lastEnt (k : Bytes) (items : VItems) : Option (VItems × CKey × CVal) :=
  match splitLast items with
  | some (init, (k', it)) => if k'.key == k && (clookup k init).isNone then some (init, k', it) else none
  | none => none

theorem lastEnt_some (k : Bytes) (items init : VItems) (k' : CKey) (it : CVal)
    (h : lastEnt k items = some (init, k', it)) :
    items = init ++ [(k', it)] ∧ (k'.key == k) = true ∧ clookup k init = none ∧ clookup k items = some it := by
  unfold lastEnt at h
  split at h
  · rename_i init0 k0 it0 hsl
    have hi := vsplitLast_some _ _ _ hsl
    split at h
    · rename_i hc
      simp only [Bool.and_eq_true, Option.isNone_iff_eq_none] at hc
      injection h with h
      simp only [Prod.mk.injEq] at h
      obtain ⟨e1, e2, e3⟩ := h
      subst e1; subst e2; subst e3
      refine ⟨hi, hc.1, hc.2, ?_⟩
      rw [hi, vlookup_append_none _ _ _ hc.2, vlookup_single, hc.1]; rfl
    · cases h
  · cases h

/-- the check of one `cinlInsert` step with key path prefix `path`, on the entry list `items`
    built so far: every prefix segment that names an existing entry names the LAST entry
    (adjacent dotted keys), which is a dotted inline table, and is spelled like the stored key -/
def insOk (inp : Bytes) : VItems → List CKey → Bool
  | _, [] => true
  | items, k :: ks => match clookup k.key items with
      | none => true
      | some _ => match lastEnt k.key items with
          | some (_, k', .inl sub _ _ dot _ _) => sameSeg inp k k' && dot && insOk inp sub ks
          | _ => false

/-- `table_from_pairs` with the check at every step (the control flow is that of
    `ctableFromPairs`) -/
def pairsOk (inp : Bytes) : List Triple → VItems → Bool
  | [], _ => true
  | (path, key, v) :: rest, acc =>
    insOk inp acc path &&
    (match cinlInsert acc false path path.isEmpty key v with
     | some acc' => pairsOk inp rest acc'
     | none => true)

theorem insOk_nil (inp : Bytes) : ∀ path, insOk inp [] path = true
  | [] => rfl
  | k :: ks => by simp [insOk, clookup]

/-! ### the flattened entry list and its printer -/

/-- the child loop of `encode_table` on the list `InlineTable::get_values` returns: `i` is the
    index of the next child, `len` the number of children -/
def encEntries (f : Bytes → Bytes) (inp : Bytes) : List (List CKey × CVal) → Nat → Nat → Bytes
  | [], _, _ => []
  | (kp, v) :: r, i, len =>
    (if i != 0 then [0x2C] else []) ++ encodeKeyPath f inp kp [0x20] [0x20] ++ [0x3D]
      ++ encodeValue f inp v [0x20] (if i + 1 == len then [0x20] else [])
      ++ encEntries f inp r (i + 1) len

theorem encEntries_append (f : Bytes → Bytes) (inp : Bytes) : ∀ (a b : List (List CKey × CVal)) (i len : Nat),
    encEntries f inp (a ++ b) i len = encEntries f inp a i len ++ encEntries f inp b (i + a.length) len
  | [], b, i, len => by simp [encEntries]
  | (kp, v) :: r, b, i, len => by
    simp only [List.cons_append, encEntries, encEntries_append f inp r b (i + 1) len, List.length_cons,
      List.append_assoc]
    have : i + 1 + r.length = i + (r.length + 1) := by omega
    rw [this]

theorem valuesInl_cons (k : CKey) (v : CVal) (r : VItems) (P : List CKey) :
    valuesInl ((k, v) :: r) P = valuesVal v (P ++ [k]) ++ valuesInl r P := by
  rw [valuesInl]

theorem valuesInl_nil (P : List CKey) : valuesInl [] P = [] := by
  rw [valuesInl]

theorem valuesInl_append : ∀ (a b : VItems) (P : List CKey),
    valuesInl (a ++ b) P = valuesInl a P ++ valuesInl b P
  | [], b, P => by simp [valuesInl_nil]
  | (k, v) :: r, b, P => by
    simp only [List.cons_append, valuesInl_cons, valuesInl_append r b P, List.append_assoc]

theorem valuesVal_undotted (v : CVal) (h : undotted v = true) (P : List CKey) : valuesVal v P = [(P, v)] := by
  cases v with
  | scalar a b c => simp [valuesVal]
  | arr a b c d e => simp [valuesVal]
  | inl sub pre imp dot dec sp =>
    have : dot = false := by simpa [undotted] using h
    subst this
    simp [valuesVal]

theorem valuesVal_dotted (sub : VItems) (pre : Raw) (imp : Bool) (dec : Decor) (sp : Option Span) (P : List CKey) :
    valuesVal (.inl sub pre imp true dec sp) P = valuesInl sub P := by
  simp [valuesVal]

mutual
/-- the printer of an inline table body is the entry printer on the flattened entry list -/
theorem encodeInl_values (f : Bytes → Bytes) (inp : Bytes) : ∀ (items : VItems) (parent : List CKey) (i len : Nat),
    encodeInl f inp items parent i len
      = (encEntries f inp (valuesInl items parent) i len, i + (valuesInl items parent).length)
  | [], parent, i, len => by simp [encodeInl, valuesInl_nil, encEntries]
  | (k, .scalar a b c) :: r, parent, i, len => by
    rw [encodeInl, valuesInl_cons]
    simp only [encodeInl_values f inp r parent (i + 1) len, valuesVal, List.cons_append, List.nil_append,
      encEntries, List.length_cons]
    simp only [List.append_assoc, Prod.mk.injEq, true_and]
    omega
  | (k, .arr a b c d e) :: r, parent, i, len => by
    rw [encodeInl, valuesInl_cons]
    simp only [encodeInl_values f inp r parent (i + 1) len, valuesVal, List.cons_append, List.nil_append,
      encEntries, List.length_cons]
    simp only [List.append_assoc, Prod.mk.injEq, true_and]
    omega
  | (k, .inl sub pre imp false dec sp) :: r, parent, i, len => by
    rw [encodeInl, valuesInl_cons]
    simp only [Bool.false_eq_true, if_false, encodeInl_values f inp r parent (i + 1) len, valuesVal,
      List.cons_append, List.nil_append, encEntries, List.length_cons]
    simp only [List.append_assoc, Prod.mk.injEq, true_and]
    omega
  | (k, .inl sub pre imp true dec sp) :: r, parent, i, len => by
    rw [encodeInl, valuesInl_cons]
    simp only [if_true, encodeInl_values f inp sub (parent ++ [k]) i len,
      encodeInl_values f inp r parent _ len, valuesVal, encEntries_append, List.length_append]
    simp only [Prod.mk.injEq, true_and]
    omega
end

mutual
theorem countInl_values : ∀ (items : VItems) (P : List CKey), countInl items = (valuesInl items P).length
  | [], P => by simp [countInl, valuesInl_nil]
  | (k, v) :: r, P => by
    rw [countInl, valuesInl_cons, List.length_append, countInl_values r P, countVal_values v (P ++ [k])]
theorem countVal_values : ∀ (v : CVal) (P : List CKey), countVal v = (valuesVal v P).length
  | .scalar a b c, P => by simp [countVal, valuesVal]
  | .arr a b c d e, P => by simp [countVal, valuesVal]
  | .inl sub pre imp false dec sp, P => by simp [countVal, valuesVal]
  | .inl sub pre imp true dec sp, P => by
    simp only [countVal, valuesVal, if_true]
    exact countInl_values sub P
end

/-! ### `cinlInsert` under the check -/

/-- the analogue of `kv_descend` for inline tables: under the check, `cinlInsert` appends ONE
    entry to the flattened entry list, and the key path of that entry prints like `path ++ [key]`
    as the source spelled it (`Q` is the source spelling of the parent path `P`) -/
theorem inl_insert (f : Bytes → Bytes) (inp : Bytes) (key : CKey) (v : CVal) (hv : undotted v = true) :
    ∀ (path : List CKey) (items items' : VItems) (td pe : Bool) (P Q : List CKey),
      insOk inp items path = true → SegsEq f inp P Q →
      cinlInsert items td path pe key v = some items' →
      ∃ X, valuesInl items' P = valuesInl items P ++ [(X, v)] ∧
        ∀ dp ds, encodeKeyPath f inp X dp ds = encodeKeyPath f inp (Q ++ path ++ [key]) dp ds := by
  intro path
  induction path with
  | nil =>
    intro items items' td pe P Q _ hPQ h
    unfold cinlInsert at h
    split at h
    · cases h
    · split at h
      · cases h
      · injection h with h; subst h
        refine ⟨P ++ [key], ?_, ?_⟩
        · rw [valuesInl_append, valuesInl_cons, valuesInl_nil, valuesVal_undotted v hv, List.append_nil]
        · intro dp ds
          rw [List.append_nil]
          exact encodeKeyPath_congr f inp P Q key key dp ds hPQ (LeafEq.refl f inp key)
  | cons k ks ih =>
    intro items items' td pe P Q hok hPQ h
    have hlist : ∀ (k0 : CKey), Q ++ [k0] ++ ks ++ [key] = Q ++ k0 :: ks ++ [key] := by intro k0; simp
    unfold cinlInsert at h
    simp only [insOk] at hok
    split at h
    · rename_i hl
      split at h
      · rename_i sub hsub
        injection h with h; subst h
        obtain ⟨X, i3, i4⟩ := ih [] sub true pe (P ++ [k]) (Q ++ [k]) (insOk_nil inp ks)
          (hPQ.snoc (SegEq.refl f inp k)) hsub
        refine ⟨X, ?_, ?_⟩
        · rw [valuesInl_append, valuesInl_cons, valuesInl_nil, newDottedInl, valuesVal_dotted, i3, valuesInl_nil]
          simp
        · intro dp ds
          rw [i4, hlist]
      · cases h
    · rename_i sub pre imp dot dec sp hl
      rw [hl] at hok
      simp only [] at hok
      split at h
      · cases h
      · split at h
        · rename_i sub' hsub
          injection h with h; subst h
          split at hok
          · rename_i init k' sub2 pre2 imp2 dot2 dec2 sp2 hle
            obtain ⟨e1, e2, e3, e4⟩ := lastEnt_some _ _ _ _ _ hle
            rw [hl] at e4
            cases e4
            simp only [Bool.and_eq_true] at hok
            obtain ⟨⟨hseg, hdot⟩, hok2⟩ := hok
            subst hdot
            obtain ⟨X, i3, i4⟩ := ih sub sub' true pe (P ++ [k']) (Q ++ [k]) hok2
              (hPQ.snoc (sameSeg_segEq f inp k k' hseg).symm) hsub
            refine ⟨X, ?_, ?_⟩
            · rw [e1, vreplace_snoc _ _ _ _ e2 init e3, valuesInl_append, valuesInl_append, valuesInl_cons,
                valuesInl_cons, valuesInl_nil, valuesVal_dotted, valuesVal_dotted, i3]
              simp [List.append_assoc]
            · intro dp ds
              rw [i4, hlist]
          · cases hok
        · cases h
    · cases h

/-! ### `table_from_pairs` under the check -/

/-- the pairs as entries: each under the key path as the source spelled it -/
def tripleEntries (kvs : List Triple) : List (List CKey × CVal) := kvs.map fun p => (p.1 ++ [p.2.1], p.2.2)

/-- the pairs of an inline table printed in order, separated by commas -/
def encTriples (f : Bytes → Bytes) (inp : Bytes) : List Triple → Bool → Bytes
  | [], _ => []
  | (path, key, v) :: r, first =>
    (if first then [] else [0x2C]) ++ encodeKeyPath f inp (path ++ [key]) [0x20] [0x20] ++ [0x3D]
      ++ encodeValue f inp v [] [] ++ encTriples f inp r false

theorem encTriples_false (f : Bytes → Bytes) (inp : Bytes) (l : List Triple) (hne : l ≠ []) :
    encTriples f inp l false = [0x2C] ++ encTriples f inp l true := by
  cases l with
  | nil => exact absurd rfl hne
  | cons p r => obtain ⟨path, key, v⟩ := p; simp [encTriples]

theorem encEntries_triples (f : Bytes → Bytes) (inp : Bytes) : ∀ (kvs : List Triple) (i len : Nat),
    (∀ p ∈ kvs, ∃ a b, p.2.2.decor = Decor.new a b) →
    encEntries f inp (tripleEntries kvs) i len = encTriples f inp kvs (i == 0)
  | [], i, len, _ => by simp [tripleEntries, encEntries, encTriples]
  | (path, key, v) :: r, i, len, h => by
    obtain ⟨a, b, hd⟩ := h (path, key, v) (by simp)
    have ih := encEntries_triples f inp r (i + 1) len (fun p hm => h p (List.mem_cons_of_mem _ hm))
    have hi : ((i + 1 == 0) = false) := by simp
    simp only [tripleEntries, List.map_cons] at ih ⊢
    simp only [encEntries, encTriples, ih, hi]
    rw [encodeValue_default_irrel f inp v a b hd [0x20] _ [] []]
    by_cases h0 : i = 0 <;> simp [h0]

theorem pairs_text (f : Bytes → Bytes) (inp : Bytes) : ∀ (kvs : List Triple) (acc items : VItems),
    pairsOk inp kvs acc = true → (∀ p ∈ kvs, undotted p.2.2 = true) → ctableFromPairs kvs acc = some items →
    (valuesInl items []).length = (valuesInl acc []).length + kvs.length ∧
    ∀ i len, encEntries f inp (valuesInl items []) i len
      = encEntries f inp (valuesInl acc [] ++ tripleEntries kvs) i len
  | [], acc, items, _, _, h => by
    unfold ctableFromPairs at h
    injection h with h; subst h
    simp [tripleEntries]
  | (path, key, v) :: rest, acc, items, hok, hu, h => by
    unfold ctableFromPairs at h
    unfold pairsOk at hok
    simp only [Bool.and_eq_true] at hok
    obtain ⟨hok1, hok2⟩ := hok
    split at h
    · rename_i acc' hins
      rw [hins] at hok2
      simp only [] at hok2
      obtain ⟨X, i3, i4⟩ := inl_insert f inp key v (hu (path, key, v) (by simp)) path acc acc' false
        path.isEmpty [] [] hok1 .nil hins
      obtain ⟨j1, j2⟩ := pairs_text f inp rest acc' items hok2 (fun p hm => hu p (List.mem_cons_of_mem _ hm)) h
      refine ⟨?_, ?_⟩
      · rw [j1, i3]; simp; omega
      · intro i len
        rw [j2, i3]
        simp only [tripleEntries, List.map_cons, List.append_assoc, List.cons_append, List.nil_append]
        rw [encEntries_append, encEntries_append]
        simp only [encEntries]
        rw [i4]
        simp
    · cases h

/-- the body of an inline table built by `table_from_pairs` under the check prints as the list
    of its pairs -/
theorem inl_body_text (f : Bytes → Bytes) (inp : Bytes) (kvs : List Triple) (items : VItems)
    (hok : pairsOk inp kvs [] = true) (hu : ∀ p ∈ kvs, undotted p.2.2 = true)
    (hd : ∀ p ∈ kvs, ∃ a b, p.2.2.decor = Decor.new a b) (h : ctableFromPairs kvs [] = some items) :
    (encodeInl f inp items [] 0 (countInl items)).1 = encTriples f inp kvs true := by
  obtain ⟨_, j2⟩ := pairs_text f inp kvs [] items hok hu h
  rw [encodeInl_values, j2, valuesInl_nil, List.nil_append, encEntries_triples f inp kvs 0 _ hd]
  rfl

/-! ### the hypotheses of the lemmas above on a concrete input -/

/-- `{a . b = 1, a . c = [2], d = {}}` -/
def exSrc : Bytes := strBytes "{a . b = 1, a . c = [2], d = {}}"

/-- the pairs `cinlineKeyvals` reads from `exSrc` (after the opening brace) -/
def exPairs : List Triple :=
  match cinlineKeyvals exSrc.length 100 1 (exSrc.drop 1) [] with
  | .ok kvs _ => kvs
  | _ => []

/-- `lastEnt_some`, `inl_insert` at the second pair `a . c = [2]`: its prefix `a` names the last
    entry of the list built from the first pair (`lastEnt` is defined), the check holds, the value
    is undotted and `cinlInsert` succeeds -/
def exInsertHyps : Bool :=
  match exPairs with
  | [t1, t2, _] =>
    (match cinlInsert [] false t1.1 t1.1.isEmpty t1.2.1 t1.2.2 with
     | some items1 =>
       (match t2.1 with
        | k :: _ => (lastEnt k.key items1).isSome
        | [] => false) &&
       insOk exSrc items1 t2.1 && undotted t2.2.2 &&
       (cinlInsert items1 false t2.1 t2.1.isEmpty t2.2.1 t2.2.2).isSome
     | none => false)
  | _ => false

example : exInsertHyps = true := by decide +kernel

/-- `pairs_text`, `inl_body_text`, `encEntries_triples` on the three pairs of `exSrc` -/
example : exPairs.length = 3 ∧ pairsOk exSrc exPairs [] = true ∧
    (exPairs.all fun p => undotted p.2.2) = true ∧
    (exPairs.all fun p => p.2.2.decor.pre.isSome && p.2.2.decor.suf.isSome) = true ∧
    (ctableFromPairs exPairs []).isSome = true := by decide +kernel

end TomlVerif.Lemmas.Tiling03More
