import TomlVerif.Model.Datetime
import TomlVerif.Lemmas.ByteDecide
/-! Helper lemmas for C12: the standalone parser (`Std`), the document parser (`Doc`) and the
    printer (`Std.display`) of date-times. -/
namespace TomlVerif.Lemmas.Datetime12
open TomlVerif TomlVerif.Spec TomlVerif.Model.Datetime

/-! ## digits -/

theorem dval_le_of_isDigit : ∀ b : Byte, isDigit b = true → dval b ≤ 9 :=
  forall_byte (by decide +kernel)

theorem takeDigits_fst (b : Byte) (r : Bytes) :
    takeDigits (b :: r) = if isDigit b then (b :: (takeDigits r).1, (takeDigits r).2) else ([], b :: r) := by
  simp [takeDigits]

theorem takeDigits_all : ∀ w : Bytes, ∀ b ∈ (takeDigits w).1, isDigit b = true := by
  intro w
  induction w with
  | nil => simp [takeDigits]
  | cons a r ih =>
    rw [takeDigits_fst]
    by_cases h : isDigit a = true
    · simp only [h, if_true]
      intro b hb
      simp at hb
      rcases hb with hb | hb
      · subst hb; exact h
      · exact ih b hb
    · simp [h]

theorem takeDigits_snd : ∀ w : Bytes, (takeDigits w).2 = w.drop (takeDigits w).1.length := by
  intro w
  induction w with
  | nil => simp [takeDigits]
  | cons a r ih =>
    rw [takeDigits_fst]
    by_cases h : isDigit a = true
    · simp [h, ih]
    · simp [h]

/-- scaled value of a digit run starting at fraction position `i` -/
def fracVal : Bytes → Nat → Nat
  | [], _ => 0
  | b :: r, i => (if i < 9 then 10 ^ (8 - i) * dval b else 0) + fracVal r (i + 1)

theorem fracLoop_eq : ∀ (w : Bytes) (i acc : Nat),
    Std.fracLoop w i acc = (acc + fracVal (takeDigits w).1 i, i + (takeDigits w).1.length) := by
  intro w
  induction w with
  | nil => intro i acc; simp [Std.fracLoop, takeDigits, fracVal]
  | cons a r ih =>
    intro i acc
    rw [takeDigits_fst]
    by_cases h : isDigit a = true
    · simp only [Std.fracLoop, h, if_true, ih, fracVal, List.length_cons]
      by_cases hi : i < 9
      · simp [hi]; omega
      · simp [hi]; omega
    · simp [Std.fracLoop, h, fracVal]

theorem fracVal_ge9 : ∀ (ds : Bytes) (i : Nat), 9 ≤ i → fracVal ds i = 0 := by
  intro ds
  induction ds with
  | nil => intro i _; rfl
  | cons b r ih =>
    intro i hi
    have : ¬ i < 9 := by omega
    simp [fracVal, this, ih (i + 1) (by omega)]

theorem fracVal_bound : ∀ (ds : Bytes) (i : Nat), (∀ b ∈ ds, isDigit b = true) → i ≤ 9 →
    fracVal ds i + 1 ≤ 10 ^ (9 - i) := by
  intro ds
  induction ds with
  | nil => intro i _ _; simp [fracVal]; exact Nat.pow_pos (by decide)
  | cons b r ih =>
    intro i hd hi
    by_cases h9 : i < 9
    · have hb := dval_le_of_isDigit b (hd b (by simp))
      have hr := ih (i + 1) (fun x hx => hd x (by simp [hx])) (by omega)
      have e1 : 9 - i = (8 - i) + 1 := by omega
      have e2 : 9 - (i + 1) = 8 - i := by omega
      rw [e2] at hr
      rw [e1, Nat.pow_succ]
      simp only [fracVal, h9, if_true]
      have : 10 ^ (8 - i) * dval b ≤ 10 ^ (8 - i) * 9 := Nat.mul_le_mul_left _ hb
      omega
    · have : i = 9 := by omega
      subst this
      simp [fracVal, fracVal_ge9 r 10 (by omega)]

theorem natOfDigits_foldl (ds : Bytes) : ∀ a : Nat,
    ds.foldl (fun acc b => acc * 10 + dval b) a = a * 10 ^ ds.length + natOfDigits ds := by
  induction ds with
  | nil => intro a; simp [natOfDigits]
  | cons b r ih =>
    intro a
    simp only [List.foldl_cons, natOfDigits, List.length_cons]
    rw [ih (a * 10 + dval b), ih (0 * 10 + dval b)]
    rw [Nat.pow_succ]
    simp [Nat.add_mul, Nat.mul_assoc, Nat.add_assoc, Nat.mul_comm (10 ^ r.length) 10]

theorem natOfDigits_cons (b : Byte) (r : Bytes) :
    natOfDigits (b :: r) = dval b * 10 ^ r.length + natOfDigits r := by
  have := natOfDigits_foldl r (0 * 10 + dval b)
  simpa [natOfDigits] using this

theorem fracVal_eq : ∀ (ds : Bytes) (i : Nat), i ≤ 9 →
    fracVal ds i = natOfDigits (ds.take (9 - i)) * 10 ^ (9 - i - (ds.take (9 - i)).length) := by
  intro ds
  induction ds with
  | nil => intro i _; simp [fracVal, natOfDigits]
  | cons b r ih =>
    intro i hi
    by_cases h9 : i < 9
    · obtain ⟨k, hk⟩ : ∃ k, 9 - i = k + 1 := ⟨8 - i, by omega⟩
      have hk' : 9 - (i + 1) = k := by omega
      have hk8 : 8 - i = k := by omega
      have hr := ih (i + 1) (by omega)
      rw [hk'] at hr
      simp only [fracVal, h9, if_true, hk, List.take_succ_cons, natOfDigits_cons, List.length_cons, hr, hk8]
      have hL : (List.take k r).length ≤ k := by simp [List.length_take]; omega
      have e : k + 1 - ((List.take k r).length + 1) = k - (List.take k r).length := by omega
      rw [e, Nat.add_mul, Nat.mul_assoc, ← Nat.pow_add]
      have e2 : (List.take k r).length + (k - (List.take k r).length) = k := by omega
      rw [e2, Nat.mul_comm]
    · have : i = 9 := by omega
      subst this
      simp [fracVal_ge9 (b :: r) 9 (by omega), natOfDigits]

theorem fracVal_zero (ds : Bytes) :
    fracVal ds 0 = natOfDigits (ds.take 9) * Doc.scale (ds.take 9).length := by
  rw [fracVal_eq ds 0 (by omega)]
  simp only [Nat.sub_zero, Doc.scale]
  by_cases h : (List.take 9 ds).length = 0
  · have : List.take 9 ds = [] := List.eq_nil_of_length_eq_zero h
    simp [this, natOfDigits]
  · generalize (List.take 9 ds).length = L at h ⊢
    simp [h]

/-! ## fraction -/

/-- the fraction reader of `FromStr`, as a function -/
def stdFrac (r : Bytes) : Option (Nat × Bytes) :=
  match r with
  | 0x2E :: w =>
    let (ns, e) := Std.fracLoop w 0 0
    if e == 0 then none else some (ns, w.drop e)
  | _ => some (0, r)

theorem secfracOpt_dot (w : Bytes) :
    Doc.secfracOpt (0x2E :: w) =
      if (takeDigits w).1 = [] then (0, 0x2E :: w)
      else (fracVal (takeDigits w).1 0, w.drop (takeDigits w).1.length) := by
  have hs := takeDigits_snd w
  rcases hd : takeDigits w with ⟨ds, t⟩
  rw [hd] at hs
  simp only at hs
  cases ds with
  | nil => simp [Doc.secfracOpt, hd]
  | cons b ds' => simp only [Doc.secfracOpt, hd, fracVal_zero, hs]; simp

theorem stdFrac_doc (r : Bytes) :
    (stdFrac r = some (Doc.secfracOpt r) ∧ (Doc.secfracOpt r).1 ≤ 999999999) ∨
    (stdFrac r = none ∧ Doc.secfracOpt r = (0, r) ∧ ∃ w, r = 0x2E :: w) := by
  unfold stdFrac
  split
  · rename_i w
    rw [fracLoop_eq, secfracOpt_dot]
    have ha := takeDigits_all w
    by_cases h : (takeDigits w).1 = []
    · right; simp [h]
    · left
      have hb := fracVal_bound _ 0 ha (by omega)
      simp [h]
      omega
  · left
    rename_i h
    have : Doc.secfracOpt r = (0, r) := by
      unfold Doc.secfracOpt
      split
      · rename_i w; exact absurd rfl (h w)
      · rfl
    simp [this]

theorem parseTime_unfold (s : Bytes) : Std.parseTime s =
    match digits2 s with
    | none => none
    | some (h, r) =>
      match r with
      | 0x3A :: r =>
        match digits2 r with
        | none => none
        | some (m, r) =>
          match r with
          | 0x3A :: r =>
            match digits2 r with
            | none => none
            | some (sec, r) =>
              match stdFrac r with
              | none => none
              | some (ns, r) =>
                if h > 23 then none
                else if m > 59 then none
                else if sec > 60 then none
                else if ns > 999999999 then none
                else some (⟨h, m, sec, ns⟩, r)
          | _ => none
      | _ => none := by
  rfl

/-- `Std.parseTime` against `Doc.partialTime` -/
theorem parseTime_doc (s : Bytes) :
    match Doc.partialTime s with
    | .ok t r => Std.parseTime s = some (t, r) ∨ (Std.parseTime s = none ∧ ∃ w, r = 0x2E :: w)
    | _ => Std.parseTime s = none := by
  rw [parseTime_unfold]
  unfold Doc.partialTime
  cases digits2 s with
  | none => simp
  | some p =>
    obtain ⟨h, r⟩ := p
    simp only
    by_cases hh : h ≤ 23
    case neg =>
      simp [hh]
      split
      · repeat' (first | rfl | split | (exfalso; omega))
      · rfl
    rcases r with _ | ⟨c, r⟩
    · simp [hh]
    by_cases hc : c = 0x3A
    case neg => simp [hh, hc]
    subst hc
    simp only [hh]
    cases digits2 r with
    | none => simp
    | some p =>
      obtain ⟨m, r⟩ := p
      by_cases hm : m ≤ 59
      case neg =>
        simp [hm]
        repeat' (first | rfl | split | (exfalso; omega))
      rcases r with _ | ⟨c, r⟩
      · simp [hm]
      by_cases hc : c = 0x3A
      case neg => simp [hm, hc]
      subst hc
      simp only [hm]
      cases digits2 r with
      | none => simp
      | some p =>
        obtain ⟨sec, r⟩ := p
        by_cases hs : sec ≤ 60
        case neg =>
          simp [hs]
          repeat' (first | rfl | split | (exfalso; omega))
        simp only [hs]
        rcases stdFrac_doc r with ⟨h1, h2⟩ | ⟨h1, h2, w, h3⟩
        · left
          have e1 : ¬ 23 < h := by omega
          have e2 : ¬ 59 < m := by omega
          have e3 : ¬ 60 < sec := by omega
          have e4 : ¬ 999999999 < (Doc.secfracOpt r).fst := by omega
          simp [h1, e1, e2, e3, e4]
        · right
          simp only [h1, h2]
          exact ⟨True.intro, w, h3⟩


theorem maxDays_le (y m : Nat) : maxDays y m ≤ 31 := by
  unfold maxDays; repeat' split
  all_goals omega

/-- `Std.parseDate` against `Doc.fullDate` -/
theorem parseDate_doc (s : Bytes) :
    Std.parseDate s = match Doc.fullDate s with
      | .ok d r => some (d, r)
      | _ => none := by
  unfold Std.parseDate Doc.fullDate
  cases digits4 s with
  | none => simp
  | some p =>
    obtain ⟨y, r⟩ := p
    simp only
    rcases r with _ | ⟨c, r⟩
    · simp
    by_cases hc : c = 0x2D
    case neg => simp [hc]
    subst hc
    simp only
    cases digits2 r with
    | none => simp
    | some p =>
      obtain ⟨m, r⟩ := p
      simp only
      by_cases hm : 1 ≤ m ∧ m ≤ 12
      case neg =>
        have hb : (!(decide (1 ≤ m) && decide (m ≤ 12))) = true := by simp; omega
        have hb' : (decide (m < 1) || decide (m > 12)) = true := by simp; omega
        simp only [hb, if_true, hb']
        repeat' (first | rfl | split)
      have hb : (!(decide (1 ≤ m) && decide (m ≤ 12))) = false := by simp; omega
      have hb' : (decide (m < 1) || decide (m > 12)) = false := by simp; omega
      rcases r with _ | ⟨c, r⟩
      · simp [hb]
      by_cases hc : c = 0x2D
      case neg => simp [hb, hc]
      subst hc
      simp only [hb]
      cases digits2 r with
      | none => simp
      | some p =>
        obtain ⟨d, r⟩ := p
        have := maxDays_le y m
        simp only [hb']
        by_cases hd : 1 ≤ d ∧ d ≤ maxDays y m
        · have h1 : (!(decide (1 ≤ d) && decide (d ≤ 31))) = false := by simp; omega
          have h2 : (decide (d < 1) || decide (d > maxDays y m)) = false := by simp; omega
          have h3 : ¬ maxDays y m < d := by omega
          simp [h1, h3]
          omega
        · have h2 : (decide (d < 1) || decide (d > maxDays y m)) = true := by simp; omega
          by_cases h1 : 1 ≤ d ∧ d ≤ 31
          · have h1' : (!(decide (1 ≤ d) && decide (d ≤ 31))) = false := by simp; omega
            have h3 : maxDays y m < d := by omega
            simp [h1', h3]
          · have h1' : (!(decide (1 ≤ d) && decide (d ≤ 31))) = true := by simp; omega
            simp [h1']
            omega


/-- `Std.parseOffset` against `Doc.timeOffset` -/
theorem parseOffset_doc (s : Bytes) :
    Std.parseOffset s = match Doc.timeOffset s with
      | .ok o r => some (some o, r)
      | .bt => if s = [] then some (none, []) else none
      | .cut => none := by
  unfold Std.parseOffset Doc.timeOffset
  rcases s with _ | ⟨c, s⟩
  · simp
  simp only
  by_cases hz : (c == 0x5A || c == 0x7A) = true
  · simp only [hz, if_true]
  simp only [hz]
  by_cases hs : (c == 0x2B || c == 0x2D) = true
  case neg => simp [hs]
  simp only [hs, if_true]
  cases digits2 s with
  | none => simp
  | some p =>
    obtain ⟨h, r⟩ := p
    simp only [Bool.false_eq_true, if_false]
    by_cases hh : h ≤ 23
    case neg =>
      have e : decide (h > 23) = true := by simp; omega
      simp only [hh, e, Bool.true_or, if_true]
      simp
      repeat' (first | rfl | split)
    have e : decide (h > 23) = false := by simp; omega
    simp only [hh, e, Bool.false_or]
    rcases r with _ | ⟨d, r⟩
    · simp
    by_cases hd : d = 0x3A
    case neg => simp [hd]
    subst hd
    simp only
    cases digits2 r with
    | none => simp
    | some p =>
      obtain ⟨m, r⟩ := p
      by_cases hm : m ≤ 59
      case neg => simp [hm]
      have e2 : decide (m > 59) = false := by simp; omega
      simp only [hm, e2]
      generalize ((if (c == 43) = true then 1 else -1) * ((h : Int) * 60 + (m : Int))) = tot
      by_cases ht : -1440 ≤ tot ∧ tot ≤ 1440
      · simp [ht]
      · simp [ht]

theorem digits4_colon (a b : Byte) (r : Bytes) : digits4 (a :: b :: 0x3A :: r) = none := by
  rcases r with _ | ⟨d, r⟩
  · rfl
  · have : isDigit 0x3A = false := by decide
    simp [digits4, this]

theorem fullDate_colon (a b : Byte) (r : Bytes) : Doc.fullDate (a :: b :: 0x3A :: r) = .bt := by
  simp [Doc.fullDate, digits4_colon]

theorem partialTime_not_colon (a b c : Byte) (r : Bytes) (hc : c ≠ 0x3A) :
    Doc.partialTime (a :: b :: c :: r) = .bt := by
  unfold Doc.partialTime
  by_cases hd : (isDigit a && isDigit b) = true
  · simp only [digits2, hd, if_true]
    split
    · rfl
    · simp [hc]
  · simp [digits2, hd]

theorem parseAll_short (s : Bytes) (h : s.length < 3) : Doc.parseAll s = none := by
  have h4 : digits4 s = none := by
    rcases s with _ | ⟨a, _ | ⟨b, _ | ⟨c, s⟩⟩⟩ <;> simp [digits4] at h ⊢
    omega
  have hp : Doc.partialTime s = .bt := by
    rcases s with _ | ⟨a, _ | ⟨b, _ | ⟨c, s⟩⟩⟩
    · simp [Doc.partialTime, digits2]
    · simp [Doc.partialTime, digits2]
    · unfold Doc.partialTime
      by_cases hd : (isDigit a && isDigit b) = true
      · simp only [digits2, hd, if_true]
        split <;> rfl
      · simp [digits2, hd]
    · simp at h; omega
  simp [Doc.parseAll, Doc.dateTime, Doc.fullDate, h4, hp]


theorem agree (s : Bytes) : Std.fromStr s = Doc.parseAll s := by
  by_cases hlen : s.length < 3
  · simp [Std.fromStr, hlen, parseAll_short s hlen]
  rcases s with _ | ⟨a, _ | ⟨b, _ | ⟨c, r⟩⟩⟩
  · simp at hlen
  · simp at hlen
  · simp at hlen
  by_cases hc : c = 0x3A
  · subst hc
    have ht := parseTime_doc (a :: b :: 0x3A :: r)
    simp only [Std.fromStr, Doc.parseAll, Doc.dateTime, fullDate_colon]
    simp only [hlen, if_false]
    simp only [List.getElem?_cons_succ, List.getElem?_cons_zero, beq_self_eq_true, if_true]
    generalize (a :: b :: 0x3A :: r) = s at ht ⊢
    rcases hp : Doc.partialTime s with ⟨t, rest⟩ | _ | _
    · rw [hp] at ht
      simp only at ht
      rcases ht with ht | ⟨ht, w, hw⟩
      · rw [ht]
        rcases rest with _ | ⟨x, rest⟩ <;> simp
      · subst hw; simp [ht]
    · rw [hp] at ht; simp only at ht; simp [ht]
    · rw [hp] at ht; simp only at ht; simp [ht]
  · have hpt := partialTime_not_colon a b c r hc
    have hc' : (some c == some (0x3A : UInt8)) = false := by simp [hc]
    simp only [Std.fromStr, Doc.parseAll, Doc.dateTime, hlen, if_false, parseDate_doc,
      List.getElem?_cons_succ, List.getElem?_cons_zero, hc', Bool.false_eq_true]
    generalize (a :: b :: c :: r) = s at hpt ⊢
    rcases hf : Doc.fullDate s with ⟨d, rest⟩ | _ | _
    · simp only
      rcases rest with _ | ⟨x, rest⟩
      · simp
      simp only [Doc.isTimeDelim]
      by_cases hx : (x == 0x54 || x == 0x74 || x == 0x20) = true
      · simp only [hx, if_true]
        have ht := parseTime_doc rest
        rcases hp : Doc.partialTime rest with ⟨t, r2⟩ | _ | _
        · rw [hp] at ht
          simp only at ht
          rcases ht with ht | ⟨ht, w, hw⟩
          · rw [ht]
            simp only [parseOffset_doc]
            rcases ho : Doc.timeOffset r2 with ⟨o, r3⟩ | _ | _
            · rcases r3 with _ | ⟨y, r3⟩ <;> simp
            · rcases r2 with _ | ⟨y, r2⟩ <;> simp
            · simp
          · subst hw
            have : Doc.timeOffset (0x2E :: w) = .bt := by simp [Doc.timeOffset]
            simp [ht, this]
        · rw [hp] at ht; simp only at ht; simp [ht]
        · rw [hp] at ht; simp only at ht; simp [ht]
      · simp [hx]
    · simp [hpt]
    · simp


theorem secfracOpt_le (r : Bytes) : (Doc.secfracOpt r).1 ≤ 999999999 := by
  rcases stdFrac_doc r with ⟨_, h⟩ | ⟨_, h, _⟩
  · exact h
  · rw [h]; exact Nat.zero_le _

theorem fullDate_range (s rest : Bytes) (d : Date) (h : Doc.fullDate s = .ok d rest) :
    1 ≤ d.month ∧ d.month ≤ 12 ∧ 1 ≤ d.day ∧ d.day ≤ maxDays d.year d.month := by
  unfold Doc.fullDate at h
  repeat (split at h <;> try (first | contradiction | (simp at h; done)))
  all_goals simp_all
  all_goals (obtain ⟨h1, _⟩ := h; subst h1; simp; omega)

theorem partialTime_range (s rest : Bytes) (t : Time) (h : Doc.partialTime s = .ok t rest) :
    t.hour ≤ 23 ∧ t.minute ≤ 59 ∧ t.second ≤ 60 ∧ t.nanosecond ≤ 999999999 := by
  unfold Doc.partialTime at h
  repeat (split at h <;> try (first | contradiction | (simp at h; done)))
  have hn := congrArg Prod.fst ‹Doc.secfracOpt _ = _›
  simp only at hn
  injection h with h1 _
  subst h1
  simp only [← hn]
  refine ⟨?_, ?_, ?_, secfracOpt_le _⟩ <;> simp_all

theorem timeOffset_range (s rest : Bytes) (o : Offset) (h : Doc.timeOffset s = .ok o rest) :
    ∀ m, o = .custom m → -1439 ≤ m ∧ m ≤ 1439 := by
  intro mm ho
  subst ho
  unfold Doc.timeOffset at h
  rcases s with _ | ⟨c, s⟩
  · simp at h
  simp only at h
  by_cases hz : (c == 0x5A || c == 0x7A) = true
  · simp [hz] at h
  simp only [hz] at h
  by_cases hs : (c == 0x2B || c == 0x2D) = true
  case neg => simp [hs] at h
  simp only [hs, if_true] at h
  repeat (split at h <;> try (first | contradiction | (simp at h; done)))
  all_goals (simp at *)
  · omega
  · split at h
    · simp at h; omega
    · simp at h


/-! ## the printer's zero-padded numbers -/

/-- the byte of a decimal digit -/
def digitByte (d : Nat) : Byte := UInt8.ofNat (48 + d)

/-- `w` decimal digits of `n`, most significant first -/
def digitsW : Nat → Nat → Bytes
  | 0, _ => []
  | w + 1, n => digitsW w (n / 10) ++ [digitByte (n % 10)]

theorem digitByte_facts : ∀ d : Fin 10, isDigit (digitByte d.val) = true ∧ dval (digitByte d.val) = d.val ∧
    UInt8.ofNat (Nat.digitChar d.val).toNat = digitByte d.val := by decide

theorem isDigit_digitByte (d : Nat) (h : d < 10) : isDigit (digitByte d) = true := (digitByte_facts ⟨d, h⟩).1
theorem dval_digitByte (d : Nat) (h : d < 10) : dval (digitByte d) = d := (digitByte_facts ⟨d, h⟩).2.1
theorem ofNat_digitChar (d : Nat) (h : d < 10) : UInt8.ofNat (Nat.digitChar d).toNat = digitByte d :=
  (digitByte_facts ⟨d, h⟩).2.2

theorem digitsW_zero (w : Nat) : digitsW w 0 = List.replicate w 0x30 := by
  induction w with
  | zero => rfl
  | succ w ih => simp [digitsW, ih, digitByte, List.replicate_succ']

theorem pad_one (n : Nat) (h : n < 10) : Std.pad 1 n = [digitByte n] := by
  simp [Std.pad, Nat.toDigits_of_lt_base h, ofNat_digitChar n h]

theorem pad_succ (w n : Nat) (hw : 1 ≤ w) :
    Std.pad (w + 1) n = Std.pad w (n / 10) ++ [digitByte (n % 10)] := by
  by_cases h10 : n < 10
  · have e1 : n / 10 = 0 := by omega
    have e2 : n % 10 = n := by omega
    obtain ⟨k, rfl⟩ : ∃ k, w = k + 1 := ⟨w - 1, by omega⟩
    simp [Std.pad, Nat.toDigits_of_lt_base h10, ofNat_digitChar n h10, e1, e2, List.replicate_succ']
  · have hd := Nat.toDigits_of_base_le (b := 10) (n := n) (by decide) (by omega)
    simp only [Std.pad, hd, List.map_append, List.length_append, List.length_map, List.map_cons, List.map_nil,
      List.length_cons, List.length_nil, ofNat_digitChar (n % 10) (Nat.mod_lt _ (by decide))]
    have : w + 1 - ((Nat.toDigits 10 (n / 10)).length + (0 + 1)) = w - (Nat.toDigits 10 (n / 10)).length := by omega
    rw [this, List.append_assoc]

theorem pad_eq_digitsW : ∀ (w n : Nat), 1 ≤ w → n < 10 ^ w → Std.pad w n = digitsW w n := by
  intro w
  induction w with
  | zero => intro n h; omega
  | succ w ih =>
    intro n _ hn
    by_cases hw : w = 0
    · subst hw
      simp at hn
      have e2 : n % 10 = n := by omega
      simp [pad_one n hn, digitsW, e2]
    · rw [pad_succ w n (by omega), ih (n / 10) (by omega)]
      · rfl
      · rw [Nat.pow_succ] at hn
        exact (Nat.div_lt_iff_lt_mul (by decide)).mpr hn

theorem digitsW_length : ∀ (w n : Nat), (digitsW w n).length = w := by
  intro w
  induction w with
  | zero => intro n; rfl
  | succ w ih => intro n; simp [digitsW, ih]

theorem digitsW_all : ∀ (w n : Nat), ∀ b ∈ digitsW w n, isDigit b = true := by
  intro w
  induction w with
  | zero => intro n b hb; simp [digitsW] at hb
  | succ w ih =>
    intro n b hb
    simp [digitsW] at hb
    rcases hb with hb | hb
    · exact ih _ b hb
    · subst hb; exact isDigit_digitByte _ (Nat.mod_lt _ (by decide))

theorem natOfDigits_append_one (ds : Bytes) (b : Byte) : natOfDigits (ds ++ [b]) = natOfDigits ds * 10 + dval b := by
  simp [natOfDigits, List.foldl_append]

theorem natOfDigits_digitsW : ∀ (w n : Nat), natOfDigits (digitsW w n) = n % 10 ^ w := by
  intro w
  induction w with
  | zero => intro n; simp [digitsW, natOfDigits, Nat.mod_one]
  | succ w ih =>
    intro n
    rw [digitsW, natOfDigits_append_one, ih, dval_digitByte _ (Nat.mod_lt _ (by decide)), Nat.pow_succ,
      Nat.mul_comm (10 ^ w) 10, Nat.mod_mul]
    omega


theorem digits2_pad (n : Nat) (r : Bytes) (h : n < 100) : digits2 (Std.pad 2 n ++ r) = some (n, r) := by
  rw [pad_eq_digitsW 2 n (by omega) (by omega)]
  have h1 : n / 10 % 10 < 10 := Nat.mod_lt _ (by decide)
  have h2 : n % 10 < 10 := Nat.mod_lt _ (by decide)
  simp [digitsW, digits2, isDigit_digitByte _ h1, isDigit_digitByte _ h2, dval_digitByte _ h1, dval_digitByte _ h2]
  omega

theorem digits4_pad (n : Nat) (r : Bytes) (h : n < 10000) : digits4 (Std.pad 4 n ++ r) = some (n, r) := by
  rw [pad_eq_digitsW 4 n (by omega) (by omega)]
  have h1 : n / 10 / 10 / 10 % 10 < 10 := Nat.mod_lt _ (by decide)
  have h2 : n / 10 / 10 % 10 < 10 := Nat.mod_lt _ (by decide)
  have h3 : n / 10 % 10 < 10 := Nat.mod_lt _ (by decide)
  have h4 : n % 10 < 10 := Nat.mod_lt _ (by decide)
  simp only [digitsW, digits4, List.nil_append, List.cons_append, isDigit_digitByte _ h1, isDigit_digitByte _ h2,
    isDigit_digitByte _ h3, isDigit_digitByte _ h4, dval_digitByte _ h1, dval_digitByte _ h2,
    dval_digitByte _ h3, dval_digitByte _ h4]
  simp
  omega


theorem trimZeros_split (ds : Bytes) :
    ds = Std.trimZeros ds ++ List.replicate (ds.length - (Std.trimZeros ds).length) 0x30 := by
  have h := List.takeWhile_append_dropWhile (p := (· == (0x30 : UInt8))) (l := ds.reverse)
  have h2 : ds = (ds.reverse.dropWhile (· == 0x30)).reverse ++ (ds.reverse.takeWhile (· == 0x30)).reverse := by
    rw [← List.reverse_append, h, List.reverse_reverse]
  have h3 : (ds.reverse.takeWhile (· == 0x30)).reverse =
      List.replicate (ds.reverse.takeWhile (· == (0x30 : UInt8))).length 0x30 := by
    rw [List.eq_replicate_iff]
    refine ⟨by simp, ?_⟩
    intro b hb
    have hall := List.all_takeWhile (p := (· == (0x30 : UInt8))) (l := ds.reverse)
    rw [List.all_eq_true] at hall
    simpa using hall b (List.mem_reverse.mp hb)
  have hl : ds.length = (Std.trimZeros ds).length + (ds.reverse.takeWhile (· == (0x30 : UInt8))).length := by
    have := congrArg List.length h2
    simpa [Std.trimZeros] using this
  have e : ds.length - (Std.trimZeros ds).length = (ds.reverse.takeWhile (· == (0x30 : UInt8))).length := by omega
  rw [e, ← h3]
  exact h2

theorem trimZeros_mem (ds : Bytes) : ∀ b ∈ Std.trimZeros ds, b ∈ ds := by
  intro b hb
  rw [trimZeros_split ds]
  exact List.mem_append_left _ hb

theorem natOfDigits_zeros (k : Nat) : natOfDigits (List.replicate k 0x30) = 0 := by
  induction k with
  | zero => rfl
  | succ k ih =>
    rw [List.replicate_succ, natOfDigits_cons, ih]
    simp [dval]

theorem natOfDigits_append_zeros (ds : Bytes) (k : Nat) :
    natOfDigits (ds ++ List.replicate k 0x30) = natOfDigits ds * 10 ^ k := by
  have := natOfDigits_foldl (List.replicate k 0x30) (natOfDigits ds)
  rw [natOfDigits_zeros] at this
  simp only [natOfDigits, List.foldl_append] at this ⊢
  simpa using this

theorem takeDigits_append (ds rest : Bytes) (hd : ∀ b ∈ ds, isDigit b = true)
    (hr : ∀ b r', rest = b :: r' → isDigit b = false) : takeDigits (ds ++ rest) = (ds, rest) := by
  induction ds with
  | nil =>
    rcases rest with _ | ⟨b, r'⟩
    · rfl
    · simp [takeDigits, hr b r' rfl]
  | cons a ds ih =>
    have ha := hd a (by simp)
    have := ih (fun b hb => hd b (by simp [hb]))
    simp [takeDigits, ha, this]

/-- the fraction the printer writes for `n` nanoseconds is read back as `n` -/
theorem secfracOpt_display (n : Nat) (rest : Bytes) (h0 : n ≠ 0) (h : n ≤ 999999999)
    (hr : ∀ b r', rest = b :: r' → isDigit b = false) :
    Doc.secfracOpt (0x2E :: (Std.trimZeros (Std.pad 9 n) ++ rest)) = (n, rest) := by
  rw [pad_eq_digitsW 9 n (by omega) (by omega)]
  have hsplit := trimZeros_split (digitsW 9 n)
  have hval := natOfDigits_digitsW 9 n
  have hlen := digitsW_length 9 n
  have hall : ∀ b ∈ Std.trimZeros (digitsW 9 n), isDigit b = true :=
    fun b hb => digitsW_all 9 n b (trimZeros_mem _ b hb)
  generalize Std.trimZeros (digitsW 9 n) = T at hsplit hall
  rw [hlen] at hsplit
  have hTlen : T.length ≤ 9 := by
    have := congrArg List.length hsplit
    simp [hlen] at this
    omega
  rw [hsplit, natOfDigits_append_zeros] at hval
  have hmod : n % 10 ^ 9 = n := Nat.mod_eq_of_lt (by omega)
  rw [hmod] at hval
  have hne : T ≠ [] := by
    intro hT
    subst hT
    simp [natOfDigits] at hval
    omega
  have htd := takeDigits_append T rest hall hr
  have htake : List.take 9 T = T := List.take_of_length_le hTlen
  have hlen0 : T.length ≠ 0 := by
    intro h; exact hne (List.eq_nil_of_length_eq_zero h)
  cases hT : T with
  | nil => exact absurd hT hne
  | cons a T' =>
    rw [← hT]
    have htd' : takeDigits (T ++ rest) = (a :: T', rest) := by rw [htd, hT]
    simp only [Doc.secfracOpt, htd']
    rw [← hT, htake]
    simp [Doc.scale, hlen0, hval]


theorem fullDate_display (d : Date) (rest : Bytes) (hy : d.year ≤ 9999)
    (hm1 : 1 ≤ d.month) (hm2 : d.month ≤ 12) (hd1 : 1 ≤ d.day) (hd2 : d.day ≤ maxDays d.year d.month) :
    Doc.fullDate (Std.displayDate d ++ rest) = .ok d rest := by
  have hmd := maxDays_le d.year d.month
  have e : Std.displayDate d ++ rest =
      Std.pad 4 d.year ++ (0x2D :: (Std.pad 2 d.month ++ (0x2D :: (Std.pad 2 d.day ++ rest)))) := by
    simp [Std.displayDate]
  rw [e]
  unfold Doc.fullDate
  rw [digits4_pad _ _ (by omega)]
  simp only
  rw [digits2_pad _ _ (by omega)]
  have c1 : (!(decide (1 ≤ d.month) && decide (d.month ≤ 12))) = false := by simp; omega
  simp only [c1]
  rw [digits2_pad _ _ (by omega)]
  have c2 : (!(decide (1 ≤ d.day) && decide (d.day ≤ 31))) = false := by simp; omega
  have c3 : ¬ maxDays d.year d.month < d.day := by omega
  simp [c2, c3]


/-- what may follow a printed time: nothing, or a byte that is neither a digit nor `.` -/
def TimeFollow (rest : Bytes) : Prop := ∀ b r', rest = b :: r' → isDigit b = false ∧ b ≠ 0x2E

theorem secfracOpt_none (rest : Bytes) (hr : TimeFollow rest) : Doc.secfracOpt rest = (0, rest) := by
  unfold Doc.secfracOpt
  split
  · rename_i r
    exact absurd rfl (hr _ _ rfl).2
  · rfl

theorem partialTime_display (t : Time) (rest : Bytes) (hh : t.hour ≤ 23) (hm : t.minute ≤ 59)
    (hs : t.second ≤ 60) (hn : t.nanosecond ≤ 999999999) (hr : TimeFollow rest) :
    Doc.partialTime (Std.displayTime t ++ rest) = .ok t rest := by
  have hfr : Doc.secfracOpt ((if t.nanosecond != 0 then 0x2E :: Std.trimZeros (Std.pad 9 t.nanosecond) else []) ++ rest)
      = (t.nanosecond, rest) := by
    by_cases h0 : t.nanosecond = 0
    · simp [h0, secfracOpt_none rest hr]
    · simp only [bne_iff_ne, ne_eq, h0, not_false_eq_true, if_true, List.cons_append]
      exact secfracOpt_display _ _ h0 hn (fun b r' h => (hr b r' h).1)
  have e : Std.displayTime t ++ rest =
      Std.pad 2 t.hour ++ (0x3A :: (Std.pad 2 t.minute ++ (0x3A :: (Std.pad 2 t.second ++
        ((if t.nanosecond != 0 then 0x2E :: Std.trimZeros (Std.pad 9 t.nanosecond) else []) ++ rest))))) := by
    simp [Std.displayTime]
  rw [e]
  unfold Doc.partialTime
  rw [digits2_pad _ _ (by omega)]
  have c1 : (!decide (t.hour ≤ 23)) = false := by simp; omega
  simp only [c1]
  rw [digits2_pad _ _ (by omega)]
  have c2 : (!decide (t.minute ≤ 59)) = false := by simp; omega
  simp only [c2]
  rw [digits2_pad _ _ (by omega)]
  have c3 : (!decide (t.second ≤ 60)) = false := by simp; omega
  simp only [c3, hfr]
  simp

theorem timeOffset_display (o : Offset) (rest : Bytes)
    (ho : ∀ m, o = .custom m → -1439 ≤ m ∧ m ≤ 1439) :
    Doc.timeOffset (Std.displayOffset o ++ rest) = .ok o rest := by
  cases o with
  | z => simp [Std.displayOffset, Doc.timeOffset]
  | custom m =>
    obtain ⟨h1, h2⟩ := ho m rfl
    by_cases hneg : m < 0
    · obtain ⟨a, ha⟩ : ∃ a : Nat, m = -(a : Int) := ⟨(-m).toNat, by omega⟩
      subst ha
      have ea : (- -(a : Int)).toNat = a := by omega
      have e : Std.displayOffset (.custom (-(a : Int))) ++ rest =
          0x2D :: (Std.pad 2 (a / 60) ++ (0x3A :: (Std.pad 2 (a % 60) ++ rest))) := by
        have hpos : 0 < a := by omega
        simp [Std.displayOffset, hpos]
      rw [e]
      unfold Doc.timeOffset
      simp only
      rw [digits2_pad _ _ (by omega)]
      have c1 : (!decide (a / 60 ≤ 23)) = false := by simp; omega
      simp only [c1]
      rw [digits2_pad _ _ (by omega)]
      have c2 : (!decide (a % 60 ≤ 59)) = false := by simp; omega
      have hk : (a : Int) / 60 * 60 + (a : Int) % 60 = a := by omega
      have hk2 : (a : Int) ≤ 1440 ∧ -(a : Int) ≤ 1440 := by omega
      simp [c2, hk, hk2]
    · obtain ⟨a, ha⟩ : ∃ a : Nat, m = (a : Int) := ⟨m.toNat, by omega⟩
      subst ha
      have e : Std.displayOffset (.custom (a : Int)) ++ rest =
          0x2B :: (Std.pad 2 (a / 60) ++ (0x3A :: (Std.pad 2 (a % 60) ++ rest))) := by
        simp [Std.displayOffset, hneg]
      rw [e]
      unfold Doc.timeOffset
      simp only
      rw [digits2_pad _ _ (by omega)]
      have c1 : (!decide (a / 60 ≤ 23)) = false := by simp; omega
      simp only [c1]
      rw [digits2_pad _ _ (by omega)]
      have c2 : (!decide (a % 60 ≤ 59)) = false := by simp; omega
      have hk : (a : Int) / 60 * 60 + (a : Int) % 60 = a := by omega
      have hk2 : -1440 ≤ (a : Int) ∧ (a : Int) ≤ 1440 := by omega
      simp [c2, hk, hk2]


theorem timeFollow_nil : TimeFollow [] := by
  intro b r' h; cases h

theorem timeFollow_offset (o : Offset) (rest : Bytes) : TimeFollow (Std.displayOffset o ++ rest) := by
  intro b r' h
  cases o with
  | z =>
    simp [Std.displayOffset] at h
    obtain ⟨h, _⟩ := h; subst h; decide
  | custom m =>
    by_cases hneg : m < 0
    · simp [Std.displayOffset, hneg] at h
      obtain ⟨h, _⟩ := h; subst h; decide
    · simp [Std.displayOffset, hneg] at h
      obtain ⟨h, _⟩ := h; subst h; decide

theorem fullDate_displayTime (t : Time) (rest : Bytes) (hh : t.hour ≤ 23) :
    Doc.fullDate (Std.displayTime t ++ rest) = .bt := by
  have e : Std.pad 2 t.hour = [digitByte (t.hour / 10 % 10), digitByte (t.hour % 10)] := by
    rw [pad_eq_digitsW 2 _ (by omega) (by omega)]
    simp [digitsW]
  simp only [Std.displayTime, e, List.cons_append, List.nil_append, List.append_assoc]
  exact fullDate_colon _ _ _


end TomlVerif.Lemmas.Datetime12
