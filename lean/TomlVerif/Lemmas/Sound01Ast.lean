import TomlVerif.Spec.AstValue
import TomlVerif.Spec.AstString
/-! Abstract syntax of TOML values **with quoted keys** (`QVal`).

    `Spec/AstValue.lean` (`AVal`) only has bare keys in inline tables (`KeyTok.WF` asks for
    `isUnquotedChar`), so `{"a"=1}` — valid TOML 1.0.0 (`simple-key = quoted-key / unquoted-key`,
    `quoted-key = basic-string / literal-string`) and accepted by the parser — is the rendering of no
    well-formed `AVal`.  Soundness of the parser therefore needs the larger syntax defined here.  It is
    `AVal` with key tokens that carry their spelling (`raw`) next to the decoded key (`key`), related by the
    grammar of `Spec/AstString.lean`.  Everything else (scalar tokens, trivia) is shared with
    `Spec/AstValue.lean`; `ofAVal` embeds `AVal`. -/
namespace TomlVerif.Spec.AstValueQ
open TomlVerif TomlVerif.Spec TomlVerif.Model TomlVerif.Model.Value TomlVerif.Spec.AstValue
open TomlVerif.Spec.AstString (BasicChar wfBasic renderBasic semBasic wfLiteral renderLiteral)

/-- `simple-key = quoted-key / unquoted-key`, `quoted-key = basic-string / literal-string`:
    `raw` is a spelling of the key `key` -/
def KeyText (raw key : Bytes) : Prop :=
  (raw = key ∧ key ≠ [] ∧ ∀ b ∈ key, isUnquotedChar b = true) ∨
  (∃ cs : List BasicChar, wfBasic cs = true ∧ raw = renderBasic cs ∧ key = semBasic cs) ∨
  (wfLiteral key = true ∧ raw = renderLiteral key)

/-- a simple key with the blanks around it -/
structure QKey where
  pre : Bytes
  raw : Bytes
  key : Bytes
  post : Bytes

def QKey.render (k : QKey) : Bytes := k.pre ++ k.raw ++ k.post
def QKey.WF (k : QKey) : Prop := AllWs k.pre ∧ AllWs k.post ∧ KeyText k.raw k.key

/-- `. ws key ws` repeated -/
def renderQKeySep : List QKey → Bytes
  | [] => []
  | k :: r => 0x2E :: (k.render ++ renderQKeySep r)

/-- a dotted key `k0 . k1 . … . kn` -/
structure QDKey where
  first : QKey
  more : List QKey

def QDKey.render (k : QDKey) : Bytes := k.first.render ++ renderQKeySep k.more
def QDKey.keys (k : QDKey) : List Bytes := k.first.key :: k.more.map QKey.key
def QDKey.WF (k : QDKey) : Prop := k.first.WF ∧ (∀ x ∈ k.more, x.WF) ∧ k.more.length + 1 < LIMIT
def QDKey.path (k : QDKey) : List Bytes := (splitKeys k.first.key (k.more.map QKey.key)).1
def QDKey.last (k : QDKey) : Bytes := (splitKeys k.first.key (k.more.map QKey.key)).2

/-- values: scalars, arrays, inline tables with (dotted) bare or quoted keys -/
inductive QVal where
  | scalar (t : ScalarTok)
  | arr (items : List (Wcn × QVal × Wcn)) (trailingComma : Bool) (tail : Wcn)
  | inl (items : List (QDKey × Bytes × QVal × Bytes)) (tail : Bytes)

mutual
def renderQ : QVal → Bytes
  | .scalar t => t.tok
  | .arr items tc tail =>
    0x5B :: (renderItemsQ items ++ ((if tc then [0x2C] else []) ++ (renderWcn tail ++ [0x5D])))
  | .inl items tail => 0x7B :: (renderPairsQ items ++ (tail ++ [0x7D]))
def renderItemsQ : List (Wcn × QVal × Wcn) → Bytes
  | [] => []
  | (pre, v, post) :: r => renderWcn pre ++ (renderQ v ++ (renderWcn post ++ renderItemsSepQ r))
def renderItemsSepQ : List (Wcn × QVal × Wcn) → Bytes
  | [] => []
  | (pre, v, post) :: r => 0x2C :: (renderWcn pre ++ (renderQ v ++ (renderWcn post ++ renderItemsSepQ r)))
def renderPairsQ : List (QDKey × Bytes × QVal × Bytes) → Bytes
  | [] => []
  | (k, w1, v, w2) :: r => k.render ++ (0x3D :: (w1 ++ (renderQ v ++ (w2 ++ renderPairsSepQ r))))
def renderPairsSepQ : List (QDKey × Bytes × QVal × Bytes) → Bytes
  | [] => []
  | (k, w1, v, w2) :: r => 0x2C :: (k.render ++ (0x3D :: (w1 ++ (renderQ v ++ (w2 ++ renderPairsSepQ r)))))
end

mutual
def semQ : QVal → Val
  | .scalar t => t.v
  | .arr items _ _ => .arr (semItemsQ items)
  | .inl items _ => .inl ((tableFromPairs (flatPairsQ items) []).getD []) false false
def semItemsQ : List (Wcn × QVal × Wcn) → List Val
  | [] => []
  | (_, v, _) :: r => semQ v :: semItemsQ r
def flatPairsQ : List (QDKey × Bytes × QVal × Bytes) → List (List Bytes × Bytes × Val)
  | [] => []
  | (k, _, v, _) :: r => (k.path, k.last, semQ v) :: flatPairsQ r
end

mutual
def depthQ : QVal → Nat
  | .scalar _ => 0
  | .arr items _ _ => 1 + depthItemsQ items
  | .inl items _ => 1 + depthPairsQ items
def depthItemsQ : List (Wcn × QVal × Wcn) → Nat
  | [] => 0
  | (_, v, _) :: r => max (depthQ v) (depthItemsQ r)
def depthPairsQ : List (QDKey × Bytes × QVal × Bytes) → Nat
  | [] => 0
  | (k, _, v, _) :: r => max (k.more.length + depthQ v) (depthPairsQ r)
end

mutual
def WFQ : QVal → Prop
  | .scalar t => ScalarOK t
  | .arr items tc tail => WFItemsQ items ∧ WcnWF tail ∧ (items = [] → tc = false)
  | .inl items tail => WFPairsQ items ∧ AllWs tail ∧ (tableFromPairs (flatPairsQ items) []).isSome = true
def WFItemsQ : List (Wcn × QVal × Wcn) → Prop
  | [] => True
  | (pre, v, post) :: r => WcnWF pre ∧ WFQ v ∧ WcnWF post ∧ WFItemsQ r
def WFPairsQ : List (QDKey × Bytes × QVal × Bytes) → Prop
  | [] => True
  | (k, w1, v, w2) :: r => k.WF ∧ AllWs w1 ∧ WFQ v ∧ AllWs w2 ∧ WFPairsQ r
end

/-! ## `AVal` is the bare-key fragment -/

def ofKeyTok (k : KeyTok) : QKey := ⟨k.pre, k.key, k.key, k.post⟩
def ofDKey (k : DKey) : QDKey := ⟨ofKeyTok k.first, k.more.map ofKeyTok⟩

mutual
def ofAVal : AVal → QVal
  | .scalar t => .scalar t
  | .arr items tc tail => .arr (ofItems items) tc tail
  | .inl items tail => .inl (ofPairs items) tail
def ofItems : List (Wcn × AVal × Wcn) → List (Wcn × QVal × Wcn)
  | [] => []
  | (pre, v, post) :: r => (pre, ofAVal v, post) :: ofItems r
def ofPairs : List (DKey × Bytes × AVal × Bytes) → List (QDKey × Bytes × QVal × Bytes)
  | [] => []
  | (k, w1, v, w2) :: r => (ofDKey k, w1, ofAVal v, w2) :: ofPairs r
end

theorem ofKeyTok_render (k : KeyTok) : (ofKeyTok k).render = k.render := rfl
theorem ofKeyTok_wf (k : KeyTok) (h : k.WF) : (ofKeyTok k).WF :=
  ⟨h.1, h.2.1, Or.inl ⟨rfl, h.2.2.1, h.2.2.2⟩⟩

theorem renderQKeySep_of (l : List KeyTok) : renderQKeySep (l.map ofKeyTok) = renderKeySep l := by
  induction l with
  | nil => rfl
  | cons k l ih => simp [renderQKeySep, renderKeySep, ih, ofKeyTok_render]

theorem ofDKey_render (k : DKey) : (ofDKey k).render = k.render := by
  simp [ofDKey, QDKey.render, DKey.render, renderQKeySep_of, ofKeyTok_render]

theorem map_key_of (l : List KeyTok) : (l.map ofKeyTok).map QKey.key = l.map KeyTok.key := by
  induction l with
  | nil => rfl
  | cons k l ih => simp [ofKeyTok]

theorem ofDKey_path (k : DKey) : (ofDKey k).path = k.path := by
  show (splitKeys k.first.key ((k.more.map ofKeyTok).map QKey.key)).1 = _
  rw [map_key_of]; rfl
theorem ofDKey_last (k : DKey) : (ofDKey k).last = k.last := by
  show (splitKeys k.first.key ((k.more.map ofKeyTok).map QKey.key)).2 = _
  rw [map_key_of]; rfl
theorem ofDKey_more_length (k : DKey) : (ofDKey k).more.length = k.more.length := by simp [ofDKey]

theorem ofDKey_wf (k : DKey) (h : k.WF) : (ofDKey k).WF := by
  refine ⟨ofKeyTok_wf _ h.1, ?_, by simpa [ofDKey] using h.2.2⟩
  intro x hx
  simp only [ofDKey, List.mem_map] at hx
  obtain ⟨y, hy, rfl⟩ := hx
  exact ofKeyTok_wf y (h.2.1 y hy)

mutual
theorem ofAVal_render : ∀ a : AVal, renderQ (ofAVal a) = render a
  | .scalar t => by simp [ofAVal, renderQ, render]
  | .arr items tc tail => by simp [ofAVal, renderQ, render, ofItems_render items]
  | .inl items tail => by simp [ofAVal, renderQ, render, ofPairs_render items]
theorem ofItems_render : ∀ l : List (Wcn × AVal × Wcn), renderItemsQ (ofItems l) = renderItems l
  | [] => by simp [ofItems, renderItemsQ, renderItems]
  | (pre, v, post) :: r => by
    simp [ofItems, renderItemsQ, renderItems, ofAVal_render v, ofItemsSep_render r]
theorem ofItemsSep_render : ∀ l : List (Wcn × AVal × Wcn), renderItemsSepQ (ofItems l) = renderItemsSep l
  | [] => by simp [ofItems, renderItemsSepQ, renderItemsSep]
  | (pre, v, post) :: r => by
    simp [ofItems, renderItemsSepQ, renderItemsSep, ofAVal_render v, ofItemsSep_render r]
theorem ofPairs_render : ∀ l : List (DKey × Bytes × AVal × Bytes), renderPairsQ (ofPairs l) = renderPairs l
  | [] => by simp [ofPairs, renderPairsQ, renderPairs]
  | (k, w1, v, w2) :: r => by
    simp [ofPairs, renderPairsQ, renderPairs, ofAVal_render v, ofPairsSep_render r, ofDKey_render]
theorem ofPairsSep_render : ∀ l : List (DKey × Bytes × AVal × Bytes), renderPairsSepQ (ofPairs l) = renderPairsSep l
  | [] => by simp [ofPairs, renderPairsSepQ, renderPairsSep]
  | (k, w1, v, w2) :: r => by
    simp [ofPairs, renderPairsSepQ, renderPairsSep, ofAVal_render v, ofPairsSep_render r, ofDKey_render]
end

mutual
theorem ofAVal_sem : ∀ a : AVal, semQ (ofAVal a) = sem a
  | .scalar t => by simp [ofAVal, semQ, sem]
  | .arr items tc tail => by simp [ofAVal, semQ, sem, ofItems_sem items]
  | .inl items tail => by simp [ofAVal, semQ, sem, ofPairs_sem items]
theorem ofItems_sem : ∀ l : List (Wcn × AVal × Wcn), semItemsQ (ofItems l) = semItems l
  | [] => by simp [ofItems, semItemsQ, semItems]
  | (pre, v, post) :: r => by simp [ofItems, semItemsQ, semItems, ofAVal_sem v, ofItems_sem r]
theorem ofPairs_sem : ∀ l : List (DKey × Bytes × AVal × Bytes), flatPairsQ (ofPairs l) = flatPairs l
  | [] => by simp [ofPairs, flatPairsQ, flatPairs]
  | (k, w1, v, w2) :: r => by
    simp [ofPairs, flatPairsQ, flatPairs, ofAVal_sem v, ofPairs_sem r, ofDKey_path, ofDKey_last]
end

mutual
theorem ofAVal_depth : ∀ a : AVal, depthQ (ofAVal a) = depth a
  | .scalar t => by simp [ofAVal, depthQ, depth]
  | .arr items tc tail => by simp [ofAVal, depthQ, depth, ofItems_depth items]
  | .inl items tail => by simp [ofAVal, depthQ, depth, ofPairs_depth items]
theorem ofItems_depth : ∀ l : List (Wcn × AVal × Wcn), depthItemsQ (ofItems l) = depthItems l
  | [] => by simp [ofItems, depthItemsQ, depthItems]
  | (pre, v, post) :: r => by simp [ofItems, depthItemsQ, depthItems, ofAVal_depth v, ofItems_depth r]
theorem ofPairs_depth : ∀ l : List (DKey × Bytes × AVal × Bytes), depthPairsQ (ofPairs l) = depthPairs l
  | [] => by simp [ofPairs, depthPairsQ, depthPairs]
  | (k, w1, v, w2) :: r => by
    simp [ofPairs, depthPairsQ, depthPairs, ofAVal_depth v, ofPairs_depth r, ofDKey_more_length]
end

mutual
theorem ofAVal_wf : ∀ a : AVal, WF a → WFQ (ofAVal a)
  | .scalar t, h => by rw [WF] at h; simpa [ofAVal, WFQ] using h
  | .arr items tc tail, h => by
    rw [WF] at h
    rw [ofAVal, WFQ]
    refine ⟨ofItems_wf items h.1, h.2.1, ?_⟩
    intro he
    apply h.2.2
    cases items with
    | nil => rfl
    | cons p l => obtain ⟨a, b, c⟩ := p; simp [ofItems] at he
  | .inl items tail, h => by
    rw [WF] at h
    rw [ofAVal, WFQ]
    exact ⟨ofPairs_wf items h.1, h.2.1, by rw [ofPairs_sem]; exact h.2.2⟩
theorem ofItems_wf : ∀ l : List (Wcn × AVal × Wcn), WFItems l → WFItemsQ (ofItems l)
  | [], _ => by simp [ofItems, WFItemsQ]
  | (pre, v, post) :: r, h => by
    rw [WFItems] at h
    rw [ofItems, WFItemsQ]
    exact ⟨h.1, ofAVal_wf v h.2.1, h.2.2.1, ofItems_wf r h.2.2.2⟩
theorem ofPairs_wf : ∀ l : List (DKey × Bytes × AVal × Bytes), WFPairs l → WFPairsQ (ofPairs l)
  | [], _ => by simp [ofPairs, WFPairsQ]
  | (k, w1, v, w2) :: r, h => by
    rw [WFPairs] at h
    rw [ofPairs, WFPairsQ]
    exact ⟨ofDKey_wf k h.1, h.2.1, ofAVal_wf v h.2.2.1, h.2.2.2.1, ofPairs_wf r h.2.2.2.2⟩
end

end TomlVerif.Spec.AstValueQ
