import TomlVerif.Lemmas.Tiling03MoreInlineRun
import TomlVerif.Lemmas.Tiling03MoreRun
/-! C03, documents — stage C with dotted keys inside inline tables: the class `nestRunV`
    (= `nestRun true` with the value check of a key/value line relaxed from `simpleVal v` to the
    checked run `okValue` of `Tiling03MoreInlineRun.lean`), bodies whose values are merely
    `undotted`, `descend` along adjacent dotted keys (`kv_descendU`) and the text of a key/value
    line (`keyval_text_nV`). -/
namespace TomlVerif.Lemmas.Tiling03More
open TomlVerif TomlVerif.Spec TomlVerif.Model TomlVerif.Model.Strings TomlVerif.Model.Value
open TomlVerif.Model.Cst TomlVerif.Model.Encode TomlVerif.Lemmas.Suffix03 TomlVerif.Lemmas.Cst03
open TomlVerif.Lemmas.LastByte03 TomlVerif.Lemmas.Tiling03 TomlVerif.Lemmas.Tiling03Hdr
open TomlVerif.Lemmas.Tiling03Nest

/-! ### the class -/

/-- the check of a key/value line: the value passes the checked run of the value parser
    (`okValue`: inside every inline table the dotted keys with a common prefix are adjacent and
    spell the shared segments alike) and the key passes `dottedOk` (the same for the dotted keys
    of the table body) -/
def kvLineOkV (inp : Bytes) (st : CState) (s : Bytes) : Bool :=
  match ckeyPath inp.length s with
  | .ok ks (0x3D :: r1) =>
    (match cvalue inp.length (3 * r1.length + 4) (ks.length - 1) (dropWs r1) with
     | .ok _ _ =>
       okValue inp (3 * r1.length + 4) (ks.length - 1) (dropWs r1) &&
       (match splitLast ks with
        | some (path, _) => dottedOk inp st.current path
        | none => true)
     | _ => true)
  | _ => true

/-- the run checker: `runOk` with `kvLineOkV` at key/value lines -/
def runOkV (inp : Bytes) : Nat → CState → Bytes → Bool
  | 0, _, _ => true
  | fuel + 1, st, s =>
    let n := inp.length
    match s with
    | [] => true
    | b :: r =>
      if b == 0x23 then
        let r1 := dropComment r
        match r1 with
        | [] => true
        | _ => match newline? r1 with
          | some r2 =>
            let (st', r3) := parseWs n (onWs st (pos n s) (pos n r2)) r2
            runOkV inp fuel st' r3
          | none => true
      else if b == 0x5B then
        hdrLineOk inp st s &&
        (match ctableLine n st s with
         | some (st', r1) =>
           let (st'', r2) := parseWs n st' r1
           runOkV inp fuel st'' r2
         | none => true)
      else if b == 0x0A || b == 0x0D then
        match newline? s with
        | some r1 =>
          let (st', r2) := parseWs n (onWs st (pos n s) (pos n r1)) r1
          runOkV inp fuel st' r2
        | none => true
      else
        kvLineOkV inp st s &&
        (match ckeyvalLine n st s with
         | some (st', r1) =>
           let (st'', r2) := parseWs n st' r1
           runOkV inp fuel st'' r2
         | none => true)

/-- the source-side class: the checked run of `parse_document` -/
def nestRunV (s : Bytes) : Bool :=
  let n := s.length
  let s0 := Doc.stripBom s
  let (st0, s1) := parseWs n {} s0
  runOkV s (s1.length + 1) st0 s1

/-! ### bodies -/

mutual
/-- a table body as key/value lines build it: values that are not dotted inline tables, and
    dotted-key tables of the same -/
def bodyOkU : List (CKey × CItem) → Bool
  | [] => true
  | (_, it) :: r =>
    match it with
    | .value v => undotted v && bodyOkU r
    | .table t => bodyTblU t && bodyOkU r
    | .aot _ _ => false
def bodyTblU : CTbl → Bool
  | .mk items _ dot _ _ _ => dot && bodyOkU items
end

mutual
theorem bodyOkU_text (f : Bytes → Bytes) (inp : Bytes) : ∀ (items : Items), bodyOkU items = true →
    ∀ X, textItems f inp items X = []
  | [], _, _ => rfl
  | (k, .value v) :: r, h, X => by
    simp only [bodyOkU, Bool.and_eq_true] at h
    rw [textItems]; exact bodyOkU_text f inp r h.2 X
  | (k, .table t) :: r, h, X => by
    simp only [bodyOkU, Bool.and_eq_true] at h
    rw [textItems]
    rw [bodyTblU_text f inp t h.1, bodyOkU_text f inp r h.2 X]; rfl
  | (k, .aot _ _) :: r, h, _ => by simp [bodyOkU] at h
theorem bodyTblU_text (f : Bytes → Bytes) (inp : Bytes) : ∀ (t : CTbl), bodyTblU t = true →
    ∀ X a, textTbl f inp t X a = []
  | .mk items imp dot p dec sp, h, X, a => by
    simp only [bodyTblU, Bool.and_eq_true] at h
    rw [textTbl, h.1, bodyOkU_text f inp items h.2 X]; rfl
end

mutual
theorem bodyOkU_sum : ∀ (items : Items), bodyOkU items = true → sumItems items = []
  | [], _ => rfl
  | (k, .value v) :: r, h => by
    simp only [bodyOkU, Bool.and_eq_true] at h
    rw [sumItems]; exact bodyOkU_sum r h.2
  | (k, .table t) :: r, h => by
    simp only [bodyOkU, Bool.and_eq_true] at h
    rw [sumItems, bodyTblU_sum t h.1, bodyOkU_sum r h.2]; rfl
  | (k, .aot _ _) :: r, h => by simp [bodyOkU] at h
theorem bodyTblU_sum : ∀ (t : CTbl), bodyTblU t = true → ∀ r a, sumTbl t r a = []
  | .mk items imp dot p dec sp, h, r, a => by
    simp only [bodyTblU, Bool.and_eq_true] at h
    rw [sumTbl, bodyOkU_sum items h.2]
    simp [hdSum, CTbl.dotted, h.1]
end

theorem bodyOkU_append : ∀ (x y : Items), bodyOkU (x ++ y) = (bodyOkU x && bodyOkU y)
  | [], y => by simp [bodyOkU]
  | (k, .value v) :: r, y => by simp [bodyOkU, bodyOkU_append r y, Bool.and_assoc]
  | (k, .table t) :: r, y => by simp [bodyOkU, bodyOkU_append r y, Bool.and_assoc]
  | (k, .aot _ _) :: r, y => by simp [bodyOkU]

theorem bodyTblU_eq (t : CTbl) : bodyTblU t = (t.dotted && bodyOkU t.items) := by
  cases t; rfl

theorem bodyOkU_snoc_table (init : Items) (k : CKey) (c : CTbl) :
    bodyOkU (init ++ [(k, .table c)]) = (bodyOkU init && (c.dotted && bodyOkU c.items)) := by
  rw [bodyOkU_append]; simp [bodyOkU, bodyTblU_eq]

/-- the old bodies are bodies -/
theorem bodyOk_bodyOkU : ∀ (items : Items), bodyOk items = true → bodyOkU items = true
  | [], _ => rfl
  | (k, .value v) :: r, h => by
    simp only [bodyOk, Bool.and_eq_true] at h
    simp only [bodyOkU, Bool.and_eq_true]
    exact ⟨simpleVal_undotted v h.1, bodyOk_bodyOkU r h.2⟩
  | (k, .table (.mk items imp dot p dec sp)) :: r, h => by
    simp only [bodyOk, bodyTbl, Bool.and_eq_true] at h
    simp only [bodyOkU, bodyTblU, Bool.and_eq_true]
    exact ⟨⟨h.1.1, bodyOk_bodyOkU items h.1.2⟩, bodyOk_bodyOkU r h.2⟩
  | (k, .aot _ _) :: r, h => by simp [bodyOk] at h

theorem valuesTbl_value_atU (k : CKey) (v : CVal) (h : undotted v = true) (P : List CKey) :
    valuesTbl [(k, .value v)] P = [(P ++ [k], v)] := by
  cases v with
  | scalar a b c => simp [valuesTbl]
  | arr a b c d e => simp [valuesTbl]
  | inl sub pre imp dot dec sp =>
    have : dot = false := by simpa [undotted] using h
    subst this
    simp [valuesTbl]

/-! ### the flattened body under `descend` -/

/-- `kv_descend` for values that are merely not dotted inline tables -/
theorem kv_descendU (f : Bytes → Bytes) (inp : Bytes) (g : CTbl → Option CTbl) (key' : CKey) (v : CVal)
    (hv : undotted v = true)
    (hg : ∀ p p', g p = some p' → p' = p.setItems (p.items ++ [(key', .value v)])) :
    ∀ (path : List CKey) (t c : CTbl) (P Q : List CKey), dottedOk inp t path = true → bodyOkU t.items = true →
      SegsEq f inp P Q → descend t path true g = some c →
      c = t.setItems c.items ∧ bodyOkU c.items = true ∧
      ∃ X, valuesTbl c.items P = valuesTbl t.items P ++ [(X, v)] ∧
        ∀ dp ds, encodeKeyPath f inp X dp ds = encodeKeyPath f inp (Q ++ path ++ [key']) dp ds := by
  intro path
  induction path with
  | nil =>
    intro t c P Q _ hb hPQ hd
    rw [descend_nil] at hd
    have e := hg _ _ hd
    subst e
    refine ⟨by simp, ?_, P ++ [key'], ?_, ?_⟩
    · rw [setItems_items, bodyOkU_append, hb]; simp [bodyOkU, hv]
    · rw [setItems_items, valuesTbl_append, valuesTbl_value_atU key' v hv]
    · intro dp ds
      rw [List.append_nil]
      exact encodeKeyPath_congr f inp P Q key' key' dp ds hPQ (LeafEq.refl f inp key')
  | cons k ks ih =>
    intro t c P Q hok hb hPQ hd
    obtain ⟨x, ec, hx⟩ := descend_cons_shape _ _ _ _ _ _ hd
    have hlist : ∀ (k0 : CKey), Q ++ [k0] ++ ks ++ [key'] = Q ++ k0 :: ks ++ [key'] := by intro k0; simp
    simp only [dottedOk] at hok
    cases hl : clookup k.key t.items with
    | none =>
      rw [hl] at hx
      simp only [Option.getD_none] at hx
      rcases hx with ⟨sub, sub', e1, hd', e2⟩ | ⟨_, _, _, _, e1, _⟩
      · injection e1 with e1
        subst e1; subst e2
        obtain ⟨i1, i2, X, i3, i4⟩ := ih _ _ (P ++ [k]) (Q ++ [k]) (dottedOk_empty inp _ rfl ks) rfl
          (hPQ.snoc (SegEq.refl f inp k)) hd'
        have hsd : sub'.dotted = true := by rw [setItems_eq_dotted _ _ i1]; rfl
        rw [cset_none _ _ _ hl] at ec
        subst ec
        refine ⟨by simp, ?_, X, ?_, ?_⟩
        · rw [setItems_items, bodyOkU_snoc_table, hb, hsd, i2]; rfl
        · rw [setItems_items, valuesTbl_snoc_dotted _ _ _ hsd, i3]
          simp [newImplicit, CTbl.items, valuesTbl]
        · intro dp ds
          rw [i4, hlist]
      · cases e1
    | some y =>
      rw [hl] at hok hx
      simp only [Option.getD_some] at hx hok
      split at hok
      · rename_i init k' sub hle
        obtain ⟨e1, e2, e3, e4⟩ := lastEntry_some _ _ _ _ _ hle
        simp only [Bool.and_eq_true] at hok
        obtain ⟨⟨hseg, hsubd⟩, hok2⟩ := hok
        rw [hl] at e4
        injection e4 with e4
        subst e4
        rcases hx with ⟨sub0, sub', e5, hd', e6⟩ | ⟨_, _, _, _, e5, _⟩
        · injection e5 with e5
          subst e5; subst e6
          have hbs : bodyOkU sub.items = true := by
            rw [e1, bodyOkU_snoc_table] at hb
            simp only [Bool.and_eq_true] at hb
            exact hb.2.2
          have hbi : bodyOkU init = true := by
            rw [e1, bodyOkU_snoc_table] at hb
            simp only [Bool.and_eq_true] at hb
            exact hb.1
          obtain ⟨i1, i2, X, i3, i4⟩ := ih _ _ (P ++ [k']) (Q ++ [k]) hok2 hbs
            (hPQ.snoc (sameSeg_segEq f inp k k' hseg).symm) hd'
          have hsd : sub'.dotted = true := by rw [setItems_eq_dotted _ _ i1]; exact hsubd
          have hcs : cset k (.table sub') t.items = init ++ [(k', .table sub')] := by
            rw [e1]; exact cset_last _ _ _ _ _ e2 e3
          rw [hcs] at ec
          subst ec
          refine ⟨by simp, ?_, X, ?_, ?_⟩
          · rw [setItems_items, bodyOkU_snoc_table, hbi, hsd, i2]; rfl
          · rw [setItems_items, valuesTbl_snoc_dotted _ _ _ hsd, i3, e1, valuesTbl_snoc_dotted _ _ _ hsubd]
            simp [List.append_assoc]
          · intro dp ds
            rw [i4, hlist]
        · cases e5
      · cases hok

/-! ### the text of a key/value line -/

/-- `keyval_text_n` with the checked run of the value parser instead of `simpleVal` -/
theorem keyval_text_nV (f : Bytes → Bytes) (inp : Bytes) (hf : FixOn f inp) (st : CState) (s r1 r2 r3 tr : Bytes)
    (ks path : List CKey) (key : CKey) (v : CVal)
    (hk : ckeyPath inp.length s = .ok ks (0x3D :: r1))
    (hv : cvalue inp.length (3 * r1.length + 4) (ks.length - 1) (dropWs r1) = .ok v r2)
    (hlt : lineTrailing r2 = .ok () r3) (hsl : splitLast ks = some (path, key))
    (hsv : okValue inp (3 * r1.length + 4) (ks.length - 1) (dropWs r1) = true)
    (h5 : TrailIs inp.length st.trailing tr s) (htrs : tr ++ s <:+ inp) :
    ∃ line e, s = line ++ e ++ r3 ∧ LineEnd (trailEnd r2) e r3 ∧ (∃ t b, line = t ++ [b] ∧ b ≠ 0x0A) ∧
      encodeKeyPath f inp (path ++ [kvKey st key]) [] [0x20] ++ [0x3D]
        ++ encodeValue f inp (kvVal inp.length v r1 r2) [0x20] [] = tr ++ line := by
  have hs : s <:+ inp := (List.suffix_append tr s).trans htrs
  have hks := vsplitLast_some _ _ _ hsl
  have hkp := ckeyPath_tiling f inp hf s _ ks hs hk [] [0x20]
  have hleaf := ckeyPath_leafPre inp s _ ks path key hs hk hsl
  obtain ⟨kw1, hkw1⟩ := Cst03.dropWs_suffix s
  have hr1 : r1 <:+ inp := ((List.suffix_cons _ r1).trans (ckeyPath_suffix _ _ _ _ hk).1).trans hs
  obtain ⟨w1, hw1⟩ := Cst03.dropWs_suffix r1
  have hr1' : dropWs r1 <:+ inp := (Cst03.dropWs_suffix r1).trans hr1
  obtain ⟨tv, htv, htvne, hdec, _, hvt, _⟩ := cvalue_tiling_dotted f inp hf _ _ _ _ _ hr1' hv
  have hr2 : r2 <:+ inp := (htv ▸ suffix_of_append tv r2).trans hr1'
  obtain ⟨te, hte⟩ := trailEnd_suffix r2
  obtain ⟨e, he⟩ := lineTrailing_lineEnd r2 r3 hlt
  have hval : encodeValue f inp (kvVal inp.length v r1 r2) [0x20] [] = w1 ++ tv ++ te := by
    unfold kvVal
    rw [encodeValue_setDecor f hf.nil inp v _ _ hdec [0x20] [] [] [], hvt hsv [] [],
      encRaw_fix hf, encRaw_fix hf,
      rawText_between inp r1 w1 (dropWs r1) hr1 hw1.symm,
      rawText_between inp r2 te (trailEnd r2) hr2 hte.symm]
  have hsrc : encodeKeyPath f inp ks [] [0x20] = kw1 ++ kpTail f inp path key [0x20] := by
    rw [hks, encodeKeyPath_split]
    simp only [prefixEncode, hleaf]
    rw [encRaw_fix hf, rawText_between inp s kw1 (dropWs s) hs hkw1.symm]
  have hprt : encodeKeyPath f inp (path ++ [kvKey st key]) [] [0x20] = tr ++ kw1 ++ kpTail f inp path key [0x20] := by
    rw [encodeKeyPath_split, kpTail_kvKey]
    have hl' : (kvKey st key).leaf.pre = some (takeTrailing (mergeSpan st.trailing (rawBetween inp.length s (dropWs s)).span)) := by
      unfold kvKey; simp only [hleaf]
    simp only [prefixEncode, hl']
    rw [encRaw_fix hf, mergePre_text inp st.trailing tr s kw1 (dropWs s) h5 htrs hkw1.symm]
  generalize kpTail f inp path key [0x20] = kt at hsrc hprt
  have hstext : s = kw1 ++ kt ++ [0x3D] ++ w1 ++ tv ++ te ++ trailEnd r2 := by
    conv => lhs; rw [hkp, hsrc]
    simp only [List.append_assoc, List.cons_append, List.nil_append]
    rw [hte, ← htv, hw1]
  refine ⟨kw1 ++ kt ++ [0x3D] ++ w1 ++ tv ++ te, e, ?_, he, ?_, ?_⟩
  · rw [List.append_assoc, ← lineEnd_split he]; exact hstext
  · have l1 : LastNe r2 (dropWs r1) := cvalue_lastNe inp _ _ _ _ _ hr1' hv
    have l2 : LastNe (trailEnd r2) (dropWs r1) := (trailEnd_orEq r2).trans_lastNe l1
    obtain ⟨t, b, ht, hb⟩ := l2
    refine ⟨kw1 ++ kt ++ [0x3D] ++ w1 ++ t, b, ?_, hb⟩
    have e1 : tv ++ te ++ trailEnd r2 = t ++ [b] ++ trailEnd r2 := by
      rw [List.append_assoc, hte, ← htv, ht]; simp
    have := List.append_cancel_right e1
    simp only [List.append_assoc] at this ⊢
    rw [this]
  · rw [hprt, hval]; simp [List.append_assoc]

end TomlVerif.Lemmas.Tiling03More
