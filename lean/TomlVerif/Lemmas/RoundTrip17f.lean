import TomlVerif.Lemmas.RoundTrip17e
/-! C17, map order, part 1: `bytesLt` (Rust's `str` ordering) is a strict total order on byte strings, and
    `BTreeMap::insert` on the sorted association list (`sortedInsert`, `insertAllReplace .sorted`) is insertion
    sort: on entries with pairwise distinct keys it returns THE strictly key-sorted permutation of them. -/
namespace TomlVerif.Lemmas.RoundTrip17
open TomlVerif TomlVerif.Model TomlVerif.Model.TomlValue TomlVerif.Model.DeRoutes

/-! ## `bytesLt` is a strict total order -/

theorem bytesLt_irrefl : ∀ a : Bytes, bytesLt a a = false
  | [] => rfl
  | x :: r => by
    unfold bytesLt
    simp only [UInt8.lt_irrefl, if_false]
    exact bytesLt_irrefl r

theorem bytesLt_trans : ∀ a b c : Bytes, bytesLt a b = true → bytesLt b c = true → bytesLt a c = true
  | [], [], _, h, _ => by simp [bytesLt] at h
  | [], _ :: _, [], _, h => by simp [bytesLt] at h
  | [], _ :: _, _ :: _, _, _ => by simp [bytesLt]
  | _ :: _, [], _, h, _ => by simp [bytesLt] at h
  | _ :: _, _ :: _, [], _, h => by simp [bytesLt] at h
  | x :: r, y :: s, z :: t, h1, h2 => by
    unfold bytesLt at h1 h2 ⊢
    by_cases hxy : x < y
    · by_cases hyz : y < z
      · simp [UInt8.lt_trans hxy hyz]
      · simp only [hyz, if_false] at h2
        by_cases hzy : z < y
        · simp [hzy] at h2
        · have : y = z := UInt8.le_antisymm (UInt8.not_lt.1 hzy) (UInt8.not_lt.1 hyz)
          subst this
          simp [hxy]
    · simp only [hxy, if_false] at h1
      by_cases hyx : y < x
      · simp [hyx] at h1
      · simp only [hyx, if_false] at h1
        have : x = y := UInt8.le_antisymm (UInt8.not_lt.1 hyx) (UInt8.not_lt.1 hxy)
        subst this
        by_cases hxz : x < z
        · simp [hxz]
        · simp only [hxz, if_false] at h2 ⊢
          by_cases hzx : z < x
          · simp [hzx] at h2
          · simp only [hzx, if_false] at h2 ⊢
            exact bytesLt_trans r s t h1 h2

/-- trichotomy: distinct byte strings are comparable -/
theorem bytesLt_total : ∀ a b : Bytes, a ≠ b → bytesLt a b = true ∨ bytesLt b a = true
  | [], [], h => absurd rfl h
  | [], _ :: _, _ => by simp [bytesLt]
  | _ :: _, [], _ => by simp [bytesLt]
  | x :: r, y :: s, h => by
    unfold bytesLt
    by_cases hxy : x < y
    · simp [hxy]
    · by_cases hyx : y < x
      · simp [hyx]
      · have : x = y := UInt8.le_antisymm (UInt8.not_lt.1 hyx) (UInt8.not_lt.1 hxy)
        subst this
        simp only [UInt8.lt_irrefl, if_false]
        exact bytesLt_total r s (fun e => h (by rw [e]))

theorem bytesLt_asymm (a b : Bytes) (h : bytesLt a b = true) : bytesLt b a = false := by
  cases hb : bytesLt b a with
  | false => rfl
  | true =>
    have := bytesLt_trans a b a h hb
    rw [bytesLt_irrefl] at this
    cases this

theorem bytesLt_ne (a b : Bytes) (h : bytesLt a b = true) : a ≠ b := by
  intro e; subst e; rw [bytesLt_irrefl] at h; cases h

/-- `bytesLt` is the lexicographic order of `List UInt8` -/
theorem bytesLt_iff_lex (a b : Bytes) : bytesLt a b = true ↔ a < b := by
  induction a generalizing b with
  | nil => cases b <;> simp [bytesLt]
  | cons x r ih =>
    cases b with
    | nil => simp [bytesLt]
    | cons y s =>
      unfold bytesLt
      rw [List.cons_lt_cons_iff]
      by_cases hxy : x < y
      · simp [hxy]
      · by_cases hyx : y < x
        · simp only [hxy, hyx, if_false, if_true, false_or]
          constructor
          · intro h; cases h
          · rintro ⟨e, _⟩; subst e; exact absurd hyx (UInt8.lt_irrefl _)
        · have : x = y := UInt8.le_antisymm (UInt8.not_lt.1 hyx) (UInt8.not_lt.1 hxy)
          subst this
          simp [ih]

/-! ## strictly key-sorted association lists -/

/-- keys strictly increasing in `bytesLt` — what a `BTreeMap<String, _>` yields -/
def KSorted {α : Type} (l : List (Bytes × α)) : Prop := l.Pairwise fun a b => bytesLt a.1 b.1 = true

theorem ksorted_nodup {α : Type} (l : List (Bytes × α)) (h : KSorted l) : (l.map Prod.fst).Nodup := by
  induction l with
  | nil => simp
  | cons x r ih =>
    rw [KSorted, List.pairwise_cons] at h
    simp only [List.map_cons, List.nodup_cons]
    refine ⟨?_, ih h.2⟩
    intro hm
    obtain ⟨e, he, hk⟩ := List.mem_map.1 hm
    exact bytesLt_ne _ _ (h.1 e he) hk.symm

/-- two strictly key-sorted lists with the same entries are equal -/
theorem ksorted_perm_eq {α : Type} (l₁ l₂ : List (Bytes × α)) (h₁ : KSorted l₁) (h₂ : KSorted l₂) (hp : l₁.Perm l₂) :
    l₁ = l₂ :=
  List.Perm.eq_of_pairwise (le := fun a b : Bytes × α => bytesLt a.1 b.1 = true)
    (fun a b _ _ hab hba => by rw [bytesLt_asymm _ _ hab] at hba; cases hba) h₁ h₂ hp

/-- `BTreeMap::insert` of a new key: the result is sorted and holds the old entries and the new one -/
theorem sortedInsert_new {α : Type} (k : Bytes) (v : α) : ∀ l : List (Bytes × α), KSorted l → k ∉ l.map Prod.fst →
    KSorted (sortedInsert k v l) ∧ (sortedInsert k v l).Perm ((k, v) :: l)
  | [], _, _ => by simp [sortedInsert, KSorted]
  | (k', v') :: r, hs, hk => by
    simp only [List.map_cons, List.mem_cons, not_or] at hk
    have hne : (k' == k) = false := by
      simp only [beq_eq_false_iff_ne, ne_eq]; exact fun e => hk.1 e.symm
    unfold sortedInsert
    simp only [hne, Bool.false_eq_true, if_false]
    have hs' := hs
    rw [KSorted, List.pairwise_cons] at hs'
    by_cases hlt : bytesLt k k' = true
    · simp only [hlt, if_true]
      refine ⟨?_, List.Perm.refl _⟩
      rw [KSorted, List.pairwise_cons]
      refine ⟨?_, hs⟩
      intro e he
      rcases List.mem_cons.1 he with he | he
      · subst he; exact hlt
      · exact bytesLt_trans _ _ _ hlt (hs'.1 e he)
    · simp only [hlt, Bool.false_eq_true, if_false]
      have hgt : bytesLt k' k = true := by
        rcases bytesLt_total k k' hk.1 with h | h
        · exact absurd h hlt
        · exact h
      obtain ⟨ih1, ih2⟩ := sortedInsert_new k v r hs'.2 hk.2
      refine ⟨?_, ?_⟩
      · rw [KSorted, List.pairwise_cons]
        refine ⟨?_, ih1⟩
        intro e he
        rcases List.mem_cons.1 (ih2.subset he) with he | he
        · subst he; exact hgt
        · exact hs'.1 e he
      · exact (List.Perm.cons _ ih2).trans (List.Perm.swap _ _ _)

/-- inserting entries with pairwise distinct new keys one by one into a sorted map: sorted, same entries -/
theorem insertAll_sorted : ∀ (l acc : List (Bytes × TV)), (l.map Prod.fst).Nodup →
    (∀ k ∈ l.map Prod.fst, k ∉ acc.map Prod.fst) → KSorted acc →
    KSorted (insertAllReplace .sorted acc l) ∧ (insertAllReplace .sorted acc l).Perm (acc ++ l)
  | [], acc, _, _, hs => by simp [insertAllReplace, hs]
  | (k, v) :: r, acc, hn, ha, hs => by
    simp only [List.map_cons, List.nodup_cons] at hn
    obtain ⟨h1, h2⟩ := sortedInsert_new k v acc hs (ha k (by simp))
    rw [insertAllReplace, mapInsert]
    have := insertAll_sorted r (sortedInsert k v acc) hn.2
      (by intro k' hk' hm
          rw [sortedInsert_keys] at hm
          rcases hm with hm | hm
          · subst hm; exact hn.1 hk'
          · exact ha k' (by simp [hk']) hm) h1
    refine ⟨this.1, this.2.trans ?_⟩
    refine (List.Perm.append_right r h2).trans ?_
    simp only [List.cons_append]
    exact List.perm_middle.symm

/-- **insertion sort**: collecting entries with pairwise distinct keys into a `BTreeMap` gives a strictly
    key-sorted permutation of them -/
theorem insertAll_sorted_nil (l : List (Bytes × TV)) (hn : (l.map Prod.fst).Nodup) :
    KSorted (insertAllReplace .sorted [] l) ∧ (insertAllReplace .sorted [] l).Perm l := by
  have := insertAll_sorted l [] hn (by simp) (by simp [KSorted])
  simpa using this

/-- … which does not depend on the order the entries come in -/
theorem insertAll_perm (l l' : List (Bytes × TV)) (hn : (l.map Prod.fst).Nodup) (hp : l'.Perm l) :
    insertAllReplace .sorted [] l' = insertAllReplace .sorted [] l := by
  have hn' : (l'.map Prod.fst).Nodup := ((hp.map Prod.fst).nodup_iff).2 hn
  obtain ⟨a1, a2⟩ := insertAll_sorted_nil l hn
  obtain ⟨b1, b2⟩ := insertAll_sorted_nil l' hn'
  exact ksorted_perm_eq _ _ b1 a1 (b2.trans (hp.trans a2.symm))

/-- … and is the identity on (any permutation of) a strictly key-sorted list -/
theorem insertAll_of_sorted (l l' : List (Bytes × TV)) (hs : KSorted l) (hp : l'.Perm l) :
    insertAllReplace .sorted [] l' = l := by
  have hn' : (l'.map Prod.fst).Nodup := ((hp.map Prod.fst).nodup_iff).2 (ksorted_nodup l hs)
  obtain ⟨b1, b2⟩ := insertAll_sorted_nil l' hn'
  exact ksorted_perm_eq _ _ b1 hs (b2.trans hp)

example : (insertAllReplace .sorted [] [([98], TV.int 1), ([97], .int 2), ([97, 0], .int 3)]).map Prod.fst =
    [[97], [97, 0], [98]] := by decide +kernel

end TomlVerif.Lemmas.RoundTrip17
