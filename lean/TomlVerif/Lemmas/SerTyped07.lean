import TomlVerif.Model.SerTyped
import TomlVerif.Lemmas.DeTyped13b
/-! C07, reading back, part 1 (decoder side): `Good fl ty w nd` — BOTH deserializer families, whatever their switches,
    decode the data `w` into `nd` for the target `ty` — and one introduction rule per type former. -/
namespace TomlVerif.Lemmas.SerTyped07
open TomlVerif TomlVerif.Model TomlVerif.Model.TomlValue TomlVerif.Model.DeRoutes TomlVerif.Model.DeTyped
open TomlVerif.Model.DeText (presOfItem presOfVal presOfTbl presOfVals presOfValPairs presOfTbls presOfItems)
open TomlVerif.Model.SerTyped TomlVerif.Lemmas.DeTyped13 TomlVerif.Lemmas.DeRoutes13

/-- `toml_edit`'s deserializer on every item holding the data `w` (tables of every syntax, arrays of tables), with
any setting of its two switches, and `toml::Value`'s deserializer on `w`, with any setting of its switch, return `nd` -/
def Good (fl : Flavour) (ty : Ty) (w : TV) (nd : Dec) : Prop :=
  (∀ (c : EditCfg) (it : Item), plainItem it = w → decodeEdit c fl ty it = .ok nd) ∧
  (∀ cv : ValueCfg, decodeValue cv fl ty w = .ok nd)

def GoodList (fl : Flavour) (t : Ty) : List TV → List Dec → Prop
  | [], [] => True
  | w :: ws, d :: ds => Good fl t w d ∧ GoodList fl t ws ds
  | _, _ => False

def GoodTys (fl : Flavour) : Tys → List TV → List Dec → Prop
  | .nil, [], [] => True
  | .cons t r, w :: ws, d :: ds => Good fl t w d ∧ GoodTys fl r ws ds
  | _, _, _ => False

/-- entries decoded one by one, keys kept -/
def GoodPairs (fl : Flavour) (t : Ty) : List (Bytes × TV) → List (Bytes × Dec) → Prop
  | [], [] => True
  | (k, w) :: ws, (k', d) :: ds => k' = k ∧ Good fl t w d ∧ GoodPairs fl t ws ds
  | _, _ => False

/-- a derived struct's fields, each looked up by name in the entries `es` -/
def GoodFields (fl : Flavour) : Fields → List (Bytes × TV) → List (Bytes × Dec) → Prop
  | .nil, _, nds => nds = []
  | .cons name t dflt r, es, nds =>
    ∃ nd rest, nds = (name, nd) :: rest ∧
      (match alookup name es with
       | some w => Good fl t w nd
       | none => if dflt then nd = .dflt else missingField t = .ok nd) ∧
      GoodFields fl r es rest

/-! ## from the data to the item -/

theorem kind_of_tbl {it : Item} {es' : List (Bytes × TV)} (h : plainItem it = .tbl es') :
    ∃ es, kindOf it = .entries es ∧ pairsTV es = es' := by
  cases it with
  | value v =>
    cases v with
    | inl items a b =>
      simp only [plainItem, plainVal, TV.tbl.injEq] at h
      exact ⟨_, rfl, by rw [← h, plainValPairs_eq]; rfl⟩
    | str s => simp [plainItem, plainVal] at h
    | int s => simp [plainItem, plainVal] at h
    | float s => simp [plainItem, plainVal] at h
    | bool s => simp [plainItem, plainVal] at h
    | dt s => simp [plainItem, plainVal] at h
    | arr s => simp [plainItem, plainVal] at h
  | table t =>
    obtain ⟨items, a, b, c⟩ := t
    simp only [plainItem, plainTbl, TV.tbl.injEq] at h
    exact ⟨items, rfl, by rw [← h, plainItems_eq]; rfl⟩
  | aot ts => simp [plainItem] at h

theorem kind_of_arr {it : Item} {ws : List TV} (h : plainItem it = .arr ws) :
    ∃ l, kindOf it = .elems l ∧ l.map plainItem = ws := by
  cases it with
  | value v =>
    cases v with
    | arr l =>
      simp only [plainItem, plainVal, TV.arr.injEq] at h
      exact ⟨_, rfl, by rw [← h, plainVals_eq]⟩
    | str s => simp [plainItem, plainVal] at h
    | int s => simp [plainItem, plainVal] at h
    | float s => simp [plainItem, plainVal] at h
    | bool s => simp [plainItem, plainVal] at h
    | dt s => simp [plainItem, plainVal] at h
    | inl s a b => simp [plainItem, plainVal] at h
  | table t => obtain ⟨items, a, b, c⟩ := t; simp [plainItem, plainTbl] at h
  | aot ts =>
    simp only [plainItem, TV.arr.injEq] at h
    exact ⟨_, rfl, by rw [← h, plainTbls_eq]⟩

theorem item_of_str {it : Item} {s : Bytes} (h : plainItem it = .str s) : it = .value (.str s) := by
  cases it with
  | value v => cases v <;> simp_all [plainItem, plainVal]
  | table t => obtain ⟨items, a, b, c⟩ := t; simp [plainItem, plainTbl] at h
  | aot ts => simp [plainItem] at h

theorem item_of_dt {it : Item} {d : Datetime.Datetime} (h : plainItem it = .dt d) : it = .value (.dt d) := by
  cases it with
  | value v => cases v <;> simp_all [plainItem, plainVal]
  | table t => obtain ⟨items, a, b, c⟩ := t; simp [plainItem, plainTbl] at h
  | aot ts => simp [plainItem] at h

/-! ## scalars -/

/-- the types whose `Deserialize` impl lands in `deserialize_any` with a primitive visitor -/
def isScalarTy : Ty → Bool
  | .bool => true
  | .int _ _ => true
  | .f64 => true
  | .f32 => true
  | .string => true
  | .char => true
  | _ => false

theorem good_scalar (fl : Flavour) (ty : Ty) (hs : isScalarTy ty = true) (w : TV) (nd : Dec)
    (h : visitScalar ty (presValue currentDtAsMap w) = .ok nd) : Good fl ty w nd := by
  constructor
  · intro c it hit
    subst hit
    rw [← presOfItem_presValue] at h
    cases ty <;> first | (simp [isScalarTy] at hs; done) | (unfold decodeEdit; exact h)
  · intro cv
    cases ty <;> first | (simp [isScalarTy] at hs; done) | (unfold decodeValue; exact h)

/-! ## date-times -/

theorem decodeDatetime_dtMap (d : Datetime.Datetime) (h : dtOk d = true) : decodeDatetime (dtMap d) = some d := by
  simp only [dtOk, beq_iff_eq] at h
  simp [decodeDatetime, dtMap, h]

theorem good_datetime (fl : Flavour) (d : Datetime.Datetime) (h : dtOk d = true) :
    Good fl .datetime (.dt d) (.dt d) := by
  constructor
  · intro c it hit
    rw [item_of_dt hit]
    unfold decodeEdit
    simp [datetimeTarget, decodeDatetime_dtMap d h]
  · intro cv
    unfold decodeValue
    simp [datetimeTarget, presValue, currentDtAsMap, decodeDatetime_dtMap d h]

theorem good_date (fl : Flavour) (d : Datetime.Datetime) (h : dtOk d = true)
    (hs : (d.date.isSome && d.time.isNone && d.offset.isNone) = true) :
    Good fl .date (.dt d) (.dt d) := by
  constructor
  · intro c it hit
    rw [item_of_dt hit]
    unfold decodeEdit
    simp [datetimeTarget, decodeDatetime_dtMap d h, hs]
  · intro cv
    unfold decodeValue
    simp [datetimeTarget, presValue, currentDtAsMap, decodeDatetime_dtMap d h, hs]

theorem good_time (fl : Flavour) (d : Datetime.Datetime) (h : dtOk d = true)
    (hs : (d.date.isNone && d.time.isSome && d.offset.isNone) = true) :
    Good fl .time (.dt d) (.dt d) := by
  constructor
  · intro c it hit
    rw [item_of_dt hit]
    unfold decodeEdit
    simp [datetimeTarget, decodeDatetime_dtMap d h, hs]
  · intro cv
    unfold decodeValue
    simp [datetimeTarget, presValue, currentDtAsMap, decodeDatetime_dtMap d h, hs]

/-! ## `Option`, newtype structs -/

theorem good_option (fl : Flavour) (t : Ty) (w : TV) (nd : Dec) (h : Good fl t w nd) :
    Good fl (.option t) w (.some nd) := by
  constructor
  · intro c it hit
    unfold decodeEdit
    rw [h.1 c it hit]; rfl
  · intro cv
    unfold decodeValue
    rw [h.2 cv]; rfl

theorem good_newtype (fl : Flavour) (t : Ty) (w : TV) (nd : Dec) (h : Good fl t w nd) :
    Good fl (.newtype t) w (.newtype nd) := by
  constructor
  · intro c it hit
    unfold decodeEdit
    rw [h.1 c it hit]; rfl
  · intro cv
    unfold decodeValue
    rw [h.2 cv]; rfl

/-! ## sequences and tuples -/

theorem goodList_edit (fl : Flavour) (t : Ty) (c : EditCfg) : ∀ (l : List Item) (nds : List Dec),
    GoodList fl t (l.map plainItem) nds → mapE (decodeEdit c fl t) l = .ok nds
  | [], [], _ => rfl
  | [], _ :: _, h => by simp [GoodList] at h
  | i :: l, [], h => by simp [GoodList] at h
  | i :: l, d :: ds, h => by
    simp only [List.map_cons, GoodList] at h
    simp only [mapE, h.1.1 c i rfl, goodList_edit fl t c l ds h.2, rcons]

theorem goodList_value (fl : Flavour) (t : Ty) (cv : ValueCfg) : ∀ (ws : List TV) (nds : List Dec),
    GoodList fl t ws nds → mapE (decodeValue cv fl t) ws = .ok nds
  | [], [], _ => rfl
  | [], _ :: _, h => by simp [GoodList] at h
  | i :: l, [], h => by simp [GoodList] at h
  | i :: l, d :: ds, h => by
    simp only [GoodList] at h
    simp only [mapE, h.1.2 cv, goodList_value fl t cv l ds h.2, rcons]

theorem good_seq (fl : Flavour) (t : Ty) (ws : List TV) (nds : List Dec) (h : GoodList fl t ws nds) :
    Good fl (.seq t) (.arr ws) (.seq nds) := by
  constructor
  · intro c it hit
    obtain ⟨l, hk, hl⟩ := kind_of_arr hit
    obtain ⟨h1, _⟩ := view_elems hk
    unfold decodeEdit
    subst hl
    rw [h1]
    simp only [goodList_edit fl t c l nds h]; rfl
  · intro cv
    unfold decodeValue
    simp only [goodList_value fl t cv ws nds h]; rfl

theorem goodTys_length (fl : Flavour) : ∀ (ts : Tys) (ws : List TV) (nds : List Dec),
    GoodTys fl ts ws nds → ws.length = ts.length
  | .nil, [], [], _ => rfl
  | .nil, [], _ :: _, h => by simp [GoodTys] at h
  | .nil, _ :: _, _, h => by simp [GoodTys] at h
  | .cons t r, [], _, h => by simp [GoodTys] at h
  | .cons t r, _ :: _, [], h => by simp [GoodTys] at h
  | .cons t r, w :: ws, d :: ds, h => by
    simp only [GoodTys] at h
    simp [Tys.length, goodTys_length fl r ws ds h.2]

theorem goodTys_edit (fl : Flavour) (c : EditCfg) : ∀ (ts : Tys) (l : List Item) (nds : List Dec),
    GoodTys fl ts (l.map plainItem) nds → decodeEditTys c fl ts l = .ok nds
  | .nil, [], [], _ => by rw [decodeEditTys]
  | .nil, [], _ :: _, h => by simp [GoodTys] at h
  | .nil, _ :: _, _, h => by simp [GoodTys] at h
  | .cons t r, [], _, h => by simp [GoodTys] at h
  | .cons t r, _ :: _, [], h => by simp [GoodTys] at h
  | .cons t r, i :: l, d :: ds, h => by
    simp only [List.map_cons, GoodTys] at h
    rw [decodeEditTys, h.1.1 c i rfl, goodTys_edit fl c r l ds h.2]; rfl

theorem goodTys_value (fl : Flavour) (cv : ValueCfg) : ∀ (ts : Tys) (ws : List TV) (nds : List Dec),
    GoodTys fl ts ws nds → decodeValueTys cv fl ts ws = .ok nds
  | .nil, [], [], _ => by rw [decodeValueTys]
  | .nil, [], _ :: _, h => by simp [GoodTys] at h
  | .nil, _ :: _, _, h => by simp [GoodTys] at h
  | .cons t r, [], _, h => by simp [GoodTys] at h
  | .cons t r, _ :: _, [], h => by simp [GoodTys] at h
  | .cons t r, w :: ws, d :: ds, h => by
    simp only [GoodTys] at h
    rw [decodeValueTys, h.1.2 cv, goodTys_value fl cv r ws ds h.2]; rfl

theorem good_tuple (fl : Flavour) (ts : Tys) (ws : List TV) (nds : List Dec) (h : GoodTys fl ts ws nds) :
    Good fl (.tuple ts) (.arr ws) (.tuple nds) := by
  constructor
  · intro c it hit
    obtain ⟨l, hk, hl⟩ := kind_of_arr hit
    obtain ⟨h1, _⟩ := view_elems hk
    unfold decodeEdit
    subst hl
    rw [h1]
    simp only [goodTys_edit fl c ts l nds h]; rfl
  · intro cv
    unfold decodeValue
    have hlen := goodTys_length fl ts ws nds h
    simp only [goodTys_value fl cv ts ws nds h, hlen, gt_iff_lt, Nat.lt_irrefl, decide_false, Bool.and_false,
      Bool.false_eq_true, if_false]; rfl

end TomlVerif.Lemmas.SerTyped07
