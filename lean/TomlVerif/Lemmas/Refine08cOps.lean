import TomlVerif.Lemmas.Refine08cOK
/-! Every op of `Model/Edit.lean` keeps the tree-wide invariant of `Refine08cOK.lean`, for a family
    of predicates indexed by the arena that (a) accepts what the ops create, (b) grows with the arena
    and (c) accepts the `RawString` of a text appended to the arena. -/
namespace TomlVerif.Lemmas.Refine08c
open TomlVerif TomlVerif.Model TomlVerif.Model.Cst TomlVerif.Model.Edit TomlVerif.Model.Encode
open TomlVerif.Lemmas.Edit08 TomlVerif.Lemmas.Cst03 TomlVerif.Lemmas.Refine08bPrint
open TomlVerif.Lemmas.Refine08bSem TomlVerif.Lemmas.Spans14

/-! ### list helpers -/

end TomlVerif.Lemmas.Refine08c
namespace TomlVerif.Lemmas.Spans14
open TomlVerif TomlVerif.Model TomlVerif.Model.Cst TomlVerif.Model.Edit
section AllKV
variable {α : Type} {PK : CKey → Prop} {PV : α → Prop}

theorem AllKV.cinsert {l : List (CKey × α)} {k : CKey} {v : α} (h : AllKV PK PV l) (hk : PK k) (hv : PV v) :
    AllKV PK PV (cinsert k v l) := by
  induction l with
  | nil => exact AllKV.single hk hv
  | cons kv r ih =>
    obtain ⟨k', v'⟩ := kv
    rw [AllKV.cons] at h
    unfold Edit.cinsert
    split
    · rw [AllKV.cons]; exact ⟨⟨hk, hv⟩, h.2⟩
    · rw [AllKV.cons]; exact ⟨h.1, ih h.2⟩

theorem AllKV.insertByCKey {l : List (CKey × α)} {x : CKey × α} (h : AllKV PK PV l) (hx : PK x.1 ∧ PV x.2) :
    AllKV PK PV (insertByCKey x l) := by
  induction l with
  | nil => intro kv hm; simp [Edit.insertByCKey] at hm; subst hm; exact hx
  | cons y r ih =>
    have h' : (PK y.1 ∧ PV y.2) ∧ AllKV PK PV r := by
      obtain ⟨k', v'⟩ := y; exact AllKV.cons.1 h
    unfold Edit.insertByCKey
    split
    · intro kv hm
      rcases List.mem_cons.1 hm with rfl | hm
      · exact h'.1
      · exact ih h'.2 kv hm
    · intro kv hm
      rcases List.mem_cons.1 hm with rfl | hm
      · exact hx
      · exact h kv hm

theorem AllKV.sortByCKey {l : List (CKey × α)} (h : AllKV PK PV l) : AllKV PK PV (sortByCKey l) := by
  induction l with
  | nil => exact h
  | cons y r ih =>
    unfold Edit.sortByCKey
    exact AllKV.insertByCKey (ih (fun kv hm => h kv (List.mem_cons_of_mem _ hm))) (h y (by simp))

end AllKV
end TomlVerif.Lemmas.Spans14
namespace TomlVerif.Lemmas.Refine08c
open TomlVerif TomlVerif.Model TomlVerif.Model.Cst TomlVerif.Model.Edit TomlVerif.Model.Encode
open TomlVerif.Lemmas.Edit08 TomlVerif.Lemmas.Cst03 TomlVerif.Lemmas.Refine08bPrint
open TomlVerif.Lemmas.Refine08bSem TomlVerif.Lemmas.Spans14

theorem mem_insertAt {α} (x : α) : ∀ (i : Nat) (l : List α) (y : α), y ∈ insertAt x i l → y = x ∨ y ∈ l
  | 0, l, y, h => by simpa [insertAt] using h
  | _ + 1, [], y, h => by simp [insertAt] at h; exact Or.inl h
  | i + 1, z :: r, y, h => by
    simp only [insertAt, List.mem_cons] at h ⊢
    rcases h with h | h
    · exact Or.inr (Or.inl h)
    · rcases mem_insertAt x i r y h with h | h
      · exact Or.inl h
      · exact Or.inr (Or.inr h)

theorem mem_removeAt {α} : ∀ (i : Nat) (l : List α) (y : α), y ∈ removeAt i l → y ∈ l
  | _, [], y, h => by simp [removeAt] at h
  | 0, _ :: r, y, h => by simp only [removeAt] at h; exact List.mem_cons_of_mem _ h
  | i + 1, z :: r, y, h => by
    simp only [removeAt, List.mem_cons] at h ⊢
    rcases h with h | h
    · exact Or.inl h
    · exact Or.inr (mem_removeAt i r y h)

variable {P : Pr}

/-! ### `fmt` -/

theorem fmtItems_ok (hP : P.Adm) : ∀ l : List (CKey × CItem), IsOK P l → IsOK P (fmtItems l)
  | [], _ => trivial
  | (k, .value v) :: r, h => by
    rw [IsOK_cons] at h
    simp only [fmtItems]
    rw [IsOK_cons]
    exact ⟨⟨KeyOK_clearKey h.1.1, VOK_setDecor h.1.2 DecOK_default⟩, fmtItems_ok hP r h.2⟩
  | (k, .table t) :: r, h => by
    rw [IsOK_cons] at h
    simp only [fmtItems]
    rw [IsOK_cons]
    exact ⟨h.1, fmtItems_ok hP r h.2⟩
  | (k, .aot ts sp) :: r, h => by
    rw [IsOK_cons] at h
    simp only [fmtItems]
    rw [IsOK_cons]
    exact ⟨h.1, fmtItems_ok hP r h.2⟩

theorem fmtKvs_ok : ∀ l : List (CKey × CVal), KvsOK P l → KvsOK P (fmtKvs l)
  | [], _ => trivial
  | (k, v) :: r, h => by
    simp only [KvsOK] at h
    simp only [fmtKvs, KvsOK]
    exact ⟨⟨KeyOK_clearKey h.1.1, VOK_setDecor h.1.2 DecOK_default⟩, fmtKvs_ok r h.2⟩

theorem fmtElems_ok (hP : P.Adm) {sp : Raw} (hsp : P.raw sp) : ∀ (l : List CVal) (b : Bool), VsOK P l →
    VsOK P (fmtElems sp l b)
  | [], _, _ => trivial
  | v :: r, b, h => by
    simp only [VsOK] at h
    simp only [fmtElems, VsOK]
    refine ⟨VOK_setDecor h.1 ?_, fmtElems_ok hP hsp r false h.2⟩
    split
    · exact DecOK_new hP.raw hP.raw
    · exact DecOK_new hsp hP.raw

/-! ### sorting -/

mutual
theorem sortTbl_ok : ∀ t : CTbl, TOK P t → TOK P (sortTbl t)
  | .mk items imp dot p d sp, h => by
    simp only [TOK] at h
    simp only [sortTbl, TOK]
    refine ⟨?_, h.2⟩
    rw [IsOK_iff]
    exact AllKV.sortByCKey ((IsOK_iff _).1 (sortSub_ok items h.1))
theorem sortSub_ok : ∀ l : List (CKey × CItem), IsOK P l → IsOK P (sortSub l)
  | [], _ => trivial
  | (k, .table t) :: r, h => by
    simp only [IsOK] at h
    simp only [sortSub, IsOK]
    refine ⟨⟨h.1.1, ?_⟩, sortSub_ok r h.2⟩
    split
    · exact sortTbl_ok t h.1.2
    · exact h.1.2
  | (k, .value v) :: r, h => by
    simp only [IsOK] at h
    simp only [sortSub, IsOK]
    exact ⟨h.1, sortSub_ok r h.2⟩
  | (k, .aot ts sp) :: r, h => by
    simp only [IsOK] at h
    simp only [sortSub, IsOK]
    exact ⟨h.1, sortSub_ok r h.2⟩
end

mutual
theorem sortInl_ok : ∀ v : CVal, VOK P v → VOK P (sortInl v)
  | .inl items pre imp dot d sp, h => by
    simp only [VOK] at h
    simp only [sortInl, VOK]
    refine ⟨?_, h.2⟩
    rw [KvsOK_iff]
    exact AllKV.sortByCKey ((KvsOK_iff _).1 (sortInlSub_ok items h.1))
  | .scalar a b c, h => by simpa only [sortInl] using h
  | .arr a b c d e, h => by simpa only [sortInl] using h
theorem sortInlSub_ok : ∀ l : List (CKey × CVal), KvsOK P l → KvsOK P (sortInlSub l)
  | [], _ => trivial
  | (k, .inl items pre imp dot d sp) :: r, h => by
    simp only [KvsOK] at h
    simp only [sortInlSub, KvsOK]
    refine ⟨⟨h.1.1, ?_⟩, sortInlSub_ok r h.2⟩
    split
    · exact sortInl_ok _ h.1.2
    · exact h.1.2
  | (k, .scalar a b c) :: r, h => by
    simp only [KvsOK] at h
    simp only [sortInlSub, KvsOK]
    exact ⟨h.1, sortInlSub_ok r h.2⟩
  | (k, .arr a b c d e) :: r, h => by
    simp only [KvsOK] at h
    simp only [sortInlSub, KvsOK]
    exact ⟨h.1, sortInlSub_ok r h.2⟩
end

/-! ### conversions -/

mutual
theorem itemToVal_ok (hP : P.Adm) {sp : Raw} (hsp : P.raw sp) : ∀ it : CItem, ItemOK P it → VOK P (itemToVal sp it)
  | .value v, h => by simp only [itemToVal]; exact h
  | .table t, h => by
    simp only [itemToVal]
    exact tblToInl_ok hP hsp t h
  | .aot ts s, h => by
    simp only [itemToVal, VOK]
    exact ⟨fmtElems_ok hP hsp _ true (tblsToVals_ok hP hsp ts h.1), hP.raw, DecOK_default, hP.sp⟩
theorem tblToInl_ok (hP : P.Adm) {sp : Raw} (hsp : P.raw sp) : ∀ t : CTbl, TOK P t → VOK P (tblToInl sp t)
  | .mk items _ _ _ _ _, h => by
    simp only [TOK] at h
    simp only [tblToInl]
    exact VOK_freshInl hP (fmtKvs_ok _ (itemsToKvs_ok hP hsp items h.1))
theorem itemsToKvs_ok (hP : P.Adm) {sp : Raw} (hsp : P.raw sp) : ∀ l : List (CKey × CItem), IsOK P l →
    KvsOK P (itemsToKvs sp l)
  | [], _ => trivial
  | (k, it) :: r, h => by
    rw [IsOK_cons] at h
    simp only [itemsToKvs, KvsOK]
    exact ⟨⟨h.1.1, itemToVal_ok hP hsp it h.1.2⟩, itemsToKvs_ok hP hsp r h.2⟩
theorem tblsToVals_ok (hP : P.Adm) {sp : Raw} (hsp : P.raw sp) : ∀ l : List CTbl, TsOK P l →
    VsOK P (tblsToVals sp l)
  | [], _ => trivial
  | t :: r, h => by
    simp only [TsOK] at h
    simp only [tblsToVals, VsOK]
    exact ⟨tblToInl_ok hP hsp t h.1, tblsToVals_ok hP hsp r h.2⟩
end

theorem kvsToItems_ok : ∀ l : List (CKey × CVal), KvsOK P l → IsOK P (kvsToItems l)
  | [], _ => trivial
  | (k, v) :: r, h => by
    simp only [KvsOK] at h
    simp only [kvsToItems, IsOK]
    exact ⟨h.1, kvsToItems_ok r h.2⟩

theorem inlToTbl_ok (hP : P.Adm) {items : List (CKey × CVal)} (h : KvsOK P items) : TOK P (inlToTbl items) := by
  simp only [inlToTbl, TOK]
  exact ⟨fmtItems_ok hP _ (kvsToItems_ok items h), DecOK_default, hP.sp⟩

theorem allInl_ok (hP : P.Adm) : ∀ (l : List CVal) (ls : List (List (CKey × CVal))), allInl l = some ls →
    VsOK P l → TsOK P (ls.map inlToTbl)
  | [], ls, h, _ => by simp only [allInl, Option.some.injEq] at h; subst h; trivial
  | .inl items _ _ _ _ _ :: r, ls, h, hv => by
    simp only [allInl] at h
    simp only [VsOK, VOK] at hv
    obtain ⟨l', hl, rfl⟩ := Option.map_eq_some_iff.mp h
    simp only [List.map_cons, TsOK]
    exact ⟨inlToTbl_ok hP hv.1.1, allInl_ok hP r l' hl hv.2⟩
  | .scalar _ _ _ :: _, _, h, _ => by simp [allInl] at h
  | .arr _ _ _ _ _ :: _, _, h, _ => by simp [allInl] at h

/-! ### the node updates of the ops -/

theorem convAt_ok {k : Bytes} {f : CItem → Option CItem} (hf : ∀ it it', ItemOK P it → f it = some it' → ItemOK P it')
    (t t' : CTbl) (ht : TOK P t) (h : convAt k f t = some t') : TOK P t' := by
  unfold convAt at h
  split at h
  · rename_i it hl
    obtain ⟨it', hit, rfl⟩ := Option.map_eq_some_iff.mp h
    have hi := (TOK_iff t).1 ht
    exact TOK_setItems' ht (hi.1.creplace (hf it it' (hi.1.lookup hl) hit))
  · cases h

theorem tblSet_ok (hP : P.Adm) {k : Bytes} {kr vr : Raw} {v : Sc} (hk : P.raw kr) (hv : P.raw vr)
    (t t' : CTbl) (ht : TOK P t) (h : tblSet k kr vr v t = some t') : TOK P t' := by
  simp only [tblSet, Option.some.injEq] at h; subst h
  exact TOK_setItems' ht (((TOK_iff t).1 ht).1.cinsert (KeyOK_newKey hk) (VOK_newScalar hP hv))

theorem inlSet_ok (hP : P.Adm) {k : Bytes} {kr vr : Raw} {v : Sc} (hk : P.raw kr) (hv : P.raw vr)
    (x x' : CVal) (hx : VOK P x) (h : inlSet k kr vr v x = some x') : VOK P x' := by
  cases x with
  | inl items pre imp dot d sp =>
    simp only [inlSet, Option.some.injEq] at h; subst h
    simp only [VOK] at hx ⊢
    refine ⟨?_, hx.2⟩
    rw [KvsOK_iff]
    exact ((KvsOK_iff _).1 hx.1).cinsert (KeyOK_newKey hk) (VOK_newScalar hP hv)
  | scalar _ _ _ => simp [inlSet] at h
  | arr _ _ _ _ _ => simp [inlSet] at h

theorem tblDel_ok {k : Bytes} (t t' : CTbl) (ht : TOK P t) (h : tblDel k t = some t') : TOK P t' := by
  unfold tblDel at h
  split at h
  · simp only [Option.some.injEq] at h; subst h
    exact TOK_setItems' ht ((TOK_iff t).1 ht).1.cerase
  · cases h

theorem inlDel_ok {k : Bytes} (x x' : CVal) (hx : VOK P x) (h : inlDel k x = some x') : VOK P x' := by
  cases x with
  | inl items pre imp dot d sp =>
    simp only [inlDel] at h
    split at h
    · simp only [Option.some.injEq] at h; subst h
      simp only [VOK] at hx ⊢
      refine ⟨?_, hx.2⟩
      rw [KvsOK_iff]
      exact ((KvsOK_iff _).1 hx.1).cerase
    · cases h
  | scalar _ _ _ => simp [inlDel] at h
  | arr _ _ _ _ _ => simp [inlDel] at h

theorem tblPut_ok {k : Bytes} {kr : Raw} {it : CItem} (hk : P.raw kr) (hit : ItemOK P it)
    (t t' : CTbl) (ht : TOK P t) (h : tblPut k kr it t = some t') : TOK P t' := by
  simp only [tblPut, Option.some.injEq] at h; subst h
  exact TOK_setItems' ht (((TOK_iff t).1 ht).1.cinsert (KeyOK_newKey hk) hit)

theorem inlPut_ok (hP : P.Adm) {k : Bytes} {kr sp : Raw} {it : CItem} (hk : P.raw kr) (hsp : P.raw sp)
    (hit : ItemOK P it) (x x' : CVal) (hx : VOK P x) (h : inlPut k kr sp it x = some x') : VOK P x' := by
  cases x with
  | inl items pre imp dot d s =>
    simp only [inlPut, Option.some.injEq] at h; subst h
    simp only [VOK] at hx ⊢
    refine ⟨?_, hx.2⟩
    rw [KvsOK_iff]
    exact ((KvsOK_iff _).1 hx.1).cinsert (KeyOK_newKey hk) (itemToVal_ok hP hsp it hit)
  | scalar _ _ _ => simp [inlPut] at h
  | arr _ _ _ _ _ => simp [inlPut] at h

theorem tblViv_ok (hP : P.Adm) {k1 k2 : Bytes} {kr1 kr2 vr : Raw} {v : Sc} (h1 : P.raw kr1) (h2 : P.raw kr2)
    (hv : P.raw vr) (t t' : CTbl) (ht : TOK P t) (h : tblViv k1 k2 kr1 kr2 vr v t = some t') : TOK P t' := by
  have hi := (TOK_iff t).1 ht
  have hnew : VOK P (newScalar v vr) := VOK_newScalar hP hv
  unfold tblViv at h
  split at h
  · simp only [Option.some.injEq] at h; subst h
    refine TOK_setItems' ht (hi.1.append (AllKV.single (KeyOK_newKey h1) ?_))
    show VOK P _
    apply VOK_freshInl hP
    simp only [KvsOK]
    exact ⟨⟨KeyOK_newKey h2, hnew⟩, trivial⟩
  · rename_i sub hl
    simp only [Option.some.injEq] at h; subst h
    have hsub : TOK P sub := hi.1.lookup hl
    refine TOK_setItems' ht (hi.1.creplace ?_)
    show TOK P _
    exact TOK_setItems' hsub (((TOK_iff sub).1 hsub).1.cset (KeyOK_newKey h2) hnew)
  · rename_i items pre imp dot d sp hl
    simp only [Option.some.injEq] at h; subst h
    have hsub : VOK P (.inl items pre imp dot d sp) := hi.1.lookup hl
    refine TOK_setItems' ht (hi.1.creplace ?_)
    show VOK P _
    simp only [VOK] at hsub ⊢
    refine ⟨?_, hsub.2⟩
    rw [KvsOK_iff]
    exact ((KvsOK_iff _).1 hsub.1).cset (KeyOK_newKey h2) hnew
  · cases h

theorem opDecor_ok (hP : P.Adm) {sp : Raw} (hsp : P.raw sp) (b : Bool) : DecOK P (opDecor sp b) := by
  unfold opDecor
  split
  · exact DecOK_new hP.raw hP.raw
  · exact DecOK_new hsp hP.raw

theorem valFmt_ok (hP : P.Adm) {sp : Raw} (hsp : P.raw sp) (x x' : CVal) (hx : VOK P x)
    (h : valFmt sp x = some x') : VOK P x' := by
  cases x with
  | inl items pre imp dot d s =>
    simp only [valFmt, Option.some.injEq] at h; subst h
    simp only [VOK] at hx ⊢
    exact ⟨fmtKvs_ok _ hx.1, hx.2⟩
  | arr items tr c d s =>
    simp only [valFmt, Option.some.injEq] at h; subst h
    simp only [VOK] at hx ⊢
    exact ⟨fmtElems_ok hP hsp _ true hx.1, hP.raw, hx.2.2⟩
  | scalar _ _ _ => simp [valFmt] at h

theorem arrPush_ok (hP : P.Adm) {vr sp : Raw} {v : Sc} (hv : P.raw vr) (hsp : P.raw sp) (x x' : CVal)
    (hx : VOK P x) (h : arrPush vr sp v x = some x') : VOK P x' := by
  cases x with
  | arr items tr c d s =>
    simp only [arrPush, Option.some.injEq] at h; subst h
    simp only [VOK] at hx ⊢
    refine ⟨?_, hx.2⟩
    rw [VsOK_iff]
    intro y hy
    rcases List.mem_append.1 hy with hy | hy
    · exact (VsOK_iff _).1 hx.1 y hy
    · simp only [List.mem_singleton] at hy; subst hy
      exact VOK_setDecor (VOK_newScalar hP hv) (opDecor_ok hP hsp _)
  | scalar _ _ _ => simp [arrPush] at h
  | inl _ _ _ _ _ _ => simp [arrPush] at h

theorem arrInsert_ok (hP : P.Adm) {i : Nat} {vr sp : Raw} {v : Sc} (hv : P.raw vr) (hsp : P.raw sp) (x x' : CVal)
    (hx : VOK P x) (h : arrInsert i vr sp v x = some x') : VOK P x' := by
  cases x with
  | arr items tr c d s =>
    simp only [arrInsert] at h
    split at h
    · simp only [Option.some.injEq] at h; subst h
      simp only [VOK] at hx ⊢
      refine ⟨?_, hx.2⟩
      rw [VsOK_iff]
      intro y hy
      rcases mem_insertAt _ _ _ _ hy with hy | hy
      · subst hy
        exact VOK_setDecor (VOK_newScalar hP hv) (opDecor_ok hP hsp _)
      · exact (VsOK_iff _).1 hx.1 y hy
    · cases h
  | scalar _ _ _ => simp [arrInsert] at h
  | inl _ _ _ _ _ _ => simp [arrInsert] at h

theorem arrReplace_ok (hP : P.Adm) {i : Nat} {vr : Raw} {v : Sc} (hv : P.raw vr) (x x' : CVal)
    (hx : VOK P x) (h : arrReplace i vr v x = some x') : VOK P x' := by
  cases x with
  | arr items tr c d s =>
    simp only [arrReplace] at h
    split at h
    · rename_i old hold
      simp only [Option.some.injEq] at h; subst h
      simp only [VOK] at hx ⊢
      refine ⟨?_, hx.2⟩
      have hall := (VsOK_iff _).1 hx.1
      rw [VsOK_iff]
      intro y hy
      rcases List.mem_or_eq_of_mem_set hy with hy | hy
      · exact hall y hy
      · subst hy
        exact VOK_setDecor (VOK_newScalar hP hv) (VOK_decor (hall old (List.mem_of_getElem? hold)))
    · cases h
  | scalar _ _ _ => simp [arrReplace] at h
  | inl _ _ _ _ _ _ => simp [arrReplace] at h

theorem arrRemove_ok {i : Nat} (x x' : CVal) (hx : VOK P x) (h : arrRemove i x = some x') : VOK P x' := by
  cases x with
  | arr items tr c d s =>
    simp only [arrRemove] at h
    split at h
    · simp only [Option.some.injEq] at h; subst h
      simp only [VOK] at hx ⊢
      refine ⟨?_, hx.2⟩
      rw [VsOK_iff]
      intro y hy
      exact (VsOK_iff _).1 hx.1 y (mem_removeAt _ _ _ hy)
    · cases h
  | scalar _ _ _ => simp [arrRemove] at h
  | inl _ _ _ _ _ _ => simp [arrRemove] at h

theorem aotPush_ok (hP : P.Adm) {kr vr : Raw} (hk : P.raw kr) (hv : P.raw vr) (ts ts' : List CTbl)
    (hts : TsOK P ts) (h : aotPush kr vr ts = some ts') : TsOK P ts' := by
  simp only [aotPush, Option.some.injEq] at h; subst h
  rw [TsOK_iff]
  intro y hy
  rcases List.mem_append.1 hy with hy | hy
  · exact (TsOK_iff _).1 hts y hy
  · simp only [List.mem_singleton] at hy; subst hy
    simp only [TOK, IsOK]
    exact ⟨⟨⟨KeyOK_newKey hk, VOK_newScalar hP hv⟩, trivial⟩, DecOK_default, hP.sp⟩

theorem aotRemove_ok {i : Nat} (ts ts' : List CTbl) (hts : TsOK P ts) (h : aotRemove i ts = some ts') :
    TsOK P ts' := by
  unfold aotRemove at h
  split at h
  · simp only [Option.some.injEq] at h; subst h
    rw [TsOK_iff]
    intro y hy
    exact (TsOK_iff _).1 hts y (mem_removeAt _ _ _ hy)
  · cases h

theorem convInl_ok (hP : P.Adm) {sp : Raw} (hsp : P.raw sp) (it it' : CItem) (hit : ItemOK P it)
    (h : convInl sp it = some it') : ItemOK P it' := by
  cases it with
  | table t =>
    simp only [convInl, Option.some.injEq] at h; subst h
    exact tblToInl_ok hP hsp t hit
  | value _ => simp [convInl] at h
  | aot _ _ => simp [convInl] at h

theorem convAotArr_ok (hP : P.Adm) {sp : Raw} (hsp : P.raw sp) (it it' : CItem) (hit : ItemOK P it)
    (h : convAotArr sp it = some it') : ItemOK P it' := by
  cases it with
  | aot ts s =>
    simp only [convAotArr, Option.some.injEq] at h; subst h
    exact itemToVal_ok hP hsp _ hit
  | value _ => simp [convAotArr] at h
  | table _ => simp [convAotArr] at h

theorem convTbl_ok (hP : P.Adm) (it it' : CItem) (hit : ItemOK P it) (h : convTbl it = some it') : ItemOK P it' := by
  unfold convTbl at h
  split at h
  · simp only [Option.some.injEq] at h; subst h
    have hit' : VOK P _ := hit
    simp only [VOK] at hit'
    exact inlToTbl_ok hP hit'.1
  · cases h

theorem convArrAot_ok (hP : P.Adm) (it it' : CItem) (hit : ItemOK P it) (h : convArrAot it = some it') :
    ItemOK P it' := by
  unfold convArrAot at h
  split at h
  · split at h
    · cases h
    · split at h
      · rename_i ls hl
        simp only [Option.some.injEq] at h; subst h
        have hit' : VOK P _ := hit
        simp only [VOK] at hit'
        exact ⟨allInl_ok hP _ ls hl hit'.1, hP.sp⟩
      · cases h
  · cases h

theorem inlSort_ok (x x' : CVal) (hx : VOK P x) (h : inlSort x = some x') : VOK P x' := by
  cases x with
  | inl items pre imp dot d s =>
    simp only [inlSort, Option.some.injEq] at h; subst h
    exact sortInl_ok _ hx
  | scalar _ _ _ => simp [inlSort] at h
  | arr _ _ _ _ _ => simp [inlSort] at h

theorem noTbl_ok (t t' : CTbl) (_ : TOK P t) (h : noTbl t = some t') : TOK P t' := by simp [noTbl] at h
theorem noVal_ok (t t' : CVal) (_ : VOK P t) (h : noVal t = some t') : VOK P t' := by simp [noVal] at h
theorem noAot_ok (t t' : List CTbl) (_ : TsOK P t) (h : noAot t = some t') : TsOK P t' := by simp [noAot] at h

/-- the node updates of every op keep the invariant, when the `RawString`s handed to the op do -/
theorem opUpd_ok (hP : P.Adm) (op : Op) (rs : List Raw) (hr : ∀ i, P.raw (rs.getD i .empty)) :
    UpdOK P (op.upd rs) := by
  cases op with
  | set k v => exact ⟨tblSet_ok hP (hr 0) (hr 1), inlSet_ok hP (hr 0) (hr 1), noAot_ok⟩
  | del k => exact ⟨tblDel_ok, inlDel_ok, noAot_ok⟩
  | newt k =>
    refine ⟨?_, noVal_ok, noAot_ok⟩
    intro t t' ht h
    simp only [Op.upd, tblNewTable, Option.some.injEq] at h; subst h
    exact TOK_setItems' ht (((TOK_iff t).1 ht).1.cinsert (KeyOK_newKey (hr 0)) (TOK_empty hP))
  | viv k1 k2 v => exact ⟨tblViv_ok hP (hr 0) (hr 1) (hr 2), noVal_ok, noAot_ok⟩
  | sort =>
    refine ⟨?_, inlSort_ok, noAot_ok⟩
    intro t t' ht h
    simp only [Op.upd, Option.some.injEq] at h; subst h
    exact sortTbl_ok t ht
  | fmt =>
    refine ⟨?_, valFmt_ok hP (hr 0), noAot_ok⟩
    intro t t' ht h
    simp only [Op.upd, tblFmt, Option.some.injEq] at h; subst h
    refine TOK_setItems' ht ?_
    rw [← IsOK_iff]
    exact fmtItems_ok hP _ ((IsOK_iff _).2 ((TOK_iff t).1 ht).1)
  | push v => exact ⟨noTbl_ok, arrPush_ok hP (hr 0) (hr 1), noAot_ok⟩
  | ains i v => exact ⟨noTbl_ok, arrInsert_ok hP (hr 0) (hr 1), noAot_ok⟩
  | arepl i v => exact ⟨noTbl_ok, arrReplace_ok hP (hr 0), noAot_ok⟩
  | adel i => exact ⟨noTbl_ok, arrRemove_ok, noAot_ok⟩
  | tpush => exact ⟨noTbl_ok, noVal_ok, noAot_ok⟩
  | tdel i => exact ⟨noTbl_ok, noVal_ok, aotRemove_ok⟩
  | inl k => exact ⟨convAt_ok (convInl_ok hP (hr 0)), noVal_ok, noAot_ok⟩
  | tbl k => exact ⟨convAt_ok (convTbl_ok hP), noVal_ok, noAot_ok⟩
  | aot2arr k => exact ⟨convAt_ok (convAotArr_ok hP (hr 0)), noVal_ok, noAot_ok⟩
  | arr2aot k => exact ⟨convAt_ok (convArrAot_ok hP), noVal_ok, noAot_ok⟩
  | mv k p2 => exact ⟨noTbl_ok, noVal_ok, noAot_ok⟩

/-! ### the arena -/

/-- a family of predicates indexed by the arena -/
structure Fam (F : Bytes → Pr) : Prop where
  adm : ∀ inp, (F inp).Adm
  le : ∀ inp x, (F inp).Le (F (inp ++ x))
  mkRaw : ∀ inp t, (F (inp ++ t)).raw (mkRaw inp t).2

variable {F : Bytes → Pr}

theorem allocAll_ok (hF : Fam F) : ∀ (ts : List Bytes) (inp : Bytes),
    (∃ x, (allocAll inp ts).1 = inp ++ x) ∧ ∀ r ∈ (allocAll inp ts).2, (F (allocAll inp ts).1).raw r
  | [], inp => ⟨⟨[], by simp [allocAll]⟩, by simp [allocAll]⟩
  | t :: r, inp => by
    obtain ⟨⟨x, hx⟩, hr⟩ := allocAll_ok hF r (mkRaw inp t).1
    have e1 : (mkRaw inp t).1 = inp ++ t := rfl
    refine ⟨⟨t ++ x, by simp only [allocAll]; rw [hx, e1, List.append_assoc]⟩, ?_⟩
    intro y hy
    simp only [allocAll, List.mem_cons] at hy ⊢
    rcases hy with rfl | hy
    · rw [hx, e1]
      exact (hF.le _ x).raw _ (hF.mkRaw inp t)
    · exact hr y hy

theorem getD_ok {Q : Pr} (hQ : Q.Adm) {rs : List Raw} (h : ∀ r ∈ rs, Q.raw r) (i : Nat) : Q.raw (rs.getD i .empty) := by
  rw [List.getD_eq_getElem?_getD]
  cases hi : rs[i]? with
  | none => exact hQ.raw
  | some r => exact h r (List.mem_of_getElem? hi)

theorem applyTree_ok (hF : Fam F) (st : St) (op : Op) (p : List Seg) (r : CTbl)
    (hm : applyTree op (allocAll st.inp op.texts).2 p st.doc.root = some r) (hs : TOK (F st.inp) st.doc.root) :
    TOK (F (allocAll st.inp op.texts).1) r := by
  obtain ⟨⟨x, hx⟩, hr⟩ := allocAll_ok hF op.texts st.inp
  have hQ := hF.adm (allocAll st.inp op.texts).1
  have hs' : TOK (F (allocAll st.inp op.texts).1) st.doc.root := by
    rw [hx]; exact TOK.le (hF.le _ x) _ hs
  exact upd_ok_tbl (opUpd_ok hQ op _ (getD_ok hQ hr)) p _ r hm hs'

/-- **every op keeps the invariant**, relative to the arena of the state -/
theorem applyOp_ok (hF : Fam F) (st st' : St) (op : Op) (p : List Seg) (h : applyOp st op p = some st')
    (hs : TOK (F st.inp) st.doc.root) : TOK (F st'.inp) st'.doc.root := by
  unfold applyOp at h
  cases op with
  | mv k p2 =>
    obtain ⟨r, hm, rfl⟩ := Option.map_eq_some_iff.mp h
    obtain ⟨⟨x, hx⟩, hr⟩ := allocAll_ok hF (Op.mv k p2).texts st.inp
    show TOK (F (allocAll st.inp (Op.mv k p2).texts).1) r
    have hQ := hF.adm (allocAll st.inp (Op.mv k p2).texts).1
    have hs' : TOK (F (allocAll st.inp (Op.mv k p2).texts).1) st.doc.root := by
      rw [hx]; exact TOK.le (hF.le _ x) _ hs
    unfold mvTree at hm
    split at hm
    · cases hm
    · rename_i n hn
      split at hm
      · cases hm
      · rename_i r1 h1
        have hn' := ItemOK_nodeItem (look_ok_tbl _ _ n hn hs')
        have hr1 := upd_ok_tbl ⟨tblDel_ok, inlDel_ok, noAot_ok⟩ p _ r1 h1 hs'
        exact upd_ok_tbl ⟨tblPut_ok (getD_ok hQ hr 0) hn', inlPut_ok hQ (getD_ok hQ hr 0) (getD_ok hQ hr 1) hn', noAot_ok⟩
          p2 r1 r hm hr1
  | tpush =>
    obtain ⟨y, hm, rfl⟩ := Option.map_eq_some_iff.mp h
    unfold tpushUpd at hm
    split at hm
    · rename_i ts sp hl
      obtain ⟨r, hu, rfl⟩ := Option.map_eq_some_iff.mp hm
      obtain ⟨⟨x, hx⟩, hr⟩ := allocAll_ok hF [[0x6E], Numbers.writeInt ts.length] st.inp
      show TOK (F (allocAll st.inp [[0x6E], Numbers.writeInt ts.length]).1) r
      have hQ := hF.adm (allocAll st.inp [[0x6E], Numbers.writeInt ts.length]).1
      have hs' : TOK (F (allocAll st.inp [[0x6E], Numbers.writeInt ts.length]).1) st.doc.root := by
        rw [hx]; exact TOK.le (hF.le _ x) _ hs
      exact upd_ok_tbl ⟨noTbl_ok, noVal_ok, aotPush_ok hQ (getD_ok hQ hr 0) (getD_ok hQ hr 1)⟩ p _ r hu hs'
    · cases hm
  | set k v | del k | newt k | viv k1 k2 v | sort | fmt | push v | ains i v | arepl i v | adel i
  | tdel i | inl k | tbl k | aot2arr k | arr2aot k =>
    obtain ⟨r, hm, rfl⟩ := Option.map_eq_some_iff.mp h
    exact applyTree_ok hF st _ p r hm hs

theorem step_ok (hF : Fam F) (st : St) (e : Op × List Seg) (hs : TOK (F st.inp) st.doc.root) :
    TOK (F (step st e).inp) (step st e).doc.root := by
  unfold step
  cases h : applyOp st e.1 e.2 with
  | none => exact hs
  | some st' => exact applyOp_ok hF st st' e.1 e.2 h hs

/-- **every history keeps the invariant** -/
theorem run_ok (hF : Fam F) : ∀ (es : List (Op × List Seg)) (st : St), TOK (F st.inp) st.doc.root →
    TOK (F (run st es).inp) (run st es).doc.root
  | [], _, h => h
  | e :: es, st, h => by
    have := run_ok hF es (step st e) (step_ok hF st e h)
    simpa only [run, List.foldl_cons] using this

end TomlVerif.Lemmas.Refine08c
