import TomlVerif.Lemmas.DeLocated15
/-! Lemmas for Props/C15Located.lean, part 2: a derived struct's `visit_map` walked in ENTRY order (`walkEntries` +
    `fillFields`, Model/DeLocated.lean) gives the verdict and the value of the FIELD-order description
    `decodeEditFields` after `dupField` (Model/DeTyped.lean), when the field names are distinct. -/
namespace TomlVerif.Lemmas.DeLocated15
open TomlVerif TomlVerif.Model TomlVerif.Model.TomlValue TomlVerif.Model.DeRoutes TomlVerif.Model.DeText
open TomlVerif.Model.DeTyped TomlVerif.Model.Cst TomlVerif.Model.DeLocated

/-- what `next_value_seed` of a field of type `t` gives on an entry (the code as it stands) -/
def srcDec (fl : Flavour) (t : Ty) : ESrc → R Dec
  | .item i => decodeEdit editAsIs fl t i
  | .str s => decodeStrDe t s

/-- `decodeLocEntry` without locations -/
def entryR (fl : Flavour) : Fields → Bytes → ESrc → R (Option Dec)
  | .nil, _, _ => .ok none
  | .cons name t _ r, k, src => if name == k then rmap some (srcDec fl t src) else entryR fl r k src

def distinctNames : Fields → Bool
  | .nil => true
  | .cons n _ _ r => !r.hasName n && distinctNames r

/-- `decodeEditFields` with some fields already decoded (`pre`) -/
def fieldsWith (fl : Flavour) : Fields → List (Bytes × Dec) → List (Bytes × ESrc) → R (List (Bytes × Dec))
  | .nil, _, _ => .ok []
  | .cons name t dflt r, pre, es =>
    rcons (match alookup name pre with
           | some d => .ok (name, d)
           | none => rmap (fun d => (name, d))
               (match alookup name es with
                | some src => srcDec fl t src
                | none => if dflt then .ok .dflt else missingField t))
      (fieldsWith fl r pre es)

theorem fieldsWith_nil (fl : Flavour) : ∀ (fs : Fields) (es : List (Bytes × ESrc)),
    fieldsWith fl fs [] es = decodeEditFields editAsIs fl fs es
  | .nil, es => by simp [fieldsWith, decodeEditFields]
  | .cons name t dflt r, es => by
    unfold fieldsWith decodeEditFields
    rw [fieldsWith_nil fl r es]
    simp only [alookup]
    congr 2
    cases alookup name es with
    | none => rfl
    | some src => cases src <;> simp [srcDec, editAsIs]

/-- at the end of the entries: `fillFields` -/
theorem fieldsWith_done (fl : Flavour) : ∀ (fs : Fields) (pre : List (Bytes × Dec)),
    fieldsWith fl fs pre [] = fillFields Err.fail fs pre
  | .nil, pre => by simp [fieldsWith, fillFields]
  | .cons name t dflt r, pre => by
    unfold fieldsWith fillFields
    rw [fieldsWith_done fl r pre]
    simp only [alookup]
    cases alookup name pre with
    | some d =>
      simp only []
      cases fillFields Err.fail r pre <;> simp [rcons, fail]
    | none =>
      simp only []
      cases dflt with
      | true => cases fillFields Err.fail r pre <;> simp [rcons, rmap, fail]
      | false =>
        cases hm : missingField t with
        | ok d => cases fillFields Err.fail r pre <;> simp [rcons, rmap, fail]
        | error e => cases e; cases fillFields Err.fail r pre <;> simp [rcons, rmap, fail]

theorem rcons_fail_left {α} (x : R (List α)) : rcons (fail : R α) x = fail := by
  cases x <;> rfl

theorem rcons_fail_right {α} (a : R α) : rcons a (fail : R (List α)) = fail := by
  cases a <;> rfl

/-- an entry whose key names a field and whose value does not decode makes the struct fail -/
theorem fieldsWith_entry_fails (fl : Flavour) (k : Bytes) (src : ESrc) (pre : List (Bytes × Dec)) (r : List (Bytes × ESrc))
    (hpre : alookup k pre = none) : ∀ fs : Fields, entryR fl fs k src = fail →
    fieldsWith fl fs pre ((k, src) :: r) = fail
  | .nil, h => by simp [entryR, fail] at h
  | .cons name t dflt rest, h => by
    unfold entryR at h
    unfold fieldsWith
    by_cases hn : (name == k) = true
    · have hk : name = k := by simpa using hn
      subst hk
      simp only [beq_self_eq_true, if_true] at h
      have hs : srcDec fl t src = fail := by
        cases hsd : srcDec fl t src with
        | ok d => rw [hsd] at h; simp [rmap, fail] at h
        | error e => exact r_error e
      simp only [hpre, alookup, beq_self_eq_true, if_true, hs]
      simp [rmap, fail, rcons]
    · simp only [hn] at h
      rw [fieldsWith_entry_fails fl k src pre r hpre rest (by simpa using h)]
      exact rcons_fail_right _

/-- every field named `k` decodes `src` to `d` -/
def AllNamed (fl : Flavour) (k : Bytes) (src : ESrc) (d : Dec) : Fields → Prop
  | .nil => True
  | .cons n t _ r => (n = k → srcDec fl t src = .ok d) ∧ AllNamed fl k src d r

theorem allNamed_of_not_hasName (fl : Flavour) (k : Bytes) (src : ESrc) (d : Dec) : ∀ fs : Fields,
    fs.hasName k = false → AllNamed fl k src d fs
  | .nil, _ => trivial
  | .cons n t dflt r, h => by
    simp only [Fields.hasName, Bool.or_eq_false_iff] at h
    refine ⟨fun hn => ?_, allNamed_of_not_hasName fl k src d r h.2⟩
    subst hn; simp at h

theorem allNamed_of_entryR (fl : Flavour) (k : Bytes) (src : ESrc) (d : Dec) : ∀ fs : Fields,
    distinctNames fs = true → entryR fl fs k src = .ok (some d) → AllNamed fl k src d fs
  | .nil, _, _ => trivial
  | .cons n t dflt r, hd, h => by
    simp only [distinctNames, Bool.and_eq_true, Bool.not_eq_true'] at hd
    unfold entryR at h
    by_cases hn : (n == k) = true
    · have hk : n = k := by simpa using hn
      subst hk
      simp only [beq_self_eq_true, if_true] at h
      refine ⟨fun _ => ?_, allNamed_of_not_hasName fl n src d r hd.1⟩
      cases hsd : srcDec fl t src with
      | ok d' => rw [hsd] at h; simp [rmap] at h; rw [h]
      | error e => rw [hsd] at h; simp [rmap] at h
    · simp only [hn] at h
      refine ⟨fun hk => ?_, allNamed_of_entryR fl k src d r hd.2 (by simpa using h)⟩
      subst hk; simp at hn

theorem alookup_append_single {α} (k n : Bytes) (d : α) : ∀ pre : List (Bytes × α),
    alookup n (pre ++ [(k, d)]) = match alookup n pre with
      | some x => some x
      | none => if k == n then some d else none
  | [] => by simp [alookup]
  | (k', v) :: r => by
    simp only [List.cons_append, alookup]
    by_cases h : (k' == n) = true
    · simp [h]
    · simp only [h]; exact alookup_append_single k n d r

/-- the entry `(k, src)` decoded to `d` can move from the entries to the decoded ones -/
theorem fieldsWith_step (fl : Flavour) (k : Bytes) (src : ESrc) (d : Dec) (pre : List (Bytes × Dec)) (r : List (Bytes × ESrc))
    (hpre : alookup k pre = none) : ∀ fs : Fields, AllNamed fl k src d fs →
    fieldsWith fl fs pre ((k, src) :: r) = fieldsWith fl fs (pre ++ [(k, d)]) r
  | .nil, _ => by simp [fieldsWith]
  | .cons name t dflt rest, h => by
    unfold fieldsWith
    rw [fieldsWith_step fl k src d pre r hpre rest h.2]
    congr 1
    rw [alookup_append_single]
    by_cases hn : (k == name) = true
    · have hk : k = name := by simpa using hn
      subst hk
      simp only [hpre, alookup, beq_self_eq_true, if_true, h.1 rfl]
      rfl
    · have hn' : (name == k) = false := by
        cases hx : (name == k) with
        | false => rfl
        | true => have : name = k := by simpa using hx
                  subst this; simp at hn
      simp only [alookup, hn, hn']
      cases alookup name pre <;> simp

/-- an entry whose key names no field is skipped -/
theorem fieldsWith_skip (fl : Flavour) (k : Bytes) (src : ESrc) (pre : List (Bytes × Dec)) (r : List (Bytes × ESrc)) :
    ∀ fs : Fields, fs.hasName k = false → fieldsWith fl fs pre ((k, src) :: r) = fieldsWith fl fs pre r
  | .nil, _ => by simp [fieldsWith]
  | .cons name t dflt rest, h => by
    simp only [Fields.hasName, Bool.or_eq_false_iff] at h
    unfold fieldsWith
    rw [fieldsWith_skip fl k src pre r rest h.2]
    have hn' : (k == name) = false := by
      cases hx : (k == name) with
      | false => rfl
      | true => have : k = name := by simpa using hx
                subst this; simp at h
    simp [alookup, hn']

theorem entryR_none_of_not_hasName (fl : Flavour) (k : Bytes) (src : ESrc) : ∀ fs : Fields,
    fs.hasName k = false → entryR fl fs k src = .ok none
  | .nil, _ => rfl
  | .cons n t dflt r, h => by
    simp only [Fields.hasName, Bool.or_eq_false_iff] at h
    unfold entryR
    simp only [h.1, Bool.false_eq_true, if_false]
    exact entryR_none_of_not_hasName fl k src r h.2

theorem entryR_some_of_hasName (fl : Flavour) (k : Bytes) (src : ESrc) : ∀ fs : Fields,
    fs.hasName k = true → entryR fl fs k src = fail ∨ ∃ d, entryR fl fs k src = .ok (some d)
  | .nil, h => by simp [Fields.hasName] at h
  | .cons n t dflt r, h => by
    unfold entryR
    by_cases hn : (n == k) = true
    · simp only [hn, if_true]
      cases hs : srcDec fl t src with
      | ok d => exact Or.inr ⟨d, rfl⟩
      | error e => cases e; exact Or.inl rfl
    · simp only [Fields.hasName, hn, Bool.false_or] at h
      simp only [hn]
      exact entryR_some_of_hasName fl k src r h

/-- keys of the remaining entries that name a field and were seen -/
def anySeen (fs : Fields) (seen : List Bytes) (keys : List Bytes) : Bool :=
  keys.any fun x => fs.hasName x && seen.contains x

theorem anySeen_cons_seen (fs : Fields) (k : Bytes) (hk : fs.hasName k = true) (seen : List Bytes) : ∀ keys : List Bytes,
    anySeen fs (k :: seen) keys = (anySeen fs seen keys || keys.contains k)
  | [] => by simp [anySeen]
  | x :: r => by
    have ih := anySeen_cons_seen fs k hk seen r
    simp only [anySeen, List.any_cons, List.contains_cons] at ih ⊢
    rw [ih]
    by_cases hx : x = k
    · subst hx; simp [hk]
    · have h1 : (x == k) = false := by simpa using hx
      have h2 : (k == x) = false := by simpa using fun h : k = x => hx h.symm
      simp only [h1, h2, Bool.false_or]
      cases fs.hasName x <;> cases seen.contains x <;> cases (r.any fun x => fs.hasName x && seen.contains x) <;> cases r.contains k <;> rfl

/-- the crux: walking the entries with `seen` keys and `pre` decoded fields -/
theorem walk_fill (fl : Flavour) (fs : Fields) (hd : distinctNames fs = true) :
    ∀ (es : List (Bytes × ESrc)) (seen : List Bytes) (pre : List (Bytes × Dec)),
    (∀ n, seen.contains n = (alookup n pre).isSome) →
    (match walkEntries Err.fail fs.hasName (entryR fl fs) seen es with
     | .error _ => fail
     | .ok ds => fillFields Err.fail fs (pre ++ ds)) =
    if anySeen fs seen (es.map Prod.fst) || dupField fs (es.map Prod.fst) then fail else fieldsWith fl fs pre es
  | [], seen, pre, _ => by
    simp [walkEntries, anySeen, dupField, fieldsWith_done]
  | (k, src) :: r, seen, pre, hs => by
    unfold walkEntries
    simp only [List.map_cons, dupField, anySeen, List.any_cons]
    by_cases hk : fs.hasName k = true
    · by_cases hsn : seen.contains k = true
      · have hc : (fs.hasName k && seen.contains k) = true := by rw [hk, hsn]; rfl
        simp only [hc, if_true, Bool.true_or]
      · have hsn' : seen.contains k = false := by simpa using hsn
        have hpre : alookup k pre = none := by
          have := hs k; rw [hsn'] at this
          cases h : alookup k pre with
          | none => rfl
          | some _ => rw [h] at this; simp at this
        simp only [hk, hsn', Bool.and_false, Bool.false_eq_true, if_false, Bool.true_and, Bool.false_or]
        rcases entryR_some_of_hasName fl k src fs hk with hf | ⟨d, hok⟩
        · rw [hf]
          simp only [fail]
          rw [fieldsWith_entry_fails fl k src pre r hpre fs hf]
          simp [fail]
        · rw [hok]
          simp only []
          have ih := walk_fill fl fs hd r (k :: seen) (pre ++ [(k, d)]) (by
            intro n
            rw [alookup_append_single, List.contains_cons, hs n]
            by_cases hkn : k = n
            · subst hkn; simp [hpre]
            · have h1 : (n == k) = false := by simpa using fun h : n = k => hkn h.symm
              have h2 : (k == n) = false := by simpa using hkn
              simp only [h1, Bool.false_or, h2]
              cases alookup n pre <;> simp)
          rw [anySeen_cons_seen fs k hk seen] at ih
          rw [fieldsWith_step fl k src d pre r hpre fs (allNamed_of_entryR fl k src d fs hd hok)]
          simp only [anySeen, Bool.or_assoc] at ih
          rw [← ih]
          cases walkEntries Err.fail fs.hasName (entryR fl fs) (k :: seen) r with
          | error e => rfl
          | ok ds => simp [List.append_assoc]
    · have hk' : fs.hasName k = false := by simpa using hk
      simp only [hk', Bool.false_and, Bool.false_eq_true, if_false, Bool.false_or]
      rw [entryR_none_of_not_hasName fl k src fs hk']
      simp only []
      rw [fieldsWith_skip fl k src pre r fs hk']
      exact walk_fill fl fs hd r seen pre hs

/-- a derived struct's `visit_map` in entry order = the field-order description -/
theorem walk_fill_top (fl : Flavour) (fs : Fields) (hd : distinctNames fs = true) (es : List (Bytes × ESrc)) :
    (match walkEntries Err.fail fs.hasName (entryR fl fs) [] es with
     | .error _ => fail
     | .ok ds => fillFields Err.fail fs ds) =
    if dupField fs (es.map Prod.fst) then fail else decodeEditFields editAsIs fl fs es := by
  have := walk_fill fl fs hd es [] [] (by intro n; simp [alookup])
  simp only [List.nil_append] at this
  rw [this, fieldsWith_nil]
  have : anySeen fs [] (es.map Prod.fst) = false := by simp [anySeen]
  rw [this, Bool.false_or]

end TomlVerif.Lemmas.DeLocated15
