import TomlVerif.Lemmas.DeLocated15c
/-! Lemmas for Props/C15Located.lean, part 4: the induction over the type grammar for `T15_loc_erases`. -/
namespace TomlVerif.Lemmas.DeLocated15
open TomlVerif TomlVerif.Model TomlVerif.Model.TomlValue TomlVerif.Model.DeRoutes TomlVerif.Model.DeText
open TomlVerif.Model.DeTyped TomlVerif.Model.Cst TomlVerif.Model.DeLocated

theorem firstExtraKey_any (fs : Fields) : ∀ es : List (CKey × CItem),
    (firstExtraKey fs es).isSome = (eraseEntries es).any fun kv => !fs.hasName kv.1
  | [] => rfl
  | (k, v) :: r => by
    simp only [firstExtraKey, eraseEntries, List.map_cons, List.any_cons]
    have ih := firstExtraKey_any fs r
    simp only [eraseEntries] at ih
    cases h : fs.hasName k.key <;> simp [ih]

theorem firstBadIndex_indexKeys : ∀ (es : List (CKey × CItem)) (i : Nat),
    (firstBadIndex i es).isNone = indexKeys i (eraseEntries es)
  | [], _ => rfl
  | (k, v) :: r, i => by
    simp only [firstBadIndex, eraseEntries, List.map_cons, indexKeys]
    have ih := firstBadIndex_indexKeys r (i + 1)
    simp only [eraseEntries] at ih
    cases h : (parseUsize k.key == some i) <;> simp [ih]

theorem eraseEntries_length (es : List (CKey × CItem)) : (eraseEntries es).length = es.length := by
  simp [eraseEntries]

theorem eraseEntries_snd (es : List (CKey × CItem)) : (eraseEntries es).map Prod.snd = (es.map Prod.snd).map eraseItem := by
  simp [eraseEntries, Function.comp_def]

theorem decodeValueLoc_erase (fl : Flavour) (it : CItem) :
    toR (decodeValueLoc fl it) = rmap Dec.value (ofOpt (visitValue fl false (presOfItem (eraseItem it)))) := by
  unfold decodeValueLoc
  cases visitValue fl false (presOfItem (eraseItem it)) with
  | some v => rfl
  | none => simp only []; cases valueErrItem it <;> rfl

theorem srcs_mem (it : CItem) (es : List (Bytes × LSrc)) (h : locMapEntries it = some es) (kv : Bytes × LSrc) (hkv : kv ∈ es) :
    match kv.2 with
    | .item k _ => kv.1 = k.key
    | .str _ => True := by
  unfold locMapEntries at h
  split at h
  · simp only [Option.some.injEq] at h
    subst h
    simp only [List.mem_singleton] at hkv
    subst hkv; trivial
  · cases hc : citemEntries it with
    | none => rw [hc] at h; simp at h
    | some ces =>
      rw [hc] at h
      simp only [Option.map_some, Option.some.injEq] at h
      subst h
      simp only [List.mem_map] at hkv
      obtain ⟨x, _, hx⟩ := hkv
      subst hx; rfl

mutual
theorem erase_ty (fl : Flavour) : ∀ (ty : Ty) (it : CItem), wfTy ty = true →
    toR (decodeLoc fl ty it) = decodeEdit editAsIs fl ty (eraseItem it)
  | .bool, it, _ => by unfold decodeLoc decodeEdit; simp
  | .int _ _, it, _ => by unfold decodeLoc decodeEdit; simp
  | .f64, it, _ => by unfold decodeLoc decodeEdit; simp
  | .f32, it, _ => by unfold decodeLoc decodeEdit; simp
  | .string, it, _ => by unfold decodeLoc decodeEdit; simp
  | .char, it, _ => by unfold decodeLoc decodeEdit; simp
  | .unit, it, _ => by unfold decodeLoc decodeEdit; simp
  | .datetime, it, _ => by
    unfold decodeLoc decodeEdit; rw [dtLoc_erase]
    split <;> simp [presOfItem, presOfVal, *]
  | .date, it, _ => by
    unfold decodeLoc decodeEdit; rw [dtLoc_erase]
    split <;> simp [presOfItem, presOfVal, *]
  | .time, it, _ => by
    unfold decodeLoc decodeEdit; rw [dtLoc_erase]
    split <;> simp [presOfItem, presOfVal, *]
  | .value, it, _ => by unfold decodeLoc decodeEdit; exact decodeValueLoc_erase fl it
  | .ignored, it, _ => by unfold decodeLoc decodeEdit; rfl
  | .option t, it, h => by
    unfold decodeLoc decodeEdit
    simp only [toR_atSpan, toR_lmap]
    rw [erase_ty fl t it (by simpa [wfTy] using h)]
  | .newtype t, it, h => by
    unfold decodeLoc decodeEdit
    simp only [toR_atSpan, toR_lmap]
    rw [erase_ty fl t it (by simpa [wfTy] using h)]
  | .seq t, it, h => by
    unfold decodeLoc decodeEdit
    simp only [toR_atSpan, itemElems_erase]
    cases citemElems it with
    | none => rfl
    | some l =>
      simp only [Option.map_some, toR_lmap]
      rw [toR_mapL (fun i => atSpan i.span (decodeLoc fl t i)) (decodeEdit editAsIs fl t) eraseItem l
        fun a _ => by simp only [toR_atSpan]; exact erase_ty fl t a (by simpa [wfTy] using h)]
  | .tuple ts, it, h => by
    unfold decodeLoc decodeEdit
    simp only [toR_atSpan, itemElems_erase]
    cases citemElems it with
    | none => rfl
    | some l =>
      simp only [Option.map_some, toR_lmap]
      rw [erase_tys fl ts l (by simpa [wfTy] using h)]
  | .map t, it, h => by
    unfold decodeLoc decodeEdit
    simp only [toR_atSpan, editMapEntries_erase]
    cases hl : locMapEntries it with
    | none => rfl
    | some es =>
      simp only [Option.map_some, toR_lmap]
      congr 1
      unfold eraseSrcs
      refine toR_mapL _ _ (fun kv : Bytes × LSrc => (kv.1, eraseSrc kv.2)) es fun kv _ => ?_
      obtain ⟨k, src⟩ := kv
      simp only [toR_lmap]
      congr 1
      cases src with
      | item key i =>
        simp only [toR_inEntry, eraseSrc]
        exact erase_ty fl t i (by simpa [wfTy] using h)
      | str s => simp [eraseSrc, editAsIs]
  | .struct fs, it, h => by
    have hw : distinctNames fs = true ∧ wfFields fs = true := by simpa [wfTy] using h
    unfold decodeLoc decodeEdit
    simp only [toR_atSpan, editMapEntries_erase, itemElems_erase]
    cases hl : locMapEntries it with
    | some es =>
      simp only [Option.map_some]
      exact struct_body_erase fl fs hw.1 Dec.struct _ es fun kv _ => erase_entry fl fs kv.1 kv.2 hw.2
    | none =>
      simp only [Option.map_none]
      cases citemElems it with
      | none => rfl
      | some l =>
        simp only [Option.map_some, toR_lmap]
        rw [erase_fseq fl fs l hw.2]
  | .enum vs, it, h => by
    unfold decodeLoc decodeEdit
    simp only [toR_atSpan]
    split
    · rename_i _ s heq
      rw [heq]
      simp
    · rename_i hns
      simp only [itemEntries_erase]
      cases hc : citemEntries it with
      | none => simp
      | some es =>
        match es with
        | [] => simp [eraseEntries]
        | [(k, p)] =>
          simp only [Option.map_some, eraseEntries, List.map_cons, List.map_nil]
          exact erase_variants fl vs k p (by simpa [wfTy] using h)
        | _ :: _ :: _ => simp [eraseEntries]
theorem erase_tys (fl : Flavour) : ∀ (ts : Tys) (l : List CItem), wfTys ts = true →
    toR (decodeLocTys fl ts l) = decodeEditTys editAsIs fl ts (l.map eraseItem)
  | .nil, l, _ => by unfold decodeLocTys decodeEditTys; rfl
  | .cons t r, [], _ => by unfold decodeLocTys decodeEditTys; rfl
  | .cons t r, i :: l, h => by
    have hw : wfTy t = true ∧ wfTys r = true := by simpa [wfTys] using h
    unfold decodeLocTys
    simp only [List.map_cons]
    unfold decodeEditTys
    simp only [toR_lcons, toR_atSpan]
    rw [erase_ty fl t i hw.1, erase_tys fl r l hw.2]
theorem erase_entry (fl : Flavour) : ∀ (fs : Fields) (k : Bytes) (src : LSrc), wfFields fs = true →
    toR (decodeLocEntry fl fs k src) = entryR fl fs k (eraseSrc src)
  | .nil, k, src, _ => by unfold decodeLocEntry entryR; rfl
  | .cons name t dflt r, k, src, h => by
    have hw : wfTy t = true ∧ wfFields r = true := by simpa [wfFields] using h
    unfold decodeLocEntry entryR
    by_cases hn : (name == k) = true
    · simp only [hn, if_true, toR_lmap]
      congr 1
      cases src with
      | item key i => simp only [toR_inEntry, eraseSrc, srcDec]; exact erase_ty fl t i hw.1
      | str s => simp [eraseSrc, srcDec]
    · simp only [hn]
      exact erase_entry fl r k src hw.2
theorem erase_fseq (fl : Flavour) : ∀ (fs : Fields) (l : List CItem), wfFields fs = true →
    toR (decodeLocFieldsSeq fl fs l) = decodeEditFieldsSeq editAsIs fl fs (l.map eraseItem)
  | .nil, l, _ => by unfold decodeLocFieldsSeq decodeEditFieldsSeq; rfl
  | .cons name t dflt r, [], h => by
    have hw : wfTy t = true ∧ wfFields r = true := by simpa [wfFields] using h
    unfold decodeLocFieldsSeq
    simp only [List.map_nil]
    unfold decodeEditFieldsSeq
    cases dflt with
    | true =>
      simp only [if_true, toR_lmap]
      have := erase_fseq fl r [] hw.2
      simp only [List.map_nil] at this
      rw [this]
    | false => rfl
  | .cons name t dflt r, i :: l, h => by
    have hw : wfTy t = true ∧ wfFields r = true := by simpa [wfFields] using h
    unfold decodeLocFieldsSeq
    simp only [List.map_cons]
    unfold decodeEditFieldsSeq
    simp only [toR_lcons, toR_lmap, toR_atSpan]
    rw [erase_ty fl t i hw.1, erase_fseq fl r l hw.2]
theorem erase_variants (fl : Flavour) : ∀ (vs : Variants) (k : CKey) (p : CItem), wfVariants vs = true →
    toR (decodeLocVariants fl vs k p) = decodeEditVariants editAsIs fl vs k.key (eraseItem p)
  | .nil, k, p, _ => by unfold decodeLocVariants decodeEditVariants; rfl
  | .cons name s r, k, p, h => by
    have hw : wfShape s = true ∧ wfVariants r = true := by simpa [wfVariants] using h
    unfold decodeLocVariants decodeEditVariants
    by_cases hn : (name == k.key) = true
    · simp only [hn, if_true]; exact erase_shape fl s name p hw.1
    · simp only [hn]; exact erase_variants fl r k p hw.2
theorem erase_shape (fl : Flavour) : ∀ (s : Shape) (n : Bytes) (p : CItem), wfShape s = true →
    toR (decodeLocShape fl s n p) = decodeEditShape editAsIs fl s n (eraseItem p)
  | .unit, n, p, _ => by
    unfold decodeLocShape decodeEditShape
    simp only [itemElems_erase, itemEntries_erase]
    cases citemElems p with
    | some l => simp only [Option.map_some]; cases l <;> simp
    | none =>
      simp only [Option.map_none]
      cases citemEntries p with
      | some es => simp only [Option.map_some]; cases es <;> simp [eraseEntries]
      | none => rfl
  | .newtype t, n, p, h => by
    unfold decodeLocShape decodeEditShape
    simp only [toR_lmap]
    rw [erase_ty fl t p (by simpa [wfShape] using h)]
  | .tuple ts, n, p, h => by
    have hw : wfTys ts = true := by simpa [wfShape] using h
    unfold decodeLocShape decodeEditShape
    simp only [itemElems_erase, itemEntries_erase]
    cases citemElems p with
    | some l =>
      simp only [Option.map_some, List.length_map]
      by_cases hlen : (l.length == ts.length) = true
      · simp only [hlen, if_true, toR_lmap]; rw [erase_tys fl ts l hw]
      · simp [hlen]
    | none =>
      simp only [Option.map_none]
      cases citemEntries p with
      | none => rfl
      | some es =>
        simp only [Option.map_some, eraseEntries_length, eraseEntries_snd]
        have hb := firstBadIndex_indexKeys es 0
        cases hf : firstBadIndex 0 es with
        | some k => rw [hf] at hb; simp only [Option.isNone_some] at hb; simp [← hb]
        | none =>
          rw [hf] at hb; simp only [Option.isNone_none] at hb
          simp only [← hb, Bool.true_and]
          by_cases hlen : (es.length == ts.length) = true
          · simp only [hlen, if_true, toR_lmap]; rw [erase_tys fl ts _ hw]
          · simp [hlen]
  | .struct fs, n, p, h => by
    have hw : distinctNames fs = true ∧ wfFields fs = true := by simpa [wfShape] using h
    unfold decodeLocShape decodeEditShape
    simp only [itemEntries_erase]
    cases hce : citemEntries p with
    | none =>
      simp only [Option.map_none, Option.bind_none, Bool.and_false, Bool.false_eq_true, if_false]
      simp only [toR_atSpan, editMapEntries_erase, itemElems_erase]
      cases hl : locMapEntries p with
      | some es =>
        simp only [Option.map_some]
        exact struct_body_erase fl fs hw.1 (Dec.vStruct n) _ es fun kv _ => erase_entry fl fs kv.1 kv.2 hw.2
      | none =>
        simp only [Option.map_none]
        cases citemElems p with
        | none => rfl
        | some l =>
          simp only [Option.map_some, toR_lmap]
          rw [erase_fseq fl fs l hw.2]
    | some ces =>
      simp only [Option.map_some, Option.bind_some]
      have hany := firstExtraKey_any fs ces
      cases hf : firstExtraKey fs ces with
      | some k =>
        rw [hf] at hany
        simp only [Option.isSome_some] at hany
        simp [editAsIs, ← hany]
      | none =>
        rw [hf] at hany
        simp only [Option.isSome_none] at hany
        simp only [← hany, Bool.and_false, Bool.false_eq_true, if_false]
        simp only [toR_atSpan, editMapEntries_erase, itemElems_erase]
        cases hl : locMapEntries p with
        | some es =>
          simp only [Option.map_some]
          exact struct_body_erase fl fs hw.1 (Dec.vStruct n) _ es fun kv _ => erase_entry fl fs kv.1 kv.2 hw.2
        | none =>
          simp only [Option.map_none]
          cases citemElems p with
          | none => rfl
          | some l =>
            simp only [Option.map_some, toR_lmap]
            rw [erase_fseq fl fs l hw.2]
end

end TomlVerif.Lemmas.DeLocated15
