import TomlVerif.Lemmas.Tiling03MoreComments
import TomlVerif.Lemmas.Tiling03MoreRel
/-! C03, "every comment is kept" — the scanner side: a comment found in a piece of trivia is a
    CR-free contiguous piece of it, so it survives the deletion of CRs the printer applies to
    every decor text. -/
namespace TomlVerif.Lemmas.Tiling03More
open TomlVerif TomlVerif.Model TomlVerif.Model.Cst TomlVerif.Model.Encode TomlVerif.Lemmas.Cst03
open TomlVerif.Lemmas.Tiling03Hdr

theorem infix_appL {α} {x a : List α} (b : List α) (h : x <:+: a) : x <:+: a ++ b := by
  obtain ⟨p, q, e⟩ := h
  exact ⟨p, q ++ b, by rw [← e]; simp [List.append_assoc]⟩

theorem infix_appR {α} {x b : List α} (a : List α) (h : x <:+: b) : x <:+: a ++ b := by
  obtain ⟨p, q, e⟩ := h
  exact ⟨a ++ p, q, by rw [← e]; simp [List.append_assoc]⟩

theorem infix_cons' {α} {x l : List α} (a : α) (h : x <:+: l) : x <:+: a :: l :=
  infix_appR [a] h

theorem infix_rfl' {α} (x : List α) : x <:+: x := ⟨[], [], by simp⟩

theorem infix_trans' {α} {x y z : List α} (h1 : x <:+: y) (h2 : y <:+: z) : x <:+: z := by
  obtain ⟨p, q, e⟩ := h1
  obtain ⟨p', q', e'⟩ := h2
  exact ⟨p' ++ p, q ++ q', by rw [← e', ← e]; simp [List.append_assoc]⟩

theorem nil_infix' {α} (l : List α) : ([] : List α) <:+: l := ⟨[], l, by simp⟩

/-- `CF c`: no CR in `c` -/
def CF (c : Bytes) : Prop := ∀ b ∈ c, b ≠ 0x0D

/-- the invariant of the scanner, both states -/
theorem commentsAux_spec : ∀ t : Bytes,
    (∀ c, c ∈ commentsAux t none → c <:+: t ∧ CF c) ∧
    (∀ acc c, CF acc → c ∈ commentsAux t (some acc) →
      (∃ x, c = acc ++ x ∧ x <+: t ∧ CF x) ∨ (c <:+: t ∧ CF c))
  | [] => by
    constructor
    · intro c h; simp [commentsAux] at h
    · intro acc c _ h
      simp only [commentsAux, List.mem_singleton] at h
      subst h
      exact Or.inl ⟨[], by simp, ⟨[], by simp⟩, fun _ hb => by cases hb⟩
  | b :: r => by
    obtain ⟨ih1, ih2⟩ := commentsAux_spec r
    constructor
    · intro c h
      unfold commentsAux at h
      split at h
      · rename_i hb
        have hb' : b = 0x23 := by simpa using hb
        have hacc : CF [0x23] := by
          intro x hx; simp only [List.mem_singleton] at hx; subst hx; decide
        rcases ih2 [0x23] c hacc h with ⟨x, e, ⟨q, hq⟩, hx⟩ | ⟨hi, hc⟩
        · subst e; subst hb'
          refine ⟨⟨[], q, by rw [← hq]; simp⟩, ?_⟩
          intro y hy
          rcases List.mem_append.1 hy with hy | hy
          · exact hacc y hy
          · exact hx y hy
        · exact ⟨infix_cons' b hi, hc⟩
      · obtain ⟨hi, hc⟩ := ih1 c h
        exact ⟨infix_cons' b hi, hc⟩
    · intro acc c hacc h
      unfold commentsAux at h
      split at h
      · simp only [List.mem_cons] at h
        rcases h with h | h
        · subst h
          exact Or.inl ⟨[], by simp, ⟨b :: r, by simp⟩, fun _ hb => by cases hb⟩
        · obtain ⟨hi, hc⟩ := ih1 c h
          exact Or.inr ⟨infix_cons' b hi, hc⟩
      · rename_i hb
        have hb' : b ≠ 0x0D := by
          intro e; subst e; simp at hb
        have hacc' : CF (acc ++ [b]) := by
          intro y hy
          rcases List.mem_append.1 hy with hy | hy
          · exact hacc y hy
          · simp only [List.mem_singleton] at hy; subst hy; exact hb'
        rcases ih2 (acc ++ [b]) c hacc' h with ⟨x, e, ⟨q, hq⟩, hx⟩ | ⟨hi, hc⟩
        · refine Or.inl ⟨b :: x, by rw [e]; simp, ⟨q, by rw [← hq]; simp⟩, ?_⟩
          intro y hy
          simp only [List.mem_cons] at hy
          rcases hy with hy | hy
          · subst hy; exact hb'
          · exact hx y hy
        · exact Or.inr ⟨infix_cons' b hi, hc⟩

/-- **a comment of a piece of trivia is a CR-free contiguous piece of it** -/
theorem commentsIn_infix (t c : Bytes) (h : c ∈ commentsIn t) : c <:+: t ∧ (∀ b ∈ c, b ≠ 0x0D) :=
  (commentsAux_spec t).1 c h

/-- a comment of a piece survives the deletion of CRs -/
theorem commentsIn_stripCr (t c : Bytes) (h : c ∈ commentsIn t) : c <:+: stripCr t := by
  obtain ⟨hi, hc⟩ := commentsIn_infix t c h
  exact DropCr.infix_noCr (DropCr.stripCr t) hi hc

example : commentsIn (strBytes " # a\r\n\t#b\n") = [strBytes "# a", strBytes "#b"] := by decide +kernel

end TomlVerif.Lemmas.Tiling03More
