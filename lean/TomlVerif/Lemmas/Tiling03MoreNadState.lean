import TomlVerif.Lemmas.Tiling03MoreNadTree
/-! C03, same data for NON-adjacent dotted keys — the parse-state invariant `NInvG`: `AInvG` with
    the lines of the current section's body exposed entry by entry (`Aligned`): the text the
    printer writes is `renderLinesQ (lsPre ++ groups.flatten)`, the statements of `lsPre` run to the
    state just after the section's header, and group `i` renders entry `i` of the flattened body.
    A key/value line INSERTS its group.  `NInvG → AInvG` by replaying the body (`replay_body`). -/
namespace TomlVerif.Lemmas.Tiling03More.Nad
open TomlVerif TomlVerif.Spec TomlVerif.Model TomlVerif.Model.Strings TomlVerif.Model.Value
open TomlVerif.Model.Cst TomlVerif.Model.Encode TomlVerif.Lemmas.Suffix03 TomlVerif.Lemmas.Cst03
open TomlVerif.Lemmas.LastByte03 TomlVerif.Lemmas.Tiling03 TomlVerif.Lemmas.Tiling03Hdr
open TomlVerif.Lemmas.Tiling03Nest TomlVerif.Lemmas.Tiling03More TomlVerif.Lemmas.Tiling03More.VS
open TomlVerif.Spec.AstValue TomlVerif.Spec.AstValueQ TomlVerif.Spec.AstDoc TomlVerif.Spec.AstDocQ
open TomlVerif.Lemmas.Value01 (commentBytes)
open TomlVerif.Lemmas.State09 (Stmt run step run_append)

abbrev Lines := List (QLine × Bool)
abbrev Ent := List CKey × CVal

/-- the lines of one entry of the flattened body -/
def Grp (inp : Bytes) (g : Lines) (e : Ent) : Prop :=
  (∀ p ∈ g, QLine.WF p.1) ∧ renderLinesQ g = encodeBody stripCr inp [e] ∧ stmtsLinesQ g = [stmtOf e]

def Aligned (inp : Bytes) : List Lines → List Ent → Prop
  | [], [] => True
  | g :: gs, e :: es => Grp inp g e ∧ Aligned inp gs es
  | _, _ => False

theorem aligned_split (inp : Bytes) : ∀ (L1 L2 : List Ent) (G : List Lines), Aligned inp G (L1 ++ L2) →
    ∃ G1 G2, G = G1 ++ G2 ∧ Aligned inp G1 L1 ∧ Aligned inp G2 L2
  | [], L2, G, h => ⟨[], G, rfl, trivial, h⟩
  | e :: L1, L2, [], h => by simp [Aligned] at h
  | e :: L1, L2, g :: G, h => by
    simp only [List.cons_append, Aligned] at h
    obtain ⟨G1, G2, e1, e2, e3⟩ := aligned_split inp L1 L2 G h.2
    exact ⟨g :: G1, G2, by rw [e1]; rfl, ⟨h.1, e2⟩, e3⟩

theorem aligned_append (inp : Bytes) : ∀ (L1 L2 : List Ent) (G1 G2 : List Lines), Aligned inp G1 L1 →
    Aligned inp G2 L2 → Aligned inp (G1 ++ G2) (L1 ++ L2)
  | [], L2, [], G2, _, h => h
  | [], _, g :: G1, _, h, _ => by simp [Aligned] at h
  | e :: L1, _, [], _, h, _ => by simp [Aligned] at h
  | e :: L1, L2, g :: G1, G2, h, h2 => by
    simp only [Aligned] at h
    exact ⟨h.1, aligned_append inp L1 L2 G1 G2 h.2 h2⟩

theorem aligned_wf (inp : Bytes) : ∀ (L : List Ent) (G : List Lines), Aligned inp G L →
    ∀ p ∈ G.flatten, QLine.WF p.1
  | [], [], _, p, hp => by simp at hp
  | [], g :: G, h, _, _ => by simp [Aligned] at h
  | e :: L, [], h, _, _ => by simp [Aligned] at h
  | e :: L, g :: G, h, p, hp => by
    simp only [Aligned] at h
    simp only [List.flatten_cons, List.mem_append] at hp
    rcases hp with hp | hp
    · exact h.1.1 p hp
    · exact aligned_wf inp L G h.2 p hp

theorem encodeBody_cons (inp : Bytes) (e : Ent) (es : List Ent) :
    encodeBody stripCr inp (e :: es) = encodeBody stripCr inp [e] ++ encodeBody stripCr inp es := by
  have : e :: es = [e] ++ es := rfl
  rw [this, encodeBody_append]

theorem aligned_render (inp : Bytes) : ∀ (L : List Ent) (G : List Lines), Aligned inp G L →
    renderLinesQ G.flatten = encodeBody stripCr inp L
  | [], [], _ => rfl
  | [], g :: G, h => by simp [Aligned] at h
  | e :: L, [], h => by simp [Aligned] at h
  | e :: L, g :: G, h => by
    simp only [Aligned] at h
    rw [List.flatten_cons, renderLinesQ_append, h.1.2.1, aligned_render inp L G h.2, ← encodeBody_cons]

theorem aligned_stmts (inp : Bytes) : ∀ (L : List Ent) (G : List Lines), Aligned inp G L →
    stmtsLinesQ G.flatten = L.map stmtOf
  | [], [], _ => rfl
  | [], g :: G, h => by simp [Aligned] at h
  | e :: L, [], h => by simp [Aligned] at h
  | e :: L, g :: G, h => by
    simp only [Aligned] at h
    rw [List.flatten_cons, stmtsLinesQ_append, h.1.2.2, aligned_stmts inp L G h.2]; rfl

/-- the semantic state just after the header of the current section -/
def hdrState (st : CState) : State.ParseState :=
  { eraseState st with current := (eraseTbl st.current).setItems [] }

/-- the invariant -/
def NInvG (Tv : Bytes → Prop) (inp : Bytes) (st : CState) (s : Bytes) : Prop :=
  ∃ lsPre groups T tr, (∀ p ∈ lsPre, QLine.WF p.1) ∧ Aligned inp groups (valuesTbl st.current.items []) ∧
    T = renderLinesQ (lsPre ++ groups.flatten) ∧
    run {} (stmtsLinesQ lsPre) = some (hdrState st) ∧ bodyOkN st.current.items = true ∧
    PhaseA inp st T ∧ PInvO stripCr inp st ∧ gkItems inp st.root.items ∧
    TrailIs inp.length st.trailing tr s ∧ tr ++ s <:+ inp ∧ Tv tr

theorem phaseA_dotted {inp : Bytes} {st : CState} {T : Bytes} (h : PhaseA inp st T) : st.current.dotted = false := by
  rcases h with ⟨_, _, items, imp, sp, h1, _⟩ | ⟨_, _, items, q, lead, trail, sp, SP, _, h1, _⟩ <;> rw [h1] <;> rfl

/-- the statements of the body lines, run from the state after the header, rebuild the body -/
theorem run_body (st : CState) (hd : st.current.dotted = false) (hb : bodyOkN st.current.items = true) :
    run (hdrState st) ((valuesTbl st.current.items []).map stmtOf) = some (eraseState st) := by
  rw [flat_stmts _ hb []]
  have hf : (fun t : KV => Stmt.kv (keysOf [] ++ t.1) t.2.1 t.2.2) = kvStmt := by
    funext t; simp [kvStmt]
  rw [hf, run_kvs]
  have hr := replay_body st.current.items ((eraseTbl st.current).setItems []) true hb
    (by show (eraseTbl st.current).dotted = _; rw [eraseTbl_dotted, hd]; rfl) (fun x _ => rfl)
  have hc : (hdrState st).current = (eraseTbl st.current).setItems [] := rfl
  rw [hc, hr]
  simp only [Option.map_some, State09.items_setItems, List.nil_append]
  have : ((eraseTbl st.current).setItems []).setItems (mapKv eraseItem st.current.items) = eraseTbl st.current := by
    rw [State09.setItems_setItems, ← eraseTbl_items, setItems_self]
  rw [this]; rfl

theorem ninv_ainv (Tv : Bytes → Prop) (inp : Bytes) (st : CState) (s : Bytes) (h : NInvG Tv inp st s) :
    AInvG Tv inp st s := by
  obtain ⟨lsPre, groups, T, tr, n1, n2, n3, n4, n5, hsh, hP, hg, a7, a8, a9⟩ := h
  refine ⟨lsPre ++ groups.flatten, T, tr, ?_, n3, ?_, hsh, hP, hg, a7, a8, a9⟩
  · intro p hp
    rcases List.mem_append.1 hp with hp | hp
    · exact n1 p hp
    · exact aligned_wf inp _ _ n2 p hp
  · rw [stmtsLinesQ_append, run_append, n4, aligned_stmts inp _ _ n2]
    exact run_body st (phaseA_dotted hsh) n5

theorem hdrState_nil (st : CState) (h : st.current.items = []) : hdrState st = eraseState st := by
  unfold hdrState
  have : (eraseTbl st.current).setItems [] = eraseTbl st.current := by
    have hi : (eraseTbl st.current).items = [] := by rw [eraseTbl_items, h]; rfl
    rw [← hi, setItems_self]
  rw [this]; rfl

theorem ainv_ninv_nil (Tv : Bytes → Prop) (inp : Bytes) (st : CState) (s : Bytes) (h : AInvG Tv inp st s)
    (hnil : st.current.items = []) : NInvG Tv inp st s := by
  obtain ⟨ls, T, tr, a1, a2, a3, hsh, hP, hg, a7, a8, a9⟩ := h
  refine ⟨ls, [], T, tr, a1, by rw [hnil]; simp [valuesTbl, Aligned], by simpa using a2,
    by rw [hdrState_nil st hnil]; exact a3, by rw [hnil]; rfl, hsh, hP, hg, a7, a8, a9⟩

/-! ### trivia -/

theorem ninv_onWs (Tv Tv' : Bytes → Prop) (inp : Bytes) (st : CState) (w s' : Bytes)
    (h : NInvG Tv inp st (w ++ s')) (hext : ∀ tr, Tv tr → Tv' (tr ++ w)) :
    NInvG Tv' inp (onWs st (pos inp.length (w ++ s')) (pos inp.length s')) s' := by
  obtain ⟨e1, e2, e3, e4, e5⟩ := onWs_fields st (pos inp.length (w ++ s')) (pos inp.length s')
  obtain ⟨lsPre, groups, T, tr, n1, n2, n3, n4, n5, a4, a5, a6, a7, a8, a9⟩ := h
  refine ⟨lsPre, groups, T, tr ++ w, n1, by rw [e2]; exact n2, n3, ?_, by rw [e2]; exact n5, ?_, ?_,
    by rw [e1]; exact a6, trailIs_onWs _ st tr w s' a7, by simpa [List.append_assoc] using a8, hext tr a9⟩
  · unfold hdrState; rw [onWs_erase, e2]; exact n4
  · unfold PhaseA; rw [e1, e2, e3, e4]; exact a4
  · unfold PInvO; rw [e1, e2, e3, e5]; exact a5

theorem ninv_consume (Tv Tv' : Bytes → Prop) (inp : Bytes) (st : CState) (s s' : Bytes)
    (h : NInvG Tv inp st s) (hext : ∃ w, s = w ++ s' ∧ ∀ tr, Tv tr → Tv' (tr ++ w)) :
    NInvG Tv' inp (onWs st (pos inp.length s) (pos inp.length s')) s' := by
  obtain ⟨w, hw, he⟩ := hext
  subst hw
  exact ninv_onWs Tv Tv' inp st w s' h he

theorem ninv_parseWs (inp : Bytes) (st : CState) (s : Bytes) (h : NInvG TrivOK inp st s) :
    NInvG TrivOK inp (parseWs inp.length st s).1 (parseWs inp.length st s).2 := by
  obtain ⟨w, hw, e, _⟩ := Sound01.dropWs_split s
  exact ninv_consume TrivOK TrivOK inp st s (dropWs s) h ⟨w, e, fun tr ht => triv_ws tr w ht hw⟩

theorem ninv_parseWs_end (inp : Bytes) (st : CState) (h : NInvG TrivEnd inp st []) :
    NInvG TrivEnd inp (parseWs inp.length st []).1 (parseWs inp.length st []).2 :=
  ninv_consume TrivEnd TrivEnd inp st [] [] h ⟨[], rfl, fun tr ht => by simpa using ht⟩

theorem ninv_end (inp : Bytes) (st : CState) (s : Bytes) (h : NInvG TrivOK inp st s) : NInvG TrivEnd inp st s := by
  obtain ⟨lsPre, groups, T, tr, n1, n2, n3, n4, n5, a4, a5, a6, a7, a8, a9⟩ := h
  exact ⟨lsPre, groups, T, tr, n1, n2, n3, n4, n5, a4, a5, a6, a7, a8, triv_end tr a9⟩

/-! ### the header line -/

/-- after an accepted header line of the class the current table is empty (no take-over) -/
theorem ctableLine_cur_nil (inp : Bytes) (st st' : CState) (s r3 : Bytes)
    (h : ctableLine inp.length st s = some (st', r3)) (hok : hdrLineOkA inp st s = true)
    (hI : AInvG TrivOK inp st s) : st'.current.items = [] := by
  obtain ⟨isArr, r, ks, r2, hsr, hk, hlt, ho⟩ := table_frame _ _ _ _ _ h
  clear h
  obtain ⟨ls, T, tr, a1, a2, a3, hsh, hP, hg, a7, a8, a9⟩ := hI
  have hs : s <:+ inp := (List.suffix_append tr s).trans a8
  have hr : r <:+ inp := (hsr ▸ suffix_of_append _ r).trans hs
  have hksG := ckeyPath_GK inp r _ ks hr hk
  cases isArr with
  | false =>
    simp only [Bool.false_eq_true, if_false] at ho hk hsr ⊢
    unfold onStdHeader at ho
    split at ho
    · rename_i st1 hfin
      obtain ⟨f1, f2, f3, f4, f5, f6, f7, f8, f9, f10⟩ := finalize_A inp st st1 T hfin hsh hP hg
      obtain ⟨pp, key, root', hks, _, hroot, hst'⟩ := startTable_cases _ _ _ _ _ ho
      simp only [] at hroot
      have hsl : splitLast ks = some (pp, key) := by rw [hks]; exact vsplitLast_snoc pp key
      have hpo := hdrLineOkA_use inp st st1 false r _ ks pp key (by simpa [hsr] using hok) hfin hk hsl
      obtain ⟨⟨SP, i1⟩, i2, i3, i4, i5⟩ := start_spineA inp false key (hksG key (by rw [hks]; simp)) pp st1.root root'
        (fun k hk' => hksG k (by rw [hks]; exact List.mem_append_left _ hk')) hpo f10 hroot
      have hft := i5 rfl
      rw [hst']
      simp only [hft, Option.getD_none, f5]
      rfl
    · cases ho
  | true =>
    simp only [if_true] at ho hk hsr ⊢
    unfold onArrayHeader at ho
    split at ho
    · rename_i st1 hfin
      obtain ⟨f1, f2, f3, f4, f5, f6, f7, f8, f9, f10⟩ := finalize_A inp st st1 T hfin hsh hP hg
      obtain ⟨pp, key, root', hks, hroot, hst'⟩ := startArrayTable_cases _ _ _ _ _ ho
      rw [hst']
      simp only [f5]
      rfl
    · cases ho

theorem header_step_N (inp : Bytes) (st st' : CState) (s r3 : Bytes)
    (h : ctableLine inp.length st s = some (st', r3)) (hok : hdrLineOkA inp st s = true)
    (hI : NInvG TrivOK inp st s) : NInvG TrivOK inp st' r3 :=
  ainv_ninv_nil TrivOK inp st' r3 (header_step_A inp st st' s r3 h hok (ninv_ainv TrivOK inp st s hI))
    (ctableLine_cur_nil inp st st' s r3 h hok (ninv_ainv TrivOK inp st s hI))

/-! ### the key/value line -/

theorem kvLineOkN_use (inp : Bytes) (st : CState) (s r1 r2 : Bytes) (ks path : List CKey) (key : CKey)
    (v : CVal) (hok : kvLineOkN inp st s = true) (hk : ckeyPath inp.length s = .ok ks (0x3D :: r1))
    (hv : cvalue inp.length (3 * r1.length + 4) (ks.length - 1) (dropWs r1) = .ok v r2)
    (hsl : splitLast ks = some (path, key)) : dottedOkN st.current path = true := by
  unfold kvLineOkN at hok
  rw [hk] at hok
  simp only [] at hok
  rw [hv] at hok
  simp only [hsl] at hok
  exact hok

/-- the text of the state is a fixed head followed by the current body; the body may be replaced -/
theorem phaseA_body (inp : Bytes) (st : CState) (T : Bytes) (items : Items) (imp : Bool) (p : Option Nat)
    (dec : Decor) (sp : Option Span) (hsh : PhaseA inp st T) (hcur : st.current = .mk items imp false p dec sp) :
    ∃ H, T = H ++ encodeBody stripCr inp (valuesTbl items []) ∧
      ∀ ci sp', bodyOkU ci = true → bodyG inp ci →
        PhaseA inp { st with current := .mk ci imp false p dec sp', trailing := none }
          (H ++ encodeBody stripCr inp (valuesTbl ci [])) := by
  rcases hsh with ⟨b1, b2, items0, imp0, sp0, b3, b4, b5, bT⟩ | ⟨pp, key', items0, q, lead, trail, sp0, SP, b1, b2, b3, b3g, b4, bT⟩
  · rw [hcur] at b3
    injection b3 with e1 e2 e3 e4 e5 e6
    subst e1; subst e2; subst e4; subst e5
    refine ⟨[], by simpa using bT, ?_⟩
    intro ci sp' k2 k2g
    left
    exact ⟨b1, b2, ci, imp, _, rfl, k2, k2g, by simp⟩
  · rw [hcur] at b2
    injection b2 with e1 e2 e3 e4 e5 e6
    subst e1; subst e2; subst e4; subst e5
    refine ⟨rootTextO stripCr inp st.root ++ hdrText stripCr inp (Decor.new lead trail) SP st.currentIsArray, ?_, ?_⟩
    · rw [bT, hcur, entText_explicit]; simp only [List.append_assoc]
    · intro ci sp' k2 k2g
      right
      refine ⟨pp, key', ci, q, lead, trail, _, SP, b1, rfl, k2, k2g, b4, ?_⟩
      simp only []
      rw [entText_explicit]
      simp only [List.append_assoc]

theorem keyval_step_N (inp : Bytes) (st st' : CState) (s r3 : Bytes)
    (h : ckeyvalLine inp.length st s = some (st', r3)) (hok : kvLineOkN inp st s = true)
    (hI : NInvG TrivOK inp st s) : NInvG TrivOK inp st' r3 := by
  obtain ⟨lsPre, groups, T, tr, n1, n2, n3, n4, n5, hsh, hP, hg, a7, a8, a9⟩ := hI
  have hs : s <:+ inp := (List.suffix_append tr s).trans a8
  have hrest := ckeyvalLine_rest inp _ _ _ _ hs h
  obtain ⟨ks, r1, v, r2, path, key, c, hk, hv, hlt, hsl, hd, he⟩ := keyval_frame _ _ _ _ _ h
  have hlim := ckeyvalLine_limit _ _ _ _ _ _ h hk
  clear h
  subst he
  have hdo := kvLineOkN_use inp st s r1 r2 ks path key v hok hk hv hsl
  have hks := vsplitLast_some _ _ _ hsl
  have hksG := ckeyPath_GK inp s _ ks hs hk
  have hpathG : ∀ k ∈ path, GKey inp k := fun k hk' => hksG k (by rw [hks]; exact List.mem_append_left _ hk')
  have hr1' : dropWs r1 <:+ inp :=
    ((Cst03.dropWs_suffix r1).trans ((List.suffix_cons _ r1).trans (ckeyPath_suffix _ _ _ _ hk).1)).trans hs
  obtain ⟨_, _, _, _, hund0, _, _⟩ := cvalue_tiling_dotted id inp (FixOn.id inp) _ _ _ _ _ hr1' hv
  have hund : undotted (kvVal inp.length v r1 r2) = true := by
    unfold kvVal; rw [undotted_setDecor]; exact hund0
  -- the current table
  have hcurshape : ∃ items imp p dec sp, st.current = .mk items imp false p dec sp ∧ bodyOkU items = true ∧
      bodyG inp items := by
    rcases hsh with ⟨_, _, items, imp, sp, h1, h2, h3, _⟩ | ⟨pp, key', items, q, lead, trail, sp, SP, _, h1, h2, h3, _⟩
    · exact ⟨items, imp, none, {}, sp, h1, h2, h3⟩
    · exact ⟨items, false, some q, _, sp, h1, h2, h3⟩
  obtain ⟨items, imp, p, dec, sp, hcur, hbody, hbodyG⟩ := hcurshape
  have hitems : st.current.items = items := by rw [hcur]; rfl
  rw [hitems] at n2 n5
  have hcm := kvCur_mk st (kvVal inp.length v r1 r2) items imp false p dec sp hcur
  have hci : (kvCur st (kvVal inp.length v r1 r2)).items = items := by
    rw [(kvCur_fields st (kvVal inp.length v r1 r2)).1, hcur]; rfl
  have hdo' : dottedOkN (kvCur st (kvVal inp.length v r1 r2)) path = true := by
    rw [dottedOkN_items st.current _ (by rw [hci, hcur]; rfl)]; exact hdo
  obtain ⟨k1, k2, k2n, k2g, X, L1, L2, k3a, k3, k4, k5⟩ := kv_descendN inp (kvFn path (kvKey st key) (kvVal inp.length v r1 r2)) (kvKey st key)
    (kvVal inp.length v r1 r2) hund (fun p p' hp => kvFn_facts _ _ _ _ _ hp) path _ c [] hdo'
    (by rw [hci]; exact hbody) (by rw [hci]; exact n5) (by rw [hci]; exact hbodyG) hpathG hd
  obtain ⟨ci, hci2⟩ : ∃ ci, c.items = ci := ⟨_, rfl⟩
  rw [hci2] at k1 k2 k2n k2g k3
  rw [hci] at k3a
  simp only [List.nil_append] at k3
  have hc' : c = .mk ci imp false p dec (kvCur st (kvVal inp.length v r1 r2)).span := by
    rw [k1]
    conv => lhs; rw [hcm]
    simp [CTbl.setItems, CTbl.dotted, CTbl.implicit, CTbl.pos, CTbl.decor, CTbl.span]
  clear k1
  -- the line
  obtain ⟨tl, line, l1, l2, l3, l4⟩ := kv_line_q inp st s r1 r2 tr ks path X key v hk hv hsl hlim a7 a8 a9 k4 k5
  have hgrp : Grp inp (tl ++ [(line, false)]) (X ++ [kvKey st key], kvVal inp.length v r1 r2) := by
    refine ⟨?_, ?_, ?_⟩
    · intro q hq
      rcases List.mem_append.1 hq with hq | hq
      · exact (l1 q hq).1
      · simp only [List.mem_singleton] at hq; subst hq; exact l2
    · rw [← l4]
      simp only [encodeBody, List.append_assoc, List.append_nil]
    · rw [stmtsLinesQ_append, trivLines_stmts tl l1, stmtOf_snoc]
      simp only [stmtsLinesQ, l3, List.nil_append, k4]
      unfold kvVal
      rw [eraseVal_setDecor]
      rfl
  -- the groups
  rw [k3a] at n2
  obtain ⟨G1, G2, eG, g1, g2⟩ := aligned_split inp L1 L2 groups n2
  have hal : Aligned inp (G1 ++ ([tl ++ [(line, false)]] ++ G2))
      (L1 ++ ([(X ++ [kvKey st key], kvVal inp.length v r1 r2)] ++ L2)) :=
    aligned_append inp _ _ _ _ g1 (aligned_append inp [_] _ [_] _ ⟨hgrp, trivial⟩ g2)
  -- the text
  obtain ⟨H, hT, hph⟩ := phaseA_body inp st T items imp p dec sp hsh hcur
  have hH : renderLinesQ lsPre = H := by
    rw [n3, renderLinesQ_append, aligned_render inp _ _ n2, k3a] at hT
    exact List.append_cancel_right hT
  subst hc'
  refine ⟨lsPre, G1 ++ ([tl ++ [(line, false)]] ++ G2), H ++ encodeBody stripCr inp (valuesTbl ci []), [], n1,
    ?_, ?_, ?_, k2n, hph ci _ k2 k2g, ?_, hg, Or.inl ⟨rfl, rfl⟩, by simpa using hrest.trans hs, triv_nil⟩
  · show Aligned inp _ (valuesTbl ci [])
    rw [k3]; simpa [List.append_assoc] using hal
  · rw [renderLinesQ_append, aligned_render inp _ _ hal, hH, k3]; simp [List.append_assoc]
  · rw [n4]; unfold hdrState eraseState
    simp only [hcur, eraseTbl_mk]
    rfl
  · obtain ⟨p1, p2, p3, p4, p5⟩ := hP
    refine ⟨p1, p2, p3, p4, ?_⟩
    intro hne
    have := p5 hne
    rw [hcur] at this
    exact this

end TomlVerif.Lemmas.Tiling03More.Nad
