import TomlVerif.Lemmas.Tiling03MoreCmtTbl
import TomlVerif.Lemmas.Refine08cParse
/-! C03, "every comment is kept" — the parser side for values: every value the format-preserving
    parser builds satisfies `VD` (the inline tables `table_from_pairs` creates for dotted keys are
    bare: no decor, no preamble, and the path key they are stored under has no leaf decor).
    Same induction over the fuel as `Refine08cParse.lean`. -/
namespace TomlVerif.Lemmas.Tiling03More
open TomlVerif TomlVerif.Spec TomlVerif.Model TomlVerif.Model.Strings TomlVerif.Model.Value
open TomlVerif.Model.Cst TomlVerif.Model.Encode TomlVerif.Lemmas.Cst03
open TomlVerif.Lemmas.Refine08c TomlVerif.Lemmas.Spans14

/-! ### keys: only the last key of a path carries a leaf decor -/

def LeafBare (ks : List CKey) : Prop := ∀ k ∈ ks, k.leaf = {}

theorem LeafBare.snoc {l : List CKey} {k : CKey} (hl : LeafBare l) (hk : k.leaf = {}) : LeafBare (l ++ [k]) := by
  intro x hx
  rcases List.mem_append.1 hx with hx | hx
  · exact hl x hx
  · simp only [List.mem_singleton] at hx; subst hx; exact hk

theorem ckeyPathAux_leaf (n : Nat) : ∀ (fuel : Nat) (s : Bytes) (acc ks : List CKey) (r : Bytes),
    ckeyPathAux n fuel s acc = .ok ks r → LeafBare acc → LeafBare ks := by
  intro fuel
  induction fuel with
  | zero => intro s acc ks r h; unfold ckeyPathAux at h; cases h
  | succ fuel ih =>
    intro s acc ks r h hacc
    unfold ckeyPathAux at h
    simp only [] at h
    split at h
    · rename_i k r0 hk
      obtain ⟨ck, hck, hleaf⟩ : ∃ ck : CKey, ck = CKey.mk k (rawBetween n (dropWs s) r0) {}
          (Decor.new (rawBetween n s (dropWs s)) (rawBetween n r0 (dropWs r0))) ∧ ck.leaf = {} := ⟨_, rfl, rfl⟩
      rw [← hck] at h
      have hacc' : LeafBare (acc ++ [ck]) := hacc.snoc hleaf
      split at h
      · rename_i r2 heq
        split at h
        · injection h with h1 h2; subst h1; exact hacc'
        · rename_i other hne
          cases hres : ckeyPathAux n fuel r2 (acc ++ [ck]) with
          | bt => exact absurd hres (by simpa using hne)
          | cut => rw [hres] at h; cases h
          | ok ks' r' =>
            rw [hres] at h
            injection h with h1 h2; subst h1
            exact ih _ _ _ _ hres hacc'
      · injection h with h1 h2; subst h1; exact hacc'
    · cases h
    · cases h

theorem takePre_leaf (k : CKey) : (takePre k).2.leaf = k.leaf := by
  unfold takePre
  split <;> rfl

theorem fixLeaf_path_leaf (ks : List CKey) (h : LeafBare ks) (path : List CKey) (key : CKey)
    (hs : Value.splitLast (fixLeaf ks) = some (path, key)) : LeafBare path := by
  cases ks with
  | nil => simp [fixLeaf, Value.splitLast] at hs
  | cons first rest =>
    rw [fixLeaf_cons] at hs
    have hall : LeafBare ((takePre first).2 :: rest) := by
      intro x hx
      rcases List.mem_cons.1 hx with hx | hx
      · subst hx; rw [takePre_leaf]; exact h first (by simp)
      · exact h x (List.mem_cons_of_mem _ hx)
    split at hs
    · have e := splitLast_some _ _ _ hs
      intro x hx
      exact hall x (by rw [e]; exact List.mem_append_left _ hx)
    · rename_i init last hsl
      have e := splitLast_some _ _ _ hsl
      rw [Tiling03Hdr.vsplitLast_snoc] at hs
      injection hs with hs
      injection hs with h1 h2
      subst h1
      intro x hx
      exact hall x (by rw [e]; exact List.mem_append_left _ hx)

theorem ckeyPath_path_leaf (n : Nat) (s r : Bytes) (ks path : List CKey) (key : CKey)
    (h : ckeyPath n s = .ok ks r) (hs : Value.splitLast ks = some (path, key)) : LeafBare path := by
  unfold ckeyPath at h
  cases hk : ckeyPathAux n (s.length + 1) s [] with
  | ok ks0 r0 =>
    rw [hk] at h
    simp only [] at h
    split at h
    · cases h
    · injection h with h1 h2; subst h1
      exact fixLeaf_path_leaf ks0 (ckeyPathAux_leaf n _ _ _ _ _ hk (fun _ hx => by cases hx)) path key hs
  | bt => rw [hk] at h; cases h
  | cut => rw [hk] at h; cases h

/-! ### entry lists of inline tables -/

/-- `KvsD` as a statement about the members -/
def KvsD' (l : List (CKey × CVal)) : Prop := ∀ kv ∈ l, DotBare kv.1 kv.2 ∧ VD kv.2

theorem KvsD_iff : ∀ l : List (CKey × CVal), KvsD l ↔ KvsD' l
  | [] => by simp [KvsD, KvsD']
  | (k, v) :: r => by
    rw [KvsD, KvsD_iff r]
    simp [KvsD']

theorem VsD_iff : ∀ l : List CVal, VsD l ↔ ∀ v ∈ l, VD v
  | [] => by simp [VsD]
  | v :: r => by rw [VsD, VsD_iff r]; simp

theorem KvsD'.nil : KvsD' [] := by intro kv h; cases h

theorem KvsD'.snoc {l : List (CKey × CVal)} {k : CKey} {v : CVal} (hl : KvsD' l) (hb : DotBare k v) (hv : VD v) :
    KvsD' (l ++ [(k, v)]) := by
  intro kv h
  rcases List.mem_append.1 h with h | h
  · exact hl kv h
  · simp only [List.mem_singleton] at h; subst h; exact ⟨hb, hv⟩

theorem KvsD'.lookup {l : List (CKey × CVal)} {k : Bytes} {v : CVal} (h : KvsD' l) (hl : clookup k l = some v) : VD v := by
  induction l with
  | nil => simp [clookup] at hl
  | cons kv r ih =>
    obtain ⟨k', v'⟩ := kv
    unfold clookup at hl
    split at hl
    · injection hl with hl; subst hl; exact (h (k', v') (by simp)).2
    · exact ih (fun x hx => h x (List.mem_cons_of_mem _ hx)) hl

theorem KvsD'.creplace : ∀ (l : List (CKey × CVal)) (k : Bytes) (v0 v : CVal), KvsD' l → clookup k l = some v0 →
    VD v → (∀ k', DotBare k' v0 → DotBare k' v) → KvsD' (creplace k v l)
  | [], _, _, _, _, hl, _, _ => by simp [clookup] at hl
  | (k', v') :: r, k, v0, v, h, hl, hv, hb => by
    unfold clookup at hl
    unfold Cst.creplace
    split at hl
    · rename_i hk
      injection hl with hl; subst hl
      rw [if_pos hk]
      intro kv hkv
      rcases List.mem_cons.1 hkv with hkv | hkv
      · subst hkv; exact ⟨hb k' (h (k', v') (by simp)).1, hv⟩
      · exact h kv (List.mem_cons_of_mem _ hkv)
    · rename_i hk
      rw [if_neg hk]
      intro kv hkv
      rcases List.mem_cons.1 hkv with hkv | hkv
      · subst hkv; exact h (k', v') (by simp)
      · exact KvsD'.creplace r k v0 v (fun x hx => h x (List.mem_cons_of_mem _ hx)) hl hv hb kv hkv

theorem DotBare_of_notDotted (k : CKey) (v : CVal) (h : notDottedInl v = true) : DotBare k v := by
  cases v with
  | scalar _ _ _ => trivial
  | arr _ _ _ _ _ => trivial
  | inl sub pre imp dot dec sp =>
    have : dot = false := by simpa [notDottedInl] using h
    subst this
    intro hh; cases hh

theorem VD_setDecor (v : CVal) (d : Decor) : VD (v.setDecor d) ↔ VD v := by
  cases v <;> simp [CVal.setDecor, VD]

/-! ### `table_from_pairs` -/

theorem cinlInsert_D : ∀ (path : List CKey) (items : List (CKey × CVal)) (tblDotted pathEmpty : Bool)
    (key : CKey) (v : CVal) (items' : List (CKey × CVal)),
    cinlInsert items tblDotted path pathEmpty key v = some items' →
    KvsD' items → VD v → notDottedInl v = true → LeafBare path → KvsD' items' := by
  intro path
  induction path with
  | nil =>
    intro items tblDotted pathEmpty key v items' h hit hv hnd _
    unfold cinlInsert at h
    split at h
    · cases h
    · split at h
      · cases h
      · injection h with h; subst h
        exact hit.snoc (DotBare_of_notDotted key v hnd) hv
  | cons k ks ih =>
    intro items tblDotted pathEmpty key v items' h hit hv hnd hpath
    have hks : LeafBare ks := fun x hx => hpath x (List.mem_cons_of_mem _ hx)
    unfold cinlInsert at h
    split at h
    · split at h
      · rename_i sub hsub
        injection h with h; subst h
        have hs := ih _ _ _ _ _ _ hsub KvsD'.nil hv hnd hks
        refine hit.snoc ?_ ?_
        · intro _
          exact ⟨hpath k (by simp), rfl, rfl⟩
        · simp only [newDottedInl, VD]
          exact (KvsD_iff _).2 hs
      · cases h
    · rename_i sub pre imp dot dec sp hl
      split at h
      · cases h
      · split at h
        · rename_i sub' hsub
          injection h with h; subst h
          have hx : VD (.inl sub pre imp dot dec sp) := hit.lookup hl
          simp only [VD] at hx
          have hsub' := ih _ _ _ _ _ _ hsub ((KvsD_iff _).1 hx) hv hnd hks
          refine KvsD'.creplace _ _ _ _ hit hl ?_ ?_
          · simp only [VD]; exact (KvsD_iff _).2 hsub'
          · intro k' hb; exact hb
        · cases h
    · cases h

def PairsD (l : List (List CKey × CKey × CVal)) : Prop :=
  ∀ x ∈ l, VD x.2.2 ∧ notDottedInl x.2.2 = true ∧ LeafBare x.1

theorem ctableFromPairs_D : ∀ (kvs : List (List CKey × CKey × CVal)) (acc items : List (CKey × CVal)),
    ctableFromPairs kvs acc = some items → PairsD kvs → KvsD' acc → KvsD' items := by
  intro kvs
  induction kvs with
  | nil =>
    intro acc items h _ hacc
    simp [ctableFromPairs] at h
    subst h
    exact hacc
  | cons x rest ih =>
    intro acc items h hn hacc
    obtain ⟨path, key, v⟩ := x
    unfold ctableFromPairs at h
    split at h
    · rename_i acc' hins
      have hx := hn (path, key, v) (by simp)
      exact ih _ _ h (fun y hy => hn y (List.mem_cons_of_mem _ hy))
        (cinlInsert_D _ _ _ _ _ _ _ hins hacc hx.1 hx.2.1 hx.2.2)
    · cases h

/-! ### the value-level induction -/

def D1 (n fuel : Nat) : Prop := ∀ d s v r, cvalue n fuel d s = .ok v r → VD v

def D2 (n fuel : Nat) : Prop :=
  ∀ d s vs comma tr r, carrayValues n fuel d s = .ok (vs, comma, tr) r → VsD vs

def D3 (n fuel : Nat) : Prop :=
  ∀ d s acc vs r, carrayElems n fuel d s acc = .ok vs r → VsD acc → VsD vs

def D4 (n fuel : Nat) : Prop :=
  ∀ d s acc kvs r, cinlineKeyvals n fuel d s acc = .ok kvs r → PairsD acc → PairsD kvs

theorem VsD_snoc {l : List CVal} {v : CVal} (hl : VsD l) (hv : VD v) : VsD (l ++ [v]) := by
  rw [VsD_iff] at hl ⊢
  intro y hy
  rcases List.mem_append.1 hy with hy | hy
  · exact hl y hy
  · simp only [List.mem_singleton] at hy; subst hy; exact hv

theorem dstep1 (n fuel : Nat) (ih2 : D2 n fuel) (ih4 : D4 n fuel) : D1 n (fuel + 1) := by
  intro d s v r h
  unfold cvalue at h
  split at h
  · cases h
  · rename_i b r0
    split at h
    · split at h
      · cases h
      · split at h
        · rename_i vs comma tr r1 hav
          have hvs := ih2 _ _ _ _ _ _ hav
          split at h
          · injection h with h1 h2; subst h1
            simp only [VD]
            exact hvs
          · cases h
        · cases h
    · split at h
      · split at h
        · cases h
        · split at h
          · rename_i kvs r1 hkv
            have hk := ih4 _ _ _ _ _ hkv (by intro x hx; cases hx)
            simp only [] at h
            split at h
            · cases h
            · rename_i items hitems
              split at h
              · injection h with h1 h2; subst h1
                simp only [VD]
                exact (KvsD_iff _).2 (ctableFromPairs_D _ _ _ hitems hk KvsD'.nil)
              · cases h
          · cases h
      · split at h
        · rename_i v0 r1 hv
          injection h with h1 h2; subst h1
          simp only [VD]
        · cases h
        · cases h

theorem dstep2 (n fuel : Nat) (ih3 : D3 n fuel) : D2 n (fuel + 1) := by
  intro d s vs comma tr r h
  unfold carrayValues at h
  split at h
  · injection h with h1 h2
    injection h1 with h1 h3; subst h1
    trivial
  · split at h
    · rename_i vs0 r0 hel
      have hvs := ih3 _ _ _ _ _ hel trivial
      split at h
      rename_i comma0 r1 heq
      split at h
      · injection h with h1 h2
        injection h1 with h1 h3; subst h1
        exact hvs
      · cases h
    · cases h
    · cases h

theorem dstep3 (n fuel : Nat) (ih1 : D1 n fuel) (ih3 : D3 n fuel) : D3 n (fuel + 1) := by
  intro d s acc vs r h hacc
  have reset : ∀ {vs r}, (Res.ok acc s : Res (List CVal)) = Res.ok vs r → VsD vs := by
    intro vs r h
    injection h with h1 h2; subst h1; exact hacc
  unfold carrayElems at h
  split at h
  · exact reset h
  · rename_i s1 hw1
    split at h
    · cases h
    · exact reset h
    · rename_i v s2 hv
      have hvv := ih1 _ _ _ _ hv
      split at h
      · exact reset h
      · rename_i s3 hw2
        simp only [] at h
        generalize hv' : v.setDecor (Decor.new (rawBetween n s s1) (rawBetween n s2 s3)) = v' at h
        have hn' : VD v' := by rw [← hv', VD_setDecor]; exact hvv
        have hacc' := VsD_snoc hacc hn'
        split at h
        · split at h
          · rename_i vs' r' hrec
            have hrec' := ih3 _ _ _ _ _ hrec hacc'
            split at h
            · injection h with h1 h2; subst h1; exact hrec'
            · injection h with h1 h2; subst h1; exact hrec'
          · rename_i hne
            exact absurd h (hne _ _)
        · injection h with h1 h2; subst h1
          exact hacc'

theorem dstep4 (n fuel : Nat) (ih1 : D1 n fuel) (ih4 : D4 n fuel) : D4 n (fuel + 1) := by
  intro d s acc kvs r h hacc
  unfold cinlineKeyvals at h
  split at h
  · cases h
  · injection h with h1 h2; subst h1; exact hacc
  · rename_i ks r0 hk
    split at h
    · cases h
    · split at h
      · rename_i r1
        simp only [] at h
        split at h
        · rename_i v r2 hv
          have hvv := ih1 _ _ _ _ hv
          have hnd := cvalue_notDotted _ _ _ _ _ _ hv
          generalize hv' : v.setDecor (Decor.new (rawBetween n r1 (dropWs r1)) (rawBetween n r2 (dropWs r2))) = v' at h
          have hn' : VD v' := by rw [← hv', VD_setDecor]; exact hvv
          have hnd' : notDottedInl v' = true := by rw [← hv', notDottedInl_setDecor]; exact hnd
          split at h
          · cases h
          · rename_i path key hsl
            have hpath := ckeyPath_path_leaf _ _ _ _ _ _ hk hsl
            have hacc' : PairsD (acc ++ [(path, key, v')]) := by
              intro x hx
              rcases List.mem_append.1 hx with hx | hx
              · exact hacc x hx
              · simp only [List.mem_singleton] at hx; subst hx; exact ⟨hn', hnd', hpath⟩
            split at h
            · split at h
              · rename_i kvs' r5 hrec
                have hrec' := ih4 _ _ _ _ _ hrec hacc'
                split at h
                · injection h with h1 h2; subst h1; exact hrec'
                · injection h with h1 h2; subst h1; exact hrec'
              · rename_i hne
                exact absurd h (hne _ _)
            · injection h with h1 h2; subst h1
              exact hacc'
        · cases h
      · cases h

theorem dmain (n : Nat) : ∀ fuel : Nat, D1 n fuel ∧ D2 n fuel ∧ D3 n fuel ∧ D4 n fuel := by
  intro fuel
  induction fuel with
  | zero =>
    refine ⟨?_, ?_, ?_, ?_⟩
    · intro d s v r h; unfold cvalue at h; cases h
    · intro d s vs comma tr r h; unfold carrayValues at h; cases h
    · intro d s acc vs r h; unfold carrayElems at h; cases h
    · intro d s acc kvs r h; unfold cinlineKeyvals at h; cases h
  | succ fuel ih =>
    obtain ⟨ih1, ih2, ih3, ih4⟩ := ih
    exact ⟨dstep1 n fuel ih2 ih4, dstep2 n fuel ih3, dstep3 n fuel ih1 ih3, dstep4 n fuel ih1 ih4⟩

/-- **every value the parser builds: the inline tables created for dotted keys are bare** -/
theorem cvalue_VD (n fuel d : Nat) (s r : Bytes) (v : CVal) (h : cvalue n fuel d s = .ok v r) : VD v :=
  (dmain n fuel).1 d s v r h

end TomlVerif.Lemmas.Tiling03More
