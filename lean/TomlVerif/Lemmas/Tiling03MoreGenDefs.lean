import TomlVerif.Lemmas.Tiling03MoreNadMain
import TomlVerif.Lemmas.Tiling03MoreTkoMain
/-! C03, same data — the join of the take-over class and the non-adjacent class: `genRun` = the
    header check of `tkoRun` (`hdrLineOkT`) + the key/value check of `nadRun` (`kvLineOkN`).
    Inclusions `nadRun ⊆ genRun`, `tkoRun ⊆ genRun`. -/
namespace TomlVerif.Lemmas.Tiling03More.Gen
open TomlVerif TomlVerif.Spec TomlVerif.Model TomlVerif.Model.Strings TomlVerif.Model.Value
open TomlVerif.Model.Cst TomlVerif.Model.Encode TomlVerif.Lemmas.Suffix03 TomlVerif.Lemmas.Cst03
open TomlVerif.Lemmas.LastByte03 TomlVerif.Lemmas.Tiling03 TomlVerif.Lemmas.Tiling03Hdr
open TomlVerif.Lemmas.Tiling03Nest TomlVerif.Lemmas.Tiling03More TomlVerif.Lemmas.Tiling03More.Tko

def runOkG (inp : Bytes) : Nat → CState → Bytes → Bool
  | 0, _, _ => true
  | fuel + 1, st, s =>
    let n := inp.length
    match s with
    | [] => true
    | b :: r =>
      if b == 0x23 then
        let r1 := dropComment r
        match r1 with
        | [] => true
        | _ => match newline? r1 with
          | some r2 =>
            let (st', r3) := parseWs n (onWs st (pos n s) (pos n r2)) r2
            runOkG inp fuel st' r3
          | none => true
      else if b == 0x5B then
        hdrLineOkT inp st s &&
        (match ctableLine n st s with
         | some (st', r1) =>
           let (st'', r2) := parseWs n st' r1
           runOkG inp fuel st'' r2
         | none => true)
      else if b == 0x0A || b == 0x0D then
        match newline? s with
        | some r1 =>
          let (st', r2) := parseWs n (onWs st (pos n s) (pos n r1)) r1
          runOkG inp fuel st' r2
        | none => true
      else
        kvLineOkN inp st s &&
        (match ckeyvalLine n st s with
         | some (st', r1) =>
           let (st'', r2) := parseWs n st' r1
           runOkG inp fuel st'' r2
         | none => true)

/-- the class: take-over headers, dotted keys in any order -/
def genRun (s : Bytes) : Bool :=
  let n := s.length
  let s0 := Doc.stripBom s
  let (st0, s1) := parseWs n {} s0
  runOkG s (s1.length + 1) st0 s1

theorem runOkN_G (inp : Bytes) : ∀ (fuel : Nat) (st : CState) (s : Bytes),
    runOkN inp fuel st s = true → runOkG inp fuel st s = true := by
  intro fuel
  induction fuel with
  | zero => intro st s _; unfold runOkG; rfl
  | succ fuel ih =>
    intro st s h
    unfold runOkN at h
    unfold runOkG
    cases s with
    | nil => rfl
    | cons b r =>
      simp only [] at h ⊢
      by_cases hb1 : (b == 0x23) = true
      · simp only [hb1, if_true] at h ⊢
        cases hdc : dropComment r with
        | nil => simp only []
        | cons c1 r1 =>
          simp only [hdc] at h ⊢
          cases hnl : newline? (c1 :: r1) with
          | none => simp only []
          | some r2 =>
            simp only [hnl] at h ⊢
            exact ih _ _ h
      · simp only [hb1, Bool.false_eq_true, if_false] at h ⊢
        by_cases hb2 : (b == 0x5B) = true
        · simp only [hb2, if_true, Bool.and_eq_true] at h ⊢
          refine ⟨hdrLineOkA_T inp st _ h.1, ?_⟩
          cases hl : ctableLine inp.length st (b :: r) with
          | none => simp only []
          | some pr =>
            obtain ⟨st', r1⟩ := pr
            have h2 := h.2
            simp only [hl] at h2 ⊢
            exact ih _ _ h2
        · simp only [hb2, Bool.false_eq_true, if_false] at h ⊢
          by_cases hb3 : (b == 0x0A || b == 0x0D) = true
          · simp only [hb3, if_true] at h ⊢
            cases hnl : newline? (b :: r) with
            | none => simp only []
            | some r1 =>
              simp only [hnl] at h ⊢
              exact ih _ _ h
          · simp only [hb3, Bool.false_eq_true, if_false, Bool.and_eq_true] at h ⊢
            refine ⟨h.1, ?_⟩
            cases hl : ckeyvalLine inp.length st (b :: r) with
            | none => simp only []
            | some pr =>
              obtain ⟨st', r1⟩ := pr
              have h2 := h.2
              simp only [hl] at h2 ⊢
              exact ih _ _ h2

theorem runOkT_G (inp : Bytes) : ∀ (fuel : Nat) (st : CState) (s : Bytes),
    runOkT inp fuel st s = true → runOkG inp fuel st s = true := by
  intro fuel
  induction fuel with
  | zero => intro st s _; unfold runOkG; rfl
  | succ fuel ih =>
    intro st s h
    unfold runOkT at h
    unfold runOkG
    cases s with
    | nil => rfl
    | cons b r =>
      simp only [] at h ⊢
      by_cases hb1 : (b == 0x23) = true
      · simp only [hb1, if_true] at h ⊢
        cases hdc : dropComment r with
        | nil => simp only []
        | cons c1 r1 =>
          simp only [hdc] at h ⊢
          cases hnl : newline? (c1 :: r1) with
          | none => simp only []
          | some r2 =>
            simp only [hnl] at h ⊢
            exact ih _ _ h
      · simp only [hb1, Bool.false_eq_true, if_false] at h ⊢
        by_cases hb2 : (b == 0x5B) = true
        · simp only [hb2, if_true, Bool.and_eq_true] at h ⊢
          refine ⟨h.1, ?_⟩
          cases hl : ctableLine inp.length st (b :: r) with
          | none => simp only []
          | some pr =>
            obtain ⟨st', r1⟩ := pr
            have h2 := h.2
            simp only [hl] at h2 ⊢
            exact ih _ _ h2
        · simp only [hb2, Bool.false_eq_true, if_false] at h ⊢
          by_cases hb3 : (b == 0x0A || b == 0x0D) = true
          · simp only [hb3, if_true] at h ⊢
            cases hnl : newline? (b :: r) with
            | none => simp only []
            | some r1 =>
              simp only [hnl] at h ⊢
              exact ih _ _ h
          · simp only [hb3, Bool.false_eq_true, if_false, Bool.and_eq_true] at h ⊢
            refine ⟨kvLineOkA_N inp st _ h.1, ?_⟩
            cases hl : ckeyvalLine inp.length st (b :: r) with
            | none => simp only []
            | some pr =>
              obtain ⟨st', r1⟩ := pr
              have h2 := h.2
              simp only [hl] at h2 ⊢
              exact ih _ _ h2

theorem nadRun_G (s : Bytes) (h : nadRun s = true) : genRun s = true := by
  unfold nadRun at h
  unfold genRun
  simp only [] at h ⊢
  exact runOkN_G s _ _ _ h

theorem tkoRun_G (s : Bytes) (h : tkoRun s = true) : genRun s = true := by
  unfold tkoRun at h
  unfold genRun
  simp only [] at h ⊢
  exact runOkT_G s _ _ _ h

end TomlVerif.Lemmas.Tiling03More.Gen
