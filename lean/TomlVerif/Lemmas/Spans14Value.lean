import TomlVerif.Lemmas.Spans14Keys
/-! C14: span bounds and nesting for ALL values (scalars, arrays, inline tables) produced by the
    format-preserving value parser. -/
namespace TomlVerif.Lemmas.Spans14
open TomlVerif TomlVerif.Spec TomlVerif.Model TomlVerif.Model.Strings TomlVerif.Model.Value
open TomlVerif.Model.Cst TomlVerif.Lemmas.Cst03

/-! ### key/value lists: element-wise predicates -/

/-- every entry of an `IndexMap<Key, _>` has a good key and a good value -/
def AllKV {α} (PK : CKey → Prop) (PV : α → Prop) (l : List (CKey × α)) : Prop :=
  ∀ kv ∈ l, PK kv.1 ∧ PV kv.2

section AllKV
variable {α : Type} {PK : CKey → Prop} {PV : α → Prop}

theorem AllKV.nil : AllKV PK PV ([] : List (CKey × α)) := by intro kv h; cases h

theorem AllKV.cons {k : CKey} {v : α} {l : List (CKey × α)} :
    AllKV PK PV ((k, v) :: l) ↔ (PK k ∧ PV v) ∧ AllKV PK PV l := by
  simp [AllKV]

theorem AllKV.append {a b : List (CKey × α)} (ha : AllKV PK PV a) (hb : AllKV PK PV b) :
    AllKV PK PV (a ++ b) := by
  intro kv h
  rcases List.mem_append.1 h with h | h
  · exact ha kv h
  · exact hb kv h

theorem AllKV.single {k : CKey} {v : α} (hk : PK k) (hv : PV v) : AllKV PK PV [(k, v)] := by
  intro kv h
  simp at h
  subst h
  exact ⟨hk, hv⟩

theorem AllKV.lookup {l : List (CKey × α)} {k : Bytes} {v : α} (h : AllKV PK PV l)
    (hl : clookup k l = some v) : PV v := by
  induction l with
  | nil => simp [clookup] at hl
  | cons kv r ih =>
    obtain ⟨k', v'⟩ := kv
    rw [AllKV.cons] at h
    unfold clookup at hl
    split at hl
    · injection hl with hl; subst hl; exact h.1.2
    · exact ih h.2 hl

theorem AllKV.creplace {l : List (CKey × α)} {k : Bytes} {v : α} (h : AllKV PK PV l) (hv : PV v) :
    AllKV PK PV (creplace k v l) := by
  induction l with
  | nil => exact AllKV.nil
  | cons kv r ih =>
    obtain ⟨k', v'⟩ := kv
    rw [AllKV.cons] at h
    unfold Cst.creplace
    split
    · rw [AllKV.cons]; exact ⟨⟨h.1.1, hv⟩, h.2⟩
    · rw [AllKV.cons]; exact ⟨h.1, ih h.2⟩

theorem AllKV.cset {l : List (CKey × α)} {k : CKey} {v : α} (h : AllKV PK PV l) (hk : PK k) (hv : PV v) :
    AllKV PK PV (cset k v l) := by
  unfold Cst.cset
  split
  · exact h.creplace hv
  · exact h.append (AllKV.single hk hv)

theorem AllKV.cerase {l : List (CKey × α)} {k : Bytes} (h : AllKV PK PV l) :
    AllKV PK PV (cerase k l) := by
  induction l with
  | nil => exact AllKV.nil
  | cons kv r ih =>
    obtain ⟨k', v'⟩ := kv
    rw [AllKV.cons] at h
    unfold Cst.cerase
    split
    · exact h.2
    · rw [AllKV.cons]; exact ⟨h.1, ih h.2⟩

theorem AllKV.imp {PK' : CKey → Prop} {PV' : α → Prop} {l : List (CKey × α)} (h : AllKV PK PV l)
    (hk : ∀ k, PK k → PK' k) (hv : ∀ v, PV v → PV' v) : AllKV PK' PV' l :=
  fun kv hm => ⟨hk _ (h kv hm).1, hv _ (h kv hm).2⟩

end AllKV

/-! ### nesting -/

mutual
/-- everything recorded inside an array or inline table lies inside its `span`; tables created for
    dotted keys (`implicit`) carry no span -/
def NestV : CVal → Prop
  | .scalar _ _ _ => True
  | .arr items t _ _ sp => (∀ e, sp = some e → AllW e.1 e.2 (elemsSpans items ++ rawSp t)) ∧ NestVs items
  | .inl items p imp _ _ sp =>
    (imp = true → sp = none) ∧ (∀ e, sp = some e → AllW e.1 e.2 (kvsSpans items ++ rawSp p)) ∧ NestKvs items
def NestVs : List CVal → Prop
  | [] => True
  | v :: r => NestV v ∧ NestVs r
def NestKvs : List (CKey × CVal) → Prop
  | [] => True
  | (_, v) :: r => NestV v ∧ NestKvs r
end

theorem NestVs_append (a b : List CVal) : NestVs (a ++ b) ↔ NestVs a ∧ NestVs b := by
  induction a with
  | nil => simp [NestVs]
  | cons v r ih => simp [NestVs, ih, and_assoc]

theorem NestVs_iff (l : List CVal) : NestVs l ↔ ∀ v ∈ l, NestV v := by
  induction l with
  | nil => simp [NestVs]
  | cons v r ih => simp [NestVs, ih]

theorem NestKvs_iff (l : List (CKey × CVal)) : NestKvs l ↔ AllKV (fun _ => True) NestV l := by
  induction l with
  | nil => simp [NestKvs, AllKV]
  | cons kv r ih => obtain ⟨k, v⟩ := kv; rw [AllKV.cons]; simp [NestKvs, ih]

theorem NestV_setDecor (v : CVal) (d : Decor) : NestV (v.setDecor d) ↔ NestV v := by
  cases v <;> simp [CVal.setDecor, NestV]

/-! ### span lists -/

theorem elemsSpans_append (a b : List CVal) : elemsSpans (a ++ b) = elemsSpans a ++ elemsSpans b := by
  induction a with
  | nil => rfl
  | cons v r ih => simp [elemsSpans, ih]

theorem kvsSpans_allW (lo hi : Nat) (l : List (CKey × CVal)) :
    AllW lo hi (kvsSpans l) ↔ AllKV (fun k => AllW lo hi (keySpans k)) (fun v => AllW lo hi (valSpans v)) l := by
  induction l with
  | nil => simp [kvsSpans, AllKV, AllW]
  | cons kv r ih =>
    obtain ⟨k, v⟩ := kv
    rw [AllKV.cons, ← ih]
    simp only [kvsSpans]
    constructor
    · intro h; exact ⟨⟨h.left.left, h.left.right⟩, h.right⟩
    · intro h; exact AllW.append (AllW.append h.1.1 h.1.2) h.2

theorem span_mem_valSpans (v : CVal) (e : Span) (h : v.span = some e) : e ∈ valSpans v := by
  cases v with
  | scalar x r d =>
    cases r with
    | empty => simp [CVal.span, Raw.span] at h
    | spanned a b => simp [CVal.span, Raw.span] at h; subst h; simp [valSpans, rawSp]
  | arr i t c d s => simp [CVal.span] at h; subst h; simp [valSpans, optSp]
  | inl i p im dt d s => simp [CVal.span] at h; subst h; simp [valSpans, optSp]

theorem valSpans_setDecor_allW {lo hi : Nat} (v : CVal) (d : Decor) (h : v.decor = emptyDecor)
    (hv : AllW lo hi (valSpans v)) (hd : AllW lo hi (decorSp d)) : AllW lo hi (valSpans (v.setDecor d)) := by
  intro sp hm
  rcases valSpans_setDecor v d h sp hm with hm | hm
  · exact hv sp hm
  · exact hd sp hm

/-- the spans of the pairs an inline table's `separated` list collects -/
def pairsSpans : List (List CKey × CKey × CVal) → List Span
  | [] => []
  | (path, key, v) :: r => keysSpans path ++ keySpans key ++ valSpans v ++ pairsSpans r

def NestPairs : List (List CKey × CKey × CVal) → Prop
  | [] => True
  | (_, _, v) :: r => NestV v ∧ NestPairs r

theorem pairsSpans_append (a b : List (List CKey × CKey × CVal)) :
    pairsSpans (a ++ b) = pairsSpans a ++ pairsSpans b := by
  induction a with
  | nil => rfl
  | cons v r ih => obtain ⟨p, k, v⟩ := v; simp [pairsSpans, ih]

theorem NestPairs_append (a b : List (List CKey × CKey × CVal)) :
    NestPairs (a ++ b) ↔ NestPairs a ∧ NestPairs b := by
  induction a with
  | nil => simp [NestPairs]
  | cons v r ih => obtain ⟨p, k, v⟩ := v; simp [NestPairs, ih, and_assoc]

/-! ### `table_from_pairs` -/

/-- a good inline-table body: all spans in range, all values nested -/
def KvsOK (lo hi : Nat) (l : List (CKey × CVal)) : Prop :=
  AllKV (fun k => AllW lo hi (keySpans k)) (fun v => AllW lo hi (valSpans v) ∧ NestV v) l

theorem KvsOK_iff (lo hi : Nat) (l : List (CKey × CVal)) :
    KvsOK lo hi l ↔ AllW lo hi (kvsSpans l) ∧ NestKvs l := by
  rw [kvsSpans_allW, NestKvs_iff]
  constructor
  · intro h
    exact ⟨h.imp (fun _ x => x) (fun _ x => x.1), h.imp (fun _ _ => trivial) (fun _ x => x.2)⟩
  · intro h kv hm
    exact ⟨(h.1 kv hm).1, (h.1 kv hm).2, (h.2 kv hm).2⟩

theorem newDottedInl_ok {lo hi : Nat} {sub : List (CKey × CVal)} (h : KvsOK lo hi sub) :
    AllW lo hi (valSpans (newDottedInl sub)) ∧ NestV (newDottedInl sub) := by
  rw [KvsOK_iff] at h
  constructor
  · simp only [newDottedInl, valSpans, rawSp, decorSp_default, optSp, List.append_nil]
    exact h.1
  · simp only [newDottedInl, NestV]
    refine ⟨by first | trivial | (intro _; rfl), ?_, h.2⟩
    intro e he; cases he

theorem cinlInsert_ok {lo hi : Nat} : ∀ (path : List CKey) (items : List (CKey × CVal)) (tblDotted pathEmpty : Bool)
    (key : CKey) (v : CVal) (items' : List (CKey × CVal)),
    cinlInsert items tblDotted path pathEmpty key v = some items' →
    KvsOK lo hi items → AllW lo hi (keysSpans path) → AllW lo hi (keySpans key) →
    AllW lo hi (valSpans v) → NestV v → KvsOK lo hi items' := by
  intro path
  induction path with
  | nil =>
    intro items tblDotted pathEmpty key v items' h hit _ hkey hv hn
    unfold cinlInsert at h
    split at h
    · cases h
    · split at h
      · cases h
      · injection h with h; subst h
        exact hit.append (AllKV.single hkey ⟨hv, hn⟩)
  | cons k ks ih =>
    intro items tblDotted pathEmpty key v items' h hit hpath hkey hv hn
    simp only [keysSpans] at hpath
    unfold cinlInsert at h
    split at h
    · split at h
      · rename_i sub hsub
        injection h with h; subst h
        have := ih _ _ _ _ _ _ hsub AllKV.nil hpath.right hkey hv hn
        exact hit.append (AllKV.single hpath.left (newDottedInl_ok this))
      · cases h
    · rename_i sub pre imp dot dec sp hl
      split at h
      · cases h
      · rename_i himp
        have himp : imp = true := by simpa using himp
        split at h
        · rename_i sub' hsub
          injection h with h; subst h
          obtain ⟨hx1, hx2⟩ := hit.lookup hl
          simp only [valSpans] at hx1
          simp only [NestV] at hx2
          have hsubok : KvsOK lo hi sub := (KvsOK_iff _ _ _).2 ⟨hx1.left.left.left, hx2.2.2⟩
          have hsub' := (KvsOK_iff _ _ _).1 (ih _ _ _ _ _ _ hsub hsubok hpath.right hkey hv hn)
          refine hit.creplace ⟨?_, ?_⟩
          · simp only [valSpans]
            exact AllW.append (AllW.append (AllW.append hsub'.1 hx1.left.left.right) hx1.left.right) hx1.right
          · simp only [NestV]
            refine ⟨hx2.1, ?_, hsub'.2⟩
            intro e he
            rw [hx2.1 himp] at he
            cases he
        · cases h
    · cases h

theorem ctableFromPairs_ok {lo hi : Nat} : ∀ (kvs : List (List CKey × CKey × CVal)) (acc items : List (CKey × CVal)),
    ctableFromPairs kvs acc = some items → AllW lo hi (pairsSpans kvs) → NestPairs kvs →
    KvsOK lo hi acc → KvsOK lo hi items := by
  intro kvs
  induction kvs with
  | nil =>
    intro acc items h _ _ hacc
    simp [ctableFromPairs] at h
    subst h
    exact hacc
  | cons x rest ih =>
    intro acc items h hsp hn hacc
    obtain ⟨path, key, v⟩ := x
    simp only [pairsSpans] at hsp
    simp only [NestPairs] at hn
    unfold ctableFromPairs at h
    split at h
    · rename_i acc' hins
      exact ih _ _ h hsp.right hn.2
        (cinlInsert_ok _ _ _ _ _ _ _ hins hacc hsp.left.left.left hsp.left.left.right hsp.left.right hn.1)
    · cases h

/-! ### the value-level induction -/

def V1 (n fuel : Nat) : Prop :=
  ∀ d s v r, cvalue n fuel d s = .ok v r →
    r.length < s.length ∧ v.decor = emptyDecor ∧ AllW (pos n s) (pos n r) (valSpans v) ∧ NestV v

def V2 (n fuel : Nat) : Prop :=
  ∀ d s vs comma tr r, carrayValues n fuel d s = .ok (vs, comma, tr) r →
    r.length ≤ s.length ∧ AllW (pos n s) (pos n r) (elemsSpans vs ++ rawSp tr) ∧ NestVs vs

def V3 (n fuel : Nat) : Prop :=
  ∀ d s acc vs r, carrayElems n fuel d s acc = .ok vs r →
    ∃ new, vs = acc ++ new ∧ r.length ≤ s.length ∧ AllW (pos n s) (pos n r) (elemsSpans new) ∧ NestVs new

def V4 (n fuel : Nat) : Prop :=
  ∀ d s acc kvs r, cinlineKeyvals n fuel d s acc = .ok kvs r →
    ∃ new, kvs = acc ++ new ∧ r.length ≤ s.length ∧ AllW (pos n s) (pos n r) (pairsSpans new) ∧ NestPairs new

theorem vstep1 (n fuel : Nat) (ih2 : V2 n fuel) (ih4 : V4 n fuel) : V1 n (fuel + 1) := by
  intro d s v r h
  unfold cvalue at h
  split at h
  · cases h
  · rename_i b r0
    split at h
    · -- array
      split at h
      · cases h
      · split at h
        · rename_i vs comma tr r1 hav
          obtain ⟨hlen, hsp, hn⟩ := ih2 _ _ _ _ _ _ hav
          split at h
          · rename_i r2
            injection h with h1 h2; subst h2; subst h1
            have l1 : (b :: r0).length = r0.length + 1 := by simp
            have l2 : (0x5D :: r2 : Bytes).length = r2.length + 1 := by simp
            have hin : AllW (pos n (b :: r0)) (pos n r2) (elemsSpans vs ++ rawSp tr) :=
              hsp.mono_pos (by omega) (by omega)
            refine ⟨by omega, rfl, ?_, ?_⟩
            · simp only [valSpans, decorSp_empty, List.append_nil]
              refine AllW.append hin (AllW.single ?_)
              exact ⟨Nat.le_refl _, pos_mono (by omega), Nat.le_refl _⟩
            · simp only [NestV]
              refine ⟨?_, hn⟩
              intro e he
              injection he with he; subst he
              exact hin
          · cases h
        · cases h
    · split at h
      · -- inline table
        split at h
        · cases h
        · split at h
          · rename_i kvs r1 hkv
            obtain ⟨new, hnew, hlen, hsp, hn⟩ := ih4 _ _ _ _ _ hkv
            simp only [List.nil_append] at hnew
            subst hnew
            simp only [] at h
            split at h
            · cases h
            · rename_i items hitems
              split at h
              · rename_i r2 heq
                injection h with h1 h2; subst h2; subst h1
                have l0 := dropWs_len r1
                have l1 : (b :: r0).length = r0.length + 1 := by simp
                have l2 : (dropWs r1).length = r2.length + 1 := by rw [heq]; simp
                have hok := (KvsOK_iff _ _ _).1
                  (ctableFromPairs_ok (lo := pos n r0) (hi := pos n r1) _ _ _ hitems hsp hn AllKV.nil)
                have hin : AllW (pos n (b :: r0)) (pos n r2) (kvsSpans items ++ rawSp (rawBetween n r1 (dropWs r1))) :=
                  AllW.append (hok.1.mono_pos (by omega) (by omega))
                    (rb_allW _ _ _ _ _ (by omega) l0 (by omega))
                refine ⟨by omega, rfl, ?_, ?_⟩
                · simp only [valSpans, decorSp_empty, List.append_nil]
                  refine AllW.append hin (AllW.single ?_)
                  exact ⟨Nat.le_refl _, pos_mono (by omega), Nat.le_refl _⟩
                · simp only [NestV]
                  refine ⟨by first | trivial | (intro c; cases c), ?_, hok.2⟩
                  intro e he
                  injection he with he; subst he
                  exact hin
              · cases h
          · cases h
      · -- scalar
        split at h
        · rename_i v0 r1 hv
          injection h with h1 h2; subst h2; subst h1
          have hlen := (Suffix03.scalar_adv _ _ _ _ hv).2
          refine ⟨hlen, rfl, ?_, trivial⟩
          simp only [valSpans, decorSp_empty, List.append_nil]
          exact rb_allW _ _ _ _ _ (Nat.le_refl _) (by omega) (Nat.le_refl _)
        · cases h
        · cases h

theorem vstep2 (n fuel : Nat) (ih3 : V3 n fuel) : V2 n (fuel + 1) := by
  intro d s vs comma tr r h
  unfold carrayValues at h
  split at h
  · injection h with h1 h2; subst h2
    injection h1 with h1 h3; injection h3 with h3 h4; subst h1; subst h3; subst h4
    exact ⟨Nat.le_refl _, by simp [elemsSpans, rawSp]; exact AllW.nil _ _, trivial⟩
  · split at h
    · rename_i vs0 r0 hel
      obtain ⟨new, hvs, hlen, hsp, hn⟩ := ih3 _ _ _ _ _ hel
      simp only [List.nil_append] at hvs
      subst hvs
      have key : ∀ (comma0 : Bool) (r1 : Bytes), r1.length ≤ r0.length →
          (match wsCommentNewline (List.length r1 + 1) r1 with
            | some r2 => Res.ok (vs0, comma0, rawBetween n r1 r2) r2
            | none => Res.bt) = Res.ok (vs, comma, tr) r →
          r.length ≤ s.length ∧ AllW (pos n s) (pos n r) (elemsSpans vs ++ rawSp tr) ∧ NestVs vs := by
        intro comma0 r1 hr1 h
        split at h
        · rename_i r2 hw
          injection h with h1 h2; subst h2
          injection h1 with h1 h3; injection h3 with h3 h4; subst h1; subst h3; subst h4
          have l2 := wsCommentNewline_len hw
          refine ⟨by omega, AllW.append (hsp.mono_pos (Nat.le_refl _) (by omega)) ?_, hn⟩
          exact rb_allW _ _ _ _ _ (by omega) l2 (Nat.le_refl _)
        · cases h
      split at h
      rename_i comma0 r1 heq
      split at heq
      · injection heq with e1 e2; subst e1; subst e2
        exact key false r0 (Nat.le_refl _) h
      · split at heq
        · rename_i t0
          injection heq with e1 e2; subst e1; subst e2
          exact key true _ (by simp) h
        · injection heq with e1 e2; subst e1; subst e2
          exact key false r0 (Nat.le_refl _) h
    · cases h
    · cases h

theorem vstep3 (n fuel : Nat) (ih1 : V1 n fuel) (ih3 : V3 n fuel) : V3 n (fuel + 1) := by
  intro d s acc vs r h
  have reset : ∀ {vs r}, (Res.ok acc s : Res (List CVal)) = Res.ok vs r →
      ∃ new, vs = acc ++ new ∧ r.length ≤ s.length ∧ AllW (pos n s) (pos n r) (elemsSpans new) ∧ NestVs new := by
    intro vs r h
    injection h with h1 h2; subst h1; subst h2
    exact ⟨[], by simp, Nat.le_refl _, by simp [elemsSpans]; exact AllW.nil _ _, trivial⟩
  unfold carrayElems at h
  split at h
  · exact reset h
  · rename_i s1 hw1
    have l1 := wsCommentNewline_len hw1
    split at h
    · cases h
    · exact reset h
    · rename_i v s2 hv
      obtain ⟨l2, hdec, hvs, hvn⟩ := ih1 _ _ _ _ hv
      split at h
      · exact reset h
      · rename_i s3 hw2
        have l3 := wsCommentNewline_len hw2
        simp only [] at h
        generalize hv' : v.setDecor (Decor.new (rawBetween n s s1) (rawBetween n s2 s3)) = v' at h
        have hel : AllW (pos n s) (pos n s3) (valSpans v') := by
          rw [← hv']
          refine valSpans_setDecor_allW v _ hdec (hvs.mono_pos l1 l3) ?_
          rw [decorSp_new]
          exact AllW.append (rb_allW _ _ _ _ _ (Nat.le_refl _) l1 (by omega))
            (rb_allW _ _ _ _ _ (by omega) l3 (Nat.le_refl _))
        have hn' : NestV v' := by rw [← hv', NestV_setDecor]; exact hvn
        have single : ∃ new, acc ++ [v'] = acc ++ new ∧ s3.length ≤ s.length ∧
            AllW (pos n s) (pos n s3) (elemsSpans new) ∧ NestVs new :=
          ⟨[v'], rfl, by omega, by simp only [elemsSpans, List.append_nil]; exact hel, ⟨hn', trivial⟩⟩
        split at h
        · rename_i s4
          have l4 : (0x2C :: s4 : Bytes).length = s4.length + 1 := by simp
          split at h
          · rename_i vs' r' hrec
            obtain ⟨new', hvs', l5, hsp', hnn'⟩ := ih3 _ _ _ _ _ hrec
            split at h
            · rename_i hlen
              injection h with h1 h2; subst h1; subst h2
              have : new' = [] := by
                have hl := congrArg List.length hvs'
                have : vs'.length = (acc ++ [v']).length := by simpa using hlen
                simp at hl this
                exact List.length_eq_zero_iff.1 (by omega)
              subst this
              rw [hvs', List.append_nil]
              exact single
            · injection h with h1 h2; subst h1; subst h2
              refine ⟨v' :: new', by rw [hvs']; simp, by omega, ?_, ⟨hn', hnn'⟩⟩
              simp only [elemsSpans]
              exact AllW.append (hel.mono_pos (Nat.le_refl _) (by omega))
                (hsp'.mono_pos (by omega) (Nat.le_refl _))
          · rename_i hne
            exact absurd h (hne _ _)
        · injection h with h1 h2; subst h1; subst h2
          exact single

theorem vstep4 (n fuel : Nat) (ih1 : V1 n fuel) (ih4 : V4 n fuel) : V4 n (fuel + 1) := by
  intro d s acc kvs r h
  unfold cinlineKeyvals at h
  split at h
  · cases h
  · injection h with h1 h2; subst h1; subst h2
    exact ⟨[], by simp, Nat.le_refl _, by simp [pairsSpans]; exact AllW.nil _ _, trivial⟩
  · rename_i ks r0 hk
    obtain ⟨l0, hks⟩ := ckeyPath_spans _ _ _ _ hk
    split at h
    · cases h
    · split at h
      · rename_i r1
        simp only [] at h
        have l1 : (0x3D :: r1 : Bytes).length = r1.length + 1 := by simp
        have l1' := dropWs_len r1
        split at h
        · rename_i v r2 hv
          obtain ⟨l2, hdec, hvs, hvn⟩ := ih1 _ _ _ _ hv
          have l3 := dropWs_len r2
          generalize hv' : v.setDecor (Decor.new (rawBetween n r1 (dropWs r1)) (rawBetween n r2 (dropWs r2))) = v' at h
          have hel : AllW (pos n s) (pos n (dropWs r2)) (valSpans v') := by
            rw [← hv']
            refine valSpans_setDecor_allW v _ hdec (hvs.mono_pos (by omega) l3) ?_
            rw [decorSp_new]
            exact AllW.append (rb_allW _ _ _ _ _ (by omega) l1' (by omega))
              (rb_allW _ _ _ _ _ (by omega) l3 (Nat.le_refl _))
          have hn' : NestV v' := by rw [← hv', NestV_setDecor]; exact hvn
          split at h
          · cases h
          · rename_i path key hsl
            have hks' := hks
            rw [splitLast_some _ _ _ hsl, keysSpans_append, keysSpans_single] at hks'
            have hpair : AllW (pos n s) (pos n (dropWs r2)) (pairsSpans [(path, key, v')]) := by
              simp only [pairsSpans, List.append_nil]
              exact AllW.append (hks'.mono_pos (Nat.le_refl _) (by omega)) hel
            have single : ∃ new, acc ++ [(path, key, v')] = acc ++ new ∧ (dropWs r2).length ≤ s.length ∧
                AllW (pos n s) (pos n (dropWs r2)) (pairsSpans new) ∧ NestPairs new :=
              ⟨[(path, key, v')], rfl, by omega, hpair, ⟨hn', trivial⟩⟩
            split at h
            · rename_i r4 heq
              have l4 : (dropWs r2).length = r4.length + 1 := by rw [heq]; simp
              split at h
              · rename_i kvs' r5 hrec
                obtain ⟨new', hkvs', l5, hsp', hnn'⟩ := ih4 _ _ _ _ _ hrec
                split at h
                · rename_i hlen
                  injection h with h1 h2; subst h1; subst h2
                  have : new' = [] := by
                    have hl := congrArg List.length hkvs'
                    have : kvs'.length = (acc ++ [(path, key, v')]).length := by simpa using hlen
                    simp at hl this
                    exact List.length_eq_zero_iff.1 (by omega)
                  subst this
                  rw [hkvs', List.append_nil]
                  exact single
                · injection h with h1 h2; subst h1; subst h2
                  refine ⟨(path, key, v') :: new', by rw [hkvs']; simp, by omega, ?_, ⟨hn', hnn'⟩⟩
                  have : pairsSpans ((path, key, v') :: new') = pairsSpans [(path, key, v')] ++ pairsSpans new' := by
                    simp [pairsSpans]
                  rw [this]
                  exact AllW.append (hpair.mono_pos (Nat.le_refl _) (by omega))
                    (hsp'.mono_pos (by omega) (Nat.le_refl _))
              · rename_i hne
                exact absurd h (hne _ _)
            · injection h with h1 h2; subst h1; subst h2
              exact single
        · cases h
      · cases h

theorem vmain (n : Nat) : ∀ fuel : Nat, V1 n fuel ∧ V2 n fuel ∧ V3 n fuel ∧ V4 n fuel := by
  intro fuel
  induction fuel with
  | zero =>
    refine ⟨?_, ?_, ?_, ?_⟩
    · intro d s v r h; unfold cvalue at h; cases h
    · intro d s vs comma tr r h; unfold carrayValues at h; cases h
    · intro d s acc vs r h; unfold carrayElems at h; cases h
    · intro d s acc kvs r h; unfold cinlineKeyvals at h; cases h
  | succ fuel ih =>
    obtain ⟨ih1, ih2, ih3, ih4⟩ := ih
    exact ⟨vstep1 n fuel ih2 ih4, vstep2 n fuel ih3, vstep3 n fuel ih1 ih3, vstep4 n fuel ih1 ih4⟩

/-- every value the parser builds (scalars, arrays, inline tables, at any depth): the rest is
    shorter, the value is undecorated, every recorded span lies between the start and the end of the
    value, and containers enclose what they contain -/
theorem cvalue_spans (n fuel d : Nat) (s r : Bytes) (v : CVal) (h : cvalue n fuel d s = .ok v r) :
    r.length < s.length ∧ v.decor = emptyDecor ∧ AllW (pos n s) (pos n r) (valSpans v) ∧ NestV v :=
  (vmain n fuel).1 d s v r h

end TomlVerif.Lemmas.Spans14
