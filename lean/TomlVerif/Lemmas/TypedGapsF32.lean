import TomlVerif.Model.DeTyped
import TomlVerif.Spec.SerdeData
import TomlVerif.Spec.Encode06

/-! `f32 → f64 → f32` is the identity on non-NaN bit patterns (C07 typed round trip, `f32` leaf). -/

namespace TomlVerif.Lemmas.TypedGapsF32
open TomlVerif.Spec.Ieee (bitLength divRoundEven)
open TomlVerif.Spec.Serde (f32to64 clearNanSign isNan64)
open TomlVerif.Model.DeTyped (roundRat32 f64ToF32)

def isNaN32 (b : Nat) : Bool := b / 2 ^ 23 % 256 == 255 && b % 2 ^ 23 != 0

/-! ### `bitLength` -/

theorem bitLength_pos {a : Nat} (ha : 0 < a) : bitLength a = Nat.log2 a + 1 := by
  unfold bitLength
  have : (a == 0) = false := by simp; omega
  simp [this]

theorem bitLength_bounds {a : Nat} (ha : 0 < a) :
    2 ^ (bitLength a - 1) ≤ a ∧ a < 2 ^ bitLength a := by
  rw [bitLength_pos ha]
  exact ⟨Nat.log2_self_le (by omega), Nat.lt_log2_self⟩

theorem bitLength_unique {a L : Nat} (h1 : 2 ^ L ≤ a) (h2 : a < 2 ^ (L + 1)) :
    bitLength a = L + 1 := by
  have hpos : 0 < a := Nat.lt_of_lt_of_le (Nat.two_pow_pos L) h1
  have hne : a ≠ 0 := by omega
  rw [bitLength_pos hpos]
  have hA : Nat.log2 a < L + 1 := (Nat.log2_lt hne).2 h2
  have hB : L ≤ Nat.log2 a := (Nat.le_log2 hne).2 h1
  omega

theorem bitLength_two_pow (j : Nat) : bitLength (2 ^ j) = j + 1 :=
  bitLength_unique (Nat.le_refl _) (Nat.pow_lt_pow_right (by decide) (by omega))

theorem bitLength_mul_two_pow {a : Nat} (ha : 0 < a) (i : Nat) :
    bitLength (a * 2 ^ i) = bitLength a + i := by
  obtain ⟨h1, h2⟩ := bitLength_bounds ha
  have hL : 1 ≤ bitLength a := by rw [bitLength_pos ha]; omega
  have e : bitLength a + i = (bitLength a - 1 + i) + 1 := by omega
  rw [e]
  apply bitLength_unique
  · rw [Nat.pow_add]; exact Nat.mul_le_mul_right _ h1
  · have : bitLength a - 1 + i + 1 = bitLength a + i := by omega
    rw [this, Nat.pow_add]
    exact Nat.mul_lt_mul_of_pos_right h2 (Nat.two_pow_pos i)

/-! ### `roundRat32` cut into its steps -/

def scaled (p q : Nat) (k : Int) : Nat × Nat :=
  if k ≥ 0 then (p, q * 2 ^ k.toNat) else (p * 2 ^ (-k).toNat, q)

def adj (p q : Nat) (k : Int) : Int :=
  let (a, b) := scaled p q k
  if a / b ≥ 2 ^ 24 then k + 1 else if a / b < 2 ^ 23 then k - 1 else k

def fin (p q : Nat) (k2 : Int) : Nat :=
  let k : Int := if k2 < -149 then -149 else k2
  let (a, b) := scaled p q k
  let mant := divRoundEven a b
  let (mant, k) : Nat × Int := if mant ≥ 2 ^ 24 then (mant / 2, k + 1) else (mant, k)
  if mant < 2 ^ 23 then mant
  else
    let e : Int := k + 150
    if e ≥ 255 then 0x7F800000
    else e.toNat * 2 ^ 23 + (mant - 2 ^ 23)

theorem roundRat32_eq (p q : Nat) :
    roundRat32 p q = fin p q (adj p q (adj p q ((bitLength p : Int) - (bitLength q : Int) - 24))) := by
  unfold roundRat32 fin adj scaled
  with_reducible rfl


theorem scaled_pow (a i j : Nat) (k : Int) (hk : k ≤ (i : Int) - j) :
    ∃ B, 0 < B ∧
      scaled (a * 2 ^ i) (2 ^ j) k = (B * (a * 2 ^ ((i : Int) - j - k).toNat), B) := by
  unfold scaled
  by_cases h : k ≥ 0
  · rw [if_pos h]
    refine ⟨2 ^ j * 2 ^ k.toNat, Nat.mul_pos (Nat.two_pow_pos _) (Nat.two_pow_pos _), ?_⟩
    have e : i = j + k.toNat + ((i : Int) - j - k).toNat := by omega
    generalize ((i : Int) - j - k).toNat = d at e ⊢
    generalize k.toNat = n at e ⊢
    have e2 : a * 2 ^ i = 2 ^ j * 2 ^ n * (a * 2 ^ d) := by
      rw [e, Nat.pow_add, Nat.pow_add]; ac_rfl
    rw [e2]
  · rw [if_neg h]
    refine ⟨2 ^ j, Nat.two_pow_pos _, ?_⟩
    have e : i + (-k).toNat = j + ((i : Int) - j - k).toNat := by omega
    generalize ((i : Int) - j - k).toNat = d at e ⊢
    generalize (-k).toNat = n at e ⊢
    have e2 : a * 2 ^ i * 2 ^ n = 2 ^ j * (a * 2 ^ d) := by
      rw [Nat.mul_assoc, ← Nat.pow_add, e, Nat.pow_add]; ac_rfl
    rw [e2]

theorem adj_of {p q B c : Nat} {k : Int} (hs : scaled p q k = (B * c, B)) (hB : 0 < B) :
    adj p q k = if c ≥ 2 ^ 24 then k + 1 else if c < 2 ^ 23 then k - 1 else k := by
  unfold adj
  rw [hs]
  simp only [Nat.mul_div_cancel_left c hB]

theorem divRoundEven_mul (B c : Nat) (hB : 0 < B) : divRoundEven (B * c) B = c := by
  unfold divRoundEven
  simp only [Nat.mul_div_cancel_left c hB, Nat.mul_mod_right]
  rw [if_pos (by omega)]

theorem fin_of {p q B c : Nat} {k2 : Int}
    (hs : scaled p q (if k2 < -149 then -149 else k2) = (B * c, B)) (hB : 0 < B)
    (hc : c < 2 ^ 24) :
    fin p q k2 =
      if c < 2 ^ 23 then c
      else if (if k2 < -149 then -149 else k2) + 150 ≥ 255 then 0x7F800000
      else ((if k2 < -149 then -149 else k2) + 150).toNat * 2 ^ 23 + (c - 2 ^ 23) := by
  unfold fin
  have hge : ¬ c ≥ 2 ^ 24 := by omega
  simp only [hs, divRoundEven_mul B c hB, if_neg hge]

theorem mul_pow_ge {a L n d : Nat} (h : 2 ^ (L - 1) ≤ a) (e : L - 1 + d = n) :
    2 ^ n ≤ a * 2 ^ d := by
  subst e; rw [Nat.pow_add]; exact Nat.mul_le_mul_right _ h

theorem mul_pow_lt {a L n d : Nat} (h : a < 2 ^ L) (e : L + d ≤ n) : a * 2 ^ d < 2 ^ n :=
  calc a * 2 ^ d < 2 ^ L * 2 ^ d := Nat.mul_lt_mul_of_pos_right h (Nat.two_pow_pos d)
    _ = 2 ^ (L + d) := (Nat.pow_add ..).symm
    _ ≤ 2 ^ n := Nat.pow_le_pow_right (by decide) e

/-- `roundRat32` on a dyadic rational `a · 2^(i-j)` with at most 24 significant bits that is not below
the smallest subnormal's grid: no rounding happens -/
theorem roundRat32_pow (a i j : Nat) (ha : 0 < a) (ha2 : a < 2 ^ 24)
    (hT : -149 ≤ (i : Int) - j) :
    roundRat32 (a * 2 ^ i) (2 ^ j) =
      if (i : Int) - j + bitLength a - 24 < -149 then a * 2 ^ (i + 149 - j)
      else if (i : Int) - j + bitLength a - 24 + 150 ≥ 255 then 0x7F800000
      else ((i : Int) - j + bitLength a - 24 + 150).toNat * 2 ^ 23
        + (a * 2 ^ (24 - bitLength a) - 2 ^ 23) := by
  rw [roundRat32_eq, bitLength_mul_two_pow ha, bitLength_two_pow]
  obtain ⟨hL1, hL2⟩ := bitLength_bounds ha
  have hLpos : 1 ≤ bitLength a := by rw [bitLength_pos ha]; omega
  have hL24 : bitLength a ≤ 24 := by
    have : 2 ^ (bitLength a - 1) < 2 ^ 24 := Nat.lt_of_le_of_lt hL1 ha2
    have := (Nat.pow_lt_pow_iff_right (by decide : 1 < 2)).1 this
    omega
  generalize bitLength a = L at *
  -- first adjustment: the estimate is one too small
  have h0 : adj (a * 2 ^ i) (2 ^ j) (((L + i : Nat) : Int) - ((j + 1 : Nat) : Int) - 24)
      = (i : Int) - j + L - 24 := by
    obtain ⟨B, hB, hs⟩ := scaled_pow a i j (((L + i : Nat) : Int) - ((j + 1 : Nat) : Int) - 24)
      (by omega)
    rw [adj_of hs hB]
    have e : ((i : Int) - j - (((L + i : Nat) : Int) - ((j + 1 : Nat) : Int) - 24)).toNat
        = 25 - L := by omega
    rw [e, if_pos (mul_pow_ge hL1 (by omega))]
    omega
  rw [h0]
  have h1 : adj (a * 2 ^ i) (2 ^ j) ((i : Int) - j + L - 24) = (i : Int) - j + L - 24 := by
    obtain ⟨B, hB, hs⟩ := scaled_pow a i j ((i : Int) - j + L - 24) (by omega)
    rw [adj_of hs hB]
    have e : ((i : Int) - j - ((i : Int) - j + L - 24)).toNat = 24 - L := by omega
    have c1 : 2 ^ 23 ≤ a * 2 ^ (24 - L) := mul_pow_ge hL1 (by omega)
    have c2 : a * 2 ^ (24 - L) < 2 ^ 24 := mul_pow_lt hL2 (by omega)
    rw [e, if_neg (by omega), if_neg (by omega)]
  rw [h1]
  by_cases hk : (i : Int) - j + L - 24 < -149
  · obtain ⟨B, hB, hs⟩ := scaled_pow a i j (-149) hT
    have e : ((i : Int) - j - (-149)).toNat = i + 149 - j := by omega
    rw [e] at hs
    have c2 : a * 2 ^ (i + 149 - j) < 2 ^ 23 := mul_pow_lt hL2 (by omega)
    have hs' : scaled (a * 2 ^ i) (2 ^ j)
        (if (i : Int) - j + L - 24 < -149 then -149 else (i : Int) - j + L - 24)
        = (B * (a * 2 ^ (i + 149 - j)), B) := by rw [if_pos hk]; exact hs
    rw [fin_of hs' hB (by omega), if_pos c2, if_pos hk]
  · obtain ⟨B, hB, hs⟩ := scaled_pow a i j ((i : Int) - j + L - 24) (by omega)
    have e : ((i : Int) - j - ((i : Int) - j + L - 24)).toNat = 24 - L := by omega
    rw [e] at hs
    have c1 : 2 ^ 23 ≤ a * 2 ^ (24 - L) := mul_pow_ge hL1 (by omega)
    have c2 : a * 2 ^ (24 - L) < 2 ^ 24 := mul_pow_lt hL2 (by omega)
    have hs' : scaled (a * 2 ^ i) (2 ^ j)
        (if (i : Int) - j + L - 24 < -149 then -149 else (i : Int) - j + L - 24)
        = (B * (a * 2 ^ (24 - L)), B) := by rw [if_neg hk]; exact hs
    rw [fin_of hs' hB c2, if_neg (by omega), if_neg hk, if_neg hk]


theorem roundRat32_normal (a i j : Nat) (h1 : 2 ^ 23 ≤ a) (h2 : a < 2 ^ 24)
    (hlo : j + 1 ≤ i + 150) (hhi : i + 150 < j + 255) :
    roundRat32 (a * 2 ^ i) (2 ^ j) = (i + 150 - j) * 2 ^ 23 + (a - 2 ^ 23) := by
  have hL : bitLength a = 24 := bitLength_unique h1 h2
  rw [roundRat32_pow a i j (by omega) h2 (by omega), hL, if_neg (by omega), if_neg (by omega)]
  have e : ((i : Int) - j + (24 : Nat) - 24 + 150).toNat = i + 150 - j := by omega
  rw [e, Nat.sub_self, Nat.pow_zero, Nat.mul_one]

theorem roundRat32_subnormal (a i j : Nat) (h1 : 0 < a) (h2 : a < 2 ^ 23) (hij : i + 149 = j) :
    roundRat32 (a * 2 ^ i) (2 ^ j) = a := by
  obtain ⟨hL1, _⟩ := bitLength_bounds h1
  have hL23 : bitLength a ≤ 23 := by
    have : 2 ^ (bitLength a - 1) < 2 ^ 23 := Nat.lt_of_le_of_lt hL1 h2
    have := (Nat.pow_lt_pow_iff_right (by decide : 1 < 2)).1 this
    omega
  rw [roundRat32_pow a i j h1 (by omega) (by omega), if_pos (by omega)]
  have e : i + 149 - j = 0 := by omega
  rw [e, Nat.pow_zero, Nat.mul_one]

/-! ### `f64ToF32` on a finite non-zero, non-subnormal double given by its fields -/

theorem f64ToF32_parts (s E M : Nat) (hs : s < 2) (hE0 : 0 < E) (hE : E < 2047)
    (hM : M < 2 ^ 52) :
    f64ToF32 (s * 2 ^ 63 + E * 2 ^ 52 + M) =
      s * 2 ^ 31 + (if E ≥ 1075 then roundRat32 ((2 ^ 52 + M) * 2 ^ (E - 1075)) 1
        else roundRat32 (2 ^ 52 + M) (2 ^ (1075 - E))) := by
  have hsb : TomlVerif.Spec.Ieee.signBit = 2 ^ 63 := by simp [TomlVerif.Spec.Ieee.signBit]
  have hmag : (s * 2 ^ 63 + E * 2 ^ 52 + M) % 2 ^ 63 = E * 2 ^ 52 + M := by omega
  have hdiv : (E * 2 ^ 52 + M) / 2 ^ 52 = E := by omega
  have hmod : (E * 2 ^ 52 + M) % 2 ^ 52 = M := by
    rw [Nat.add_comm, Nat.add_mul_mod_self_right, Nat.mod_eq_of_lt hM]
  have hsign : (if s * 2 ^ 63 + E * 2 ^ 52 + M ≥ 2 ^ 63 then 0x80000000 else 0) = s * 2 ^ 31 := by
    split <;> omega
  have hE1 : (E == 2047) = false := by simp; omega
  have hE2 : (E == 0) = false := by simp; omega
  have hmag0 : (E * 2 ^ 52 + M == 0) = false := by simp; omega
  unfold f64ToF32
  rw [hsb]
  simp only [hmag, hdiv, hmod, hsign, hE1, hE2, hmag0, Bool.false_eq_true, if_false]
  by_cases h : E ≥ 1075
  · rw [if_pos h, if_pos h]
  · rw [if_neg h, if_neg h]


/-! ### the four classes of `f32` -/

/-- `f32to64` on the fields of the bit pattern -/
def widen (s e m : Nat) : Nat :=
  if e == 255 then s * 2 ^ 63 + 2047 * 2 ^ 52 + m * 2 ^ 29
  else if e == 0 then
    if m == 0 then s * 2 ^ 63
    else s * 2 ^ 63 + (bitLength m + 873) * 2 ^ 52 + (m * 2 ^ (53 - bitLength m) - 2 ^ 52)
  else s * 2 ^ 63 + (e + 896) * 2 ^ 52 + m * 2 ^ 29

theorem f32to64_eq_widen (b : Nat) :
    f32to64 b = widen (b / 2 ^ 31 % 2) (b / 2 ^ 23 % 256) (b % 2 ^ 23) := rfl

/-- infinities -/
theorem widen_narrow_inf (s : Nat) (hs : s < 2) :
    f64ToF32 (widen s 255 0) = s * 2 ^ 31 + 255 * 2 ^ 23 + 0 := by
  have : s = 0 ∨ s = 1 := by omega
  rcases this with rfl | rfl <;> decide

/-- zeros -/
theorem widen_narrow_zero (s : Nat) (hs : s < 2) :
    f64ToF32 (widen s 0 0) = s * 2 ^ 31 + 0 * 2 ^ 23 + 0 := by
  have : s = 0 ∨ s = 1 := by omega
  rcases this with rfl | rfl <;> decide

/-- subnormals -/
theorem widen_narrow_subnormal (s m : Nat) (hs : s < 2) (hm0 : 0 < m) (hm : m < 2 ^ 23) :
    f64ToF32 (widen s 0 m) = s * 2 ^ 31 + 0 * 2 ^ 23 + m := by
  have hm1 : (m == 0) = false := by simp; omega
  unfold widen
  simp only [hm1, Bool.false_eq_true, if_false, beq_self_eq_true, if_true]
  rw [if_neg (by decide)]
  obtain ⟨hL1, hL2⟩ := bitLength_bounds hm0
  have hLpos : 1 ≤ bitLength m := by rw [bitLength_pos hm0]; omega
  have hL23 : bitLength m ≤ 23 := by
    have : 2 ^ (bitLength m - 1) < 2 ^ 23 := Nat.lt_of_le_of_lt hL1 hm
    have := (Nat.pow_lt_pow_iff_right (by decide : 1 < 2)).1 this
    omega
  generalize bitLength m = k at *
  have c1 : 2 ^ 52 ≤ m * 2 ^ (53 - k) := mul_pow_ge hL1 (by omega)
  have c2 : m * 2 ^ (53 - k) < 2 ^ 53 := mul_pow_lt hL2 (by omega)
  rw [f64ToF32_parts s (k + 873) _ hs (by omega) (by omega) (by omega), if_neg (by omega)]
  have e1 : 2 ^ 52 + (m * 2 ^ (53 - k) - 2 ^ 52) = m * 2 ^ (53 - k) := by omega
  have e2 : 1075 - (k + 873) = 202 - k := by omega
  rw [e1, e2, roundRat32_subnormal m (53 - k) (202 - k) hm0 hm (by omega)]
  omega

/-- normals -/
theorem widen_narrow_normal (s e m : Nat) (hs : s < 2) (he0 : 0 < e) (he : e < 255)
    (hm : m < 2 ^ 23) :
    f64ToF32 (widen s e m) = s * 2 ^ 31 + e * 2 ^ 23 + m := by
  have he1 : (e == 255) = false := by simp; omega
  have he2 : (e == 0) = false := by simp; omega
  unfold widen
  simp only [he1, he2, Bool.false_eq_true, if_false]
  rw [f64ToF32_parts s (e + 896) _ hs (by omega) (by omega) (by omega)]
  have e1 : 2 ^ 52 + m * 2 ^ 29 = (2 ^ 23 + m) * 2 ^ 29 := by omega
  rw [e1]
  by_cases h : e + 896 ≥ 1075
  · rw [if_pos h]
    have e2 : (2 ^ 23 + m) * 2 ^ 29 * 2 ^ (e + 896 - 1075)
        = (2 ^ 23 + m) * 2 ^ (29 + (e - 179)) := by
      have e0 : e + 896 - 1075 = e - 179 := by omega
      rw [e0, Nat.mul_assoc, ← Nat.pow_add]
    have e3 : (1 : Nat) = 2 ^ 0 := rfl
    rw [e2, e3, roundRat32_normal (2 ^ 23 + m) (29 + (e - 179)) 0 (by omega) (by omega)
      (by omega) (by omega)]
    have : 29 + (e - 179) + 150 - 0 = e := by omega
    rw [this]; omega
  · rw [if_neg h]
    have e2 : 1075 - (e + 896) = 179 - e := by omega
    rw [e2, roundRat32_normal (2 ^ 23 + m) 29 (179 - e) (by omega) (by omega)
      (by omega) (by omega)]
    have : 29 + 150 - (179 - e) = e := by omega
    rw [this]; omega

theorem widen_narrow (s e m : Nat) (hs : s < 2) (he : e < 256) (hm : m < 2 ^ 23)
    (hn : e = 255 → m = 0) :
    f64ToF32 (widen s e m) = s * 2 ^ 31 + e * 2 ^ 23 + m := by
  by_cases h255 : e = 255
  · subst h255; rw [hn rfl]; exact widen_narrow_inf s hs
  · by_cases h0 : e = 0
    · subst h0
      by_cases hm0 : m = 0
      · subst hm0; exact widen_narrow_zero s hs
      · exact widen_narrow_subnormal s m hs (by omega) hm
    · exact widen_narrow_normal s e m hs (by omega) (by omega) hm

/-- **C07, `f32` leaf**: widening an `f32` that is not a NaN to `f64` (`serialize_f32`) and narrowing it
back (`visit_f64` of `f32`) gives the same bits -/
theorem T07_f32_widen_narrow (b : Nat) (hb : b < 2 ^ 32) (hn : isNaN32 b = false) :
    f64ToF32 (f32to64 b) = b := by
  have hdec : (b / 2 ^ 31 % 2) * 2 ^ 31 + (b / 2 ^ 23 % 256) * 2 ^ 23 + b % 2 ^ 23 = b := by omega
  rw [f32to64_eq_widen, widen_narrow _ _ _ (by omega) (by omega) (by omega), hdec]
  intro h255
  unfold isNaN32 at hn
  simp [h255] at hn
  omega


/-! ### the widened value is not a NaN, so the NaN normalisations do not touch it -/

theorem isNan64_parts (s E M : Nat) (hE : E < 2047) (hM : M < 2 ^ 52) :
    isNan64 (s * 2 ^ 63 + E * 2 ^ 52 + M) = false := by
  have h : (s * 2 ^ 63 + E * 2 ^ 52 + M) / 2 ^ 52 % 2048 = E := by omega
  unfold isNan64
  rw [h]
  have : (E == 2047) = false := by simp; omega
  rw [this, Bool.false_and]

theorem isNan64_widen (s e m : Nat) (he : e < 256) (hm : m < 2 ^ 23)
    (hn : e = 255 → m = 0) : isNan64 (widen s e m) = false := by
  unfold widen
  by_cases h255 : e = 255
  · subst h255
    rw [hn rfl]
    unfold isNan64
    have : (s * 2 ^ 63 + 2047 * 2 ^ 52 + 0 * 2 ^ 29) % 2 ^ 52 = 0 := by omega
    simp [this]
  · have he1 : (e == 255) = false := by simp; omega
    simp only [he1, Bool.false_eq_true, if_false]
    by_cases h0 : e = 0
    · subst h0
      simp only [beq_self_eq_true, if_true]
      by_cases hm0 : m = 0
      · subst hm0
        simp only [beq_self_eq_true, if_true]
        have := isNan64_parts s 0 0 (by omega) (by omega)
        simpa using this
      · have hm1 : (m == 0) = false := by simp; omega
        simp only [hm1, Bool.false_eq_true, if_false]
        have hmpos : 0 < m := by omega
        obtain ⟨hL1, hL2⟩ := bitLength_bounds hmpos
        have hLpos : 1 ≤ bitLength m := by rw [bitLength_pos hmpos]; omega
        have hL23 : bitLength m ≤ 23 := by
          have : 2 ^ (bitLength m - 1) < 2 ^ 23 := Nat.lt_of_le_of_lt hL1 hm
          have := (Nat.pow_lt_pow_iff_right (by decide : 1 < 2)).1 this
          omega
        generalize bitLength m = k at *
        have c2 : m * 2 ^ (53 - k) < 2 ^ 53 := mul_pow_lt hL2 (by omega)
        exact isNan64_parts s (k + 873) _ (by omega) (by omega)
    · have he2 : (e == 0) = false := by simp; omega
      simp only [he2, Bool.false_eq_true, if_false]
      exact isNan64_parts s (e + 896) _ (by omega) (by omega)

theorem isNan64_f32to64 (b : Nat) (hn : isNaN32 b = false) : isNan64 (f32to64 b) = false := by
  rw [f32to64_eq_widen]
  apply isNan64_widen _ _ _ (by omega) (by omega)
  intro h255
  unfold isNaN32 at hn
  simp [h255] at hn
  omega

theorem clearNanSign_f32to64 (b : Nat) (hn : isNaN32 b = false) :
    clearNanSign (f32to64 b) = f32to64 b := by
  unfold clearNanSign
  rw [isNan64_f32to64 b hn]
  simp

theorem canonFloat_of_not_nan (x : Nat) (h : isNan64 x = false) :
    TomlVerif.Spec.Encode06.canonFloat x = x := by
  unfold isNan64 at h
  unfold TomlVerif.Spec.Encode06.canonFloat
  have e : (2 : Nat) ^ 11 = 2048 := by decide
  rw [e, h]
  rfl

/-- what the serializer stores for an `f32` (`clearNanSign ∘ f32to64`) narrows back to the `f32` -/
theorem f32_normDec_id (b : Nat) (hb : b < 2 ^ 32) (hn : isNaN32 b = false) :
    f64ToF32 (clearNanSign (f32to64 b)) = b := by
  rw [clearNanSign_f32to64 b hn, T07_f32_widen_narrow b hb hn]

/-- the same through the NaN canonicalisation of the text round trip -/
theorem f32_normDec_canon_id (b : Nat) (hb : b < 2 ^ 32) (hn : isNaN32 b = false) :
    f64ToF32 (TomlVerif.Spec.Encode06.canonFloat (clearNanSign (f32to64 b))) = b := by
  rw [clearNanSign_f32to64 b hn, canonFloat_of_not_nan _ (isNan64_f32to64 b hn),
    T07_f32_widen_narrow b hb hn]

/-! ### non-vacuity -/

example : f64ToF32 (f32to64 0x3DCCCCCD) = 0x3DCCCCCD :=
  T07_f32_widen_narrow 0x3DCCCCCD (by decide) (by decide)
example : f64ToF32 (f32to64 1) = 1 := T07_f32_widen_narrow 1 (by decide) (by decide)
example : f64ToF32 (clearNanSign (f32to64 0xFF7FFFFF)) = 0xFF7FFFFF :=
  f32_normDec_id 0xFF7FFFFF (by decide) (by decide)
example : f64ToF32 (TomlVerif.Spec.Encode06.canonFloat (clearNanSign (f32to64 0x80000001)))
    = 0x80000001 := f32_normDec_canon_id 0x80000001 (by decide) (by decide)
/-- the hypothesis is needed: a signalling NaN is quieted -/
example : isNaN32 0x7F800001 = true ∧ f64ToF32 (f32to64 0x7F800001) ≠ 0x7F800001 := by decide

end TomlVerif.Lemmas.TypedGapsF32

