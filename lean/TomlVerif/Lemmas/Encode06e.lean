import TomlVerif.Lemmas.Encode06d
/-! Helper lemmas for C06, documents: built tables satisfy `OkT`; under `OkT` the printer's visit is the walk
    `visT`, every visited table is printable (`VisitOk`), and the whole document round-trips. -/
namespace TomlVerif.Lemmas.Encode06e
open TomlVerif TomlVerif.Spec TomlVerif.Model TomlVerif.Model.Encode06 TomlVerif.Model.State
open TomlVerif.Lemmas.Encode06b TomlVerif.Lemmas.Encode06c TomlVerif.Lemmas.Encode06d
open TomlVerif.Props.C06 TomlVerif.Spec.Encode06 TomlVerif.Lemmas.State09

/-! ## the visit is the walk -/

mutual
theorem visit_eq_T : ∀ (t : DTbl) (n : Nat) (P : List Bytes) (a : Bool), OkT t n → visitNested t P a 0 = (visT t P a, 0)
  | .mk items imp pos, n, P, a, h => by
    rw [OkT] at h
    obtain ⟨_, hpos, _, _, hi⟩ := h
    subst hpos
    rw [visitNested, visT]
    simp only [visit_eq_items items n P hi]
theorem visit_eq_items : ∀ (items : List (Bytes × DItem)) (n : Nat) (P : List Bytes), OkItems items n →
    visitItems items P 0 = (visItems items P, 0)
  | [], _, _, _ => by rw [visitItems, visItems]
  | (k, .value v) :: r, n, P, h => by
    rw [OkItems] at h
    rw [visitItems, visItems, visit_eq_items r n P h.2]
  | (k, .table t) :: r, n, P, h => by
    rw [OkItems, OkI] at h
    rw [visitItems, visItems]
    simp only [visit_eq_T t (n + 1) (P ++ [k]) false h.1, visit_eq_items r n P h.2]
  | (k, .aot ts) :: r, n, P, h => by
    rw [OkItems, OkI] at h
    rw [visitItems, visItems]
    simp only [visit_eq_aot ts (n + 1) (P ++ [k]) h.1.2, visit_eq_items r n P h.2]
theorem visit_eq_aot : ∀ (ts : List DTbl) (n : Nat) (P : List Bytes), OkTs ts n → visitAot ts P 0 = (visAot ts P, 0)
  | [], _, _, _ => by rw [visitAot, visAot]
  | t :: r, n, P, h => by
    rw [OkTs] at h
    rw [visitAot, visAot]
    simp only [visit_eq_T t n P true h.1, visit_eq_aot r n P h.2]
end

theorem bodyOk_of_items : ∀ (items : List (Bytes × DItem)) (n : Nat), OkItems items n → BodyOk (getValues items)
  | [], _, _ => by simp [getValues, BodyOk]
  | (k, .value v) :: r, n, h => by
    rw [OkItems, OkI] at h
    rw [getValues, BodyOk]
    exact ⟨h.1, bodyOk_of_items r n h.2⟩
  | (k, .table t) :: r, n, h => by
    rw [OkItems] at h
    simp only [getValues]
    exact bodyOk_of_items r n h.2
  | (k, .aot ts) :: r, n, h => by
    rw [OkItems] at h
    simp only [getValues]
    exact bodyOk_of_items r n h.2

mutual
theorem visitOk_T : ∀ (t : DTbl) (P : List Bytes) (a : Bool), OkT t P.length →
    ∀ v ∈ visT t P a, VisitOk v ∧ v.lastPos = 0
  | .mk items imp pos, P, a, h => by
    have h' := h
    rw [OkT] at h'
    obtain ⟨himp, _, hlen, _, hi⟩ := h'
    intro v hv
    rw [visT, List.mem_cons] at hv
    rcases hv with hv | hv
    · subst hv
      exact ⟨⟨hlen, himp, bodyOk_of_items items _ hi⟩, rfl⟩
    · exact visitOk_items items P hi v hv
theorem visitOk_items : ∀ (items : List (Bytes × DItem)) (P : List Bytes), OkItems items P.length →
    ∀ v ∈ visItems items P, VisitOk v ∧ v.lastPos = 0
  | [], _, _ => by intro v hv; rw [visItems] at hv; cases hv
  | (k, .value x) :: r, P, h => by
    rw [OkItems] at h
    intro v hv
    rw [visItems] at hv
    exact visitOk_items r P h.2 v hv
  | (k, .table t) :: r, P, h => by
    rw [OkItems, OkI] at h
    intro v hv
    rw [visItems, List.mem_append] at hv
    rcases hv with hv | hv
    · exact visitOk_T t (P ++ [k]) false (by simpa using h.1) v hv
    · exact visitOk_items r P h.2 v hv
  | (k, .aot ts) :: r, P, h => by
    rw [OkItems, OkI] at h
    intro v hv
    rw [visItems, List.mem_append] at hv
    rcases hv with hv | hv
    · exact visitOk_aot ts (P ++ [k]) (by simpa using h.1.2) v hv
    · exact visitOk_items r P h.2 v hv
theorem visitOk_aot : ∀ (ts : List DTbl) (P : List Bytes), OkTs ts P.length →
    ∀ v ∈ visAot ts P, VisitOk v ∧ v.lastPos = 0
  | [], _, _ => by intro v hv; rw [visAot] at hv; cases hv
  | t :: r, P, h => by
    rw [OkTs] at h
    intro v hv
    rw [visAot, List.mem_append] at hv
    rcases hv with hv | hv
    · exact visitOk_T t P true h.1 v hv
    · exact visitOk_aot r P h.2 v hv
end

/-- for a table without positions the stable sort changes nothing: the text is that of the walk -/
theorem printDoc_eq (t : DTbl) (h : OkT t 0) : printDoc t = visitTables (visT t [] false) true := by
  unfold printDoc
  rw [visit_eq_T t 0 [] false h]
  simp only [DEFAULT_ROOT_DECOR, List.nil_append, List.append_nil]
  rw [T06_sort_identity _ (fun w hw => (visitOk_T t [] false h w hw).2)]

/-! ## built tables -/

mutual
/-- what the constructors guarantee: flags unset, distinct keys, values with unset decor -/
def BuiltI : DItem → Prop
  | .value v => GoodV v ∧ decorOf v = {}
  | .table t => BuiltT t
  | .aot ts => BuiltTs ts
def BuiltT : DTbl → Prop
  | .mk items imp pos => imp = false ∧ pos = none ∧ (items.map Prod.fst).Nodup ∧ BuiltItems items
def BuiltTs : List DTbl → Prop
  | [] => True
  | t :: r => BuiltT t ∧ BuiltTs r
def BuiltItems : List (Bytes × DItem) → Prop
  | [] => True
  | (_, i) :: r => BuiltI i ∧ BuiltItems r
end

theorem builtItems_iff (l : List (Bytes × DItem)) : BuiltItems l ↔ ∀ kv ∈ l, BuiltI kv.2 := by
  induction l with
  | nil => simp [BuiltItems]
  | cons x r ih => obtain ⟨k, i⟩ := x; simp [BuiltItems, ih]

mutual
theorem built_item : ∀ i : BItem, BuiltI (buildItem i)
  | .value v => by rw [buildItem, BuiltI]; exact ⟨good_build v, decorOf_buildVal v⟩
  | .table t => by rw [buildItem, BuiltI]; exact built_tbl t
  | .aot ts => by rw [buildItem, BuiltI]; exact built_tbls ts
theorem built_tbl : ∀ t : BTbl, BuiltT (buildTbl t)
  | .mk items => by
    rw [buildTbl, BuiltT]
    have := fold_aset BuiltI (buildItems items) [] (built_items items) (by simp) (by simp)
    exact ⟨rfl, rfl, this.2, (builtItems_iff _).2 this.1⟩
theorem built_tbls : ∀ l : List BTbl, BuiltTs (buildTbls l)
  | [] => by simp [buildTbls, BuiltTs]
  | t :: r => by rw [buildTbls, BuiltTs]; exact ⟨built_tbl t, built_tbls r⟩
theorem built_items : ∀ l : List (Bytes × BItem), ∀ kv ∈ buildItems l, BuiltI kv.2
  | [] => by simp [buildItems]
  | (k, i) :: r => by
    intro kv hkv
    simp only [buildItems, List.mem_cons] at hkv
    rcases hkv with hkv | hkv
    · subst hkv; exact built_item i
    · exact built_items r kv hkv
end

mutual
theorem ok_item : ∀ (i : DItem) (n : Nat), BuiltI i → LeavesOkI i → NoEmptyAotI i → n + 1 + depthI i < Value.LIMIT → OkI i n
  | .value v, n, hb, hl, _, hd => by
    rw [BuiltI] at hb
    rw [LeavesOkI] at hl
    rw [depthI] at hd
    rw [OkI]
    exact ⟨hb.1, hb.2, hl, by omega⟩
  | .table t, n, hb, hl, hne, hd => by
    rw [BuiltI] at hb
    rw [LeavesOkI] at hl
    rw [NoEmptyAotI] at hne
    rw [depthI] at hd
    rw [OkI]
    exact ok_tbl t (n + 1) hb hl hne (by omega)
  | .aot ts, n, hb, hl, hne, hd => by
    rw [BuiltI] at hb
    rw [LeavesOkI] at hl
    rw [NoEmptyAotI] at hne
    rw [depthI] at hd
    rw [OkI]
    exact ⟨hne.1, ok_tbls ts (n + 1) hb hl hne.2 (by omega)⟩
theorem ok_tbl : ∀ (t : DTbl) (n : Nat), BuiltT t → LeavesOkT t → NoEmptyAotT t → n + depthT t < Value.LIMIT → OkT t n
  | .mk items imp pos, n, hb, hl, hne, hd => by
    rw [BuiltT] at hb
    rw [LeavesOkT] at hl
    rw [NoEmptyAotT] at hne
    rw [depthT] at hd
    rw [OkT]
    exact ⟨hb.1, hb.2.1, by omega, hb.2.2.1, ok_items items n hb.2.2.2 hl hne (by omega)⟩
theorem ok_tbls : ∀ (ts : List DTbl) (n : Nat), BuiltTs ts → LeavesOkTs ts → NoEmptyAotTs ts → n + depthTs ts < Value.LIMIT →
    OkTs ts n
  | [], _, _, _, _, _ => by rw [OkTs]; trivial
  | t :: r, n, hb, hl, hne, hd => by
    rw [BuiltTs] at hb
    rw [LeavesOkTs] at hl
    rw [NoEmptyAotTs] at hne
    rw [depthTs] at hd
    rw [OkTs]
    exact ⟨ok_tbl t n hb.1 hl.1 hne.1 (by omega), ok_tbls r n hb.2 hl.2 hne.2 (by omega)⟩
theorem ok_items : ∀ (items : List (Bytes × DItem)) (n : Nat), BuiltItems items → LeavesOkItems items →
    NoEmptyAotItems items → n + 1 + depthItems items < Value.LIMIT → OkItems items n
  | [], _, _, _, _, _ => by rw [OkItems]; trivial
  | (k, i) :: r, n, hb, hl, hne, hd => by
    rw [BuiltItems] at hb
    rw [LeavesOkItems] at hl
    rw [NoEmptyAotItems] at hne
    rw [depthItems] at hd
    rw [OkItems]
    exact ⟨ok_item i n hb.1 hl.1 hne.1 (by omega), ok_items r n hb.2 hl.2 hne.2 (by omega)⟩
end


/-! ## the document -/

theorem doc_roundtrip (t : DTbl) (h : OkT t 0) :
    (Doc.parseDocument (printDoc t)).map eraseTbl = some (expectT t) := by
  rw [printDoc_eq t h, parseDocument_visits _ (fun v hv => (visitOk_T t [] false h v hv).1)]
  obtain ⟨items, imp, pos⟩ := t
  have h' := h
  rw [OkT] at h'
  obtain ⟨_, _, _, hn, hi⟩ := h'
  obtain ⟨hn1, hn2, _, _, hn5⟩ := keys_split items hn
  have e : stmtsVs (visT (.mk items imp pos) [] false) = kvStmts (getValues items) ++ stmtsVs (visItems items []) := by
    simp [visT, stmtsVs, stmtsV, DTbl.items]
  rw [e, run_append, run_kvs (getValues items) {} rfl hn2 (by simp [Tbl.items, Tbl.empty])]
  simp only [Option.bind]
  have hV0 := intoDocument_root
    { ({} : ParseState) with current := ({} : ParseState).current.setItems (({} : ParseState).current.items ++ valItems (getValues items)) }
    rfl rfl
  obtain ⟨st', its, hrun, hdoc, her⟩ := claim_items items 0 hi _ _ _ [] hV0 rfl
    (by intro k hk; simpa [Tbl.items, Tbl.empty, Tbl.setItems, valItems_keys] using hn5 k hk) hn1
  rw [hrun]
  simp only [hdoc, descend, appendF]
  simp [eraseTbl, expectT, Tbl.setItems, Tbl.items, Tbl.empty, eraseItems_append, eraseItems_valItems, her]

end TomlVerif.Lemmas.Encode06e
