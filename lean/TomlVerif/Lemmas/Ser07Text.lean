import TomlVerif.Lemmas.Ser07
import TomlVerif.Props.C06Full
/-! C07 at the TEXT level, part 1: the texts of the serializer routes, the data a parsed document holds, and the
    route `toml_edit::ser::to_string` (no formatting visitor).

    `Model/Ser.lean` stops at document TREES (`Node`) and their printed CONTENT (`shownRoot`); it has no printer, and
    `Driver/C07.lean` prints no text either (it compares `shownRoot …` with what the harness parses back).  The texts
    are therefore defined here, by handing the serializer's tree to the two printers the project already has and
    tests differentially:

    * `Model/Encode06.lean` `printDoc` (`impl Display for DocumentMut` on a decorated tree, decor unset = default
      decor) — used for `toml_edit::ser::to_string`: `to_document` leaves a root `Table` (`InlineTable::into_table`:
      `Table::with_pairs` + `fmt`, so `implicit = false`, `doc_position = None`) whose entries are all
      `Item::Value`s with unset decor (`Array::with_vec`, `InlineTable::with_pairs`: `..Default::default()`);
    * `Model/TomlValue.lean` `renderStmts … (emitDoc …)` (`DocumentFormatter` / the guarded `Pretty` followed by
      `Display for DocumentMut`, plain and pretty layout) — used for `toml::to_string`, `toml::to_string_pretty`
      and `toml_edit::ser::to_string_pretty` in `Lemmas/Ser07TextDoc.lean`.

    Floats: `Scalar.float` carries the bit pattern only; the text of a double is `toml_write`'s
    (`Encode06.reprFloat`) on top of std's `Display` text, which the model does not compute: `disp : FloatDisp`
    stands for it (as `BVal.float`'s `disp` does in C06), constrained by `Props.C06.FloatOk` where needed. -/
namespace TomlVerif.Lemmas.Ser07Text
open TomlVerif TomlVerif.Model TomlVerif.Model.Ser TomlVerif.Spec TomlVerif.Spec.Serde
open TomlVerif.Model.Encode06 TomlVerif.Spec.Encode06 TomlVerif.Props.C06
open TomlVerif.Lemmas.Encode06b TomlVerif.Lemmas.Encode06c TomlVerif.Lemmas.Encode06d TomlVerif.Lemmas.Encode06e

/-- std's `Display` text of the double with the given bits -/
abbrev FloatDisp := Nat → Bytes

/-! ## the serializer's tree as a decorated `toml_edit` tree (all decor unset) -/

mutual
def dvOf (disp : FloatDisp) : V → DVal
  | .sc (.str s) => .str s {}
  | .sc (.int n) => .int n {}
  | .sc (.float b) => .float b (disp b) {}
  | .sc (.bool b) => .bool b {}
  | .sc (.dt d) => .dt d {}
  | .arr xs => .arr (dvOfList disp xs) {}
  | .inl kvs => .inl (dvOfKVs disp kvs) {}
def dvOfList (disp : FloatDisp) : List V → List DVal
  | [] => []
  | x :: r => dvOf disp x :: dvOfList disp r
def dvOfKVs (disp : FloatDisp) : List (Bytes × V) → List (Bytes × DVal)
  | [] => []
  | (k, v) :: r => (k, dvOf disp v) :: dvOfKVs disp r
end

/-- the entries of the root table `to_document` returns: every one an `Item::Value` -/
def rootItems (disp : FloatDisp) : List (Bytes × V) → List (Bytes × DItem)
  | [] => []
  | (k, v) :: r => (k, .value (dvOf disp v)) :: rootItems disp r

/-- `toml_edit::ser::to_document(value)` for a value that serialized to the inline table `kvs` -/
def editDoc (disp : FloatDisp) (kvs : List (Bytes × V)) : DTbl := .mk (rootItems disp kvs) false none

/-- **`toml_edit::ser::to_string`**: `to_document(value).map(|doc| doc.to_string())` -/
def textEdit (disp : FloatDisp) (v : SVal) : Except SerErr Bytes :=
  match serDocument v with
  | .ok kvs => .ok (printDoc (editDoc disp kvs))
  | .error e => .error e

/-! ## the data a parsed document holds -/

mutual
/-- a parsed value as plain data -/
def dataVal : Val → V
  | .str s => .sc (.str s)
  | .int n => .sc (.int n)
  | .float b => .sc (.float b)
  | .bool b => .sc (.bool b)
  | .dt d => .sc (.dt d)
  | .arr items => .arr (dataVals items)
  | .inl items _ _ => .inl (dataPairs items)
def dataVals : List Val → List V
  | [] => []
  | v :: r => dataVal v :: dataVals r
def dataPairs : List (Bytes × Val) → List (Bytes × V)
  | [] => []
  | (k, v) :: r => (k, dataVal v) :: dataPairs r
end

mutual
/-- a parsed item as plain data: tables of every syntax are maps, arrays of tables are arrays of maps -/
def dataItem : Item → V
  | .value v => dataVal v
  | .table t => .inl (dataTbl t)
  | .aot ts => .arr (dataTbls ts)
/-- the parsed document as plain data, entries in the order the parser holds them -/
def dataTbl : Tbl → List (Bytes × V)
  | .mk items _ _ _ => dataItems items
def dataTbls : List Tbl → List V
  | [] => []
  | t :: r => .inl (dataTbl t) :: dataTbls r
def dataItems : List (Bytes × Item) → List (Bytes × V)
  | [] => []
  | (k, i) :: r => (k, dataItem i) :: dataItems r
end

/-- what a TOML text can say about a double: every NaN is `nan` or `-nan` (`canonFloat`) -/
def canonScalar : Scalar → Scalar
  | .float b => .float (canonFloat b)
  | s => s

mutual
/-- plain data with every NaN reduced to its sign -/
def canonV : V → V
  | .sc s => .sc (canonScalar s)
  | .arr xs => .arr (canonVs xs)
  | .inl kvs => .inl (canonKVs kvs)
def canonVs : List V → List V
  | [] => []
  | x :: r => canonV x :: canonVs r
def canonKVs : List (Bytes × V) → List (Bytes × V)
  | [] => []
  | (k, v) :: r => (k, canonV v) :: canonKVs r
end

/-! ## hypotheses on the serialized tree -/

/-- a leaf the printer prints so that the parser reads it back: an integer in the `i64` range, a double whose
    `Display` text is what std guarantees (`FloatOk`), a date-time with fields in range and a year ≤ 9999 -/
def ScalarOkS (disp : FloatDisp) : Scalar → Prop
  | .str _ => True
  | .int n => Numbers.inI64 n = true
  | .float b => FloatOk b (disp b)
  | .bool _ => True
  | .dt d => Props.C12.FieldsInRange d ∧ ∀ x, d.date = some x → x.year ≤ 9999

mutual
def LeavesOkS (disp : FloatDisp) : V → Prop
  | .sc s => ScalarOkS disp s
  | .arr xs => LeavesOkSs disp xs
  | .inl kvs => LeavesOkSKVs disp kvs
def LeavesOkSs (disp : FloatDisp) : List V → Prop
  | [] => True
  | x :: r => LeavesOkS disp x ∧ LeavesOkSs disp r
def LeavesOkSKVs (disp : FloatDisp) : List (Bytes × V) → Prop
  | [] => True
  | (_, v) :: r => LeavesOkS disp v ∧ LeavesOkSKVs disp r
end

mutual
/-- nesting of arrays and tables -/
def depthS : V → Nat
  | .sc _ => 0
  | .arr xs => 1 + depthSs xs
  | .inl kvs => 1 + depthSKVs kvs
def depthSs : List V → Nat
  | [] => 0
  | x :: r => max (depthS x) (depthSs r)
def depthSKVs : List (Bytes × V) → Nat
  | [] => 0
  | (_, v) :: r => max (depthS v) (depthSKVs r)
end

mutual
/-- in every table pairwise distinct keys -/
def NodupS : V → Prop
  | .sc _ => True
  | .arr xs => NodupSs xs
  | .inl kvs => NodupSKVs kvs ∧ (kvs.map Prod.fst).Nodup
def NodupSs : List V → Prop
  | [] => True
  | x :: r => NodupS x ∧ NodupSs r
def NodupSKVs : List (Bytes × V) → Prop
  | [] => True
  | (_, v) :: r => NodupS v ∧ NodupSKVs r
end

/-! ## the serializer never produces a table with a repeated key -/

theorem nodupSKVs_iff (l : List (Bytes × V)) : NodupSKVs l ↔ ∀ kv ∈ l, NodupS kv.2 := by
  induction l with
  | nil => simp [NodupSKVs]
  | cons x r ih => obtain ⟨k, v⟩ := x; simp [NodupSKVs, ih]

theorem nodup_aset (k : Bytes) (x : V) (acc : List (Bytes × V)) (hx : NodupS x)
    (ha : NodupSKVs acc ∧ (acc.map Prod.fst).Nodup) :
    NodupSKVs (aset k x acc) ∧ ((aset k x acc).map Prod.fst).Nodup := by
  refine ⟨?_, State09.aset_nodup _ _ _ ha.2⟩
  rw [nodupSKVs_iff]
  intro kv hkv
  rcases mem_aset _ _ _ _ hkv with e | e
  · rw [e]; exact hx
  · exact (nodupSKVs_iff _).1 ha.1 kv e

theorem nodup_ints : ∀ b : Bytes, NodupSs (intsOfBytes b)
  | [] => by simp [intsOfBytes, NodupSs]
  | x :: r => by simp [intsOfBytes, NodupSs, NodupS, nodup_ints r]

mutual
theorem serValue_nodup : ∀ (v : SVal) (t : V), serValue v = .ok t → NodupS t
  | .bool _, t, h => by simp only [serValue, Except.ok.injEq] at h; subst h; trivial
  | .int w n, t, h => by
    simp only [serValue] at h
    split at h
    · cases h
    · split at h
      · cases h
      · simp only [Except.ok.injEq] at h; subst h; trivial
  | .f32 _, t, h => by simp only [serValue, Except.ok.injEq] at h; subst h; trivial
  | .f64 _, t, h => by simp only [serValue, Except.ok.injEq] at h; subst h; trivial
  | .char _, t, h => by simp only [serValue, Except.ok.injEq] at h; subst h; trivial
  | .str _, t, h => by simp only [serValue, Except.ok.injEq] at h; subst h; trivial
  | .bytes b, t, h => by simp only [serValue, Except.ok.injEq] at h; subst h; rw [NodupS]; exact nodup_ints b
  | .none, t, h => by simp [serValue] at h
  | .some v, t, h => by simp only [serValue] at h; exact serValue_nodup v t h
  | .unit, t, h => by simp [serValue] at h
  | .unitStruct _, t, h => by simp [serValue] at h
  | .newtype _ v, t, h => by simp only [serValue] at h; exact serValue_nodup v t h
  | .seq xs, t, h => by
    simp only [serValue] at h
    cases hs : serSeq xs with
    | error e => rw [hs] at h; cases h
    | ok l => rw [hs] at h; simp only [Except.ok.injEq] at h; subst h; rw [NodupS]; exact serSeq_nodup xs l hs
  | .tuple xs, t, h => by
    simp only [serValue] at h
    cases hs : serSeq xs with
    | error e => rw [hs] at h; cases h
    | ok l => rw [hs] at h; simp only [Except.ok.injEq] at h; subst h; rw [NodupS]; exact serSeq_nodup xs l hs
  | .tupleStruct _ xs, t, h => by
    simp only [serValue] at h
    cases hs : serSeq xs with
    | error e => rw [hs] at h; cases h
    | ok l => rw [hs] at h; simp only [Except.ok.injEq] at h; subst h; rw [NodupS]; exact serSeq_nodup xs l hs
  | .map kvs, t, h => by
    simp only [serValue] at h
    cases hs : serMap kvs [] with
    | error e => rw [hs] at h; cases h
    | ok l =>
      rw [hs] at h; simp only [Except.ok.injEq] at h; subst h; rw [NodupS]
      exact serMap_nodup kvs [] l ⟨by simp [NodupSKVs], by simp⟩ hs
  | .struct name fs, t, h => by
    simp only [serValue] at h
    split at h
    · cases hs : serDatetime fs none with
      | error e => rw [hs] at h; cases h
      | ok d => rw [hs] at h; simp only [Except.ok.injEq] at h; subst h; trivial
    · cases hs : serFields fs [] with
      | error e => rw [hs] at h; cases h
      | ok l =>
        rw [hs] at h; simp only [Except.ok.injEq] at h; subst h; rw [NodupS]
        exact serFields_nodup fs [] l ⟨by simp [NodupSKVs], by simp⟩ hs
  | .unitVariant _ _, t, h => by simp only [serValue, Except.ok.injEq] at h; subst h; trivial
  | .newtypeVariant _ variant v, t, h => by
    simp only [serValue] at h
    cases hs : serValue v with
    | error e => rw [hs] at h; cases h
    | ok x =>
      rw [hs] at h; simp only [Except.ok.injEq] at h; subst h
      simp [NodupS, NodupSKVs, serValue_nodup v x hs]
  | .tupleVariant _ variant xs, t, h => by
    simp only [serValue] at h
    cases hs : serSeq xs with
    | error e => rw [hs] at h; cases h
    | ok l =>
      rw [hs] at h; simp only [Except.ok.injEq] at h; subst h
      simp [NodupS, NodupSKVs, serSeq_nodup xs l hs]
  | .structVariant _ variant fs, t, h => by
    simp only [serValue] at h
    cases hs : serFields fs [] with
    | error e => rw [hs] at h; cases h
    | ok l =>
      rw [hs] at h; simp only [Except.ok.injEq] at h; subst h
      have := serFields_nodup fs [] l ⟨by simp [NodupSKVs], by simp⟩ hs
      simp [NodupS, NodupSKVs, this.1, this.2]
theorem serSeq_nodup : ∀ (xs : List SVal) (l : List V), serSeq xs = .ok l → NodupSs l
  | [], l, h => by simp only [serSeq, Except.ok.injEq] at h; subst h; trivial
  | x :: r, l, h => by
    simp only [serSeq] at h
    cases hx : serValue x with
    | error e => rw [hx] at h; cases h
    | ok v =>
      rw [hx] at h
      simp only [] at h
      cases hr : serSeq r with
      | error e => rw [hr] at h; cases h
      | ok l' =>
        rw [hr] at h; simp only [Except.ok.injEq] at h; subst h
        rw [NodupSs]; exact ⟨serValue_nodup x v hx, serSeq_nodup r l' hr⟩
theorem serFields_nodup : ∀ (fs : List (Bytes × SVal)) (acc l : List (Bytes × V)),
    (NodupSKVs acc ∧ (acc.map Prod.fst).Nodup) → serFields fs acc = .ok l → NodupSKVs l ∧ (l.map Prod.fst).Nodup
  | [], acc, l, ha, h => by simp only [serFields, Except.ok.injEq] at h; subst h; exact ha
  | (k, v) :: r, acc, l, ha, h => by
    by_cases hn : v = .none
    · subst hn; simp only [serFields] at h; exact serFields_nodup r acc l ha h
    · have e1 : serFields ((k, v) :: r) acc =
          (match serValue v with | .error e => .error e | .ok x => serFields r (aset k x acc)) := by
        cases v <;> first | exact absurd rfl hn | rfl
      rw [e1] at h
      cases hx : serValue v with
      | error e => rw [hx] at h; cases h
      | ok x =>
        rw [hx] at h
        exact serFields_nodup r _ l (nodup_aset k x acc (serValue_nodup v x hx) ha) h
theorem serMap_nodup : ∀ (kvs : List (SVal × SVal)) (acc l : List (Bytes × V)),
    (NodupSKVs acc ∧ (acc.map Prod.fst).Nodup) → serMap kvs acc = .ok l → NodupSKVs l ∧ (l.map Prod.fst).Nodup
  | [], acc, l, ha, h => by simp only [serMap, Except.ok.injEq] at h; subst h; exact ha
  | (k, v) :: r, acc, l, ha, h => by
    by_cases hn : v = .none
    · subst hn
      simp only [serMap] at h
      cases hk : serKey k with
      | error e => rw [hk] at h; cases h
      | ok key => rw [hk] at h; exact serMap_nodup r acc l ha h
    · have e1 : serMap ((k, v) :: r) acc =
          (match serKey k with
           | .error e => .error e
           | .ok key => match serValue v with | .error e => .error e | .ok x => serMap r (aset key x acc)) := by
        cases v <;> first | exact absurd rfl hn | rfl
      rw [e1] at h
      cases hk : serKey k with
      | error e => rw [hk] at h; cases h
      | ok key =>
        rw [hk] at h
        simp only [] at h
        cases hx : serValue v with
        | error e => rw [hx] at h; cases h
        | ok x =>
          rw [hx] at h
          exact serMap_nodup r _ l (nodup_aset key x acc (serValue_nodup v x hx) ha) h
end

/-- the table `to_document` starts from has pairwise distinct keys at every level -/
theorem serDocument_nodup (v : SVal) (kvs : List (Bytes × V)) (h : serDocument v = .ok kvs) :
    NodupSKVs kvs ∧ (kvs.map Prod.fst).Nodup := by
  unfold serDocument at h
  cases hs : serValue v with
  | error e => rw [hs] at h; cases h
  | ok t =>
    rw [hs] at h
    cases t with
    | sc s => cases h
    | arr xs => cases h
    | inl l =>
      simp only [Except.ok.injEq] at h; subst h
      have := serValue_nodup v _ hs
      rw [NodupS] at this
      exact this

/-! ## the decorated tree meets the invariants of C06 -/

mutual
theorem good_dvOf (disp : FloatDisp) : ∀ v : V, NodupS v → GoodV (dvOf disp v)
  | .sc (.str _), _ => by simp [dvOf, GoodV]
  | .sc (.int _), _ => by simp [dvOf, GoodV]
  | .sc (.float _), _ => by simp [dvOf, GoodV]
  | .sc (.bool _), _ => by simp [dvOf, GoodV]
  | .sc (.dt _), _ => by simp [dvOf, GoodV]
  | .arr xs, h => by rw [NodupS] at h; rw [dvOf, GoodV]; exact good_dvOfList disp xs h
  | .inl kvs, h => by
    rw [NodupS] at h
    rw [dvOf, GoodV]
    exact ⟨good_dvOfKVs disp kvs h.1, by rw [keysP_eq, keys_dvOfKVs disp kvs]; exact h.2⟩
theorem good_dvOfList (disp : FloatDisp) : ∀ l : List V, NodupSs l → GoodVs (dvOfList disp l)
  | [], _ => by simp [dvOfList, GoodVs]
  | x :: r, h => by
    rw [NodupSs] at h
    rw [dvOfList, GoodVs]
    exact ⟨by rw [decorOf_dvOf]; exact decOk_unset, good_dvOf disp x h.1, good_dvOfList disp r h.2⟩
theorem good_dvOfKVs (disp : FloatDisp) : ∀ l : List (Bytes × V), NodupSKVs l → GoodPs (dvOfKVs disp l)
  | [], _ => by simp [dvOfKVs, GoodPs]
  | (k, v) :: r, h => by
    rw [NodupSKVs] at h
    rw [dvOfKVs, GoodPs]
    exact ⟨decorOf_dvOf disp v, good_dvOf disp v h.1, good_dvOfKVs disp r h.2⟩
theorem decorOf_dvOf (disp : FloatDisp) : ∀ v : V, decorOf (dvOf disp v) = {}
  | .sc (.str _) => rfl
  | .sc (.int _) => rfl
  | .sc (.float _) => rfl
  | .sc (.bool _) => rfl
  | .sc (.dt _) => rfl
  | .arr _ => by rw [dvOf]; rfl
  | .inl _ => by rw [dvOf]; rfl
theorem keys_dvOfKVs (disp : FloatDisp) : ∀ l : List (Bytes × V), (dvOfKVs disp l).map Prod.fst = l.map Prod.fst
  | [] => rfl
  | (k, v) :: r => by simp [dvOfKVs, keys_dvOfKVs disp r]
end

mutual
theorem leaves_dvOf (disp : FloatDisp) : ∀ v : V, LeavesOkS disp v → LeavesOkV (dvOf disp v)
  | .sc (.str s), _ => by simp only [dvOf, LeavesOkV]; exact LeafOk.str _ _
  | .sc (.int n), h => by
    simp only [dvOf, LeavesOkV]; exact LeafOk.int _ _ (by simpa [LeavesOkS, ScalarOkS] using h)
  | .sc (.float b), h => by
    simp only [dvOf, LeavesOkV]; exact LeafOk.float _ _ _ (by simpa [LeavesOkS, ScalarOkS] using h)
  | .sc (.bool b), _ => by simp only [dvOf, LeavesOkV]; exact LeafOk.bool _ _
  | .sc (.dt d), h => by
    simp only [dvOf, LeavesOkV]
    have h' : Props.C12.FieldsInRange d ∧ ∀ x, d.date = some x → x.year ≤ 9999 := by
      simpa [LeavesOkS, ScalarOkS] using h
    exact LeafOk.dt _ _ h'.1 h'.2
  | .arr xs, h => by rw [LeavesOkS] at h; rw [dvOf, LeavesOkV]; exact leaves_dvOfList disp xs h
  | .inl kvs, h => by rw [LeavesOkS] at h; rw [dvOf, LeavesOkV]; exact leaves_dvOfKVs disp kvs h
theorem leaves_dvOfList (disp : FloatDisp) : ∀ l : List V, LeavesOkSs disp l → LeavesOkVs (dvOfList disp l)
  | [], _ => by simp [dvOfList, LeavesOkVs]
  | x :: r, h => by
    rw [LeavesOkSs] at h; rw [dvOfList, LeavesOkVs]; exact ⟨leaves_dvOf disp x h.1, leaves_dvOfList disp r h.2⟩
theorem leaves_dvOfKVs (disp : FloatDisp) : ∀ l : List (Bytes × V), LeavesOkSKVs disp l → LeavesOkPairs (dvOfKVs disp l)
  | [], _ => by simp [dvOfKVs, LeavesOkPairs]
  | (k, v) :: r, h => by
    rw [LeavesOkSKVs] at h; rw [dvOfKVs, LeavesOkPairs]; exact ⟨leaves_dvOf disp v h.1, leaves_dvOfKVs disp r h.2⟩
end

mutual
theorem depth_dvOf (disp : FloatDisp) : ∀ v : V, depthV (dvOf disp v) = depthS v
  | .sc (.str _) => rfl
  | .sc (.int _) => rfl
  | .sc (.float _) => rfl
  | .sc (.bool _) => rfl
  | .sc (.dt _) => rfl
  | .arr xs => by rw [dvOf, depthV, depthS, depth_dvOfList disp xs]
  | .inl kvs => by rw [dvOf, depthV, depthS, depth_dvOfKVs disp kvs]
theorem depth_dvOfList (disp : FloatDisp) : ∀ l : List V, depthVs (dvOfList disp l) = depthSs l
  | [] => rfl
  | x :: r => by rw [dvOfList, depthVs, depthSs, depth_dvOf disp x, depth_dvOfList disp r]
theorem depth_dvOfKVs (disp : FloatDisp) : ∀ l : List (Bytes × V), depthPairs (dvOfKVs disp l) = depthSKVs l
  | [] => rfl
  | (k, v) :: r => by rw [dvOfKVs, depthPairs, depthSKVs, depth_dvOf disp v, depth_dvOfKVs disp r]
end

mutual
theorem data_canon_dvOf (disp : FloatDisp) : ∀ v : V, dataVal (canonValD (dvOf disp v)) = canonV v
  | .sc (.str _) => rfl
  | .sc (.int _) => rfl
  | .sc (.float _) => rfl
  | .sc (.bool _) => rfl
  | .sc (.dt _) => rfl
  | .arr xs => by rw [dvOf, canonValD, dataVal, canonV, data_canon_dvOfList disp xs]
  | .inl kvs => by rw [dvOf, canonValD, dataVal, canonV, data_canon_dvOfKVs disp kvs]
theorem data_canon_dvOfList (disp : FloatDisp) : ∀ l : List V, dataVals (canonValsD (dvOfList disp l)) = canonVs l
  | [] => rfl
  | x :: r => by rw [dvOfList, canonValsD, dataVals, canonVs, data_canon_dvOf disp x, data_canon_dvOfList disp r]
theorem data_canon_dvOfKVs (disp : FloatDisp) : ∀ l : List (Bytes × V),
    dataPairs (canonPairsD (dvOfKVs disp l)) = canonKVs l
  | [] => rfl
  | (k, v) :: r => by rw [dvOfKVs, canonPairsD, dataPairs, canonKVs, data_canon_dvOf disp v, data_canon_dvOfKVs disp r]
end

/-! ## `eraseTbl` forgets nothing the data shows -/

mutual
theorem dataVal_erase : ∀ v : Val, dataVal (eraseVal v) = dataVal v
  | .str _ => rfl
  | .int _ => rfl
  | .float _ => rfl
  | .bool _ => rfl
  | .dt _ => rfl
  | .arr items => by rw [eraseVal, dataVal, dataVal, dataVals_erase items]
  | .inl items _ _ => by rw [eraseVal, dataVal, dataVal, dataPairs_erase items]
theorem dataVals_erase : ∀ l : List Val, dataVals (eraseVals l) = dataVals l
  | [] => rfl
  | v :: r => by rw [eraseVals, dataVals, dataVals, dataVal_erase v, dataVals_erase r]
theorem dataPairs_erase : ∀ l : List (Bytes × Val), dataPairs (erasePairs l) = dataPairs l
  | [] => rfl
  | (k, v) :: r => by rw [erasePairs, dataPairs, dataPairs, dataVal_erase v, dataPairs_erase r]
end

mutual
theorem dataItem_erase : ∀ i : Item, dataItem (eraseItem i) = dataItem i
  | .value v => by rw [eraseItem, dataItem, dataItem, dataVal_erase v]
  | .table t => by rw [eraseItem, dataItem, dataItem, dataTbl_erase t]
  | .aot ts => by rw [eraseItem, dataItem, dataItem, dataTbls_erase ts]
theorem dataTbl_erase : ∀ t : Tbl, dataTbl (eraseTbl t) = dataTbl t
  | .mk items _ _ _ => by rw [eraseTbl, dataTbl, dataTbl, dataItems_erase items]
theorem dataTbls_erase : ∀ l : List Tbl, dataTbls (eraseTbls l) = dataTbls l
  | [] => rfl
  | t :: r => by rw [eraseTbls, dataTbls, dataTbls, dataTbl_erase t, dataTbls_erase r]
theorem dataItems_erase : ∀ l : List (Bytes × Item), dataItems (eraseItems l) = dataItems l
  | [] => rfl
  | (k, i) :: r => by rw [eraseItems, dataItems, dataItems, dataItem_erase i, dataItems_erase r]
end

/-! ## the document of `to_string` -/

theorem keys_rootItems (disp : FloatDisp) : ∀ l : List (Bytes × V), (rootItems disp l).map Prod.fst = l.map Prod.fst
  | [] => rfl
  | (k, v) :: r => by simp [rootItems, keys_rootItems disp r]

theorem ok_rootItems (disp : FloatDisp) : ∀ l : List (Bytes × V), NodupSKVs l → LeavesOkSKVs disp l →
    depthSKVs l < Value.LIMIT → OkItems (rootItems disp l) 0
  | [], _, _, _ => by simp [rootItems, OkItems]
  | (k, v) :: r, hn, hl, hd => by
    rw [NodupSKVs] at hn
    rw [LeavesOkSKVs] at hl
    rw [depthSKVs] at hd
    rw [rootItems, OkItems, OkI]
    refine ⟨⟨good_dvOf disp v hn.1, decorOf_dvOf disp v, leaves_dvOf disp v hl.1, ?_⟩,
      ok_rootItems disp r hn.2 hl.2 (by omega)⟩
    rw [depth_dvOf]; omega

theorem expect_rootItems (disp : FloatDisp) : ∀ l : List (Bytes × V),
    dataItems (expectValues (rootItems disp l) ++ expectTables (rootItems disp l)) = canonKVs l
  | [] => rfl
  | (k, v) :: r => by
    have ih := expect_rootItems disp r
    simp only [rootItems, expectValues, expectTables, List.cons_append, dataItems, dataItem, canonKVs,
      data_canon_dvOf disp v]
    rw [ih]

/-- the text `to_document(..).to_string()` prints for a serialized table, read back by the document parser:
    exactly the table, every NaN reduced to its sign -/
theorem parse_editDoc (disp : FloatDisp) (kvs : List (Bytes × V)) (hn : NodupSKVs kvs ∧ (kvs.map Prod.fst).Nodup)
    (hl : LeavesOkSKVs disp kvs) (hd : depthSKVs kvs < Value.LIMIT) :
    (Doc.parseDocument (printDoc (editDoc disp kvs))).map dataTbl = some (canonKVs kvs) := by
  have hok : OkT (editDoc disp kvs) 0 := by
    rw [editDoc, OkT]
    exact ⟨rfl, rfl, by decide, by rw [keys_rootItems]; exact hn.2, ok_rootItems disp kvs hn.1 hl hd⟩
  have h := doc_roundtrip (editDoc disp kvs) hok
  cases hp : Doc.parseDocument (printDoc (editDoc disp kvs)) with
  | none => rw [hp] at h; cases h
  | some T =>
    rw [hp] at h
    simp only [Option.map, Option.some.injEq] at h ⊢
    rw [← dataTbl_erase T, h, editDoc, expectT, dataTbl, expect_rootItems]

end TomlVerif.Lemmas.Ser07Text
