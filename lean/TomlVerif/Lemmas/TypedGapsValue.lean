import TomlVerif.Lemmas.SerTyped07h
import TomlVerif.Lemmas.TomlValue17
import TomlVerif.Lemmas.DeTyped13f
/-! C07, reading back, `toml::Value` INSIDE a typed value (the case `hasValue ty = true` left out by
    `Lemmas/SerTyped07e.lean`), part 1: the leaf.

    A field of type `toml::Value` holding `v` serializes through `impl Serialize for Value` (`serCalls v`: the three
    passes at every table), read as serde calls (`svalOfSer`), into the `toml_edit` value `x` (`serValue`). Whatever data
    `w` holds `x` (`Sim cf`: doubles after `cf`, the entries of every table in ANY order), `Value`'s visitor of the
    default build (`BTreeMap`, `fl = .sorted`) on `w` returns `mapF (cf ∘ clearNanSign) v`: the value itself, its doubles
    after the serializer (`copysign` on a NaN) and the transport (`cf`). -/
namespace TomlVerif.Lemmas.TypedGaps
open TomlVerif TomlVerif.Model TomlVerif.Model.TomlValue TomlVerif.Model.DeRoutes TomlVerif.Model.DeTyped
open TomlVerif.Model.SerTyped TomlVerif.Model.Ser TomlVerif.Spec TomlVerif.Spec.Serde
open TomlVerif.Lemmas.SerTyped07 TomlVerif.Lemmas.DeTyped13 TomlVerif.Lemmas.DeRoutes13
open TomlVerif.Lemmas.RoundTrip17 (KSorted ksorted_nodup placeTV placeTVs placeTVPs placeTVPs_eq_map insertAll_of_sorted
  mem_serOrder serOrder_keys_perm)

/-! ## doubles of a `toml::Value` -/

mutual
/-- `g` on every double of the tree -/
def mapF (g : Nat → Nat) : TV → TV
  | .float b => .float (g b)
  | .arr l => .arr (mapFs g l)
  | .tbl items => .tbl (mapFPs g items)
  | .str s => .str s
  | .int n => .int n
  | .bool b => .bool b
  | .dt d => .dt d
def mapFs (g : Nat → Nat) : List TV → List TV
  | [] => []
  | v :: r => mapF g v :: mapFs g r
def mapFPs (g : Nat → Nat) : List (Bytes × TV) → List (Bytes × TV)
  | [] => []
  | (k, v) :: r => (k, mapF g v) :: mapFPs g r
end

theorem mapFPs_eq_map (g : Nat → Nat) (l : List (Bytes × TV)) : mapFPs g l = l.map fun e => (e.1, mapF g e.2) := by
  induction l with
  | nil => rfl
  | cons x r ih => obtain ⟨k, v⟩ := x; simp [mapFPs, ih]

theorem mapFPs_keys (g : Nat → Nat) (l : List (Bytes × TV)) : (mapFPs g l).map Prod.fst = l.map Prod.fst := by
  rw [mapFPs_eq_map]; simp

mutual
theorem mapF_id : ∀ v : TV, mapF id v = v
  | .float _ => by simp [mapF]
  | .arr l => by simp [mapF, mapFs_id l]
  | .tbl items => by simp [mapF, mapFPs_id items]
  | .str _ => by simp [mapF]
  | .int _ => by simp [mapF]
  | .bool _ => by simp [mapF]
  | .dt _ => by simp [mapF]
theorem mapFs_id : ∀ l : List TV, mapFs id l = l
  | [] => rfl
  | v :: r => by simp [mapFs, mapF_id v, mapFs_id r]
theorem mapFPs_id : ∀ l : List (Bytes × TV), mapFPs id l = l
  | [] => rfl
  | (k, v) :: r => by simp [mapFPs, mapF_id v, mapFPs_id r]
end

/-! ## the three passes, as calls -/

theorem serCallsPairs_eq_map (items : List (Bytes × TV)) :
    serCallsPairs items =
      items.map fun e => (e.1, ((if pass1 e.2 then 1 else if pass2 e.2 then 2 else 3), serCalls e.2)) := by
  induction items with
  | nil => rfl
  | cons x r ih => obtain ⟨k, v⟩ := x; simp [serCallsPairs, ih]

theorem serOrderSer_serCallsPairs (items : List (Bytes × TV)) :
    serOrderSer (serCallsPairs items) = (serOrder items).map fun e => (e.1, serCalls e.2) := by
  rw [serCallsPairs_eq_map]
  unfold serOrderSer serOrder
  simp only [List.filter_map, List.map_append, List.map_map]
  have e1 : ∀ l : List (Bytes × TV),
      (l.filter ((fun e : Bytes × (Nat × Ser) => e.2.1 == 1) ∘
        fun e : Bytes × TV => (e.1, ((if pass1 e.2 then 1 else if pass2 e.2 then 2 else 3), serCalls e.2)))) =
      l.filter fun e => pass1 e.2 := by
    intro l
    apply List.filter_congr
    intro e _
    rcases TomlValue17.pass_exactly_one e.2 with ⟨a, b, c⟩ | ⟨a, b, c⟩ | ⟨a, b, c⟩ <;> simp [a, b]
  have e2 : ∀ l : List (Bytes × TV),
      (l.filter ((fun e : Bytes × (Nat × Ser) => e.2.1 == 2) ∘
        fun e : Bytes × TV => (e.1, ((if pass1 e.2 then 1 else if pass2 e.2 then 2 else 3), serCalls e.2)))) =
      l.filter fun e => pass2 e.2 := by
    intro l
    apply List.filter_congr
    intro e _
    rcases TomlValue17.pass_exactly_one e.2 with ⟨a, b, c⟩ | ⟨a, b, c⟩ | ⟨a, b, c⟩ <;> simp [a, b]
  have e3 : ∀ l : List (Bytes × TV),
      (l.filter ((fun e : Bytes × (Nat × Ser) => e.2.1 == 3) ∘
        fun e : Bytes × TV => (e.1, ((if pass1 e.2 then 1 else if pass2 e.2 then 2 else 3), serCalls e.2)))) =
      l.filter fun e => pass3 e.2 := by
    intro l
    apply List.filter_congr
    intro e _
    rcases TomlValue17.pass_exactly_one e.2 with ⟨a, b, c⟩ | ⟨a, b, c⟩ | ⟨a, b, c⟩ <;> simp [a, b, c]
  rw [e1, e2, e3]
  rfl

/-! ## `serMap` / `serSeq` on the calls of a `toml::Value` -/

/-- the image of the entries of a `toml::Value` table, entry by entry -/
def ImgRel : List (Bytes × TV) → List (Bytes × V) → Prop
  | [], [] => True
  | (k, v) :: r, (k', x) :: r' => k' = k ∧ serValue (svalOfSer (serCalls v)) = .ok x ∧ ImgRel r r'
  | _, _ => False

def ImgRelList : List TV → List V → Prop
  | [], [] => True
  | v :: r, x :: r' => serValue (svalOfSer (serCalls v)) = .ok x ∧ ImgRelList r r'
  | _, _ => False

theorem serMap_leaf : ∀ (M : List (Bytes × TV)) (acc out : List (Bytes × V)), (M.map Prod.fst).Nodup →
    (∀ k ∈ M.map Prod.fst, k ∉ acc.map Prod.fst) →
    serMap (svalOfSerMap (M.map fun e => (e.1, serCalls e.2))) acc = .ok out →
    ∃ img, out = acc ++ img ∧ ImgRel M img
  | [], acc, out, _, _, h => by
    simp only [List.map_nil, svalOfSerMap, serMap, Except.ok.injEq] at h
    exact ⟨[], by simp [h], trivial⟩
  | (k, v) :: r, acc, out, hn, hd, h => by
    simp only [List.map_cons, List.nodup_cons] at hn
    simp only [List.map_cons, svalOfSerMap] at h
    unfold serMap at h
    simp only [serKey] at h
    split at h
    · rename_i hnone
      have := svalOfSer_notNone (serCalls v)
      rw [hnone] at this
      simp [isNoneS] at this
    · split at h
      · cases h
      · rename_i x hx
        rw [aset_new k x acc (hd k (by simp))] at h
        obtain ⟨img, ho, hi⟩ := serMap_leaf r (acc ++ [(k, x)]) out hn.2
          (by intro k' hk' hm
              simp only [List.map_append, List.map_cons, List.map_nil, List.mem_append, List.mem_singleton] at hm
              rcases hm with hm | hm
              · exact hd k' (by simp [hk']) hm
              · subst hm; exact hn.1 hk') h
        exact ⟨(k, x) :: img, by simp [ho], rfl, hx, hi⟩

theorem serSeq_leaf : ∀ (l : List TV) (xs : List V), serSeq (svalOfSerList (serCallsList l)) = .ok xs → ImgRelList l xs
  | [], xs, h => by
    simp only [serCallsList, svalOfSerList] at h
    rw [serSeq_nil xs h]; trivial
  | v :: r, xs, h => by
    simp only [serCallsList, svalOfSerList] at h
    obtain ⟨x, xs', rfl, hx, hr⟩ := serSeq_cons _ _ _ h
    exact ⟨hx, serSeq_leaf r xs' hr⟩

/-! ## the leaf -/

theorem serOrder_perm (l : List (Bytes × TV)) : (serOrder l).Perm l :=
  TomlValue17.filter3_perm (fun e : Bytes × TV => pass1 e.2) (fun e => pass2 e.2) (fun e => pass3 e.2)
    (fun e => TomlValue17.pass_exactly_one e.2) l

/-- what the serializer (`copysign` on a NaN) and the transport (`cf`) do to a double -/
def leafF (cf : Nat → Nat) : Nat → Nat := fun b => cf (clearNanSign b)

/-- the statement for one embedded `toml::Value`: whatever data holds its serialized form, `Value`'s visitor
(`BTreeMap` build) accepts it and returns the value with its doubles after `leafF cf` -/
def LeafOk (cf : Nat → Nat) (v : TV) : Prop :=
  ∀ (x : V) (w : TV), serValue (svalOfSer (serCalls v)) = .ok x → Sim cf x w →
    WfTV w ∧ placeTV .sorted w = mapF (leafF cf) v

theorem leaf_pairs (cf : Nat → Nat) : ∀ (M : List (Bytes × TV)) (img : List (Bytes × V)) (es0 : List (Bytes × TV)),
    (∀ e ∈ M, LeafOk cf e.2) → ImgRel M img → SimKVs cf img es0 →
    WfPs es0 ∧ placeTVPs .sorted es0 = mapFPs (leafF cf) M ∧ es0.map Prod.fst = M.map Prod.fst
  | [], [], es0, _, _, hs => by
    simp only [SimKVs] at hs; subst hs
    simp [WfPs, placeTVPs, mapFPs]
  | [], _ :: _, _, _, hi, _ => by simp [ImgRel] at hi
  | _ :: _, [], _, _, hi, _ => by simp [ImgRel] at hi
  | (k, v) :: r, (k', x) :: r', es0, ih, hi, hs => by
    simp only [ImgRel] at hi
    obtain ⟨rfl, hx, hr⟩ := hi
    simp only [SimKVs] at hs
    obtain ⟨y, es', rfl, hy, hr'⟩ := hs
    obtain ⟨h1, h2⟩ := ih (k', v) (by simp) x y hx hy
    obtain ⟨a, b, c⟩ := leaf_pairs cf r r' es' (fun e he => ih e (by simp [he])) hr hr'
    simp only [WfPs, placeTVPs, mapFPs, List.map_cons, h2, b, c]
    exact ⟨⟨h1, a⟩, trivial, trivial⟩

theorem leaf_list (cf : Nat → Nat) : ∀ (l : List TV) (xs : List V) (ws : List TV),
    (∀ v ∈ l, LeafOk cf v) → ImgRelList l xs → SimList cf xs ws →
    WfVs ws ∧ placeTVs .sorted ws = mapFs (leafF cf) l
  | [], [], ws, _, _, hs => by
    simp only [SimList] at hs; subst hs
    simp [WfVs, placeTVs, mapFs]
  | [], _ :: _, _, _, hi, _ => by simp [ImgRelList] at hi
  | _ :: _, [], _, _, hi, _ => by simp [ImgRelList] at hi
  | v :: r, x :: r', ws, ih, hi, hs => by
    simp only [ImgRelList] at hi
    obtain ⟨hx, hr⟩ := hi
    simp only [SimList] at hs
    obtain ⟨y, ws', rfl, hy, hr'⟩ := hs
    obtain ⟨h1, h2⟩ := ih v (by simp) x y hx hy
    obtain ⟨a, b⟩ := leaf_list cf r r' ws' (fun e he => ih e (by simp [he])) hr hr'
    simp only [WfVs, placeTVs, mapFs, h2, b]
    exact ⟨⟨h1, a⟩, trivial⟩

theorem dtName_eq : dtName = NAME := by decide
theorem dtField_eq : dtField = FIELD := by decide

mutual
theorem leaf_ok (cf : Nat → Nat) : ∀ v : TV, valueOk v = true → LeafOk cf v
  | .str s, _ => by
    intro x w hx hs
    simp only [serCalls, svalOfSer, serValue, Except.ok.injEq] at hx; subst hx
    simp only [Sim] at hs; subst hs
    simp [WfTV, placeTV, mapF]
  | .int n, _ => by
    intro x w hx hs
    simp only [serCalls, svalOfSer, serValue, is128, Bool.false_eq_true, if_false] at hx
    have : (IntW.i64 == IntW.u64) = false := by decide
    simp only [this, Bool.false_and, Bool.false_eq_true, if_false, Except.ok.injEq] at hx; subst hx
    simp only [Sim] at hs; subst hs
    simp [WfTV, placeTV, mapF]
  | .float b, _ => by
    intro x w hx hs
    simp only [serCalls, svalOfSer, serValue, Except.ok.injEq] at hx; subst hx
    simp only [Sim] at hs; subst hs
    simp [WfTV, placeTV, mapF, leafF]
  | .bool b, _ => by
    intro x w hx hs
    simp only [serCalls, svalOfSer, serValue, Except.ok.injEq] at hx; subst hx
    simp only [Sim] at hs; subst hs
    simp [WfTV, placeTV, mapF]
  | .dt d, h => by
    intro x w hx hs
    simp only [valueOk] at h
    simp only [serCalls, svalOfSer, svalOfSerFields] at hx
    rw [← dtName_eq, ← dtField_eq, serValue_dt d h] at hx
    injection hx with hx; subst hx
    simp only [Sim] at hs; subst hs
    simp only [dtOk, beq_iff_eq] at h
    simp [WfTV, placeTV, mapF, h]
  | .arr l, h => by
    intro x w hx hs
    simp only [valueOk] at h
    simp only [serCalls, svalOfSer, serValue] at hx
    split at hx
    · rename_i xs hxs
      injection hx with hx; subst hx
      simp only [Sim] at hs
      obtain ⟨ws, rfl, hws⟩ := hs
      obtain ⟨a, b⟩ := leaf_list cf l xs ws (leaf_ok_list cf l h) (serSeq_leaf l xs hxs) hws
      simp only [WfTV, placeTV, mapF, b]
      exact ⟨a, trivial⟩
    · cases hx
  | .tbl items, h => by
    intro x w hx hs
    simp only [valueOk, Bool.and_eq_true, Bool.not_eq_true'] at h
    obtain ⟨⟨hasc, hnf⟩, hps⟩ := h
    have hks : KSorted items := ascending_ksorted items hasc
    have hnd : (items.map Prod.fst).Nodup := ksorted_nodup items hks
    have hfield : FIELD ∉ items.map Prod.fst := by
      intro hm
      have : (items.map Prod.fst).contains FIELD = true := by simpa using hm
      rw [this] at hnf; cases hnf
    simp only [serCalls, svalOfSer, serOrderSer_serCallsPairs, serValue] at hx
    split at hx
    · rename_i out hout
      injection hx with hx; subst hx
      have hndM : ((serOrder items).map Prod.fst).Nodup := ((serOrder_keys_perm items).nodup_iff).2 hnd
      obtain ⟨img, ho, hi⟩ := serMap_leaf (serOrder items) [] out hndM (by simp) hout
      simp only [List.nil_append] at ho; subst ho
      simp only [Sim] at hs
      obtain ⟨es, es0, rfl, hp, hkv⟩ := hs
      have ihM : ∀ e ∈ serOrder items, LeafOk cf e.2 :=
        fun e he => leaf_ok_pairs cf items hps e ((mem_serOrder items e).1 he)
      obtain ⟨a, b, c⟩ := leaf_pairs cf (serOrder items) out es0 ihM hi hkv
      have hkeys : (es.map Prod.fst).Perm (items.map Prod.fst) := by
        refine (hp.map Prod.fst).trans ?_
        rw [c]; exact serOrder_keys_perm items
      refine ⟨?_, ?_⟩
      · rw [WfTV]
        refine ⟨?_, (hkeys.nodup_iff).2 hnd, fun hm => hfield (hkeys.subset hm)⟩
        rw [wfPs_iff] at a ⊢
        exact fun e he => a e (hp.subset he)
      · simp only [placeTV, mapF, TV.tbl.injEq]
        apply insertAll_of_sorted
        · unfold KSorted at hks ⊢
          rw [mapFPs_eq_map, List.pairwise_map]
          exact hks
        · rw [placeTVPs_eq_map]
          refine (hp.map _).trans ?_
          rw [← placeTVPs_eq_map, b, mapFPs_eq_map, mapFPs_eq_map]
          exact (serOrder_perm items).map _
    · cases hx
theorem leaf_ok_list (cf : Nat → Nat) : ∀ l : List TV, valueOkList l = true → ∀ v ∈ l, LeafOk cf v
  | [], _, v, hv => by cases hv
  | a :: r, h, v, hv => by
    simp only [valueOkList, Bool.and_eq_true] at h
    rcases List.mem_cons.1 hv with hv | hv
    · rw [hv]; exact leaf_ok cf a h.1
    · exact leaf_ok_list cf r h.2 v hv
theorem leaf_ok_pairs (cf : Nat → Nat) : ∀ l : List (Bytes × TV), valueOkPairs l = true → ∀ e ∈ l, LeafOk cf e.2
  | [], _, e, he => by cases he
  | (k, a) :: r, h, e, he => by
    simp only [valueOkPairs, Bool.and_eq_true] at h
    rcases List.mem_cons.1 he with he | he
    · rw [he]; exact leaf_ok cf a h.1
    · exact leaf_ok_pairs cf r h.2 e he
end

/-- **the leaf rule**: both deserializer families (default build), handed any data holding the serialized form of an
embedded `toml::Value` `v`, return `v` with its doubles after `leafF cf` -/
theorem good_value (cf : Nat → Nat) (v : TV) (h : valueOk v = true) (x : V) (w : TV)
    (hx : serValue (svalOfSer (serCalls v)) = .ok x) (hs : Sim cf x w) :
    Good .sorted .value w (.value (mapF (leafF cf) v)) := by
  obtain ⟨hw, hp⟩ := leaf_ok cf v h x w hx hs
  constructor
  · intro c it hit
    subst hit
    unfold decodeEdit
    rw [value_of_item .sorted it hw, hp]
    rfl
  · intro cv
    unfold decodeValue
    rw [show currentDtAsMap = true from rfl, presValue_true_eq, visit_presEdit_wf .sorted _ w hw, hp]
    rfl

end TomlVerif.Lemmas.TypedGaps
