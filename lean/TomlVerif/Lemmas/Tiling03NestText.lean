import TomlVerif.Lemmas.Tiling03HdrMain
import TomlVerif.Lemmas.Tiling03HdrKeyPath
/-! C03, nested documents — the printer half: the pre-order text of a table tree, and the
    printer on documents whose entries are visited in position order. -/
namespace TomlVerif.Lemmas.Tiling03Nest
open TomlVerif TomlVerif.Spec TomlVerif.Model TomlVerif.Model.Strings TomlVerif.Model.Value
open TomlVerif.Model.Cst TomlVerif.Model.Encode TomlVerif.Lemmas.Cst03 TomlVerif.Lemmas.Tiling03
open TomlVerif.Lemmas.Tiling03Hdr

/-- the text `visit_table` writes for one table (taken with `first_table = false`; for the
    entries of a parsed document the flag does not matter, `entOk`) -/
def entText (f : Bytes → Bytes) (inp : Bytes) (t : CTbl) (path : List CKey) (isArr : Bool) : Bytes :=
  (visitTable f inp ⟨0, t, path, isArr⟩ false).1

mutual
/-- the sections of a table and of the tables below it, in the order `visit_nested_tables`
    walks them (pre-order) -/
def textTbl (f : Bytes → Bytes) (inp : Bytes) : CTbl → List CKey → Bool → Bytes
  | .mk items imp dot p dec sp, path, isArr =>
    (if dot then [] else entText f inp (.mk items imp dot p dec sp) path isArr) ++ textItems f inp items path
def textItems (f : Bytes → Bytes) (inp : Bytes) : List (CKey × CItem) → List CKey → Bytes
  | [], _ => []
  | (k, it) :: r, path =>
    match it with
    | .table t => textTbl f inp t (path ++ [k]) false ++ textItems f inp r path
    | .aot ts _ => textAot f inp ts (path ++ [k]) ++ textItems f inp r path
    | .value _ => textItems f inp r path
def textAot (f : Bytes → Bytes) (inp : Bytes) : List CTbl → List CKey → Bytes
  | [], _ => []
  | t :: r, path => textTbl f inp t path true ++ textAot f inp r path
end

def entsText (f : Bytes → Bytes) (inp : Bytes) : List Entry → Bytes
  | [] => []
  | e :: r => entText f inp e.tbl e.path e.isArr ++ entsText f inp r

theorem entsText_append (f : Bytes → Bytes) (inp : Bytes) : ∀ (a b : List Entry),
    entsText f inp (a ++ b) = entsText f inp a ++ entsText f inp b
  | [], b => by simp [entsText]
  | e :: r, b => by simp [entsText, entsText_append f inp r b, List.append_assoc]

theorem entText_pos (f : Bytes → Bytes) (inp : Bytes) (q : Nat) (t : CTbl) (path : List CKey) (isArr ft : Bool) :
    (visitTable f inp ⟨q, t, path, isArr⟩ ft).1 = (visitTable f inp ⟨0, t, path, isArr⟩ ft).1 := rfl

mutual
theorem visitTbl_text (f : Bytes → Bytes) (inp : Bytes) : ∀ (t : CTbl) (path : List CKey) (isArr : Bool)
    (st : Nat × List Entry),
    entsText f inp (visitTbl t path isArr st).2 = entsText f inp st.2 ++ textTbl f inp t path isArr
  | .mk items imp dot p dec sp, path, isArr, st => by
    rw [visitTbl, textTbl]
    cases dot with
    | true =>
      simp only [if_true, List.nil_append]
      exact visitItems_text f inp items path st
    | false =>
      simp only [Bool.false_eq_true, if_false]
      rw [visitItems_text f inp items path _, entsText_append]
      simp [entsText, List.append_assoc]
theorem visitItems_text (f : Bytes → Bytes) (inp : Bytes) : ∀ (items : List (CKey × CItem)) (path : List CKey)
    (st : Nat × List Entry),
    entsText f inp (visitItems items path st).2 = entsText f inp st.2 ++ textItems f inp items path
  | [], _, st => by simp [visitItems, textItems]
  | (k, .table t) :: r, path, st => by
    rw [visitItems, textItems]
    rw [visitItems_text f inp r path _, visitTbl_text f inp t (path ++ [k]) false st, List.append_assoc]
  | (k, .aot ts sp) :: r, path, st => by
    rw [visitItems, textItems]
    rw [visitItems_text f inp r path _, visitAot_text f inp ts (path ++ [k]) st, List.append_assoc]
  | (k, .value v) :: r, path, st => by
    rw [visitItems, textItems]
    exact visitItems_text f inp r path st
theorem visitAot_text (f : Bytes → Bytes) (inp : Bytes) : ∀ (ts : List CTbl) (path : List CKey)
    (st : Nat × List Entry),
    entsText f inp (visitAot ts path st).2 = entsText f inp st.2 ++ textAot f inp ts path
  | [], _, st => by simp [visitAot, textAot]
  | t :: r, path, st => by
    rw [visitAot, textAot, visitAot_text f inp r path _, visitTbl_text f inp t path true st, List.append_assoc]
end

/-- an entry whose text does not depend on `first_table`: the root, a table with an explicit
    prefix decor (every header the parser reads), or an implicit table without values -/
def entOk (e : Entry) : Bool :=
  e.path.isEmpty || e.tbl.decor.pre.isSome ||
    (!e.isArr && e.tbl.implicit && (valuesTbl e.tbl.items []).isEmpty)

theorem visitTable_entOk (f : Bytes → Bytes) (inp : Bytes) (e : Entry) (ft : Bool) (h : entOk e = true) :
    (visitTable f inp e ft).1 = entText f inp e.tbl e.path e.isArr := by
  obtain ⟨q, t, path, isArr⟩ := e
  unfold entText
  simp only [entOk, Bool.or_eq_true, Bool.and_eq_true, Bool.not_eq_true'] at h
  simp only [visitTable]
  congr 1
  cases hpe : path.isEmpty with
  | true => simp
  | false =>
    simp only [hpe, Bool.false_eq_true, if_false] at h ⊢
    cases isArr with
    | true =>
      simp at h
      cases hp : t.decor.pre with
      | none => rw [hp] at h; cases h
      | some r => simp [prefixEncode, hp]
    | false =>
      cases hv : (!(t.implicit && (valuesTbl t.items []).isEmpty)) with
      | false => simp
      | true =>
        cases hp : t.decor.pre with
        | none =>
          rw [hp] at h
          simp at h
          rw [h.1, h.2] at hv; cases hv
        | some r => simp [prefixEncode, hp]

theorem visitTables_entOk (f : Bytes → Bytes) (inp : Bytes) : ∀ (l : List Entry) (ft : Bool),
    l.all entOk = true → visitTables f inp l ft = entsText f inp l
  | [], _, _ => rfl
  | e :: r, ft, h => by
    simp only [List.all_cons, Bool.and_eq_true] at h
    simp only [visitTables, entsText]
    rw [visitTable_entOk f inp e ft h.1, visitTables_entOk f inp r _ h.2]

/-- the entries `visit_nested_tables` collects -/
def docEntries (d : CDoc) : List Entry := (visitTbl d.root [] false (0, [])).2

/-- the printer-side class: the root carries no decor, the tables are met in position order
    (every sub-table after its parent, sections in source order), and every header has an explicit
    prefix decor -/
def preorderDoc (d : CDoc) : Bool :=
  d.root.decor.pre.isNone && d.root.decor.suf.isNone && sortedFrom 0 (docEntries d) && (docEntries d).all entOk

/-- the printer on a pre-order document: the sections in tree order, then the trailing text -/
theorem printDocG_preorder (f : Bytes → Bytes) (inp : Bytes) (d : CDoc) (h : preorderDoc d = true) :
    printDocG f inp d = textTbl f inp d.root [] false ++ encRaw f inp d.trailing := by
  simp only [preorderDoc, Bool.and_eq_true, Option.isNone_iff_eq_none] at h
  obtain ⟨⟨⟨h1, h2⟩, h3⟩, h4⟩ := h
  unfold printDocG
  simp only [prefixEncode, suffixEncode, h1, h2, List.nil_append, List.append_nil]
  have h3' : sortedFrom 0 (visitTbl d.root [] false (0, [])).2 = true := h3
  have h4' : (visitTbl d.root [] false (0, [])).2.all entOk = true := h4
  rw [sortEntries_sorted 0 _ h3', visitTables_entOk f inp _ _ h4', visitTbl_text]
  simp [entsText]

end TomlVerif.Lemmas.Tiling03Nest
