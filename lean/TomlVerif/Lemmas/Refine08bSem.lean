import TomlVerif.Lemmas.Refine08bSort
/-! `sort` without a side condition: on the semantic tree of `Model/Tree.lean` (`eraseTbl`), which
    keeps the `dotted` flags, `Table::sort_values` / `InlineTable::sort_values` are functions, and
    path updates of the decorated tree commute with erasure to it. -/
namespace TomlVerif.Lemmas.Refine08bSem
open TomlVerif TomlVerif.Model TomlVerif.Model.Cst TomlVerif.Model.Edit TomlVerif.Lemmas.Edit08
open TomlVerif.Spec.OrderedPlain TomlVerif.Lemmas.Refine08bSort

/-- node updates on the semantic tree -/
structure SUpd where
  tbl : Tbl → Option Tbl
  val : Val → Option Val
  aot : List Tbl → Option (List Tbl)

mutual
def supdVal (u : SUpd) : List Seg → Val → Option Val
  | [], v => u.val v
  | s :: r, .arr items =>
    match s.idx with
    | some i => (supdElems u i r items).map .arr
    | none => none
  | s :: r, .inl items imp dot =>
    match s.key with
    | some k => (supdKvs u k r items).map fun items' => .inl items' imp dot
    | none => none
  | _ :: _, _ => none
def supdElems (u : SUpd) : Nat → List Seg → List Val → Option (List Val)
  | _, _, [] => none
  | 0, r, v :: rest => (supdVal u r v).map fun v' => v' :: rest
  | i + 1, r, v :: rest => (supdElems u i r rest).map fun rest' => v :: rest'
def supdKvs (u : SUpd) (k : Bytes) : List Seg → List (Bytes × Val) → Option (List (Bytes × Val))
  | _, [] => none
  | r, (k', v) :: rest =>
    if k' == k then (supdVal u r v).map fun v' => (k', v') :: rest
    else (supdKvs u k r rest).map fun rest' => (k', v) :: rest'
end

mutual
def supdTbl (u : SUpd) : List Seg → Tbl → Option Tbl
  | [], t => u.tbl t
  | s :: r, .mk items imp dot p =>
    match s.key with
    | some k => (supdItems u k r items).map fun items' => .mk items' imp dot p
    | none => none
def supdItems (u : SUpd) (k : Bytes) : List Seg → List (Bytes × Item) → Option (List (Bytes × Item))
  | _, [] => none
  | r, (k', it) :: rest =>
    if k' == k then (supdItem u r it).map fun it' => (k', it') :: rest
    else (supdItems u k r rest).map fun rest' => (k', it) :: rest'
def supdItem (u : SUpd) : List Seg → Item → Option Item
  | r, .value v => (supdVal u r v).map .value
  | r, .table t => (supdTbl u r t).map .table
  | [], .aot ts => (u.aot ts).map .aot
  | s :: r, .aot ts =>
    match s.idx with
    | some i => (supdNth u i r ts).map .aot
    | none => none
def supdNth (u : SUpd) : Nat → List Seg → List Tbl → Option (List Tbl)
  | _, _, [] => none
  | 0, r, t :: rest => (supdTbl u r t).map fun t' => t' :: rest
  | i + 1, r, t :: rest => (supdNth u i r rest).map fun rest' => t :: rest'
end

/-- the node updates act on the semantic tree as `su` whenever they apply -/
structure SRefines (u : Upd) (su : SUpd) : Prop where
  tbl : ∀ t t', u.tbl t = some t' → su.tbl (eraseTbl t) = some (eraseTbl t')
  val : ∀ v v', u.val v = some v' → su.val (eraseVal v) = some (eraseVal v')
  aot : ∀ ts ts', u.aot ts = some ts' → su.aot (eraseTbls ts) = some (eraseTbls ts')

variable {u : Upd} {su : SUpd}

mutual
theorem srefine_val (hr : SRefines u su) : ∀ (p : List Seg) (v v' : CVal), updVal u p v = some v' →
    supdVal su p (eraseVal v) = some (eraseVal v')
  | [], v, v', h => by simp only [updVal] at h; simpa [supdVal] using hr.val v v' h
  | _ :: _, .scalar _ _ _, _, h => by simp [updVal] at h
  | s :: r, .arr items tr c d sp, v', h => by
    simp only [updVal] at h
    cases hi : s.idx with
    | none => simp [hi] at h
    | some i =>
      simp only [hi] at h
      obtain ⟨items', hu, rfl⟩ := Option.map_eq_some_iff.mp h
      have ih := srefine_elems hr i r items items' hu
      simp [eraseVal, supdVal, hi, ih]
  | s :: r, .inl items pre imp dot d sp, v', h => by
    simp only [updVal] at h
    cases hi : s.key with
    | none => simp [hi] at h
    | some k =>
      simp only [hi] at h
      obtain ⟨items', hu, rfl⟩ := Option.map_eq_some_iff.mp h
      have ih := srefine_kvs hr k r items items' hu
      simp [eraseVal, supdVal, hi, ih]
theorem srefine_elems (hr : SRefines u su) : ∀ (i : Nat) (r : List Seg) (items items' : List CVal),
    updElems u i r items = some items' → supdElems su i r (eraseVals items) = some (eraseVals items')
  | _, _, [], _, h => by simp [updElems] at h
  | 0, r, v :: rest, items', h => by
    simp only [updElems] at h
    obtain ⟨v', hu, rfl⟩ := Option.map_eq_some_iff.mp h
    have ih := srefine_val hr r v v' hu
    simp [eraseVals, supdElems, ih]
  | i + 1, r, v :: rest, items', h => by
    simp only [updElems] at h
    obtain ⟨rest', hu, rfl⟩ := Option.map_eq_some_iff.mp h
    have ih := srefine_elems hr i r rest rest' hu
    simp [eraseVals, supdElems, ih]
theorem srefine_kvs (hr : SRefines u su) (k : Bytes) : ∀ (r : List Seg) (items items' : List (CKey × CVal)),
    updKvs u k r items = some items' → supdKvs su k r (eraseKvs items) = some (eraseKvs items')
  | _, [], _, h => by simp [updKvs] at h
  | r, (k', v) :: rest, items', h => by
    simp only [updKvs] at h
    by_cases hk : (k'.key == k) = true
    · simp only [hk, if_true] at h
      obtain ⟨v', hu, rfl⟩ := Option.map_eq_some_iff.mp h
      have ih := srefine_val hr r v v' hu
      simp [eraseKvs, supdKvs, hk, ih]
    · have hk' : (k'.key == k) = false := by simpa using hk
      simp only [hk', Bool.false_eq_true, if_false] at h
      obtain ⟨rest', hu, rfl⟩ := Option.map_eq_some_iff.mp h
      have ih := srefine_kvs hr k r rest rest' hu
      simp [eraseKvs, supdKvs, hk', ih]
end

mutual
theorem srefine_tbl (hr : SRefines u su) : ∀ (p : List Seg) (t t' : CTbl), updTbl u p t = some t' →
    supdTbl su p (eraseTbl t) = some (eraseTbl t')
  | [], t, t', h => by simp only [updTbl] at h; simpa [supdTbl] using hr.tbl t t' h
  | s :: r, .mk items imp dot ps dec sp, t', h => by
    simp only [updTbl] at h
    cases hi : s.key with
    | none => simp [hi] at h
    | some k =>
      simp only [hi] at h
      obtain ⟨items', hu, rfl⟩ := Option.map_eq_some_iff.mp h
      have ih := srefine_items hr k r items items' hu
      simp [eraseTbl, supdTbl, hi, ih]
theorem srefine_items (hr : SRefines u su) (k : Bytes) : ∀ (r : List Seg) (items items' : List (CKey × CItem)),
    updItems u k r items = some items' → supdItems su k r (eraseItems items) = some (eraseItems items')
  | _, [], _, h => by simp [updItems] at h
  | r, (k', it) :: rest, items', h => by
    simp only [updItems] at h
    by_cases hk : (k'.key == k) = true
    · simp only [hk, if_true] at h
      obtain ⟨it', hu, rfl⟩ := Option.map_eq_some_iff.mp h
      have ih := srefine_item hr r it it' hu
      simp [eraseItems, supdItems, hk, ih]
    · have hk' : (k'.key == k) = false := by simpa using hk
      simp only [hk', Bool.false_eq_true, if_false] at h
      obtain ⟨rest', hu, rfl⟩ := Option.map_eq_some_iff.mp h
      have ih := srefine_items hr k r rest rest' hu
      simp [eraseItems, supdItems, hk', ih]
theorem srefine_item (hr : SRefines u su) : ∀ (r : List Seg) (it it' : CItem), updItem u r it = some it' →
    supdItem su r (eraseItem it) = some (eraseItem it')
  | r, .value v, it', h => by
    simp only [updItem] at h
    obtain ⟨v', hu, rfl⟩ := Option.map_eq_some_iff.mp h
    have ih := srefine_val hr r v v' hu
    simp [eraseItem, supdItem, ih]
  | r, .table t, it', h => by
    simp only [updItem] at h
    obtain ⟨t', hu, rfl⟩ := Option.map_eq_some_iff.mp h
    have ih := srefine_tbl hr r t t' hu
    simp [eraseItem, supdItem, ih]
  | [], .aot ts sp, it', h => by
    simp only [updItem] at h
    obtain ⟨ts', hu, rfl⟩ := Option.map_eq_some_iff.mp h
    have := hr.aot ts ts' hu
    simp [eraseItem, supdItem, this]
  | s :: r, .aot ts sp, it', h => by
    simp only [updItem] at h
    cases hi : s.idx with
    | none => simp [hi] at h
    | some i =>
      simp only [hi] at h
      obtain ⟨ts', hu, rfl⟩ := Option.map_eq_some_iff.mp h
      have ih := srefine_nth hr i r ts ts' hu
      simp [eraseItem, supdItem, hi, ih]
theorem srefine_nth (hr : SRefines u su) : ∀ (i : Nat) (r : List Seg) (ts ts' : List CTbl),
    updNth u i r ts = some ts' → supdNth su i r (eraseTbls ts) = some (eraseTbls ts')
  | _, _, [], _, h => by simp [updNth] at h
  | 0, r, t :: rest, ts', h => by
    simp only [updNth] at h
    obtain ⟨t', hu, rfl⟩ := Option.map_eq_some_iff.mp h
    have ih := srefine_tbl hr r t t' hu
    simp [eraseTbls, supdNth, ih]
  | i + 1, r, t :: rest, ts', h => by
    simp only [updNth] at h
    obtain ⟨rest', hu, rfl⟩ := Option.map_eq_some_iff.mp h
    have ih := srefine_nth hr i r rest rest' hu
    simp [eraseTbls, supdNth, ih]
end

/-! ### `sort_values` on the semantic tree -/

mutual
/-- `Table::sort_values`: the verified `sortByKey`, then the dotted sub-tables, recursively -/
def sortTblS : Tbl → Tbl
  | .mk items imp dot p => .mk (sortByKey (sortSubS items)) imp dot p
def sortSubS : List (Bytes × Item) → List (Bytes × Item)
  | [] => []
  | (k, .table t) :: r => (k, .table (if t.dotted then sortTblS t else t)) :: sortSubS r
  | (k, .value v) :: r => (k, .value v) :: sortSubS r
  | (k, .aot ts) :: r => (k, .aot ts) :: sortSubS r
end

mutual
/-- `InlineTable::sort_values` -/
def sortInlS : Val → Val
  | .inl items imp dot => .inl (sortByKey (sortInlSubS items)) imp dot
  | v => v
def sortInlSubS : List (Bytes × Val) → List (Bytes × Val)
  | [] => []
  | (k, .inl items imp dot) :: r => (k, if dot then sortInlS (.inl items imp dot) else .inl items imp dot) :: sortInlSubS r
  | (k, v) :: r => (k, v) :: sortInlSubS r
end

def inlSortS : Val → Option Val
  | .inl items imp dot => some (sortInlS (.inl items imp dot))
  | _ => none

/-- `sort` on the semantic tree -/
def sortSU : SUpd := ⟨fun t => some (sortTblS t), inlSortS, fun _ => none⟩

theorem eraseTbl_dotted (t : CTbl) : (eraseTbl t).dotted = t.dotted := by
  cases t; simp [eraseTbl, Tbl.dotted, CTbl.dotted]

mutual
theorem erase_sortTbl : ∀ t : CTbl, eraseTbl (sortTbl t) = sortTblS (eraseTbl t)
  | .mk items imp dot p d sp => by
    simp only [sortTbl, eraseTbl, sortTblS, erase_sortByCKey_items, erase_sortSub items]
theorem erase_sortSub : ∀ l : List (CKey × CItem), eraseItems (sortSub l) = sortSubS (eraseItems l)
  | [] => rfl
  | (k, .table t) :: r => by
    simp only [sortSub, eraseItems, eraseItem, sortSubS, eraseTbl_dotted, erase_sortSub r]
    split
    · simp only [erase_sortTbl t]
    · rfl
  | (k, .value v) :: r => by simp only [sortSub, eraseItems, eraseItem, sortSubS, erase_sortSub r]
  | (k, .aot ts sp) :: r => by simp only [sortSub, eraseItems, eraseItem, sortSubS, erase_sortSub r]
end

/-! The type `CVal` lets a `scalar` hold any `Val`, also an inline table (no parse result and no op
    builds such a value); `sortInl` treats it as the scalar it is, `sortInlS` cannot tell. The
    inline-table case therefore asks that scalars below the sorted node do not hold inline tables. -/

def notInlVal : Val → Bool
  | .inl _ _ _ => false
  | _ => true

mutual
def inlOK : CVal → Bool
  | .scalar v _ _ => notInlVal v
  | .arr _ _ _ _ _ => true
  | .inl items _ _ _ _ _ => inlKvsOK items
def inlKvsOK : List (CKey × CVal) → Bool
  | [] => true
  | (_, v) :: r => inlOK v && inlKvsOK r
end

mutual
theorem erase_sortInl : ∀ v : CVal, inlOK v = true → eraseVal (sortInl v) = sortInlS (eraseVal v)
  | .inl items pre imp dot d sp, h => by
    simp only [inlOK] at h
    simp only [sortInl, eraseVal, sortInlS, erase_sortByCKey_kvs, erase_sortInlSub items h]
  | .scalar a b c, h => by
    simp only [inlOK] at h
    cases a <;> simp [notInlVal] at h <;> simp [sortInl, eraseVal, sortInlS]
  | .arr a b c d e, _ => by simp [sortInl, eraseVal, sortInlS]
theorem erase_sortInlSub : ∀ l : List (CKey × CVal), inlKvsOK l = true →
    eraseKvs (sortInlSub l) = sortInlSubS (eraseKvs l)
  | [], _ => rfl
  | (k, .inl items pre imp dot d sp) :: r, h => by
    simp only [inlKvsOK, Bool.and_eq_true] at h
    simp only [sortInlSub, eraseKvs, eraseVal, sortInlSubS, erase_sortInlSub r h.2]
    split
    · have := erase_sortInl (.inl items pre imp dot d sp) h.1
      simp only [eraseVal] at this
      simp only [this]
    · simp only [eraseVal]
  | (k, .scalar a b c) :: r, h => by
    simp only [inlKvsOK, Bool.and_eq_true, inlOK] at h
    cases a <;> simp [notInlVal] at h <;>
      simp [sortInlSub, eraseKvs, eraseVal, sortInlSubS, erase_sortInlSub r h]
  | (k, .arr a b c d e) :: r, h => by
    simp only [inlKvsOK, Bool.and_eq_true] at h
    simp [sortInlSub, eraseKvs, eraseVal, sortInlSubS, erase_sortInlSub r h.2]
end

/-- the well-formedness the inline case needs, at the node sorted -/
def NodeInlOK : Node → Prop
  | .val v => inlOK v = true
  | _ => True

open Classical in
noncomputable def sortUpdOK : Upd :=
  ⟨fun t => some (sortTbl t), fun v => if inlOK v = true then inlSort v else none, noAot⟩

theorem srefines_sort : SRefines sortUpdOK sortSU where
  tbl t t' h := by
    simp only [sortUpdOK, Option.some.injEq] at h; subst h
    simp [sortSU, erase_sortTbl]
  val v v' h := by
    simp only [sortUpdOK] at h
    split at h
    · rename_i hok
      cases v with
      | inl items pre imp dot d sp =>
        simp only [inlSort, Option.some.injEq] at h; subst h
        have := erase_sortInl (.inl items pre imp dot d sp) hok
        simp only [eraseVal] at this
        simp [sortSU, eraseVal, inlSortS, this]
      | scalar _ _ _ => simp [inlSort] at h
      | arr _ _ _ _ _ => simp [inlSort] at h
    · cases h
  aot ts ts' h := by simp [sortUpdOK, noAot] at h

/-- `sort` commutes with erasure to the semantic tree, at any path, no condition on `dotted` -/
theorem srefine_sort (rs : List Raw) (p : List Seg) (root r : CTbl)
    (hok : ∀ n, lookupTbl p root = some n → NodeInlOK n)
    (h : updTbl (Op.sort.upd rs) p root = some r) : supdTbl sortSU p (eraseTbl root) = some (eraseTbl r) := by
  obtain ⟨n, hn⟩ := upd_look_tbl _ p root r h
  have hf := hok n hn
  have ha : Agree (Op.sort.upd rs) sortUpdOK n := by
    cases n with
    | tbl t => simp [Agree, sortUpdOK, Op.upd]
    | val v =>
      simp only [NodeInlOK] at hf
      simp [Agree, sortUpdOK, Op.upd, hf]
    | aot ts sp => simp [Agree, sortUpdOK, Op.upd]
  rw [← congr_tbl p root n hn ha] at h
  exact srefine_tbl srefines_sort p root r h

end TomlVerif.Lemmas.Refine08bSem
