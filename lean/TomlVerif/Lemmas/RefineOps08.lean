import TomlVerif.Lemmas.Refine08
/-! The node updates of the single ops act on the plain ordered tree as the plain ops. -/
namespace TomlVerif.Lemmas.RefineOps08
open TomlVerif TomlVerif.Model TomlVerif.Model.Cst TomlVerif.Model.Edit TomlVerif.Lemmas.Edit08
open TomlVerif.Lemmas.Refine08 TomlVerif.Spec.OrderedPlain

def leaf : Sc → Leaf
  | .int n => .int n
  | .str s => .str s
  | .bool b => .bool b

theorem plainV_newScalar (v : Sc) (vr : Raw) : plainV (newScalar v vr) = .scalar (leaf v) := by
  cases v <;> simp [plainV, newScalar, eraseVal, Sc.val, valToPlain, leaf]

theorem plainV_setDecor (v : CVal) (d : Decor) : plainV (v.setDecor d) = plainV v := by
  simp [plainV, erase_setDecor]

/-! ### plain ops -/

def pSet (k : Bytes) (x : Plain) : Plain → Option Plain
  | .tbl es => some (.tbl (aset k x es))
  | _ => none

def pDel (k : Bytes) : Plain → Option Plain
  | .tbl es => match alookup k es with
    | some _ => some (.tbl (aerase k es))
    | none => none
  | _ => none

def pPush (x : Plain) : Plain → Option Plain
  | .arr xs => some (.arr (xs ++ [x]))
  | _ => none

def pInsert (i : Nat) (x : Plain) : Plain → Option Plain
  | .arr xs => if i ≤ xs.length then some (.arr (insertAt x i xs)) else none
  | _ => none

def pReplace (i : Nat) (x : Plain) : Plain → Option Plain
  | .arr xs => if i < xs.length then some (.arr (xs.set i x)) else none
  | _ => none

def pRemove (i : Nat) : Plain → Option Plain
  | .arr xs => if i < xs.length then some (.arr (removeAt i xs)) else none
  | _ => none

/-- `tpush`: a table holding `n = <len>` is appended -/
def pTpush : Plain → Option Plain
  | .arr xs => some (.arr (xs ++ [.tbl [([0x6E], .scalar (.int xs.length))]]))
  | _ => none

/-- `fmt` and the conversions: the content is unchanged -/
def pId : Plain → Option Plain := fun x => some x

/-! ### entry lists -/

theorem plain_ainsert_items (k : Bytes) (x : Item) : ∀ l : List (Bytes × Item),
    itemEntriesToPlain (ainsert k x l) = ainsert k (itemToPlain x) (itemEntriesToPlain l)
  | [] => by simp [ainsert, itemEntriesToPlain]
  | (k', v) :: r => by
    by_cases hk : (k' == k) = true
    · simp [ainsert, itemEntriesToPlain, hk]
    · have hk' : (k' == k) = false := by simpa using hk
      simp [ainsert, itemEntriesToPlain, hk', plain_ainsert_items k x r]

theorem plain_ainsert_kvs (k : Bytes) (x : Val) : ∀ l : List (Bytes × Val),
    valEntriesToPlain (ainsert k x l) = ainsert k (valToPlain x) (valEntriesToPlain l)
  | [] => by simp [ainsert, valEntriesToPlain]
  | (k', v) :: r => by
    by_cases hk : (k' == k) = true
    · simp [ainsert, valEntriesToPlain, hk]
    · have hk' : (k' == k) = false := by simpa using hk
      simp [ainsert, valEntriesToPlain, hk', plain_ainsert_kvs k x r]

theorem plain_aerase_items (k : Bytes) : ∀ l : List (Bytes × Item),
    itemEntriesToPlain (aerase k l) = aerase k (itemEntriesToPlain l)
  | [] => by simp [aerase, itemEntriesToPlain]
  | (k', v) :: r => by
    by_cases hk : (k' == k) = true
    · simp [aerase, itemEntriesToPlain, hk]
    · have hk' : (k' == k) = false := by simpa using hk
      simp [aerase, itemEntriesToPlain, hk', plain_aerase_items k r]

theorem plain_aerase_kvs (k : Bytes) : ∀ l : List (Bytes × Val),
    valEntriesToPlain (aerase k l) = aerase k (valEntriesToPlain l)
  | [] => by simp [aerase, valEntriesToPlain]
  | (k', v) :: r => by
    by_cases hk : (k' == k) = true
    · simp [aerase, valEntriesToPlain, hk]
    · have hk' : (k' == k) = false := by simpa using hk
      simp [aerase, valEntriesToPlain, hk', plain_aerase_kvs k r]

theorem plain_lookup_items (k : Bytes) : ∀ (l : List (CKey × CItem)) (it : CItem), clookup k l = some it →
    alookup k (itemEntriesToPlain (eraseItems l)) = some (plainI it)
  | [], _, h => by simp [clookup] at h
  | (k', v) :: r, it, h => by
    by_cases hk : (k'.key == k) = true
    · simp only [clookup, hk, if_true, Option.some.injEq] at h
      subst h
      simp [eraseItems, itemEntriesToPlain, alookup, hk, plainI]
    · have hk' : (k'.key == k) = false := by simpa using hk
      simp only [clookup, hk', Bool.false_eq_true, if_false] at h
      simp [eraseItems, itemEntriesToPlain, alookup, hk', plain_lookup_items k r it h]

theorem plain_lookup_kvs (k : Bytes) : ∀ (l : List (CKey × CVal)) (v : CVal), clookup k l = some v →
    alookup k (valEntriesToPlain (eraseKvs l)) = some (plainV v)
  | [], _, h => by simp [clookup] at h
  | (k', v') :: r, v, h => by
    by_cases hk : (k'.key == k) = true
    · simp only [clookup, hk, if_true, Option.some.injEq] at h
      subst h
      simp [eraseKvs, valEntriesToPlain, alookup, hk, plainV]
    · have hk' : (k'.key == k) = false := by simpa using hk
      simp only [clookup, hk', Bool.false_eq_true, if_false] at h
      simp [eraseKvs, valEntriesToPlain, alookup, hk', plain_lookup_kvs k r v h]

theorem plainT_setItems (t : CTbl) (l : List (CKey × CItem)) :
    plainT (t.setItems l) = .tbl (itemEntriesToPlain (eraseItems l)) := by
  cases t; simp [plainT, CTbl.setItems, eraseTbl, toPlain]

theorem plainT_items (t : CTbl) : plainT t = .tbl (itemEntriesToPlain (eraseItems t.items)) := by
  cases t; simp [plainT, CTbl.items, eraseTbl, toPlain]

/-- `Table::insert(k, item)` on the plain tree: replace in place or append -/
theorem plain_tblPut (k : Bytes) (kr : Raw) (it : CItem) (t t' : CTbl) (h : tblPut k kr it t = some t') :
    pSet k (plainI it) (plainT t) = some (plainT t') := by
  simp only [tblPut, Option.some.injEq] at h
  subst h
  rw [plainT_setItems, plainT_items t, erase_cinsert_items]
  simp only [pSet, ← ainsert_eq_aset]
  rw [plain_ainsert_items]
  simp [newKey, plainI]

/-! ### `Refines` for the ops -/

theorem refines_set (k : Bytes) (v : Sc) (rs : List Raw) :
    Refines ((Op.set k v).upd rs) (pSet k (.scalar (leaf v))) where
  tbl t t' h := by
    have := plain_tblPut k (rs.getD 0 .empty) (.value (newScalar v (rs.getD 1 .empty))) t t' h
    have e : ∀ r, valToPlain (eraseVal (newScalar v r)) = .scalar (leaf v) := fun r => plainV_newScalar v r
    simpa [plainI, eraseItem, itemToPlain, e] using this
  val x x' h := by
    simp only [Op.upd] at h
    cases x with
    | inl items pre imp dot d sp =>
      simp only [inlSet, Option.some.injEq] at h
      subst h
      have e : ∀ r, valToPlain (eraseVal (newScalar v r)) = .scalar (leaf v) := fun r => plainV_newScalar v r
      simp only [plainV, eraseVal, valToPlain, pSet, erase_cinsert_kvs, ← ainsert_eq_aset]
      rw [plain_ainsert_kvs]
      simp [newKey, e]
    | scalar _ _ _ => simp [inlSet] at h
    | arr _ _ _ _ _ => simp [inlSet] at h
  aot ts ts' h := by simp [Op.upd, noAot] at h

theorem refines_newt (k : Bytes) (rs : List Raw) :
    Refines ((Op.newt k).upd rs) (pSet k (.tbl [])) where
  tbl t t' h := by
    have := plain_tblPut k (rs.getD 0 .empty) (.table CTbl.empty) t t' h
    simpa [plainI, eraseItem, itemToPlain, CTbl.empty, eraseTbl, eraseItems, toPlain, itemEntriesToPlain] using this
  val x x' h := by simp [Op.upd, noVal] at h
  aot ts ts' h := by simp [Op.upd, noAot] at h

theorem refines_del (k : Bytes) (rs : List Raw) : Refines ((Op.del k).upd rs) (pDel k) where
  tbl t t' h := by
    simp only [Op.upd, tblDel] at h
    cases hl : clookup k t.items with
    | none => simp [hl] at h
    | some it =>
      simp only [hl, Option.some.injEq] at h
      subst h
      rw [plainT_setItems, plainT_items t, erase_cerase_items, plain_aerase_items]
      simp [pDel, plain_lookup_items k t.items it hl]
  val x x' h := by
    simp only [Op.upd] at h
    cases x with
    | inl items pre imp dot d sp =>
      simp only [inlDel] at h
      cases hl : clookup k items with
      | none => simp [hl] at h
      | some v =>
        simp only [hl, Option.some.injEq] at h
        subst h
        simp only [plainV, eraseVal, valToPlain, pDel]
        rw [erase_cerase_kvs, plain_aerase_kvs]
        have := plain_lookup_kvs k items v hl
        simp [this]
    | scalar _ _ _ => simp [inlDel] at h
    | arr _ _ _ _ _ => simp [inlDel] at h
  aot ts ts' h := by simp [Op.upd, noAot] at h

/-! ### arrays and arrays of tables -/

theorem valsToPlain_append : ∀ (l m : List Val), valsToPlain (l ++ m) = valsToPlain l ++ valsToPlain m
  | [], m => rfl
  | v :: r, m => by simp [valsToPlain, valsToPlain_append r m]

theorem tblsToPlain_append : ∀ (l m : List Tbl), tblsToPlain (l ++ m) = tblsToPlain l ++ tblsToPlain m
  | [], m => rfl
  | v :: r, m => by simp [tblsToPlain, tblsToPlain_append r m]

theorem valsToPlain_removeAt : ∀ (i : Nat) (l : List Val), valsToPlain (removeAt i l) = removeAt i (valsToPlain l)
  | _, [] => by simp [removeAt, valsToPlain]
  | 0, _ :: r => by simp [removeAt, valsToPlain]
  | i + 1, y :: r => by simp [removeAt, valsToPlain, valsToPlain_removeAt i r]

theorem tblsToPlain_removeAt : ∀ (i : Nat) (l : List Tbl), tblsToPlain (removeAt i l) = removeAt i (tblsToPlain l)
  | _, [] => by simp [removeAt, tblsToPlain]
  | 0, _ :: r => by simp [removeAt, tblsToPlain]
  | i + 1, y :: r => by simp [removeAt, tblsToPlain, tblsToPlain_removeAt i r]

theorem valsToPlain_length : ∀ l : List Val, (valsToPlain l).length = l.length
  | [] => rfl
  | _ :: r => by simp [valsToPlain, valsToPlain_length r]

theorem eraseVals_length : ∀ l : List CVal, (eraseVals l).length = l.length
  | [] => rfl
  | _ :: r => by simp [eraseVals, eraseVals_length r]

theorem tblsToPlain_length : ∀ l : List Tbl, (tblsToPlain l).length = l.length
  | [] => rfl
  | _ :: r => by simp [tblsToPlain, tblsToPlain_length r]

theorem eraseTbls_length : ∀ l : List CTbl, (eraseTbls l).length = l.length
  | [] => rfl
  | _ :: r => by simp [eraseTbls, eraseTbls_length r]

theorem refines_push (v : Sc) (rs : List Raw) : Refines ((Op.push v).upd rs) (pPush (.scalar (leaf v))) where
  tbl t t' h := by simp [Op.upd, noTbl] at h
  val x x' h := by
    simp only [Op.upd] at h
    cases x with
    | arr items tr c d sp =>
      simp only [arrPush, Option.some.injEq] at h
      subst h
      have e : ∀ r d, valToPlain (eraseVal ((newScalar v r).setDecor d)) = .scalar (leaf v) := fun r d => by
        rw [erase_setDecor]; exact plainV_newScalar v r
      simp [plainV, eraseVal, valToPlain, pPush, eraseVals_append, valsToPlain_append, eraseVals, valsToPlain, e]
    | scalar _ _ _ => simp [arrPush] at h
    | inl _ _ _ _ _ _ => simp [arrPush] at h
  aot ts ts' h := by simp [Op.upd, noAot] at h

theorem refines_adel (i : Nat) (rs : List Raw) : Refines ((Op.adel i).upd rs) (pRemove i) where
  tbl t t' h := by simp [Op.upd, noTbl] at h
  val x x' h := by
    simp only [Op.upd] at h
    cases x with
    | arr items tr c d sp =>
      simp only [arrRemove] at h
      by_cases hi : i < items.length
      · simp only [hi, if_true, Option.some.injEq] at h
        subst h
        simp [plainV, eraseVal, valToPlain, pRemove, eraseVals_removeAt, valsToPlain_removeAt,
          valsToPlain_length, eraseVals_length, hi]
      · simp [hi] at h
    | scalar _ _ _ => simp [arrRemove] at h
    | inl _ _ _ _ _ _ => simp [arrRemove] at h
  aot ts ts' h := by simp [Op.upd, noAot] at h

theorem refines_tdel (i : Nat) (rs : List Raw) : Refines ((Op.tdel i).upd rs) (pRemove i) where
  tbl t t' h := by simp [Op.upd, noTbl] at h
  val x x' h := by simp [Op.upd, noVal] at h
  aot ts ts' h := by
    simp only [Op.upd, aotRemove] at h
    by_cases hi : i < ts.length
    · simp only [hi, if_true, Option.some.injEq] at h
      subst h
      simp [plainA, pRemove, eraseTbls_removeAt, tblsToPlain_removeAt, tblsToPlain_length, eraseTbls_length, hi]
    · simp [hi] at h

/-- `tpush` (the node update `applyOp` uses) -/
theorem refines_tpush (kr vr : Raw) : Refines ⟨noTbl, noVal, aotPush kr vr⟩ pTpush where
  tbl t t' h := by simp [noTbl] at h
  val x x' h := by simp [noVal] at h
  aot ts ts' h := by
    simp only [aotPush, Option.some.injEq] at h
    subst h
    simp [plainA, pTpush, eraseTbls_append, tblsToPlain_append, eraseTbls, tblsToPlain, eraseTbl, toPlain,
      eraseItems, itemEntriesToPlain, eraseItem, itemToPlain, newKey, newScalar, eraseVal, Sc.val, valToPlain,
      tblsToPlain_length, eraseTbls_length]

/-! ### `fmt` and the conversions keep the content -/

theorem valsToPlain_fmtElems (sp : Raw) (l : List CVal) (b : Bool) :
    valsToPlain (eraseVals (fmtElems sp l b)) = valsToPlain (eraseVals l) := by
  rw [erase_fmtElems]

theorem refines_fmt (rs : List Raw) : Refines (Op.fmt.upd rs) pId where
  tbl t t' h := by
    simp only [Op.upd, tblFmt, Option.some.injEq] at h
    subst h
    rw [plainT_setItems, plainT_items t, erase_fmtItems]; rfl
  val x x' h := by
    simp only [Op.upd] at h
    cases x with
    | inl items pre imp dot d s =>
      simp only [valFmt, Option.some.injEq] at h
      subst h
      simp [plainV, eraseVal, valToPlain, pId, erase_fmtKvs]
    | arr items tr c d s =>
      simp only [valFmt, Option.some.injEq] at h
      subst h
      simp [plainV, eraseVal, valToPlain, pId, erase_fmtElems]
    | scalar _ _ _ => simp [valFmt] at h
  aot ts ts' h := by simp [Op.upd, noAot] at h

mutual
/-- `Item::make_value` keeps the plain content -/
theorem plain_itemToVal (sp : Raw) : ∀ it : CItem, plainV (itemToVal sp it) = plainI it
  | .value v => by simp [itemToVal, plainV, plainI, eraseItem, itemToPlain]
  | .table t => by
    have := plain_tblToInl sp t
    simpa [itemToVal, plainI, eraseItem, itemToPlain, plainT] using this
  | .aot ts s => by
    have := plain_tblsToVals sp ts
    simp [itemToVal, plainV, plainI, eraseItem, eraseVal, valToPlain, itemToPlain, erase_fmtElems, this]
theorem plain_tblToInl (sp : Raw) : ∀ t : CTbl, plainV (tblToInl sp t) = plainT t
  | .mk items _ _ _ _ _ => by
    have := plain_itemsToKvs sp items
    simp [tblToInl, freshInl, plainV, plainT, eraseVal, valToPlain, eraseTbl, toPlain, erase_fmtKvs, this]
theorem plain_itemsToKvs (sp : Raw) : ∀ l : List (CKey × CItem),
    valEntriesToPlain (eraseKvs (itemsToKvs sp l)) = itemEntriesToPlain (eraseItems l)
  | [] => rfl
  | (k, it) :: r => by
    have h1 := plain_itemToVal sp it
    simp only [plainV, plainI] at h1
    simp [itemsToKvs, eraseKvs, valEntriesToPlain, eraseItems, itemEntriesToPlain, h1, plain_itemsToKvs sp r]
theorem plain_tblsToVals (sp : Raw) : ∀ l : List CTbl,
    valsToPlain (eraseVals (tblsToVals sp l)) = tblsToPlain (eraseTbls l)
  | [] => rfl
  | t :: r => by
    have h1 := plain_tblToInl sp t
    simp only [plainV, plainT] at h1
    simp [tblsToVals, eraseVals, valsToPlain, eraseTbls, tblsToPlain, h1, plain_tblsToVals sp r]
end

theorem plain_kvsToItems : ∀ l : List (CKey × CVal),
    itemEntriesToPlain (eraseItems (kvsToItems l)) = valEntriesToPlain (eraseKvs l)
  | [] => rfl
  | (k, v) :: r => by
    simp [kvsToItems, eraseItems, itemEntriesToPlain, eraseItem, itemToPlain, eraseKvs, valEntriesToPlain,
      plain_kvsToItems r]

/-- `InlineTable::into_table` keeps the plain content -/
theorem plain_inlToTbl (items : List (CKey × CVal)) :
    plainT (inlToTbl items) = .tbl (valEntriesToPlain (eraseKvs items)) := by
  simp [inlToTbl, plainT, eraseTbl, toPlain, erase_fmtItems, plain_kvsToItems]

/-- replacing the item under a present key by one with the same plain content -/
theorem plain_creplace_same (k : Bytes) (it' : CItem) : ∀ (l : List (CKey × CItem)) (it : CItem),
    clookup k l = some it → plainI it' = plainI it →
    itemEntriesToPlain (eraseItems (creplace k it' l)) = itemEntriesToPlain (eraseItems l)
  | [], _, h, _ => by simp [clookup] at h
  | (k', v) :: r, it, h, he => by
    by_cases hk : (k'.key == k) = true
    · simp only [clookup, hk, if_true, Option.some.injEq] at h
      subst h
      simp only [plainI] at he
      simp [creplace, hk, eraseItems, itemEntriesToPlain, he]
    · have hk' : (k'.key == k) = false := by simpa using hk
      simp only [clookup, hk', Bool.false_eq_true, if_false] at h
      simp [creplace, hk', eraseItems, itemEntriesToPlain, plain_creplace_same k it' r it h he]

/-- a conversion in place that keeps the plain content of the item keeps the plain tree -/
theorem plain_convAt (k : Bytes) (g : CItem → Option CItem)
    (hg : ∀ it it', g it = some it' → plainI it' = plainI it) (t t' : CTbl) (h : convAt k g t = some t') :
    pId (plainT t) = some (plainT t') := by
  simp only [convAt] at h
  cases hl : clookup k t.items with
  | none => simp [hl] at h
  | some it =>
    simp only [hl] at h
    obtain ⟨it', hi, rfl⟩ := Option.map_eq_some_iff.mp h
    rw [plainT_setItems, plainT_items t, plain_creplace_same k it' t.items it hl (hg it it' hi)]
    rfl

theorem refines_inl (k : Bytes) (rs : List Raw) : Refines ((Op.inl k).upd rs) pId where
  tbl t t' h := by
    refine plain_convAt k _ ?_ t t' h
    intro it it' hc
    cases it with
    | table tt =>
      simp only [convInl, Option.some.injEq] at hc
      subst hc
      have := plain_tblToInl (rs.getD 0 .empty) tt
      simpa [plainI, eraseItem, itemToPlain, plainV, plainT] using this
    | value _ => simp [convInl] at hc
    | aot _ _ => simp [convInl] at hc
  val x x' h := by simp [Op.upd, noVal] at h
  aot ts ts' h := by simp [Op.upd, noAot] at h

theorem refines_aot2arr (k : Bytes) (rs : List Raw) : Refines ((Op.aot2arr k).upd rs) pId where
  tbl t t' h := by
    refine plain_convAt k _ ?_ t t' h
    intro it it' hc
    cases it with
    | aot ts s =>
      simp only [convAotArr, Option.some.injEq] at hc
      subst hc
      have := plain_itemToVal (rs.getD 0 .empty) (.aot ts s)
      simpa [plainI, eraseItem, itemToPlain, plainV] using this
    | value _ => simp [convAotArr] at hc
    | table _ => simp [convAotArr] at hc
  val x x' h := by simp [Op.upd, noVal] at h
  aot ts ts' h := by simp [Op.upd, noAot] at h

theorem refines_tbl (k : Bytes) (rs : List Raw) : Refines ((Op.tbl k).upd rs) pId where
  tbl t t' h := by
    refine plain_convAt k _ ?_ t t' h
    intro it it' hc
    cases it with
    | value v =>
      cases v with
      | inl items pre imp dot d s =>
        simp only [convTbl, Option.some.injEq] at hc
        subst hc
        have := plain_inlToTbl items
        simpa [plainI, eraseItem, itemToPlain, plainT, eraseVal, valToPlain] using this
      | scalar _ _ _ => simp [convTbl] at hc
      | arr _ _ _ _ _ => simp [convTbl] at hc
    | table _ => simp [convTbl] at hc
    | aot _ _ => simp [convTbl] at hc
  val x x' h := by simp [Op.upd, noVal] at h
  aot ts ts' h := by simp [Op.upd, noAot] at h

theorem valsToPlain_insertAt (x : Val) : ∀ (i : Nat) (l : List Val),
    valsToPlain (insertAt x i l) = insertAt (valToPlain x) i (valsToPlain l)
  | 0, l => by simp [insertAt, valsToPlain]
  | _ + 1, [] => by simp [insertAt, valsToPlain]
  | i + 1, y :: r => by simp [insertAt, valsToPlain, valsToPlain_insertAt x i r]

theorem valsToPlain_set (x : Val) : ∀ (i : Nat) (l : List Val),
    valsToPlain (l.set i x) = (valsToPlain l).set i (valToPlain x)
  | _, [] => by simp [valsToPlain]
  | 0, _ :: r => by simp [valsToPlain]
  | i + 1, y :: r => by simp [valsToPlain, valsToPlain_set x i r]

theorem refines_ains (i : Nat) (v : Sc) (rs : List Raw) :
    Refines ((Op.ains i v).upd rs) (pInsert i (.scalar (leaf v))) where
  tbl t t' h := by simp [Op.upd, noTbl] at h
  val x x' h := by
    simp only [Op.upd] at h
    cases x with
    | arr items tr c d sp =>
      simp only [arrInsert] at h
      by_cases hi : i ≤ items.length
      · simp only [hi, if_true, Option.some.injEq] at h
        subst h
        have e : ∀ r d, valToPlain (eraseVal ((newScalar v r).setDecor d)) = .scalar (leaf v) := fun r d => by
          rw [erase_setDecor]; exact plainV_newScalar v r
        simp [plainV, eraseVal, valToPlain, pInsert, eraseVals_insertAt, valsToPlain_insertAt,
          valsToPlain_length, eraseVals_length, hi, e]
      · simp [hi] at h
    | scalar _ _ _ => simp [arrInsert] at h
    | inl _ _ _ _ _ _ => simp [arrInsert] at h
  aot ts ts' h := by simp [Op.upd, noAot] at h

theorem refines_arepl (i : Nat) (v : Sc) (rs : List Raw) :
    Refines ((Op.arepl i v).upd rs) (pReplace i (.scalar (leaf v))) where
  tbl t t' h := by simp [Op.upd, noTbl] at h
  val x x' h := by
    simp only [Op.upd] at h
    cases x with
    | arr items tr c d sp =>
      simp only [arrReplace] at h
      cases ho : items[i]? with
      | none => simp [ho] at h
      | some old =>
        simp only [ho, Option.some.injEq] at h
        subst h
        have hi : i < items.length := by
          rcases Nat.lt_or_ge i items.length with h1 | h1
          · exact h1
          · simp [List.getElem?_eq_none h1] at ho
        have e : ∀ r d, valToPlain (eraseVal ((newScalar v r).setDecor d)) = .scalar (leaf v) := fun r d => by
          rw [erase_setDecor]; exact plainV_newScalar v r
        simp [plainV, eraseVal, valToPlain, pReplace, eraseVals_set, valsToPlain_set,
          valsToPlain_length, eraseVals_length, hi, e]
    | scalar _ _ _ => simp [arrReplace] at h
    | inl _ _ _ _ _ _ => simp [arrReplace] at h
  aot ts ts' h := by simp [Op.upd, noAot] at h

end TomlVerif.Lemmas.RefineOps08
