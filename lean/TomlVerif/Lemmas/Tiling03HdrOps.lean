import TomlVerif.Lemmas.Tiling03HdrKeyval
/-! `finalize_table`, `start_table`, `start_array_table` as case analyses (C03, header case), and
    what `finalize_table` does to good and bad states. -/
namespace TomlVerif.Lemmas.Tiling03Hdr
open TomlVerif TomlVerif.Spec TomlVerif.Model TomlVerif.Model.Strings TomlVerif.Model.Value
open TomlVerif.Model.Cst TomlVerif.Model.Encode TomlVerif.Lemmas.Suffix03 TomlVerif.Lemmas.Cst03
open TomlVerif.Lemmas.LastByte03 TomlVerif.Lemmas.Tiling03

/-- the callback of `finalize_table` for an array element -/
def finArr (key : CKey) (table : CTbl) : CTbl → Option CTbl := fun parent =>
  match (clookup key.key parent.items).getD (.aot [] none) with
  | .aot ts _ => some (parent.setItems (cset key (.aot (ts ++ [table]) (aotSpan (ts ++ [table]))) parent.items))
  | _ => none

/-- the callback of `finalize_table` for a `[table]` -/
def finStd (key : CKey) (table : CTbl) : CTbl → Option CTbl := fun parent =>
  match clookup key.key parent.items with
  | some (.table t) => if t.implicit then some (parent.setItems (creplace key.key (.table table) parent.items)) else none
  | some _ => none
  | none => some (parent.setItems (parent.items ++ [(key, .table table)]))

def probeFn (key : CKey) : CTbl → Option CTbl := fun parent =>
  match clookup key.key parent.items with
  | some (.table t) => if t.implicit && !t.dotted then some parent else none
  | some _ => none
  | none => some parent

def eraseFn (key : CKey) : CTbl → Option CTbl := fun parent =>
  some (parent.setItems (cerase key.key parent.items))

def arrFn (key : CKey) : CTbl → Option CTbl := fun parent =>
  match clookup key.key parent.items with
  | some (.aot _ _) => some parent
  | some _ => none
  | none => some (parent.setItems (parent.items ++ [(key, .aot [] none)]))

theorem finalize_cases (st st1 : CState) (h : finalizeTable st = some st1) :
    (st.currentPath = [] ∧ st.root.items = [] ∧
      st1 = { st with root := st.current, current := CTbl.empty, currentPath := [] }) ∨
    (∃ pp key root', st.currentPath = pp ++ [key] ∧
      descend st.root pp false (if st.currentIsArray then finArr key st.current else finStd key st.current) = some root' ∧
      st1 = { st with root := root', current := CTbl.empty, currentPath := [] }) := by
  unfold finalizeTable at h
  simp only [] at h
  split at h
  · rename_i heq
    split at h
    · rename_i hemp
      injection h with h
      exact Or.inl ⟨vsplitLast_none _ heq, by simpa using hemp, h.symm⟩
    · cases h
  · rename_i pp key heq
    have hp := vsplitLast_some _ _ _ heq
    split at h
    · rename_i hia
      obtain ⟨root', hd, e⟩ := Option.map_eq_some_iff.1 h
      refine Or.inr ⟨pp, key, root', hp, ?_, e.symm⟩
      simp only [hia, if_true]
      exact hd
    · rename_i hia
      obtain ⟨root', hd, e⟩ := Option.map_eq_some_iff.1 h
      refine Or.inr ⟨pp, key, root', hp, ?_, e.symm⟩
      simp only [hia]
      exact hd

theorem startTable_cases (st st2 : CState) (path : List CKey) (dec : Decor) (span : Span)
    (h : startTable st path dec span = some st2) :
    ∃ pp key root', path = pp ++ [key] ∧ (∃ x, descend st.root pp false (probeFn key) = some x) ∧
      descend st.root pp false (eraseFn key) = some root' ∧
      st2 = { st with root := root', position := st.position + 1,
                      current := .mk ((findTable key.key st.root pp).getD st.current).items false false
                        (some (st.position + 1)) dec (some span),
                      currentIsArray := false, currentPath := path } := by
  unfold startTable at h
  split at h
  · cases h
  · rename_i pp key heq
    have hp := vsplitLast_some _ _ _ heq
    simp only [] at h
    split at h
    · cases h
    · rename_i x hprobe
      split at h
      · cases h
      · rename_i root' hroot
        injection h with h
        exact ⟨pp, key, root', hp, ⟨x, hprobe⟩, hroot, h.symm⟩

theorem startArrayTable_cases (st st2 : CState) (path : List CKey) (dec : Decor) (span : Span)
    (h : startArrayTable st path dec span = some st2) :
    ∃ pp key root', path = pp ++ [key] ∧ descend st.root pp false (arrFn key) = some root' ∧
      st2 = { st with root := root', position := st.position + 1,
                      current := .mk st.current.items false false (some (st.position + 1)) dec (some span),
                      currentIsArray := true, currentPath := path } := by
  unfold startArrayTable at h
  split at h
  · cases h
  · rename_i pp key heq
    have hp := vsplitLast_some _ _ _ heq
    simp only [] at h
    split at h
    · cases h
    · rename_i root' hroot
      injection h with h
      exact ⟨pp, key, root', hp, hroot, h.symm⟩

/-! ### the callbacks: uniqueness and non-simplicity -/

theorem finArr_nodup (key : CKey) (t p p' : CTbl) (h : finArr key t p = some p') (hn : nodupK p.items = true) :
    nodupK p'.items = true := by
  unfold finArr at h
  split at h
  · injection h with h; subst h; rw [setItems_items]; exact nodupK_cset _ _ _ hn
  · cases h

theorem finStd_nodup (key : CKey) (t p p' : CTbl) (h : finStd key t p = some p') (hn : nodupK p.items = true) :
    nodupK p'.items = true := by
  unfold finStd at h
  split at h
  · split at h
    · injection h with h; subst h; rw [setItems_items]; exact nodupK_creplace _ _ _ hn
    · cases h
  · cases h
  · rename_i hl; injection h with h; subst h; rw [setItems_items]; exact nodupK_snoc _ _ _ hn hl

theorem finArr_notSimple (key : CKey) (t p p' : CTbl) (h : finArr key t p = some p') : simpleBody p'.items = false := by
  unfold finArr at h
  split at h
  · injection h with h; subst h; rw [setItems_items]; exact simpleBody_cset _ _ rfl _
  · cases h

theorem finStd_notSimple (key : CKey) (t p p' : CTbl) (h : finStd key t p = some p') : simpleBody p'.items = false := by
  unfold finStd at h
  split at h
  · rename_i t0 hl
    split at h
    · injection h with h; subst h; rw [setItems_items]; exact simpleBody_creplace _ _ rfl _ _ hl
    · cases h
  · cases h
  · injection h with h; subst h; rw [setItems_items, simpleBody_append]; simp [simpleBody]

theorem fin_notSimple (b : Bool) (key : CKey) (t p p' : CTbl)
    (h : (if b then finArr key t else finStd key t) p = some p') : simpleBody p'.items = false := by
  cases b
  · exact finStd_notSimple key t p p' h
  · exact finArr_notSimple key t p p' h

theorem fin_nodup (b : Bool) (key : CKey) (t p p' : CTbl)
    (h : (if b then finArr key t else finStd key t) p = some p') (hn : nodupK p.items = true) :
    nodupK p'.items = true := by
  cases b
  · exact finStd_nodup key t p p' h hn
  · exact finArr_nodup key t p p' h hn

/-! ### `finalize_table` on good and bad states -/

/-- a finished root of the flat class whose printed form is `txt`, with positions up to `q` -/
def FinGood (f : Bytes → Bytes) (inp : Bytes) (root : CTbl) (txt : Bytes) (q : Nat) : Prop :=
  ∃ r1 rimp rsp, root = .mk r1 rimp false none {} rsp ∧ flatItems r1 = true ∧
    sortedFrom 0 (entriesOf r1) = true ∧ (∀ e ∈ entriesOf r1, e.pos ≤ q) ∧
    encodeBody f inp (valuesTbl (rootValues r1) []) ++ sectionsText f inp (entriesOf r1) = txt

theorem leafTbl_section (items : Items) (q : Nat) (lead trail : Raw) (sp : Option Span) (h : simpleBody items = true) :
    leafTbl (.mk items false false (some q) (Decor.new lead trail) sp) = true := by
  simp [leafTbl, Decor.new, h]

theorem append_singleton_eq {α} (pp : List α) (a b : α) (h : [a] = pp ++ [b]) : pp = [] ∧ b = a := by
  cases pp with
  | nil => simp at h; exact ⟨rfl, h.symm⟩
  | cons x r =>
    have := congrArg List.length h
    simp at this

theorem finalize_good (f : Bytes → Bytes) (inp : Bytes) (st st1 : CState) (hfin : finalizeTable st = some st1)
    (hsh : ShapeA st ∨ ShapeB st) : FinGood f inp st1.root (stText f inp st) st.position := by
  rcases finalize_cases st st1 hfin with ⟨hp, _, e⟩ | ⟨pp, key, root', hp, hd, e⟩
  · subst e
    rcases hsh with ⟨_, _, items, imp, sp, a3, a4⟩ | ⟨key, _, _, _, _, _, _, _, _, b1, _⟩
    · obtain ⟨x1, x2, x3⟩ := simple_flat items a4
      refine ⟨items, imp, sp, a3, x1, ?_, ?_, ?_⟩
      · rw [x2]; rfl
      · rw [x2]; intro e he; cases he
      · simp [stText, hp, a3, CTbl.items, x2, x3, sectionsText]
    · rw [hp] at b1; cases b1
  · subst e
    rcases hsh with ⟨_, a2, _⟩ | ⟨key0, r0, rimp, rsp, items, q, lead, trail, sp, b1, b2, b3, b4, b5, b6, b7, b8, b9⟩
    · rw [a2] at hp
      exact absurd hp.symm (by simp)
    · rw [b1] at hp
      obtain ⟨hpp, hkey⟩ := append_singleton_eq _ _ _ hp
      subst hpp; subst hkey
      rw [descend_nil] at hd
      have hleaf := leafTbl_section items q lead trail sp b8
      have hne : st.currentPath.isEmpty = false := by rw [b1]; rfl
      have hentry : curEntry st = ⟨q, .mk items false false (some q) (Decor.new lead trail) sp, [key], st.currentIsArray⟩ := by
        simp [curEntry, b7, b1, CTbl.pos]
      cases hia : st.currentIsArray with
      | true =>
        simp only [hia, if_true] at hd b2
        have hl : clookup key.key (r0 ++ [(key, CItem.aot [] none)]) = some (.aot [] none) := by
          rw [clookup_append_none _ _ _ b6, clookup_single]; simp
        unfold finArr at hd
        rw [b2] at hd
        simp only [CTbl.items, hl, Option.getD_some, List.nil_append] at hd
        injection hd with hd
        have hcs : cset key (CItem.aot [st.current] (aotSpan [st.current])) (r0 ++ [(key, CItem.aot [] none)])
            = r0 ++ [(key, CItem.aot [st.current] (aotSpan [st.current]))] := by
          unfold cset
          rw [hl]
          exact creplace_snoc _ _ _ _ (by simp) r0 b6
        rw [hcs] at hd
        refine ⟨r0 ++ [(key, CItem.aot [st.current] (aotSpan [st.current]))], rimp, rsp, by rw [← hd]; simp [CTbl.setItems, CTbl.items, CTbl.implicit, CTbl.dotted, CTbl.pos, CTbl.decor, CTbl.span], ?_, ?_, ?_, ?_⟩
        · rw [flatItems_append, b3, b7]; simp [flatItems, hleaf]
        · rw [entriesOf_append, b7]
          simp only [entriesOf, CTbl.pos, Option.getD_some]
          exact sortedFrom_snoc _ 0 _ b4 b5 (Nat.zero_le _)
        · rw [entriesOf_append, b7, b9]
          simp only [entriesOf, CTbl.pos, Option.getD_some]
          intro e he
          rcases List.mem_append.1 he with he | he
          · exact b5 e he
          · simp at he; subst he; exact Nat.le_refl _
        · simp only [stText, hne, b2, CTbl.items, hentry, hia]
          rw [entriesOf_append, entriesOf_append, rootValues_append, rootValues_append, b7, sectionsText_append]
          simp [entriesOf, rootValues, sectionsText, CTbl.pos, List.append_assoc]
      | false =>
        simp only [hia, Bool.false_eq_true, if_false, List.append_nil] at hd b2
        unfold finStd at hd
        rw [b2] at hd
        simp only [CTbl.items, b6] at hd
        injection hd with hd
        refine ⟨r0 ++ [(key, CItem.table st.current)], rimp, rsp, by rw [← hd]; simp [CTbl.setItems, CTbl.items, CTbl.implicit, CTbl.dotted, CTbl.pos, CTbl.decor, CTbl.span], ?_, ?_, ?_, ?_⟩
        · rw [flatItems_append, b3, b7]; simp [flatItems, hleaf]
        · rw [entriesOf_append, b7]
          simp only [entriesOf, CTbl.pos, Option.getD_some]
          exact sortedFrom_snoc _ 0 _ b4 b5 (Nat.zero_le _)
        · rw [entriesOf_append, b7, b9]
          simp only [entriesOf, CTbl.pos, Option.getD_some]
          intro e he
          rcases List.mem_append.1 he with he | he
          · exact b5 e he
          · simp at he; subst he; exact Nat.le_refl _
        · simp only [stText, hne, b2, CTbl.items, hentry, hia]
          rw [entriesOf_append, rootValues_append, b7, sectionsText_append]
          simp [entriesOf, rootValues, sectionsText, CTbl.pos, List.append_assoc]

theorem finalize_frame (st st1 : CState) (hfin : finalizeTable st = some st1) (hg : GI st) :
    st1.trailing = st.trailing ∧ st1.position = st.position ∧ st1.current = CTbl.empty ∧
    st1.currentPath = [] ∧ nodupK st1.root.items = true := by
  obtain ⟨g1, g2, _⟩ := hg
  rcases finalize_cases st st1 hfin with ⟨hp, _, e⟩ | ⟨pp, key, root', hp, hd, e⟩
  · subst e; exact ⟨rfl, rfl, rfl, rfl, g2 hp⟩
  · subst e
    exact ⟨rfl, rfl, rfl, rfl, descend_nodup _ _ _ _ _ (fun p p' h hn => fin_nodup _ _ _ _ _ h hn) g1 hd⟩

theorem finalize_bad (st st1 : CState) (hfin : finalizeTable st = some st1) (hg : GI st) (hb : Bad st) :
    anyW st1.root.items = true := by
  obtain ⟨g1, g2, g3⟩ := hg
  rcases finalize_cases st st1 hfin with ⟨hp, hr, e⟩ | ⟨pp, key, root', hp, hd, e⟩
  · subst e
    simp only []
    rcases hb with ⟨_, b⟩ | ⟨b, _⟩ | b | b | ⟨_, key, _, _, b, _⟩
    · exact b
    · exact absurd hp b
    · rw [hp] at b; simp at b
    · rw [hr] at b; simp [anyW] at b
    · rw [hp] at b; cases b
  · subst e
    simp only []
    cases pp with
    | cons k ks =>
      exact descend_cons_insert_w _ _ _ _ _ _ (fun p p' h => fin_notSimple _ _ _ _ _ h) hd
    | nil =>
      rw [descend_nil] at hd
      simp only [List.nil_append] at hp
      cases hia : st.currentIsArray with
      | true =>
        simp only [hia, if_true] at hd
        unfold finArr at hd
        split at hd
        · rename_i ts sp0 hget
          injection hd with hd
          rw [← hd, setItems_items]
          rcases hb with ⟨b, _⟩ | ⟨_, b⟩ | b | b | ⟨_, key', ts', sp', b1, b2, b3⟩
          · rw [hp] at b; cases b
          · apply anyW_cset_new
            simp [wItem, b]
          · rw [hp] at b; simp at b
          · apply anyW_cset _ _ _ b
            intro y hy hwy
            rw [hy] at hget
            simp only [Option.getD_some] at hget
            subst hget
            simp only [wItem, Bool.or_eq_true, decide_eq_true_eq, List.any_append, List.length_append] at hwy ⊢
            rcases hwy with hwy | hwy
            · left; omega
            · right; left; exact hwy
          · rw [hp] at b1
            injection b1 with b1 _
            subst b1
            rw [b2] at hget
            simp only [Option.getD_some] at hget
            injection hget with e1 e2
            subst e1
            apply anyW_cset_new
            simp only [wItem, Bool.or_eq_true, decide_eq_true_eq, List.length_append]
            left
            cases ts' with
            | nil => exact absurd rfl b3
            | cons a b => simp
        · cases hd
      | false =>
        simp only [hia, Bool.false_eq_true, if_false] at hd
        have hl := g3 hia key hp
        unfold finStd at hd
        rw [hl] at hd
        simp only [] at hd
        injection hd with hd
        rw [← hd, setItems_items, anyW_append]
        rcases hb with ⟨b, _⟩ | ⟨_, b⟩ | b | b | ⟨b, _⟩
        · rw [hp] at b; cases b
        · simp [anyW, wItem, b]
        · rw [hp] at b; simp at b
        · rw [b]; rfl
        · rw [hia] at b; cases b

end TomlVerif.Lemmas.Tiling03Hdr
