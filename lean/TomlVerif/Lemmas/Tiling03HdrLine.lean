import TomlVerif.Lemmas.Tiling03HdrBase
/-! One line of a document (C03, header case): what `ckeyvalLine` / `ctableLine` do to the
    state ("frames") and the text the recorded pieces cover, with no CR-free hypothesis: a line
    ends at the end of input, with LF or with CR LF. -/
namespace TomlVerif.Lemmas.Tiling03Hdr
open TomlVerif TomlVerif.Spec TomlVerif.Model TomlVerif.Model.Strings TomlVerif.Model.Value
open TomlVerif.Model.Cst TomlVerif.Model.Encode TomlVerif.Lemmas.Suffix03 TomlVerif.Lemmas.Cst03
open TomlVerif.Lemmas.LastByte03 TomlVerif.Lemmas.Tiling03

/-- the terminator of a key/value or header line -/
inductive LineEnd : Bytes → Bytes → Bytes → Prop
  /-- `x = trailEnd …` is empty: the line ends the input -/
  | eof : LineEnd [] [] []
  | lf (r : Bytes) : LineEnd (0x0A :: r) [0x0A] r
  | crlf (r : Bytes) : LineEnd (0x0D :: 0x0A :: r) [0x0D, 0x0A] r

theorem lineEnd_split {x e r : Bytes} (h : LineEnd x e r) : x = e ++ r := by
  cases h <;> rfl

theorem lineEnd_rel {x e r : Bytes} (h : LineEnd x e r) : e = [] ∨ EolRel [0x0A] e := by
  cases h
  · exact Or.inl rfl
  · exact Or.inr (EolRel.refl _)
  · exact Or.inr (.crlf .nil)

theorem lineTrailing_lineEnd (s r : Bytes) (h : lineTrailing s = .ok () r) : ∃ e, LineEnd (trailEnd s) e r := by
  rcases lineTrailing_cases s r h with ⟨h1, h2⟩ | h1
  · rw [h1, h2]; exact ⟨[], .eof⟩
  · unfold newline? at h1
    split at h1
    · rename_i r' heq; injection h1 with h1; subst h1; rw [heq]; exact ⟨_, .lf _⟩
    · rename_i r' heq; injection h1 with h1; subst h1; rw [heq]; exact ⟨_, .crlf _⟩
    · cases h1

/-! ### the key/value line -/

def kvVal (n : Nat) (v : CVal) (r1 r2 : Bytes) : CVal :=
  v.setDecor (Decor.new (rawBetween n r1 (dropWs r1)) (rawBetween n r2 (trailEnd r2)))

theorem keyval_frame (n : Nat) (st st' : CState) (s r3 : Bytes) (h : ckeyvalLine n st s = some (st', r3)) :
    ∃ ks r1 v r2 path key c, ckeyPath n s = .ok ks (0x3D :: r1) ∧
      cvalue n (3 * r1.length + 4) (ks.length - 1) (dropWs r1) = .ok v r2 ∧ lineTrailing r2 = .ok () r3 ∧
      splitLast ks = some (path, key) ∧
      descend (kvCur st (kvVal n v r1 r2)) path true (kvFn path (kvKey st key) (kvVal n v r1 r2)) = some c ∧
      st' = { st with current := c, trailing := none } := by
  unfold ckeyvalLine at h
  split at h
  · rename_i ks r hk
    split at h
    · cases h
    · split at h
      · rename_i r1
        simp only [] at h
        split at h
        · rename_i v r2 hv
          split at h
          · rename_i r3' hlt
            split at h
            · rename_i path key hsl
              rw [onKeyval_eq] at h
              cases hd : descend (kvCur st (kvVal n v r1 r2)) path true (kvFn path (kvKey st key) (kvVal n v r1 r2)) with
              | none => unfold kvVal at hd; rw [hd] at h; simp at h
              | some c =>
                unfold kvVal at hd
                rw [hd] at h
                simp only [Option.map_some, Option.some.injEq, Prod.mk.injEq] at h
                obtain ⟨e1, e2⟩ := h
                subst e2
                exact ⟨ks, r1, v, r2, path, key, c, hk, hv, hlt, hsl, hd, e1.symm⟩
            · cases h
          · cases h
        · cases h
      · cases h
  · cases h

theorem kvCur_fields (st : CState) (v : CVal) :
    (kvCur st v).items = st.current.items ∧ (kvCur st v).dotted = st.current.dotted ∧
    (kvCur st v).implicit = st.current.implicit ∧ (kvCur st v).pos = st.current.pos ∧
    (kvCur st v).decor = st.current.decor := by
  unfold kvCur
  split <;> simp [CTbl.setSpan, CTbl.items, CTbl.dotted, CTbl.implicit, CTbl.pos, CTbl.decor]

theorem kvCur_mk (st : CState) (v : CVal) (items : Items) (imp dot : Bool) (p : Option Nat) (dec : Decor)
    (sp : Option Span) (h : st.current = .mk items imp dot p dec sp) :
    kvCur st v = .mk items imp dot p dec (kvCur st v).span := by
  obtain ⟨a1, a2, a3, a4, a5⟩ := kvCur_fields st v
  rw [h] at a1 a2 a3 a4 a5
  generalize kvCur st v = cur at *
  cases cur
  simp [CTbl.items, CTbl.dotted, CTbl.implicit, CTbl.pos, CTbl.decor, CTbl.span] at *
  exact ⟨a1, a3, a2, a4, a5⟩

/-- the callback of `on_keyval` appends: it keeps non-simple bodies non-simple, the flags, key
    uniqueness -/
theorem kvFn_facts (path : List CKey) (key' : CKey) (v : CVal) (p p' : CTbl) (h : kvFn path key' v p = some p') :
    p' = p.setItems (p.items ++ [(key', .value v)]) ∧ clookup key'.key p.items = none := by
  unfold kvFn at h
  split at h
  · cases h
  · split at h
    · cases h
    · rename_i hn; injection h with h; exact ⟨h.symm, hn⟩

/-- text of a one-segment key/value line with a simple value: the printed entry (without the
    final LF) is the pending trivia followed by the line up to its terminator -/
theorem keyval_text (f : Bytes → Bytes) (inp : Bytes) (hf : FixOn f inp) (st : CState) (s r1 r2 r3 tr : Bytes)
    (ks : List CKey) (key : CKey) (v : CVal)
    (hk : ckeyPath inp.length s = .ok ks (0x3D :: r1))
    (hv : cvalue inp.length (3 * r1.length + 4) (ks.length - 1) (dropWs r1) = .ok v r2)
    (hlt : lineTrailing r2 = .ok () r3) (hsl : splitLast ks = some ([], key))
    (hsv : simpleVal v = true)
    (h5 : TrailIs inp.length st.trailing tr s) (htrs : tr ++ s <:+ inp) :
    ∃ line e, s = line ++ e ++ r3 ∧ LineEnd (trailEnd r2) e r3 ∧ (∃ t b, line = t ++ [b] ∧ b ≠ 0x0A) ∧
      encodeKeyPath f inp [kvKey st key] [] [0x20] ++ [0x3D]
        ++ encodeValue f inp (kvVal inp.length v r1 r2) [0x20] [] = tr ++ line := by
  have hs : s <:+ inp := (List.suffix_append tr s).trans htrs
  obtain ⟨kt, kw2, hks, hsplit, hktne, _, hrepr, hleaf, hw2t⟩ := ckeyPath_single inp s _ ks key hs hk hsl
  obtain ⟨kw1, hkw1⟩ := Cst03.dropWs_suffix s
  have hr1 : r1 <:+ inp := ((List.suffix_cons _ r1).trans (ckeyPath_suffix _ _ _ _ hk).1).trans hs
  obtain ⟨w1, hw1⟩ := Cst03.dropWs_suffix r1
  have hr1' : dropWs r1 <:+ inp := (Cst03.dropWs_suffix r1).trans hr1
  obtain ⟨tv, htv, htvne, hdec, hvt⟩ := cvalue_tiling_simple f inp hf _ _ _ _ _ hr1' hv
  have hr2 : r2 <:+ inp := (htv ▸ suffix_of_append tv r2).trans hr1'
  obtain ⟨te, hte⟩ := trailEnd_suffix r2
  obtain ⟨e, he⟩ := lineTrailing_lineEnd r2 r3 hlt
  have hval : encodeValue f inp (kvVal inp.length v r1 r2) [0x20] [] = w1 ++ tv ++ te := by
    unfold kvVal
    rw [encodeValue_setDecor f hf.nil inp v _ _ hdec [0x20] [] [] [], hvt hsv [] [],
      encRaw_fix hf, encRaw_fix hf,
      rawText_between inp r1 w1 (dropWs r1) hr1 hw1.symm,
      rawText_between inp r2 te (trailEnd r2) hr2 hte.symm]
  have hstext : s = kw1 ++ kt ++ kw2 ++ [0x3D] ++ w1 ++ tv ++ te ++ trailEnd r2 := by
    rw [← hkw1, hsplit]
    simp only [List.append_assoc, List.cons_append, List.nil_append]
    rw [hte, ← htv, hw1]
  have hkp : encodeKeyPath f inp [kvKey st key] [] [0x20] = tr ++ kw1 ++ kt ++ kw2 := by
    have hl' : (kvKey st key).leaf = Decor.new (takeTrailing (mergeSpan st.trailing (rawBetween inp.length s (dropWs s)).span)) (rawBetween inp.length (kw2 ++ 0x3D :: r1) (0x3D :: r1)) := by
      unfold kvKey; rw [hleaf]; rfl
    have hr' : (kvKey st key).repr = key.repr := rfl
    rw [encodeKeyPath_single f inp (kvKey st key) _ _ hl', encRaw_fix hf, encRaw_fix hf, hr', hrepr, hw2t,
      mergePre_text inp st.trailing tr s kw1 (dropWs s) h5 htrs hkw1.symm]
  refine ⟨kw1 ++ kt ++ kw2 ++ [0x3D] ++ w1 ++ tv ++ te, e, ?_, he, ?_, ?_⟩
  · rw [List.append_assoc, ← lineEnd_split he]; exact hstext
  · have l1 : LastNe r2 (dropWs r1) := cvalue_lastNe inp _ _ _ _ _ hr1' hv
    have l2 : LastNe (trailEnd r2) (dropWs r1) := (trailEnd_orEq r2).trans_lastNe l1
    obtain ⟨t, b, ht, hb⟩ := l2
    refine ⟨kw1 ++ kt ++ kw2 ++ [0x3D] ++ w1 ++ t, b, ?_, hb⟩
    have e1 : tv ++ te ++ trailEnd r2 = t ++ [b] ++ trailEnd r2 := by
      rw [List.append_assoc, hte, ← htv, ht]; simp
    have := List.append_cancel_right e1
    simp only [List.append_assoc] at this ⊢
    rw [this]
  · rw [hkp, hval]; simp [List.append_assoc]

/-! ### the header line -/

theorem table_frame (n : Nat) (st st' : CState) (s r3 : Bytes) (h : ctableLine n st s = some (st', r3)) :
    ∃ (isArr : Bool) (r : Bytes) (ks : List CKey) (r2 : Bytes),
      s = (if isArr then [0x5B, 0x5B] else [0x5B]) ++ r ∧
      ckeyPath n r = .ok ks ((if isArr then [0x5D, 0x5D] else [0x5D]) ++ r2) ∧
      lineTrailing r2 = .ok () r3 ∧
      (if isArr then onArrayHeader st ks (rawBetween n r2 (trailEnd r2)) (pos n s, pos n r2)
        else onStdHeader st ks (rawBetween n r2 (trailEnd r2)) (pos n s, pos n r2)) = some st' := by
  unfold ctableLine at h
  split at h
  · rename_i r
    split at h
    · rename_i ks r1 hk
      split at h
      · rename_i r2
        split at h
        · rename_i r3' hlt
          cases ho : onArrayHeader st ks (rawBetween n r2 (trailEnd r2)) (pos n (0x5B :: 0x5B :: r), pos n r2) with
          | none => rw [ho] at h; simp at h
          | some x =>
            rw [ho] at h
            simp only [Option.map_some, Option.some.injEq, Prod.mk.injEq] at h
            obtain ⟨e1, e2⟩ := h
            subst e1; subst e2
            exact ⟨true, r, ks, r2, rfl, hk, hlt, ho⟩
        · cases h
      · cases h
    · cases h
  · rename_i r hne
    split at h
    · cases h
    · split at h
      · rename_i ks r1 hk
        split at h
        · rename_i r2
          split at h
          · rename_i r3' hlt
            cases ho : onStdHeader st ks (rawBetween n r2 (trailEnd r2)) (pos n (0x5B :: r), pos n r2) with
            | none => rw [ho] at h; simp at h
            | some x =>
              rw [ho] at h
              simp only [Option.map_some, Option.some.injEq, Prod.mk.injEq] at h
              obtain ⟨e1, e2⟩ := h
              subst e1; subst e2
              exact ⟨false, r, ks, r2, rfl, hk, hlt, ho⟩
          · cases h
        · cases h
      · cases h
  · cases h

/-- text of a header line whose name has one segment: the printed header (without the final LF)
    with leading decor text `tr` is the pending trivia followed by the line up to its terminator -/
theorem header_text (f : Bytes → Bytes) (inp : Bytes) (hf : FixOn f inp) (isArr : Bool) (s r r2 r3 tr : Bytes)
    (ks : List CKey) (key : CKey) (lead : Raw)
    (hsr : s = (if isArr then [0x5B, 0x5B] else [0x5B]) ++ r)
    (hk : ckeyPath inp.length r = .ok ks ((if isArr then [0x5D, 0x5D] else [0x5D]) ++ r2))
    (hlt : lineTrailing r2 = .ok () r3) (hsl : splitLast ks = some ([], key))
    (hlead : rawText inp lead = tr) (hs : s <:+ inp) :
    ∃ line e, s = line ++ e ++ r3 ∧ LineEnd (trailEnd r2) e r3 ∧ (∃ t b, line = t ++ [b] ∧ b ≠ 0x0A) ∧
      ∀ (items : Items) (imp dot : Bool) (p : Option Nat) (sp : Option Span) (q : Nat),
        items = [] →
        sectionText f inp ⟨q, .mk items imp dot p (Decor.new lead (rawBetween inp.length r2 (trailEnd r2))) sp, [key], isArr⟩
          = tr ++ line ++ [0x0A] := by
  have hr : r <:+ inp := (hsr ▸ suffix_of_append _ r).trans hs
  obtain ⟨kt, kw2, hks, hsplit, hktne, _, hrepr, hleaf, hw2t⟩ := ckeyPath_single inp r _ ks key hr hk hsl
  obtain ⟨kw1, hkw1⟩ := Cst03.dropWs_suffix r
  have hr2 : r2 <:+ inp := ((suffix_of_append _ r2).trans (ckeyPath_suffix _ _ _ _ hk).1).trans hr
  obtain ⟨te, hte⟩ := trailEnd_suffix r2
  obtain ⟨e, he⟩ := lineTrailing_lineEnd r2 r3 hlt
  have hkp : encodeKeyPath f inp [key] [] [] = kw1 ++ kt ++ kw2 := by
    rw [encodeKeyPath_single f inp key _ _ hleaf, encRaw_fix hf, encRaw_fix hf, hrepr, hw2t,
      rawText_between inp r kw1 (dropWs r) hr hkw1.symm]
  have hrtext : r = kw1 ++ kt ++ kw2 ++ (if isArr then [0x5D, 0x5D] else [0x5D]) ++ te ++ trailEnd r2 := by
    rw [← hkw1, hsplit]
    simp only [List.append_assoc]
    rw [hte]
  refine ⟨(if isArr then [0x5B, 0x5B] else [0x5B]) ++ kw1 ++ kt ++ kw2 ++ (if isArr then [0x5D, 0x5D] else [0x5D]) ++ te, e, ?_, he, ?_, ?_⟩
  · rw [List.append_assoc _ e, ← lineEnd_split he, hsr]
    conv => lhs; rw [hrtext]
    simp only [List.append_assoc]
  · have l1 : LastNe r2 (0x5D :: r2) := lastNe_tail r2 (by decide)
    have l2 : LastNe (trailEnd r2) (0x5D :: r2) := (trailEnd_orEq r2).trans_lastNe l1
    obtain ⟨t, b, ht, hb⟩ := l2
    have e1 : [0x5D] ++ te ++ trailEnd r2 = t ++ [b] ++ trailEnd r2 := by
      rw [List.append_assoc, hte]
      simpa using ht
    have e2 := List.append_cancel_right e1
    cases isArr with
    | false =>
      refine ⟨[0x5B] ++ kw1 ++ kt ++ kw2 ++ t, b, ?_, hb⟩
      simp only [Bool.false_eq_true, if_false, List.append_assoc] at e2 ⊢
      rw [e2]
    | true =>
      refine ⟨[0x5B, 0x5B] ++ kw1 ++ kt ++ kw2 ++ [0x5D] ++ t, b, ?_, hb⟩
      simp only [if_true, List.append_assoc] at e2 ⊢
      have : [0x5D, 0x5D] ++ te = [0x5D] ++ ([0x5D] ++ te) := rfl
      rw [this, e2]
  · intro items imp dot p sp q hi
    subst hi
    simp only [sectionText, CTbl.decor, CTbl.items, prefixEncode, suffixEncode, Decor.new, valuesTbl, encodeBody,
      List.append_nil]
    rw [hkp, encRaw_fix hf, encRaw_fix hf, hlead, rawText_between inp r2 te (trailEnd r2) hr2 hte.symm]
    cases isArr <;> simp [List.append_assoc]

end TomlVerif.Lemmas.Tiling03Hdr
