import TomlVerif.Lemmas.Tiling03Doc
/-! Document-level tiling for C03, continued: the line loop, `finalize_table`, `parse_document`
    for documents whose root table holds only simple values. -/
namespace TomlVerif.Lemmas.Tiling03
open TomlVerif TomlVerif.Spec TomlVerif.Model TomlVerif.Model.Strings TomlVerif.Model.Value
open TomlVerif.Model.Cst TomlVerif.Model.Encode TomlVerif.Lemmas.Suffix03 TomlVerif.Lemmas.Cst03
open TomlVerif.Lemmas.LastByte03

/-! ### headers leave the class -/

theorem vsplitLast_none {α} (l : List α) (h : splitLast l = none) : l = [] := by
  induction l with
  | nil => rfl
  | cons a r ih =>
    cases r with
    | nil => simp [splitLast] at h
    | cons b r' =>
      rw [splitLast] at h
      · cases hs : splitLast (b :: r') with
        | none => cases ih hs
        | some pr => simp [hs] at h
      · intro hx; cases hx

theorem splitLast_some_ne_nil {α} (l : List α) (x : List α × α) (h : splitLast l = some x) : l ≠ [] := by
  intro e; subst e; simp [splitLast] at h

theorem startTable_path (st st' : CState) (path : List CKey) (dec : Decor) (sp : Span)
    (h : startTable st path dec sp = some st') : st'.currentPath ≠ [] := by
  unfold startTable at h
  split at h
  · cases h
  · rename_i pp key heq
    simp only [] at h
    split at h
    · cases h
    · split at h
      · cases h
      · injection h with h; subst h
        exact splitLast_some_ne_nil _ _ heq

theorem startArrayTable_path (st st' : CState) (path : List CKey) (dec : Decor) (sp : Span)
    (h : startArrayTable st path dec sp = some st') : st'.currentPath ≠ [] := by
  unfold startArrayTable at h
  split at h
  · cases h
  · rename_i pp key heq
    simp only [] at h
    split at h
    · cases h
    · injection h with h; subst h
      exact splitLast_some_ne_nil _ _ heq

theorem bad_of_path (st : CState) (h : st.currentPath ≠ []) : Bad st := by
  unfold Bad
  have : st.currentPath.isEmpty = false := by
    cases hp : st.currentPath with
    | nil => exact absurd hp h
    | cons a b => rfl
  simp [this]

theorem ctableLine_bad (n : Nat) (st st' : CState) (s r : Bytes) (h : ctableLine n st s = some (st', r)) :
    Bad st' := by
  apply bad_of_path
  unfold ctableLine at h
  split at h
  · split at h
    · split at h
      · split at h
        · cases ho : onArrayHeader st _ _ _ with
          | none => rw [ho] at h; simp at h
          | some x =>
            rw [ho] at h
            simp only [Option.map_some, Option.some.injEq, Prod.mk.injEq] at h
            obtain ⟨e1, _⟩ := h
            subst e1
            unfold onArrayHeader at ho
            split at ho
            · exact startArrayTable_path _ _ _ _ _ ho
            · cases ho
        · cases h
      · cases h
    · cases h
  · split at h
    · cases h
    · split at h
      · split at h
        · split at h
          · cases ho : onStdHeader st _ _ _ with
            | none => rw [ho] at h; simp at h
            | some x =>
              rw [ho] at h
              simp only [Option.map_some, Option.some.injEq, Prod.mk.injEq] at h
              obtain ⟨e1, _⟩ := h
              subst e1
              unfold onStdHeader at ho
              split at ho
              · exact startTable_path _ _ _ _ _ ho
              · cases ho
          · cases h
        · cases h
      · cases h
  · cases h

/-! ### the line loop -/

theorem inv_consume (f : Bytes → Bytes) (inp base : Bytes) (st : CState) (s s' : Bytes) (hs : s' <:+ s)
    (h : Inv f inp base st s) : Inv f inp base (onWs st (pos inp.length s) (pos inp.length s')) s' := by
  obtain ⟨w, hw⟩ := hs
  exact inv_onWs f inp base st w s' _ _ (by rw [hw]) rfl (by rw [hw]; exact h)

theorem inv_parseWs (f : Bytes → Bytes) (inp base : Bytes) (st : CState) (s : Bytes)
    (h : Inv f inp base st s) :
    Inv f inp base (parseWs inp.length st s).1 (parseWs inp.length st s).2 :=
  inv_consume f inp base st s (dropWs s) (Cst03.dropWs_suffix s) h

theorem pos_nil (n : Nat) : pos n [] = n := by simp [pos]

theorem clines_inv (f : Bytes → Bytes) (inp base : Bytes) (hf : FixOn f inp) (hcr : ∀ b ∈ inp, b ≠ 0x0D) :
    ∀ (fuel : Nat) (st : CState) (s : Bytes) (stf : CState),
      clines inp.length fuel st s = some stf → Inv f inp base st s → Inv f inp base stf [] := by
  intro fuel
  induction fuel with
  | zero => intro st s stf h; unfold clines at h; cases h
  | succ fuel ih =>
    intro st s stf h hI
    unfold clines at h
    split at h
    · injection h with h; subst h; exact hI
    · rename_i b r
      split at h
      · -- comment
        simp only [] at h
        split at h
        · injection h with h; subst h
          have h1 := inv_consume f inp base st (b :: r) [] List.nil_suffix hI
          rw [pos_nil] at h1
          have h2 := inv_parseWs f inp base _ [] h1
          exact h2
        · split at h
          · rename_i r2 hnl
            have hsuf : r2 <:+ b :: r :=
              ((Cst03.newline?_suffix _ _ hnl).1.trans (Cst03.dropComment_suffix r)).trans (List.suffix_cons b r)
            have h1 := inv_consume f inp base st (b :: r) r2 hsuf hI
            have h2 := inv_parseWs f inp base _ r2 h1
            exact ih _ _ _ h h2
          · cases h
      · split at h
        · -- header
          split at h
          · rename_i st' r1 hl
            have h1 : Inv f inp base st' r1 := Or.inr (ctableLine_bad _ _ _ _ _ hl)
            have h2 := inv_parseWs f inp base _ r1 h1
            exact ih _ _ _ h h2
          · cases h
        · split at h
          · -- blank line
            split at h
            · rename_i r1 hnl
              have h1 := inv_consume f inp base st (b :: r) r1 (Cst03.newline?_suffix _ _ hnl).1 hI
              have h2 := inv_parseWs f inp base _ r1 h1
              exact ih _ _ _ h h2
            · cases h
          · -- key/value
            split at h
            · rename_i st' r1 hl
              have h1 := keyval_step f inp base hf hcr st st' (b :: r) r1 hl hI
              have h2 := inv_parseWs f inp base _ r1 h1
              exact ih _ _ _ h h2
            · cases h

/-! ### `finalize_table` -/

theorem finalize_good (st st' : CState) (hp : st.currentPath = [])
    (h : finalizeTable st = some st') : st'.root = st.current ∧ st'.trailing = st.trailing := by
  unfold finalizeTable at h
  simp only [hp] at h
  split at h
  · split at h
    · injection h with h; subst h; exact ⟨rfl, rfl⟩
    · cases h
  · rename_i heq; simp [splitLast] at heq

theorem descend_insert_notSimple (t t' : CTbl) (pp : List CKey) (d : Bool) (f : CTbl → Option CTbl)
    (hf : ∀ p p', f p = some p' → simpleBody p'.items = false) (h : descend t pp d f = some t') :
    simpleBody t'.items = false := by
  cases pp with
  | nil => unfold descend at h; exact hf _ _ h
  | cons k ks => exact descend_cons_notSimple _ _ _ _ _ _ h

theorem finalize_bad (st st' : CState) (h : finalizeTable st = some st') (hb : Bad st) :
    simpleBody st'.root.items = false := by
  unfold finalizeTable at h
  simp only [] at h
  split at h
  · rename_i heq
    have hp := vsplitLast_none _ heq
    split at h
    · rename_i hemp
      injection h with h; subst h
      simp only []
      unfold Bad at hb
      have : st.root.items = [] := by simpa using hemp
      simpa [this, hp, simpleBody] using hb
    · cases h
  · rename_i pp key heq
    split at h
    · obtain ⟨root', hd, e⟩ := Option.map_eq_some_iff.1 h
      subst e
      simp only []
      refine descend_insert_notSimple _ _ _ _ _ ?_ hd
      intro p p' hp
      split at hp
      · injection hp with hp; subst hp
        rw [setItems_items]; exact simpleBody_cset _ _ rfl _
      · cases hp
    · obtain ⟨root', hd, e⟩ := Option.map_eq_some_iff.1 h
      subst e
      simp only []
      refine descend_insert_notSimple _ _ _ _ _ ?_ hd
      intro p p' hp
      split at hp
      · rename_i t hlook
        split at hp
        · injection hp with hp; subst hp
          rw [setItems_items]; exact simpleBody_creplace _ _ rfl _ _ hlook
        · cases hp
      · cases hp
      · injection hp with hp; subst hp
        rw [setItems_items, simpleBody_append]; simp [simpleBody]

/-! ### `parse_document` -/

theorem stripBom_split (s : Bytes) : ∃ base, s = base ++ Doc.stripBom s := by
  unfold Doc.stripBom
  split
  · exact ⟨[0xEF, 0xBB, 0xBF], rfl⟩
  · exact ⟨[], rfl⟩

/-- documents whose root table holds only simple values (no header, no dotted key): the printed
    text is the source without its BOM, plus a line feed when the last key/value line had none -/
theorem root_doc_tiling (f : Bytes → Bytes) (s : Bytes) (d : CDoc) (hf : FixOn f s) (hcr : ∀ b ∈ s, b ≠ 0x0D)
    (h : parseCst s = some d) (hr : simpleBody d.root.items = true) :
    ∃ eol, printDocG f s d = Doc.stripBom s ++ eol ∧
      (eol = [] ∨ (eol = [0x0A] ∧ (Doc.stripBom s).getLast? ≠ some 0x0A)) := by
  obtain ⟨base, hbase⟩ := stripBom_split s
  unfold parseCst at h
  simp only [] at h
  split at h
  · rename_i stf hcl
    have h0 : Inv f s base {} (Doc.stripBom s) := by
      left
      refine ⟨rfl, rfl, [], false, none, some (0, 0), [], [], [], rfl, rfl, Or.inl ⟨rfl, rfl⟩, ?_, rfl, Or.inl rfl⟩
      simpa using hbase
    have h1 := inv_parseWs f s base _ _ h0
    have h2 := clines_inv f s base hf hcr _ _ _ _ hcl h1
    unfold intoDocument at h
    split at h
    · rename_i st' hfin
      injection h with h; subst h
      rcases h2 with hG | hB
      · obtain ⟨g1, g2, items, imp, p, sp, body, tr, eol, g3, g4, g5, g6, g7, g8⟩ := hG
        obtain ⟨e1, e2⟩ := finalize_good _ _ g2 hfin
        have htr : rawText s (takeTrailing stf.trailing) = tr :=
          trailIs_text s _ tr [] g5 ⟨base ++ body, by rw [g6]; simp [List.append_assoc]⟩
        have hs0 : Doc.stripBom s = body ++ tr := by
          have : base ++ Doc.stripBom s = base ++ (body ++ tr) := by
            rw [← hbase]; simpa [List.append_assoc] using g6
          exact List.append_cancel_left this
        refine ⟨eol, ?_, ?_⟩
        · have : ({ root := st'.root, trailing := takeTrailing st'.trailing } : CDoc)
              = ⟨.mk items imp false p {} sp, takeTrailing stf.trailing⟩ := by rw [e1, e2, g3]
          rw [this, printDocG_root f s hf items imp p sp _ g4, g7, htr, hs0]
          rcases g8 with g8 | ⟨g8, _, g9, _⟩
          · subst g8; simp
          · subst g8; subst g9; simp
        · rcases g8 with g8 | ⟨g8, _, g9, g10⟩
          · exact Or.inl g8
          · right
            subst g9
            rw [hs0, List.append_nil]
            exact ⟨g8, g10⟩
      · have := finalize_bad _ _ hfin hB
        simp only [] at hr
        rw [this] at hr; cases hr
    · cases h
  · cases h

end TomlVerif.Lemmas.Tiling03
