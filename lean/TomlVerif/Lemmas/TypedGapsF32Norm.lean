import TomlVerif.Lemmas.TypedGapsF32
import TomlVerif.Lemmas.TypedGapsCore
/-! C07, reading back: the `f32` identification of `normDec`, resolved.

    `normDec` writes what an `f32` comes back as as the composition `f64ToF32 (cf (clearNanSign (f32to64 b)))` (`f32F cf`).
    With `T07_f32_widen_narrow` (Lemmas/TypedGapsF32.lean) that composition is `normF32`: the identity on every `f32`
    that is not a NaN, the default quiet NaN `0x7FC00000` on a NaN — for a tree (`cf = id`) and for a text
    (`cf = canonFloat`) alike. -/
namespace TomlVerif.Lemmas.TypedGaps
open TomlVerif TomlVerif.Model TomlVerif.Model.TomlValue TomlVerif.Model.DeTyped
open TomlVerif.Model.SerTyped TomlVerif.Spec TomlVerif.Spec.Serde
open TomlVerif.Spec.Encode06 (canonFloat)
open TomlVerif.Lemmas.TypedGapsF32

/-- what an `f32` comes back as: itself, unless it is a NaN (then the default quiet NaN, sign and payload gone) -/
def normF32 (b : Nat) : Nat := if isNaN32 b then 0x7FC00000 else b

/-- the widened NaN -/
theorem f32to64_nan (b : Nat) (hn : isNaN32 b = true) :
    ∃ s m, s < 2 ∧ 0 < m ∧ m < 2 ^ 23 ∧ f32to64 b = s * 2 ^ 63 + 2047 * 2 ^ 52 + m * 2 ^ 29 := by
  simp only [isNaN32, Bool.and_eq_true, beq_iff_eq, bne_iff_ne, ne_eq] at hn
  refine ⟨b / 2 ^ 31 % 2, b % 2 ^ 23, Nat.mod_lt _ (by decide), Nat.pos_of_ne_zero hn.2, Nat.mod_lt _ (by decide), ?_⟩
  rw [f32to64_eq_widen, hn.1]
  unfold widen
  simp

theorem narrow_nan (M : Nat) (h0 : 0 < M) (hM : M < 2 ^ 52) : f64ToF32 (2047 * 2 ^ 52 + M) = 0x7FC00000 := by
  have h1 : ¬ (2047 * 2 ^ 52 + M ≥ Spec.Ieee.signBit) := by unfold Spec.Ieee.signBit; omega
  have h2 : (2047 * 2 ^ 52 + M) % Spec.Ieee.signBit = 2047 * 2 ^ 52 + M := by
    apply Nat.mod_eq_of_lt; unfold Spec.Ieee.signBit; omega
  have h3 : (2047 * 2 ^ 52 + M) / 2 ^ 52 = 2047 := by omega
  have h4 : (2047 * 2 ^ 52 + M) % 2 ^ 52 = M := by
    rw [Nat.add_comm, Nat.add_mul_mod_self_right]; exact Nat.mod_eq_of_lt hM
  have h5 : (M == 0) = false := by simp; omega
  unfold f64ToF32
  simp only [h1, if_false, h2, h3, h4, beq_self_eq_true, if_true, h5, Bool.false_eq_true, Nat.zero_add]

theorem clearNanSign_nan (s m : Nat) (hs : s < 2) (h0 : 0 < m) (hm : m < 2 ^ 23) :
    clearNanSign (s * 2 ^ 63 + 2047 * 2 ^ 52 + m * 2 ^ 29) = 2047 * 2 ^ 52 + m * 2 ^ 29 := by
  have h1 : (s * 2 ^ 63 + 2047 * 2 ^ 52 + m * 2 ^ 29) / 2 ^ 52 % 2048 = 2047 := by omega
  have h2 : (s * 2 ^ 63 + 2047 * 2 ^ 52 + m * 2 ^ 29) % 2 ^ 52 = m * 2 ^ 29 := by omega
  have h3 : (m * 2 ^ 29 != 0) = true := by simp; omega
  unfold clearNanSign isNan64
  simp only [h1, h2, h3, beq_self_eq_true, Bool.and_self, if_true]
  omega

theorem f32F_id_nan (b : Nat) (hn : isNaN32 b = true) : f32F id b = 0x7FC00000 := by
  obtain ⟨s, m, hs, h0, hm, e⟩ := f32to64_nan b hn
  have hM : m * 2 ^ 29 < 2 ^ 52 := by omega
  have h0' : 0 < m * 2 ^ 29 := by omega
  simp only [f32F, id, e, clearNanSign_nan s m hs h0 hm]
  exact narrow_nan (m * 2 ^ 29) h0' hM

theorem f32F_canon_nan (b : Nat) (hn : isNaN32 b = true) : f32F canonFloat b = 0x7FC00000 := by
  obtain ⟨s, m, hs, h0, hm, e⟩ := f32to64_nan b hn
  unfold f32F
  rw [e, clearNanSign_nan s m hs h0 hm]
  have h1 : (2047 * 2 ^ 52 + m * 2 ^ 29) / 2 ^ 52 % 2 ^ 11 = 2047 := by omega
  have h2 : (2047 * 2 ^ 52 + m * 2 ^ 29) % 2 ^ 52 = m * 2 ^ 29 := by omega
  have h3 : (m * 2 ^ 29 != 0) = true := by simp; omega
  have h4 : ((2047 * 2 ^ 52 + m * 2 ^ 29) / 2 ^ 63 == 1) = false := by
    have : (2047 * 2 ^ 52 + m * 2 ^ 29) / 2 ^ 63 = 0 := by omega
    rw [this]; rfl
  unfold canonFloat
  simp only [h1, h2, h3, h4, beq_self_eq_true, Bool.and_self, if_true, Bool.false_eq_true, if_false, Nat.zero_add]
  have : Spec.Ieee.nanBits = 2047 * 2 ^ 52 + 2 ^ 51 := by decide
  rw [this]
  exact narrow_nan _ (by decide) (by decide)

/-- **the `f32` identification of a tree**: `f64ToF32 (clearNanSign (f32to64 b)) = normF32 b` -/
theorem f32F_id (b : Nat) (hb : b < 2 ^ 32) : f32F id b = normF32 b := by
  unfold normF32
  cases hn : isNaN32 b with
  | true => simp only [if_true]; exact f32F_id_nan b hn
  | false => simp only [Bool.false_eq_true, if_false]; exact f32_normDec_id b hb hn

/-- **the `f32` identification of a text**: `f64ToF32 (canonFloat (clearNanSign (f32to64 b))) = normF32 b` -/
theorem f32F_canon (b : Nat) (hb : b < 2 ^ 32) : f32F canonFloat b = normF32 b := by
  unfold normF32
  cases hn : isNaN32 b with
  | true => simp only [if_true]; exact f32F_canon_nan b hn
  | false => simp only [Bool.false_eq_true, if_false]; exact f32_normDec_canon_id b hb hn

/-! ## `normDecV` only looks at `g32` on the `f32` leaves of a well-typed value -/

mutual
theorem normDecV_congr32 (g64 g32 g32' : Nat → Nat) (lf : TV → TV) (hg : ∀ b, b < 2 ^ 32 → g32 b = g32' b) :
    ∀ (ty : Ty) (d : Dec), WellTyped ty d = true → normDecV g64 g32 lf ty d = normDecV g64 g32' lf ty d
  | .f32, d, h => by
    cases d <;> simp [WellTyped] at h
    simp [normDecV, hg _ h]
  | .bool, d, _ => by cases d <;> simp [normDecV]
  | .int _ _, d, _ => by cases d <;> simp [normDecV]
  | .f64, d, _ => by cases d <;> simp [normDecV]
  | .string, d, _ => by cases d <;> simp [normDecV]
  | .char, d, _ => by cases d <;> simp [normDecV]
  | .unit, d, _ => by cases d <;> simp [normDecV]
  | .datetime, d, _ => by cases d <;> simp [normDecV]
  | .date, d, _ => by cases d <;> simp [normDecV]
  | .time, d, _ => by cases d <;> simp [normDecV]
  | .value, d, _ => by cases d <;> simp [normDecV]
  | .ignored, d, _ => by cases d <;> simp [normDecV]
  | .option t, d, h => by
    cases d <;> simp only [WellTyped, Bool.false_eq_true] at h <;> simp only [normDecV]
    rw [normDecV_congr32 g64 g32 g32' lf hg t _ h]
  | .newtype t, d, h => by
    cases d <;> simp only [WellTyped, Bool.false_eq_true] at h
    simp only [normDecV]
    rw [normDecV_congr32 g64 g32 g32' lf hg t _ h]
  | .seq t, d, h => by
    cases d <;> simp only [WellTyped, Bool.false_eq_true] at h
    rename_i l
    simp only [normDecV, Dec.seq.injEq]
    apply List.map_congr_left
    intro a ha
    exact normDecV_congr32 g64 g32 g32' lf hg t a (List.all_eq_true.1 h a ha)
  | .map t, d, h => by
    cases d <;> simp only [WellTyped, Bool.false_eq_true, Bool.and_eq_true] at h
    rename_i l
    simp only [normDecV, Dec.map.injEq]
    apply List.map_congr_left
    intro a ha
    have ha' : a ∈ l := (List.mem_filter.1 ha).1
    rw [normDecV_congr32 g64 g32 g32' lf hg t a.2 (List.all_eq_true.1 h.2 a ha')]
  | .tuple ts, d, h => by
    cases d <;> simp only [WellTyped, Bool.false_eq_true] at h
    simp only [normDecV]
    rw [normTysV_congr32 g64 g32 g32' lf hg ts _ h]
  | .struct fs, d, h => by
    cases d <;> simp only [WellTyped, Bool.false_eq_true] at h
    simp only [normDecV]
    rw [normFieldsV_congr32 g64 g32 g32' lf hg fs _ h]
  | .enum vs, d, h => by
    simp only [WellTyped] at h
    simp only [normDecV]
    exact normVariantsV_congr32 g64 g32 g32' lf hg vs d h
theorem normTysV_congr32 (g64 g32 g32' : Nat → Nat) (lf : TV → TV) (hg : ∀ b, b < 2 ^ 32 → g32 b = g32' b) :
    ∀ (ts : Tys) (l : List Dec), WellTypedTys ts l = true → normTysV g64 g32 lf ts l = normTysV g64 g32' lf ts l
  | .nil, l, _ => by simp [normTysV]
  | .cons t r, [], _ => by simp [normTysV]
  | .cons t r, d :: l, h => by
    simp only [WellTypedTys, Bool.and_eq_true] at h
    simp only [normTysV]
    rw [normDecV_congr32 g64 g32 g32' lf hg t d h.1, normTysV_congr32 g64 g32 g32' lf hg r l h.2]
theorem normFieldsV_congr32 (g64 g32 g32' : Nat → Nat) (lf : TV → TV) (hg : ∀ b, b < 2 ^ 32 → g32 b = g32' b) :
    ∀ (fs : Fields) (l : List (Bytes × Dec)), WellTypedFields fs l = true →
      normFieldsV g64 g32 lf fs l = normFieldsV g64 g32' lf fs l
  | .nil, l, _ => by simp [normFieldsV]
  | .cons _ _ _ _, [], _ => by simp [normFieldsV]
  | .cons name t dflt r, (k, d) :: l, h => by
    simp only [WellTypedFields, Bool.and_eq_true] at h
    simp only [normFieldsV]
    rw [normDecV_congr32 g64 g32 g32' lf hg t d h.1.2, normFieldsV_congr32 g64 g32 g32' lf hg r l h.2]
theorem normShapeV_congr32 (g64 g32 g32' : Nat → Nat) (lf : TV → TV) (hg : ∀ b, b < 2 ^ 32 → g32 b = g32' b) :
    ∀ (s : Shape) (d : Dec), WellTypedShape s d = true → normShapeV g64 g32 lf s d = normShapeV g64 g32' lf s d
  | .unit, d, _ => by cases d <;> simp [normShapeV]
  | .newtype t, d, h => by
    cases d <;> simp only [WellTypedShape, Bool.false_eq_true] at h
    simp only [normShapeV]
    rw [normDecV_congr32 g64 g32 g32' lf hg t _ h]
  | .tuple ts, d, h => by
    cases d <;> simp only [WellTypedShape, Bool.false_eq_true] at h
    simp only [normShapeV]
    rw [normTysV_congr32 g64 g32 g32' lf hg ts _ h]
  | .struct fs, d, h => by
    cases d <;> simp only [WellTypedShape, Bool.false_eq_true] at h
    simp only [normShapeV]
    rw [normFieldsV_congr32 g64 g32 g32' lf hg fs _ h]
theorem normVariantsV_congr32 (g64 g32 g32' : Nat → Nat) (lf : TV → TV) (hg : ∀ b, b < 2 ^ 32 → g32 b = g32' b) :
    ∀ (vs : Variants) (d : Dec), WellTypedVariants vs d = true →
      normVariantsV g64 g32 lf vs d = normVariantsV g64 g32' lf vs d
  | .nil, d, _ => by simp [normVariantsV]
  | .cons name s r, d, h => by
    have key : ∀ n : Bytes, (if name == n then WellTypedShape s d else WellTypedVariants r d) = true →
        (if name == n then normShapeV g64 g32 lf s d else normVariantsV g64 g32 lf r d) =
          (if name == n then normShapeV g64 g32' lf s d else normVariantsV g64 g32' lf r d) := by
      intro n h'
      by_cases hn : (name == n) = true
      · simp only [hn, if_true] at h' ⊢
        exact normShapeV_congr32 g64 g32 g32' lf hg s d h'
      · simp only [hn, Bool.false_eq_true, if_false] at h' ⊢
        exact normVariantsV_congr32 g64 g32 g32' lf hg r d h'
    cases d <;> simp only [WellTypedVariants, Bool.false_eq_true] at h <;> simp only [normVariantsV] <;> exact key _ h
end

end TomlVerif.Lemmas.TypedGaps
