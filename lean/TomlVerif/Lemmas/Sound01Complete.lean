import TomlVerif.Lemmas.Sound01Cont
/-! Completeness of `value` over the syntax with quoted keys (`QVal`, `Lemmas/Sound01Ast.lean`): the induction of
    `Lemmas/Value01.lean` (`val_ok`) repeated for `QVal`; only the key component differs
    (`key_componentQ`: bare, basic-quoted and literal-quoted keys). -/
namespace TomlVerif.Lemmas.Sound01C
open TomlVerif TomlVerif.Spec TomlVerif.Model TomlVerif.Model.Strings TomlVerif.Model.Value
open TomlVerif.Spec.AstValue TomlVerif.Spec.AstValueQ TomlVerif.Lemmas.Value01

/-! ## one key component -/

theorem unquoted_not_ws (b : UInt8) (h : isUnquotedChar b = true) : isWschar b = false := by
  cases hw : isWschar b with
  | false => rfl
  | true => have := ws_not_unquoted b hw; rw [h] at this; cases this

theorem simpleKey_text (raw key Z : Bytes) (h : KeyText raw key)
    (hZ : ∀ b r, Z = b :: r → isUnquotedChar b = false) :
    Key.simpleKey (raw ++ Z) = .ok key Z ∧ ∃ b t, raw = b :: t ∧ isWschar b = false := by
  rcases h with ⟨rfl, hne, hk⟩ | ⟨cs, hw, rfl, rfl⟩ | ⟨hw, rfl⟩
  · refine ⟨simpleKey_bare raw Z hne hk hZ, ?_⟩
    cases raw with
    | nil => exact absurd rfl hne
    | cons b t => exact ⟨b, t, rfl, unquoted_not_ws b (hk b (by simp))⟩
  · refine ⟨?_, 0x22, _, rfl, by decide⟩
    have := TomlVerif.Props.C02Strings.T02_basic_general cs Z hw
    simp only [AstString.renderBasic, List.cons_append] at this ⊢
    simpa [Key.simpleKey] using this
  · refine ⟨?_, 0x27, _, rfl, by decide⟩
    have := TomlVerif.Props.C02Strings.T02_literal_general key Z hw
    simp only [AstString.renderLiteral, List.cons_append, AstString.semLiteral] at this ⊢
    simpa [Key.simpleKey] using this

/-- one component of a dotted key, followed by `.` or `=` -/
theorem key_componentQ (k : QKey) (c : UInt8) (Y : Bytes) (hk : k.WF) (hc : c = 0x2E ∨ c = 0x3D) :
    Key.simpleKey (dropWs (k.render ++ c :: Y)) = .ok k.key (k.post ++ c :: Y) ∧ dropWs (k.post ++ c :: Y) = c :: Y := by
  obtain ⟨h1, h2, h3⟩ := hk
  have hcf := dot_eq_facts c hc
  have hZ : ∀ b r, k.post ++ c :: Y = b :: r → isUnquotedChar b = false := by
    intro b r he
    cases hp : k.post with
    | nil => rw [hp] at he; simp at he; rw [← he.1]; exact hcf.1
    | cons x t => rw [hp] at he; simp at he; rw [← he.1]; exact ws_not_unquoted x (h2 x (by simp [hp]))
  obtain ⟨hsk, b, t, eb, hb⟩ := simpleKey_text k.raw k.key _ h3 hZ
  have e1 : dropWs (k.render ++ c :: Y) = k.raw ++ (k.post ++ c :: Y) := by
    simp only [QKey.render, List.append_assoc]
    rw [dropWs_allws _ _ h1, eb]
    exact dropWs_head _ _ hb
  have e2 : dropWs (k.post ++ c :: Y) = c :: Y := by
    rw [dropWs_allws _ _ h2]; exact dropWs_head _ _ hcf.2
  exact ⟨by rw [e1]; exact hsk, e2⟩

theorem render_headQ : ∀ a : QVal, WFQ a → ∃ b r, renderQ a = b :: r ∧ isFollowByte b = false
  | .scalar t, h => by
    unfold WFQ at h
    obtain ⟨⟨b, r, h1, h2, _⟩, _⟩ := h
    exact ⟨b, r, by simp [renderQ, h1], h2⟩
  | .arr items tc tail, _ => ⟨0x5B, _, by rw [renderQ], by decide⟩
  | .inl items tail, _ => ⟨0x7B, _, by rw [renderQ], by decide⟩

theorem noTrivia_renderQ (a : QVal) (h : WFQ a) (X : Bytes) : NoTriviaHead (renderQ a ++ X) := by
  obtain ⟨b, r, e, hb⟩ := render_headQ a h
  rw [e]; exact not_trivia_of_not_follow b hb

/-- `key`: the components of a dotted key are collected in order -/
theorem keyPathAux_dottedQ : ∀ (more : List QKey) (k : QKey) (acc : List Bytes) (fuel : Nat) (Y : Bytes),
    k.WF → (∀ x ∈ more, x.WF) → more.length < fuel →
    keyPathAux fuel (k.render ++ (renderQKeySep more ++ 0x3D :: Y)) acc =
      .ok (acc ++ k.key :: more.map QKey.key) (0x3D :: Y) := by
  intro more
  induction more with
  | nil =>
    intro k acc fuel Y hk _ hf
    obtain ⟨f, rfl⟩ : ∃ f, fuel = f + 1 := ⟨fuel - 1, by omega⟩
    obtain ⟨e1, e2⟩ := key_componentQ k 0x3D Y hk (Or.inr rfl)
    conv => lhs; unfold keyPathAux
    simp only [renderQKeySep, List.nil_append, e1, e2]
    simp
  | cons k' ms ih =>
    intro k acc fuel Y hk hm hf
    obtain ⟨f, rfl⟩ : ∃ f, fuel = f + 1 := ⟨fuel - 1, by omega⟩
    simp only [List.length_cons] at hf
    obtain ⟨e1, e2⟩ := key_componentQ k 0x2E (k'.render ++ (renderQKeySep ms ++ 0x3D :: Y)) hk (Or.inl rfl)
    have h := ih k' (acc ++ [k.key]) f Y (hm k' (by simp)) (fun x hx => hm x (by simp [hx])) (by omega)
    conv => lhs; unfold keyPathAux
    simp only [renderQKeySep, List.cons_append, List.append_assoc, e1, e2, h]
    simp

theorem renderKeySep_lengthQ (more : List QKey) : more.length ≤ (renderQKeySep more).length := by
  induction more with
  | nil => simp [renderQKeySep]
  | cons k ms ih => simp [renderQKeySep]; omega

/-- a dotted key followed by `=` -/
theorem keyPath_dottedQ (k : QDKey) (Y : Bytes) (hk : k.WF) :
    keyPath (k.render ++ 0x3D :: Y) = .ok k.keys (0x3D :: Y) := by
  obtain ⟨h1, h2, h3⟩ := hk
  have hl := renderKeySep_lengthQ k.more
  have h := keyPathAux_dottedQ k.more k.first [] ((k.render ++ 0x3D :: Y).length + 1) Y h1 h2
    (by simp [QDKey.render]; omega)
  unfold keyPath
  simp only [QDKey.render, List.append_assoc] at h ⊢
  rw [h]
  have : ¬ LIMIT ≤ (k.first.key :: k.more.map QKey.key).length := by simp; omega
  simp only [List.nil_append, this, if_false, QDKey.keys]

theorem splitLast_keysQ (k : QDKey) : splitLast k.keys = some (k.path, k.last) :=
  splitLast_splitKeys _ _

/-! ## the induction -/

def ValGoalQ (a : QVal) : Prop :=
  ∀ d fuel rest, d + depthQ a < LIMIT → ValFollowS rest → 2 * (renderQ a).length ≤ fuel →
    value fuel d (renderQ a ++ rest) = .ok (semQ a) rest

/-- the same without a condition on what follows (arrays and inline tables) -/
def ContGoalQ (a : QVal) : Prop :=
  ∀ d fuel rest, d + depthQ a < LIMIT → 2 * (renderQ a).length ≤ fuel →
    value fuel d (renderQ a ++ rest) = .ok (semQ a) rest

def closeTailQ (tc : Bool) (tail : Wcn) (rest : Bytes) : Bytes :=
  (if tc then [0x2C] else []) ++ (renderWcn tail ++ 0x5D :: rest)

def ItemsGoalQ (l : List (Wcn × QVal × Wcn)) : Prop :=
  l ≠ [] → ∀ d g tc tail rest acc, WcnWF tail → d + depthItemsQ l < LIMIT → 2 * (renderItemsQ l).length + 2 ≤ g →
    arrayElems g d (renderItemsQ l ++ closeTailQ tc tail rest) acc =
      .ok (acc ++ semItemsQ l) (if tc then 0x2C :: (renderWcn tail ++ 0x5D :: rest) else 0x5D :: rest)

def PairsGoalQ (l : List (QDKey × Bytes × QVal × Bytes)) : Prop :=
  l ≠ [] → ∀ d g tail rest acc, AllWs tail → d + depthPairsQ l < LIMIT → 2 * (renderPairsQ l).length + 2 ≤ g →
    inlineKeyvals g d (renderPairsQ l ++ (tail ++ 0x7D :: rest)) acc = .ok (acc ++ flatPairsQ l) (0x7D :: rest)

theorem render_posQ (a : QVal) (h : WFQ a) : 0 < (renderQ a).length := by
  obtain ⟨b, r, e, _⟩ := render_headQ a h
  rw [e]; simp

theorem renderItemsSep_consQ (p : Wcn × QVal × Wcn) (l : List (Wcn × QVal × Wcn)) :
    renderItemsSepQ (p :: l) = 0x2C :: renderItemsQ (p :: l) := by
  obtain ⟨a, v, b⟩ := p; simp [renderItemsSepQ, renderItemsQ]

theorem items_stepQ (pre : Wcn) (v : QVal) (post : Wcn) (l' : List (Wcn × QVal × Wcn))
    (hpre : WcnWF pre) (hv : WFQ v) (hpost : WcnWF post) (ihv : ValGoalQ v) (ihl : ItemsGoalQ l') :
    ItemsGoalQ ((pre, v, post) :: l') := by
  intro _ d g tc tail rest acc htail hdep hg
  have hvpos := render_posQ v hv
  simp only [depthItemsQ] at hdep
  simp only [renderItemsQ, List.length_append] at hg
  obtain ⟨g0, rfl⟩ : ∃ g0, g = g0 + 1 := ⟨g - 1, by omega⟩
  simp only [renderItemsQ, semItemsQ, List.append_assoc]
  have h1 : ∀ Y : Bytes, wsCommentNewline ((renderWcn pre ++ (renderQ v ++ Y)).length + 1) (renderWcn pre ++ (renderQ v ++ Y))
      = some (renderQ v ++ Y) := fun Y =>
    wcn_exact pre _ _ hpre (noTrivia_renderQ v hv _) (by simp; omega)
  cases l' with
  | nil =>
    simp only [renderItemsSepQ, List.nil_append, List.length_nil] at hg ⊢
    cases tc with
    | true =>
      simp only [closeTailQ, if_true, List.cons_append, List.nil_append]
      have hfol : ValFollowS (renderWcn post ++ 0x2C :: (renderWcn tail ++ 0x5D :: rest)) :=
        followS_wcn_append post _ hpost (followS_of_head 0x2C _ (by decide) (by decide))
      have h2 := ihv d g0 _ (by omega) hfol (by omega)
      have h3 : wsCommentNewline ((renderWcn post ++ 0x2C :: (renderWcn tail ++ 0x5D :: rest)).length + 1)
          (renderWcn post ++ 0x2C :: (renderWcn tail ++ 0x5D :: rest)) = some (0x2C :: (renderWcn tail ++ 0x5D :: rest)) :=
        wcn_exact post _ _ hpost (noTrivia_cons _ _ (by decide)) (by simp; omega)
      obtain ⟨g1, rfl⟩ : ∃ g1, g0 = g1 + 1 := ⟨g0 - 1, by omega⟩
      obtain ⟨g2, rfl⟩ : ∃ g2, g1 = g2 + 1 := ⟨g1 - 1, by omega⟩
      have hw : wsCommentNewline ((renderWcn tail ++ 0x5D :: rest).length + 1) (renderWcn tail ++ 0x5D :: rest)
          = some (0x5D :: rest) := wcn_exact tail _ _ htail (noTrivia_cons _ _ (by decide)) (by simp; omega)
      have h4 := arrayElems_stop (g2 + 1) d _ _ (acc ++ [semQ v]) hw (value_close _ _ _)
      rw [arrayElems_more _ _ _ _ _ _ _ _ _ _ (h1 _) h2 h3 h4]
      simp [semItemsQ]
    | false =>
      simp only [closeTailQ, List.nil_append, Bool.false_eq_true, if_false]
      have hfol : ValFollowS (renderWcn post ++ (renderWcn tail ++ 0x5D :: rest)) :=
        followS_wcn_append post _ hpost (followS_wcn_append tail _ htail (followS_of_head 0x5D _ (by decide) (by decide)))
      have h2 := ihv d g0 _ (by omega) hfol (by omega)
      have h3 : wsCommentNewline ((renderWcn post ++ (renderWcn tail ++ 0x5D :: rest)).length + 1)
          (renderWcn post ++ (renderWcn tail ++ 0x5D :: rest)) = some (0x5D :: rest) := by
        have := wcn_exact (post ++ tail) ((renderWcn post ++ (renderWcn tail ++ 0x5D :: rest)).length + 1) (0x5D :: rest)
          (wcnWF_append _ _ hpost htail) (noTrivia_cons _ _ (by decide)) (by simp [renderWcn_append]; omega)
        simpa [renderWcn_append] using this
      rw [arrayElems_last _ _ _ _ _ _ _ _ (h1 _) h2 h3 (by intro t ht; simp at ht)]
      simp [semItemsQ]
  | cons p' l'' =>
    rw [renderItemsSep_consQ] at hg ⊢
    simp only [List.cons_append, List.length_cons] at hg ⊢
    have hfol : ValFollowS (renderWcn post ++ 0x2C :: (renderItemsQ (p' :: l'') ++ closeTailQ tc tail rest)) :=
      followS_wcn_append post _ hpost (followS_of_head 0x2C _ (by decide) (by decide))
    have h2 := ihv d g0 _ (by omega) hfol (by omega)
    have h3 : wsCommentNewline ((renderWcn post ++ 0x2C :: (renderItemsQ (p' :: l'') ++ closeTailQ tc tail rest)).length + 1)
        (renderWcn post ++ 0x2C :: (renderItemsQ (p' :: l'') ++ closeTailQ tc tail rest))
        = some (0x2C :: (renderItemsQ (p' :: l'') ++ closeTailQ tc tail rest)) :=
      wcn_exact post _ _ hpost (noTrivia_cons _ _ (by decide)) (by simp; omega)
    have h4 := ihl (by simp) d g0 tc tail rest (acc ++ [semQ v]) htail (by omega) (by omega)
    rw [arrayElems_more _ _ _ _ _ _ _ _ _ _ (h1 _) h2 h3 h4]
    obtain ⟨a', v', b'⟩ := p'
    simp [semItemsQ]

theorem followS_ws_appendQ (w X : Bytes) (hw : AllWs w) (hX : ValFollowS X) : ValFollowS (w ++ X) := by
  have := followS_wcn_append [.ws w] X (by intro p hp; simp at hp; subst hp; exact hw) hX
  simpa [renderWcn, Piece.render] using this

theorem renderPairsSep_consQ (p : QDKey × Bytes × QVal × Bytes) (l : List (QDKey × Bytes × QVal × Bytes)) :
    renderPairsSepQ (p :: l) = 0x2C :: renderPairsQ (p :: l) := by
  obtain ⟨k, a, v, b⟩ := p; simp [renderPairsSepQ, renderPairsQ]

theorem pairs_stepQ (k : QDKey) (w1 : Bytes) (v : QVal) (w2 : Bytes) (l' : List (QDKey × Bytes × QVal × Bytes))
    (hk : k.WF) (hw1 : AllWs w1) (hv : WFQ v) (hw2 : AllWs w2) (ihv : ValGoalQ v) (ihl : PairsGoalQ l') :
    PairsGoalQ ((k, w1, v, w2) :: l') := by
  intro _ d g tail rest acc htail hdep hg
  have hvpos := render_posQ v hv
  simp only [depthPairsQ] at hdep
  simp only [renderPairsQ, List.length_append, List.length_cons] at hg
  obtain ⟨g0, rfl⟩ : ∃ g0, g = g0 + 1 := ⟨g - 1, by omega⟩
  simp only [renderPairsQ, List.append_assoc, List.cons_append]
  have hkp := fun Y => keyPath_dottedQ k Y hk
  have hsl := splitLast_keysQ k
  have hlen : k.keys.length - 1 = k.more.length := by simp [QDKey.keys]
  have hdw : ∀ R2 : Bytes, dropWs (w1 ++ (renderQ v ++ R2)) = renderQ v ++ R2 := fun R2 => by
    rw [dropWs_allws _ _ hw1]; exact dropWs_stop _ (noTrivia_renderQ v hv _)
  have e : flatPairsQ ((k, w1, v, w2) :: l') = (k.path, k.last, semQ v) :: flatPairsQ l' := by simp [flatPairsQ]
  cases l' with
  | nil =>
    simp only [renderPairsSepQ, List.nil_append, List.length_nil] at hg ⊢
    have hfol : ValFollowS (w2 ++ (tail ++ 0x7D :: rest)) :=
      followS_ws_appendQ _ _ hw2 (followS_ws_appendQ _ _ htail (followS_of_head 0x7D _ (by decide) (by decide)))
    have h2 := ihv (d + (k.keys.length - 1)) g0 _ (by omega) hfol (by omega)
    rw [← hdw] at h2
    have hd2 : dropWs (w2 ++ (tail ++ 0x7D :: rest)) = 0x7D :: rest := by
      rw [dropWs_allws _ _ hw2, dropWs_allws _ _ htail]; exact dropWs_head _ _ (by decide)
    rw [inl_last _ _ _ _ _ _ _ _ _ _ (hkp _) hsl (by omega) h2 (by rw [hd2]; intro t ht; simp at ht), hd2, e]
    simp [flatPairsQ]
  | cons p' l'' =>
    rw [renderPairsSep_consQ] at hg ⊢
    simp only [List.cons_append, List.length_cons] at hg ⊢
    have hfol : ValFollowS (w2 ++ 0x2C :: (renderPairsQ (p' :: l'') ++ (tail ++ 0x7D :: rest))) :=
      followS_ws_appendQ _ _ hw2 (followS_of_head 0x2C _ (by decide) (by decide))
    have h2 := ihv (d + (k.keys.length - 1)) g0 _ (by omega) hfol (by omega)
    rw [← hdw] at h2
    have hd2 : dropWs (w2 ++ 0x2C :: (renderPairsQ (p' :: l'') ++ (tail ++ 0x7D :: rest)))
        = 0x2C :: (renderPairsQ (p' :: l'') ++ (tail ++ 0x7D :: rest)) := by
      rw [dropWs_allws _ _ hw2]; exact dropWs_head _ _ (by decide)
    have h4 := ihl (by simp) d g0 tail rest (acc ++ [(k.path, k.last, semQ v)]) htail (by omega) (by omega)
    rw [inl_more _ _ _ _ _ _ _ _ _ _ _ _ _ (hkp _) hsl (by omega) h2 hd2 h4, e]
    obtain ⟨k', a', v', b'⟩ := p'
    simp [flatPairsQ]

theorem item_head_neQ (pre : Wcn) (v : QVal) (Z : Bytes) (hpre : WcnWF pre) (hv : WFQ v) :
    ∀ t, renderWcn pre ++ (renderQ v ++ Z) ≠ 0x5D :: t := by
  intro t he
  rcases wcn_head pre hpre with h | ⟨b, r, h, hb⟩
  · obtain ⟨b, r, e, hb⟩ := render_headQ v hv
    rw [h, e] at he
    simp at he
    rw [he.1] at hb
    revert hb; decide
  · rw [h] at he
    simp at he
    rw [he.1] at hb
    revert hb; decide

theorem scalar_caseQ (t : ScalarTok) (h : ScalarOK t) : ValGoalQ (.scalar t) := by
  intro d fuel rest _ hfol hfuel
  obtain ⟨⟨b, r, e, _⟩, h2⟩ := h
  simp only [renderQ, semQ] at hfuel ⊢
  exact h2 fuel d rest (by rw [e] at hfuel; simp at hfuel; omega) hfol

theorem arr_caseQ (items : List (Wcn × QVal × Wcn)) (tc : Bool) (tail : Wcn) (hwf : WFItemsQ items)
    (hit : ItemsGoalQ items) (htail : WcnWF tail) (htc : items = [] → tc = false) : ContGoalQ (.arr items tc tail) := by
  intro d fuel rest hdep hfuel
  simp only [renderQ, depthQ, semQ, List.length_cons, List.length_append, List.length_nil] at hdep hfuel ⊢
  obtain ⟨f, rfl⟩ : ∃ f, fuel = f + 1 := ⟨fuel - 1, by omega⟩
  simp only [List.cons_append]
  apply value_arr_ok f d _ rest _ (by omega)
  have e : renderItemsQ items ++ ((if tc = true then [0x2C] else []) ++ (renderWcn tail ++ [0x5D])) ++ rest
      = renderItemsQ items ++ closeTailQ tc tail rest := by simp [closeTailQ]
  rw [e]
  obtain ⟨f0, rfl⟩ : ∃ f0, f = f0 + 1 := ⟨f - 1, by omega⟩
  cases items with
  | nil =>
    rw [htc rfl]
    simp only [renderItemsQ, List.nil_append, closeTailQ, semItemsQ, Bool.false_eq_true, if_false]
    exact arrayValues_empty f0 (d + 1) tail rest htail (by omega)
  | cons p l =>
    obtain ⟨pre, v, post⟩ := p
    rw [WFItemsQ] at hwf
    have hs : ∀ t, renderItemsQ ((pre, v, post) :: l) ++ closeTailQ tc tail rest ≠ 0x5D :: t := by
      simp only [renderItemsQ, List.append_assoc]
      exact item_head_neQ pre v _ hwf.1 hwf.2.1
    have hne : semItemsQ ((pre, v, post) :: l) ≠ [] := by simp [semItemsQ]
    have h := hit (by simp) (d + 1) f0 tc tail rest [] htail (by omega) (by omega)
    simp only [List.nil_append] at h
    cases tc with
    | true =>
      simp only [if_true] at h
      exact arrayValues_comma f0 (d + 1) _ _ _ _ hs hne h
        (wcn_exact tail _ _ htail (noTrivia_cons _ _ (by decide)) (by simp; omega))
    | false =>
      simp only [Bool.false_eq_true, if_false] at h
      exact arrayValues_nocomma f0 (d + 1) _ _ _ _ hs hne h (by intro t ht; simp at ht)
        (wcn_stop _ _ (noTrivia_cons _ _ (by decide)))

theorem inl_caseQ (items : List (QDKey × Bytes × QVal × Bytes)) (tail : Bytes)
    (hp : PairsGoalQ items) (htail : AllWs tail) (hnd : (tableFromPairs (flatPairsQ items) []).isSome = true) :
    ContGoalQ (.inl items tail) := by
  intro d fuel rest hdep hfuel
  simp only [renderQ, depthQ, semQ, List.length_cons, List.length_append, List.length_nil] at hdep hfuel ⊢
  obtain ⟨f, rfl⟩ : ∃ f, fuel = f + 1 := ⟨fuel - 1, by omega⟩
  simp only [List.cons_append, List.append_assoc, List.nil_append]
  have hc : dropWs (0x7D :: rest) = 0x7D :: rest := dropWs_head _ _ (by decide)
  obtain ⟨tbl, ht⟩ := Option.isSome_iff_exists.1 hnd
  rw [ht, Option.getD_some]
  cases items with
  | nil =>
    obtain ⟨f0, rfl⟩ : ∃ f0, f = f0 + 1 := ⟨f - 1, by omega⟩
    have hd : dropWs (tail ++ 0x7D :: rest) = 0x7D :: rest := by rw [dropWs_allws _ _ htail]; exact hc
    simp only [renderPairsQ, List.nil_append]
    exact value_inl_ok _ d _ _ rest [] tbl (by omega) (inl_stop f0 (d + 1) _ [] (keyPath_close _ rest hd)) ht hd
  | cons p l =>
    have h := hp (by simp) (d + 1) f tail rest [] htail (by omega) (by omega)
    simp only [List.nil_append] at h
    exact value_inl_ok _ d _ _ rest _ _ (by omega) h ht hc

mutual
theorem val_okQ : ∀ a : QVal, WFQ a → ValGoalQ a
  | .scalar t, h => scalar_caseQ t (by rw [WFQ] at h; exact h)
  | .arr items tc tail, h => by
    rw [WFQ] at h
    exact fun d fuel rest hd _ hf => arr_caseQ items tc tail h.1 (items_okQ items h.1) h.2.1 h.2.2 d fuel rest hd hf
  | .inl items tail, h => by
    rw [WFQ] at h
    exact fun d fuel rest hd _ hf => inl_caseQ items tail (pairs_okQ items h.1) h.2.1 h.2.2 d fuel rest hd hf
theorem items_okQ : ∀ l : List (Wcn × QVal × Wcn), WFItemsQ l → ItemsGoalQ l
  | [], _ => fun h => absurd rfl h
  | (pre, v, post) :: l, h => by
    rw [WFItemsQ] at h
    exact items_stepQ pre v post l h.1 h.2.1 h.2.2.1 (val_okQ v h.2.1) (items_okQ l h.2.2.2)
theorem pairs_okQ : ∀ l : List (QDKey × Bytes × QVal × Bytes), WFPairsQ l → PairsGoalQ l
  | [], _ => fun h => absurd rfl h
  | (k, w1, v, w2) :: l, h => by
    rw [WFPairsQ] at h
    exact pairs_stepQ k w1 v w2 l h.1 h.2.1 h.2.2.1 h.2.2.2.1 (val_okQ v h.2.2.1) (pairs_okQ l h.2.2.2.2)
end

end TomlVerif.Lemmas.Sound01C
