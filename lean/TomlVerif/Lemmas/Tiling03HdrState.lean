import TomlVerif.Lemmas.Tiling03HdrLine
/-! The parse-state invariant for flat documents with headers (C03): shapes, the printed text of a
    state, the always-true part (key uniqueness), the absorbing "bad" states, and the case
    analysis of `finalize_table` / `start_table` / `start_array_table`. -/
namespace TomlVerif.Lemmas.Tiling03Hdr
open TomlVerif TomlVerif.Spec TomlVerif.Model TomlVerif.Model.Strings TomlVerif.Model.Value
open TomlVerif.Model.Cst TomlVerif.Model.Encode TomlVerif.Lemmas.Suffix03 TomlVerif.Lemmas.Cst03
open TomlVerif.Lemmas.LastByte03 TomlVerif.Lemmas.Tiling03

/-! ### list facts about the flat class -/

theorem entriesOf_append : ∀ (a b : Items), entriesOf (a ++ b) = entriesOf a ++ entriesOf b
  | [], b => rfl
  | (k, .value v) :: r, b => by simp [entriesOf, entriesOf_append r b]
  | (k, .table t) :: r, b => by simp [entriesOf, entriesOf_append r b]
  | (k, .aot [] _) :: r, b => by simp [entriesOf, entriesOf_append r b]
  | (k, .aot [t] _) :: r, b => by simp [entriesOf, entriesOf_append r b]
  | (k, .aot (_ :: _ :: _) _) :: r, b => by simp [entriesOf, entriesOf_append r b]

theorem rootValues_append : ∀ (a b : Items), rootValues (a ++ b) = rootValues a ++ rootValues b
  | [], b => rfl
  | (k, .value v) :: r, b => by simp [rootValues, rootValues_append r b]
  | (k, .table t) :: r, b => by simp [rootValues, rootValues_append r b]
  | (k, .aot _ _) :: r, b => by simp [rootValues, rootValues_append r b]

theorem flatItems_append : ∀ (a b : Items), flatItems (a ++ b) = (flatItems a && flatItems b)
  | [], b => by simp [flatItems]
  | (k, .value v) :: r, b => by simp [flatItems, flatItems_append r b, Bool.and_assoc]
  | (k, .table t) :: r, b => by simp [flatItems, flatItems_append r b, Bool.and_assoc]
  | (k, .aot [] _) :: r, b => by simp [flatItems]
  | (k, .aot [t] _) :: r, b => by simp [flatItems, flatItems_append r b, Bool.and_assoc]
  | (k, .aot (_ :: _ :: _) _) :: r, b => by simp [flatItems]

theorem sectionsText_append (f : Bytes → Bytes) (inp : Bytes) : ∀ (a b : List Entry),
    sectionsText f inp (a ++ b) = sectionsText f inp a ++ sectionsText f inp b
  | [], b => by simp [sectionsText]
  | e :: r, b => by simp [sectionsText, sectionsText_append f inp r b, List.append_assoc]

theorem simple_flat : ∀ (l : Items), simpleBody l = true →
    flatItems l = true ∧ entriesOf l = [] ∧ rootValues l = l
  | [], _ => ⟨rfl, rfl, rfl⟩
  | (k, .value v) :: r, h => by
    simp only [simpleBody, Bool.and_eq_true] at h
    obtain ⟨a, b, c⟩ := simple_flat r h.2
    simp [flatItems, entriesOf, rootValues, h.1, a, b, c]
  | (k, .table _) :: r, h => by simp [simpleBody] at h
  | (k, .aot _ _) :: r, h => by simp [simpleBody] at h

theorem simple_lookup : ∀ (l : Items) (k : Bytes) (y : CItem), simpleBody l = true → clookup k l = some y →
    ∃ v, y = .value v
  | [], _, _, _, h => by simp [clookup] at h
  | (k', .value v) :: r, k, y, hs, h => by
    simp only [simpleBody, Bool.and_eq_true] at hs
    unfold clookup at h
    split at h
    · injection h with h; exact ⟨v, h.symm⟩
    · exact simple_lookup r k y hs.2 h
  | (k', .table _) :: r, _, _, hs, _ => by simp [simpleBody] at hs
  | (k', .aot _ _) :: r, _, _, hs, _ => by simp [simpleBody] at hs

theorem flat_lookup_table : ∀ (l : Items) (k : Bytes) (t : CTbl), flatItems l = true →
    clookup k l = some (.table t) → leafTbl t = true
  | [], _, _, _, h => by simp [clookup] at h
  | (k', .value v) :: r, k, t, hs, h => by
    simp only [flatItems, Bool.and_eq_true] at hs
    unfold clookup at h
    split at h
    · cases h
    · exact flat_lookup_table r k t hs.2 h
  | (k', .table t') :: r, k, t, hs, h => by
    simp only [flatItems, Bool.and_eq_true] at hs
    unfold clookup at h
    split at h
    · injection h with h; injection h with h; subst h; exact hs.1
    · exact flat_lookup_table r k t hs.2 h
  | (k', .aot [] _) :: r, _, _, hs, _ => by simp [flatItems] at hs
  | (k', .aot [t'] _) :: r, k, t, hs, h => by
    simp only [flatItems, Bool.and_eq_true] at hs
    unfold clookup at h
    split at h
    · cases h
    · exact flat_lookup_table r k t hs.2 h
  | (k', .aot (_ :: _ :: _) _) :: r, _, _, hs, _ => by simp [flatItems] at hs

theorem flat_lookup_aot : ∀ (l : Items) (k : Bytes) (ts : List CTbl) (sp : Option Span), flatItems l = true →
    clookup k l = some (.aot ts sp) → ts ≠ []
  | [], _, _, _, _, h => by simp [clookup] at h
  | (k', .value v) :: r, k, ts, sp, hs, h => by
    simp only [flatItems, Bool.and_eq_true] at hs
    unfold clookup at h
    split at h
    · cases h
    · exact flat_lookup_aot r k ts sp hs.2 h
  | (k', .table t') :: r, k, ts, sp, hs, h => by
    simp only [flatItems, Bool.and_eq_true] at hs
    unfold clookup at h
    split at h
    · cases h
    · exact flat_lookup_aot r k ts sp hs.2 h
  | (k', .aot [] _) :: r, _, _, _, hs, _ => by simp [flatItems] at hs
  | (k', .aot [t'] _) :: r, k, ts, sp, hs, h => by
    simp only [flatItems, Bool.and_eq_true] at hs
    unfold clookup at h
    split at h
    · injection h with h; injection h with h1 h2; subst h1; simp
    · exact flat_lookup_aot r k ts sp hs.2 h
  | (k', .aot (_ :: _ :: _) _) :: r, _, _, _, hs, _ => by simp [flatItems] at hs

theorem sortedFrom_snoc : ∀ (l : List Entry) (lo : Nat) (e : Entry), sortedFrom lo l = true →
    (∀ x ∈ l, x.pos ≤ e.pos) → lo ≤ e.pos → sortedFrom lo (l ++ [e]) = true
  | [], lo, e, _, _, h => by simp [sortedFrom, h]
  | x :: r, lo, e, hs, hall, _ => by
    simp only [sortedFrom, Bool.and_eq_true, decide_eq_true_eq] at hs
    simp only [List.cons_append, sortedFrom, Bool.and_eq_true, decide_eq_true_eq]
    exact ⟨hs.1, sortedFrom_snoc r x.pos e hs.2 (fun y hy => hall y (List.mem_cons_of_mem _ hy)) (hall x (by simp))⟩

/-! ### the printed text of a parse state -/

def curEntry (st : CState) : Entry := ⟨st.current.pos.getD 0, st.current, st.currentPath, st.currentIsArray⟩

/-- what the printer writes for the tables of the state: in the root phase the body of the
    current table; after a header the finished root followed by the section being read -/
def stText (f : Bytes → Bytes) (inp : Bytes) (st : CState) : Bytes :=
  if st.currentPath.isEmpty then encodeBody f inp (valuesTbl st.current.items [])
  else encodeBody f inp (valuesTbl (rootValues st.root.items) []) ++ sectionsText f inp (entriesOf st.root.items)
        ++ sectionText f inp (curEntry st)

/-- the text part of the invariant: `T` (the printed text of the state) is the consumed source up
    to the end of the last key/value or header line, with the CR of the CR LF line ends of such
    lines dropped, plus a final LF when that line ended at the end of input -/
def TxtOf (inp base : Bytes) (trailing : Option Span) (T s : Bytes) : Prop :=
  ∃ src out tr eol, TrailIs inp.length trailing tr s ∧ inp = base ++ src ++ tr ++ s ∧
    T = out ++ eol ∧ EolRel out src ∧
    (eol = [] ∨ (eol = [0x0A] ∧ s = [] ∧ tr = [] ∧ src.getLast? ≠ some 0x0A))

theorem txtOf_suffix {inp base : Bytes} {t : Option Span} {T s : Bytes} (h : TxtOf inp base t T s) : s <:+ inp := by
  obtain ⟨src, out, tr, eol, _, h2, _⟩ := h
  exact ⟨base ++ src ++ tr, h2.symm⟩

theorem txtOf_onWs (inp base : Bytes) (st : CState) (T w s' : Bytes)
    (h : TxtOf inp base st.trailing T (w ++ s')) :
    TxtOf inp base (onWs st (pos inp.length (w ++ s')) (pos inp.length s')).trailing T s' := by
  obtain ⟨src, out, tr, eol, h1, h2, h3, h4, h5⟩ := h
  refine ⟨src, out, tr ++ w, eol, trailIs_onWs _ st tr w s' h1, by rw [h2]; simp [List.append_assoc], h3, h4, ?_⟩
  rcases h5 with h5 | ⟨e1, e2, e3, e4⟩
  · exact Or.inl h5
  · right
    have hw : w = [] := (List.append_eq_nil_iff.1 e2).1
    have hs' : s' = [] := (List.append_eq_nil_iff.1 e2).2
    exact ⟨e1, hs', by rw [e3, hw]; rfl, e4⟩

/-- a key/value or header line extends the text -/
theorem txtOf_line (inp base : Bytes) (T s src out tr0 eol line e r3 x : Bytes)
    (h2 : inp = base ++ src ++ tr0 ++ s) (h3 : T = out ++ eol) (h4 : EolRel out src)
    (h5 : eol = [] ∨ (eol = [0x0A] ∧ s = [] ∧ tr0 = [] ∧ src.getLast? ≠ some 0x0A))
    (hs : s = line ++ e ++ r3) (he : LineEnd x e r3) (hl : ∃ t b, line = t ++ [b] ∧ b ≠ 0x0A) :
    TxtOf inp base none (T ++ tr0 ++ line ++ [0x0A]) r3 := by
  obtain ⟨lt, lb, hl1, hl2⟩ := hl
  have heol : eol = [] := by
    rcases h5 with h5 | ⟨_, e2, _, _⟩
    · exact h5
    · exfalso
      rw [e2, hl1] at hs
      have := congrArg List.length hs
      simp at this
  subst heol
  rw [List.append_nil] at h3
  subst h3
  cases he with
  | eof =>
    refine ⟨src ++ tr0 ++ line, T ++ tr0 ++ line, [], [0x0A], Or.inl ⟨rfl, rfl⟩, ?_, by simp [List.append_assoc],
      (h4.append (EolRel.refl _)).append (EolRel.refl _), Or.inr ⟨rfl, rfl, rfl, ?_⟩⟩
    · rw [h2, hs]; simp [List.append_assoc]
    · rw [hl1]; simp [← List.append_assoc, hl2]
  | lf r =>
    refine ⟨src ++ tr0 ++ line ++ [0x0A], T ++ tr0 ++ line ++ [0x0A], [], [], Or.inl ⟨rfl, rfl⟩, ?_, by simp,
      ((h4.append (EolRel.refl _)).append (EolRel.refl _)).append (EolRel.refl _), Or.inl rfl⟩
    rw [h2, hs]; simp [List.append_assoc]
  | crlf r =>
    refine ⟨src ++ tr0 ++ line ++ [0x0D, 0x0A], T ++ tr0 ++ line ++ [0x0A], [], [], Or.inl ⟨rfl, rfl⟩, ?_, by simp,
      ((h4.append (EolRel.refl _)).append (EolRel.refl _)).append (.crlf .nil), Or.inl rfl⟩
    rw [h2, hs]; simp [List.append_assoc]

theorem trailIs_unique (inp : Bytes) (t : Option Span) (tr tr' s : Bytes) (hs : s <:+ inp)
    (h1 : TrailIs inp.length t tr s) (h2 : TrailIs inp.length t tr' s)
    (hi : tr ++ s <:+ inp) (hi' : tr' ++ s <:+ inp) : tr' = tr := by
  rw [← trailIs_text inp t tr s h1 hi, ← trailIs_text inp t tr' s h2 hi']

/-! ### shapes -/

/-- before the first header -/
def ShapeA (st : CState) : Prop :=
  st.root = CTbl.empty ∧ st.currentPath = [] ∧
  ∃ items imp sp, st.current = .mk items imp false none {} sp ∧ simpleBody items = true

/-- after a header `[key]` / `[[key]]`: the root holds a flat item list `r0` in position order
    (followed by the empty array placeholder of a fresh `[[key]]`), `key` is new, the current
    table is the section being read -/
def ShapeB (st : CState) : Prop :=
  ∃ key r0 rimp rsp items q lead trail sp,
    st.currentPath = [key] ∧
    st.root = .mk (r0 ++ (if st.currentIsArray then [(key, .aot [] none)] else [])) rimp false none {} rsp ∧
    flatItems r0 = true ∧ sortedFrom 0 (entriesOf r0) = true ∧ (∀ e ∈ entriesOf r0, e.pos ≤ q) ∧
    clookup key.key r0 = none ∧
    st.current = .mk items false false (some q) (Decor.new lead trail) sp ∧ simpleBody items = true ∧
    st.position = q

def Good (f : Bytes → Bytes) (inp base : Bytes) (st : CState) (s : Bytes) : Prop :=
  (ShapeA st ∨ ShapeB st) ∧ TxtOf inp base st.trailing (stText f inp st) s

/-- the states from which no flat document can result -/
def Bad (st : CState) : Prop :=
  (st.currentPath = [] ∧ anyW st.current.items = true) ∨
  (st.currentPath ≠ [] ∧ simpleBody st.current.items = false) ∨
  2 ≤ st.currentPath.length ∨ anyW st.root.items = true ∨
  (st.currentIsArray = true ∧ ∃ key ts sp, st.currentPath = [key] ∧
    clookup key.key st.root.items = some (.aot ts sp) ∧ ts ≠ [])

/-- the part of the invariant that holds in every reachable state -/
def GI (st : CState) : Prop :=
  nodupK st.root.items = true ∧ (st.currentPath = [] → nodupK st.current.items = true) ∧
  (st.currentIsArray = false → ∀ key, st.currentPath = [key] → clookup key.key st.root.items = none)

def Inv (f : Bytes → Bytes) (inp base : Bytes) (st : CState) (s : Bytes) : Prop :=
  GI st ∧ (Good f inp base st s ∨ Bad st)

theorem good_current {st : CState} (h : ShapeA st ∨ ShapeB st) :
    ∃ items imp p dec sp, st.current = .mk items imp false p dec sp ∧ simpleBody items = true := by
  rcases h with ⟨_, _, items, imp, sp, h1, h2⟩ | ⟨key, r0, rimp, rsp, items, q, lead, trail, sp, _, _, _, _, _, _, h1, h2, _⟩
  · exact ⟨items, imp, none, {}, sp, h1, h2⟩
  · exact ⟨items, false, some q, _, sp, h1, h2⟩

/-! ### white space, comments, blank lines -/

theorem onWs_fields (st : CState) (a b : Nat) :
    (onWs st a b).root = st.root ∧ (onWs st a b).current = st.current ∧
    (onWs st a b).currentPath = st.currentPath ∧ (onWs st a b).currentIsArray = st.currentIsArray ∧
    (onWs st a b).position = st.position := by
  unfold onWs; split <;> exact ⟨rfl, rfl, rfl, rfl, rfl⟩

theorem stText_congr (f : Bytes → Bytes) (inp : Bytes) (st st' : CState) (h1 : st'.root = st.root)
    (h2 : st'.current = st.current) (h3 : st'.currentPath = st.currentPath)
    (h4 : st'.currentIsArray = st.currentIsArray) : stText f inp st' = stText f inp st := by
  unfold stText curEntry
  rw [h1, h2, h3, h4]

theorem inv_onWs (f : Bytes → Bytes) (inp base : Bytes) (st : CState) (w s' : Bytes)
    (h : Inv f inp base st (w ++ s')) :
    Inv f inp base (onWs st (pos inp.length (w ++ s')) (pos inp.length s')) s' := by
  obtain ⟨e1, e2, e3, e4, e5⟩ := onWs_fields st (pos inp.length (w ++ s')) (pos inp.length s')
  obtain ⟨hg, h⟩ := h
  refine ⟨?_, ?_⟩
  · unfold GI; rw [e1, e2, e3, e4]; exact hg
  · rcases h with ⟨hsh, htx⟩ | hb
    · left
      refine ⟨?_, ?_⟩
      · unfold ShapeA ShapeB; rw [e1, e2, e3, e4, e5]; exact hsh
      · rw [stText_congr f inp st _ e1 e2 e3 e4]
        exact txtOf_onWs inp base st _ w s' htx
    · right
      unfold Bad; rw [e1, e2, e3, e4]; exact hb

theorem inv_consume (f : Bytes → Bytes) (inp base : Bytes) (st : CState) (s s' : Bytes) (hs : s' <:+ s)
    (h : Inv f inp base st s) : Inv f inp base (onWs st (pos inp.length s) (pos inp.length s')) s' := by
  obtain ⟨w, hw⟩ := hs
  subst hw
  exact inv_onWs f inp base st w s' h

theorem inv_parseWs (f : Bytes → Bytes) (inp base : Bytes) (st : CState) (s : Bytes)
    (h : Inv f inp base st s) :
    Inv f inp base (parseWs inp.length st s).1 (parseWs inp.length st s).2 :=
  inv_consume f inp base st s (dropWs s) (Cst03.dropWs_suffix s) h

end TomlVerif.Lemmas.Tiling03Hdr
