import TomlVerif.Lemmas.DeLocated15f
import TomlVerif.Lemmas.Cst03
/-! Lemmas for Props/C15Located.lean, part 7: a located error's span is one of the spans the parser recorded in the
    node (`nodeSpans`, the collection of Lemmas/Cst03.lean `allSpans` restricted to an item). -/
namespace TomlVerif.Lemmas.DeLocated15
open TomlVerif TomlVerif.Model TomlVerif.Model.DeTyped TomlVerif.Model.Cst TomlVerif.Model.DeLocated
open TomlVerif.Lemmas.Cst03

/-- every span recorded in an item (values, keys, tables, arrays of tables, their decor) -/
def nodeSpans : CItem → List Span
  | .value v => valSpans v
  | .table t => tblSpans t
  | .aot ts sp => tblsSpans ts ++ optSp sp

theorem keySpan_mem (k : CKey) (sp : Span) (h : keySpan k = some sp) : sp ∈ keySpans k := by
  unfold keySpan at h
  unfold keySpans
  cases hr : k.repr with
  | empty => rw [hr] at h; simp [Raw.span] at h
  | spanned a b => rw [hr] at h; simp only [Raw.span, Option.some.injEq] at h; subst h; simp [rawSp]

theorem span_mem (it : CItem) (sp : Span) (h : it.span = some sp) : sp ∈ nodeSpans it := by
  cases it with
  | value v =>
    cases v with
    | scalar x r d =>
      simp only [CItem.span, CVal.span] at h
      cases r with
      | empty => simp [Raw.span] at h
      | spanned a b => simp only [Raw.span, Option.some.injEq] at h; subst h; simp [nodeSpans, valSpans, rawSp]
    | arr items t c d s =>
      simp only [CItem.span, CVal.span] at h; subst h; simp [nodeSpans, valSpans, optSp]
    | inl items p i dt d s =>
      simp only [CItem.span, CVal.span] at h; subst h; simp [nodeSpans, valSpans, optSp]
  | table t =>
    cases t with
    | mk items i d p dc s =>
      simp only [CItem.span, CTbl.span] at h; subst h; simp [nodeSpans, tblSpans, optSp]
  | aot ts s => simp only [CItem.span] at h; subst h; simp [nodeSpans, optSp]

theorem itemsSpans_cons (k : CKey) (it : CItem) (r : List (CKey × CItem)) :
    itemsSpans ((k, it) :: r) = keySpans k ++ nodeSpans it ++ itemsSpans r := by
  cases it <;> rfl

theorem mem_itemsSpans' {sp : Span} {k : CKey} {v : CItem} : ∀ {items : List (CKey × CItem)}, (k, v) ∈ items →
    (sp ∈ keySpans k ∨ sp ∈ nodeSpans v) → sp ∈ itemsSpans items
  | [], h, _ => by cases h
  | (k0, v0) :: r, h, hs => by
    rw [itemsSpans_cons]
    rcases List.mem_cons.1 h with h | h
    · cases h
      rcases hs with hs | hs
      · exact List.mem_append_left _ (List.mem_append_left _ hs)
      · exact List.mem_append_left _ (List.mem_append_right _ hs)
    · exact List.mem_append_right _ (mem_itemsSpans' h hs)

theorem mem_kvsSpans' {sp : Span} {k : CKey} {v : CVal} : ∀ {items : List (CKey × CVal)}, (k, v) ∈ items →
    (sp ∈ keySpans k ∨ sp ∈ valSpans v) → sp ∈ kvsSpans items
  | [], h, _ => by cases h
  | (k0, v0) :: r, h, hs => by
    simp only [kvsSpans, List.mem_append]
    rcases List.mem_cons.1 h with h | h
    · cases h
      rcases hs with hs | hs
      · exact Or.inl (Or.inl hs)
      · exact Or.inl (Or.inr hs)
    · exact Or.inr (mem_kvsSpans' h hs)

theorem mem_elemsSpans' {sp : Span} {v : CVal} : ∀ {items : List CVal}, v ∈ items → sp ∈ valSpans v → sp ∈ elemsSpans items
  | [], h, _ => by cases h
  | v0 :: r, h, hs => by
    simp only [elemsSpans, List.mem_append]
    rcases List.mem_cons.1 h with h | h
    · subst h; exact Or.inl hs
    · exact Or.inr (mem_elemsSpans' h hs)

theorem mem_tblsSpans' {sp : Span} {t : CTbl} : ∀ {ts : List CTbl}, t ∈ ts → sp ∈ tblSpans t → sp ∈ tblsSpans ts
  | [], h, _ => by cases h
  | t0 :: r, h, hs => by
    simp only [tblsSpans, List.mem_append]
    rcases List.mem_cons.1 h with h | h
    · subst h; exact Or.inl hs
    · exact Or.inr (mem_tblsSpans' h hs)

theorem bare_spans (x : Val) : nodeSpans (bareItem x) = [] := by
  simp [bareItem, nodeSpans, valSpans, rawSp, decorSp, optRawSp]

theorem entries_sub (it : CItem) (es : List (CKey × CItem)) (h : citemEntries it = some es) (k : CKey) (v : CItem)
    (hm : (k, v) ∈ es) (sp : Span) (hs : sp ∈ keySpans k ∨ sp ∈ nodeSpans v) : sp ∈ nodeSpans it := by
  cases it with
  | value x =>
    cases x with
    | scalar x r d =>
      cases x with
      | inl items a b =>
        simp only [citemEntries, Option.some.injEq] at h
        subst h
        obtain ⟨kv, _, hkv⟩ := List.mem_map.1 hm
        simp only [Prod.mk.injEq] at hkv
        obtain ⟨hk, hv⟩ := hkv
        subst hk; subst hv
        rcases hs with hs | hs
        · simp [bareKey, keySpans, rawSp, decorSp, optRawSp] at hs
        · simp [bare_spans] at hs
      | _ => simp [citemEntries] at h
    | arr => simp [citemEntries] at h
    | inl items p i dt d s =>
      simp only [citemEntries, Option.some.injEq] at h
      subst h
      obtain ⟨kv, hkv0, hkv⟩ := List.mem_map.1 hm
      simp only [Prod.mk.injEq] at hkv
      obtain ⟨hk, hv⟩ := hkv
      subst hk; subst hv
      simp only [nodeSpans, valSpans, List.mem_append]
      exact Or.inl (Or.inl (Or.inl (mem_kvsSpans' (k := kv.1) (v := kv.2) hkv0 hs)))
  | table t =>
    cases t with
    | mk items i d p dc s =>
      simp only [citemEntries, CTbl.items, Option.some.injEq] at h
      subst h
      simp only [nodeSpans, tblSpans, List.mem_append]
      exact Or.inl (Or.inl (mem_itemsSpans' hm hs))
  | aot => simp [citemEntries] at h

theorem elems_sub (it : CItem) (l : List CItem) (h : citemElems it = some l) (v : CItem) (hm : v ∈ l) (sp : Span)
    (hs : sp ∈ nodeSpans v) : sp ∈ nodeSpans it := by
  cases it with
  | value x =>
    cases x with
    | scalar x r d =>
      cases x with
      | arr items =>
        simp only [citemElems, Option.some.injEq] at h
        subst h
        obtain ⟨y, _, hy⟩ := List.mem_map.1 hm
        subst hy
        simp [bare_spans] at hs
      | _ => simp [citemElems] at h
    | arr items t c d s =>
      simp only [citemElems, Option.some.injEq] at h
      subst h
      obtain ⟨y, hy0, hy⟩ := List.mem_map.1 hm
      subst hy
      simp only [nodeSpans, valSpans, List.mem_append]
      exact Or.inl (Or.inl (Or.inl (mem_elemsSpans' hy0 hs)))
    | inl => simp [citemElems] at h
  | table t => simp [citemElems] at h
  | aot ts s =>
    simp only [citemElems, Option.some.injEq] at h
    subst h
    obtain ⟨y, hy0, hy⟩ := List.mem_map.1 hm
    subst hy
    simp only [nodeSpans, List.mem_append]
    exact Or.inl (mem_tblsSpans' hy0 hs)

/-- the span of a located error is a span recorded in the node -/
theorem loc_span_mem {it : CItem} {ks : List Bytes} {o : Option Span} (h : Loc it ks o) :
    ∀ sp, o = some sp → sp ∈ nodeSpans it := by
  induction h with
  | pending it => intro sp h; cases h
  | key hc hm => intro sp h; exact entries_sub _ _ hc _ _ hm sp (Or.inl (keySpan_mem _ sp h))
  | @entry it es k v ks sp0 hc hm _ ih =>
    intro sp h
    cases hs : sp0 with
    | some s0 =>
      rw [hs] at h
      simp only [Option.isNone_some, Bool.false_eq_true, if_false, Option.some.injEq] at h
      subst h
      exact entries_sub _ _ hc _ _ hm _ (Or.inr (ih _ hs))
    | none =>
      rw [hs] at h
      simp only [Option.isNone_none, if_true] at h
      unfold entrySpan at h
      cases hv : v.span with
      | some s1 =>
        rw [hv] at h
        simp only [Option.some.injEq] at h
        subst h
        exact entries_sub _ _ hc _ _ hm _ (Or.inr (span_mem v _ hv))
      | none =>
        rw [hv] at h
        exact entries_sub _ _ hc _ _ hm _ (Or.inl (keySpan_mem _ sp h))
  | elem hl hm _ ih => intro sp h; exact elems_sub _ _ hl _ hm sp (ih sp h)
  | variant hc _ ih => intro sp h; exact entries_sub _ _ hc _ _ (List.mem_cons_self ..) sp (Or.inr (ih sp h))
  | index hc hm _ _ ih => intro sp h; exact entries_sub _ _ hc _ _ hm sp (Or.inr (ih sp h))
  | fallback _ _ => intro sp h; exact span_mem _ sp h

/-! ### the spans strictly inside a node, and the despanned tree -/

/-- the spans recorded in the entries / elements of a node (not its own span, decor, `trailing`, `preamble`) -/
def childSpans : CItem → List Span
  | .value (.scalar _ _ _) => []
  | .value (.arr items _ _ _ _) => elemsSpans items
  | .value (.inl items _ _ _ _ _) => kvsSpans items
  | .table t => itemsSpans t.items
  | .aot ts _ => tblsSpans ts

theorem entries_child (it : CItem) (es : List (CKey × CItem)) (h : citemEntries it = some es) (k : CKey) (v : CItem)
    (hm : (k, v) ∈ es) (sp : Span) (hs : sp ∈ keySpans k ∨ sp ∈ nodeSpans v) : sp ∈ childSpans it := by
  cases it with
  | value x =>
    cases x with
    | scalar x r d =>
      cases x with
      | inl items a b =>
        simp only [citemEntries, Option.some.injEq] at h
        subst h
        obtain ⟨kv, _, hkv⟩ := List.mem_map.1 hm
        simp only [Prod.mk.injEq] at hkv
        obtain ⟨hk, hv⟩ := hkv
        subst hk; subst hv
        rcases hs with hs | hs
        · simp [bareKey, keySpans, rawSp, decorSp, optRawSp] at hs
        · simp [bare_spans] at hs
      | _ => simp [citemEntries] at h
    | arr => simp [citemEntries] at h
    | inl items p i dt d s =>
      simp only [citemEntries, Option.some.injEq] at h
      subst h
      obtain ⟨kv, hkv0, hkv⟩ := List.mem_map.1 hm
      simp only [Prod.mk.injEq] at hkv
      obtain ⟨hk, hv⟩ := hkv
      subst hk; subst hv
      exact mem_kvsSpans' (k := kv.1) (v := kv.2) hkv0 hs
  | table t =>
    simp only [citemEntries, Option.some.injEq] at h
    subst h
    exact mem_itemsSpans' hm hs
  | aot => simp [citemEntries] at h

theorem elems_child (it : CItem) (l : List CItem) (h : citemElems it = some l) (v : CItem) (hm : v ∈ l) (sp : Span)
    (hs : sp ∈ nodeSpans v) : sp ∈ childSpans it := by
  cases it with
  | value x =>
    cases x with
    | scalar x r d =>
      cases x with
      | arr items =>
        simp only [citemElems, Option.some.injEq] at h
        subst h
        obtain ⟨y, _, hy⟩ := List.mem_map.1 hm
        subst hy
        simp [bare_spans] at hs
      | _ => simp [citemElems] at h
    | arr items t c d s =>
      simp only [citemElems, Option.some.injEq] at h
      subst h
      obtain ⟨y, hy0, hy⟩ := List.mem_map.1 hm
      subst hy
      exact mem_elemsSpans' hy0 hs
    | inl => simp [citemElems] at h
  | table t => simp [citemElems] at h
  | aot ts s =>
    simp only [citemElems, Option.some.injEq] at h
    subst h
    obtain ⟨y, hy0, hy⟩ := List.mem_map.1 hm
    subst hy
    exact mem_tblsSpans' hy0 hs

/-- the span of a located error is the node's own span or a span recorded in its entries / elements -/
theorem loc_span_child {it : CItem} {ks : List Bytes} {o : Option Span} (h : Loc it ks o) :
    ∀ sp, o = some sp → it.span = some sp ∨ sp ∈ childSpans it := by
  cases h with
  | pending => intro sp h; cases h
  | key hc hm => intro sp h; exact Or.inr (entries_child _ _ hc _ _ hm sp (Or.inl (keySpan_mem _ sp h)))
  | @entry _ es k v ks sp0 hc hm hl =>
    intro sp h
    cases hs : sp0 with
    | some s0 =>
      rw [hs] at h hl
      simp only [Option.isNone_some, Bool.false_eq_true, if_false, Option.some.injEq] at h
      subst h
      exact Or.inr (entries_child _ _ hc _ _ hm _ (Or.inr (loc_span_mem hl _ rfl)))
    | none =>
      rw [hs] at h
      simp only [Option.isNone_none, if_true] at h
      unfold entrySpan at h
      cases hv : v.span with
      | some s1 =>
        rw [hv] at h
        simp only [Option.some.injEq] at h
        subst h
        exact Or.inr (entries_child _ _ hc _ _ hm _ (Or.inr (span_mem v _ hv)))
      | none =>
        rw [hv] at h
        exact Or.inr (entries_child _ _ hc _ _ hm _ (Or.inl (keySpan_mem _ sp h)))
  | elem hl hm h0 => intro sp h; exact Or.inr (elems_child _ _ hl _ hm sp (loc_span_mem h0 sp h))
  | variant hc h0 =>
    intro sp h; exact Or.inr (entries_child _ _ hc _ _ (List.mem_cons_self ..) sp (Or.inr (loc_span_mem h0 sp h)))
  | index hc hm _ h0 => intro sp h; exact Or.inr (entries_child _ _ hc _ _ hm sp (Or.inr (loc_span_mem h0 sp h)))
  | fallback _ => intro sp h; exact Or.inl h

theorem despanKey_spans (k : CKey) : keySpans (despanKey k) = [] := by
  simp [despanKey, keySpans, rawSp, decorSp, optRawSp]

mutual
theorem despanVal_spans : ∀ v : CVal, valSpans (despanVal v) = []
  | .scalar x r d => by simp [despanVal, valSpans, rawSp, decorSp, optRawSp]
  | .arr items t c d sp => by
    simp [despanVal, valSpans, rawSp, decorSp, optRawSp, optSp, despanVals_spans items]
  | .inl items p i dt d sp => by
    simp [despanVal, valSpans, rawSp, decorSp, optRawSp, optSp, despanKvs_spans items]
theorem despanVals_spans : ∀ l : List CVal, elemsSpans (despanVals l) = []
  | [] => by simp [despanVals, elemsSpans]
  | v :: r => by simp [despanVals, elemsSpans, despanVal_spans v, despanVals_spans r]
theorem despanKvs_spans : ∀ l : List (CKey × CVal), kvsSpans (despanKvs l) = []
  | [] => by simp [despanKvs, kvsSpans]
  | (k, v) :: r => by simp [despanKvs, kvsSpans, despanKey_spans, despanVal_spans v, despanKvs_spans r]
end

mutual
theorem despanItem_spans : ∀ it : CItem, nodeSpans (despanItem it) = []
  | .value v => by simp [despanItem, nodeSpans, despanVal_spans v]
  | .table t => by simp [despanItem, nodeSpans, despanTbl_spans t]
  | .aot ts sp => by simp [despanItem, nodeSpans, optSp, despanTbls_spans ts]
theorem despanTbl_spans : ∀ t : CTbl, tblSpans (despanTbl t) = []
  | .mk items i d p dc sp => by
    simp [despanTbl, tblSpans, decorSp, optRawSp, optSp, despanItems_spans items]
theorem despanTbls_spans : ∀ l : List CTbl, tblsSpans (despanTbls l) = []
  | [] => by simp [despanTbls, tblsSpans]
  | t :: r => by simp [despanTbls, tblsSpans, despanTbl_spans t, despanTbls_spans r]
theorem despanItems_spans : ∀ l : List (CKey × CItem), itemsSpans (despanItems l) = []
  | [] => by simp [despanItems, itemsSpans]
  | (k, v) :: r => by
    rw [despanItems, itemsSpans_cons, despanKey_spans, despanItem_spans v, despanItems_spans r]; rfl
end

end TomlVerif.Lemmas.DeLocated15
