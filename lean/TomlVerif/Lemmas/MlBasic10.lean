import TomlVerif.Lemmas.Basic10
/-! Round trip of the escaped writer through `mlBasicBody` (multi-line basic strings). -/
namespace TomlVerif.Lemmas
open TomlVerif TomlVerif.Spec TomlVerif.Model.Write TomlVerif.Model.Strings

theorem raw_is_mlb_unescaped : ∀ b : UInt8, b ≠ 0x22 → b ≠ 0x08 → b ≠ 0x09 → b ≠ 0x0A → b ≠ 0x0C → b ≠ 0x0D →
    b ≠ 0x5C → isCtl b = false → isMlbUnescaped b = true :=
  forall_byte (by decide +kernel)

theorem ctl_not_special : ∀ b : UInt8, isCtl b = true → b ≠ 0x09 →
    isMlbUnescaped b = false ∧ (b == 0x5C) = false ∧ (b == 0x22) = false :=
  forall_byte (by decide +kernel)

/-- step lemma, multi-line: the parser reads back one written non-quote byte -/
theorem mlb_step (fuel : Nat) (b : UInt8) (tail acc : Bytes) (hq : b ≠ 0x22) :
    mlBasicBody (fuel + 1) (escNonQuote true b ++ tail) acc = mlBasicBody fuel tail (acc ++ [b]) := by
  by_cases h8 : b = 0x08
  · subst h8; simp [escNonQuote, mlBasicBody, mlbEscapedNl, dropWs, newline?, escapeSeqChar, isMlbUnescaped, isBasicUnescaped, isWschar, inR, isNonAscii]
  by_cases h9 : b = 0x09
  · subst h9; simp [escNonQuote, mlBasicBody, mlbEscapedNl, dropWs, newline?, escapeSeqChar, isMlbUnescaped, isBasicUnescaped, isWschar, inR, isNonAscii]
  by_cases hA : b = 0x0A
  · subst hA; simp [escNonQuote, mlBasicBody, newline?, isMlbUnescaped, isBasicUnescaped, isWschar, inR, isNonAscii]
  by_cases hC : b = 0x0C
  · subst hC; simp [escNonQuote, mlBasicBody, mlbEscapedNl, dropWs, newline?, escapeSeqChar, isMlbUnescaped, isBasicUnescaped, isWschar, inR, isNonAscii]
  by_cases hD : b = 0x0D
  · subst hD; simp [escNonQuote, mlBasicBody, mlbEscapedNl, dropWs, newline?, escapeSeqChar, isMlbUnescaped, isBasicUnescaped, isWschar, inR, isNonAscii]
  by_cases h5 : b = 0x5C
  · subst h5; simp [escNonQuote, mlBasicBody, mlbEscapedNl, dropWs, newline?, escapeSeqChar, isMlbUnescaped, isBasicUnescaped, isWschar, inR, isNonAscii]
  by_cases hc : isCtl b = true
  · obtain ⟨h0, hx, hy, hs, he⟩ := ctl_hex b hc
    obtain ⟨hne, hnb, hnq⟩ := ctl_not_special b hc h9
    have hesc : escNonQuote true b = [0x5C, 0x75, 0x30, 0x30, hexUpper (b.toNat / 16), hexUpper (b.toNat % 16)] := by
      unfold isCtl at hc
      simp [escNonQuote, h8, h9, hA, hC, hD, h5, hc]
    rw [hesc]
    simp [mlBasicBody, mlbEscapedNl, dropWs, newline?, escapeSeqChar, hexescape, isMlbUnescaped, isBasicUnescaped,
      isWschar, inR, isNonAscii, hexN4 _ _ _ _ _ _ _ _ _ h0 h0 hx hy, hs, he]
  · have hc' : isCtl b = false := by simpa using hc
    have hu := raw_is_mlb_unescaped b hq h8 h9 hA hC hD h5 hc'
    have hesc : escNonQuote true b = [b] := by
      unfold isCtl at hc'
      simp [escNonQuote, h8, h9, hA, hC, hD, h5, hc']
    rw [hesc]
    simp [mlBasicBody, hu]

theorem countLeading_replicate (q x : UInt8) (k : Nat) (t : Bytes) (hx : x ≠ q) :
    countLeading q (List.replicate k q ++ x :: t) = k := by
  induction k with
  | zero => simp [countLeading, hx]
  | succ n ih => simp [List.replicate_succ, countLeading, ih]

theorem countLeading_replicate_nil (q : UInt8) (k : Nat) :
    countLeading q (List.replicate k q) = k := by
  induction k with
  | zero => simp [countLeading]
  | succ n ih => simp [List.replicate_succ, countLeading, ih]

/-- a run of one or two quotation marks followed by another byte is body content -/
theorem mlb_quotes (fuel k : Nat) (x : UInt8) (t acc : Bytes) (hk : k ≤ 2) (hx : x ≠ 0x22) :
    mlBasicBody (fuel + k) (List.replicate k 0x22 ++ x :: t) acc =
      mlBasicBody fuel (x :: t) (acc ++ List.replicate k 0x22) := by
  have h1 : countLeading 0x22 (x :: t) = 0 := by simp [countLeading, hx]
  match k, hk with
  | 0, _ => simp
  | 1, _ =>
    simp [List.replicate, mlBasicBody, isMlbUnescaped, isBasicUnescaped, isWschar, inR, isNonAscii, countLeading, hx]
  | 2, _ =>
    simp [List.replicate, mlBasicBody, isMlbUnescaped, isBasicUnescaped, isWschar, inR, isNonAscii, countLeading, hx]

theorem countLeading_zero (q : UInt8) (rest : Bytes) (h : rest.head? ≠ some q) : countLeading q rest = 0 := by
  cases rest with
  | nil => simp [countLeading]
  | cons x t =>
    have : x ≠ q := by intro e; apply h; simp [e]
    simp [countLeading, this]

/-- three to five quotation marks close the string; the surplus belongs to the body -/
theorem mlb_close (fuel k : Nat) (rest acc : Bytes) (hk : k ≤ 2) (hr : rest.head? ≠ some 0x22) :
    mlBasicBody (fuel + 1) (List.replicate k 0x22 ++ 0x22 :: 0x22 :: 0x22 :: rest) acc =
      .ok (acc ++ List.replicate k 0x22) rest := by
  have h0 := countLeading_zero 0x22 rest hr
  match k, hk with
  | 0, _ => simp [mlBasicBody, isMlbUnescaped, isBasicUnescaped, isWschar, inR, isNonAscii, countLeading, h0]
  | 1, _ => simp [List.replicate, mlBasicBody, isMlbUnescaped, isBasicUnescaped, isWschar, inR, isNonAscii, countLeading, h0]
  | 2, _ => simp [List.replicate, mlBasicBody, isMlbUnescaped, isBasicUnescaped, isWschar, inR, isNonAscii, countLeading, h0]

theorem escNonQuote_head (ml : Bool) : ∀ b : UInt8, b ≠ 0x22 →
    (escNonQuote ml b).head? ≠ some 0x22 ∧ (escNonQuote ml b).head? ≠ none := by
  cases ml
  · exact forall_byte (by decide +kernel)
  · exact forall_byte (by decide +kernel)

/-- multi-line basic body. The parser stands before `k` raw quotation marks the writer has already
    emitted in the current run (`k = seq_double_quotes`), followed by the rest of the writer's output
    and the closing delimiter. -/
theorem mlb_body_rt (s : Bytes) : ∀ (k fuel : Nat) (rest acc : Bytes), k ≤ 2 → rest.head? ≠ some 0x22 →
    (List.replicate k 0x22 ++ (escBody true k s ++ 0x22 :: 0x22 :: 0x22 :: rest)).length < fuel →
    mlBasicBody fuel (List.replicate k 0x22 ++ (escBody true k s ++ 0x22 :: 0x22 :: 0x22 :: rest)) acc =
      .ok (acc ++ List.replicate k 0x22 ++ s) rest := by
  induction s with
  | nil =>
    intro k fuel rest acc hk hr hf
    cases fuel with
    | zero => simp at hf
    | succ f => simp only [escBody, List.nil_append, List.append_nil]; exact mlb_close f k rest acc hk hr
  | cons b s ih =>
    intro k fuel rest acc hk hr hf
    by_cases hq : b = 0x22
    · subst hq
      by_cases hk2 : k < 2
      · -- the writer emits the quote raw: it joins the pending run
        have e : escBody true k (0x22 :: s) = 0x22 :: escBody true (k + 1) s := by
          simp [escBody]; omega
        rw [e] at hf ⊢
        have e2 : List.replicate k (0x22 : UInt8) ++ (0x22 :: escBody true (k + 1) s ++ 0x22 :: 0x22 :: 0x22 :: rest)
            = List.replicate (k + 1) 0x22 ++ (escBody true (k + 1) s ++ 0x22 :: 0x22 :: 0x22 :: rest) := by
          simp [List.replicate_succ']
        rw [e2] at hf ⊢
        rw [ih (k + 1) fuel rest acc (by omega) hr hf]
        simp [List.replicate_succ']
      · -- third quote of a run: written as an escape
        have hk' : k = 2 := by omega
        subst hk'
        have e : escBody true 2 (0x22 :: s) = 0x5C :: 0x22 :: escBody true 0 s := by simp [escBody]
        rw [e] at hf ⊢
        obtain ⟨f, rfl⟩ : ∃ f, fuel = (f + 1) + 2 := ⟨fuel - 3, by simp at hf; omega⟩
        have := mlb_quotes (f + 1) 2 0x5C (0x22 :: escBody true 0 s ++ 0x22 :: 0x22 :: 0x22 :: rest) acc (by omega) (by decide)
        simp only [List.cons_append] at this ⊢
        rw [this]
        unfold mlBasicBody
        simp [mlbEscapedNl, dropWs, newline?, escapeSeqChar, isMlbUnescaped, isBasicUnescaped, isWschar, inR, isNonAscii]
        have := ih 0 f rest (acc ++ [0x22, 0x22, 0x22]) (by omega) hr (by simp at hf ⊢; omega)
        simp at this
        rw [this]
    · have e : escBody true k (b :: s) = escNonQuote true b ++ escBody true 0 s := by simp [escBody, hq]
      rw [e] at hf ⊢
      obtain ⟨hh, hn⟩ := escNonQuote_head true b hq
      match hx : escNonQuote true b with
      | [] => simp [hx] at hn
      | x :: xs =>
        have hxq : x ≠ 0x22 := by intro e; apply hh; simp [hx, e]
        have hlen : k + (xs.length + 1) < fuel := by simp [hx] at hf; omega
        obtain ⟨f, rfl⟩ : ∃ f, fuel = (f + 1) + k := ⟨fuel - 1 - k, by omega⟩
        simp only [List.cons_append, List.append_assoc]
        rw [mlb_quotes (f + 1) k x _ acc hk hxq]
        have back : x :: (xs ++ (escBody true 0 s ++ 0x22 :: 0x22 :: 0x22 :: rest)) =
            escNonQuote true b ++ (escBody true 0 s ++ 0x22 :: 0x22 :: 0x22 :: rest) := by simp [hx]
        rw [back, mlb_step f b _ _ hq]
        have := ih 0 f rest (acc ++ List.replicate k 0x22 ++ [b]) (by omega) hr (by
          have := escNonQuote_length_pos true b
          simp [hx] at hf ⊢; omega)
        simpa using this

end TomlVerif.Lemmas
