import TomlVerif.Lemmas.Macro19cText
import TomlVerif.Lemmas.Sound01Scalars
import TomlVerif.Lemmas.ValEq
import TomlVerif.Props.C02Strings
import TomlVerif.Props.C12
import TomlVerif.Lemmas.Macro19cDtSp
/-! C19 (text): the TOML value parser reads the text of a leaf as the value the macro's literal evaluation gives.
    `leaf_scalarOK`: for every leaf of the shared spellings (`leafOk`) whose literal the macro evaluates to `m`, the text is
    a scalar token (`ScalarOK`, Spec/AstValue.lean) for `mvalV m`. -/
namespace TomlVerif.Lemmas.Macro19c
open TomlVerif TomlVerif.Spec TomlVerif.Model TomlVerif.Model.Macro TomlVerif.Lemmas.Macro19 TomlVerif.Lemmas.Macro19b
open TomlVerif.Spec.AstValue TomlVerif.Model.Value TomlVerif.Lemmas.Value01 TomlVerif.Lemmas.Scalars01
open TomlVerif.Lemmas.Numbers11 TomlVerif.Model.Numbers
open TomlVerif.Spec.AstString (BasicChar renderBasic semBasic wfBasic)

/-- a text that `value` reads completely as `v` is a scalar token for `v` -/
theorem scalarOK_of_value (text : Bytes) (v : Val) (h : value 1 0 text = .ok v [])
    (hh : ∀ b r, text = b :: r → b ≠ 0x5B ∧ b ≠ 0x7B) : ScalarOK ⟨text, v⟩ := by
  obtain ⟨t, ht, e, hv⟩ := TomlVerif.Lemmas.Sound01.scalarSound 1 0 text v [] h hh
  rw [List.append_nil] at e
  obtain ⟨tok, tv⟩ := t
  simp only at e hv
  subst e hv
  exact ht

def signOpt : Sign → Option Bool
  | .none => none
  | .plus => some false
  | .minus => some true

theorem signBytes_signOpt (s : Sign) : signBytes (signOpt s) = signText s := by cases s <;> rfl
theorem isNegSign_signOpt (s : Sign) : isNegSign (signOpt s) = s.neg := by cases s <;> rfl

theorem allB_of_all (p : Byte → Bool) (ds : Bytes) (h : ds.all p = true) : AllB p ds := by
  intro b hb; exact List.all_eq_true.1 h b hb

theorem stripUs_digits (ds : Bytes) (h : ds.all isDigit = true) : stripUs ds = ds := by
  unfold stripUs
  rw [List.filter_eq_self]
  intro b hb
  have := List.all_eq_true.1 h b hb
  have : b ≠ 0x5F := by intro e; subst e; revert this; decide
  simpa using this

theorem digit_not_radix : ∀ b : Byte, isDigit b = true → b ≠ 0x78 ∧ b ≠ 0x6F ∧ b ≠ 0x62 :=
  forall_byte (by decide +kernel)

theorem intLit_dec (body : Bytes) (hne : body ≠ []) (hd : body.all isDigit = true) :
    intLitValue body = some (natOfDigitsBase 10 body) := by
  have h2 : ∀ a c r, body = a :: c :: r → c ≠ 0x78 ∧ c ≠ 0x6F ∧ c ≠ 0x62 := by
    intro a c r e; subst e
    simp at hd
    exact digit_not_radix c hd.2.1
  unfold intLitValue
  split
  · rename_i ds; exact absurd rfl (h2 _ _ _ rfl).1
  · rename_i ds; exact absurd rfl (h2 _ _ _ rfl).2.1
  · rename_i ds; exact absurd rfl (h2 _ _ _ rfl).2.2
  · simp only [stripUs_digits body hd, hd, Bool.true_and]
    have : body.isEmpty = false := by simpa using hne
    simp [this]

theorem decOk_groups (body : Bytes) (h : decOk body = true) :
    GoodGroups isDigit [body] ∧ NoLeadingZero [body] := by
  obtain ⟨hne, hd, _⟩ := decOk_facts body h
  refine ⟨⟨by simp, ?_⟩, ?_⟩
  · intro g hg
    simp at hg; subst hg
    exact ⟨hne, allB_of_all _ _ hd⟩
  · intro g0 gs e
    simp only [List.cons.injEq] at e
    obtain ⟨e1, e2⟩ := e
    subst e1
    simp only [decOk, Bool.and_eq_true] at h
    refine ⟨by simpa using h.2, e2.symm⟩

theorem inI64_small (n : Nat) (h : n ≤ i32Max + 1) : inI64 (n : Int) = true ∧ inI64 (-(n : Int)) = true := by
  simp only [i32Max] at h
  have h' : (n : Int) ≤ 2147483648 := by omega
  unfold inI64 i64Min i64Max
  refine ⟨?_, ?_⟩
  · have a : (-9223372036854775808 : Int) ≤ (n : Int) := by omega
    have b : (n : Int) ≤ 9223372036854775807 := by omega
    simp [a, b]
  · have a : (-9223372036854775808 : Int) ≤ -(n : Int) := by omega
    have b : -(n : Int) ≤ 9223372036854775807 := by omega
    simp [a, b]

theorem int_scalarOK (s : Sign) (body : Bytes) (h : decOk body = true) (m : MVal)
    (hs : (MacroVal.int s body).sem = .ok m) : ScalarOK ⟨signText s ++ body, mvalV m⟩ := by
  obtain ⟨hne, hd, _⟩ := decOk_facts body h
  obtain ⟨hg, hz⟩ := decOk_groups body h
  have hv : decValue (signOpt s) [body] =
      if s.neg then -((natOfDigitsBase 10 body : Nat) : Int) else ((natOfDigitsBase 10 body : Nat) : Int) := by
    simp [decValue, isNegSign_signOpt]
  -- what the macro computes
  simp only [MacroVal.sem, litValue, List.isEmpty_nil, Bool.not_true, Bool.false_eq_true, if_false,
    intLit_dec body hne hd] at hs
  have key : ∃ n : Nat, n = natOfDigitsBase 10 body ∧ n ≤ i32Max + 1 ∧
      m = .int (if s.neg then -(n : Int) else (n : Int)) := by
    refine ⟨_, rfl, ?_⟩
    cases hn : s.neg with
    | true =>
      simp only [hn, if_true] at hs
      split at hs
      · rename_i hle; injection hs with hs; exact ⟨hle, hs.symm⟩
      · cases hs
    | false =>
      simp only [hn, Bool.false_eq_true, if_false] at hs
      split at hs
      · rename_i hle; injection hs with hs; exact ⟨by omega, hs.symm⟩
      · cases hs
  obtain ⟨n, hn, hle, rfl⟩ := key
  have hin : inI64 (decValue (signOpt s) [body]) = true := by
    rw [hv, ← hn]
    cases s.neg
    · exact (inI64_small n hle).1
    · exact (inI64_small n hle).2
  have := scalarOK_dec (signOpt s) [body] hg hz hin
  rw [hv, ← hn, signBytes_signOpt] at this
  simpa [joinU, tailGroups, mvalV] using this

/-! ## floats -/

theorem roundDecimal_neg (m : Nat) (e : Int) :
    Ieee.roundDecimal true m e = Ieee.signBit + Ieee.roundDecimal false m e := by
  unfold Ieee.roundDecimal
  simp only [if_true, Bool.false_eq_true, if_false]
  split
  · simp
  · split
    · simp
    · split
      · simp
      · split <;> simp

theorem bits_neg (i f : Bytes) (en : Bool) (ed : Bytes) :
    FloatLit.bits ⟨true, i, f, en, ed⟩ = Ieee.signBit + FloatLit.bits ⟨false, i, f, en, ed⟩ := by
  simp only [FloatLit.bits]
  exact roundDecimal_neg _ _

theorem isInf_sign (b : Nat) : Ieee.isInfBits (Ieee.signBit + b) = Ieee.isInfBits b := by
  simp [Ieee.isInfBits, Nat.add_mod_left]

theorem floatLitBits_frac (ip fp : Bytes) (hi : ip.all isDigit = true) (hf : fp.all isDigit = true) :
    floatLitBits (ip ++ 0x2E :: fp) =
      if Ieee.isInfBits (FloatLit.bits ⟨false, ip, fp, false, []⟩) then none
      else some (FloatLit.bits ⟨false, ip, fp, false, []⟩) := by
  have hall : (ip ++ 0x2E :: fp).all (fun b => isDigit b || b == 0x2E) = true := by
    rw [List.all_eq_true]
    intro b hb
    rcases List.mem_append.1 hb with hb | hb
    · simp [List.all_eq_true.1 hi b hb]
    · rcases List.mem_cons.1 hb with rfl | hb
      · simp
      · simp [List.all_eq_true.1 hf b hb]
  have hs : stripUs (ip ++ 0x2E :: fp) = ip ++ 0x2E :: fp := by
    unfold stripUs
    rw [List.filter_eq_self]
    intro b hb
    have := List.all_eq_true.1 hall b hb
    have : b ≠ 0x5F := by intro e; subst e; revert this; decide
    simpa using this
  have h1 : spanP isDigit (ip ++ 0x2E :: fp) = (ip, 0x2E :: fp) := spanP_append isDigit ip _ hi (by simp [Hd, isDigit, inR])
  have h2 : spanP isDigit fp = (fp, []) := by
    have := spanP_append isDigit fp [] hf trivial
    simpa using this
  unfold floatLitBits
  simp only [hs, h1, h2]

theorem numTail_digits (t : Bytes) (h : ∀ b ∈ t, isDigit b = true ∨ b = 0x5F ∨ b = 0x2E) : NumTail t [] :=
  ⟨fun b hb => digit_tail_facts b (h b hb), fun b r e => by cases e⟩

theorem float_scalarOK (s : Sign) (body : Bytes) (h : fracOk body = true) (m : MVal)
    (hs : (MacroVal.float s body).sem = .ok m) : ScalarOK ⟨signText s ++ body, mvalV m⟩ := by
  obtain ⟨ip, fp, rfl, hip, hfne, hf⟩ := fracOk_facts body h
  obtain ⟨hne, hd, hh⟩ := decOk_facts ip hip
  obtain ⟨hg, hz⟩ := decOk_groups ip hip
  have hgf : GoodGroups isDigit [fp] := ⟨by simp, by intro g hg; simp at hg; subst hg; exact ⟨hfne, allB_of_all _ _ hf⟩⟩
  -- the macro
  simp only [MacroVal.sem, litValue, List.isEmpty_nil, Bool.not_true, Bool.false_eq_true, if_false, if_true,
    floatLitBits_frac ip fp hd hf] at hs
  cases hinf : Ieee.isInfBits (FloatLit.bits ⟨false, ip, fp, false, []⟩) with
  | true => simp [hinf] at hs
  | false =>
    simp only [hinf, Bool.false_eq_true, if_false] at hs
    injection hs with hs
    subst hs
    -- the parser
    have hl := floatLit_frac (signOpt s) [ip] [fp] [] hg hz hgf trivial
    simp only [joinU, tailGroups, List.append_nil, List.flatten_cons, List.flatten_nil, signBytes_signOpt,
      isNegSign_signOpt] at hl
    have hbits : FloatLit.bits ⟨s.neg, ip, fp, false, []⟩ =
        (if s.neg then FloatLit.bits ⟨false, ip, fp, false, []⟩ + Ieee.signBit else FloatLit.bits ⟨false, ip, fp, false, []⟩) := by
      cases s.neg
      · simp
      · simp [bits_neg, Nat.add_comm]
    have hfl : float (signText s ++ ip ++ 0x2E :: fp) =
        .ok (if s.neg then FloatLit.bits ⟨false, ip, fp, false, []⟩ + Ieee.signBit else FloatLit.bits ⟨false, ip, fp, false, []⟩) [] := by
      unfold float
      rw [hl]
      simp only [hbits]
      cases s.neg
      · simp [hinf]
      · simp [Nat.add_comm _ Ieee.signBit, isInf_sign, hinf]
    -- shape of the text
    obtain ⟨d0, ip', rfl, hd0⟩ := hh
    have htail : ∀ b ∈ ip' ++ 0x2E :: fp, isDigit b = true ∨ b = 0x5F ∨ b = 0x2E := by
      intro b hb
      rcases List.mem_append.1 hb with hb | hb
      · left; simp at hd; exact hd.2 b hb
      · rcases List.mem_cons.1 hb with rfl | hb
        · right; right; rfl
        · left; exact List.all_eq_true.1 hf b hb
    refine scalarOK_of_value _ _ ?_ ?_
    · cases s with
      | none =>
        simp only [signText, List.nil_append, List.cons_append, Sign.neg] at hfl ⊢
        exact value_float 0 0 d0 _ [] _ (by simp [hd0]) (by
          have := dateTime_bt_of d0 (ip' ++ 0x2E :: fp) [] (numTail_digits _ htail)
          simpa using this) hfl
      | plus =>
        simp only [signText, List.cons_append, List.nil_append, Sign.neg] at hfl ⊢
        exact value_float 0 0 0x2B _ [] _ (by decide) (by
          have := dateTime_bt_of 0x2B (d0 :: ip' ++ 0x2E :: fp) [] (numTail_digits _ (by
            intro b hb
            rcases List.mem_cons.1 hb with rfl | hb
            · exact Or.inl hd0
            · exact htail b hb))
          simpa using this) hfl
      | minus =>
        simp only [signText, List.cons_append, List.nil_append, Sign.neg] at hfl ⊢
        exact value_float 0 0 0x2D _ [] _ (by decide) (by
          have := dateTime_bt_of 0x2D (d0 :: ip' ++ 0x2E :: fp) [] (numTail_digits _ (by
            intro b hb
            rcases List.mem_cons.1 hb with rfl | hb
            · exact Or.inl hd0
            · exact htail b hb))
          simpa using this) hfl
    · intro b r e
      cases s <;> simp [signText] at e <;> (rw [← e.1]) <;> first | decide | (exact ⟨by intro x; subst x; revert hd0; decide, by intro x; subst x; revert hd0; decide⟩)

/-! ## `inf`, `nan`, booleans -/

theorem special_scalarOK (s : Sign) (nan : Bool) (m : MVal) (hs : (MacroVal.special s nan).sem = .ok m) :
    ScalarOK ⟨signText s ++ (if nan then bNan else bInf), mvalV m⟩ := by
  simp only [MacroVal.sem] at hs
  injection hs with hs
  subst hs
  refine scalarOK_of_value _ _ ?_ ?_
  · cases s <;> cases nan <;> exact TomlVerif.Lemmas.ValEq.okIs_sound _ _ _ (by decide +kernel)
  · intro b r e
    cases s <;> cases nan <;> simp [signText, bNan, bInf] at e <;> (rw [← e.1]; decide)

theorem bool_scalarOK (b : Bool) : ScalarOK ⟨if b then bTrue else bFalse, .bool b⟩ := by
  cases b
  · exact scalarOK_false
  · exact scalarOK_true

/-! ## strings -/

theorem str_scalarOK (raw val : Bytes) (h : strOk raw val = true) : ScalarOK ⟨raw, .str val⟩ := by
  obtain ⟨cs, rfl, rfl, _, hwf⟩ := strOk_spec raw val h
  refine scalarOK_of_value _ _ ?_ ?_
  · have := TomlVerif.Props.C02Strings.T02_string_dispatch (.basic cs) [] hwf (Or.inr (by simp))
    simp only [AstString.StringAst.render, AstString.StringAst.sem, List.append_nil] at this
    have e : renderBasic cs = 0x22 :: (cs.flatMap BasicChar.render ++ [0x22]) := rfl
    rw [e] at this ⊢
    rw [value_str 0 0 0x22 _ (Or.inl rfl), this]
    rfl
  · intro b r e
    have e' : renderBasic cs = 0x22 :: (cs.flatMap BasicChar.render ++ [0x22]) := rfl
    rw [e'] at e
    injection e with e _
    rw [← e]; decide

/-! ## date-times -/

theorem plain4_cases (n : Num) (h : plainN 4 n = true) :
    ∃ a b c d, n = ⟨[a, b, c, d], [], false⟩ ∧
      isDigit a = true ∧ isDigit b = true ∧ isDigit c = true ∧ isDigit d = true := by
  obtain ⟨body, sf, fl⟩ := n
  simp only [plainN, Bool.and_eq_true, beq_iff_eq, Bool.not_eq_true', List.isEmpty_iff] at h
  obtain ⟨⟨⟨h1, h2⟩, h3⟩, h4⟩ := h
  subst h3 h4
  match body, h1, h2 with
  | [a, b, c, d], _, h2 =>
    simp at h2
    exact ⟨a, b, c, d, rfl, h2.1, h2.2.1, h2.2.2.1, h2.2.2.2⟩

theorem plain2_cases (n : Num) (h : plainN 2 n = true) : ∃ a b, n = ⟨[a, b], [], false⟩ := by
  obtain ⟨body, sf, fl⟩ := n
  simp only [plainN, Bool.and_eq_true, beq_iff_eq, Bool.not_eq_true', List.isEmpty_iff] at h
  obtain ⟨⟨⟨h1, h2⟩, h3⟩, h4⟩ := h
  subst h3 h4
  match body, h1 with
  | [a, b], _ => exact ⟨a, b, rfl⟩

/-- the text `stringify!` re-assembles (with `T` for the blank) is read by the date-time parser as the canonical text is -/
theorem stringify_dt (f : DtForm) (h : dtOk f = true) :
    ∃ T, stringifyAll f.text = some T ∧ ∀ d, Datetime.Doc.dateTime T = .ok d [] → Datetime.Doc.dateTime (dtText f) = .ok d [] := by
  cases f with
  | odtSp yr mo day hr mi sec tzh tzm =>
    simp only [dtOk, Bool.and_eq_true] at h
    obtain ⟨⟨⟨⟨⟨⟨⟨h1, h2⟩, h3⟩, _⟩, _⟩, _⟩, _⟩, _⟩ := h
    obtain ⟨a, b, c, d, rfl, ha, hb, hc, hd⟩ := plain4_cases yr h1
    obtain ⟨m1, m2, rfl⟩ := plain2_cases mo h2
    obtain ⟨d1, d2, rfl⟩ := plain2_cases day h3
    refine ⟨[a, b, c, d, 0x2D, m1, m2, 0x2D, d1, d2] ++ 0x54 :: (numText hr ++ 0x3A :: (numText mi ++ 0x3A ::
      (numText sec ++ 0x2D :: (numText tzh ++ 0x3A :: numText tzm)))), ?_, ?_⟩
    · simp [DtForm.text, stringifyAll, stringifyTT, Num.tt, numText, dash, colon, pc, identT]
    · intro dt hdt
      have := dateTime_sp a b c d [m1, m2, 0x2D, d1, d2] _ rfl ha hb hc hd dt hdt
      simpa [dtText, numText] using this
  | ldtSp yr mo day hr mi sec =>
    simp only [dtOk, Bool.and_eq_true] at h
    obtain ⟨⟨⟨⟨⟨h1, h2⟩, h3⟩, _⟩, _⟩, _⟩ := h
    obtain ⟨a, b, c, d, rfl, ha, hb, hc, hd⟩ := plain4_cases yr h1
    obtain ⟨m1, m2, rfl⟩ := plain2_cases mo h2
    obtain ⟨d1, d2, rfl⟩ := plain2_cases day h3
    refine ⟨[a, b, c, d, 0x2D, m1, m2, 0x2D, d1, d2] ++ 0x54 :: (numText hr ++ 0x3A :: (numText mi ++ 0x3A :: numText sec)),
      ?_, ?_⟩
    · simp [DtForm.text, stringifyAll, stringifyTT, Num.tt, numText, dash, colon, pc, identT]
    · intro dt hdt
      have := dateTime_sp a b c d [m1, m2, 0x2D, d1, d2] _ rfl ha hb hc hd dt hdt
      simpa [dtText, numText] using this
  | odt yr mo dhr mi sec tzh tzm =>
    exact ⟨dtText _, by simp [DtForm.text, DtForm.toks, dtText, stringifyAll, stringifyTT, Num.tt, numText, dash, colon, pc],
      fun _ hd => hd⟩
  | ldt yr mo dhr mi sec =>
    exact ⟨dtText _, by simp [DtForm.text, DtForm.toks, dtText, stringifyAll, stringifyTT, Num.tt, numText, dash, colon, pc],
      fun _ hd => hd⟩
  | date yr mo day =>
    exact ⟨dtText _, by simp [DtForm.text, DtForm.toks, dtText, stringifyAll, stringifyTT, Num.tt, numText, dash, colon, pc],
      fun _ hd => hd⟩
  | time hr mi sec =>
    exact ⟨dtText _, by simp [DtForm.text, DtForm.toks, dtText, stringifyAll, stringifyTT, Num.tt, numText, dash, colon, pc],
      fun _ hd => hd⟩
  | odtFrac _ _ _ _ _ _ _ _ => simp [dtOk] at h
  | odtFracSp _ _ _ _ _ _ _ _ _ => simp [dtOk] at h
  | ldtFrac _ _ _ _ _ _ => simp [dtOk] at h
  | ldtFracSp _ _ _ _ _ _ _ => simp [dtOk] at h
  | timeFrac _ _ _ _ => simp [dtOk] at h

theorem dt_scalarOK (f : DtForm) (h : dtOk f = true) (m : MVal) (hs : (MacroVal.dt f).sem = .ok m) :
    ScalarOK ⟨dtText f, mvalV m⟩ := by
  obtain ⟨T, hT, htr⟩ := stringify_dt f h
  simp only [MacroVal.sem, dtValue, hT] at hs
  cases hp : Datetime.Std.fromStr T with
  | none => simp [hp] at hs
  | some d =>
    simp only [hp] at hs
    injection hs with hs
    subst hs
    rw [TomlVerif.Props.C12.T12_agree] at hp
    have hdt : Datetime.Doc.dateTime (dtText f) = .ok d [] := by
      apply htr
      unfold Datetime.Doc.parseAll at hp
      split at hp
      · rename_i d' heq; injection hp with hp; subst hp; exact heq
      · cases hp
    obtain ⟨b, r, e, hb⟩ := (dt_step f h).2
    refine scalarOK_of_value _ _ ?_ ?_
    · rw [e] at hdt ⊢
      exact value_dt 0 0 b r [] d (by simp [hb]) hdt
    · intro b' r' e'
      rw [e] at e'
      injection e' with e' _
      subst e'
      exact ⟨by intro x; subst x; revert hb; decide, by intro x; subst x; revert hb; decide⟩

/-- the value of a leaf as the parser's tree has it (`false` where the macro does not evaluate the literal) -/
def leafVal (a : MacroVal) : Val :=
  match a.sem with
  | .ok m => mvalV m
  | _ => .bool false

/-- **leaves**: the text of a shared scalar spelling is a scalar token of the TOML value parser for the value the
    macro computes -/
theorem leaf_scalarOK (a : MacroVal) (h : leafOk a = true) (m : MVal) (hs : a.sem = .ok m) :
    ScalarOK ⟨leafText a, mvalV m⟩ := by
  cases a with
  | int s body => exact int_scalarOK s body h m hs
  | float s body => exact float_scalarOK s body h m hs
  | special s nan => exact special_scalarOK s nan m hs
  | bool b =>
    simp only [MacroVal.sem] at hs
    injection hs with hs; subst hs
    exact bool_scalarOK b
  | str raw val =>
    simp only [MacroVal.sem] at hs
    injection hs with hs; subst hs
    exact str_scalarOK raw val h
  | chr raw val => simp [leafOk] at h
  | dt f => exact dt_scalarOK f h m hs
  | arr items tr => simp [leafOk] at h

end TomlVerif.Lemmas.Macro19c
