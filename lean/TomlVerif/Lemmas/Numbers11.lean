import TomlVerif.Model.Numbers
import TomlVerif.Lemmas.ByteDecide
/-! Helper lemmas for C11: digit runs with underscores, decimal / prefixed integer literals,
    the integer writer, the lexical shape of floats. -/
namespace TomlVerif.Lemmas.Numbers11
open TomlVerif TomlVerif.Spec TomlVerif.Model.Numbers

/-- every byte of `ds` is in class `p` -/
def AllB (p : Byte → Bool) (ds : Bytes) : Prop := ∀ b ∈ ds, p b = true

/-- what may follow a digit run of class `isD` so that the run ends there: end of input, or a byte that
    is neither of the class nor an underscore -/
def Stops (isD : Byte → Bool) : Bytes → Prop
  | [] => True
  | b :: _ => isD b = false ∧ b ≠ 0x5F

instance (p : Byte → Bool) (ds : Bytes) : Decidable (AllB p ds) := by unfold AllB; infer_instance

instance (isD : Byte → Bool) : (t : Bytes) → Decidable (Stops isD t)
  | [] => isTrue trivial
  | b :: _ => inferInstanceAs (Decidable (isD b = false ∧ b ≠ 0x5F))

/-- `_g1_g2…` -/
def tailGroups : List Bytes → Bytes
  | [] => []
  | g :: gs => 0x5F :: (g ++ tailGroups gs)

/-- `g0_g1_g2…` : digit groups joined by underscores -/
def joinU : List Bytes → Bytes
  | [] => []
  | g :: gs => g ++ tailGroups gs

/-- non-empty list of non-empty groups of `isD` digits -/
def GoodGroups (isD : Byte → Bool) (groups : List Bytes) : Prop :=
  groups ≠ [] ∧ ∀ g ∈ groups, g ≠ [] ∧ AllB isD g

theorem AllB_nil (p : Byte → Bool) : AllB p [] := by intro b h; cases h

theorem AllB_cons {p : Byte → Bool} {b : Byte} {ds : Bytes} : AllB p (b :: ds) ↔ p b = true ∧ AllB p ds := by
  unfold AllB; simp

theorem AllB_append {p : Byte → Bool} {xs ys : Bytes} : AllB p (xs ++ ys) ↔ AllB p xs ∧ AllB p ys := by
  unfold AllB; simp only [List.mem_append]
  constructor
  · intro h; exact ⟨fun b hb => h b (Or.inl hb), fun b hb => h b (Or.inr hb)⟩
  · intro h b hb; rcases hb with hb | hb
    · exact h.1 b hb
    · exact h.2 b hb

/-! ### `runTail` -/

theorem runTail_cons_digit (isD : Byte → Bool) (b : Byte) (r acc : Bytes) (h : isD b = true) :
    runTail isD (b :: r) acc = runTail isD r (acc ++ [b]) := by
  rw [runTail.eq_def]; simp [h]

theorem runTail_under (isD : Byte → Bool) (d : Byte) (r acc : Bytes) (hU : isD 0x5F = false) (h : isD d = true) :
    runTail isD (0x5F :: d :: r) acc = runTail isD r (acc ++ [d]) := by
  rw [runTail.eq_def]; simp [h, hU]

theorem runTail_cons_stop (isD : Byte → Bool) (b : Byte) (r acc : Bytes) (h : isD b = false) (h2 : b ≠ 0x5F) :
    runTail isD (b :: r) acc = .ok acc (b :: r) := by
  rw [runTail.eq_def]; simp [h, h2]

theorem runTail_digits (isD : Byte → Bool) : ∀ (ds t acc : Bytes), AllB isD ds →
    runTail isD (ds ++ t) acc = runTail isD t (acc ++ ds) := by
  intro ds
  induction ds with
  | nil => intro t acc _; simp
  | cons b ds ih =>
    intro t acc h
    rw [AllB_cons] at h
    rw [List.cons_append, runTail_cons_digit isD b _ _ h.1, ih t (acc ++ [b]) h.2]
    simp

theorem runTail_stop (isD : Byte → Bool) (t acc : Bytes) (h : Stops isD t) : runTail isD t acc = .ok acc t := by
  cases t with
  | nil => simp [runTail]
  | cons b r =>
    obtain ⟨h1, h2⟩ := h
    exact runTail_cons_stop isD b r acc h1 h2

theorem runTail_groups (isD : Byte → Bool) (hU : isD 0x5F = false) : ∀ (gs : List Bytes) (rest acc : Bytes),
    (∀ g ∈ gs, g ≠ [] ∧ AllB isD g) → Stops isD rest →
    runTail isD (tailGroups gs ++ rest) acc = .ok (acc ++ gs.flatten) rest := by
  intro gs
  induction gs with
  | nil => intro rest acc _ hs; simp [tailGroups, runTail_stop isD rest acc hs]
  | cons g gs ih =>
    intro rest acc hg hs
    have hg0 := hg g (List.mem_cons_self ..)
    cases g with
    | nil => exact absurd rfl hg0.1
    | cons d g' =>
      have hd := AllB_cons.1 hg0.2
      simp only [tailGroups, List.cons_append, List.append_assoc]
      rw [runTail_under isD d _ _ hU hd.1, runTail_digits isD g' _ _ hd.2,
        ih rest _ (fun g hgm => hg g (List.mem_cons_of_mem _ hgm)) hs]
      simp

/-- a whole run `g0_g1_…` after its first digit has been consumed -/
theorem runTail_joinU (isD : Byte → Bool) (hU : isD 0x5F = false) (d : Byte) (g0 : Bytes) (gs : List Bytes)
    (rest : Bytes) (hg : ∀ g ∈ (d :: g0) :: gs, g ≠ [] ∧ AllB isD g) (hs : Stops isD rest) :
    runTail isD (g0 ++ tailGroups gs ++ rest) [d] = .ok (((d :: g0) :: gs).flatten) rest := by
  have h0 := (AllB_cons.1 (hg _ (List.mem_cons_self ..)).2).2
  rw [List.append_assoc, runTail_digits isD g0 _ _ h0,
    runTail_groups isD hU gs rest _ (fun g hgm => hg g (List.mem_cons_of_mem _ hgm)) hs]
  simp

/-- `dec_int` after its optional sign -/
def decBody (neg signed : Bool) : Bytes → Res (Bool × Bool × Bytes)
  | b :: r =>
    if isDigit1_9 b then (runTail isDigit r [b]).map fun ds => (neg, signed, ds)
    else if isDigit b then .ok (neg, signed, [b]) r
    else .bt
  | [] => .bt

theorem decInt_plus (r : Bytes) : decInt (0x2B :: r) = decBody false true r := rfl
theorem decInt_minus (r : Bytes) : decInt (0x2D :: r) = decBody true true r := rfl
theorem decInt_nil : decInt [] = .bt := rfl
theorem decInt_nosign (b : Byte) (r : Bytes) (h1 : b ≠ 0x2B) (h2 : b ≠ 0x2D) :
    decInt (b :: r) = decBody false false (b :: r) := by
  unfold decInt
  split
  · rename_i h; split at h
    · rename_i heq; injection heq with heq _; exact absurd heq h1
    · rename_i heq; injection heq with heq _; exact absurd heq h2
    · injection h with h3 h4; injection h4 with h4 h5; subst h3 h4 h5; rfl

/-- the decimal arm of `integer` -/
def intOfDec (s : Bytes) : Res Int :=
  match decInt s with
  | .ok (neg, _, ds) rest =>
    let n : Int := natOfDigitsBase 10 ds
    let v : Int := if neg then -n else n
    if inI64 v then .ok v rest else .cut
  | .bt => .bt
  | .cut => .cut

theorem integer_dec (s : Bytes) (hx : ∀ r, s ≠ 0x30 :: 0x78 :: r) (ho : ∀ r, s ≠ 0x30 :: 0x6F :: r)
    (hb : ∀ r, s ≠ 0x30 :: 0x62 :: r) : integer s = intOfDec s := by
  unfold integer
  split
  · exact absurd rfl (hx _)
  · exact absurd rfl (ho _)
  · exact absurd rfl (hb _)
  · rfl
theorem integer_hex (r : Bytes) : integer (0x30 :: 0x78 :: r) = prefixedInt isHexdig 16 r := rfl
theorem integer_oct (r : Bytes) : integer (0x30 :: 0x6F :: r) = prefixedInt isDigit0_7 8 r := rfl
theorem integer_bin (r : Bytes) : integer (0x30 :: 0x62 :: r) = prefixedInt isDigit0_1 2 r := rfl

/-! ### decimal literals -/

theorem digit_facts : ∀ d : Byte, isDigit d = true →
    d ≠ 0x2B ∧ d ≠ 0x2D ∧ (d ≠ 0x30 → isDigit1_9 d = true) ∧ isHexdig d = true :=
  forall_byte (by decide +kernel)

theorem isDigit_under : isDigit 0x5F = false := by decide
theorem isHexdig_under : isHexdig 0x5F = false := by decide
theorem isDigit0_7_under : isDigit0_7 0x5F = false := by decide
theorem isDigit0_1_under : isDigit0_1 0x5F = false := by decide

/-- optional sign of a decimal literal: `none`, `some false` = `+`, `some true` = `-` -/
def signBytes : Option Bool → Bytes
  | none => []
  | some false => [0x2B]
  | some true => [0x2D]

def isNegSign : Option Bool → Bool
  | some true => true
  | _ => false

/-- no leading zero: a first digit `0` is the whole literal -/
def NoLeadingZero (groups : List Bytes) : Prop :=
  ∀ g0 gs, groups = (0x30 :: g0) :: gs → g0 = [] ∧ gs = []

/-- the next byte is not one of the radix letters `x`, `o`, `b` -/
def NoRadix : Bytes → Prop
  | [] => True
  | b :: _ => b ≠ 0x78 ∧ b ≠ 0x6F ∧ b ≠ 0x62

instance : (t : Bytes) → Decidable (NoRadix t)
  | [] => isTrue trivial
  | b :: _ => inferInstanceAs (Decidable (b ≠ 0x78 ∧ b ≠ 0x6F ∧ b ≠ 0x62))

/-- signed positional value of a decimal literal -/
def decValue (sign : Option Bool) (groups : List Bytes) : Int :=
  if isNegSign sign then -((natOfDigitsBase 10 groups.flatten : Nat) : Int)
  else ((natOfDigitsBase 10 groups.flatten : Nat) : Int)

theorem decBody_zero (neg sg : Bool) (rest : Bytes) : decBody neg sg (0x30 :: rest) = .ok (neg, sg, [0x30]) rest := by
  have h1 : isDigit1_9 0x30 = false := by decide
  have h2 : isDigit 0x30 = true := by decide
  simp [decBody, h1, h2]

theorem decBody_groups (neg sg : Bool) (groups : List Bytes) (rest : Bytes) (hg : GoodGroups isDigit groups)
    (hz : NoLeadingZero groups) (hs : Stops isDigit rest) :
    decBody neg sg (joinU groups ++ rest) = .ok (neg, sg, groups.flatten) rest := by
  obtain ⟨hne, hall⟩ := hg
  cases groups with
  | nil => exact absurd rfl hne
  | cons g gs =>
    cases g with
    | nil => exact absurd rfl (hall _ (List.mem_cons_self ..)).1
    | cons d g0 =>
      have hd := (AllB_cons.1 (hall _ (List.mem_cons_self ..)).2).1
      by_cases h0 : d = 0x30
      · subst h0
        obtain ⟨e1, e2⟩ := hz g0 gs rfl
        subst e1 e2
        simp [joinU, tailGroups, decBody_zero]
      · have h19 := (digit_facts d hd).2.2.1 h0
        have := runTail_joinU isDigit isDigit_under d g0 gs rest hall hs
        simp only [joinU, List.cons_append, decBody, h19, if_true, this, Res.map]

theorem decInt_lit (sign : Option Bool) (groups : List Bytes) (rest : Bytes) (hg : GoodGroups isDigit groups)
    (hz : NoLeadingZero groups) (hs : Stops isDigit rest) :
    decInt (signBytes sign ++ joinU groups ++ rest) = .ok (isNegSign sign, sign.isSome, groups.flatten) rest := by
  have hb := fun neg sg => decBody_groups neg sg groups rest hg hz hs
  match sign with
  | some true => simp only [signBytes, List.cons_append, List.nil_append, decInt_minus, hb]; rfl
  | some false => simp only [signBytes, List.cons_append, List.nil_append, decInt_plus, hb]; rfl
  | none =>
    obtain ⟨hne, hall⟩ := hg
    cases groups with
    | nil => exact absurd rfl hne
    | cons g gs =>
      cases g with
      | nil => exact absurd rfl (hall _ (List.mem_cons_self ..)).1
      | cons d g0 =>
        have hd := (AllB_cons.1 (hall _ (List.mem_cons_self ..)).2).1
        have hf := digit_facts d hd
        have := hb false false
        simp only [joinU, List.cons_append] at this
        simp only [signBytes, List.nil_append, joinU, List.cons_append]
        rw [decInt_nosign d _ hf.1 hf.2.1, this]; rfl

/-- decimal literals: sign and underscores never change the value; out-of-range literals are rejected -/
theorem integer_dec_lit (sign : Option Bool) (groups : List Bytes) (rest : Bytes) (hg : GoodGroups isDigit groups)
    (hz : NoLeadingZero groups) (hs : Stops isDigit rest)
    (hr : sign = none → groups = [[0x30]] → NoRadix rest) :
    integer (signBytes sign ++ joinU groups ++ rest) =
      if inI64 (decValue sign groups) then .ok (decValue sign groups) rest else .cut := by
  have hdec := decInt_lit sign groups rest hg hz hs
  have hd : integer (signBytes sign ++ joinU groups ++ rest) = intOfDec (signBytes sign ++ joinU groups ++ rest) := by
    match sign with
    | some true =>
      apply integer_dec <;> (intro r h; simp only [signBytes, List.cons_append] at h; injection h with h _; exact absurd h (by decide))
    | some false =>
      apply integer_dec <;> (intro r h; simp only [signBytes, List.cons_append] at h; injection h with h _; exact absurd h (by decide))
    | none =>
      obtain ⟨hne, hall⟩ := hg
      cases groups with
      | nil => exact absurd rfl hne
      | cons g gs =>
        cases g with
        | nil => exact absurd rfl (hall _ (List.mem_cons_self ..)).1
        | cons d g0 =>
          by_cases h0 : d = 0x30
          · subst h0
            obtain ⟨e1, e2⟩ := hz g0 gs rfl
            subst e1 e2
            have hr' := hr rfl rfl
            cases rest with
            | nil => rfl
            | cons b r =>
              obtain ⟨n1, n2, n3⟩ := hr'
              apply integer_dec <;>
                (intro r h; simp only [signBytes, joinU, tailGroups, List.nil_append, List.cons_append, List.append_nil] at h
                 injection h with _ h; injection h with h _; first | exact absurd h n1 | exact absurd h n2 | exact absurd h n3)
          · apply integer_dec <;>
              (intro r h; simp only [signBytes, joinU, List.nil_append, List.cons_append] at h
               injection h with h _; exact absurd h h0)
  rw [hd]
  unfold intOfDec
  rw [hdec]
  rfl

/-! ### the integer writer -/

theorem small_digit : ∀ k : Fin 10, isDigit (UInt8.ofNat (0x30 + k.val)) = true ∧
    digitVal (UInt8.ofNat (0x30 + k.val)) = k.val ∧ (UInt8.ofNat (0x30 + k.val) = 0x30 → k.val = 0) := by
  decide

theorem natOfDigitsBase_snoc (base : Nat) (ds : Bytes) (d : Byte) :
    natOfDigitsBase base (ds ++ [d]) = natOfDigitsBase base ds * base + digitVal d := by
  simp [natOfDigitsBase, List.foldl_append]

theorem natOfDigitsBase_single (base : Nat) (d : Byte) : natOfDigitsBase base [d] = digitVal d := by
  simp [natOfDigitsBase]

theorem natDigitsAux_spec : ∀ (fuel n : Nat) (acc : Bytes), n < fuel →
    ∃ ds, natDigitsAux fuel n acc = ds ++ acc ∧ ds ≠ [] ∧ AllB isDigit ds ∧ natOfDigitsBase 10 ds = n ∧
      (∀ t, ds = 0x30 :: t → n = 0 ∧ t = []) := by
  intro fuel
  induction fuel with
  | zero => intro n acc h; omega
  | succ fuel ih =>
    intro n acc hlt
    have hk := small_digit ⟨n % 10, Nat.mod_lt _ (by decide)⟩
    simp only [] at hk
    obtain ⟨hk1, hk2, hk3⟩ := hk
    unfold natDigitsAux
    simp only []
    by_cases h0 : n / 10 = 0
    · refine ⟨[UInt8.ofNat (0x30 + n % 10)], ?_, by simp, ?_, ?_, ?_⟩
      · have hb : (n / 10 == 0) = true := by simpa using h0
        simp only [hb, if_true, List.cons_append, List.nil_append]
      · exact AllB_cons.2 ⟨hk1, AllB_nil _⟩
      · rw [natOfDigitsBase_single, hk2]; omega
      · intro t ht; injection ht with h1 h2
        exact ⟨by have := hk3 h1; omega, h2.symm⟩
    · have hlt' : n / 10 < fuel := by omega
      obtain ⟨ds, e, hne, hall, hv, hz⟩ := ih (n / 10) (UInt8.ofNat (0x30 + n % 10) :: acc) hlt'
      refine ⟨ds ++ [UInt8.ofNat (0x30 + n % 10)], ?_, by simp, ?_, ?_, ?_⟩
      · have hb : (n / 10 == 0) = false := by simpa using h0
        simp only [hb, Bool.false_eq_true, if_false, e, List.append_assoc, List.cons_append, List.nil_append]
      · exact AllB_append.2 ⟨hall, AllB_cons.2 ⟨hk1, AllB_nil _⟩⟩
      · rw [natOfDigitsBase_snoc, hv, hk2]; omega
      · intro t ht
        cases ds with
        | nil => exact absurd rfl hne
        | cons x ds' =>
          simp only [List.cons_append] at ht
          injection ht with h1 h2
          subst h1
          exact absurd (hz ds' rfl).1 h0

theorem natDigits_spec (n : Nat) : natDigits n ≠ [] ∧ AllB isDigit (natDigits n) ∧
    natOfDigitsBase 10 (natDigits n) = n ∧ (∀ t, natDigits n = 0x30 :: t → n = 0 ∧ t = []) := by
  obtain ⟨ds, e, h⟩ := natDigitsAux_spec (n + 1) n [] (by omega)
  unfold natDigits
  rw [e, List.append_nil]
  exact h

theorem writeInt_eq (n : Int) :
    writeInt n = signBytes (if n < 0 then some true else none) ++ joinU [natDigits n.natAbs] := by
  unfold writeInt
  split <;> simp [signBytes, joinU, tailGroups]

theorem decValue_writeInt (n : Int) : decValue (if n < 0 then some true else none) [natDigits n.natAbs] = n := by
  unfold decValue
  simp only [List.flatten_cons, List.flatten_nil, List.append_nil, (natDigits_spec n.natAbs).2.2.1]
  split
  · simp [isNegSign]; omega
  · simp [isNegSign]; omega

theorem integer_writeInt (n : Int) (hn : inI64 n = true) (rest : Bytes) (hs : Stops isDigit rest)
    (hr : n = 0 → NoRadix rest) : integer (writeInt n ++ rest) = .ok n rest := by
  have hsp := natDigits_spec n.natAbs
  have hg : GoodGroups isDigit [natDigits n.natAbs] := by
    refine ⟨by simp, ?_⟩
    intro g hgm
    simp only [List.mem_singleton] at hgm
    subst hgm
    exact ⟨hsp.1, hsp.2.1⟩
  have hz : NoLeadingZero [natDigits n.natAbs] := by
    intro g0 gs h
    injection h with h1 h2
    exact ⟨(hsp.2.2.2 g0 h1).2, h2.symm⟩
  have := integer_dec_lit (if n < 0 then some true else none) [natDigits n.natAbs] rest hg hz hs
    (by
      intro h1 h2
      apply hr
      split at h1
      · contradiction
      · injection h2 with h2 _
        have := (hsp.2.2.2 [] h2).1
        omega)
  rw [← writeInt_eq, decValue_writeInt, hn] at this
  simpa using this

/-! ### prefixed literals -/

theorem prefixedInt_lit (isD : Byte → Bool) (base : Nat) (hU : isD 0x5F = false) (groups : List Bytes)
    (rest : Bytes) (hg : GoodGroups isD groups) (hs : Stops isD rest) :
    prefixedInt isD base (joinU groups ++ rest) =
      if inI64 ((natOfDigitsBase base groups.flatten : Nat) : Int)
      then .ok ((natOfDigitsBase base groups.flatten : Nat) : Int) rest else .cut := by
  obtain ⟨hne, hall⟩ := hg
  cases groups with
  | nil => exact absurd rfl hne
  | cons g gs =>
    cases g with
    | nil => exact absurd rfl (hall _ (List.mem_cons_self ..)).1
    | cons d g0 =>
      have hd := (AllB_cons.1 (hall _ (List.mem_cons_self ..)).2).1
      have := runTail_joinU isD hU d g0 gs rest hall hs
      simp only [joinU, List.cons_append, prefixedInt, hd, if_true, this]

theorem inI64_nat (v : Nat) : inI64 (v : Int) = decide (v ≤ 9223372036854775807) := by
  unfold inI64 i64Min i64Max
  by_cases h : v ≤ 9223372036854775807
  · simp [h]; omega
  · simp [h]; omega


/-! ### lexical shape of what the parsers return -/

theorem runTail_shape (isD : Byte → Bool) : ∀ (n : Nat) (s acc ds rest : Bytes), s.length ≤ n →
    runTail isD s acc = .ok ds rest → ∃ m, ds = acc ++ m ∧ AllB isD m ∧ rest.length ≤ s.length := by
  intro n
  induction n with
  | zero =>
    intro s acc ds rest hl h
    cases s with
    | nil => simp [runTail] at h; exact ⟨[], by simp [h.1], AllB_nil _, by simp [h.2]⟩
    | cons b r => simp at hl
  | succ n ih =>
    intro s acc ds rest hl h
    cases s with
    | nil => simp [runTail] at h; exact ⟨[], by simp [h.1], AllB_nil _, by simp [h.2]⟩
    | cons b r =>
      simp only [List.length_cons] at hl
      by_cases hb : isD b = true
      · rw [runTail_cons_digit isD b r acc hb] at h
        obtain ⟨m, e, hm, hlen⟩ := ih r (acc ++ [b]) ds rest (by omega) h
        exact ⟨b :: m, by simp [e], AllB_cons.2 ⟨hb, hm⟩, by simp; omega⟩
      · have hb' : isD b = false := by simpa using hb
        by_cases hu : b = 0x5F
        · subst hu
          cases r with
          | nil => rw [runTail.eq_def] at h; simp [hb'] at h
          | cons d r' =>
            by_cases hd : isD d = true
            · rw [runTail_under isD d r' acc hb' hd] at h
              simp only [List.length_cons] at hl
              obtain ⟨m, e, hm, hlen⟩ := ih r' (acc ++ [d]) ds rest (by omega) h
              exact ⟨d :: m, by simp [e], AllB_cons.2 ⟨hd, hm⟩, by simp; omega⟩
            · rw [runTail.eq_def] at h; simp [hb', hd] at h
        · rw [runTail_cons_stop isD b r acc hb' hu] at h
          injection h with h1 h2
          exact ⟨[], by simp [h1], AllB_nil _, by simp [← h2]⟩

theorem digit19_digit : ∀ b : Byte, isDigit1_9 b = true → isDigit b = true :=
  forall_byte (by decide +kernel)

theorem zeroPrefixableInt_shape (s ds rest : Bytes) (h : zeroPrefixableInt s = .ok ds rest) :
    ds ≠ [] ∧ AllB isDigit ds ∧ rest.length < s.length := by
  cases s with
  | nil => simp [zeroPrefixableInt] at h
  | cons b r =>
    simp only [zeroPrefixableInt] at h
    split at h
    · rename_i hb
      obtain ⟨m, e, hm, hlen⟩ := runTail_shape isDigit _ r [b] ds rest (Nat.le_refl _) h
      subst e
      exact ⟨by simp, AllB_cons.2 ⟨hb, hm⟩, by simp; omega⟩
    · contradiction

theorem decBody_shape (neg sg : Bool) (s : Bytes) (x : Bool × Bool × Bytes) (rest : Bytes)
    (h : decBody neg sg s = .ok x rest) :
    x.1 = neg ∧ x.2.2 ≠ [] ∧ AllB isDigit x.2.2 ∧ rest.length < s.length := by
  cases s with
  | nil => simp [decBody] at h
  | cons b r =>
    simp only [decBody] at h
    split at h
    · rename_i hb
      cases hrt : runTail isDigit r [b] with
      | ok ds rest' =>
        rw [hrt] at h
        simp only [Res.map] at h
        injection h with h1 h2
        subst h1 h2
        obtain ⟨m, e, hm, hlen⟩ := runTail_shape isDigit _ r [b] ds rest' (Nat.le_refl _) hrt
        subst e
        have hbd : isDigit b = true := digit19_digit b hb
        exact ⟨rfl, by simp, AllB_cons.2 ⟨hbd, hm⟩, by simp; omega⟩
      | bt => rw [hrt] at h; simp [Res.map] at h
      | cut => rw [hrt] at h; simp [Res.map] at h
    · split at h
      · rename_i hb
        injection h with h1 h2
        subst h1 h2
        exact ⟨rfl, by simp, AllB_cons.2 ⟨hb, AllB_nil _⟩, by simp⟩
      · contradiction

theorem decInt_shape (s : Bytes) (x : Bool × Bool × Bytes) (rest : Bytes) (h : decInt s = .ok x rest) :
    x.2.2 ≠ [] ∧ AllB isDigit x.2.2 ∧ rest.length < s.length := by
  cases s with
  | nil => rw [decInt_nil] at h; contradiction
  | cons b r =>
    by_cases h1 : b = 0x2B
    · subst h1; rw [decInt_plus] at h
      have := decBody_shape _ _ _ _ _ h
      exact ⟨this.2.1, this.2.2.1, by simp; omega⟩
    · by_cases h2 : b = 0x2D
      · subst h2; rw [decInt_minus] at h
        have := decBody_shape _ _ _ _ _ h
        exact ⟨this.2.1, this.2.2.1, by simp; omega⟩
      · rw [decInt_nosign b r h1 h2] at h
        have := decBody_shape _ _ _ _ _ h
        exact ⟨this.2.1, this.2.2.1, this.2.2.2⟩

theorem expPart_shape (s : Bytes) (x : Bool × Bytes) (rest : Bytes) (h : expPart s = .ok x rest) :
    x.2 ≠ [] ∧ AllB isDigit x.2 ∧ rest.length < s.length := by
  cases s with
  | nil => simp [expPart] at h
  | cons c r =>
    simp only [expPart] at h
    split at h
    · split at h
      · rename_i r' ds rest' hz
        injection h with h1 h2
        subst h1 h2
        have hsh := zeroPrefixableInt_shape _ _ _ hz
        refine ⟨hsh.1, hsh.2.1, ?_⟩
        have : (match r with
          | 0x2B :: t => (false, t)
          | 0x2D :: t => (true, t)
          | _ => (false, r)).2.length ≤ r.length := by
          split <;> simp
        have h3 : rest'.length < r.length := Nat.lt_of_lt_of_le hsh.2.2 this
        simp only [List.length_cons]
        omega
      · contradiction
    · contradiction


/-! ### floats -/

theorem floatLit_shape (s rest : Bytes) (l : FloatLit) (h : floatLit s = .ok l rest) :
    (∃ sg r, decInt s = .ok (l.neg, sg, l.intDigits) r ∧ rest.length < r.length) ∧
    l.intDigits ≠ [] ∧ AllB isDigit l.intDigits ∧ AllB isDigit l.fracDigits ∧ AllB isDigit l.expDigits ∧
    (l.fracDigits ≠ [] ∨ l.expDigits ≠ []) := by
  unfold floatLit at h
  split at h
  · rename_i neg sg ids r hdec
    have hd := decInt_shape _ _ _ hdec
    simp only [] at hd
    split at h
    · rename_i r1
      split at h
      · rename_i fds r2 hz
        have hzs := zeroPrefixableInt_shape _ _ _ hz
        split at h
        · rename_i en eds r3 he
          have hes := expPart_shape _ _ _ he
          simp only [] at hes
          injection h with h1 h2
          subst h1 h2
          exact ⟨⟨sg, _, hdec, by simp; omega⟩, hd.1, hd.2.1, hzs.2.1, hes.2.1, Or.inl hzs.1⟩
        · injection h with h1 h2
          subst h1 h2
          exact ⟨⟨sg, _, hdec, by simp; omega⟩, hd.1, hd.2.1, hzs.2.1, AllB_nil _, Or.inl hzs.1⟩
        · contradiction
      · contradiction
    · split at h
      · rename_i en eds r3 he
        have hes := expPart_shape _ _ _ he
        simp only [] at hes
        injection h with h1 h2
        subst h1 h2
        exact ⟨⟨sg, _, hdec, hes.2.2⟩, hd.1, hd.2.1, AllB_nil _, hes.2.1, Or.inr hes.1⟩
      · contradiction
      · contradiction
  · contradiction
  · contradiction

theorem startsWith_head (a b c : Byte) (s t : Bytes) (h : startsWith [a, b, c] s = some t) :
    ∃ r, s = a :: r := by
  cases s with
  | nil => simp [startsWith] at h
  | cons x r =>
    simp [startsWith] at h
    exact ⟨r, by rw [h.1.1]⟩

/-- `special_float` after its optional sign -/
def specialBody (sgn : Nat) (r : Bytes) : Res Nat :=
  match startsWith [0x69, 0x6E, 0x66] r with
  | some t => .ok (sgn + Ieee.infBits) t
  | none =>
    match startsWith [0x6E, 0x61, 0x6E] r with
    | some t => .ok (sgn + Ieee.nanBits) t
    | none => .bt

theorem specialFloat_plus (r : Bytes) : specialFloat (0x2B :: r) = specialBody 0 r := rfl
theorem specialFloat_minus (r : Bytes) : specialFloat (0x2D :: r) = specialBody Ieee.signBit r := rfl
theorem specialFloat_nil : specialFloat [] = .bt := rfl
theorem specialFloat_nosign (c : Byte) (r : Bytes) (h1 : c ≠ 0x2B) (h2 : c ≠ 0x2D) :
    specialFloat (c :: r) = specialBody 0 (c :: r) := by
  unfold specialFloat
  split
  · rename_i h; split at h
    · rename_i heq; injection heq with heq _; exact absurd heq h1
    · rename_i heq; injection heq with heq _; exact absurd heq h2
    · injection h with h3 h4; subst h3 h4; rfl

theorem specialBody_head (sgn : Nat) (r rest : Bytes) (b : Nat) (h : specialBody sgn r = .ok b rest) :
    ∃ c2 r2, r = c2 :: r2 ∧ (c2 = 0x69 ∨ c2 = 0x6E) := by
  unfold specialBody at h
  split at h
  · rename_i t ht
    obtain ⟨r2, e⟩ := startsWith_head _ _ _ _ _ ht
    exact ⟨_, r2, e, Or.inl rfl⟩
  · split at h
    · rename_i t ht
      obtain ⟨r2, e⟩ := startsWith_head _ _ _ _ _ ht
      exact ⟨_, r2, e, Or.inr rfl⟩
    · contradiction

theorem specialFloat_head (s rest : Bytes) (b : Nat) (h : specialFloat s = .ok b rest) :
    ∃ c r, s = c :: r ∧ ((c = 0x69 ∨ c = 0x6E) ∨
      ((c = 0x2B ∨ c = 0x2D) ∧ ∃ c2 r2, r = c2 :: r2 ∧ (c2 = 0x69 ∨ c2 = 0x6E))) := by
  cases s with
  | nil => rw [specialFloat_nil] at h; contradiction
  | cons c r =>
    by_cases h1 : c = 0x2B
    · subst h1
      rw [specialFloat_plus] at h
      exact ⟨_, _, rfl, Or.inr ⟨Or.inl rfl, specialBody_head _ _ _ _ h⟩⟩
    · by_cases h2 : c = 0x2D
      · subst h2
        rw [specialFloat_minus] at h
        exact ⟨_, _, rfl, Or.inr ⟨Or.inr rfl, specialBody_head _ _ _ _ h⟩⟩
      · rw [specialFloat_nosign c r h1 h2] at h
        obtain ⟨c2, r2, e, hc⟩ := specialBody_head _ _ _ _ h
        injection e with e1 e2
        subst e1
        exact ⟨_, _, rfl, Or.inl hc⟩

theorem specialFloat_not_integer (s rest : Bytes) (b : Nat) (h : specialFloat s = .ok b rest) :
    integer s = .bt := by
  obtain ⟨c, r, e, hc⟩ := specialFloat_head s rest b h
  subst e
  rcases hc with (hc | hc) | ⟨hc | hc, c2, r2, e, h2 | h2⟩
  all_goals (subst hc; try subst e; try subst h2); rfl


/-! ### floats and integers are lexically disjoint -/

theorem integer_cases (s : Bytes) :
    (∃ c t, s = 0x30 :: c :: t ∧ (c = 0x78 ∨ c = 0x6F ∨ c = 0x62)) ∨ integer s = intOfDec s := by
  unfold integer
  split
  · exact Or.inl ⟨_, _, rfl, Or.inl rfl⟩
  · exact Or.inl ⟨_, _, rfl, Or.inr (Or.inl rfl)⟩
  · exact Or.inl ⟨_, _, rfl, Or.inr (Or.inr rfl)⟩
  · exact Or.inr rfl

theorem float_radix (c : Byte) (t : Bytes) (hc : c = 0x78 ∨ c = 0x6F ∨ c = 0x62) :
    float (0x30 :: c :: t) = .bt := by
  rcases hc with hc | hc | hc <;> subst hc <;> rfl

theorem intOfDec_rest (s rest : Bytes) (n : Int) (h : intOfDec s = .ok n rest) :
    ∃ x, decInt s = .ok x rest := by
  unfold intOfDec at h
  split at h
  · rename_i neg sg ds r hdec
    simp only [] at h
    split at h <;>
    · split at h
      · injection h with h1 h2; subst h2; exact ⟨_, hdec⟩
      · contradiction
  · contradiction
  · contradiction

/-- on any input on which both `float` and `integer` succeed, `float` consumes strictly more -/
theorem float_integer_rest (s rest rest' : Bytes) (b : Nat) (n : Int) (hf : float s = .ok b rest)
    (hi : integer s = .ok n rest') : rest.length < rest'.length := by
  rcases integer_cases s with ⟨c, t, e, hc⟩ | hdecarm
  · subst e; rw [float_radix c t hc] at hf; contradiction
  · rw [hdecarm] at hi
    obtain ⟨x, hx⟩ := intOfDec_rest s rest' n hi
    unfold float at hf
    split at hf
    · rename_i l rest0 hl
      simp only [] at hf
      split at hf
      · contradiction
      · injection hf with h1 h2
        subst h2
        obtain ⟨⟨sg, r, hdec, hlen⟩, _⟩ := floatLit_shape s rest0 l hl
        rw [hdec] at hx
        injection hx with _ h3
        subst h3
        exact hlen
    · contradiction
    · have := specialFloat_not_integer s rest b hf
      rw [hdecarm, hi] at this
      contradiction


/-! ### decimal float literals `int . frac` and the float writer -/

/-- what may follow a float literal without exponent: not a digit, `_`, `e`, `E` -/
def FloatStops : Bytes → Prop
  | [] => True
  | b :: _ => isDigit b = false ∧ b ≠ 0x5F ∧ b ≠ 0x65 ∧ b ≠ 0x45

instance : (t : Bytes) → Decidable (FloatStops t)
  | [] => isTrue trivial
  | b :: _ => inferInstanceAs (Decidable (isDigit b = false ∧ b ≠ 0x5F ∧ b ≠ 0x65 ∧ b ≠ 0x45))

theorem FloatStops.stops {rest : Bytes} (h : FloatStops rest) : Stops isDigit rest := by
  cases rest with
  | nil => trivial
  | cons b r => exact ⟨h.1, h.2.1⟩

theorem expPart_bt (rest : Bytes) (h : FloatStops rest) : expPart rest = .bt := by
  cases rest with
  | nil => rfl
  | cons b r =>
    obtain ⟨_, _, h1, h2⟩ := h
    simp [expPart, h1, h2]

theorem zeroPrefixableInt_groups (groups : List Bytes) (rest : Bytes) (hg : GoodGroups isDigit groups)
    (hs : Stops isDigit rest) : zeroPrefixableInt (joinU groups ++ rest) = .ok groups.flatten rest := by
  obtain ⟨hne, hall⟩ := hg
  cases groups with
  | nil => exact absurd rfl hne
  | cons g gs =>
    cases g with
    | nil => exact absurd rfl (hall _ (List.mem_cons_self ..)).1
    | cons d g0 =>
      have hd := (AllB_cons.1 (hall _ (List.mem_cons_self ..)).2).1
      have := runTail_joinU isDigit isDigit_under d g0 gs rest hall hs
      simp only [joinU, List.cons_append, zeroPrefixableInt, hd, if_true, this]

/-- `sign? int . frac` (underscore groups allowed in both parts) lexes as a float with exactly those digits -/
theorem floatLit_frac (sign : Option Bool) (igroups fgroups : List Bytes) (rest : Bytes)
    (hi : GoodGroups isDigit igroups) (hz : NoLeadingZero igroups) (hf : GoodGroups isDigit fgroups)
    (hs : FloatStops rest) :
    floatLit (signBytes sign ++ joinU igroups ++ 0x2E :: (joinU fgroups ++ rest)) =
      .ok ⟨isNegSign sign, igroups.flatten, fgroups.flatten, false, []⟩ rest := by
  have hdec := decInt_lit sign igroups (0x2E :: (joinU fgroups ++ rest)) hi hz ⟨by decide, by decide⟩
  have hzp := zeroPrefixableInt_groups fgroups rest hf hs.stops
  have he := expPart_bt rest hs
  unfold floatLit
  rw [hdec]
  simp only [hzp, he]

/-- std's `Display` text of a finite float: `-`? digits (`.` digits)? -/
def dispBytes (negD : Bool) (intDs : Bytes) (frac : Option Bytes) : Bytes :=
  (if negD then [0x2D] else []) ++ intDs ++ (match frac with | none => [] | some f => 0x2E :: f)

theorem digit_not_dot : ∀ b : Byte, isDigit b = true → (b == 0x2E) = false :=
  forall_byte (by decide +kernel)

theorem digits_no_dot (ds : Bytes) (h : AllB isDigit ds) : ds.contains 0x2E = false := by
  induction ds with
  | nil => rfl
  | cons b ds ih =>
    have hb := AllB_cons.1 h
    have := digit_not_dot b hb.1
    rw [List.contains_cons, ih hb.2]
    simp only [Bool.or_false]
    rw [← this]
    exact Bool.eq_iff_iff.2 ⟨fun h => by rw [beq_iff_eq] at h ⊢; exact h.symm, fun h => by rw [beq_iff_eq] at h ⊢; exact h.symm⟩

theorem dispBytes_contains_dot (negD : Bool) (intDs : Bytes) (frac : Option Bytes) (hi : AllB isDigit intDs) :
    (dispBytes negD intDs frac).contains 0x2E = frac.isSome := by
  unfold dispBytes
  rw [List.contains_append, List.contains_append, digits_no_dot intDs hi]
  cases negD <;> cases frac <;> simp

theorem floatLit_writeFloat (neg negD : Bool) (intDs : Bytes) (frac : Option Bytes) (rest : Bytes)
    (hne : intDs ≠ []) (hi : AllB isDigit intDs) (hz : ∀ t, intDs = 0x30 :: t → t = [])
    (hf : ∀ f, frac = some f → f ≠ [] ∧ AllB isDigit f) (hs : FloatStops rest) :
    floatLit (writeFloat neg false false (!(dispBytes negD intDs frac).contains 0x2E) (dispBytes negD intDs frac) ++ rest) =
      .ok ⟨negD, intDs, frac.getD [0x30], false, []⟩ rest := by
  have hgi : GoodGroups isDigit [intDs] := by
    refine ⟨by simp, ?_⟩
    intro g hg; simp only [List.mem_singleton] at hg; subst hg; exact ⟨hne, hi⟩
  have hzi : NoLeadingZero [intDs] := by
    intro g0 gs h; injection h with h1 h2; exact ⟨hz g0 h1, h2.symm⟩
  have hgf : GoodGroups isDigit [frac.getD [0x30]] := by
    refine ⟨by simp, ?_⟩
    intro g hg; simp only [List.mem_singleton] at hg; subst hg
    cases frac with
    | none => exact ⟨by simp, by intro b hb; simp at hb; subst hb; decide⟩
    | some f => exact hf f rfl
  have key := floatLit_frac (if negD then some true else none) [intDs] [frac.getD [0x30]] rest hgi hzi hgf hs
  have hw : writeFloat neg false false (!(dispBytes negD intDs frac).contains 0x2E) (dispBytes negD intDs frac) ++ rest
      = signBytes (if negD then some true else none) ++ joinU [intDs] ++ 0x2E :: (joinU [frac.getD [0x30]] ++ rest) := by
    rw [dispBytes_contains_dot negD intDs frac hi]
    unfold writeFloat dispBytes
    cases negD <;> cases frac <;> simp [signBytes, joinU, tailGroups]
  rw [hw, key]
  cases negD <;> simp [isNegSign]


/-! ### `joinU` is the usual `intercalate` -/
theorem joinU_eq_intercalate (groups : List Bytes) : joinU groups = List.intercalate [0x5F] groups := by
  cases groups with
  | nil => rfl
  | cons g gs =>
    simp only [joinU, List.intercalate]
    induction gs generalizing g with
    | nil => simp [tailGroups]
    | cons g2 gs ih =>
      simp [tailGroups, ih g2]


/-! ### float literals with an exponent -/

/-- optional sign of an exponent -/
def expSignSplit (r : Bytes) : Bool × Bytes :=
  match r with
  | 0x2B :: t => (false, t)
  | 0x2D :: t => (true, t)
  | _ => (false, r)

theorem expPart_cons (c : Byte) (r : Bytes) (hc : c = 0x65 ∨ c = 0x45) :
    expPart (c :: r) =
      match zeroPrefixableInt (expSignSplit r).2 with
      | .ok ds rest => .ok ((expSignSplit r).1, ds) rest
      | _ => .cut := by
  rcases hc with hc | hc <;> subst hc <;> rfl

theorem expSignSplit_nosign (d : Byte) (t : Bytes) (h1 : d ≠ 0x2B) (h2 : d ≠ 0x2D) :
    expSignSplit (d :: t) = (false, d :: t) := by
  unfold expSignSplit
  split
  · rename_i heq; injection heq with heq _; exact absurd heq h1
  · rename_i heq; injection heq with heq _; exact absurd heq h2
  · rfl

theorem expSignSplit_lit (esign : Option Bool) (egroups : List Bytes) (rest : Bytes)
    (hg : GoodGroups isDigit egroups) :
    expSignSplit (signBytes esign ++ joinU egroups ++ rest) = (isNegSign esign, joinU egroups ++ rest) := by
  match esign with
  | some true => rfl
  | some false => rfl
  | none =>
    obtain ⟨hne, hall⟩ := hg
    cases egroups with
    | nil => exact absurd rfl hne
    | cons g gs =>
      cases g with
      | nil => exact absurd rfl (hall _ (List.mem_cons_self ..)).1
      | cons d g0 =>
        have hd := (AllB_cons.1 (hall _ (List.mem_cons_self ..)).2).1
        have hf := digit_facts d hd
        simp only [signBytes, List.nil_append, joinU, List.cons_append]
        rw [expSignSplit_nosign d _ hf.1 hf.2.1]; rfl

theorem expPart_lit (e : Byte) (he : e = 0x65 ∨ e = 0x45) (esign : Option Bool) (egroups : List Bytes)
    (rest : Bytes) (hg : GoodGroups isDigit egroups) (hs : Stops isDigit rest) :
    expPart (e :: (signBytes esign ++ joinU egroups ++ rest)) = .ok (isNegSign esign, egroups.flatten) rest := by
  rw [expPart_cons e _ he, expSignSplit_lit esign egroups rest hg]
  simp only [zeroPrefixableInt_groups egroups rest hg hs]

/-- optional fraction `. g0_g1…` -/
def fracBytes : Option (List Bytes) → Bytes
  | none => []
  | some fg => 0x2E :: joinU fg

/-- `sign? int (. frac)? [eE] sign? exp` lexes as a float with exactly those digits
    (underscore groups everywhere; the exponent may have leading zeros) -/
theorem floatLit_exp (sign : Option Bool) (igroups : List Bytes) (frac : Option (List Bytes)) (e : Byte)
    (esign : Option Bool) (egroups : List Bytes) (rest : Bytes)
    (hi : GoodGroups isDigit igroups) (hz : NoLeadingZero igroups)
    (hf : ∀ fg, frac = some fg → GoodGroups isDigit fg) (he : e = 0x65 ∨ e = 0x45)
    (hg : GoodGroups isDigit egroups) (hs : Stops isDigit rest) :
    floatLit (signBytes sign ++ joinU igroups ++ (fracBytes frac ++ e :: (signBytes esign ++ joinU egroups ++ rest))) =
      .ok ⟨isNegSign sign, igroups.flatten, (frac.map List.flatten).getD [], isNegSign esign, egroups.flatten⟩ rest := by
  have hexp := expPart_lit e he esign egroups rest hg hs
  have hstop : Stops isDigit (e :: (signBytes esign ++ joinU egroups ++ rest)) := by
    rcases he with he | he <;> subst he <;> exact ⟨by decide, by decide⟩
  cases frac with
  | none =>
    have hdec := decInt_lit sign igroups (e :: (signBytes esign ++ joinU egroups ++ rest)) hi hz hstop
    unfold floatLit
    simp only [fracBytes, List.nil_append]
    rw [hdec]
    rcases he with he | he <;> subst he <;> simp only [hexp] <;> rfl
  | some fg =>
    have hdec := decInt_lit sign igroups (0x2E :: (joinU fg ++ e :: (signBytes esign ++ joinU egroups ++ rest))) hi hz
      ⟨by decide, by decide⟩
    have hzp := zeroPrefixableInt_groups fg _ (hf fg rfl) hstop
    unfold floatLit
    simp only [fracBytes, List.cons_append]
    rw [hdec]
    simp only [hzp, hexp]
    rfl


end TomlVerif.Lemmas.Numbers11
