import TomlVerif.Props.C06
import TomlVerif.Props.C01Doc
import TomlVerif.Props.C04Fuel
/-! Helper lemmas for C06, containers: what `value` makes of a printed array / inline table
    (`encodeValue` of `Model/Encode06.lean`), by induction over the decorated tree. The step lemmas of
    `Lemmas/Value01.lean` (`arrayElems_last`, `inl_more`, …) and the abstract key segments of
    `Spec/AstDoc.lean` are reused; the syntax tree `AVal` is not (its inline tables have bare keys only,
    the printer quotes keys). -/
namespace TomlVerif.Lemmas.Encode06b
open TomlVerif TomlVerif.Spec TomlVerif.Model TomlVerif.Model.Encode06 TomlVerif.Model.Value
open TomlVerif.Model.Strings
open TomlVerif.Lemmas.Encode06 TomlVerif.Props.C06 TomlVerif.Spec.Encode06
open TomlVerif.Spec.AstValue TomlVerif.Spec.AstDoc TomlVerif.Lemmas.Value01 TomlVerif.Lemmas.Doc01

/-! ## the printed token without its decor -/

/-- what `encode_value` writes between the decor -/
def core : DVal → Bytes
  | .arr items _ => [0x5B] ++ encodeElems items true ++ [0x5D]
  | .inl items _ => [0x7B] ++ encodePairs items true ++ [0x7D]
  | v => leafRepr v

theorem encodeValue_eq (v : DVal) (dflt : Bytes × Bytes) :
    encodeValue v dflt = (decorOf v).pre.getD dflt.1 ++ (core v ++ (decorOf v).suf.getD dflt.2) := by
  cases v <;> simp [encodeValue, withDecor, core, leafRepr, decorOf]

/-! ## invariants of built values -/

/-- the decor the constructors leave on an array element: unset, or `("", "")` / `(" ", "")` -/
def DecOk (dec : Decor) : Prop :=
  (dec.pre = none ∨ dec.pre = some [] ∨ dec.pre = some [0x20]) ∧ (dec.suf = none ∨ dec.suf = some [])

mutual
/-- array elements carry a decor the constructors set, inline-table values none, keys are distinct -/
def GoodV : DVal → Prop
  | .arr items _ => GoodVs items
  | .inl items _ => GoodPs items ∧ (keysP items).Nodup
  | _ => True
def GoodVs : List DVal → Prop
  | [] => True
  | v :: r => DecOk (decorOf v) ∧ GoodV v ∧ GoodVs r
def GoodPs : List (Bytes × DVal) → Prop
  | [] => True
  | (_, v) :: r => decorOf v = {} ∧ GoodV v ∧ GoodPs r
def keysP : List (Bytes × DVal) → List Bytes
  | [] => []
  | (k, _) :: r => k :: keysP r
end

theorem keysP_eq (l : List (Bytes × DVal)) : keysP l = l.map Prod.fst := by
  induction l with
  | nil => rfl
  | cons x l ih => obtain ⟨k, v⟩ := x; simp [keysP, ih]

/-! ## first bytes -/

theorem follow_bytes : ∀ b : UInt8, isFollowByte b = true →
    b = 0x20 ∨ b = 0x09 ∨ b = 0x0A ∨ b = 0x0D ∨ b = 0x2C ∨ b = 0x5D ∨ b = 0x7D ∨ b = 0x23 :=
  forall_byte (by decide +kernel)

/-- `value` succeeds only on text that does not start with a follow byte -/
theorem value_ok_head (f d : Nat) (b : UInt8) (t : Bytes) (v : Val) (r : Bytes)
    (h : value f d (b :: t) = .ok v r) : isFollowByte b = false := by
  cases hb : isFollowByte b with
  | false => rfl
  | true =>
    exfalso
    cases f with
    | zero => simp [value] at h
    | succ f =>
      rcases follow_bytes b hb with e | e | e | e | e | e | e | e <;> subst e <;>
        simp [value, isDigit, inR] at h

/-- the token of a leaf is not empty and starts with a byte after which no value may end -/
theorem leaf_head (v : DVal) (h : LeafOk v) : ∃ b t, leafRepr v = b :: t ∧ isFollowByte b = false := by
  have h0 := T06_leaf v h [] leafFollow_nil 0 0
  rw [List.append_nil] at h0
  cases hl : leafRepr v with
  | nil => rw [hl] at h0; simp [value] at h0
  | cons b t => rw [hl] at h0; exact ⟨b, t, rfl, value_ok_head _ _ _ _ _ _ h0⟩

theorem core_head (v : DVal) (h : LeavesOkV v) : ∃ b t, core v = b :: t ∧ isFollowByte b = false := by
  cases v with
  | arr items dec => exact ⟨0x5B, _, rfl, by decide⟩
  | inl items dec => exact ⟨0x7B, _, rfl, by decide⟩
  | str s dec => exact leaf_head _ (by simpa [LeavesOkV] using h)
  | int n dec => exact leaf_head _ (by simpa [LeavesOkV] using h)
  | float b d dec => exact leaf_head _ (by simpa [LeavesOkV] using h)
  | bool b dec => exact leaf_head _ (by simpa [LeavesOkV] using h)
  | dt d dec => exact leaf_head _ (by simpa [LeavesOkV] using h)


/-! ## goals of the induction -/

/-- the printed token is read back, with any sufficient fuel, as the value it was built from -/
def VGoal (v : DVal) : Prop :=
  ∀ d rest, d + depthV v < LIMIT → LeafFollow rest →
    ∃ F, ∀ fuel, F ≤ fuel → value fuel d (core v ++ rest) = .ok (canonValD v) rest

def elemDflt (first : Bool) : Bytes × Bytes := if first then DEFAULT_LEADING_VALUE_DECOR else DEFAULT_VALUE_DECOR

/-- the elements of an array as `array_values` sees them: without the comma before the first -/
def elemsText : List DVal → Bool → Bytes
  | [], _ => []
  | v :: r, first => encodeValue v (elemDflt first) ++ encodeElems r false

theorem encodeElems_true (l : List DVal) : encodeElems l true = elemsText l true := by
  cases l <;> simp [encodeElems, elemsText, elemDflt]

theorem encodeElems_false_cons (v : DVal) (r : List DVal) :
    encodeElems (v :: r) false = 0x2C :: elemsText (v :: r) false := by
  simp [encodeElems, elemsText, elemDflt]

def ElemsGoal (l : List DVal) : Prop :=
  l ≠ [] → ∀ first d rest acc, d + depthVs l < LIMIT →
    ∃ F, ∀ g, F ≤ g →
      arrayElems g d (elemsText l first ++ 0x5D :: rest) acc = .ok (acc ++ canonValsD l) (0x5D :: rest)

def pairDflt (last : Bool) : Bytes × Bytes := if last then DEFAULT_TRAILING_VALUE_DECOR else DEFAULT_VALUE_DECOR

/-- the pairs of an inline table as `inline keyvals` sees them: without the comma before the first -/
def pairsText : List (Bytes × DVal) → Bytes
  | [] => []
  | (k, v) :: r => encodeKeyPath [k] DEFAULT_INLINE_KEY_DECOR ++ [0x3D] ++ encodeValue v (pairDflt r.isEmpty) ++ encodePairs r false

theorem encodePairs_true (l : List (Bytes × DVal)) : encodePairs l true = pairsText l := by
  cases l with
  | nil => simp [encodePairs, pairsText]
  | cons x r => obtain ⟨k, v⟩ := x; simp [encodePairs, pairsText, pairDflt]

theorem encodePairs_false_cons (x : Bytes × DVal) (r : List (Bytes × DVal)) :
    encodePairs (x :: r) false = 0x2C :: pairsText (x :: r) := by
  obtain ⟨k, v⟩ := x; simp [encodePairs, pairsText, pairDflt]

/-- the entries `inline keyvals` collects: plain keys -/
def plainPairs : List (Bytes × DVal) → List (List Bytes × Bytes × Val)
  | [] => []
  | (k, v) :: r => ([], k, canonValD v) :: plainPairs r

def PairsGoal (l : List (Bytes × DVal)) : Prop :=
  l ≠ [] → ∀ d rest acc, d + depthPairs l < LIMIT →
    ∃ F, ∀ g, F ≤ g →
      inlineKeyvals g d (pairsText l ++ 0x7D :: rest) acc = .ok (acc ++ plainPairs l) (0x7D :: rest)

/-! ## small facts -/

theorem allWs_nil : AllWs [] := by intro b hb; cases hb
theorem allWs_sp : AllWs [0x20] := by intro b hb; simp at hb; subst hb; decide

theorem wcn_pre (pre X : Bytes) (hp : AllWs pre) (hX : NoTriviaHead X) :
    wsCommentNewline ((pre ++ X).length + 1) (pre ++ X) = some X := by
  rw [wcn_ws _ _ _ hp]; exact wcn_stop _ _ hX

theorem noTrivia_core (v : DVal) (h : LeavesOkV v) (X : Bytes) : NoTriviaHead (core v ++ X) := by
  obtain ⟨b, t, e, hb⟩ := core_head v h
  rw [e]; exact not_trivia_of_not_follow b hb

theorem decOk_pre (dec : Decor) (h : DecOk dec) (first : Bool) :
    (dec.pre.getD (elemDflt first).1 = [] ∨ dec.pre.getD (elemDflt first).1 = [0x20]) ∧
    dec.suf.getD (elemDflt first).2 = [] := by
  obtain ⟨h1, h2⟩ := h
  constructor
  · rcases h1 with h1 | h1 | h1 <;> rw [h1] <;> cases first <;>
      simp [elemDflt, DEFAULT_LEADING_VALUE_DECOR, DEFAULT_VALUE_DECOR]
  · rcases h2 with h2 | h2 <;> rw [h2] <;> cases first <;>
      simp [elemDflt, DEFAULT_LEADING_VALUE_DECOR, DEFAULT_VALUE_DECOR]

theorem leaf_case (v : DVal) (h : LeafOk v) : VGoal v := by
  intro d rest _ hr
  refine ⟨1, ?_⟩
  intro fuel hf
  obtain ⟨f, rfl⟩ : ∃ f, fuel = f + 1 := ⟨fuel - 1, by omega⟩
  have := T06_leaf v h rest hr f d
  cases h <;> simpa [core, canonValD, canonLeaf, valOf] using this


/-! ## arrays -/

theorem elems_step (v : DVal) (r : List DVal) (hdec : DecOk (decorOf v)) (hl : LeavesOkV v)
    (hv : VGoal v) (hr : ElemsGoal r) : ElemsGoal (v :: r) := by
  intro _ first d rest acc hdep
  simp only [depthVs] at hdep
  obtain ⟨hpre, hsuf⟩ := decOk_pre _ hdec first
  have hpw : AllWs ((decorOf v).pre.getD (elemDflt first).1) := by
    rcases hpre with e | e <;> rw [e]
    · exact allWs_nil
    · exact allWs_sp
  have h1 : ∀ Y : Bytes, wsCommentNewline (((decorOf v).pre.getD (elemDflt first).1 ++ (core v ++ Y)).length + 1)
      ((decorOf v).pre.getD (elemDflt first).1 ++ (core v ++ Y)) = some (core v ++ Y) := fun Y =>
    wcn_pre _ _ hpw (noTrivia_core v hl Y)
  simp only [elemsText, canonValsD, encodeValue_eq, hsuf, List.append_nil, List.append_assoc]
  cases r with
  | nil =>
    simp only [encodeElems, List.nil_append]
    obtain ⟨F, hF⟩ := hv d (0x5D :: rest) (by omega) (leafFollow_close rest)
    refine ⟨F + 1, ?_⟩
    intro g hg
    obtain ⟨g0, rfl⟩ : ∃ g0, g = g0 + 1 := ⟨g - 1, by omega⟩
    have h3 : wsCommentNewline ((0x5D :: rest).length + 1) (0x5D :: rest) = some (0x5D :: rest) :=
      wcn_stop _ _ (noTrivia_cons _ _ (by decide))
    rw [arrayElems_last g0 d _ _ _ _ _ acc (h1 _) (hF g0 (by omega)) h3 (by intro t ht; simp at ht)]
    simp [canonValsD]
  | cons w r' =>
    rw [encodeElems_false_cons]
    simp only [List.cons_append]
    obtain ⟨F1, hF1⟩ := hv d (0x2C :: (elemsText (w :: r') false ++ 0x5D :: rest)) (by omega) (leafFollow_comma _)
    obtain ⟨F2, hF2⟩ := hr (by simp) false d rest (acc ++ [canonValD v]) (by omega)
    refine ⟨F1 + F2 + 1, ?_⟩
    intro g hg
    obtain ⟨g0, rfl⟩ : ∃ g0, g = g0 + 1 := ⟨g - 1, by omega⟩
    have h3 : wsCommentNewline ((0x2C :: (elemsText (w :: r') false ++ 0x5D :: rest)).length + 1)
        (0x2C :: (elemsText (w :: r') false ++ 0x5D :: rest)) = some (0x2C :: (elemsText (w :: r') false ++ 0x5D :: rest)) :=
      wcn_stop _ _ (noTrivia_cons _ _ (by decide))
    rw [arrayElems_more g0 d _ _ _ _ _ _ acc _ (h1 _) (hF1 g0 (by omega)) h3 (hF2 g0 (by omega))]
    simp [canonValsD]

theorem elem_head_ne (v : DVal) (first : Bool) (hdec : DecOk (decorOf v)) (hl : LeavesOkV v) (Z : Bytes) :
    ∀ t, encodeValue v (elemDflt first) ++ Z ≠ 0x5D :: t := by
  intro t he
  obtain ⟨hpre, _⟩ := decOk_pre _ hdec first
  obtain ⟨b, u, e, hb⟩ := core_head v hl
  rw [encodeValue_eq] at he
  rcases hpre with h | h <;> rw [h, e] at he
  · simp at he
    rw [he.1] at hb
    revert hb; decide
  · simp at he

theorem arr_case (items : List DVal) (dec : Decor) (hg : GoodVs items) (hl : LeavesOkVs items)
    (hit : ElemsGoal items) : VGoal (.arr items dec) := by
  intro d rest hdep _
  simp only [depthV] at hdep
  have e : core (.arr items dec) ++ rest = 0x5B :: (elemsText items true ++ 0x5D :: rest) := by
    simp [core, encodeElems_true]
  rw [e]
  simp only [canonValD]
  cases items with
  | nil =>
    refine ⟨2, ?_⟩
    intro fuel hf
    obtain ⟨f, rfl⟩ : ∃ f, fuel = f + 2 := ⟨fuel - 2, by omega⟩
    simp only [elemsText, List.nil_append, canonValsD]
    exact value_arr_ok (f + 1) d _ rest [] (by omega) (arrayValues_close f (d + 1) rest)
  | cons v r =>
    rw [GoodVs] at hg
    rw [LeavesOkVs] at hl
    obtain ⟨F, hF⟩ := hit (by simp) true (d + 1) rest [] (by omega)
    refine ⟨F + 2, ?_⟩
    intro fuel hf
    obtain ⟨f, rfl⟩ : ∃ f, fuel = f + 2 := ⟨fuel - 2, by omega⟩
    have h := hF f (by omega)
    simp only [List.nil_append] at h
    apply value_arr_ok (f + 1) d _ rest _ (by omega)
    refine arrayValues_nocomma f (d + 1) _ _ _ _ ?_ (by simp [canonValsD]) h (by intro t ht; simp at ht)
      (wcn_stop _ _ (noTrivia_cons _ _ (by decide)))
    simp only [elemsText, List.append_assoc]
    exact elem_head_ne v true hg.1 hl.1 _


/-! ## inline tables -/

/-- the printed key is a key segment -/
theorem keyseg_repr (pre k post : Bytes) (hpre : AllWs pre) (hpost : AllWs post) :
    KeySegOK ⟨pre, reprKey k, k, post⟩ := by
  have h := Props.C10.T10_key_default_total k
  unfold reprKey
  cases hw : Write.writeKey .default k with
  | none => rw [hw] at h; cases h
  | some tok => exact Props.C01Doc.T01_keyseg_written .default pre k tok post hpre hpost hw

/-- ` key ` as written in an inline table -/
def inlKey (k : Bytes) : KeyPath := ⟨⟨[0x20], reprKey k, k, [0x20]⟩, []⟩

theorem inlKey_ok (k : Bytes) : (inlKey k).OK :=
  ⟨keyseg_repr _ _ _ allWs_sp allWs_sp, (by intro x hx; cases hx), (by simp [inlKey, LIMIT])⟩

theorem inlKey_render (k : Bytes) : encodeKeyPath [k] DEFAULT_INLINE_KEY_DECOR = (inlKey k).render := by
  simp [encodeKeyPath, encodeKeyPathAux, DEFAULT_INLINE_KEY_DECOR, inlKey, KeyPath.render, KeySeg.render, renderSep]

theorem pairs_step (k : Bytes) (v : DVal) (r : List (Bytes × DVal)) (hdec : decorOf v = {}) (hl : LeavesOkV v)
    (hv : VGoal v) (hr : PairsGoal r) : PairsGoal ((k, v) :: r) := by
  intro _ d rest acc hdep
  simp only [Props.C06.depthPairs] at hdep
  have hkp := fun Y => keyPath_path (inlKey k) (0x3D :: Y) (inlKey_ok k) (pathFollow_eq Y)
  have hsl : splitLast (inlKey k).names = some ([], k) := rfl
  have hlen : (inlKey k).names.length - 1 = 0 := rfl
  have hdw : ∀ R2 : Bytes, dropWs ([0x20] ++ (core v ++ R2)) = core v ++ R2 := fun R2 => by
    rw [dropWs_allws _ _ allWs_sp]; exact dropWs_stop _ (noTrivia_core v hl _)
  simp only [pairsText, plainPairs, encodeValue_eq, hdec, inlKey_render, List.append_assoc, List.cons_append,
    List.nil_append]
  cases r with
  | nil =>
    simp only [encodePairs, List.nil_append, pairDflt, List.isEmpty_nil, if_true, DEFAULT_TRAILING_VALUE_DECOR,
      Option.getD_none]
    obtain ⟨F, hF⟩ := hv d ([0x20] ++ 0x7D :: rest) (by omega) (leafFollow_brace rest)
    refine ⟨F + 1, ?_⟩
    intro g hg
    obtain ⟨g0, rfl⟩ : ∃ g0, g = g0 + 1 := ⟨g - 1, by omega⟩
    have h2 := hF g0 (by omega)
    rw [← hdw] at h2
    have hd2 : dropWs ([0x20] ++ 0x7D :: rest) = 0x7D :: rest := by
      rw [dropWs_allws _ _ allWs_sp]; exact dropWs_head _ _ (by decide)
    have := inl_last g0 d _ _ _ k _ [] (canonValD v) acc (hkp _) hsl (by rw [hlen]; omega)
      (by rw [hlen]; exact h2) (by rw [hd2]; intro t ht; simp at ht)
    rw [hd2] at this
    simpa [plainPairs] using this
  | cons p' r' =>
    rw [encodePairs_false_cons]
    simp only [pairDflt, List.isEmpty_cons, Bool.false_eq_true, if_false, DEFAULT_VALUE_DECOR, Option.getD_none,
      List.nil_append, List.cons_append]
    obtain ⟨F1, hF1⟩ := hv d (0x2C :: (pairsText (p' :: r') ++ 0x7D :: rest)) (by omega) (leafFollow_comma _)
    obtain ⟨F2, hF2⟩ := hr (by simp) d rest (acc ++ [([], k, canonValD v)]) (by omega)
    refine ⟨F1 + F2 + 1, ?_⟩
    intro g hg
    obtain ⟨g0, rfl⟩ : ∃ g0, g = g0 + 1 := ⟨g - 1, by omega⟩
    have h2 := hF1 g0 (by omega)
    rw [← hdw] at h2
    have hd2 : dropWs (0x2C :: (pairsText (p' :: r') ++ 0x7D :: rest)) = 0x2C :: (pairsText (p' :: r') ++ 0x7D :: rest) :=
      dropWs_head _ _ (by decide)
    have := inl_more g0 d _ _ _ _ _ k _ [] (canonValD v) acc _ (hkp _) hsl (by rw [hlen]; omega)
      (by rw [hlen]; exact h2) hd2 (hF2 g0 (by omega))
    simp only [List.cons_append, List.nil_append] at this
    rw [this]
    obtain ⟨k', v'⟩ := p'
    simp [plainPairs]

/-- plain distinct keys: `table_from_pairs` gives the entries in order -/
theorem tableFromPairs_plainPairs : ∀ (l : List (Bytes × DVal)) (acc : List (Bytes × Val)),
    (keysP l).Nodup → (∀ k ∈ keysP l, k ∉ acc.map Prod.fst) →
    tableFromPairs (plainPairs l) acc = some (acc ++ canonPairsD l) := by
  intro l
  induction l with
  | nil => intro acc _ _; simp [plainPairs, tableFromPairs, canonPairsD]
  | cons x l ih =>
    obtain ⟨k, v⟩ := x
    intro acc hn ha
    simp only [keysP, List.nodup_cons] at hn
    have hk : k ∉ acc.map Prod.fst := ha k (by simp [keysP])
    simp only [plainPairs, tableFromPairs, List.isEmpty_nil, inlInsert, alookup_none _ _ hk, canonPairsD]
    simp only [Bool.false_eq_true, if_false, beq_iff_eq]
    rw [ih (acc ++ [(k, canonValD v)]) hn.2]
    · simp
    · intro k' hk' hmem
      simp at hmem
      rcases hmem with hmem | hmem
      · exact ha k' (by simp [keysP, hk']) (by simpa using hmem)
      · rw [hmem] at hk'; exact hn.1 hk'

theorem inl_case (items : List (Bytes × DVal)) (dec : Decor) (hp : PairsGoal items) (hn : (keysP items).Nodup) :
    VGoal (.inl items dec) := by
  intro d rest hdep _
  simp only [depthV] at hdep
  have e : core (.inl items dec) ++ rest = 0x7B :: (pairsText items ++ 0x7D :: rest) := by
    simp [core, encodePairs_true]
  rw [e]
  simp only [canonValD]
  have hc : dropWs (0x7D :: rest) = 0x7D :: rest := dropWs_head _ _ (by decide)
  have ht := tableFromPairs_plainPairs items [] hn (by simp)
  simp only [List.nil_append] at ht
  cases items with
  | nil =>
    refine ⟨2, ?_⟩
    intro fuel hf
    obtain ⟨f, rfl⟩ : ∃ f, fuel = f + 2 := ⟨fuel - 2, by omega⟩
    simp only [pairsText, List.nil_append]
    exact value_inl_ok _ d _ _ rest [] _ (by omega) (inl_stop f (d + 1) _ [] (keyPath_close _ rest hc)) ht hc
  | cons p l =>
    obtain ⟨F, hF⟩ := hp (by simp) (d + 1) rest [] (by omega)
    refine ⟨F + 1, ?_⟩
    intro fuel hf
    obtain ⟨f, rfl⟩ : ∃ f, fuel = f + 1 := ⟨fuel - 1, by omega⟩
    have h := hF f (by omega)
    simp only [List.nil_append] at h
    exact value_inl_ok _ d _ _ rest _ _ (by omega) h ht hc

/-! ## the induction -/

mutual
theorem val_ok : ∀ v : DVal, GoodV v → LeavesOkV v → VGoal v
  | .arr items dec, hg, hl => by
    rw [GoodV] at hg
    rw [LeavesOkV] at hl
    exact arr_case items dec hg hl (elems_ok items hg hl)
  | .inl items dec, hg, hl => by
    rw [GoodV] at hg
    rw [LeavesOkV] at hl
    exact inl_case items dec (pairs_ok items hg.1 hl) hg.2
  | .str s dec, _, hl => leaf_case _ (by simpa [LeavesOkV] using hl)
  | .int n dec, _, hl => leaf_case _ (by simpa [LeavesOkV] using hl)
  | .float b x dec, _, hl => leaf_case _ (by simpa [LeavesOkV] using hl)
  | .bool b dec, _, hl => leaf_case _ (by simpa [LeavesOkV] using hl)
  | .dt x dec, _, hl => leaf_case _ (by simpa [LeavesOkV] using hl)
theorem elems_ok : ∀ l : List DVal, GoodVs l → LeavesOkVs l → ElemsGoal l
  | [], _, _ => fun h => absurd rfl h
  | v :: r, hg, hl => by
    rw [GoodVs] at hg
    rw [LeavesOkVs] at hl
    exact elems_step v r hg.1 hl.1 (val_ok v hg.2.1 hl.1) (elems_ok r hg.2.2 hl.2)
theorem pairs_ok : ∀ l : List (Bytes × DVal), GoodPs l → LeavesOkPairs l → PairsGoal l
  | [], _, _ => fun h => absurd rfl h
  | (k, v) :: r, hg, hl => by
    rw [GoodPs] at hg
    rw [LeavesOkPairs] at hl
    exact pairs_step k v r hg.1 hl.1 (val_ok v hg.2.1 hl.1) (pairs_ok r hg.2.2 hl.2)
end


/-! ## what the constructors build satisfies the invariants -/

theorem decOk_unset : DecOk {} := ⟨Or.inl rfl, Or.inl rfl⟩

theorem decorOf_decorate (p q : Bytes) (v : DVal) : decorOf (decorate p q v) = ⟨some p, some q⟩ := by
  cases v <;> rfl

theorem goodV_decorate (p q : Bytes) (v : DVal) (h : GoodV v) : GoodV (decorate p q v) := by
  cases v <;> first | (simp [decorate, GoodV]; done) | simpa [decorate, GoodV] using h

theorem goodVs_iff (l : List DVal) : GoodVs l ↔ ∀ v ∈ l, DecOk (decorOf v) ∧ GoodV v := by
  induction l with
  | nil => simp [GoodVs]
  | cons v r ih => simp [GoodVs, ih, and_assoc]

theorem goodPs_iff (l : List (Bytes × DVal)) : GoodPs l ↔ ∀ kv ∈ l, decorOf kv.2 = {} ∧ GoodV kv.2 := by
  induction l with
  | nil => simp [GoodPs]
  | cons x r ih => obtain ⟨k, v⟩ := x; simp [GoodPs, ih, and_assoc]

theorem goodVs_push : ∀ (l acc : List DVal), (∀ v ∈ l, GoodV v) → GoodVs acc → GoodVs (l.foldl arrayPush acc) := by
  intro l
  induction l with
  | nil => intro acc _ h; exact h
  | cons v r ih =>
    intro acc hl hacc
    simp only [List.foldl_cons]
    apply ih _ (fun w hw => hl w (by simp [hw]))
    rw [goodVs_iff] at hacc ⊢
    intro w hw
    simp only [arrayPush, List.mem_append, List.mem_singleton] at hw
    rcases hw with hw | hw
    · exact hacc w hw
    · subst hw
      have hv := hl v (by simp)
      split
      · exact ⟨by rw [decorOf_decorate]; exact ⟨Or.inr (Or.inr rfl), Or.inr rfl⟩, goodV_decorate _ _ _ hv⟩
      · exact ⟨by rw [decorOf_decorate]; exact ⟨Or.inr (Or.inl rfl), Or.inr rfl⟩, goodV_decorate _ _ _ hv⟩

theorem mem_areplace {α : Type} (k : Bytes) (v : α) (l : List (Bytes × α)) (x : Bytes × α) (h : x ∈ areplace k v l) :
    x.2 = v ∨ x ∈ l := by
  induction l with
  | nil => simp [areplace] at h
  | cons p r ih =>
    obtain ⟨k', v'⟩ := p
    by_cases hk : k' = k
    · simp [areplace, hk] at h
      rcases h with h | h
      · left; rw [h]
      · right; simp [h]
    · simp [areplace, hk] at h
      rcases h with h | h
      · right; simp [h]
      · rcases ih h with e | e
        · exact Or.inl e
        · right; simp [e]

theorem mem_aset {α : Type} (k : Bytes) (v : α) (l : List (Bytes × α)) (x : Bytes × α) (h : x ∈ aset k v l) :
    x.2 = v ∨ x ∈ l := by
  unfold aset at h
  split at h
  · exact mem_areplace k v l x h
  · simp at h
    rcases h with h | h
    · exact Or.inr h
    · left; rw [h]

/-- folding `IndexMap` insertion keeps the keys distinct and every value one of those inserted -/
theorem fold_aset {α : Type} (P : α → Prop) : ∀ (l acc : List (Bytes × α)), (∀ kv ∈ l, P kv.2) → (∀ kv ∈ acc, P kv.2) →
    (acc.map Prod.fst).Nodup →
    (∀ kv ∈ l.foldl (fun a kv => aset kv.1 kv.2 a) acc, P kv.2) ∧
    ((l.foldl (fun a kv => aset kv.1 kv.2 a) acc).map Prod.fst).Nodup := by
  intro l
  induction l with
  | nil => intro acc _ ha hn; exact ⟨ha, hn⟩
  | cons x r ih =>
    intro acc hl ha hn
    simp only [List.foldl_cons]
    apply ih _ (fun kv hkv => hl kv (by simp [hkv]))
    · intro kv hkv
      rcases mem_aset _ _ _ _ hkv with e | e
      · rw [e]; exact hl x (by simp)
      · exact ha kv e
    · exact State09.aset_nodup _ _ _ hn

mutual
theorem good_build : ∀ b : BVal, GoodV (buildVal b)
  | .str s => by simp [buildVal, GoodV]
  | .int n => by simp [buildVal, GoodV]
  | .float b d => by simp [buildVal, GoodV]
  | .bool b => by simp [buildVal, GoodV]
  | .dt d => by simp [buildVal, GoodV]
  | .arr viaIter items => by
    have h := good_builds items
    rw [buildVal]
    split
    · rw [GoodV, goodVs_iff]
      intro v hv
      exact ⟨by rw [(h v hv).2]; exact decOk_unset, (h v hv).1⟩
    · rw [GoodV]
      exact goodVs_push _ [] (fun v hv => (h v hv).1) (by simp [GoodVs])
  | .inl _ items => by
    have h := good_buildKVs items
    rw [buildVal, GoodV, keysP_eq, goodPs_iff]
    exact fold_aset (fun v => decorOf v = {} ∧ GoodV v) _ [] (fun kv hkv => ⟨(h kv hkv).2, (h kv hkv).1⟩)
      (by simp) (by simp)
theorem good_builds : ∀ l : List BVal, ∀ v ∈ buildVals l, GoodV v ∧ decorOf v = {}
  | [] => by simp [buildVals]
  | b :: r => by
    intro v hv
    simp only [buildVals, List.mem_cons] at hv
    rcases hv with hv | hv
    · subst hv; exact ⟨good_build b, decorOf_buildVal b⟩
    · exact good_builds r v hv
theorem good_buildKVs : ∀ l : List (Bytes × BVal), ∀ kv ∈ buildKVs l, GoodV kv.2 ∧ decorOf kv.2 = {}
  | [] => by simp [buildKVs]
  | (k, b) :: r => by
    intro kv hkv
    simp only [buildKVs, List.mem_cons] at hkv
    rcases hkv with hkv | hkv
    · subst hkv; exact ⟨good_build b, decorOf_buildVal b⟩
    · exact good_buildKVs r kv hkv
end

/-- a built value printed as a value is read back, with enough fuel, exactly -/
theorem value_printValue (b : BVal) (hl : LeavesOkV (buildVal b)) (d : Nat) (rest : Bytes)
    (hd : d + depthV (buildVal b) < LIMIT) (hr : LeafFollow rest) :
    ∃ F, ∀ fuel, F ≤ fuel → value fuel d (printValue (buildVal b) ++ rest) = .ok (canonValD (buildVal b)) rest := by
  have e : printValue (buildVal b) = core (buildVal b) := by
    unfold printValue
    rw [encodeValue_eq, decorOf_buildVal]
    simp
  rw [e]
  exact val_ok _ (good_build b) hl d rest hd hr

end TomlVerif.Lemmas.Encode06b
