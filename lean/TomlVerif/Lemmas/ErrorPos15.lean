import TomlVerif.Model.ErrorPos
import TomlVerif.Lemmas.ByteDecide
/-! Lemmas for C15: structure of valid UTF-8 (whole characters, boundaries, slices),
    `lineStartOf`, `charSpan`. -/
namespace TomlVerif.Lemmas.ErrorPos15
open TomlVerif TomlVerif.Spec TomlVerif.Model.ErrorPos

/-! ## per-byte facts -/

theorem lead_not_cont : ∀ b : Byte,
    (b < 0x80 ∨ (0xC2 ≤ b ∧ b ≤ 0xDF) ∨ (0xE0 ≤ b ∧ b ≤ 0xEF) ∨ (0xF0 ≤ b ∧ b ≤ 0xF4)) →
    Utf8.isCont b = false :=
  forall_byte (by decide +kernel)

theorem sub_cont : ∀ b : Byte,
    ((0xA0 ≤ b ∧ b ≤ 0xBF) ∨ (0x80 ≤ b ∧ b ≤ 0x9F) ∨ (0x90 ≤ b ∧ b ≤ 0xBF) ∨ (0x80 ≤ b ∧ b ≤ 0x8F)) →
    Utf8.isCont b = true :=
  forall_byte (by decide +kernel)

theorem ascii_not_cont : ∀ b : Byte, b < 0x80 → Utf8.isCont b = false :=
  forall_byte (by decide +kernel)

theorem not_cont_not_ascii_lead : ∀ b : Byte, ¬ b < 0x80 → Utf8.isCont b = false →
    (0xC2 ≤ b ∧ b ≤ 0xDF) ∨ (0xE0 ≤ b ∧ b ≤ 0xEF) ∨ (0xF0 ≤ b ∧ b ≤ 0xF4) ∨
    ¬ (b < 0x80 ∨ (0xC2 ≤ b ∧ b ≤ 0xDF) ∨ (0xE0 ≤ b ∧ b ≤ 0xEF) ∨ (0xF0 ≤ b ∧ b ≤ 0xF4)) :=
  forall_byte (by decide +kernel)

/-! ## `valid` consumes whole characters -/

/-- A valid non-empty string starts with one whole character: a non-continuation byte `b0`
    followed by a block `c` of at most three continuation bytes, and what follows is valid;
    moreover the character is self-contained (validity of `b0 :: c ++ y` is validity of `y`). -/
theorem valid_cons_cases (b0 : Byte) (rest : Bytes) (h : Utf8.valid (b0 :: rest) = true) :
    ∃ c r, rest = c ++ r ∧ (∀ x ∈ c, Utf8.isCont x = true) ∧ Utf8.isCont b0 = false ∧
      Utf8.valid r = true ∧ (b0 < 0x80 ↔ c = []) ∧
      (∀ y, Utf8.valid (b0 :: (c ++ y)) = Utf8.valid y) := by
  unfold Utf8.valid at h
  split at h
  · rename_i h0
    refine ⟨[], rest, rfl, by simp, lead_not_cont b0 (Or.inl h0), h, ⟨fun _ => rfl, fun _ => h0⟩, ?_⟩
    intro y
    conv => lhs; unfold Utf8.valid
    simp [h0]
  · rename_i h0
    split at h
    · rename_i h1
      have h1' : 0xC2 ≤ b0 ∧ b0 ≤ 0xDF := by simpa using h1
      cases rest with
      | nil => simp at h
      | cons b1 r =>
        simp only [Bool.and_eq_true] at h
        refine ⟨[b1], r, rfl, by simpa using h.1, lead_not_cont b0 (Or.inr (Or.inl h1')), h.2,
          ⟨fun hh => absurd hh h0, fun hh => by cases hh⟩, ?_⟩
        intro y
        conv => lhs; unfold Utf8.valid
        simp [h0, h1', h.1]
    · rename_i h1
      split at h
      · rename_i h2
        have h2' : 0xE0 ≤ b0 ∧ b0 ≤ 0xEF := by simpa using h2
        match rest, h with
        | b1 :: b2 :: r, h =>
          simp only [Bool.and_eq_true] at h
          obtain ⟨⟨hb1, hb2⟩, hr⟩ := h
          have hc1 : Utf8.isCont b1 = true := by
            split at hb1
            · exact sub_cont b1 (Or.inl (by simpa using hb1))
            · split at hb1
              · exact sub_cont b1 (Or.inr (Or.inl (by simpa using hb1)))
              · exact hb1
          refine ⟨[b1, b2], r, rfl, by simp [hc1, hb2], lead_not_cont b0 (Or.inr (Or.inr (Or.inl h2'))), hr,
            ⟨fun hh => absurd hh h0, fun hh => by cases hh⟩, ?_⟩
          intro y
          conv => lhs; unfold Utf8.valid
          simp [h0, h1, h2', hb2]
          intro _; simpa using hb1
      · rename_i h2
        split at h
        · rename_i h3
          have h3' : 0xF0 ≤ b0 ∧ b0 ≤ 0xF4 := by simpa using h3
          match rest, h with
          | b1 :: b2 :: b3 :: r, h =>
            simp only [Bool.and_eq_true] at h
            obtain ⟨⟨⟨hb1, hb2⟩, hb3⟩, hr⟩ := h
            have hc1 : Utf8.isCont b1 = true := by
              split at hb1
              · exact sub_cont b1 (Or.inr (Or.inr (Or.inl (by simpa using hb1))))
              · split at hb1
                · exact sub_cont b1 (Or.inr (Or.inr (Or.inr (by simpa using hb1))))
                · exact hb1
            refine ⟨[b1, b2, b3], r, rfl, by simp [hc1, hb2, hb3],
              lead_not_cont b0 (Or.inr (Or.inr (Or.inr h3'))), hr, ⟨fun hh => absurd hh h0, fun hh => by cases hh⟩, ?_⟩
            intro y
            conv => lhs; unfold Utf8.valid
            simp [h0, h1, h2, h3', hb2, hb3]
            intro _; simpa using hb1
        · simp at h


/-- the first byte of a valid string is not a continuation byte -/
theorem valid_head_not_cont (b0 : Byte) (rest : Bytes) (h : Utf8.valid (b0 :: rest) = true) :
    Utf8.isCont b0 = false := by
  obtain ⟨c, r, _, _, h0, _⟩ := valid_cons_cases b0 rest h
  exact h0

theorem isBoundary_zero (s : Bytes) : Utf8.isBoundary s 0 = true := by simp [Utf8.isBoundary]
theorem isBoundary_length (s : Bytes) : Utf8.isBoundary s s.length = true := by simp [Utf8.isBoundary]

/-- a boundary inside the list is a non-continuation byte -/
theorem isBoundary_cases (s : Bytes) (a : Nat) (h : Utf8.isBoundary s a = true) :
    a = 0 ∨ a = s.length ∨ ∃ b, s[a]? = some b ∧ Utf8.isCont b = false := by
  unfold Utf8.isBoundary at h
  simp only [Bool.or_eq_true, beq_iff_eq] at h
  rcases h with (h | h) | h
  · exact Or.inl h
  · exact Or.inr (Or.inl h)
  · right; right
    split at h
    · rename_i b hb; exact ⟨b, hb, by simpa using h⟩
    · simp at h

theorem isBoundary_of_get (s : Bytes) (a : Nat) (b : Byte) (h : s[a]? = some b) (hb : Utf8.isCont b = false) :
    Utf8.isBoundary s a = true := by
  simp [Utf8.isBoundary, h, hb]

/-- **a character boundary of a valid string splits it into two valid strings** -/
theorem valid_split : ∀ (n : Nat) (s : Bytes), s.length ≤ n → Utf8.valid s = true →
    ∀ a, a ≤ s.length → Utf8.isBoundary s a = true →
      Utf8.valid (s.take a) = true ∧ Utf8.valid (s.drop a) = true := by
  intro n
  induction n with
  | zero =>
    intro s hn hv a ha _
    have : s = [] := List.eq_nil_of_length_eq_zero (by omega)
    subst this
    simp [Utf8.valid]
  | succ n ih =>
    intro s hn hv a ha hb
    cases s with
    | nil => simp [Utf8.valid]
    | cons b0 rest =>
      obtain ⟨c, r, hrest, hc, h0, hr, _, hself⟩ := valid_cons_cases b0 rest hv
      subst hrest
      cases a with
      | zero => simpa [Utf8.valid] using hv
      | succ a0 =>
        by_cases hlt : a0 < c.length
        · exfalso
          rcases isBoundary_cases _ _ hb with h | h | ⟨b, hg, hnc⟩
          · omega
          · simp at h; omega
          · have : (b0 :: (c ++ r))[a0 + 1]? = some c[a0] := by
              simp [List.getElem?_append_left hlt]
            rw [this] at hg
            have hcc := hc c[a0] (List.getElem_mem hlt)
            simp only [Option.some.injEq] at hg
            rw [hg] at hcc
            rw [hcc] at hnc
            exact Bool.noConfusion hnc
        · obtain ⟨a', rfl⟩ : ∃ a', a0 = c.length + a' := ⟨a0 - c.length, by omega⟩
          simp only [List.length_cons, List.length_append] at ha hn
          have hbr : Utf8.isBoundary r a' = true := by
            rcases isBoundary_cases _ _ hb with h | h | ⟨b, hg, hnc⟩
            · omega
            · simp only [List.length_cons, List.length_append] at h
              have : a' = r.length := by omega
              subst this; exact isBoundary_length r
            · have : (b0 :: (c ++ r))[c.length + a' + 1]? = r[a']? := by
                simp [List.getElem?_append_right]
              rw [this] at hg
              exact isBoundary_of_get r a' b hg hnc
          have := ih r (by omega) hr a' (by omega) hbr
          have ht : (b0 :: (c ++ r)).take (c.length + a' + 1) = b0 :: (c ++ r.take a') := by
            simp [List.take_append, List.take_of_length_le]
          have hd : (b0 :: (c ++ r)).drop (c.length + a' + 1) = r.drop a' := by
            simp [List.drop_append]
          rw [ht, hd, hself]
          exact this


theorem valid_take (s : Bytes) (a : Nat) (hv : Utf8.valid s = true) (ha : a ≤ s.length)
    (hb : Utf8.isBoundary s a = true) : Utf8.valid (s.take a) = true :=
  (valid_split s.length s (Nat.le_refl _) hv a ha hb).1

theorem valid_drop (s : Bytes) (a : Nat) (hv : Utf8.valid s = true) (ha : a ≤ s.length)
    (hb : Utf8.isBoundary s a = true) : Utf8.valid (s.drop a) = true :=
  (valid_split s.length s (Nat.le_refl _) hv a ha hb).2

/-- **the slice of a valid string between two character boundaries is valid** -/
theorem valid_slice (s : Bytes) (a b : Nat) (hv : Utf8.valid s = true)
    (ha : Utf8.isBoundary s a = true) (hb : Utf8.isBoundary s b = true) (hab : a ≤ b) (hbl : b ≤ s.length) :
    Utf8.valid ((s.take b).drop a) = true := by
  have ht := valid_take s b hv hbl hb
  have hlen : (s.take b).length = b := by simp [List.length_take]; omega
  apply valid_drop _ a ht (by omega)
  by_cases hab' : a = b
  · subst hab'
    have := isBoundary_length (s.take a)
    rwa [hlen] at this
  · rcases isBoundary_cases _ _ ha with h | h | ⟨x, hg, hnc⟩
    · subst h; exact isBoundary_zero _
    · omega
    · apply isBoundary_of_get _ a x _ hnc
      rw [List.getElem?_take_of_lt (by omega)]
      exact hg

/-- in a valid string the position after an ASCII byte is a character boundary -/
theorem boundary_after_ascii (s : Bytes) (j : Nat) (x : Byte) (hv : Utf8.valid s = true)
    (hg : s[j]? = some x) (hx : x < 0x80) : Utf8.isBoundary s (j + 1) = true := by
  have hj : j < s.length := by
    rcases Nat.lt_or_ge j s.length with h | h
    · exact h
    · rw [List.getElem?_eq_none h] at hg; cases hg
  have hbj : Utf8.isBoundary s j = true := isBoundary_of_get s j x hg (ascii_not_cont x hx)
  have hd := valid_drop s j hv (by omega) hbj
  have hde : s.drop j = x :: s.drop (j + 1) := by
    rw [List.drop_eq_getElem_cons hj]
    congr 1
    rw [List.getElem?_eq_getElem hj] at hg
    exact Option.some.inj hg
  rw [hde] at hd
  unfold Utf8.valid at hd
  simp only [hx, if_true] at hd
  by_cases hl : j + 1 = s.length
  · rw [hl]; exact isBoundary_length s
  · have hj1 : j + 1 < s.length := by omega
    rw [List.drop_eq_getElem_cons hj1] at hd
    exact isBoundary_of_get s (j + 1) s[j + 1] (List.getElem?_eq_getElem hj1) (valid_head_not_cont _ _ hd)


/-! ## line start -/

/-- specification of "index just after the last LF strictly before position `n`" (0 if none):
    scan backwards from `n` -/
def lastLfEnd (s : Bytes) : Nat → Nat
  | 0 => 0
  | n + 1 => if s[n]? = some 0x0A then n + 1 else lastLfEnd s n

theorem lastLfEnd_le (s : Bytes) : ∀ n, lastLfEnd s n ≤ n := by
  intro n
  induction n with
  | zero => simp [lastLfEnd]
  | succ n ih => unfold lastLfEnd; split <;> omega

/-- it is 0 or follows an LF -/
theorem lastLfEnd_after_lf (s : Bytes) : ∀ n, lastLfEnd s n = 0 ∨
    ∃ j, lastLfEnd s n = j + 1 ∧ s[j]? = some 0x0A := by
  intro n
  induction n with
  | zero => simp [lastLfEnd]
  | succ n ih =>
    unfold lastLfEnd; split
    · rename_i h; exact Or.inr ⟨n, rfl, h⟩
    · exact ih

/-- no LF between it and `n` -/
theorem lastLfEnd_no_lf (s : Bytes) : ∀ n j, lastLfEnd s n ≤ j → j < n → s[j]? ≠ some 0x0A := by
  intro n
  induction n with
  | zero => intro j _ h; omega
  | succ n ih =>
    intro j h1 h2
    unfold lastLfEnd at h1
    split at h1
    · omega
    · rename_i hne
      by_cases hj : j = n
      · subst hj; exact hne
      · exact ih j h1 (by omega)

theorem lineStartOf_take (s : Bytes) : ∀ n, n ≤ s.length → lineStartOf (s.take n) = lastLfEnd s n := by
  intro n
  induction n with
  | zero => intro _; simp [lineStartOf, lastLfEnd]
  | succ n ih =>
    intro hn
    have hlt : n < s.length := by omega
    have ih' := ih (by omega)
    unfold lineStartOf at ih' ⊢
    have hlen : (s.take n).length = n := by simp [List.length_take]; omega
    rw [hlen] at ih'
    rw [List.take_succ_eq_append_getElem hlt, List.reverse_append]
    simp only [List.reverse_cons, List.reverse_nil, List.nil_append, List.singleton_append,
      List.findIdx?_cons, List.length_append, List.length_cons, List.length_nil, hlen]
    unfold lastLfEnd
    rw [List.getElem?_eq_getElem hlt]
    by_cases hx : s[n] = 0x0A
    · simp [hx]
    · simp only [beq_iff_eq, hx, if_false, Option.some.injEq]
      rw [← ih']
      cases hf : List.findIdx? (fun x => x == 0x0A) (s.take n).reverse with
      | none => simp
      | some k => simp


theorem lastLfEnd_boundary (s : Bytes) (hv : Utf8.valid s = true) (n : Nat) :
    Utf8.isBoundary s (lastLfEnd s n) = true := by
  rcases lastLfEnd_after_lf s n with h | ⟨j, h, hg⟩
  · rw [h]; exact isBoundary_zero s
  · rw [h]; exact boundary_after_ascii s j 0x0A hv hg (by decide)

/-! ## `charSpan` -/

/-- the predicate winnow tests at index `i`: in range and `is_utf8_char_boundary` -/
def startAt (s : Bytes) (i : Nat) : Bool :=
  match s[i]? with | some b => isCharStart b | none => false

theorem startAt_boundary (s : Bytes) (i : Nat) (h : startAt s i = true) : Utf8.isBoundary s i = true := by
  unfold startAt at h
  split at h
  · rename_i b hb
    exact isBoundary_of_get s i b hb (by simpa [isCharStart] using h)
  · simp at h

theorem charSpan_of_lt (s : Bytes) (o : Nat) (ho : o < s.length) :
    charSpan s o =
      (((List.range (o + 1)).reverse.find? (startAt s)).getD 0,
       ((List.range' (o + 1) (s.length - (o + 1))).find? (startAt s)).getD s.length) := by
  unfold charSpan
  have h1 : (o == s.length) = false := by simp; omega
  have h2 : min (o + 1) s.length = o + 1 := by omega
  simp only [h1, h2]
  rfl

theorem charSpan_start_facts (s : Bytes) (o : Nat) :
    let a := ((List.range (o + 1)).reverse.find? (startAt s)).getD 0
    a ≤ o ∧ Utf8.isBoundary s a = true := by
  intro a
  cases hf : (List.range (o + 1)).reverse.find? (startAt s) with
  | none =>
    have : a = 0 := by simp [a, hf]
    rw [this]; exact ⟨Nat.zero_le _, isBoundary_zero s⟩
  | some i =>
    have : a = i := by simp [a, hf]
    rw [this]
    have hm := List.mem_of_find?_eq_some hf
    have hp := List.find?_some hf
    simp only [List.mem_reverse, List.mem_range] at hm
    exact ⟨by omega, startAt_boundary s i hp⟩

theorem charSpan_end_facts (s : Bytes) (o : Nat) (ho : o < s.length) :
    let b := ((List.range' (o + 1) (s.length - (o + 1))).find? (startAt s)).getD s.length
    o < b ∧ b ≤ s.length ∧ Utf8.isBoundary s b = true := by
  intro b
  cases hf : (List.range' (o + 1) (s.length - (o + 1))).find? (startAt s) with
  | none =>
    have : b = s.length := by simp [b, hf]
    rw [this]; exact ⟨ho, Nat.le_refl _, isBoundary_length s⟩
  | some i =>
    have : b = i := by simp [b, hf]
    rw [this]
    have hm := List.mem_of_find?_eq_some hf
    have hp := List.find?_some hf
    simp only [List.mem_range'_1] at hm
    exact ⟨by omega, by omega, startAt_boundary s i hp⟩

/-! ## counting -/

theorem filter_take_length_le (p : Byte → Bool) (s : Bytes) (n : Nat) :
    ((s.take n).filter p).length ≤ (s.filter p).length :=
  List.Sublist.length_le ((List.take_sublist n s).filter p)

theorem charCount_le_length (x : Bytes) : charCount x ≤ x.length := by
  unfold charCount; exact List.length_filter_le _ _

theorem charCount_eq_length_iff (x : Bytes) :
    charCount x = x.length ↔ ∀ b ∈ x, Utf8.isCont b = false := by
  unfold charCount
  rw [List.length_filter_eq_length_iff]
  simp [isCharStart]

/-- in a valid string without continuation bytes every byte is ASCII -/
theorem valid_no_cont_ascii : ∀ (n : Nat) (x : Bytes), x.length ≤ n → Utf8.valid x = true →
    (∀ b ∈ x, Utf8.isCont b = false) → ∀ b ∈ x, b < 0x80 := by
  intro n
  induction n with
  | zero =>
    intro x hn _ _ b hb
    have : x = [] := List.eq_nil_of_length_eq_zero (by omega)
    subst this; simp at hb
  | succ n ih =>
    intro x hn hv hnc
    cases x with
    | nil => intro b hb; simp at hb
    | cons b0 rest =>
      obtain ⟨c, r, hrest, hc, h0, hr, hasc, _⟩ := valid_cons_cases b0 rest hv
      subst hrest
      have hcnil : c = [] := by
        cases c with
        | nil => rfl
        | cons c0 cs =>
          have h1 := hc c0 (by simp)
          have h2 := hnc c0 (by simp)
          rw [h1] at h2; exact Bool.noConfusion h2
      subst hcnil
      have hb0 : b0 < 0x80 := hasc.mpr rfl
      simp only [List.nil_append] at *
      intro b hb
      rcases List.mem_cons.mp hb with h | h
      · rw [h]; exact hb0
      · exact ih r (by simp at hn; omega) hr (fun b hb => hnc b (List.mem_cons_of_mem _ hb)) b h


/-! ## `charSpan` is tight: no boundary strictly inside the span -/

theorem find_rev_range (p : Nat → Bool) : ∀ n,
    ((List.range n).reverse.find? p = none → ∀ j, j < n → p j = false) ∧
    (∀ i, (List.range n).reverse.find? p = some i → ∀ j, i < j → j < n → p j = false) := by
  intro n
  induction n with
  | zero => simp
  | succ n ih =>
    rw [List.range_succ, List.reverse_append]
    simp only [List.reverse_cons, List.reverse_nil, List.nil_append, List.singleton_append, List.find?_cons]
    cases hp : p n with
    | true =>
      simp only []
      refine ⟨fun h => (by cases h), ?_⟩
      intro i hi j h1 h2
      simp only [Option.some.injEq] at hi
      omega
    | false =>
      simp only []
      refine ⟨?_, ?_⟩
      · intro h j hj
        by_cases hjn : j = n
        · subst hjn; exact hp
        · exact ih.1 h j (by omega)
      · intro i hi j h1 h2
        by_cases hjn : j = n
        · subst hjn; exact hp
        · exact ih.2 i hi j h1 (by omega)

theorem find_range' (p : Nat → Bool) : ∀ k st,
    ((List.range' st k).find? p = none → ∀ j, st ≤ j → j < st + k → p j = false) ∧
    (∀ i, (List.range' st k).find? p = some i → ∀ j, st ≤ j → j < i → p j = false) := by
  intro k
  induction k with
  | zero => intro st; simp; intro j h1 h2; omega
  | succ k ih =>
    intro st
    rw [List.range'_succ]
    simp only [List.find?_cons]
    cases hp : p st with
    | true =>
      simp only []
      refine ⟨fun h => (by cases h), ?_⟩
      intro i hi j h1 h2
      simp only [Option.some.injEq] at hi
      omega
    | false =>
      simp only []
      refine ⟨?_, ?_⟩
      · intro h j h1 h2
        by_cases hjn : j = st
        · subst hjn; exact hp
        · exact (ih (st + 1)).1 h j (by omega) (by omega)
      · intro i hi j h1 h2
        by_cases hjn : j = st
        · subst hjn; exact hp
        · exact (ih (st + 1)).2 i hi j (by omega) h2

theorem isBoundary_inner (s : Bytes) (j : Nat) (h0 : 0 < j) (hl : j < s.length) :
    Utf8.isBoundary s j = startAt s j := by
  unfold Utf8.isBoundary startAt
  have h1 : (j == 0) = false := by simp; omega
  have h2 : (j == s.length) = false := by simp; omega
  rw [h1, h2, List.getElem?_eq_getElem hl]
  simp [isCharStart]

theorem charSpan_tight (s : Bytes) (o : Nat) (ho : o < s.length) (j : Nat)
    (h1 : (charSpan s o).1 < j) (h2 : j < (charSpan s o).2) : Utf8.isBoundary s j = false := by
  rw [charSpan_of_lt s o ho] at h1 h2
  have hb := (charSpan_end_facts s o ho).2.1
  rw [isBoundary_inner s j (by omega) (by omega)]
  by_cases hjo : j ≤ o
  · cases hf : (List.range (o + 1)).reverse.find? (startAt s) with
    | none => exact (find_rev_range (startAt s) (o + 1)).1 hf j (by omega)
    | some i =>
      rw [hf] at h1
      simp only [Option.getD_some] at h1
      exact (find_rev_range (startAt s) (o + 1)).2 i hf j h1 (by omega)
  · cases hf : (List.range' (o + 1) (s.length - (o + 1))).find? (startAt s) with
    | none => exact (find_range' (startAt s) _ _).1 hf j (by omega) (by omega)
    | some i =>
      rw [hf] at h2
      simp only [Option.getD_some] at h2
      exact (find_range' (startAt s) _ _).2 i hf j (by omega) h2


/-! ## concatenation, and the encoding of scalar values -/

theorem valid_append : ∀ (n : Nat) (x y : Bytes), x.length ≤ n → Utf8.valid x = true →
    Utf8.valid (x ++ y) = Utf8.valid y := by
  intro n
  induction n with
  | zero =>
    intro x y hn _
    have : x = [] := List.eq_nil_of_length_eq_zero (by omega)
    subst this; rfl
  | succ n ih =>
    intro x y hn hv
    cases x with
    | nil => rfl
    | cons b0 rest =>
      obtain ⟨c, r, hrest, _, _, hr, _, hself⟩ := valid_cons_cases b0 rest hv
      subst hrest
      have : (b0 :: (c ++ r)) ++ y = b0 :: (c ++ (r ++ y)) := by simp
      rw [this, hself]
      simp only [List.length_cons, List.length_append] at hn
      exact ih r y (by omega) hr

theorem charCount_append (x y : Bytes) : charCount (x ++ y) = charCount x + charCount y := by
  simp [charCount, List.filter_append]

theorem charCount_nil : charCount [] = 0 := rfl

theorem charCount_cons_start (b : Byte) (x : Bytes) (h : Utf8.isCont b = false) :
    charCount (b :: x) = charCount x + 1 := by
  simp [charCount, isCharStart, h]

theorem charCount_cons_cont (b : Byte) (x : Bytes) (h : Utf8.isCont b = true) :
    charCount (b :: x) = charCount x := by
  simp [charCount, isCharStart, h]

theorem tail_cont : ∀ r : Fin 64, Utf8.isCont (UInt8.ofNat (0x80 + r.val)) = true := by decide +kernel

theorem enc1 : ∀ k : Fin 128, Utf8.valid [UInt8.ofNat k.val] = true ∧ charCount [UInt8.ofNat k.val] = 1 := by
  decide +kernel

def sub3 (b0 b1 : Byte) : Bool :=
  if b0 == 0xE0 then 0xA0 ≤ b1 && b1 ≤ 0xBF else if b0 == 0xED then 0x80 ≤ b1 && b1 ≤ 0x9F else Utf8.isCont b1

def sub4 (b0 b1 : Byte) : Bool :=
  if b0 == 0xF0 then 0x90 ≤ b1 && b1 ≤ 0xBF else if b0 == 0xF4 then 0x80 ≤ b1 && b1 ≤ 0x8F else Utf8.isCont b1

theorem lead_ranges : ∀ b : Byte,
    ((0xC2 ≤ b ∧ b ≤ 0xDF) → ¬ b < 0x80) ∧
    ((0xE0 ≤ b ∧ b ≤ 0xEF) → ¬ b < 0x80 ∧ ¬ (0xC2 ≤ b ∧ b ≤ 0xDF)) ∧
    ((0xF0 ≤ b ∧ b ≤ 0xF4) → ¬ b < 0x80 ∧ ¬ (0xC2 ≤ b ∧ b ≤ 0xDF) ∧ ¬ (0xE0 ≤ b ∧ b ≤ 0xEF)) :=
  forall_byte (by decide +kernel)

theorem valid2_unfold (b0 b1 : Byte) (y : Bytes) (h : 0xC2 ≤ b0 ∧ b0 ≤ 0xDF) :
    Utf8.valid (b0 :: b1 :: y) = (Utf8.isCont b1 && Utf8.valid y) := by
  have h0 := (lead_ranges b0).1 h
  conv => lhs; unfold Utf8.valid
  simp [h0, h]

theorem valid3_unfold (b0 b1 b2 : Byte) (y : Bytes) (h : 0xE0 ≤ b0 ∧ b0 ≤ 0xEF) :
    Utf8.valid (b0 :: b1 :: b2 :: y) = (sub3 b0 b1 && Utf8.isCont b2 && Utf8.valid y) := by
  have h0 := (lead_ranges b0).2.1 h
  conv => lhs; unfold Utf8.valid
  simp only [h0.1, if_false]
  have : (decide (0xC2 ≤ b0) && decide (b0 ≤ 0xDF)) = false := by simpa using h0.2
  simp only [this, Bool.false_eq_true, if_false]
  have : (decide (0xE0 ≤ b0) && decide (b0 ≤ 0xEF)) = true := by simpa using h
  simp only [this, if_true]
  rfl

theorem valid4_unfold (b0 b1 b2 b3 : Byte) (y : Bytes) (h : 0xF0 ≤ b0 ∧ b0 ≤ 0xF4) :
    Utf8.valid (b0 :: b1 :: b2 :: b3 :: y) =
      (sub4 b0 b1 && Utf8.isCont b2 && Utf8.isCont b3 && Utf8.valid y) := by
  have h0 := (lead_ranges b0).2.2 h
  conv => lhs; unfold Utf8.valid
  simp only [h0.1, if_false]
  have : (decide (0xC2 ≤ b0) && decide (b0 ≤ 0xDF)) = false := by simpa using h0.2.1
  simp only [this, Bool.false_eq_true, if_false]
  have : (decide (0xE0 ≤ b0) && decide (b0 ≤ 0xEF)) = false := by simpa using h0.2.2
  simp only [this, Bool.false_eq_true, if_false]
  have : (decide (0xF0 ≤ b0) && decide (b0 ≤ 0xF4)) = true := by simpa using h
  simp only [this, if_true]
  rfl

theorem enc2 : ∀ q : Fin 32, 2 ≤ q.val →
    (0xC2 ≤ UInt8.ofNat (0xC0 + q.val) ∧ UInt8.ofNat (0xC0 + q.val) ≤ 0xDF) ∧
    Utf8.isCont (UInt8.ofNat (0xC0 + q.val)) = false := by
  decide +kernel

theorem enc3 : ∀ q1 : Fin 16, ∀ q2 : Fin 64, (q1.val = 0 → 32 ≤ q2.val) → (q1.val = 13 → q2.val < 32) →
    (0xE0 ≤ UInt8.ofNat (0xE0 + q1.val) ∧ UInt8.ofNat (0xE0 + q1.val) ≤ 0xEF) ∧
    sub3 (UInt8.ofNat (0xE0 + q1.val)) (UInt8.ofNat (0x80 + q2.val)) = true ∧
    Utf8.isCont (UInt8.ofNat (0xE0 + q1.val)) = false := by
  decide +kernel

theorem enc4 : ∀ q1 : Fin 5, ∀ q2 : Fin 64, (q1.val = 0 → 16 ≤ q2.val) → (q1.val = 4 → q2.val < 16) →
    (0xF0 ≤ UInt8.ofNat (0xF0 + q1.val) ∧ UInt8.ofNat (0xF0 + q1.val) ≤ 0xF4) ∧
    sub4 (UInt8.ofNat (0xF0 + q1.val)) (UInt8.ofNat (0x80 + q2.val)) = true ∧
    Utf8.isCont (UInt8.ofNat (0xF0 + q1.val)) = false := by
  decide +kernel

/-- **the encoding of a scalar value is valid UTF-8 and counts as one character** -/
theorem encode_valid_count (cp : Nat) (hs : Utf8.isScalar cp = true) :
    Utf8.valid (Utf8.encode cp) = true ∧ charCount (Utf8.encode cp) = 1 := by
  have hs' : cp < 0xD800 ∨ (0xE000 ≤ cp ∧ cp < 0x110000) := by
    simpa [Utf8.isScalar] using hs
  unfold Utf8.encode
  split
  · rename_i h
    exact enc1 ⟨cp, h⟩
  · rename_i h1
    split
    · rename_i h2
      have hq : cp / 64 < 32 := by omega
      have hr : cp % 64 < 64 := by omega
      obtain ⟨hrange, hnc⟩ := enc2 ⟨cp / 64, hq⟩ (by simp only []; omega)
      have ht := tail_cont ⟨cp % 64, hr⟩
      simp only [] at hrange hnc ht
      refine ⟨?_, ?_⟩
      · rw [valid2_unfold _ _ _ hrange, ht]; rfl
      · rw [charCount_cons_start _ _ hnc, charCount_cons_cont _ _ ht]; rfl
    · rename_i h2
      split
      · rename_i h3
        have hq1 : cp / 4096 < 16 := by omega
        have hq2 : cp / 64 % 64 < 64 := by omega
        have hr : cp % 64 < 64 := by omega
        obtain ⟨hrange, hsub, hnc⟩ := enc3 ⟨cp / 4096, hq1⟩ ⟨cp / 64 % 64, hq2⟩
          (by simp only []; omega) (by simp only []; omega)
        have ht1 := tail_cont ⟨cp / 64 % 64, hq2⟩
        have ht := tail_cont ⟨cp % 64, hr⟩
        simp only [] at hrange hsub hnc ht ht1
        refine ⟨?_, ?_⟩
        · rw [valid3_unfold _ _ _ _ hrange, hsub, ht]; rfl
        · rw [charCount_cons_start _ _ hnc, charCount_cons_cont _ _ ht1, charCount_cons_cont _ _ ht]; rfl
      · rename_i h3
        have hq1 : cp / 262144 < 5 := by omega
        have hq2 : cp / 4096 % 64 < 64 := by omega
        have hq3 : cp / 64 % 64 < 64 := by omega
        have hr : cp % 64 < 64 := by omega
        obtain ⟨hrange, hsub, hnc⟩ := enc4 ⟨cp / 262144, hq1⟩ ⟨cp / 4096 % 64, hq2⟩
          (by simp only []; omega) (by simp only []; omega)
        have ht1 := tail_cont ⟨cp / 4096 % 64, hq2⟩
        have ht2 := tail_cont ⟨cp / 64 % 64, hq3⟩
        have ht := tail_cont ⟨cp % 64, hr⟩
        simp only [] at hrange hsub hnc ht ht1 ht2
        refine ⟨?_, ?_⟩
        · rw [valid4_unfold _ _ _ _ _ hrange, hsub, ht2, ht]; rfl
        · rw [charCount_cons_start _ _ hnc, charCount_cons_cont _ _ ht1, charCount_cons_cont _ _ ht2,
            charCount_cons_cont _ _ ht]; rfl

/-- a text that is the concatenation of encoded scalar values is valid, and `charCount` counts the scalars -/
theorem flatMap_encode_valid_count (cps : List Nat) (hs : ∀ cp ∈ cps, Utf8.isScalar cp = true) :
    Utf8.valid (cps.flatMap Utf8.encode) = true ∧ charCount (cps.flatMap Utf8.encode) = cps.length := by
  induction cps with
  | nil => exact ⟨rfl, rfl⟩
  | cons cp rest ih =>
    have h1 := encode_valid_count cp (hs cp (by simp))
    have h2 := ih (fun c hc => hs c (List.mem_cons_of_mem _ hc))
    simp only [List.flatMap_cons, List.length_cons]
    refine ⟨?_, ?_⟩
    · rw [valid_append _ _ _ (Nat.le_refl _) h1.1]; exact h2.1
    · rw [charCount_append, h1.2, h2.2]; omega

end TomlVerif.Lemmas.ErrorPos15
