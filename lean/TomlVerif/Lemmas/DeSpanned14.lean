import TomlVerif.Model.DeSpanned
import TomlVerif.Lemmas.DeLocated15g
/-! Lemmas for Props/C14Spanned.lean: every range a `Spanned` delivers is the `item_span` of a node of the tree or the
    span of one of its keys. -/
namespace TomlVerif.Lemmas.DeSpanned14
open TomlVerif TomlVerif.Model TomlVerif.Model.DeTyped TomlVerif.Model.Cst TomlVerif.Model.DeLocated
open TomlVerif.Model.DeSpanned TomlVerif.Lemmas.DeLocated15 TomlVerif.Lemmas.Cst03

/-! ### the ranges in a result -/

def keyRanges : SKey → List Span
  | .str _ => []
  | .newtype k => keyRanges k
  | .spanned a b k => (a, b) :: keyRanges k

mutual
def ranges : SDec → List Span
  | .plain _ => []
  | .spanned a b d => (a, b) :: ranges d
  | .dflt => []
  | .none => []
  | .some d => ranges d
  | .newtype d => ranges d
  | .seq l => rangesL l
  | .map l => rangesM l
  | .struct l => rangesN l
  | .vUnit _ => []
  | .vNewtype _ d => ranges d
def rangesL : List SDec → List Span
  | [] => []
  | d :: r => ranges d ++ rangesL r
def rangesM : List (SKey × SDec) → List Span
  | [] => []
  | (k, d) :: r => keyRanges k ++ ranges d ++ rangesM r
def rangesN : List (Bytes × SDec) → List Span
  | [] => []
  | (_, d) :: r => ranges d ++ rangesN r
end

theorem mem_rangesL {s : Span} : ∀ {l : List SDec}, s ∈ rangesL l → ∃ d ∈ l, s ∈ ranges d
  | [], h => by simp [rangesL] at h
  | d :: r, h => by
    simp only [rangesL, List.mem_append] at h
    rcases h with h | h
    · exact ⟨d, List.mem_cons_self .., h⟩
    · obtain ⟨x, hx, hs⟩ := mem_rangesL h
      exact ⟨x, List.mem_cons_of_mem _ hx, hs⟩

theorem mem_rangesM {s : Span} : ∀ {l : List (SKey × SDec)}, s ∈ rangesM l → ∃ kd ∈ l, s ∈ keyRanges kd.1 ∨ s ∈ ranges kd.2
  | [], h => by simp [rangesM] at h
  | (k, d) :: r, h => by
    simp only [rangesM, List.mem_append] at h
    rcases h with (h | h) | h
    · exact ⟨(k, d), List.mem_cons_self .., Or.inl h⟩
    · exact ⟨(k, d), List.mem_cons_self .., Or.inr h⟩
    · obtain ⟨x, hx, hs⟩ := mem_rangesM h
      exact ⟨x, List.mem_cons_of_mem _ hx, hs⟩

theorem mem_rangesN {s : Span} : ∀ {l : List (Bytes × SDec)}, s ∈ rangesN l → ∃ kd ∈ l, s ∈ ranges kd.2
  | [], h => by simp [rangesN] at h
  | (k, d) :: r, h => by
    simp only [rangesN, List.mem_append] at h
    rcases h with h | h
    · exact ⟨(k, d), List.mem_cons_self .., h⟩
    · obtain ⟨x, hx, hs⟩ := mem_rangesN h
      exact ⟨x, List.mem_cons_of_mem _ hx, hs⟩

/-! ### the nodes of a tree -/

/-- `Sub it n`: `n` is `it` or a node below it (through table entries and array elements) -/
inductive Sub : CItem → CItem → Prop where
  | refl (it : CItem) : Sub it it
  | entry {it : CItem} {es : List (CKey × CItem)} {k : CKey} {v n : CItem} :
      citemEntries it = some es → (k, v) ∈ es → Sub v n → Sub it n
  | elem {it : CItem} {l : List CItem} {v n : CItem} : citemElems it = some l → v ∈ l → Sub v n → Sub it n

/-- a range is good for `it`: the `item_span` of a node of `it`, or the span of a key of a node of `it` -/
def Good (it : CItem) (s : Span) : Prop :=
  ∃ n, Sub it n ∧ (itemSpan n = some s ∨ ∃ es k v, citemEntries n = some es ∧ (k, v) ∈ es ∧ keySpan k = some s)

def GoodAll (it : CItem) (l : List Span) : Prop := ∀ s ∈ l, Good it s

theorem Good.entry {it v : CItem} {es : List (CKey × CItem)} {k : CKey} {s : Span}
    (hc : citemEntries it = some es) (hm : (k, v) ∈ es) (h : Good v s) : Good it s := by
  obtain ⟨n, hn, h⟩ := h
  exact ⟨n, .entry hc hm hn, h⟩

theorem Good.elem {it v : CItem} {l : List CItem} {s : Span}
    (hc : citemElems it = some l) (hm : v ∈ l) (h : Good v s) : Good it s := by
  obtain ⟨n, hn, h⟩ := h
  exact ⟨n, .elem hc hm hn, h⟩

/-! ### successes of the combinators -/

theorem atSpan_ok {α} (sp : Option Span) (x : LR α) (a : α) (h : atSpan sp x = .ok a) : x = .ok a := by
  cases x with
  | ok b => simpa [atSpan] using h
  | error e => simp [atSpan] at h

theorem inEntry_ok {α} (sp : Option Span) (k : Bytes) (x : LR α) (a : α) (h : inEntry sp k x = .ok a) : x = .ok a := by
  cases x with
  | ok b => simpa [inEntry] using h
  | error e => simp [inEntry] at h

theorem lmap_ok {α β} (f : α → β) (x : LR α) (b : β) (h : lmap f x = .ok b) : ∃ a, x = .ok a ∧ b = f a := by
  cases x with
  | ok a => simp only [lmap, Except.ok.injEq] at h; exact ⟨a, rfl, h.symm⟩
  | error e => simp [lmap] at h

theorem lcons_ok {α} (x : LR α) (l : LR (List α)) (r : List α) (h : lcons x l = .ok r) :
    ∃ a t, x = .ok a ∧ l = .ok t ∧ r = a :: t := by
  cases x with
  | error e => simp [lcons] at h
  | ok a =>
    cases l with
    | error e => simp [lcons] at h
    | ok t => simp only [lcons, Except.ok.injEq] at h; exact ⟨a, t, rfl, rfl, h.symm⟩

theorem mapL_ok {α β} (f : α → LR β) : ∀ (l : List α) (r : List β), mapL f l = .ok r → ∀ b ∈ r, ∃ a ∈ l, f a = .ok b
  | [], r, h, b, hb => by simp only [mapL, Except.ok.injEq] at h; subst h; cases hb
  | a :: t, r, h, b, hb => by
    obtain ⟨x, t', hx, ht, rfl⟩ := lcons_ok _ _ _ h
    rcases List.mem_cons.1 hb with hb | hb
    · subst hb; exact ⟨a, List.mem_cons_self .., hx⟩
    · obtain ⟨y, hy, hf⟩ := mapL_ok f t t' ht b hb
      exact ⟨y, List.mem_cons_of_mem _ hy, hf⟩

theorem walkG_ok {σ δ} (known : Bytes → Bool) (f : Bytes → σ → LR (Option δ)) :
    ∀ (es : List (Bytes × σ)) (seen : List Bytes) (ds : List (Bytes × δ)), walkG visitorErr known f seen es = .ok ds →
    ∀ kd ∈ ds, ∃ kv ∈ es, f kv.1 kv.2 = .ok (some kd.2)
  | [], _, ds, h, kd, hkd => by simp only [walkG, Except.ok.injEq] at h; subst h; cases hkd
  | (k, s) :: r, seen, ds, h, kd, hkd => by
    unfold walkG at h
    split at h
    · cases h
    · cases hf : f k s with
      | error e => rw [hf] at h; cases h
      | ok o =>
        rw [hf] at h
        cases o with
        | none =>
          obtain ⟨kv, hkv, hx⟩ := walkG_ok known f r seen ds h kd hkd
          exact ⟨kv, List.mem_cons_of_mem _ hkv, hx⟩
        | some d =>
          simp only [] at h
          cases hw : walkG visitorErr known f (k :: seen) r with
          | error e => rw [hw] at h; cases h
          | ok ds' =>
            rw [hw] at h
            simp only [Except.ok.injEq] at h
            subst h
            rcases List.mem_cons.1 hkd with hkd | hkd
            · subst hkd; exact ⟨(k, s), List.mem_cons_self .., hf⟩
            · obtain ⟨kv, hkv, hx⟩ := walkG_ok known f r (k :: seen) ds' hw kd hkd
              exact ⟨kv, List.mem_cons_of_mem _ hkv, hx⟩

theorem alookup_mem' {α} (k : Bytes) : ∀ (l : List (Bytes × α)) (v : α), alookup k l = some v → ∃ k', (k', v) ∈ l
  | [], v, h => by simp [alookup] at h
  | (k0, v0) :: r, v, h => by
    simp only [alookup] at h
    split at h
    · cases h; exact ⟨k0, List.mem_cons_self ..⟩
    · obtain ⟨k', hk⟩ := alookup_mem' k r v h
      exact ⟨k', List.mem_cons_of_mem _ hk⟩

/-- the fields filled in after the loop carry only the ranges of the decoded entries -/
theorem fillSp_ranges : ∀ (fs : SFields) (ds l : List (Bytes × SDec)), fillSp fs ds = .ok l →
    ∀ s ∈ rangesN l, s ∈ rangesN ds
  | .nil, ds, l, h, s, hs => by
    simp only [fillSp, Except.ok.injEq] at h; subst h; simp [rangesN] at hs
  | .cons name t dflt r, ds, l, h, s, hs => by
    unfold fillSp at h
    simp only [] at h
    split at h
    · cases h
    · rename_i x hx
      split at h
      · cases h
      · rename_i l' hl'
        simp only [Except.ok.injEq] at h
        subst h
        obtain ⟨n0, d0⟩ := x
        simp only [rangesN, List.mem_append] at hs
        rcases hs with hs | hs
        · -- the field itself
          split at hx
          · rename_i d hd
            simp only [Except.ok.injEq, Prod.mk.injEq] at hx
            obtain ⟨_, rfl⟩ := hx
            obtain ⟨k', hk'⟩ := alookup_mem' name ds d hd
            have : ∀ (l : List (Bytes × SDec)), (k', d) ∈ l → s ∈ rangesN l := by
              intro l hl
              induction l with
              | nil => cases hl
              | cons y ys ih =>
                obtain ⟨ky, dy⟩ := y
                simp only [rangesN, List.mem_append]
                rcases List.mem_cons.1 hl with h1 | h1
                · cases h1; exact Or.inl hs
                · exact Or.inr (ih h1)
            exact this ds hk'
          · split at hx
            · simp only [Except.ok.injEq, Prod.mk.injEq] at hx
              obtain ⟨_, rfl⟩ := hx
              simp [ranges] at hs
            · split at hx
              · rename_i d hm
                simp only [Except.ok.injEq, Prod.mk.injEq] at hx
                obtain ⟨_, rfl⟩ := hx
                unfold missingSp at hm
                split at hm
                · cases hm; simp [ranges] at hs
                · cases hm; simp [ranges] at hs
                · cases hm
              · cases hx
        · exact fillSp_ranges r ds l' hl' s hs

/-! ### `item_span` finds a recorded span -/

theorem cover_some {a b : Option Span} {s : Span} (h : cover a b = some s) : a.isSome = true ∨ b.isSome = true := by
  cases a <;> cases b <;> simp_all [cover]

theorem keyRanges_none (kt : KeyTy) (k : Bytes) : ∀ key, decodeKey kt k none = .ok key → keyRanges key = [] := by
  induction kt with
  | string => intro key h; simp only [decodeKey, Except.ok.injEq] at h; subst h; rfl
  | newtype kt ih =>
    intro key h
    obtain ⟨a, ha, rfl⟩ := lmap_ok _ _ _ h
    simpa [keyRanges] using ih a ha
  | spanned kt _ => intro key h; simp [decodeKey, vfail] at h

theorem keyRanges_of (kt : KeyTy) (k : Bytes) (sp : Option Span) : ∀ key, decodeKey kt k sp = .ok key →
    ∀ s ∈ keyRanges key, sp = some s := by
  induction kt with
  | string => intro key h; simp only [decodeKey, Except.ok.injEq] at h; subst h; simp [keyRanges]
  | newtype kt ih =>
    intro key h
    obtain ⟨a, ha, rfl⟩ := lmap_ok _ _ _ h
    simpa [keyRanges] using ih a ha
  | spanned kt _ =>
    intro key h
    cases sp with
    | none => simp [decodeKey, vfail] at h
    | some ab =>
      obtain ⟨a, b⟩ := ab
      obtain ⟨x, hx, rfl⟩ := lmap_ok _ _ _ h
      intro s hs
      simp only [keyRanges, List.mem_cons, keyRanges_none kt k x hx, List.not_mem_nil, or_false] at hs
      rw [hs]

end TomlVerif.Lemmas.DeSpanned14
