import TomlVerif.Lemmas.Sound01Ast
import TomlVerif.Lemmas.Value01
import TomlVerif.Props.C02Strings
/-! Soundness of the trivia and key parsers: what `dropWs`, `wsCommentNewline`, `simpleKey`, `keyPath`
    consume is the rendering of well-formed syntax (converse of `wcn_exact`, `keyPath_dotted`). -/
namespace TomlVerif.Lemmas.Sound01
open TomlVerif TomlVerif.Spec TomlVerif.Model TomlVerif.Model.Strings TomlVerif.Model.Value
open TomlVerif.Spec.AstValue TomlVerif.Spec.AstValueQ TomlVerif.Lemmas.Value01

/-! ## blanks -/

theorem dropWs_split (s : Bytes) :
    ∃ w, AllWs w ∧ s = w ++ dropWs s ∧ ∀ b r, dropWs s = b :: r → isWschar b = false := by
  induction s with
  | nil => exact ⟨[], (fun b hb => by cases hb), rfl, by intro b r h; cases h⟩
  | cons c s ih =>
    by_cases hc : isWschar c = true
    · obtain ⟨w, hw, e, hh⟩ := ih
      refine ⟨c :: w, ?_, ?_, ?_⟩
      · intro b hb
        rcases List.mem_cons.1 hb with rfl | hb
        · exact hc
        · exact hw b hb
      · simp only [dropWs, hc, if_true, List.cons_append]; rw [← e]
      · simpa only [dropWs, hc, if_true] using hh
    · have hc' : isWschar c = false := by simpa using hc
      refine ⟨[], (fun b hb => by cases hb), by simp [dropWs, hc'], ?_⟩
      intro b r h
      simp only [dropWs, hc'] at h
      injection h with h1 _
      rw [← h1]; exact hc'

theorem dropWs_length (s : Bytes) : (dropWs s).length ≤ s.length := by
  obtain ⟨w, _, e, _⟩ := dropWs_split s
  have := congrArg List.length e
  simp at this; omega

theorem dropComment_split (s : Bytes) :
    ∃ body, (∀ b ∈ body, isNonEol b = true) ∧ s = body ++ dropComment s := by
  induction s with
  | nil => exact ⟨[], (fun b hb => by cases hb), rfl⟩
  | cons c s ih =>
    by_cases hc : isNonEol c = true
    · obtain ⟨w, hw, e⟩ := ih
      refine ⟨c :: w, ?_, ?_⟩
      · intro b hb
        rcases List.mem_cons.1 hb with rfl | hb
        · exact hc
        · exact hw b hb
      · simp only [dropComment, hc, if_true, List.cons_append]; rw [← e]
    · have hc' : isNonEol c = false := by simpa using hc
      exact ⟨[], (fun b hb => by cases hb), by simp [dropComment, hc']⟩

theorem newline_split (s r : Bytes) (h : newline? s = some r) : ∃ c, s = nlBytes c ++ r := by
  unfold newline? at h
  split at h
  · injection h with h; subst h; exact ⟨false, rfl⟩
  · injection h with h; subst h; exact ⟨true, rfl⟩
  · cases h

theorem wcnWF_cons (p : Piece) (w : Wcn) (hp : p.WF) (hw : WcnWF w) : WcnWF (p :: w) := by
  intro q hq
  rcases List.mem_cons.1 hq with rfl | hq
  · exact hp
  · exact hw q hq

theorem wcnWF_nil : WcnWF [] := by intro q hq; cases hq

theorem not_trivia_of (b : UInt8) (h1 : isWschar b = false) (h2 : (b == 0x23) = false)
    (h3 : (b == 0x0A || b == 0x0D) = false) : isTrivia b = false := by
  simp only [Bool.or_eq_false_iff] at h3
  simp [isTrivia, h1, h2, h3.1, h3.2]

/-- **(a) trivia, soundness**: whatever `ws_comment_newline` consumes is the rendering of well-formed trivia
    pieces; with the fuel the callers pass (`input.length + 1`) nothing that starts trivia is left -/
theorem wcn_sound : ∀ (fuel : Nat) (s r : Bytes), wsCommentNewline fuel s = some r →
    ∃ w : Wcn, WcnWF w ∧ s = renderWcn w ++ r ∧ (s.length < fuel → NoTriviaHead r) := by
  intro fuel
  induction fuel with
  | zero =>
    intro s r h
    simp only [wsCommentNewline] at h
    injection h with h; subst h
    exact ⟨[], wcnWF_nil, rfl, by intro h; simp at h⟩
  | succ f ih =>
    intro s r h
    obtain ⟨ws, hws, es, hhd⟩ := dropWs_split s
    unfold wsCommentNewline at h
    simp only [] at h
    have hpw : (Piece.ws ws).WF := hws
    split at h
    · rename_i hs1
      injection h with h; subst h
      refine ⟨[.ws ws], wcnWF_cons _ _ hpw wcnWF_nil, ?_, fun _ => by rw [hs1]; trivial⟩
      rw [hs1] at es
      simpa [renderWcn, Piece.render, hs1] using es
    · rename_i b r0 hs1
      have hbw := hhd b r0 hs1
      split at h
      · rename_i hb
        have hb' : b = 0x23 := by simpa using hb
        subst hb'
        split at h
        · rename_i r' hnl
          obtain ⟨body, hbody, eb⟩ := dropComment_split r0
          obtain ⟨c, ec⟩ := newline_split _ _ hnl
          obtain ⟨w, hw, e, hnt⟩ := ih r' r h
          have hs : s = ws ++ (0x23 :: (body ++ nlBytes c) ++ r') := by
            rw [es, hs1]; congr 1
            simp only [List.cons_append, List.append_assoc]
            rw [← ec, ← eb]
          refine ⟨.ws ws :: .comment body c :: w, wcnWF_cons _ _ hpw (wcnWF_cons _ _ hbody hw), ?_, ?_⟩
          · rw [hs, e]; simp [renderWcn, Piece.render]
          · intro hl
            apply hnt
            have := congrArg List.length hs
            simp at this; omega
        · cases h
      · rename_i hb
        split at h
        · rename_i hb2
          split at h
          · rename_i r' hnl
            obtain ⟨c, ec⟩ := newline_split _ _ hnl
            obtain ⟨w, hw, e, hnt⟩ := ih r' r h
            have hs : s = ws ++ (nlBytes c ++ r') := by rw [← ec]; exact es
            refine ⟨.ws ws :: .nl c :: w, wcnWF_cons _ _ hpw (wcnWF_cons _ _ trivial hw), ?_, ?_⟩
            · rw [hs, e]; simp [renderWcn, Piece.render]
            · intro hl
              apply hnt
              have := congrArg List.length hs
              have hc : 0 < (nlBytes c).length := by cases c <;> simp [nlBytes]
              simp at this; omega
          · cases h
        · rename_i hb2
          injection h with h; subst h
          refine ⟨[.ws ws], wcnWF_cons _ _ hpw wcnWF_nil, ?_, fun _ => ?_⟩
          · rw [hs1] at es
            simpa [renderWcn, Piece.render, hs1] using es
          · rw [hs1]
            exact not_trivia_of b hbw (by simpa using hb) (by simpa using hb2)

/-! ## keys -/

theorem takeUnquoted_spec (s : Bytes) :
    (∀ b ∈ (Key.takeUnquoted s).1, isUnquotedChar b = true) ∧ s = (Key.takeUnquoted s).1 ++ (Key.takeUnquoted s).2 := by
  induction s with
  | nil => simp [Key.takeUnquoted]
  | cons b r ih =>
    by_cases hb : isUnquotedChar b = true
    · simp only [Key.takeUnquoted, hb, if_true]
      refine ⟨?_, by simp; exact ih.2⟩
      intro c hc
      rcases List.mem_cons.1 hc with rfl | hc
      · exact hb
      · exact ih.1 c hc
    · simp [Key.takeUnquoted, hb]

/-- `simple_key` accepts only `quoted-key / unquoted-key` and decodes it as specified -/
theorem simpleKey_sound (s k r : Bytes) (h : Key.simpleKey s = .ok k r) :
    ∃ raw, s = raw ++ r ∧ KeyText raw k := by
  unfold Key.simpleKey at h
  split at h
  · cases h
  · rename_i b t
    split at h
    · obtain ⟨cs, hw, e, hv⟩ := TomlVerif.Props.C02Strings.T02_basic_sound _ _ _ h
      exact ⟨_, e, Or.inr (Or.inl ⟨cs, hw, rfl, hv⟩)⟩
    · split at h
      · obtain ⟨hw, e⟩ := TomlVerif.Props.C02Strings.T02_literal_sound _ _ _ h
        exact ⟨_, e, Or.inr (Or.inr ⟨hw, rfl⟩)⟩
      · unfold Key.unquotedKey at h
        have hsp := takeUnquoted_spec (b :: t)
        split at h
        · cases h
        · rename_i k' r' hne heq
          injection h with h1 h2
          subst h1 h2
          rw [heq] at hsp
          refine ⟨k', hsp.2, Or.inl ⟨rfl, ?_, hsp.1⟩⟩
          exact fun hk => hne hk

theorem keyPathAux_sound : ∀ (fuel : Nat) (s : Bytes) (acc ks : List Bytes) (r : Bytes),
    keyPathAux fuel s acc = .ok ks r →
    ∃ (first : QKey) (more : List QKey), first.WF ∧ (∀ x ∈ more, x.WF) ∧
      s = first.render ++ (renderQKeySep more ++ r) ∧ ks = acc ++ first.key :: more.map QKey.key := by
  intro fuel
  induction fuel with
  | zero => intro s acc ks r h; simp [keyPathAux] at h
  | succ f ih =>
    intro s acc ks r h
    obtain ⟨pre, hpre, es, _⟩ := dropWs_split s
    unfold keyPathAux at h
    split at h
    · rename_i k r0 hk
      obtain ⟨raw, eraw, hkt⟩ := simpleKey_sound _ _ _ hk
      obtain ⟨post, hpost, er0, _⟩ := dropWs_split r0
      simp only [] at h
      have hone : ∀ r1, dropWs r0 = r1 →
          s = (QKey.mk pre raw k post).render ++ (renderQKeySep [] ++ r1) := by
        intro r1 e1
        rw [es, eraw, er0, e1]; simp [QKey.render, renderQKeySep]
      split at h
      · rename_i r2 hr1
        cases hrec : keyPathAux f r2 (acc ++ [k]) with
        | bt =>
          rw [hrec] at h
          simp only [] at h
          injection h with h1 h2
          subst h1
          refine ⟨⟨pre, raw, k, post⟩, [], ⟨hpre, hpost, hkt⟩, (fun x hx => by cases hx), ?_, by simp⟩
          rw [← h2]; exact hone _ rfl
        | cut => rw [hrec] at h; simp at h
        | ok ks' r' =>
          rw [hrec] at h
          simp only [] at h
          injection h with h1 h2
          subst h1 h2
          obtain ⟨first', more', hf', hm', e', eks⟩ := ih _ _ _ _ hrec
          refine ⟨⟨pre, raw, k, post⟩, first' :: more', ⟨hpre, hpost, hkt⟩, ?_, ?_, ?_⟩
          · intro x hx
            rcases List.mem_cons.1 hx with rfl | hx
            · exact hf'
            · exact hm' x hx
          · rw [es, eraw, er0, hr1, e']; simp [QKey.render, renderQKeySep]
          · rw [eks]; simp
      · injection h with h1 h2
        subst h1
        refine ⟨⟨pre, raw, k, post⟩, [], ⟨hpre, hpost, hkt⟩, (fun x hx => by cases hx), ?_, by simp⟩
        rw [← h2]; exact hone _ rfl
    · cases h
    · cases h

/-- `key` accepts only `ws simple-key ws *( "." ws simple-key ws )` with fewer than `LIMIT` components -/
theorem keyPath_sound (s : Bytes) (ks : List Bytes) (r : Bytes) (h : keyPath s = .ok ks r) :
    ∃ k : QDKey, k.WF ∧ s = k.render ++ r ∧ k.keys = ks := by
  unfold keyPath at h
  split at h
  · rename_i ks' r' hk
    split at h
    · cases h
    · rename_i hl
      injection h with h1 h2
      subst h1 h2
      obtain ⟨first, more, hf, hm, e, eks⟩ := keyPathAux_sound _ _ _ _ _ hk
      refine ⟨⟨first, more⟩, ⟨hf, hm, ?_⟩, by simp [QDKey.render, e], by simp [QDKey.keys, eks]⟩
      rw [eks] at hl
      simp at hl
      omega
  · rename_i hne
    exact absurd h (by intro h'; exact hne _ _ h')

end TomlVerif.Lemmas.Sound01
