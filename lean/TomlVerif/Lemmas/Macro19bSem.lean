import TomlVerif.Lemmas.Macro19bSim
/-! C19: the macro's fold over a statement list (`refRun`) builds the table the parser's state machine builds
    (`run` / `intoDocument`), up to the order of keys (`Sim`). -/
namespace TomlVerif.Lemmas.Macro19b
open TomlVerif TomlVerif.Model TomlVerif.Model.Macro TomlVerif.Model.State TomlVerif.Lemmas.State09

/-! ## `modifyAt` decomposed: entering a value as a table, one key step, a path to a table -/

/-- the entries of a value used as a table (`if !is_table() { *cur = Table::new() }`) -/
def normT : MVal → List (Bytes × MVal)
  | .tbl its => its
  | _ => []

/-- `entry(key).or_insert(Table::new())` -/
def childOf (key : Bytes) (t : MVal) : MVal := (alookup key (normT t)).getD emptyTbl

/-- hand `H` the table a traversal step works on: the value itself made a table, or the last element of an
    array made a table -/
def enterT (cur : MVal) (H : MVal → Option MVal) : Option MVal :=
  match cur with
  | .arr items =>
    match items.getLast? with
    | none => none
    | some last => (H (.tbl (normT last))).map fun c => .arr (items.dropLast ++ [c])
  | other => H (.tbl (normT other))

/-- one key of the path, inside a table -/
def stepT (key : Bytes) (K : MVal → Option MVal) : MVal → Option MVal := fun t =>
  (K (childOf key t)).map fun c => .tbl (aset key c (normT t))

/-- follow a path like `modifyAt`, but also enter the value found at its end as a table and apply `H` to that
    table (this is what `descend` does on the parser side) -/
def modT : List Bytes → (MVal → Option MVal) → MVal → Option MVal
  | [], H, cur => enterT cur H
  | key :: rest, H, cur => enterT cur (stepT key (modT rest H))

theorem enterT_tbl (its : List (Bytes × MVal)) (H : MVal → Option MVal) : enterT (.tbl its) H = H (.tbl its) := rfl

theorem modifyAt_cons (cur : MVal) (key : Bytes) (rest : List Bytes) (f : MVal → MVal) :
    modifyAt cur (key :: rest) f = enterT cur (stepT key (fun c => modifyAt c rest f)) := by
  cases cur with
  | arr items =>
    simp only [modifyAt, enterT]
    cases items.getLast? with
    | none => rfl
    | some last =>
      simp only [stepT, childOf, normT]
      cases last <;> (split <;> simp_all)
  | tbl its =>
    simp only [modifyAt, enterT, stepT, childOf, normT]
    split <;> simp_all
  | str s =>
    simp only [modifyAt, enterT, stepT, childOf, normT, alookup, Option.getD_none, aset, List.nil_append]
    split <;> simp_all
  | int s =>
    simp only [modifyAt, enterT, stepT, childOf, normT, alookup, Option.getD_none, aset, List.nil_append]
    split <;> simp_all
  | float s =>
    simp only [modifyAt, enterT, stepT, childOf, normT, alookup, Option.getD_none, aset, List.nil_append]
    split <;> simp_all
  | bool s =>
    simp only [modifyAt, enterT, stepT, childOf, normT, alookup, Option.getD_none, aset, List.nil_append]
    split <;> simp_all
  | dt s =>
    simp only [modifyAt, enterT, stepT, childOf, normT, alookup, Option.getD_none, aset, List.nil_append]
    split <;> simp_all


theorem enterT_idem (cur : MVal) (X : MVal → Option MVal) : enterT cur (fun t => enterT t X) = enterT cur X := by
  cases cur <;> rfl

/-- splitting a path: the front part is followed by `modT`, which hands the table reached to the rest -/
theorem modifyAt_append (pp : List Bytes) (key : Bytes) (rest : List Bytes) (f : MVal → MVal) (cur : MVal) :
    modifyAt cur (pp ++ key :: rest) f = modT pp (fun t => modifyAt t (key :: rest) f) cur := by
  induction pp generalizing cur with
  | nil =>
    simp only [List.nil_append, modT]
    have : (fun t => modifyAt t (key :: rest) f) = fun t => enterT t (stepT key (fun c => modifyAt c rest f)) :=
      funext fun t => modifyAt_cons t key rest f
    rw [this, enterT_idem, modifyAt_cons]
  | cons k ks ih =>
    rw [List.cons_append, modifyAt_cons, modT]
    have : (fun c => modifyAt c (ks ++ key :: rest) f) = modT ks (fun t => modifyAt t (key :: rest) f) :=
      funext fun c => ih c
    rw [this]

/-- in front of an array `modT` works on its last element -/
theorem modT_arr (ks : List Bytes) (H : MVal → Option MVal) (xs : List MVal) (its : List (Bytes × MVal)) :
    modT ks H (.arr (xs ++ [.tbl its])) = (modT ks H (.tbl its)).map fun c => .arr (xs ++ [c]) := by
  cases ks with
  | nil => simp [modT, enterT, normT]
  | cons k r => simp [modT, enterT, normT]

/-! ## the image of the parser's tree -/

theorem tblM_eq (t : Tbl) : tblM t = .tbl (itemsM t.items) := by
  cases t; simp [tblM, Tbl.items]

theorem itemM_table (t : Tbl) : itemM (.table t) = tblM t := by simp [itemM]
theorem itemM_aot (ts : List Tbl) : itemM (.aot ts) = .arr (tblsM ts) := by simp [itemM]
theorem itemM_value (v : Val) : itemM (.value v) = valM v := by simp [itemM]

theorem itemsM_nil : itemsM [] = [] := by simp [itemsM]
theorem itemsM_cons (k : Bytes) (i : Item) (r : List (Bytes × Item)) : itemsM ((k, i) :: r) = (k, itemM i) :: itemsM r := by
  simp [itemsM]
theorem tblsM_nil : tblsM [] = [] := by simp [tblsM]
theorem tblsM_cons (t : Tbl) (r : List Tbl) : tblsM (t :: r) = tblM t :: tblsM r := by simp [tblsM]

theorem tblM_empty : tblM Tbl.empty = emptyTbl := by simp [tblM_eq, Tbl.empty, Tbl.items, itemsM_nil, emptyTbl]
theorem tblM_newImplicit (d : Bool) : tblM (newImplicit d) = emptyTbl := by
  simp [tblM_eq, newImplicit, Tbl.items, itemsM_nil, emptyTbl]
theorem tblM_of_items_nil (t : Tbl) (h : t.items = []) : tblM t = emptyTbl := by
  simp [tblM_eq, h, itemsM_nil, emptyTbl]
theorem tblM_setItems (t : Tbl) (l : List (Bytes × Item)) : tblM (t.setItems l) = .tbl (itemsM l) := by
  simp [tblM_eq]
theorem tblM_congr_items (t u : Tbl) (h : t.items = u.items) : tblM t = tblM u := by
  rw [tblM_eq, tblM_eq, h]

theorem alookup_itemsM (k : Bytes) (l : List (Bytes × Item)) : alookup k (itemsM l) = (alookup k l).map itemM := by
  induction l with
  | nil => simp [itemsM_nil, alookup]
  | cons p r ih =>
    obtain ⟨k', i⟩ := p
    rw [itemsM_cons]
    by_cases hk : k' = k
    · simp [alookup, hk]
    · simp [alookup, hk, ih]

theorem itemsM_append (a b : List (Bytes × Item)) : itemsM (a ++ b) = itemsM a ++ itemsM b := by
  induction a with
  | nil => simp [itemsM_nil]
  | cons p r ih => obtain ⟨k', i⟩ := p; simp [itemsM_cons, ih]

theorem itemsM_keys (l : List (Bytes × Item)) : (itemsM l).map Prod.fst = l.map Prod.fst := by
  induction l with
  | nil => simp [itemsM_nil]
  | cons p r ih => obtain ⟨k', i⟩ := p; simp [itemsM_cons, ih]

theorem itemsM_areplace (k : Bytes) (i : Item) (l : List (Bytes × Item)) :
    itemsM (areplace k i l) = areplace k (itemM i) (itemsM l) := by
  induction l with
  | nil => simp [itemsM_nil, areplace]
  | cons p r ih =>
    obtain ⟨k', i'⟩ := p
    by_cases hk : k' = k
    · simp [areplace, hk, itemsM_cons]
    · simp [areplace, hk, itemsM_cons, ih]

theorem itemsM_aerase (k : Bytes) (l : List (Bytes × Item)) : itemsM (aerase k l) = aerase k (itemsM l) := by
  induction l with
  | nil => simp [itemsM_nil, aerase]
  | cons p r ih =>
    obtain ⟨k', i'⟩ := p
    by_cases hk : k' = k
    · simp [aerase, hk, itemsM_cons]
    · simp [aerase, hk, itemsM_cons, ih]

theorem itemsM_aset (k : Bytes) (i : Item) (l : List (Bytes × Item)) :
    itemsM (aset k i l) = aset k (itemM i) (itemsM l) := by
  unfold aset
  rw [alookup_itemsM]
  cases alookup k l with
  | none => simp [itemsM_append, itemsM_cons, itemsM_nil]
  | some x => simp [itemsM_areplace]

theorem tblsM_append (a b : List Tbl) : tblsM (a ++ b) = tblsM a ++ tblsM b := by
  induction a with
  | nil => simp [tblsM_nil]
  | cons t r ih => simp [tblsM_cons, ih]

theorem tblsM_snoc (a : List Tbl) (l : Tbl) : tblsM (a ++ [l]) = tblsM a ++ [tblM l] := by
  simp [tblsM_append, tblsM_cons, tblsM_nil]

theorem childOf_tblM (k : Bytes) (t : Tbl) (d : Bool) :
    childOf k (tblM t) = itemM ((alookup k t.items).getD (.table (newImplicit d))) := by
  rw [tblM_eq]
  simp only [childOf, normT, alookup_itemsM]
  cases alookup k t.items with
  | none => simp [itemM_table, tblM_newImplicit]
  | some i => simp


/-! ## the traversal respects `Sim` -/

/-- `X` is defined wherever `X'` is, on related arguments, with related results -/
def Resp (X X' : MVal → Option MVal) : Prop :=
  ∀ t t', Sim t t' → ∀ r', X' t' = some r' → ∃ r, X t = some r ∧ Sim r r'

theorem normT_sim (a b : MVal) (h : Sim a b) : Sim (.tbl (normT a)) (.tbl (normT b)) := by
  rcases sim_cases a b h with ⟨xs, ys, ea, eb, _⟩ | ⟨xs, ys, ea, eb, _⟩ | ⟨_, e⟩
  · subst ea; subst eb; exact h
  · subst ea; subst eb; exact sim_refl _
  · subst e; exact sim_refl _

theorem childOf_sim (key : Bytes) (a b : MVal) (h : Sim a b) : Sim (childOf key a) (childOf key b) :=
  sim_lookup_getD key _ _ (normT_sim a b h)

theorem enterT_sim (X X' : MVal → Option MVal) (hX : Resp X X') :
    Resp (fun c => enterT c X) (fun c => enterT c X') := by
  intro cur cur' hs r' hr
  rcases sim_cases cur cur' hs with ⟨xs, ys, ea, eb, _⟩ | ⟨xs, ys, ea, eb, hl⟩ | ⟨hsc, e⟩
  · subst ea; subst eb
    exact hX _ _ hs r' hr
  · subst ea; subst eb
    rcases listRel_snoc_cases xs ys hl with ⟨e1, e2⟩ | ⟨xi, a, yi, b, e1, e2, hi, hab⟩
    · subst e1; subst e2
      simp [enterT] at hr
    · subst e1; subst e2
      simp only [enterT, List.getLast?_append, List.getLast?_singleton, Option.some_or, List.dropLast_concat] at hr ⊢
      cases hx : X' (.tbl (normT b)) with
      | none => simp [hx] at hr
      | some c' =>
        simp [hx] at hr
        obtain ⟨c, hc, hcc⟩ := hX _ _ (normT_sim a b hab) c' hx
        refine ⟨.arr (xi ++ [c]), by simp [hc], ?_⟩
        subst hr
        exact sim_arr_snoc _ _ _ _ hi hcc
  · subst e
    have hn : enterT cur X' = X' (.tbl (normT cur)) := by cases cur <;> first | rfl | cases hsc
    have hn' : enterT cur X = X (.tbl (normT cur)) := by cases cur <;> first | rfl | cases hsc
    simp only [hn] at hr
    simp only [hn']
    exact hX _ _ (sim_refl _) r' hr

theorem stepT_sim (key : Bytes) (K K' : MVal → Option MVal) (hK : Resp K K') :
    Resp (stepT key K) (stepT key K') := by
  intro t t' hs r' hr
  simp only [stepT] at hr ⊢
  cases hk : K' (childOf key t') with
  | none => simp [hk] at hr
  | some c' =>
    simp [hk] at hr
    obtain ⟨c, hc, hcc⟩ := hK _ _ (childOf_sim key t t' hs) c' hk
    refine ⟨.tbl (aset key c (normT t)), by simp [hc], ?_⟩
    subst hr
    exact sim_aset key c c' _ _ (normT_sim t t' hs) hcc

/-- L1: `modifyAt` on related roots, with an update that respects `Sim` -/
theorem modifyAt_sim (p : List Bytes) (g : MVal → MVal) (hg : ∀ a a', Sim a a' → Sim (g a) (g a')) :
    Resp (fun m => modifyAt m p g) (fun m => modifyAt m p g) := by
  induction p with
  | nil =>
    intro m m' hs r' hr
    simp only [modifyAt, Option.some.injEq] at hr ⊢
    subst hr
    exact ⟨_, rfl, hg _ _ hs⟩
  | cons k ks ih =>
    intro m m' hs r' hr
    simp only [modifyAt_cons] at hr ⊢
    exact enterT_sim _ _ (stepT_sim k _ _ ih) m m' hs r' hr

/-! ## L2: `descend` on the parser's tree is `modT` on its image -/

theorem descend_modT (pp : List Bytes) (d : Bool) (F : Tbl → Option Tbl) (H : MVal → Option MVal) (t t' : Tbl)
    (h : descend t pp d F = some t')
    (hF : ∀ u', F (target t pp d) = some u' → ∃ x, H (tblM (target t pp d)) = some x ∧ Sim x (tblM u')) :
    ∃ r, modT pp H (tblM t) = some r ∧ Sim r (tblM t') := by
  induction pp generalizing t t' with
  | nil =>
    have e : target t [] d = t := by simp [target, lookupTbl]
    rw [e] at hF
    obtain ⟨x, hx, hs⟩ := hF t' (by simpa [descend] using h)
    refine ⟨x, ?_, hs⟩
    rw [modT, tblM_eq, enterT_tbl, ← tblM_eq]; exact hx
  | cons k ks ih =>
    have hm : modT (k :: ks) H (tblM t) =
        (modT ks H (childOf k (tblM t))).map fun c => .tbl (aset k c (itemsM t.items)) := by
      rw [modT, tblM_eq, enterT_tbl]; rfl
    rcases descend_cons_some t t' k ks d F h with ⟨sub, sub', he, _, hs, ht⟩ | ⟨init, l, l', ha, hca, hs, ht⟩
    · rw [target_cons_table t sub k ks d he] at hF
      obtain ⟨r, hr, hsim⟩ := ih sub sub' hs hF
      rw [hm, childOf_tblM k t d, he, itemM_table, hr]
      refine ⟨_, rfl, ?_⟩
      subst ht
      rw [tblM_setItems, itemsM_aset, itemM_table]
      exact sim_aset k r (tblM sub') _ _ (sim_refl _) hsim
    · rw [target_cons_aot t l init k ks d ha] at hF
      obtain ⟨r, hr, hsim⟩ := ih l l' hs hF
      rw [hm, childOf_tblM k t d, ha, Option.getD_some, itemM_aot, tblsM_snoc, tblM_eq l, modT_arr, ← tblM_eq l, hr]
      refine ⟨_, rfl, ?_⟩
      subst ht
      rw [tblM_setItems, itemsM_aset, itemM_aot, tblsM_snoc]
      exact sim_aset k _ _ _ _ (sim_refl _) (sim_arr_snoc _ _ _ _ (listRel_refl sim_refl _) hsim)

/-- two runs of `descend` along the same header path from the same tree: the second result is `modT` of the
    first one when that holds at the table reached -/
theorem descend_two (pp : List Bytes) (F0 F1 : Tbl → Option Tbl) (H : MVal → Option MVal) (t r0 r1 : Tbl)
    (h0 : descend t pp false F0 = some r0) (h1 : descend t pp false F1 = some r1)
    (hF : ∀ u0 u1, F0 (target t pp false) = some u0 → F1 (target t pp false) = some u1 →
      ∃ x, H (tblM u0) = some x ∧ Sim x (tblM u1)) :
    ∃ r, modT pp H (tblM r0) = some r ∧ Sim r (tblM r1) := by
  obtain ⟨u0, hu0, hl0⟩ := descend_spec _ _ _ _ _ h0
  obtain ⟨u1, hu1, _⟩ := descend_spec _ _ _ _ _ h1
  have ht0 : target r0 pp false = u0 := by simp [target, hl0]
  have h2 : descend r0 pp false (fun _ => some u1) = some r1 := by
    rw [descend_descend _ _ _ _ (fun _ => some u1) h0, ← h1]
    apply descend_congr
    simp [hu0, hu1]
  apply descend_modT pp false _ H r0 r1 h2
  intro u' hu'
  simp only [Option.some.injEq] at hu'
  subst hu'
  rw [ht0]
  exact hF u0 u1 hu0 hu1


/-! ## the three updates of the macro -/

/-- `table_toml`: keep a table, replace anything else by an empty table -/
def keepF : MVal → MVal := fun t => match t with | .tbl _ => t | _ => emptyTbl

/-- `push_toml`: append an empty table to an array, replace anything else by a one-element array -/
def pushF : MVal → MVal := fun t => match t with | .arr items => .arr (items ++ [emptyTbl]) | _ => .arr [emptyTbl]

theorem headerTable_true (root : MVal) (p : List Bytes) : headerTable true root p = modifyAt root p keepF := rfl
theorem pushToml_eq (root : MVal) (p : List Bytes) : pushToml root p = modifyAt root p pushF := rfl

theorem keepF_sim (a b : MVal) (h : Sim a b) : Sim (keepF a) (keepF b) := by
  rcases sim_cases a b h with ⟨xs, ys, ea, eb, _⟩ | ⟨xs, ys, ea, eb, _⟩ | ⟨hsc, e⟩
  · subst ea; subst eb; exact h
  · subst ea; subst eb; exact sim_refl _
  · subst e; exact sim_refl _

theorem pushF_sim (a b : MVal) (h : Sim a b) : Sim (pushF a) (pushF b) := by
  rcases sim_cases a b h with ⟨xs, ys, ea, eb, _⟩ | ⟨xs, ys, ea, eb, hl⟩ | ⟨hsc, e⟩
  · subst ea; subst eb; exact sim_refl _
  · subst ea; subst eb; exact sim_arr_snoc _ _ _ _ hl (sim_refl _)
  · subst e; exact sim_refl _

theorem modifyAt_single (its : List (Bytes × MVal)) (key : Bytes) (g : MVal → MVal) :
    modifyAt (.tbl its) [key] g = some (.tbl (aset key (g ((alookup key its).getD emptyTbl)) its)) := by
  simp [modifyAt]

theorem modifyAt_tbl_cons (its : List (Bytes × MVal)) (key : Bytes) (q : List Bytes) (g : MVal → MVal) :
    modifyAt (.tbl its) (key :: q) g =
      (modifyAt ((alookup key its).getD emptyTbl) q g).map fun c => .tbl (aset key c its) := by
  rw [modifyAt_cons, enterT_tbl]; rfl

theorem modifyAt_arr_snoc (xs : List MVal) (its : List (Bytes × MVal)) (q : List Bytes) (g : MVal → MVal)
    (hq : q ≠ []) :
    modifyAt (.arr (xs ++ [.tbl its])) q g = (modifyAt (.tbl its) q g).map fun c => .arr (xs ++ [c]) := by
  cases q with
  | nil => exact absurd rfl hq
  | cons k r =>
    rw [modifyAt_cons, modifyAt_cons, enterT_tbl]
    simp [enterT, normT]

/-! ## local steps on the parser side -/

/-- the table reached by a key/value statement gets the new entry -/
theorem kv_cur (cur c : Tbl) (p : List Bytes) (k : Bytes) (v : Val)
    (h : descend cur p true (kvF p k v) = some c) :
    ∃ r, modifyAt (tblM cur) (p ++ [k]) (fun _ => valM v) = some r ∧ Sim r (tblM c) := by
  rw [modifyAt_append p k [] _ _]
  apply descend_modT p true _ _ cur c h
  intro u' hu
  obtain ⟨hn, e, _⟩ := kvF_some _ _ _ _ _ hu
  subst e
  refine ⟨_, ?_, sim_refl _⟩
  rw [tblM_eq, tblM_setItems, itemsM_append, itemsM_cons, itemsM_nil, itemM_value, modifyAt_single,
    aset_of_none _ _ _ (by rw [alookup_itemsM, hn]; rfl)]

/-- an update below the entry `key` of a table -/
theorem modify_under_key (key : Bytes) (q : List Bytes) (g : MVal → MVal) (items : List (Bytes × Item))
    (i0 i1 : Item) (tgt : Tbl) (h : ∃ y, modifyAt (itemM i0) q g = some y ∧ Sim y (itemM i1)) :
    ∃ x, modifyAt (tblM (tgt.setItems (aset key i0 items))) (key :: q) g = some x ∧
      Sim x (tblM (tgt.setItems (aset key i1 items))) := by
  obtain ⟨y, hy, hs⟩ := h
  rw [tblM_setItems, tblM_setItems, modifyAt_tbl_cons, itemsM_aset, alookup_aset_same, Option.getD_some, hy]
  refine ⟨_, rfl, ?_⟩
  show Sim (MVal.tbl (aset key y (aset key (itemM i0) (itemsM items)))) _
  rw [aset_aset, itemsM_aset]
  exact sim_aset key _ _ _ _ (sim_refl _) hs

theorem finStdF_aset (key : Bytes) (table u u' : Tbl) (h : finStdF key table u = some u') :
    u' = u.setItems (aset key (.table table) u.items) := by
  rcases finStdF_some _ _ _ _ h with ⟨hn, e⟩ | ⟨t0, ha, _, e⟩
  · rw [aset_of_none _ _ _ hn]; exact e
  · rw [aset_of_some _ _ _ _ ha]; exact e

/-- closing the section with the extended table instead of the old one -/
theorem kv_fin_local (isArr : Bool) (key : Bytes) (cur c tgt u0 u1 : Tbl) (q : List Bytes) (g : MVal → MVal)
    (hq : q ≠ []) (hc : ∃ r, modifyAt (tblM cur) q g = some r ∧ Sim r (tblM c))
    (h0 : finF isArr key cur tgt = some u0) (h1 : finF isArr key c tgt = some u1) :
    ∃ x, modifyAt (tblM u0) (key :: q) g = some x ∧ Sim x (tblM u1) := by
  unfold finF at h0 h1
  cases isArr with
  | false =>
    simp only [Bool.false_eq_true, if_false] at h0 h1
    rw [finStdF_aset _ _ _ _ h0, finStdF_aset _ _ _ _ h1]
    apply modify_under_key
    rw [itemM_table, itemM_table]
    exact hc
  | true =>
    simp only [if_true] at h0 h1
    obtain ⟨ts, he, e0⟩ := finArrF_some _ _ _ _ h0
    obtain ⟨ts', he', e1⟩ := finArrF_some _ _ _ _ h1
    rw [he] at he'
    injection he' with he'
    subst he'
    rw [e0, e1]
    apply modify_under_key
    obtain ⟨r, hr, hs⟩ := hc
    rw [itemM_aot, itemM_aot, tblsM_snoc, tblsM_snoc, tblM_eq cur, modifyAt_arr_snoc _ _ _ _ hq, ← tblM_eq cur, hr]
    exact ⟨_, rfl, sim_arr_snoc _ _ _ _ (listRel_refl sim_refl _) hs⟩

/-- `[t]`: the parser erases the key and appends the section; the macro keeps the entry where it is -/
theorem std_local (key : Bytes) (tgt cur1 : Tbl) (hn : (tgt.items.map Prod.fst).Nodup)
    (hp : (alookup key tgt.items = none ∧ cur1.items = []) ∨
      ∃ t0, alookup key tgt.items = some (.table t0) ∧ cur1.items = t0.items) :
    ∃ x, modifyAt (tblM tgt) [key] keepF = some x ∧
      Sim x (tblM (tgt.setItems (aerase key tgt.items ++ [(key, .table cur1)]))) := by
  have hk : keepF ((alookup key (itemsM tgt.items)).getD emptyTbl) = tblM cur1 := by
    rw [alookup_itemsM]
    rcases hp with ⟨ha, hc⟩ | ⟨t0, ha, hc⟩
    · rw [ha, tblM_of_items_nil cur1 hc]; rfl
    · rw [ha, tblM_eq cur1, hc, ← tblM_eq t0]
      simp only [Option.map_some, Option.getD_some, itemM_table]
      rw [tblM_eq t0]; rfl
  rw [tblM_eq tgt, modifyAt_single, hk]
  refine ⟨_, rfl, ?_⟩
  rw [tblM_setItems, itemsM_append, itemsM_aerase, itemsM_cons, itemsM_nil, itemM_table]
  exact sim_erase_append key (tblM cur1) (itemsM tgt.items) (by rw [itemsM_keys]; exact hn)

/-- `[[t]]`: a new empty element at the end of the array (created if absent) -/
theorem arr_local (key : Bytes) (tgt cur1 u1 u2 : Tbl) (hc : cur1.items = [])
    (h1 : arrStartF key tgt = some u1) (h2 : finArrF key cur1 u1 = some u2) :
    modifyAt (tblM tgt) [key] pushF = some (tblM u2) := by
  have hce := tblM_of_items_nil cur1 hc
  unfold arrStartF at h1
  split at h1
  · rename_i ts ha
    simp only [Option.some.injEq] at h1
    subst h1
    obtain ⟨ts', he, e⟩ := finArrF_some _ _ _ _ h2
    rw [ha] at he
    simp only [Option.getD_some, Item.aot.injEq] at he
    subst he
    rw [e, tblM_eq tgt, modifyAt_single, tblM_setItems, itemsM_aset, alookup_itemsM, ha, itemM_aot, tblsM_snoc, hce]
    rfl
  · simp at h1
  · rename_i hn
    simp only [Option.some.injEq] at h1
    subst h1
    obtain ⟨ts', he, e⟩ := finArrF_some _ _ _ _ h2
    simp only [items_setItems, alookup_append_new _ _ _ hn, Option.getD_some, Item.aot.injEq] at he
    subst he
    rw [e, tblM_eq tgt, modifyAt_single, tblM_setItems, alookup_itemsM, hn]
    simp only [items_setItems, List.nil_append]
    rw [aset_of_some _ _ _ _ (alookup_append_new _ _ _ hn), areplace_append_new _ _ _ _ hn,
      aset_of_none _ _ _ (by rw [alookup_itemsM, hn]; rfl), itemsM_append, itemsM_cons, itemsM_nil, itemM_aot,
      tblsM_cons, tblsM_nil, hce]
    rfl


/-! ## one statement, seen on the document "as if the input ended here" -/

theorem kv_view (st st1 sf sf1 : ParseState) (p : List Bytes) (k : Bytes) (v : Val)
    (h : onKeyval st p k v = some st1) (hf : finalizeTable st = some sf) (hf1 : finalizeTable st1 = some sf1) :
    ∃ r, modifyAt (tblM sf.root) (st.currentPath ++ (p ++ [k])) (fun _ => valM v) = some r ∧
      Sim r (tblM sf1.root) := by
  obtain ⟨c, hd, hst⟩ := onKeyval_some st st1 p k v h
  subst hst
  have hc := kv_cur _ _ _ _ _ hd
  rcases finalizeTable_some st sf hf with ⟨hp, he, e⟩ | ⟨pp, key, root', hp, hdd, e⟩
  · subst e
    rcases finalizeTable_some _ sf1 hf1 with ⟨_, _, e1⟩ | ⟨pp, key, root', hp1, _, _⟩
    · subst e1
      rw [hp, List.nil_append]
      exact hc
    · simp only [hp] at hp1
      simp at hp1
  · subst e
    rw [finalizeTable_of_path { st with current := c } pp key hp] at hf1
    cases hd1 : descend st.root pp false (finF st.currentIsArray key c) with
    | none => simp [hd1] at hf1
    | some root1 =>
      simp only [hd1, Option.map_some, Option.some.injEq] at hf1
      subst hf1
      rw [hp, List.append_assoc, List.singleton_append, modifyAt_append pp key (p ++ [k])]
      exact descend_two pp _ _ _ st.root root' root1 hdd hd1 fun u0 u1 h0 h1 =>
        kv_fin_local _ key st.current c _ u0 u1 (p ++ [k]) _ (by simp) hc h0 h1

theorem std_view (sf st1 sf1 : ParseState) (path : List Bytes)
    (hw : WF sf.root) (hcur : sf.current = Tbl.empty) (h : startTable sf path = some st1)
    (hf1 : finalizeTable st1 = some sf1) :
    ∃ r, modifyAt (tblM sf.root) path keepF = some r ∧ Sim r (tblM sf1.root) := by
  obtain ⟨pp, key, r0, root1, hp, hprobe, herase, hst⟩ := startTable_some sf st1 path h
  have hwp : WF (target sf.root pp false) := wf_target _ _ _ hw
  have hnd := wf_nodup _ hwp
  obtain ⟨_, hpf, _⟩ := descend_spec _ _ _ _ _ hprobe
  have hprobe' := probeF_some _ _ _ hpf
  have hbase : (alookup key (target sf.root pp false).items = none ∧
        ((startTable.find key sf.root pp).getD sf.current).items = []) ∨
      ∃ t0, alookup key (target sf.root pp false).items = some (.table t0) ∧
        ((startTable.find key sf.root pp).getD sf.current).items = t0.items := by
    rcases hprobe' with hn | ⟨t0, ha, _, _⟩
    · left
      refine ⟨hn, ?_⟩
      rw [find_eq, hcur]
      cases hl : lookupTbl sf.root pp with
      | none => rfl
      | some u =>
        have : target sf.root pp false = u := by simp [target, hl]
        rw [this] at hn
        simp [tableAt, hn]; rfl
    · right
      refine ⟨t0, ha, ?_⟩
      have hl := target_items_some _ _ _ _ _ ha
      rw [find_eq, hl]
      simp [tableAt, ha]
  have hvac : alookup key (aerase key (target sf.root pp false).items) = none := alookup_aerase_same _ _ hnd
  rw [finalizeTable_of_path st1 pp key (by rw [hst]; exact hp)] at hf1
  have e1 : st1.root = root1 := by rw [hst]
  have e2 : st1.currentIsArray = false := by rw [hst]
  have e3 : st1.current = .mk ((startTable.find key sf.root pp).getD sf.current).items false false
      (some (sf.position + 1)) := by rw [hst]
  rw [e1, e2, e3, descend_descend _ _ _ _ _ herase] at hf1
  generalize hc1 : Tbl.mk ((startTable.find key sf.root pp).getD sf.current).items false false
      (some (sf.position + 1)) = cur1 at hf1
  have hci : cur1.items = ((startTable.find key sf.root pp).getD sf.current).items := by rw [← hc1]; rfl
  rw [← hci] at hbase
  cases hb : descend sf.root pp false (fun u => (eraseF key u).bind (finF false key cur1)) with
  | none => simp [hb] at hf1
  | some b =>
    simp only [hb, Option.map_some, Option.some.injEq] at hf1
    have : sf1.root = b := by rw [← hf1]
    rw [this, hp, modifyAt_append pp key []]
    apply descend_modT pp false _ _ sf.root b hb
    intro u' hu
    simp [eraseF, finF, finStdF, hvac, setItems_setItems] at hu
    subst hu
    exact std_local key _ cur1 hnd hbase

theorem arr_view (sf st1 sf1 : ParseState) (path : List Bytes)
    (hcur : sf.current = Tbl.empty) (h : startArrayTable sf path = some st1)
    (hf1 : finalizeTable st1 = some sf1) :
    ∃ r, modifyAt (tblM sf.root) path pushF = some r ∧ Sim r (tblM sf1.root) := by
  obtain ⟨pp, key, root1, hp, hd, hst⟩ := startArrayTable_some sf st1 path h
  rw [finalizeTable_of_path st1 pp key (by rw [hst]; exact hp)] at hf1
  have e1 : st1.root = root1 := by rw [hst]
  have e2 : st1.currentIsArray = true := by rw [hst]
  have e3 : st1.current = .mk sf.current.items false false (some (sf.position + 1)) := by rw [hst]
  rw [e1, e2, e3, descend_descend _ _ _ _ _ hd] at hf1
  generalize hc1 : Tbl.mk sf.current.items false false (some (sf.position + 1)) = cur1 at hf1
  have hci : cur1.items = [] := by rw [← hc1, hcur]; rfl
  cases hb : descend sf.root pp false (fun u => (arrStartF key u).bind (finF true key cur1)) with
  | none => simp [hb] at hf1
  | some b =>
    simp only [hb, Option.map_some, Option.some.injEq] at hf1
    have : sf1.root = b := by rw [← hf1]
    rw [this, hp, modifyAt_append pp key []]
    apply descend_modT pp false _ _ sf.root b hb
    intro u' hu
    cases h1 : arrStartF key (target sf.root pp false) with
    | none => simp [h1] at hu
    | some u1 =>
      simp only [h1, Option.bind_some, finF, if_true] at hu
      exact ⟨_, arr_local key _ cur1 u1 u' hci h1 hu, sim_refl _⟩

/-! ## the simulation -/

/-- the macro's state `(root, path)` matches the parser's state: same current header path, and the root is the
    document the parser would produce if the input ended here -/
structure Rel (st : ParseState) (ms : MState) : Prop where
  path : ms.2 = st.currentPath
  inv : Inv st
  view : ∃ sf, finalizeTable st = some sf ∧ Sim ms.1 (tblM sf.root)

theorem rel_init : Rel {} (emptyTbl, []) :=
  ⟨rfl, inv_init, ⟨_, rfl, sim_of_eq tblM_empty.symm⟩⟩

theorem startTable_path (sf st1 : ParseState) (p : List Bytes) (h : startTable sf p = some st1) :
    st1.currentPath = p := by
  obtain ⟨pp, key, r0, root1, hp, _, _, hst⟩ := startTable_some sf st1 p h
  rw [hst]

theorem startArrayTable_path (sf st1 : ParseState) (p : List Bytes) (h : startArrayTable sf p = some st1) :
    st1.currentPath = p := by
  obtain ⟨pp, key, root1, hp, _, hst⟩ := startArrayTable_some sf st1 p h
  rw [hst]

theorem step_sim (st st1 : ParseState) (ms : MState) (s : Stmt) (hr : Rel st ms) (h : step st s = some st1) :
    ∃ ms1, refStep true ms s = some ms1 ∧ Rel st1 ms1 := by
  obtain ⟨m, path⟩ := ms
  obtain ⟨hpath, hi, sf, hf, hsim⟩ := hr
  simp only at hpath hsim
  obtain ⟨sf1, hf1, _, hi1⟩ := step_view st st1 sf s hi h hf
  have hw := finalize_wf st sf hi hf
  have hc := (finalize_fields st sf hf).1
  cases s with
  | kv p k v =>
    simp only [step] at h
    obtain ⟨r', hr', hs'⟩ := kv_view st st1 sf sf1 p k v h hf hf1
    obtain ⟨r, hr, hs⟩ := modifyAt_sim _ _ (fun _ _ _ => sim_refl _) m _ hsim r' hr'
    simp only at hr
    refine ⟨(r, path), ?_, ?_, hi1, sf1, hf1, sim_trans hs hs'⟩
    · simp only [refStep, insertToml, hpath, hr, Option.map_some]
    · obtain ⟨c, _, hst⟩ := onKeyval_some st st1 p k v h
      rw [hst]; exact hpath
  | std p =>
    simp only [step, onStdHeader, hf] at h
    obtain ⟨r', hr', hs'⟩ := std_view sf st1 sf1 p hw hc h hf1
    obtain ⟨r, hr, hs⟩ := modifyAt_sim _ _ keepF_sim m _ hsim r' hr'
    simp only at hr
    refine ⟨(r, p), ?_, ?_, hi1, sf1, hf1, sim_trans hs hs'⟩
    · simp only [refStep, headerTable_true, hr, Option.map_some]
    · exact (startTable_path sf st1 p h).symm
  | arr p =>
    simp only [step, onArrayHeader, hf] at h
    obtain ⟨r', hr', hs'⟩ := arr_view sf st1 sf1 p hc h hf1
    obtain ⟨r, hr, hs⟩ := modifyAt_sim _ _ pushF_sim m _ hsim r' hr'
    simp only at hr
    refine ⟨(r, p), ?_, ?_, hi1, sf1, hf1, sim_trans hs hs'⟩
    · simp only [refStep, pushToml_eq, hr, Option.map_some]
    · exact (startArrayTable_path sf st1 p h).symm

theorem run_sim (ss : List Stmt) (st st' : ParseState) (ms : MState) (hr : Rel st ms) (h : run st ss = some st') :
    ∃ ms', refRunFrom true ms ss = some ms' ∧ Rel st' ms' := by
  induction ss generalizing st ms with
  | nil =>
    simp only [State09.run, Option.some.injEq] at h
    subst h
    exact ⟨ms, rfl, hr⟩
  | cons s r ih =>
    rw [State09.run] at h
    cases hs : step st s with
    | none => simp [hs] at h
    | some st1 =>
      simp only [hs] at h
      obtain ⟨ms1, h1, hr1⟩ := step_sim st st1 ms s hr hs
      obtain ⟨ms', h2, hr'⟩ := ih st1 ms1 hr1 h
      exact ⟨ms', by simp only [refRunFrom, h1, h2], hr'⟩

/-- MAIN: whenever the parser's state machine accepts a statement list and yields the document `d`, the macro's
    fold over the same statements does not panic and builds the same table, up to the order of keys. -/
theorem refRun_agrees (ss : List Stmt) (st : ParseState) (d : Tbl)
    (h : run {} ss = some st) (hd : intoDocument st = some d) :
    ∃ m, refRun true ss = some m ∧ Sim m (tblM d) := by
  obtain ⟨ms, hm, _, _, sf, hf, hs⟩ := run_sim ss {} st (emptyTbl, []) rel_init h
  refine ⟨ms.1, by simp only [refRun, hm, Option.map_some], ?_⟩
  simp only [intoDocument, hf, Option.map_some, Option.some.injEq] at hd
  subst hd
  exact hs

end TomlVerif.Lemmas.Macro19b

/-! ## the hypotheses are satisfiable; the order of keys can differ -/
namespace TomlVerif.Lemmas.Macro19b
open TomlVerif TomlVerif.Model TomlVerif.Model.Macro TomlVerif.Model.State TomlVerif.Lemmas.State09

section Examples
private def ka : Bytes := [0x61]
private def kb : Bytes := [0x62]
private def kc : Bytes := [0x63]
private def kx : Bytes := [0x78]
private def ky : Bytes := [0x79]

/-- the keys of a table value, in insertion order -/
def topKeys : MVal → List Bytes
  | .tbl its => its.map Prod.fst
  | _ => []

/-- `[a.b] x = 1 [a] y = 2` (the F8 shape: a super-table after its sub-table) -/
private def docF8 : List Stmt := [.std [ka, kb], .kv [] kx (.int 1), .std [ka], .kv [] ky (.int 2)]
/-- `[a.b] x = 1 [c] [a] y = 2`: the parser re-inserts `a` after `c`, the macro keeps it in front -/
private def docOrder : List Stmt := [.std [ka, kb], .kv [] kx (.int 1), .std [kc], .std [ka], .kv [] ky (.int 2)]
/-- `[[a.b]] [a] y = 2 [[a.b]] [a.b.c] x.y = 1` -/
private def docAot : List Stmt :=
  [.arr [ka, kb], .std [ka], .kv [] ky (.int 2), .arr [ka, kb], .std [ka, kb, kc], .kv [kx] ky (.int 1)]

example : ((State09.run {} docF8).bind intoDocument).isSome = true := by decide +kernel
example : ((State09.run {} docOrder).bind intoDocument).isSome = true := by decide +kernel
example : ((State09.run {} docAot).bind intoDocument).isSome = true := by decide +kernel
example : (refRun true docF8).isSome = true := by decide +kernel
example : (refRun true docAot).isSome = true := by decide +kernel
/-- same keys, different order: only `Sim`, not equality, can hold in `refRun_agrees` -/
example : (refRun true docOrder).map topKeys = some [ka, kc] := by decide +kernel
example : ((State09.run {} docOrder).bind intoDocument).map (fun d => topKeys (tblM d)) = some [kc, ka] := by decide +kernel
end Examples

end TomlVerif.Lemmas.Macro19b

