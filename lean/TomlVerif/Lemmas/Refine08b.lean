import TomlVerif.Lemmas.RefineOps08
/-! Refinement lemmas for the four ops `T08_refine` (Props/C08.lean) leaves out: `viv`, `arr2aot`,
    `mv` (lookup on the plain tree, two paths) and `sort` (under a side condition on the node). -/
namespace TomlVerif.Lemmas.Refine08b
open TomlVerif TomlVerif.Model TomlVerif.Model.Cst TomlVerif.Model.Edit TomlVerif.Lemmas.Edit08
open TomlVerif.Lemmas.Refine08 TomlVerif.Lemmas.RefineOps08 TomlVerif.Spec.OrderedPlain

/-! ### lookup on the plain tree -/

/-- the plain content of a node -/
def plainN : Node → Plain
  | .tbl t => plainT t
  | .val v => plainV v
  | .aot ts _ => plainA ts

theorem plainI_nodeItem (n : Node) : plainI (nodeItem n) = plainN n := by
  cases n <;> simp [nodeItem, plainI, plainN, plainT, plainV, plainA, eraseItem, itemToPlain]

mutual
/-- the node a path leads to in a plain tree: tables select by key, arrays by index -/
def plook : List Seg → Plain → Option Plain
  | [], x => some x
  | _ :: _, .scalar _ => none
  | s :: r, .arr xs =>
    match s.idx with
    | some i => plookNth i r xs
    | none => none
  | s :: r, .tbl es =>
    match s.key with
    | some k => plookKey k r es
    | none => none
def plookNth : Nat → List Seg → List Plain → Option Plain
  | _, _, [] => none
  | 0, r, x :: _ => plook r x
  | i + 1, r, _ :: rest => plookNth i r rest
def plookKey (k : Bytes) : List Seg → List (Bytes × Plain) → Option Plain
  | _, [] => none
  | r, (k', x) :: rest => if k' == k then plook r x else plookKey k r rest
end

mutual
theorem look_val : ∀ (p : List Seg) (v : CVal) (n : Node), lookupVal p v = some n →
    plook p (plainV v) = some (plainN n)
  | [], v, n, h => by
    simp only [lookupVal, Option.some.injEq] at h; subst h; simp [plook, plainN]
  | _ :: _, .scalar _ _ _, _, h => by simp [lookupVal] at h
  | s :: r, .arr items tr c d sp, n, h => by
    simp only [lookupVal] at h
    cases hi : s.idx with
    | none => simp [hi] at h
    | some i =>
      simp only [hi] at h
      have ih := look_elems i r items n h
      simp [plainV, eraseVal, valToPlain, plook, hi, ih]
  | s :: r, .inl items pre imp dot d sp, n, h => by
    simp only [lookupVal] at h
    cases hi : s.key with
    | none => simp [hi] at h
    | some k =>
      simp only [hi] at h
      have ih := look_kvs k r items n h
      simp [plainV, eraseVal, valToPlain, plook, hi, ih]
theorem look_elems : ∀ (i : Nat) (r : List Seg) (items : List CVal) (n : Node),
    lookupElems i r items = some n → plookNth i r (valsToPlain (eraseVals items)) = some (plainN n)
  | _, _, [], _, h => by simp [lookupElems] at h
  | 0, r, v :: rest, n, h => by
    simp only [lookupElems] at h
    have ih := look_val r v n h
    simp only [plainV] at ih
    simp [eraseVals, valsToPlain, plookNth, ih]
  | i + 1, r, v :: rest, n, h => by
    simp only [lookupElems] at h
    have ih := look_elems i r rest n h
    simp [eraseVals, valsToPlain, plookNth, ih]
theorem look_kvs (k : Bytes) : ∀ (r : List Seg) (items : List (CKey × CVal)) (n : Node),
    lookupKvs k r items = some n → plookKey k r (valEntriesToPlain (eraseKvs items)) = some (plainN n)
  | _, [], _, h => by simp [lookupKvs] at h
  | r, (k', v) :: rest, n, h => by
    simp only [lookupKvs] at h
    by_cases hk : (k'.key == k) = true
    · simp only [hk, if_true] at h
      have ih := look_val r v n h
      simp only [plainV] at ih
      simp [eraseKvs, valEntriesToPlain, plookKey, hk, ih]
    · have hk' : (k'.key == k) = false := by simpa using hk
      simp only [hk', Bool.false_eq_true, if_false] at h
      have ih := look_kvs k r rest n h
      simp [eraseKvs, valEntriesToPlain, plookKey, hk', ih]
end

mutual
theorem look_tbl : ∀ (p : List Seg) (t : CTbl) (n : Node), lookupTbl p t = some n →
    plook p (plainT t) = some (plainN n)
  | [], t, n, h => by
    simp only [lookupTbl, Option.some.injEq] at h; subst h; simp [plook, plainN]
  | s :: r, .mk items imp dot ps dec sp, n, h => by
    simp only [lookupTbl] at h
    cases hi : s.key with
    | none => simp [hi] at h
    | some k =>
      simp only [hi] at h
      have ih := look_items k r items n h
      simp [plainT, eraseTbl, toPlain, plook, hi, ih]
theorem look_items (k : Bytes) : ∀ (r : List Seg) (items : List (CKey × CItem)) (n : Node),
    lookupItems k r items = some n → plookKey k r (itemEntriesToPlain (eraseItems items)) = some (plainN n)
  | _, [], _, h => by simp [lookupItems] at h
  | r, (k', it) :: rest, n, h => by
    simp only [lookupItems] at h
    by_cases hk : (k'.key == k) = true
    · simp only [hk, if_true] at h
      have ih := look_item r it n h
      simp only [plainI] at ih
      simp [eraseItems, itemEntriesToPlain, plookKey, hk, ih]
    · have hk' : (k'.key == k) = false := by simpa using hk
      simp only [hk', Bool.false_eq_true, if_false] at h
      have ih := look_items k r rest n h
      simp [eraseItems, itemEntriesToPlain, plookKey, hk', ih]
theorem look_item : ∀ (r : List Seg) (it : CItem) (n : Node), lookupItem r it = some n →
    plook r (plainI it) = some (plainN n)
  | r, .value v, n, h => by
    simp only [lookupItem] at h
    have ih := look_val r v n h
    simpa [plainI, plainV, eraseItem, itemToPlain] using ih
  | r, .table t, n, h => by
    simp only [lookupItem] at h
    have ih := look_tbl r t n h
    simpa [plainI, plainT, eraseItem, itemToPlain] using ih
  | [], .aot ts sp, n, h => by
    simp only [lookupItem, Option.some.injEq] at h; subst h
    simp [plainI, plainN, plainA, eraseItem, itemToPlain, plook]
  | s :: r, .aot ts sp, n, h => by
    simp only [lookupItem] at h
    cases hi : s.idx with
    | none => simp [hi] at h
    | some i =>
      simp only [hi] at h
      have ih := look_nth i r ts n h
      simp [plainI, eraseItem, itemToPlain, plook, hi, ih]
theorem look_nth : ∀ (i : Nat) (r : List Seg) (ts : List CTbl) (n : Node),
    lookupNth i r ts = some n → plookNth i r (tblsToPlain (eraseTbls ts)) = some (plainN n)
  | _, _, [], _, h => by simp [lookupNth] at h
  | 0, r, t :: rest, n, h => by
    simp only [lookupNth] at h
    have ih := look_tbl r t n h
    simp only [plainT] at ih
    simp [eraseTbls, tblsToPlain, plookNth, ih]
  | i + 1, r, t :: rest, n, h => by
    simp only [lookupNth] at h
    have ih := look_nth i r rest n h
    simp [eraseTbls, tblsToPlain, plookNth, ih]
end

/-! ### `mv` -/

/-- `mv P K P2` on the plain tree: the entry `K` of the table at `P` is removed and inserted (in
    place or appended) under `K` into the table at `P2`, `P2` resolved after the removal -/
def pMv (k : Bytes) (p p2 : List Seg) (x : Plain) : Option Plain :=
  match plook (p ++ [keySeg k]) x with
  | none => none
  | some n => (pupd (pDel k) p x).bind (pupd (pSet k n) p2)

theorem refines_put (k : Bytes) (kr sp : Raw) (it : CItem) :
    Refines ⟨tblPut k kr it, inlPut k kr sp it, noAot⟩ (pSet k (plainI it)) where
  tbl t t' h := plain_tblPut k kr it t t' h
  val x x' h := by
    simp only at h
    cases x with
    | inl items pre imp dot d s =>
      simp only [inlPut, Option.some.injEq] at h
      subst h
      have e := plain_itemToVal sp it
      simp only [plainV] at e
      simp only [plainV, eraseVal, valToPlain, pSet, erase_cinsert_kvs, ← ainsert_eq_aset]
      rw [plain_ainsert_kvs]
      simp [newKey, e]
    | scalar _ _ _ => simp [inlPut] at h
    | arr _ _ _ _ _ => simp [inlPut] at h
  aot ts ts' h := by simp [noAot] at h

theorem refine_mv (k : Bytes) (kr sp : Raw) (p p2 : List Seg) (root r : CTbl)
    (h : mvTree k kr sp p p2 root = some r) : pMv k p p2 (plainT root) = some (plainT r) := by
  unfold mvTree at h
  split at h
  · cases h
  · rename_i n hn
    split at h
    · cases h
    · rename_i r1 h1
      have e1 := look_tbl _ _ _ hn
      have e2 := refine_tbl (refines_del k []) p root r1 h1
      have e3 := refine_tbl (refines_put k kr sp (nodeItem n)) p2 r1 r h
      rw [plainI_nodeItem] at e3
      simp [pMv, e1, e2, e3]

/-! ### `viv` -/

/-- `table[k1][k2] = x` on the plain tree -/
def pViv (k1 k2 : Bytes) (x : Plain) : Plain → Option Plain
  | .tbl es =>
    match alookup k1 es with
    | none => some (.tbl (es ++ [(k1, .tbl [(k2, x)])]))
    | some (.tbl sub) => some (.tbl (areplace k1 (.tbl (aset k2 x sub)) es))
    | some _ => none
  | _ => none

theorem plain_lookup_items_none (k : Bytes) : ∀ (l : List (CKey × CItem)), clookup k l = none →
    alookup k (itemEntriesToPlain (eraseItems l)) = none
  | [], _ => by simp [eraseItems, itemEntriesToPlain, alookup]
  | (k', v) :: r, h => by
    by_cases hk : (k'.key == k) = true
    · simp [clookup, hk] at h
    · have hk' : (k'.key == k) = false := by simpa using hk
      simp only [clookup, hk', Bool.false_eq_true, if_false] at h
      simp [eraseItems, itemEntriesToPlain, alookup, hk', plain_lookup_items_none k r h]

theorem plain_lookup_kvs_none (k : Bytes) : ∀ (l : List (CKey × CVal)), clookup k l = none →
    alookup k (valEntriesToPlain (eraseKvs l)) = none
  | [], _ => by simp [eraseKvs, valEntriesToPlain, alookup]
  | (k', v) :: r, h => by
    by_cases hk : (k'.key == k) = true
    · simp [clookup, hk] at h
    · have hk' : (k'.key == k) = false := by simpa using hk
      simp only [clookup, hk', Bool.false_eq_true, if_false] at h
      simp [eraseKvs, valEntriesToPlain, alookup, hk', plain_lookup_kvs_none k r h]

theorem plain_creplace_items (k : Bytes) (it : CItem) : ∀ l : List (CKey × CItem),
    itemEntriesToPlain (eraseItems (creplace k it l)) = areplace k (plainI it) (itemEntriesToPlain (eraseItems l))
  | [] => by simp [creplace, eraseItems, itemEntriesToPlain, areplace]
  | (k', v) :: r => by
    by_cases hk : (k'.key == k) = true
    · simp [creplace, eraseItems, itemEntriesToPlain, areplace, hk, plainI]
    · have hk' : (k'.key == k) = false := by simpa using hk
      simp [creplace, eraseItems, itemEntriesToPlain, areplace, hk', plain_creplace_items k it r]

theorem plain_creplace_kvs (k : Bytes) (v : CVal) : ∀ l : List (CKey × CVal),
    valEntriesToPlain (eraseKvs (creplace k v l)) = areplace k (plainV v) (valEntriesToPlain (eraseKvs l))
  | [] => by simp [creplace, eraseKvs, valEntriesToPlain, areplace]
  | (k', v') :: r => by
    by_cases hk : (k'.key == k) = true
    · simp [creplace, eraseKvs, valEntriesToPlain, areplace, hk, plainV]
    · have hk' : (k'.key == k) = false := by simpa using hk
      simp [creplace, eraseKvs, valEntriesToPlain, areplace, hk', plain_creplace_kvs k v r]

theorem itemEntriesToPlain_append : ∀ (l m : List (Bytes × Item)),
    itemEntriesToPlain (l ++ m) = itemEntriesToPlain l ++ itemEntriesToPlain m
  | [], m => rfl
  | (k, v) :: r, m => by simp [itemEntriesToPlain, itemEntriesToPlain_append r m]

theorem valEntriesToPlain_append : ∀ (l m : List (Bytes × Val)),
    valEntriesToPlain (l ++ m) = valEntriesToPlain l ++ valEntriesToPlain m
  | [], m => rfl
  | (k, v) :: r, m => by simp [valEntriesToPlain, valEntriesToPlain_append r m]

theorem eraseItems_append : ∀ (l m : List (CKey × CItem)), eraseItems (l ++ m) = eraseItems l ++ eraseItems m
  | [], m => rfl
  | (k, v) :: r, m => by simp [eraseItems, eraseItems_append r m]

theorem eraseKvs_append : ∀ (l m : List (CKey × CVal)), eraseKvs (l ++ m) = eraseKvs l ++ eraseKvs m
  | [], m => rfl
  | (k, v) :: r, m => by simp [eraseKvs, eraseKvs_append r m]

/-- `cset` (occupied entry keeps its stored key; vacant: appended) is `aset` on the plain entries -/
theorem plain_cset_items (k : CKey) (it : CItem) (l : List (CKey × CItem)) :
    itemEntriesToPlain (eraseItems (cset k it l)) = aset k.key (plainI it) (itemEntriesToPlain (eraseItems l)) := by
  unfold cset aset
  cases h : clookup k.key l with
  | none =>
    simp only [plain_lookup_items_none k.key l h, eraseItems_append, itemEntriesToPlain_append]
    simp [eraseItems, itemEntriesToPlain, plainI]
  | some x =>
    simp only [plain_lookup_items k.key l x h, plain_creplace_items]

theorem plain_cset_kvs (k : CKey) (v : CVal) (l : List (CKey × CVal)) :
    valEntriesToPlain (eraseKvs (cset k v l)) = aset k.key (plainV v) (valEntriesToPlain (eraseKvs l)) := by
  unfold cset aset
  cases h : clookup k.key l with
  | none =>
    simp only [plain_lookup_kvs_none k.key l h, eraseKvs_append, valEntriesToPlain_append]
    simp [eraseKvs, valEntriesToPlain, plainV]
  | some x =>
    simp only [plain_lookup_kvs k.key l x h, plain_creplace_kvs]

theorem refines_viv (k1 k2 : Bytes) (v : Sc) (rs : List Raw) :
    Refines ((Op.viv k1 k2 v).upd rs) (pViv k1 k2 (.scalar (leaf v))) where
  tbl t t' h := by
    simp only [Op.upd, tblViv] at h
    have e : ∀ r, valToPlain (eraseVal (newScalar v r)) = .scalar (leaf v) := fun r => plainV_newScalar v r
    rw [plainT_items t]
    split at h
    · rename_i hl
      simp only [Option.some.injEq] at h; subst h
      rw [plainT_setItems]
      simp only [pViv, plain_lookup_items_none k1 t.items hl, eraseItems_append, itemEntriesToPlain_append]
      simp [eraseItems, itemEntriesToPlain, eraseItem, itemToPlain, freshInl, eraseVal, eraseKvs, valToPlain,
        valEntriesToPlain, newKey, e]
    · rename_i sub hl
      simp only [Option.some.injEq] at h; subst h
      rw [plainT_setItems]
      have h1 := plain_lookup_items k1 t.items _ hl
      simp only [plainI, eraseItem, itemToPlain] at h1
      have h2 : toPlain (eraseTbl sub) = .tbl (itemEntriesToPlain (eraseItems sub.items)) := plainT_items sub
      rw [h2] at h1
      simp only [pViv, h1, plain_creplace_items]
      have h3 := plainT_setItems sub (cset (newKey k2 (rs.getD 1 .empty)) (.value (newScalar v (rs.getD 2 .empty))) sub.items)
      simp only [plainT] at h3
      simp only [plainI, eraseItem, itemToPlain, h3, plain_cset_items]
      simp [newKey, e]
    · rename_i items pre imp dot d sp hl
      simp only [Option.some.injEq] at h; subst h
      rw [plainT_setItems]
      have h1 := plain_lookup_items k1 t.items _ hl
      simp only [plainI, eraseItem, itemToPlain, eraseVal, valToPlain] at h1
      simp only [pViv, h1, plain_creplace_items]
      simp only [plainI, eraseItem, itemToPlain, eraseVal, valToPlain, plain_cset_kvs]
      simp [newKey, plainV, e]
    · cases h
  val x x' h := by simp [Op.upd, noVal] at h
  aot ts ts' h := by simp [Op.upd, noAot] at h

/-! ### `arr2aot` -/

theorem plain_allInl : ∀ (items : List CVal) (ls : List (List (CKey × CVal))), allInl items = some ls →
    tblsToPlain (eraseTbls (ls.map inlToTbl)) = valsToPlain (eraseVals items)
  | [], ls, h => by
    simp only [allInl, Option.some.injEq] at h; subst h; rfl
  | .inl items _ _ _ _ _ :: r, ls, h => by
    simp only [allInl] at h
    obtain ⟨l, hl, rfl⟩ := Option.map_eq_some_iff.mp h
    have ih := plain_allInl r l hl
    have h1 := plain_inlToTbl items
    simp only [plainT] at h1
    simp [eraseTbls, tblsToPlain, eraseVals, valsToPlain, eraseVal, valToPlain, ih, h1]
  | .scalar _ _ _ :: _, _, h => by simp [allInl] at h
  | .arr _ _ _ _ _ :: _, _, h => by simp [allInl] at h

/-- `Item::into_array_of_tables` keeps the plain content: an array of tables either way -/
theorem refines_arr2aot (k : Bytes) (rs : List Raw) : Refines ((Op.arr2aot k).upd rs) pId where
  tbl t t' h := by
    refine plain_convAt k _ ?_ t t' h
    intro it it' hc
    cases it with
    | value v =>
      cases v with
      | arr items tr c d s =>
        simp only [convArrAot] at hc
        split at hc
        · cases hc
        · split at hc
          · rename_i ls hls
            simp only [Option.some.injEq] at hc; subst hc
            have := plain_allInl items ls hls
            simp [plainI, eraseItem, itemToPlain, eraseVal, valToPlain, this]
          · cases hc
      | scalar _ _ _ => simp [convArrAot] at hc
      | inl _ _ _ _ _ _ => simp [convArrAot] at hc
    | table _ => simp [convArrAot] at hc
    | aot _ _ => simp [convArrAot] at hc
  val x x' h := by simp [Op.upd, noVal] at h
  aot ts ts' h := by simp [Op.upd, noAot] at h

end TomlVerif.Lemmas.Refine08b
